import HbsModel.Driver
open Hbs Hbs.Driver

partial def loop (env : Env) (h : IO.FS.Stream) (out : IO.FS.Stream) : IO Unit := do
  let line ← h.getLine
  if line.isEmpty then return ()
  let l := line.trimAsciiEnd.toString
  if l.isEmpty then loop env h out else
  out.putStrLn (processLine env l)
  loop env h out

def main : IO Unit := do
  let env : Env := {}
  let stdin ← IO.getStdin
  let stdout ← IO.getStdout
  loop env stdin stdout
