import HbsModel.Registry
/-
  Reference semantics of the registry: a map  name ↦ registration.
-/
namespace Hbs.Spec
open Hbs

/-- what a name stands for -/
inductive Registration where
  | compiled (t : Tmpl)                 -- a template compiled at registration
  | tracked (t : Tmpl) (path : Str)     -- dev mode: re-read from `path` at render time (t = last compiled copy)

abbrev RegMap := List (Str × Registration)

def RegMap.has (m : RegMap) (n : Str) : Bool := (assocGet m n).isSome
def RegMap.keys (m : RegMap) : List Str := m.map (·.1)

/-- the abstraction: which registration each name has in a concrete registry -/
def absReg (r : Registry) : RegMap :=
  r.templates.map (fun (n, t) =>
    match (if r.dev then assocGet r.sources n else none) with
    | some p => (n, Registration.tracked t p)
    | none => (n, Registration.compiled t))

end Hbs.Spec
