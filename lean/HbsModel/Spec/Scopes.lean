import HbsModel.Json
/-
  Reference semantics of paths: a scope is a VALUE; a path walks down from it.
-/
namespace Hbs.Spec
open Hbs

/-- one step down: a field of an object, an element of an array by decimal index; `none` when the
    step leaves the data (absent key, index past the end, stepping into a scalar). A non-numeric
    segment applied to an array is outside the specification (`none` here; the code raises
    InvalidJsonIndex) -/
def step (v : Json) (k : Str) : Option Json :=
  match v with
  | .obj m => m.get? k
  | .arr a => (parseUsize? k).bind (fun i => a.get? i)
  | _ => none

/-- walk a list of segments down from `v` -/
def descend (v : Json) : List Str → Option Json
  | [] => some v
  | k :: ks => (step v k).bind (fun v' => descend v' ks)

/-- no segment addresses an array with a non-numeric key on the way (the domain where the code
    raises no InvalidJsonIndex) -/
def indexSafe (v : Json) : List Str → Bool
  | [] => true
  | k :: ks =>
    match v with
    | .arr a => (parseUsize? k).isSome && (match (parseUsize? k).bind (fun i => a.get? i) with
        | some v' => indexSafe v' ks
        | none => true)
    | .obj m => (match m.get? k with
        | some v' => indexSafe v' ks
        | none => true)
    | _ => true

end Hbs.Spec
