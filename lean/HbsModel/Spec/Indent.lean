import HbsModel.Basic
/-
  Reference for C12: `with_indent` – insert the indent after every line feed that is not the last
  character of the chunk.
-/
namespace Hbs.Spec
open Hbs

def withIndent (ind : Str) : Str → Str
  | [] => []
  | c :: t => if c == '\n' && !t.isEmpty then c :: (ind ++ withIndent ind t) else c :: withIndent ind t

end Hbs.Spec
