import HbsModel.Compile
import HbsModel.Generated.MacroTable
/-
  Model of render.rs, context.rs, block.rs, local_vars.rs, partial.rs, helpers/*, decorators/inline.rs,
  support.rs (write_indented) and output.rs.  Deliberately not tidy: it has the four indentation
  flags, the in-place base_path update of `each`, `partial_block_depth` that is incremented and
  never restored, `current_template` overwritten by inner templates, and so on.
-/
namespace Hbs
open Hbs.Pest Hbs.Grammar

/-! ## errors -/

inductive RReason where
  | templateNotFound (n : Str)
  | templateError (e : TemplateError)
  | missingVariable (p : Option Str)
  | partialNotFound (n : Str)
  | helperNotFound (n : Str)
  | paramNotFoundForIndex (h : Str) (i : Nat)
  | paramNotFoundForName (h n : Str)
  | paramTypeMismatchForName (h n t : Str)
  | hashTypeMismatchForName (h n t : Str)
  | decoratorNotFound (n : Str)
  | cannotIncludeSelf
  | invalidLoggingLevel (l : Str)
  | invalidParamType (t : Str)
  | blockContentRequired
  | invalidJsonPath (p : Str)
  | invalidJsonIndex (s : Str)
  | serdeError
  | ioError
  | utf8Error
  | unimplemented
  | other (s : Str)
deriving DecidableEq, Repr

structure RenderError where
  reason : RReason
  name : Option Str := none
  line : Option Nat := none
  col : Option Nat := none
deriving DecidableEq, Repr

def RenderError.of (r : RReason) : RenderError := { reason := r }
def strictError (p : Option Str) : RenderError := .of (.missingVariable p)

/-! ## values -/

/-- `ScopedJson` -/
inductive SJ where
  | constant (j : Json)
  | derived (j : Json)
  | context (j : Json) (path : List Str)
  | missing

def SJ.asJson : SJ → Json
  | .constant j => j
  | .derived j => j
  | .context j _ => j
  | .missing => .null
def SJ.isMissing : SJ → Bool | .missing => true | _ => false
def SJ.contextPath : SJ → Option (List Str) | .context _ p => some p | _ => none

/-- `PathAndJson` -/
structure PJ where
  relPath : Option Str
  value : SJ

def PJ.json (p : PJ) : Json := p.value.asJson
def PJ.isMissing (p : PJ) : Bool := p.value.isMissing
def PJ.contextPath (p : PJ) : Option (List Str) := p.value.contextPath

/-! ## blocks -/

inductive Holder where
  | path (p : List Str)
  | value (j : Json)

structure LocalVars where
  first : Option Json := none
  last : Option Json := none
  index : Option Json := none
  key : Option Json := none
  extra : List (Str × Json) := []

def assocGet {α : Type} (l : List (Str × α)) (k : Str) : Option α :=
  match l with
  | [] => none
  | (k', v) :: t => if k' == k then some v else assocGet t k

def assocRemove {α : Type} (l : List (Str × α)) (k : Str) : List (Str × α) :=
  l.filter (fun p => p.1 != k)

def LocalVars.put (lv : LocalVars) (k : Str) (v : Json) : LocalVars :=
  if k == str "first" then { lv with first := some v }
  else if k == str "last" then { lv with last := some v }
  else if k == str "index" then { lv with index := some v }
  else if k == str "key" then { lv with key := some v }
  else { lv with extra := hashInsert lv.extra k v }

def LocalVars.get (lv : LocalVars) (k : Str) : Option Json :=
  if k == str "first" then lv.first
  else if k == str "last" then lv.last
  else if k == str "index" then lv.index
  else if k == str "key" then lv.key
  else assocGet lv.extra k

/-- `BlockContext` -/
structure Block where
  basePath : List Str := []
  baseValue : Option Json := none
  blockParams : List (Str × Holder) := []
  locals : LocalVars := {}

/-! ## helper / decorator definitions known to the model -/

/-- type tokens of `handlebars_helper!` (regenerated accessor table decides their meaning) -/
inductive TyTok where
  | tObject | tArray | tStr | tI64 | tU64 | tF64 | tBool | tNull | tJson | tSerdeString | tSerdeVecU64 | tSerdeU32 | tSerdeI32
deriving DecidableEq, Repr

structure MacroSig where
  name : Str
  params : List (Str × TyTok)
  opts : List (Str × TyTok × Json)
  args : Bool
  kwargs : Bool
  retFirst : Bool := false     -- harness family: the body returns its first parameter instead of the record

inductive HelperKind where
  | ifH (positive : Bool) | each | withH | lookup | raw | log
  | eq | ne | gt | gte | lt | lte | andH | orH | notH | len
  -- defined by the harness, mirrored here
  | mark (tag : Str) | probe | evalp | rcstate | vret | counter | wr | incl
  | macroH (sig : MacroSig)

inductive DecoKind where
  | inline | setctx | sethelper

/-- the registry as the renderer sees it -/
structure Registry where
  templates : List (Str × Tmpl) := []
  helpers : List (Str × HelperKind) := []
  decorators : List (Str × DecoKind) := []
  escape : Str → Str := id
  strict : Bool := false
  dev : Bool := false
  preventIndent : Bool := false
  sources : List (Str × Str) := []      -- name ↦ file path (dev mode)

/-! ## render context and output -/

structure RC where
  blocks : List Block := [{}]
  modifiedCtx : Option Json := none
  partials : List (Str × Tmpl) := []
  pbStack : List (Tmpl × Option Nat) := []     -- innermost LAST; each remembers the binding where it was written
  pbBinding : Option Nat := none               -- the entry `@partial-block` denotes
  localHelpers : List (Str × HelperKind) := []
  currentTemplate : Option Str := none
  rootTemplate : Option Str := none
  disableEscape : Bool := false
  trailingNewline : Bool := false
  contentProduced : Bool := false
  indentBeforeWrite : Bool := false
  indentString : Option Str := none
  devTemplates : Option (List (Str × Tmpl)) := none
  counter : Nat := 0                          -- invocations of the harness's `counter` helper

/-- the writer: the write calls so far (newest first) and the fault index of C19 -/
structure Out where
  segs : List Str := []
  count : Nat := 0
  failAt : Option Nat := none

def Out.text (o : Out) : Str := o.segs.reverse.flatten

inductive RRes (α : Type) where
  | ok (a : α) (rc : RC) (out : Out)
  | err (e : RenderError) (out : Out)
  | panic (site : String)
  | fuel

def RM (α : Type) := RC → Out → RRes α

namespace RM
def ret {α : Type} (a : α) : RM α := fun rc out => .ok a rc out
def bnd {α β : Type} (x : RM α) (f : α → RM β) : RM β := fun rc out =>
  match x rc out with
  | .ok a rc' out' => f a rc' out'
  | .err e o => .err e o
  | .panic s => .panic s
  | .fuel => .fuel
instance : Monad RM where
  pure := RM.ret
  bind := RM.bnd
def get : RM RC := fun rc out => .ok rc rc out
def modify (f : RC → RC) : RM Unit := fun rc out => .ok () (f rc) out
def throw {α : Type} (e : RenderError) : RM α := fun _ out => .err e out
def throwR {α : Type} (r : RReason) : RM α := throw (.of r)
def panic {α : Type} (s : String) : RM α := fun _ _ => .panic s
def outOfFuel {α : Type} : RM α := fun _ _ => .fuel
/-- `result.map_err(f)` -/
def mapErr {α : Type} (x : RM α) (f : RenderError → RenderError) : RM α := fun rc out =>
  match x rc out with
  | .err e o => .err (f e) o
  | r => r
/-- run `x` against a private `StringOutput`; the user's writer is untouched -/
def captured {α : Type} (x : RM α) : RM (α × Str) := fun rc out =>
  match x rc {} with
  | .ok a rc' o => .ok (a, o.text) rc' out
  | .err e _ => .err e out
  | .panic s => .panic s
  | .fuel => .fuel
/-- run `x`; on success apply the cleanup `c` to the state (an error result is handed on as it is) -/
def withCleanup (x : RM Unit) (c : RC → RC) : RM Unit := fun rc0 out0 =>
  match x rc0 out0 with
  | .ok () rc1 out1 => .ok () (c rc1) out1
  | r => r
/-- enter a scope, run `x`, leave it: `enter` prepares the state, `leave saved after` computes the state
    that is handed on from the state saved before entering and the one `x` ended in.  An error result is
    handed on as it is (nothing is restored: the render is over). -/
def bracket {α : Type} (enter : RC → RC) (x : RM α) (leave : RC → RC → RC) : RM α := fun rc0 out0 =>
  match x (enter rc0) out0 with
  | .ok a rc1 out1 => .ok a (leave rc0 rc1) out1
  | r => r
/-- a state update that leaves the FRAME alone – scope stack, escaping, indentation string and the
    `@partial-block` binding are copied back from the state before.  Every plain update in the renderer
    is one of these (write-state flags, template name, inline partials, local helpers, the replaced
    context, the harness's counter); the frame is changed only by the bracketing combinators below. -/
def modifyAux (f : RC → RC) : RM Unit :=
  modify (fun rc =>
    let n := f rc
    { n with blocks := rc.blocks, disableEscape := rc.disableEscape, indentString := rc.indentString,
             pbStack := rc.pbStack, pbBinding := rc.pbBinding })
/-- run `x` with one more block on the scope stack (`push_block` … `pop_block`) -/
def withBlock {α : Type} (b : Block) (x : RM α) : RM α :=
  bracket (fun rc => { rc with blocks := b :: rc.blocks }) x (fun _ rc => { rc with blocks := rc.blocks.drop 1 })
/-- `set_disable_escape(true)` … `set_disable_escape(false)` of `{{{ }}}` / `{{& }}` -/
def escOffReset {α : Type} (x : RM α) : RM α :=
  bracket (fun rc => { rc with disableEscape := true }) x (fun _ rc => { rc with disableEscape := false })
/-- escaping off for the duration of a subexpression call, then put back to what it was -/
def escOffSaved {α : Type} (x : RM α) : RM α :=
  bracket (fun rc => { rc with disableEscape := true }) x (fun saved rc => { rc with disableEscape := saved.disableEscape })
/-- the scope of a partial inclusion (`expand_partial`): a fresh scope stack holding the merged context,
    the partial's indentation, the block body (if any) as what `@partial-block` denotes – inside a
    `{{> @partial-block}}` body it first falls back to what it meant where the body was written –
    and everything, the template name included, put back afterwards -/
def partialScope (isPartialBlock : Bool) (merged : Json) (indent : Option Str) (pb : Option Tmpl) (x : RM Unit) : RM Unit :=
  bracket
    (fun rc =>
      let rc := if isPartialBlock then
          { rc with pbBinding := (rc.pbBinding.bind (fun i => rc.pbStack[i]?)).bind (·.2) }
        else rc
      let rc := { rc with blocks := [{ baseValue := some merged }], indentString := indent }
      match pb with
      | some t => { rc with pbStack := rc.pbStack ++ [(t, rc.pbBinding)], pbBinding := some rc.pbStack.length }
      | none => rc)
    x
    (fun saved rc =>
      { rc with
        pbStack := (if pb.isSome then rc.pbStack.dropLast else rc.pbStack),
        pbBinding := saved.pbBinding,
        blocks := saved.blocks,
        currentTemplate := saved.currentTemplate,
        indentString := saved.indentString })
/-- `Output::write` : an empty segment reaches no writer call (`write_all` on an empty buffer) -/
def write (s : Str) : RM Unit := fun rc out =>
  if s.isEmpty then .ok () rc out
  else if out.failAt == some out.count then .err (.of .ioError) out
  else .ok () rc { out with segs := s :: out.segs, count := out.count + 1 }
end RM

open RM

/-- what the element loop of `Renderable for Template` does to an error of element `i`: an error without
    a position gets `mapping[i]`; an error without a template name gets the template's -/
def decorateRender (tname : Option Str) (mapping : List (Nat × Nat)) (er : RenderError) : RenderError :=
  let er := if er.line.isNone then
      match mapping.head? with
      | some (l, c) => { er with line := some l, col := some c }
      | none => er
    else er
  if er.name.isNone then { er with name := tname } else er

/-- the same in `Evaluable for Template` (decorators): the name is always the template's -/
def decorateEval (tname : Option Str) (mapping : List (Nat × Nat)) (er : RenderError) : RenderError :=
  let er := if er.line.isNone then
      match mapping.head? with
      | some (l, c) => { er with line := some l, col := some c }
      | none => er
    else er
  { er with name := tname }

theorem decorateRender_reason (tname : Option Str) (mapping : List (Nat × Nat)) (er : RenderError) :
    (decorateRender tname mapping er).reason = er.reason := by
  unfold decorateRender; simp only []; repeat' split
  all_goals rfl

theorem decorateEval_reason (tname : Option Str) (mapping : List (Nat × Nat)) (er : RenderError) :
    (decorateEval tname mapping er).reason = er.reason := by
  unfold decorateEval; simp only []; repeat' split
  all_goals rfl

/-! ## json paths at render time -/

/-- `merge_json_path` -/
def mergeJsonPath (stack : List Str) (segs : List PathSeg) : List Str :=
  stack ++ segs.filterMap (fun s => match s with | .named n => some n | _ => none)

/-- `get_in_block_params` -/
def getInBlockParams (blocks : List Block) (p : Str) : Option (Holder × List Str) :=
  match blocks with
  | [] => none
  | b :: rest =>
    match assocGet b.blockParams p with
    | some h => some (h, b.basePath)
    | none => getInBlockParams rest p

inductive Resolved where
  | absolute (p : List Str)
  | relative (p : List Str)
  | blockParamValue (p : List Str) (v : Json)
  | localValue (p : List Str) (v : Json)

/-- the peek loop of `parse_json_visitor`: (path_context_depth, with_block_param, from_root) -/
def visitorScan (blocks : List Block) : List PathSeg → Nat → Nat × Option (Holder × List Str) × Bool
  | [], d => (d, none, false)
  | .named n :: _, d => (d, getInBlockParams blocks n, false)
  | .root :: _, d => (d, none, true)
  | .up :: rest, d => visitorScan blocks rest (d + 1)
  | .loc :: _, d => (d, none, false)

def sliceFrom? {α : Type} (l : List α) (n : Nat) : Option (List α) :=
  if n ≤ l.length then some (l.drop n) else none

/-- `parse_json_visitor`; `none` = the slice `relative_path[(depth+1)..]` panics -/
def parseJsonVisitor (segs : List PathSeg) (blocks : List Block) (alwaysAbs : Bool) : Option Resolved :=
  let (depth, bp, fromRoot) := visitorScan blocks segs 0
  match bp with
  | some (.value v, _) =>
    (sliceFrom? segs (depth + 1)).map (fun rest => .blockParamValue (mergeJsonPath [] rest) v)
  | some (.path ps, base) =>
    (sliceFrom? segs (depth + 1)).map (fun rest => .absolute (mergeJsonPath (base ++ ps) rest))
  | none =>
    if depth > 0 then
      let blk := match blocks[depth]? with
        | some b => some b
        | none => blocks.head?
      match blk.bind (·.baseValue) with
      | some bv => some (.localValue (mergeJsonPath [] segs) bv)
      | none =>
        let base := match blk with | some b => b.basePath | none => []
        some (.absolute (mergeJsonPath base segs))
    else if fromRoot then some (.absolute (mergeJsonPath [] segs))
    else if alwaysAbs then
      match blocks.head?.bind (·.baseValue) with
      | some bv => some (.localValue (mergeJsonPath [] segs) bv)
      | none =>
        let base := match blocks.head? with | some b => b.basePath | none => []
        some (.absolute (mergeJsonPath base segs))
    else some (.relative (mergeJsonPath [] segs))

/-- `get_data` : `Except` the InvalidJsonIndex payload -/
def getData (d : Option Json) (p : Str) : Except Str (Option Json) :=
  match d with
  | some (.arr l) =>
    match parseUsize? p with
    | some i => .ok (l.get? i)
    | none => .error p
  | some (.obj m) => .ok (m.get? p)
  | _ => .ok none

def walk (d : Option Json) : List Str → Except Str (Option Json)
  | [] => .ok d
  | p :: ps =>
    match getData d p with
    | .ok d' => walk d' ps
    | .error e => .error e

/-- `Context::navigate` -/
def navigate (root : Json) (segs : List PathSeg) (blocks : List Block) : RM SJ :=
  match parseJsonVisitor segs blocks true with
  | none => RM.panic "ctx.slice"
  | some (.absolute paths) =>
    match walk (some root) paths with
    | .ok (some v) => pure (.context v paths)
    | .ok none => pure .missing
    | .error e => throwR (.invalidJsonIndex e)
  | some (.relative _) => RM.panic "ctx.relative"
  | some (.blockParamValue paths v) | some (.localValue paths v) =>
    match walk (some v) paths with
    | .ok (some v) => pure (.derived v)
    | .ok none => pure .missing
    | .error e => throwR (.invalidJsonIndex e)

/-- `RenderContext::evaluate2` -/
def evaluate2 (root : Json) (p : Path) : RM SJ := do
  let rc ← get
  match p with
  | .localVar level name _ =>
    match (rc.blocks[level]?).bind (·.locals.get name) with
    | some v => pure (.derived v)
    | none => pure .missing
  | .relative segs _ => navigate root segs rc.blocks

/-- `Path::parse` : re-parse a raw path with the `path` rule -/
def Path.parse (raw : Str) : Option Path :=
  match Pest.parse Grammar.rules Grammar.ws .r_path raw with
  | .ok _ toks =>
    let (segs, _) := parsePathSegs raw raw.length (attachEscapes toks) []
    some (Path.new raw segs)
  | _ => none

/-- `RenderContext::evaluate` -/
def evaluate (root : Json) (raw : Str) : RM SJ :=
  match Path.parse raw with
  | some p => evaluate2 root p
  | none => throwR (.invalidJsonPath raw)

/-- `merge_json` -/
def mergeJson (base : Json) (addition : List (Str × Json)) : Json :=
  if addition.isEmpty then base
  else
    let baseMap : JObj := match base with
      | .obj m => m
      | .arr a => JObj.ofList (a.toList.zipIdx.map (fun (v, i) => (natToStr i, v)))
      | .str s => JObj.ofList (s.zipIdx.map (fun (c, i) => (natToStr i, Json.str [c])))
      | _ => .nil
    .obj (addition.foldl (fun m (k, v) => m.insert k v) baseMap)

/-! ## writing -/

/-- split at the first line feed: (text before it, the rest after it) – `s[i..].find('\n')` -/
def splitAtNl : Str → Str × Option Str
  | [] => ([], none)
  | c :: t =>
    if c == '\n' then ([], some t)
    else match splitAtNl t with
      | (l, r) => (c :: l, r)

/-- `support::str::write_indented` : the segments it writes, in order -/
def indentedSegments (indent : Str) : Nat → Str → List Str
  | 0, _ => []
  | fuel + 1, s =>
    match splitAtNl s with
    | (line, none) => [line]                       -- no newline left: write the rest
    | (line, some rest) =>
      let seg := line ++ ['\n']
      if rest.isEmpty then [seg] else seg :: indent :: indentedSegments indent fuel rest

def writeAll : List Str → RM Unit
  | [] => pure ()
  | s :: ss => do write s; writeAll ss

def writeIndented (v indent : Str) : RM Unit := writeAll (indentedSegments indent (v.length + 1) v)

/-- `indent_aware_write` -/
def indentAwareWrite (v : Str) : RM Unit :=
  if v.isEmpty then pure () else do
    modifyAux (fun rc => { rc with contentProduced := true })
    let rc ← get
    if !startsWithNewline v && rc.indentBeforeWrite then
      match rc.indentString with
      | some ind => write ind
      | none => pure ()
    match rc.indentString with
    | some ind => writeIndented v ind
    | none => write v
    let tn := endsWithNewline v
    modifyAux (fun rc => { rc with trailingNewline := tn, indentBeforeWrite := tn })

/-- `do_escape` -/
def doEscape (reg : Registry) (rc : RC) (s : Str) : Str :=
  if !rc.disableEscape then reg.escape s else s

/-! ## run-time helper / decorator data -/

structure HelperI where
  name : Str
  params : List PJ
  hash : List (Str × PJ)
  template : Option Tmpl
  inverse : Option Tmpl
  blockParam : Option BlockParam
  block : Bool

structure DecoI where
  name : Str
  params : List PJ
  hash : List (Str × PJ)
  template : Option Tmpl
  indent : Option Str

def HelperI.blockParam1 (h : HelperI) : Option Str :=
  match h.blockParam with | some (.single a) => some a | _ => none
def HelperI.blockParamPair (h : HelperI) : Option (Str × Str) :=
  match h.blockParam with | some (.pair a b) => some (a, b) | _ => none

def HELPER_MISSING : Str := str "helperMissing"
def BLOCK_HELPER_MISSING : Str := str "blockHelperMissing"
def PARTIAL_BLOCK : Str := str "@partial-block"

def HelperKind.hasInner : HelperKind → Bool
  | .lookup | .eq | .ne | .gt | .gte | .lt | .lte | .andH | .orH | .notH | .len | .vret | .macroH _ => true
  | _ => false

/-! ## comparison helpers (helper_extras.rs) -/

/-- `cmp_nums` : the 3×3 dispatch on representations; `none` would be a `?` failure -/
def cmpNums (a b : Num) : Option Ordering :=
  if a.isU64 then
    match a.asU64? with
    | none => none
    | some _ => some (Num.cmp a b)
  else if a.isI64 then
    match a.asI64? with
    | none => none
    | some _ => some (Num.cmp a b)
  else some (Num.cmp a b)

def cmpNumStr (a : Num) (b : Str) : Option Ordering :=
  match Num.ofText b with
  | some bn => cmpNums a bn
  | none => none

def Ordering.rev : Ordering → Ordering | .lt => .gt | .gt => .lt | .eq => .eq

/-- `compare_json` -/
def compareJson (x y : Json) : Option Ordering :=
  match x, y with
  | .num a, .num b => cmpNums a b
  | .str a, .str b => some (strCmp a b)
  | .bool a, .bool b => some (compare a.toNat b.toNat)
  | .num a, .str b => cmpNumStr a b
  | .str a, .num b => (cmpNumStr b a).map Ordering.rev
  | _, _ => none

/-! ## handlebars_helper! -/

/-- the accessors named by the regenerated `@as_json_value` arms, applied to a value; the result is
    the converted value as JSON (what `json!(x)` of the typed value gives) -/
def applyAccessor (acc : String) (x : Json) : Option Json :=
  match acc, x with
  | "as_object", .obj m => some (.obj m)
  | "as_array", .arr a => some (.arr a)
  | "as_str", .str s => some (.str s)
  | "as_i64", .num n => (n.asI64?).map (fun _ => .num n)
  | "as_u64", .num n => (n.asU64?).map (fun _ => .num n)
  | "as_f64", .num n => some (.num (match n with
      | .pos k => .flt (natToF64 k)
      | .neg k => .flt (natToF64 k + 2 ^ 63)
      | .flt b => .flt b))
  | "as_bool", .bool b => some (.bool b)
  | "as_null", .null => some .null
  | "identity", v => some v
  | _, _ => none

def TyTok.token : TyTok → String
  | .tObject => "object" | .tArray => "array" | .tStr => "str" | .tI64 => "i64"
  | .tU64 => "u64" | .tF64 => "f64" | .tBool => "bool" | .tNull => "null"
  | .tJson => "Json" | .tSerdeString => "String" | .tSerdeVecU64 => "Vec" | .tSerdeU32 => "u32" | .tSerdeI32 => "i32"

def lookupAccessor (tbl : List (String × String)) (tok : String) : Option String :=
  match tbl with
  | [] => none
  | (k, v) :: t => if k == tok then some v else lookupAccessor t tok

/-- `serde_json::from_value::<T>(x.clone()).ok()` for the serde types the harness family uses: String, Vec<u64> and the
    narrower integers u32 / i32 (an integer outside the type's range is no value of the type; a float never is) -/
def fromValue (t : TyTok) (x : Json) : Option Json :=
  match t, x with
  | .tSerdeU32, .num (.pos k) => if k < 2 ^ 32 then some (.num (.pos k)) else none
  | .tSerdeI32, .num (.pos k) => if k < 2 ^ 31 then some (.num (.pos k)) else none
  | .tSerdeI32, .num (.neg k) => if k ≤ 2 ^ 31 then some (.num (.neg k)) else none
  | .tSerdeString, .str s => some (.str s)
  | .tSerdeVecU64, .arr a =>
    if a.toList.all (fun v => match v with | .num (.pos _) => true | _ => false) then some (.arr a) else none
  | _, _ => none

/-- `@as_json_value x, tpe` over a table of arms -/
def asJsonValueWith (tbl : List (String × String)) (t : TyTok) (x : Json) : Option Json :=
  match lookupAccessor tbl t.token with
  | some acc => applyAccessor acc x
  | none => fromValue t x

/-- `@as_json_value x, tpe` of the current source -/
def asJsonValue (t : TyTok) (x : Json) : Option Json := asJsonValueWith Generated.macroAccessors t x

def TyTok.text : TyTok → Str
  | .tObject => str "object" | .tArray => str "array" | .tStr => str "str" | .tI64 => str "i64"
  | .tU64 => str "u64" | .tF64 => str "f64" | .tBool => str "bool" | .tNull => str "null"
  | .tJson => str "Json" | .tSerdeString => str "String" | .tSerdeVecU64 => str "Vec< u64 >" | .tSerdeU32 => str "u32" | .tSerdeI32 => str "i32"

/-- positional parameters of the expansion, in order -/
def macroParams (strict : Bool) (sig : MacroSig) (h : HelperI) :
    List (Str × TyTok) → Nat → List Json → Except RReason (List Json)
  | [], _, acc => .ok acc.reverse
  | (pname, ty) :: rest, idx, acc =>
    match h.params[idx]? with
    | none => .error (.paramNotFoundForName sig.name pname)
    | some x =>
      if strict && x.isMissing then .error (.paramNotFoundForName sig.name pname)
      else match asJsonValue ty x.json with
        | some v => macroParams strict sig h rest (idx + 1) (v :: acc)
        | none => .error (.paramTypeMismatchForName sig.name pname ty.text)

def macroOpts (sig : MacroSig) (h : HelperI) :
    List (Str × TyTok × Json) → List (Str × Json) → Except RReason (List (Str × Json))
  | [], acc => .ok acc.reverse
  | (oname, ty, dflt) :: rest, acc =>
    match assocGet h.hash oname with
    | none => macroOpts sig h rest ((oname, dflt) :: acc)
    | some x =>
      match asJsonValue ty x.json with
      | some v => macroOpts sig h rest ((oname, v) :: acc)
      | none => .error (.hashTypeMismatchForName sig.name oname ty.text)

/-- the expansion of `handlebars_helper!`; the body of every harness-defined macro helper is
    `json!({"p":[params..], "o":{opts..}, "a":args?, "k":kwargs?})` -/
def macroCallInner (strict : Bool) (sig : MacroSig) (h : HelperI) : Except RReason Json :=
  match macroParams strict sig h sig.params 0 [] with
  | .error e => .error e
  | .ok ps =>
    match macroOpts sig h sig.opts [] with
    | .error e => .error e
    | .ok os =>
      if sig.retFirst then .ok (ps.head?.getD .null) else
      let fields : List (Str × Json) :=
        [(str "p", .arr (JList.ofList ps)), (str "o", .obj (JObj.ofList os))]
        ++ (if sig.args then [(str "a", .arr (JList.ofList (h.params.map (·.json))))] else [])
        ++ (if sig.kwargs then [(str "k", .obj (JObj.ofList (h.hash.map (fun (k, v) => (k, v.json)))))] else [])
      .ok (.obj (JObj.ofList fields))

/-! ## call_inner of the value helpers -/

def boolJson (b : Bool) : SJ := .derived (.bool b)

def param2 (hname : Str) (h : HelperI) : Except RReason (Json × Json) :=
  match h.params[0]?, h.params[1]? with
  | some x, some y => .ok (x.json, y.json)
  | none, _ => .error (.paramNotFoundForName hname (str "x"))
  | some _, none => .error (.paramNotFoundForName hname (str "y"))

/-- binary extras are `handlebars_helper!(op: |x: Json, y: Json| …)` -/
def binaryExtra (strict : Bool) (hname : Str) (h : HelperI) (f : Json → Json → Bool) : Except RReason SJ :=
  let sig : MacroSig := { name := hname, params := [(str "x", .tJson), (str "y", .tJson)], opts := [], args := false, kwargs := false }
  match macroParams strict sig h sig.params 0 [] with
  | .ok [x, y] => .ok (boolJson (f x y))
  | .ok _ => .error .unimplemented
  | .error e => .error e

def unaryExtra (strict : Bool) (hname : Str) (h : HelperI) (f : Json → Json) : Except RReason SJ :=
  let sig : MacroSig := { name := hname, params := [(str "x", .tJson)], opts := [], args := false, kwargs := false }
  match macroParams strict sig h sig.params 0 [] with
  | .ok [x] => .ok (.derived (f x))
  | .ok _ => .error .unimplemented
  | .error e => .error e

def jsonLen : Json → Nat
  | .arr a => a.length
  | .obj m => m.length
  | .str s => utf8Len s
  | _ => 0

/-- `HelperDef::call_inner` of the helpers that define it -/
def callInner (reg : Registry) (k : HelperKind) (h : HelperI) : Except RReason SJ :=
  match k with
  | .lookup =>
    match h.params[0]?, h.params[1]? with
    | none, _ => .error (.paramNotFoundForIndex (str "lookup") 0)
    | some _, none => .error (.paramNotFoundForIndex (str "lookup") 1)
    | some c, some i =>
      let v : Option Json := match c.json with
        | .arr a => (i.json.asU64?).bind (fun u => a.get? u)
        | .obj m => (i.json.asStr?).bind (fun key => m.get? key)
        | _ => none
      if reg.strict && v.isNone then .error (.missingVariable none)
      else .ok (.derived (v.getD .null))
  | .eq => binaryExtra reg.strict (str "eq") h (fun x y => Json.beq x y)
  | .ne => binaryExtra reg.strict (str "ne") h (fun x y => !Json.beq x y)
  | .gt => binaryExtra reg.strict (str "gt") h (fun x y => compareJson x y == some .gt)
  | .gte => binaryExtra reg.strict (str "gte") h (fun x y => match compareJson x y with | some o => o != .lt | none => false)
  | .lt => binaryExtra reg.strict (str "lt") h (fun x y => compareJson x y == some .lt)
  | .lte => binaryExtra reg.strict (str "lte") h (fun x y => match compareJson x y with | some o => o != .gt | none => false)
  | .notH => unaryExtra reg.strict (str "not") h (fun x => .bool (!x.truthy false))
  | .len => unaryExtra reg.strict (str "len") h (fun x => .num (.pos (jsonLen x)))
  | .andH => .ok (boolJson (h.params.all (fun p => p.json.truthy false)))
  | .orH => .ok (boolJson (h.params.any (fun p => p.json.truthy false)))
  | .vret =>
    match h.params[0]? with
    | some p => if p.isMissing then .ok .missing else .ok (.derived p.json)
    | none => .ok .missing
  | .macroH sig =>
    match macroCallInner reg.strict sig h with
    | .ok v => .ok (.derived v)
    | .error e => .error e
  | _ => .error .unimplemented

/-! ## block helpers' bookkeeping -/

/-- `create_block` -/
def createBlock (p : PJ) : Block :=
  match p.contextPath with
  | some path => { basePath := path }
  | none => { baseValue := some p.json }

def setLast {α : Type} (l : List α) (x : α) : List α :=
  match l.reverse with
  | [] => []
  | _ :: r => (x :: r).reverse

/-- `update_block_context` -/
def updateBlockContext (b : Block) (basePath : Option (List Str)) (rel : Str) (isFirst : Bool) (v : Json) : Block :=
  match basePath with
  | some p =>
    if isFirst then { b with basePath := p ++ [rel] }
    else { b with basePath := setLast b.basePath rel }
  | none => { b with baseValue := some v }

/-- `set_block_param` (helper_each.rs) -/
def setBlockParam (b : Block) (h : HelperI) (basePath : Option (List Str)) (k v : Json) : Block :=
  match h.blockParam1 with
  | some bpVal =>
    let holder := if basePath.isSome then Holder.path [] else Holder.value v
    { b with blockParams := [(bpVal, holder)] }
  | none =>
    match h.blockParamPair with
    | some (bpVal, bpKey) =>
      let holder := if basePath.isSome then Holder.path [] else Holder.value v
      { b with blockParams := hashInsert [(bpVal, holder)] bpKey (Holder.value k) }
    | none => b

def eachIterBlock (b : Block) (h : HelperI) (path : Option (List Str)) (i len : Nat)
    (key : Option Str) (rel : Str) (v : Json) : Block :=
  let isFirst := i == 0
  let isLast := i + 1 == len          -- `i == len - 1` with len ≥ 1 inside an iteration
  let lv := ((b.locals.put (str "first") (.bool isFirst)).put (str "last") (.bool isLast))
  let lv := match key with
    | some k => (lv.put (str "key") (.str k)).put (str "index") (Json.ofNat i)
    | none => lv.put (str "index") (Json.ofNat i)
  let b := { b with locals := lv }
  let b := updateBlockContext b path rel isFirst v
  let kJson := match key with | some k => Json.str k | none => Json.ofNat i
  setBlockParam b h path kJson v

def modifyFrontBlock (f : Block → Block) : RM Unit :=
  modify (fun rc => match rc.blocks with
    | b :: rest => { rc with blocks := f b :: rest }
    | [] => rc)

def logLevelOk (l : Str) : Bool :=
  let lower := l.map lowerAscii
  lower == str "error" || lower == str "warn" || lower == str "info" || lower == str "debug" || lower == str "trace"

/-! ## the renderer -/

def pjDump (p : PJ) : Json :=
  .obj (JObj.ofList [
    (str "v", p.json),
    (str "r", match p.relPath with | some r => .str r | none => .null),
    (str "m", .bool p.isMissing),
    (str "c", match p.contextPath with
      | some c => .arr (JList.ofList (c.map Json.str))
      | none => .null)])

def probeDump (h : HelperI) : Str :=
  (Json.obj (JObj.ofList [
    (str "n", .str h.name),
    (str "p", .arr (JList.ofList (h.params.map pjDump))),
    (str "h", .obj (JObj.ofList (h.hash.map (fun (k, v) => (k, pjDump v))))),
    (str "b", .bool h.block),
    (str "t", .bool h.template.isSome),
    (str "i", .bool h.inverse.isSome),
    (str "bp", .arr (JList.ofList (match h.blockParam with
      | none => []
      | some (.single a) => [Json.str a]
      | some (.pair a b) => [Json.str a, Json.str b])))])).toText

def markLine (tag : Str) (h : HelperI) : Str :=
  let ps := joinWith [','] (h.params.map (fun p => p.json.render))
  let hs := if h.hash.isEmpty then [] else
    '|' :: joinWith [','] (h.hash.map (fun (k, v) => k ++ ['='] ++ v.json.render))
  ['['] ++ tag ++ [':'] ++ h.name ++ [':'] ++ ps ++ hs ++ [']']

def optStr (o : Option Str) : Str := match o with | some s => s | none => str "-"

def rcStateLine (rc : RC) : Str :=
  let b := rc.blocks.head?
  str "{de=" ++ (if rc.disableEscape then str "1" else str "0") ++
  str ",pb=" ++ (if (rc.pbBinding.bind (fun i => rc.pbStack[i]?)).isSome then str "1" else str "0") ++
  str ",ct=" ++ optStr rc.currentTemplate ++
  str ",rt=" ++ optStr rc.rootTemplate ++
  str ",bp=" ++ (match b with | some b => joinWith ['/'] b.basePath | none => str "!") ++
  str ",bv=" ++ (match b.bind (·.baseValue) with | some v => v.render | none => str "-") ++
  str ",n=" ++ natToStr rc.blocks.length ++ str "}"

mutual
  /-- `Parameter::expand_as_name` -/
  def expandAsName (reg : Registry) (root : Json) : Nat → Param → RM Str
    | 0, _ => outOfFuel
    | fuel + 1, p =>
      match p with
      | .name n => pure n
      | .path pa => pure pa.raw
      | .sub _ => do
        let v ← expandParam reg root fuel p
        pure v.json.render
      | .lit j => pure j.render

  /-- `Parameter::expand` -/
  def expandParam (reg : Registry) (root : Json) : Nat → Param → RM PJ
    | 0, _ => outOfFuel
    | fuel + 1, p =>
      match p with
      | .name n => pure ⟨some n, .missing⟩
      | .path pa => do
        let rc ← get
        match rc.modifiedCtx with
        | some c =>
          let r ← evaluate2 c pa
          -- the value is cloned out of the replaced context; a path that designates nothing stays missing
          pure ⟨some pa.raw, if r.isMissing then .missing else .derived r.asJson⟩
        | none =>
          let r ← evaluate2 root pa
          pure ⟨some pa.raw, r⟩
      | .lit j => pure ⟨none, .constant j⟩
      | .sub ht => do
        let name ← expandAsName reg root fuel ht.name
        let h ← helperFromTemplate reg root fuel ht
        let rc ← get
        match assocGet rc.localHelpers name with
        | some d => callHelperForValue reg root fuel d h
        | none =>
          let helper := match assocGet reg.helpers name with
            | some d => some d
            | none => assocGet reg.helpers (if ht.block then BLOCK_HELPER_MISSING else HELPER_MISSING)
          match helper with
          | some d => callHelperForValue reg root fuel d h
          | none => throwR (.helperNotFound name)

  def expandParams (reg : Registry) (root : Json) : Nat → List Param → RM (List PJ)
    | 0, _ => outOfFuel
    | _ + 1, [] => pure []
    | fuel + 1, p :: ps => do
      let r ← expandParam reg root fuel p
      let rs ← expandParams reg root fuel ps
      pure (r :: rs)

  def expandHash (reg : Registry) (root : Json) : Nat → List (Str × Param) → RM (List (Str × PJ))
    | 0, _ => outOfFuel
    | _ + 1, [] => pure []
    | fuel + 1, (k, p) :: ps => do
      let r ← expandParam reg root fuel p
      let rs ← expandHash reg root fuel ps
      pure ((k, r) :: rs)

  /-- `Helper::try_from_template` -/
  def helperFromTemplate (reg : Registry) (root : Json) : Nat → HelperT → RM HelperI
    | 0, _ => outOfFuel
    | fuel + 1, ht => do
      let name ← expandAsName reg root fuel ht.name
      let pv ← expandParams reg root fuel ht.params
      let hm ← expandHash reg root fuel ht.hash
      pure { name := name, params := pv, hash := hm, template := ht.template, inverse := ht.inverse,
             blockParam := ht.blockParam, block := ht.block }

  /-- `Decorator::try_from_template` -/
  def decoFromTemplate (reg : Registry) (root : Json) : Nat → DecoT → RM DecoI
    | 0, _ => outOfFuel
    | fuel + 1, dt => do
      let name ← expandAsName reg root fuel dt.name
      let pv ← expandParams reg root fuel dt.params
      let hm ← expandHash reg root fuel dt.hash
      let rc ← get
      let indent := match rc.indentString, dt.indent with
        | none, none => none
        | some s, none => some s
        | none, some s => some s
        | some s1, some s2 => some (s1 ++ s2)
      pure { name := name, params := pv, hash := hm, template := dt.template, indent := indent }

  /-- `call_helper_for_value` -/
  def callHelperForValue (reg : Registry) (root : Json) : Nat → HelperKind → HelperI → RM PJ
    | 0, _, _ => outOfFuel
    | fuel + 1, d, h =>
      if d.hasInner then
        match callInner reg d h with
        | .ok r => pure ⟨none, r⟩
        | .error e => throwR e
      else do
        -- escaping is switched off for the duration of the call and put back to what it was
        let (_, s) ← RM.escOffSaved (RM.captured (callHelper reg root fuel d h))
        pure ⟨none, .derived (.str s)⟩

  /-- `HelperDef::call` of helper `d` -/
  def callHelper (reg : Registry) (root : Json) : Nat → HelperKind → HelperI → RM Unit
    | 0, _, _ => outOfFuel
    | fuel + 1, d, h =>
      if d.hasInner then
        -- the default `call` in terms of `call_inner`
        match callInner reg d h with
        | .ok result =>
          if reg.strict && result.isMissing then throw (strictError none)
          else do
            let rc ← get
            indentAwareWrite (doEscape reg rc result.asJson.render)
        | .error e => if e == .unimplemented then pure () else throwR e
      else
      match d with
      | .ifH positive =>
        match h.params[0]? with
        | none => throwR (.paramNotFoundForIndex (str "if") 0)
        | some param =>
          let includeZero := ((assocGet h.hash (str "includeZero")).bind (·.json.asBool?)).getD false
          let v := param.json.truthy includeZero
          let v := if positive then v else !v
          match (if v then h.template else h.inverse) with
          | some t => renderTemplate reg root fuel t
          | none => pure ()
      | .withH =>
        match h.params[0]? with
        | none => throwR (.paramNotFoundForIndex (str "with") 0)
        | some param =>
          if param.json.truthy false then do
            let block := createBlock param
            let block := match h.blockParam1 with
              | some bp =>
                let holder := if param.contextPath.isSome then Holder.path [] else Holder.value param.json
                { block with blockParams := [(bp, holder)] }
              | none => block
            RM.withBlock block
              (match h.template with
               | some t => renderTemplate reg root fuel t
               | none => pure ())
          else match h.inverse with
            | some t => renderTemplate reg root fuel t
            | none => if reg.strict then throw (strictError param.relPath) else pure ()
      | .each =>
        match h.params[0]? with
        | none => throwR (.paramNotFoundForIndex (str "each") 0)
        | some value =>
          match h.template with
          | none => pure ()
          | some t =>
            let elseBranch : RM Unit :=
              match h.inverse with
              | some et => renderTemplate reg root fuel et
              | none => if reg.strict then throw (strictError value.relPath) else pure ()
            match value.json with
            | .arr list =>
              if !list.isEmpty || h.inverse.isNone then
                let items := list.toList
                RM.withBlock (createBlock value)
                  (eachLoop reg root fuel t h value.contextPath items.length
                    (items.zipIdx.map (fun (v, i) => (i, none, natToStr i, v))))
              else elseBranch
            | .obj o =>
              if !o.isEmpty || h.inverse.isNone then
                let items := o.toList
                RM.withBlock (createBlock value)
                  (eachLoop reg root fuel t h value.contextPath items.length
                    (items.zipIdx.map (fun ((k, v), i) => (i, some k, k, v))))
              else elseBranch
            | _ => elseBranch
      | .raw =>
        match h.template with
        | some t => renderTemplate reg root fuel t
        | none => pure ()
      | .log =>
        let level := ((assocGet h.hash (str "level")).bind (·.json.asStr?)).getD (str "info")
        if logLevelOk level then pure () else throwR (.invalidLoggingLevel level)
      | .mark tag => do
        write (markLine tag h)
        if h.block then do
          match h.template with
          | some t => renderTemplate reg root fuel t
          | none => pure ()
          match h.inverse with
          | some t => do
            write (str "[^" ++ tag ++ str "]")
            renderTemplate reg root fuel t
          | none => pure ()
          write (str "[/" ++ tag ++ str "]")
        else pure ()
      | .probe => write (probeDump h)
      | .evalp =>
        match h.params[0]? with
        | none => throwR (.paramNotFoundForIndex (str "evalp") 0)
        | some p =>
          match p.json.asStr? with
          | none => throwR (.invalidParamType (str "String"))
          | some raw => do
            let r ← evaluate root raw
            if r.isMissing then write (str "<missing>") else write (str "<" ++ r.asJson.render ++ str ">")
      | .rcstate => do
        let rc ← get
        write (rcStateLine rc)
      | .wr => write (((h.params[0]?).map (·.json.render)).getD [])
      | .incl =>
        -- a user helper that renders a REGISTERED template through the same render context (`t.render(r, ctx, rc, out)`)
        match (h.params[0]?).bind (·.json.asStr?) with
        | some n =>
          match assocGet reg.templates n with
          | some t => renderTemplate reg root fuel t
          | none => pure ()
        | none => pure ()
      | .counter => do
        let rc ← get
        modifyAux (fun rc => { rc with counter := rc.counter + 1 })
        write (natToStr rc.counter)
      | _ => pure ()

  /-- the iteration of `each` -/
  def eachLoop (reg : Registry) (root : Json) : Nat → Tmpl → HelperI → Option (List Str) → Nat →
      List (Nat × Option Str × Str × Json) → RM Unit
    | 0, _, _, _, _, _ => outOfFuel
    | _ + 1, _, _, _, _, [] => pure ()
    | fuel + 1, t, h, path, len, (i, key, rel, v) :: rest => do
      modifyFrontBlock (fun b => eachIterBlock b h path i len key rel v)
      renderTemplate reg root fuel t
      eachLoop reg root fuel t h path len rest

  /-- `render_helper` -/
  def renderHelper (reg : Registry) (root : Json) : Nat → HelperT → RM Unit
    | 0, _ => outOfFuel
    | fuel + 1, ht => do
      let h ← helperFromTemplate reg root fuel ht
      let rc ← get
      let helper : Option HelperKind :=
        match assocGet rc.localHelpers h.name with
        | some d => some d
        | none =>
          match assocGet reg.helpers h.name with
          | some d => some d
          | none => assocGet reg.helpers (if ht.block then BLOCK_HELPER_MISSING else HELPER_MISSING)
      match helper with
      | none => throwR (.helperNotFound h.name)
      | some d =>
        -- call_indent_aware
        let ib := rc.indentBeforeWrite
        let cp := rc.contentProduced
        modifyAux (fun rc =>
          { rc with contentProduced := false, indentBeforeWrite := ib || (ht.indentBeforeWrite && rc.trailingNewline) })
        callHelper reg root fuel d h
        modifyAux (fun rc =>
          if rc.contentProduced then { rc with indentBeforeWrite := rc.trailingNewline }
          else { rc with contentProduced := cp, indentBeforeWrite := ib })

  /-- `Renderable for TemplateElement` -/
  def renderElem (reg : Registry) (root : Json) : Nat → Elem → RM Unit
    | 0, _ => outOfFuel
    | fuel + 1, e =>
      match e with
      | .raw v => indentAwareWrite v
      | .expr ht => renderExpression reg root fuel ht
      | .html ht =>
        -- `set_disable_escape(true)` … `set_disable_escape(false)` : switched ON again afterwards, whatever it was
        RM.escOffReset (renderExpression reg root fuel ht)
      | .block ht => renderHelper reg root fuel ht
      | .decoExpr dt | .decoBlock dt => evalDecorator reg root fuel dt
      | .partialExpr dt | .partialBlock dt => do
        let di ← decoFromTemplate reg root fuel dt
        let rc ← get
        let ib := rc.indentBeforeWrite
        let cp := rc.contentProduced
        modifyAux (fun rc => { rc with
          indentBeforeWrite := ib || (dt.indentBeforeWrite && (rc.trailingNewline || dt.indent.isSome)),
          contentProduced := false })
        expandPartial reg root fuel di
        modifyAux (fun rc =>
          if rc.contentProduced then { rc with indentBeforeWrite := rc.trailingNewline }
          else { rc with contentProduced := cp, indentBeforeWrite := ib })
      | .comment _ => pure ()

  /-- the `Expression | HtmlExpression` arm -/
  def renderExpression (reg : Registry) (root : Json) : Nat → HelperT → RM Unit
    | 0, _ => outOfFuel
    | fuel + 1, ht =>
      if ht.isNameOnly then do
        let helperName ← expandAsName reg root fuel ht.name
        let rc ← get
        if (assocGet rc.localHelpers helperName).isSome || (assocGet reg.helpers helperName).isSome then
          renderHelper reg root fuel ht
        else do
          let cj ← expandParam reg root fuel ht.name
          if cj.isMissing then
            if reg.strict then throw (strictError cj.relPath)
            else
              match assocGet reg.helpers HELPER_MISSING with
              | some hook => do
                let h ← helperFromTemplate reg root fuel ht
                callHelper reg root fuel hook h
              | none => pure ()
          else do
            let rc ← get
            indentAwareWrite (doEscape reg rc cj.json.render)
      else renderHelper reg root fuel ht

  /-- `Evaluable for TemplateElement` (decorators) -/
  def evalDecorator (reg : Registry) (root : Json) : Nat → DecoT → RM Unit
    | 0, _ => outOfFuel
    | fuel + 1, dt => do
      let di ← decoFromTemplate reg root fuel dt
      match assocGet reg.decorators di.name with
      | none => throwR (.decoratorNotFound di.name)
      | some .inline =>
        match di.params[0]? with
        | none => throwR (.paramNotFoundForIndex (str "inline") 0)
        | some p =>
          match p.json.asStr? with
          | none => throwR (.invalidParamType (str "String"))
          | some name =>
            match di.template with
            | none => throwR .blockContentRequired
            | some t => modifyAux (fun rc => { rc with partials := hashInsert rc.partials name t })
      | some .setctx =>
        match di.params[0]? with
        | none => throwR (.paramNotFoundForIndex (str "setctx") 0)
        | some p => modifyAux (fun rc => { rc with modifiedCtx := some p.json })
      | some .sethelper =>
        match (di.params[0]?).bind (·.json.asStr?), (di.params[1]?).bind (·.json.asStr?) with
        | some n, some tag => modifyAux (fun rc => { rc with localHelpers := hashInsert rc.localHelpers n (.mark tag) })
        | _, _ => throwR (.invalidParamType (str "String"))

  /-- `Evaluable for Template` : evaluate the decorators of a template (used for partial-block bodies) -/
  def evalElems (reg : Registry) (root : Json) : Nat → Option Str → List Elem → List (Nat × Nat) → RM Unit
    | 0, _, _, _ => outOfFuel
    | _ + 1, _, [], _ => pure ()
    | fuel + 1, tname, e :: es, mapping => do
      let one : RM Unit := match e with
        | .decoExpr dt | .decoBlock dt => evalDecorator reg root fuel dt
        | _ => pure ()
      RM.mapErr one (decorateEval tname mapping)
      evalElems reg root fuel tname es (mapping.drop 1)

  /-- the element loop of `Renderable for Template` -/
  def renderElems (reg : Registry) (root : Json) : Nat → Option Str → List Elem → List (Nat × Nat) → RM Unit
    | 0, _, _, _ => outOfFuel
    | _ + 1, _, [], _ => pure ()
    | fuel + 1, tname, e :: es, mapping => do
      RM.mapErr (renderElem reg root fuel e) (decorateRender tname mapping)
      renderElems reg root fuel tname es (mapping.drop 1)

  /-- `Renderable for Template` -/
  def renderTemplate (reg : Registry) (root : Json) : Nat → Tmpl → RM Unit
    | 0, _ => outOfFuel
    | fuel + 1, t => do
      let rc ← get
      let nameBefore := rc.currentTemplate
      modifyAux (fun rc => { rc with currentTemplate := t.name })
      renderElems reg root fuel t.name t.elements t.mapping
      -- an unnamed inner template (block body, else branch) hands back to the template it is part of
      if t.name.isNone then modifyAux (fun rc => { rc with currentTemplate := nameBefore }) else pure ()

  /-- `partial::expand_partial` -/
  def expandPartial (reg : Registry) (root : Json) : Nat → DecoI → RM Unit
    | 0, _ => outOfFuel
    | fuel + 1, d => do
      match d.template with
      | some t => evalElems reg root fuel t.name t.elements t.mapping
      | none => pure ()
      let tname := d.name
      let rc ← get
      let currentBefore := rc.currentTemplate
      let indentBefore := rc.indentString
      if rc.currentTemplate == some tname then throwR .cannotIncludeSelf
      else
        -- find_partial
        let found : Option Tmpl :=
          let inl := if tname == PARTIAL_BLOCK then (rc.pbBinding.bind (fun i => rc.pbStack[i]?)).map (·.1)
                     else assocGet rc.partials tname
          match inl with
          | some p => some p
          | none =>
            match rc.devTemplates.bind (fun m => assocGet m tname) with
            | some p => some p
            | none =>
              match assocGet reg.templates tname with
              | some p => some p
              | none => d.template
        match found with
        | none => throwR (.partialNotFound tname)
        | some partialT => do
          let hashCtx := d.hash.map (fun (k, v) => (k, v.json))
          let merged ← (match d.params[0]? with
            | some p =>
              match p.relPath with
              | some rel => do
                let r ← evaluate root rel
                pure (mergeJson r.asJson hashCtx)
              | none => pure (mergeJson p.json hashCtx)
            | none => do
              let r ← evaluate2 root (.relative [] [])
              pure (mergeJson r.asJson hashCtx))
          -- the partial is rendered in its own scope; what `@partial-block` denotes, the scope stack, the
          -- template name and the indentation are properties of this inclusion: they are put back afterwards
          -- (the result is examined only after that cleanup)
          RM.partialScope (tname == PARTIAL_BLOCK) merged d.indent d.template (renderTemplate reg root fuel partialT)
end

end Hbs
