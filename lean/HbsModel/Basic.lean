/-
  Basic text helpers of the model.  Text is `List Char` everywhere (char-indexed).
  Models of the std `str` functions the crate uses: trimming, prefix tests, `lines`.
-/
namespace Hbs

abbrev Str := List Char

def str (s : String) : Str := s.toList

/-- `support::str::whitespace_matcher` : space or tab. -/
def isBlank (c : Char) : Bool := c == ' ' || c == '\t'

/-- `support::str::newline_matcher` : LF or CR. -/
def isNewline (c : Char) : Bool := c == '\n' || c == '\r'

/-- Rust `char::is_whitespace` (Unicode `White_Space`), used by `str::trim_start/trim_end`. -/
def isUniWs (c : Char) : Bool :=
  let n := c.toNat
  (9 ≤ n && n ≤ 13) || n == 0x20 || n == 0x85 || n == 0xA0 || n == 0x1680 ||
  (0x2000 ≤ n && n ≤ 0x200A) || n == 0x2028 || n == 0x2029 || n == 0x202F ||
  n == 0x205F || n == 0x3000

/-- pest `WHITESPACE` of grammar.pest (kept here for specs; the interpreter uses the generated rule). -/
def isPestWs (c : Char) : Bool := c == ' ' || c == '\t' || c == '\n' || c == '\r'

def dropWhileEnd (p : Char → Bool) (s : Str) : Str :=
  (s.reverse.dropWhile p).reverse

/-- `str::trim_end`. -/
def trimEnd (s : Str) : Str := dropWhileEnd isUniWs s
/-- `str::trim_start`. -/
def trimStart (s : Str) : Str := s.dropWhile isUniWs
/-- `trim_end_matches(whitespace_matcher)`. -/
def trimEndBlank (s : Str) : Str := dropWhileEnd isBlank s
/-- `trim_start_matches(whitespace_matcher)`. -/
def trimStartBlank (s : Str) : Str := s.dropWhile isBlank

/-- `support::str::strip_first_newline`. -/
def stripFirstNewline : Str → Str
  | '\r' :: '\n' :: t => t
  | '\n' :: t => t
  | s => s

def startsWithNewline : Str → Bool
  | c :: _ => isNewline c
  | [] => false

def endsWithNewline (s : Str) : Bool :=
  match s.getLast? with
  | some c => isNewline c
  | none => false

/-- `support::str::ends_with_empty_line`. -/
def endsWithEmptyLine (s : Str) : Bool :=
  let t := trimEndBlank s
  endsWithNewline t || t.isEmpty

/-- `support::str::starts_with_empty_line`. -/
def startsWithEmptyLine (s : Str) : Bool :=
  startsWithNewline (trimStartBlank s)

/-- `support::str::find_trailing_whitespace_chars`. -/
def findTrailingBlank (s : Str) : Option Str :=
  let t := trimEndBlank s
  if t.length == s.length then none else some (s.drop t.length)

/-- slice `s[a..b]` in char offsets; `none` is a Rust slice panic. -/
def slice? (s : Str) (a b : Nat) : Option Str :=
  if a ≤ b ∧ b ≤ s.length then some ((s.drop a).take (b - a)) else none

def isPrefix : Str → Str → Bool
  | [], _ => true
  | _ :: _, [] => false
  | a :: as, b :: bs => a == b && isPrefix as bs

def stripPrefix? : Str → Str → Option Str
  | [], s => some s
  | _ :: _, [] => none
  | a :: as, b :: bs => if a == b then stripPrefix? as bs else none

def isSuffix (p s : Str) : Bool := isPrefix p.reverse s.reverse

/-- `str::trim_start_matches(pat: &str)`: strips the prefix repeatedly. -/
def trimStartMatches (pat : Str) (s : Str) : Str :=
  if pat.isEmpty then s else go s.length s
where
  go : Nat → Str → Str
    | 0, s => s
    | n + 1, s => match stripPrefix? pat s with
      | some t => go n t
      | none => s

/-- `str::trim_end_matches(pat: &str)`. -/
def trimEndMatches (pat : Str) (s : Str) : Str :=
  (trimStartMatches pat.reverse s.reverse).reverse

/-- `str::replace(from, to)` for a non-empty pattern. -/
def replaceAll (pat to : Str) (s : Str) : Str :=
  if pat.isEmpty then s else go s.length s
where
  go : Nat → Str → Str
    | 0, s => s
    | _, [] => []
    | n + 1, c :: cs => match stripPrefix? pat (c :: cs) with
      | some t => to ++ go n t
      | none => c :: go n cs

/-- UTF-8 length of a char / string (`str::len`). -/
def utf8Len1 (c : Char) : Nat :=
  let n := c.toNat
  if n < 0x80 then 1 else if n < 0x800 then 2 else if n < 0x10000 then 3 else 4

def utf8Len (s : Str) : Nat := s.foldl (fun a c => a + utf8Len1 c) 0

/-- decimal text of a natural number (`usize::to_string`). -/
def natToStr (n : Nat) : Str := (toString n).toList

def digitVal? (c : Char) : Option Nat :=
  if '0' ≤ c ∧ c ≤ '9' then some (c.toNat - '0'.toNat) else none

def hexVal? (c : Char) : Option Nat :=
  if '0' ≤ c ∧ c ≤ '9' then some (c.toNat - '0'.toNat)
  else if 'a' ≤ c ∧ c ≤ 'f' then some (c.toNat - 'a'.toNat + 10)
  else if 'A' ≤ c ∧ c ≤ 'F' then some (c.toNat - 'A'.toNat + 10)
  else none

def allDigits (s : Str) : Bool := s.all (fun c => (digitVal? c).isSome)

def digitsToNat (s : Str) : Nat :=
  s.foldl (fun a c => a * 10 + (digitVal? c).getD 0) 0

/-- `str::parse::<usize>()` : optional leading `+`, then one or more ASCII digits, value < 2^64. -/
def parseUsize? (s : Str) : Option Nat :=
  let d := match s with
    | '+' :: t => t
    | _ => s
  if d.isEmpty || !allDigits d then none
  else
    let n := digitsToNat d
    if n < 2 ^ 64 then some n else none

/-- lexicographic comparison of strings by code point (= UTF-8 byte order). -/
def strLt : Str → Str → Bool
  | [], [] => false
  | [], _ :: _ => true
  | _ :: _, [] => false
  | a :: as, b :: bs => if a.toNat < b.toNat then true else if a.toNat > b.toNat then false else strLt as bs

def strCmp (a b : Str) : Ordering :=
  if strLt a b then .lt else if strLt b a then .gt else .eq

/-- `str::lines()` – split at `\n`, strip one trailing `\r` of each line, no final empty line. -/
def splitLines (s : Str) : List Str :=
  let rec go (cur : Str) : Str → List Str
    | [] => if cur.isEmpty then [] else [cur.reverse]
    | '\n' :: t => fin cur :: go [] t
    | c :: t => go (c :: cur) t
  go [] s
where
  fin (cur : Str) : Str := match cur with
    | '\r' :: r => r.reverse
    | r => r.reverse

def joinWith (sep : Str) : List Str → Str
  | [] => []
  | [x] => x
  | x :: xs => x ++ sep ++ joinWith sep xs

end Hbs
