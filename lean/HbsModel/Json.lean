import HbsModel.Num
/-
  `serde_json::Value` as a mutual inductive (structural recursion), objects as key-sorted
  association lists (serde_json's Map is a BTreeMap on this tree: no `preserve_order`).
-/
namespace Hbs

mutual
  inductive Json where
    | null
    | bool (b : Bool)
    | num (n : Num)
    | str (s : Str)
    | arr (xs : JList)
    | obj (kv : JObj)
  inductive JList where
    | nil
    | cons (h : Json) (t : JList)
  inductive JObj where
    | nil
    | cons (k : Str) (v : Json) (t : JObj)
end

instance : Inhabited Json := ⟨.null⟩

namespace JList
def toList : JList → List Json
  | nil => []
  | cons h t => h :: toList t
def ofList : List Json → JList
  | [] => nil
  | h :: t => cons h (ofList t)
def length : JList → Nat
  | nil => 0
  | cons _ t => length t + 1
def get? : JList → Nat → Option Json
  | nil, _ => none
  | cons h _, 0 => some h
  | cons _ t, n + 1 => get? t n
def isEmpty : JList → Bool
  | nil => true
  | _ => false
end JList

namespace JObj
def toList : JObj → List (Str × Json)
  | nil => []
  | cons k v t => (k, v) :: toList t
def ofSortedList : List (Str × Json) → JObj
  | [] => nil
  | (k, v) :: t => cons k v (ofSortedList t)
def length : JObj → Nat
  | nil => 0
  | cons _ _ t => length t + 1
def isEmpty : JObj → Bool
  | nil => true
  | _ => false
/-- `Map::get` -/
def get? : JObj → Str → Option Json
  | nil, _ => none
  | cons k v t, q => if k == q then some v else get? t q
/-- `Map::insert` (BTreeMap: key order, replace) -/
def insert : JObj → Str → Json → JObj
  | nil, q, x => cons q x nil
  | cons k v t, q, x =>
    if q == k then cons k x t
    else if strLt q k then cons q x (cons k v t)
    else cons k v (insert t q x)
def ofList (l : List (Str × Json)) : JObj :=
  l.foldl (fun o (k, v) => o.insert k v) nil
def keys (o : JObj) : List Str := o.toList.map (·.1)
end JObj

mutual
  /-- `PartialEq for Value` -/
  def Json.beq : Json → Json → Bool
    | .null, .null => true
    | .bool a, .bool b => a == b
    | .num a, .num b => Num.beq a b
    | .str a, .str b => a == b
    | .arr a, .arr b => JList.beq a b
    | .obj a, .obj b => JObj.beq a b
    | _, _ => false
  def JList.beq : JList → JList → Bool
    | .nil, .nil => true
    | .cons a as, .cons b bs => Json.beq a b && JList.beq as bs
    | _, _ => false
  def JObj.beq : JObj → JObj → Bool
    | .nil, .nil => true
    | .cons k a as, .cons l b bs => k == l && Json.beq a b && JObj.beq as bs
    | _, _ => false
end

mutual
  /-- `JsonRender::render` -/
  def Json.render : Json → Str
    | .str s => s
    | .bool b => if b then Hbs.str "true" else Hbs.str "false"
    | .num n => n.toText
    | .null => []
    | .arr xs => '[' :: (JList.renderItems xs ++ [']'])
    | .obj _ => Hbs.str "[object]"
  def JList.renderItems : JList → Str
    | .nil => []
    | .cons h .nil => Json.render h
    | .cons h t => Json.render h ++ Hbs.str ", " ++ JList.renderItems t
end

/-- `JsonTruthy::is_truthy` -/
def Json.truthy (v : Json) (includeZero : Bool) : Bool :=
  match v with
  | .bool b => b
  | .num n => if includeZero then n.asF64NotNan else n.asF64NonZero
  | .null => false
  | .str s => !s.isEmpty
  | .arr xs => !xs.isEmpty
  | .obj kv => !kv.isEmpty

def Json.asStr? : Json → Option Str | .str s => some s | _ => none
def Json.asBool? : Json → Option Bool | .bool b => some b | _ => none
def Json.asU64? : Json → Option Nat | .num n => n.asU64? | _ => none
def Json.asI64? : Json → Option Int | .num n => n.asI64? | _ => none
def Json.ofNat (n : Nat) : Json := .num (.pos n)
def Json.ofStr (s : String) : Json := .str s.toList

/-! ### serde_json::to_string (compact) -/

def hexDigit (n : Nat) : Char := if n < 10 then Char.ofNat (48 + n) else Char.ofNat (87 + n)

def jsonEscapeChar (c : Char) : Str :=
  if c == '"' then Hbs.str "\\\""
  else if c == '\\' then Hbs.str "\\\\"
  else if c == '\n' then Hbs.str "\\n"
  else if c == '\r' then Hbs.str "\\r"
  else if c == '\t' then Hbs.str "\\t"
  else if c.toNat == 8 then Hbs.str "\\b"
  else if c.toNat == 12 then Hbs.str "\\f"
  else if c.toNat < 0x20 then Hbs.str "\\u00" ++ [hexDigit (c.toNat / 16), hexDigit (c.toNat % 16)]
  else [c]

def jsonQuote (s : Str) : Str := '"' :: (s.flatMap jsonEscapeChar ++ ['"'])

mutual
  def Json.toText : Json → Str
    | .null => Hbs.str "null"
    | .bool b => if b then Hbs.str "true" else Hbs.str "false"
    | .num n => n.toText
    | .str s => jsonQuote s
    | .arr xs => '[' :: (JList.toTextItems xs ++ [']'])
    | .obj kv => '{' :: (JObj.toTextItems kv ++ ['}'])
  def JList.toTextItems : JList → Str
    | .nil => []
    | .cons h .nil => Json.toText h
    | .cons h t => Json.toText h ++ [','] ++ JList.toTextItems t
  def JObj.toTextItems : JObj → Str
    | .nil => []
    | .cons k v .nil => jsonQuote k ++ [':'] ++ Json.toText v
    | .cons k v t => jsonQuote k ++ [':'] ++ Json.toText v ++ [','] ++ JObj.toTextItems t
end

/-! ### serde_json::from_str -/

def skipJsonWs (s : Str) : Str := s.dropWhile isPestWs

def hex4? (s : Str) : Option (Nat × Str) :=
  match s with
  | a :: b :: c :: d :: t =>
    match hexVal? a, hexVal? b, hexVal? c, hexVal? d with
    | some a, some b, some c, some d => some (((a * 16 + b) * 16 + c) * 16 + d, t)
    | _, _, _, _ => none
  | _ => none

/-- string body after the opening quote; returns the value and the rest after the closing quote -/
def parseJsonStringBody : Nat → Str → Str → Option (Str × Str)
  | 0, _, _ => none
  | _, _, [] => none
  | fuel + 1, acc, c :: t =>
    if c == '"' then some (acc.reverse, t)
    else if c == '\\' then
      match t with
      | 'u' :: t' =>
        match hex4? t' with
        | none => none
        | some (n, t'') =>
          if 0xDC00 ≤ n ∧ n ≤ 0xDFFF then none
          else if 0xD800 ≤ n ∧ n ≤ 0xDBFF then
            match t'' with
            | '\\' :: 'u' :: t3 =>
              match hex4? t3 with
              | none => none
              | some (n2, t4) =>
                if 0xDC00 ≤ n2 ∧ n2 ≤ 0xDFFF then
                  let cp := 0x10000 + (n - 0xD800) * 0x400 + (n2 - 0xDC00)
                  parseJsonStringBody fuel (Char.ofNat cp :: acc) t4
                else none
            | _ => none
          else parseJsonStringBody fuel (Char.ofNat n :: acc) t''
      | e :: t' =>
        let r : Option Char :=
          if e == '"' then some '"' else if e == '\\' then some '\\' else if e == '/' then some '/'
          else if e == 'b' then some (Char.ofNat 8) else if e == 'f' then some (Char.ofNat 12)
          else if e == 'n' then some '\n' else if e == 'r' then some '\r' else if e == 't' then some '\t'
          else none
        match r with
        | some ch => parseJsonStringBody fuel (ch :: acc) t'
        | none => none
      | [] => none
    else if c.toNat < 0x20 then none
    else parseJsonStringBody fuel (c :: acc) t

mutual
  /-- value at the head of `s` (after optional whitespace); depth-limited like serde_json (128). -/
  def parseJsonValue : Nat → Nat → Str → Option (Json × Str)
    | 0, _, _ => none
    | fuel + 1, depth, s0 =>
      let s := skipJsonWs s0
      match s with
      | [] => none
      | c :: t =>
        if c == 'n' then (stripPrefix? (Hbs.str "null") s).map (fun r => (Json.null, r))
        else if c == 't' then (stripPrefix? (Hbs.str "true") s).map (fun r => (Json.bool true, r))
        else if c == 'f' then (stripPrefix? (Hbs.str "false") s).map (fun r => (Json.bool false, r))
        else if c == '"' then
          (parseJsonStringBody (t.length + 1) [] t).map (fun (v, r) => (Json.str v, r))
        else if c == '[' then
          if depth == 0 then none else
          let t1 := skipJsonWs t
          match t1 with
          | ']' :: r => some (.arr .nil, r)
          | _ => (parseJsonArrayTail fuel (depth - 1) [] t1).map (fun (xs, r) => (Json.arr (JList.ofList xs), r))
        else if c == '{' then
          if depth == 0 then none else
          let t1 := skipJsonWs t
          match t1 with
          | '}' :: r => some (.obj .nil, r)
          | _ => (parseJsonObjectTail fuel (depth - 1) .nil t1).map (fun (o, r) => (Json.obj o, r))
        else if c == '-' || (digitVal? c).isSome then
          (Num.parsePrefix s).map (fun (n, r) => (Json.num n, r))
        else none
  /-- elements after `[` (non-empty array) -/
  def parseJsonArrayTail : Nat → Nat → List Json → Str → Option (List Json × Str)
    | 0, _, _, _ => none
    | fuel + 1, depth, acc, s =>
      match parseJsonValue fuel depth s with
      | none => none
      | some (v, r) =>
        match skipJsonWs r with
        | ',' :: r' => parseJsonArrayTail fuel depth (v :: acc) r'
        | ']' :: r' => some ((v :: acc).reverse, r')
        | _ => none
  /-- members after `{` (non-empty object) -/
  def parseJsonObjectTail : Nat → Nat → JObj → Str → Option (JObj × Str)
    | 0, _, _, _ => none
    | fuel + 1, depth, acc, s =>
      match skipJsonWs s with
      | '"' :: t =>
        match parseJsonStringBody (t.length + 1) [] t with
        | none => none
        | some (k, r) =>
          match skipJsonWs r with
          | ':' :: r1 =>
            match parseJsonValue fuel depth r1 with
            | none => none
            | some (v, r2) =>
              match skipJsonWs r2 with
              | ',' :: r3 => parseJsonObjectTail fuel depth (acc.insert k v) r3
              | '}' :: r3 => some (acc.insert k v, r3)
              | _ => none
          | _ => none
      | _ => none
end

/-- `serde_json::from_str::<Value>` : `none` = any error. -/
def Json.parse (s : Str) : Option Json :=
  match parseJsonValue (2 * s.length + 2) 128 s with
  | some (v, r) => if (skipJsonWs r).isEmpty then some v else none
  | none => none

end Hbs
