import HbsModel.Render
/-
  Model of registry.rs / sources.rs: the registry state machine, the file system as a parameter,
  template (re)loading in dev mode, and the render entry points (written separately, as in the Rust).
-/
namespace Hbs
open RM

abbrev FS := List (Str × Str)          -- path ↦ content

def assocInsert {α : Type} (l : List (Str × α)) (k : Str) (v : α) : List (Str × α) := hashInsert l k v

/-- `setup_builtins` is regenerated from registry.rs (Generated/Builtins.lean); this is the fixed
    interpretation of each built-in name. -/
def builtinKind (n : String) : Option HelperKind :=
  match n with
  | "if" => some (.ifH true) | "unless" => some (.ifH false) | "each" => some .each | "with" => some .withH
  | "lookup" => some .lookup | "raw" => some .raw | "log" => some .log
  | "eq" => some .eq | "ne" => some .ne | "gt" => some .gt | "gte" => some .gte | "lt" => some .lt
  | "lte" => some .lte | "and" => some .andH | "or" => some .orH | "not" => some .notH | "len" => some .len
  | _ => none

def defaultBuiltinNames : List String :=
  ["if", "unless", "each", "with", "lookup", "raw", "log", "eq", "ne", "gt", "gte", "lt", "lte", "and", "or", "not", "len"]

def mkBuiltins (names : List String) : List (Str × HelperKind) :=
  names.foldl (fun acc n => match builtinKind n with
    | some k => assocInsert acc n.toList k
    | none => acc) []

/-- `Registry::new` -/
def Registry.new (builtins : List String) (escape : Str → Str) : Registry :=
  { helpers := mkBuiltins builtins, decorators := [(str "inline", .inline)], escape := escape }

/-! ### mutators -/

/-- `register_template` -/
def Registry.registerTemplate (r : Registry) (name : Str) (t : Tmpl) : Registry :=
  { r with templates := assocInsert r.templates name t }

/-- `register_template_string` (also `register_partial`) -/
def Registry.registerTemplateString (r : Registry) (name src : Str) : CRes Registry :=
  match compile2 src { name := some name, isPartial := false, preventIndent := r.preventIndent } with
  | .ok t => .ok (r.registerTemplate name t)
  | .err e => .err e
  | .panic s => .panic s
  | .fuel => .fuel

/-- `register_template_file` -/
def Registry.registerTemplateFile (r : Registry) (fs : FS) (name path : Str) : CRes Registry :=
  match assocGet fs path with
  | none => .err { reason := .ioError name }
  | some content =>
    match r.registerTemplateString name content with
    | .ok r' => .ok (if r'.dev then { r' with sources := assocInsert r'.sources name path } else r')
    | e => e

/-- `unregister_template` -/
def Registry.unregisterTemplate (r : Registry) (name : Str) : Registry :=
  { r with templates := assocRemove r.templates name, sources := assocRemove r.sources name }

/-- `clear_templates` -/
def Registry.clearTemplates (r : Registry) : Registry := { r with templates := [], sources := [] }

/-- `set_dev_mode` -/
def Registry.setDevMode (r : Registry) (v : Bool) : Registry :=
  if v then { r with dev := true } else { r with dev := false, sources := [] }

def Registry.hasTemplate (r : Registry) (name : Str) : Bool := (assocGet r.templates name).isSome
def Registry.templateKeys (r : Registry) : List Str := r.templates.map (·.1)

/-! ### loading -/

inductive LoadRes where
  | ok (t : Tmpl)
  | err (e : RenderError)
  | panic (s : String)
  | fuel

/-- `get_or_load_template_optional` -/
def Registry.getOrLoadOptional (r : Registry) (fs : FS) (name : Str) : Option LoadRes :=
  match r.dev, assocGet r.sources name with
  | true, some path =>
    match assocGet fs path with
    | none => some (.err (.of (.templateError { reason := .ioError name })))
    | some src =>
      match compile2 src { name := some name, preventIndent := r.preventIndent, isPartial := false } with
      | .ok t => some (.ok t)
      | .err e => some (.err (.of (.templateError e)))
      | .panic s => some (.panic s)
      | .fuel => some .fuel
  | _, _ => (assocGet r.templates name).map LoadRes.ok

/-- `get_or_load_template` -/
def Registry.getOrLoad (r : Registry) (fs : FS) (name : Str) : LoadRes :=
  match r.getOrLoadOptional fs name with
  | some x => x
  | none => .err (.of (.templateNotFound name))

/-- `gather_dev_mode_templates` -/
def Registry.gatherDev (r : Registry) (fs : FS) (prebound : Option (Str × Tmpl)) :
    List (Str × Str) → List (Str × Tmpl) → Except LoadRes (List (Str × Tmpl))
  | [], acc =>
    match prebound with
    | some (n, t) => .ok (assocInsert acc n t)
    | none => .ok acc
  | (name, _) :: rest, acc =>
    if (prebound.map (·.1)) == some name then r.gatherDev fs prebound rest acc
    else match r.getOrLoad fs name with
      | .ok t => r.gatherDev fs prebound rest (assocInsert acc name t)
      | e => .error e

inductive Final where
  | ok (out : Str)
  | err (e : RenderError) (written : Str)
  | panic (s : String)
  | fuel

def renderFuel : Nat := 4000

def runRM (x : RM Unit) (rc : RC) (out : Out) : Final :=
  match x rc out with
  | .ok _ _ o => .ok o.text
  | .err e o => .err e o.text
  | .panic s => .panic s
  | .fuel => .fuel

/-- `render_resolved_template_to_output` -/
def Registry.renderResolved (r : Registry) (fs : FS) (name : Option Str) (t : Tmpl) (data : Json)
    (out : Out) : Final :=
  if !r.dev then
    runRM (renderTemplate r data renderFuel t) { rootTemplate := t.name } out
  else
    match r.gatherDev fs (name.map (fun n => (n, t))) r.sources [] with
    | .error (.err e) => .err e []
    | .error (.panic s) => .panic s
    | .error .fuel => .fuel
    | .error (.ok _) => .panic "registry.gather"
    | .ok dmt =>
      let tmpl : Option Tmpl := match name with
        | some n => assocGet dmt n
        | none => some t
      match tmpl with
      | none => .panic "registry.devidx"
      | some t' =>
        runRM (renderTemplate r data renderFuel t') { rootTemplate := t'.name, devTemplates := some dmt } out

/-- `render_to_output` -/
def Registry.renderToOutput (r : Registry) (fs : FS) (name : Str) (data : Json) (out : Out) : Final :=
  match r.getOrLoad fs name with
  | .ok t => r.renderResolved fs (some name) t data out
  | .err e => .err e []
  | .panic s => .panic s
  | .fuel => .fuel

/-! ### the entry points.  `Context::wraps` on a `serde_json::Value` is the identity; a `StringOutput`
    / `StringWriter` is a writer that never fails. -/

def Registry.render (r : Registry) (fs : FS) (name : Str) (data : Json) : Final :=
  r.renderToOutput fs name data {}
def Registry.renderWithContext (r : Registry) (fs : FS) (name : Str) (data : Json) : Final :=
  r.renderToOutput fs name data {}
def Registry.renderToWrite (r : Registry) (fs : FS) (name : Str) (data : Json) (failAt : Option Nat) : Final :=
  r.renderToOutput fs name data { failAt := failAt }
def Registry.renderWithContextToWrite (r : Registry) (fs : FS) (name : Str) (data : Json) (failAt : Option Nat) : Final :=
  r.renderToOutput fs name data { failAt := failAt }

def Registry.compileForRenderTemplate (r : Registry) (src : Str) : CRes Tmpl :=
  compile2 src { preventIndent := r.preventIndent }

def Registry.renderTemplateWithContextToWrite (r : Registry) (fs : FS) (src : Str) (data : Json)
    (failAt : Option Nat) : Final :=
  match r.compileForRenderTemplate src with
  | .ok t => r.renderResolved fs none t data { failAt := failAt }
  | .err e => .err (.of (.templateError e)) []
  | .panic s => .panic s
  | .fuel => .fuel
def Registry.renderTemplateWithContext (r : Registry) (fs : FS) (src : Str) (data : Json) : Final :=
  match r.compileForRenderTemplate src with
  | .ok t => r.renderResolved fs none t data {}
  | .err e => .err (.of (.templateError e)) []
  | .panic s => .panic s
  | .fuel => .fuel
def Registry.renderTemplateToWrite (r : Registry) (fs : FS) (src : Str) (data : Json) (failAt : Option Nat) : Final :=
  r.renderTemplateWithContextToWrite fs src data failAt
def Registry.renderTemplate (r : Registry) (fs : FS) (src : Str) (data : Json) : Final :=
  r.renderTemplateToWrite fs src data none

end Hbs
