import HbsModel.Render
import HbsModel.Escape
import HbsModel.Generated.Builtins
/-
  Model of registry.rs / sources.rs: the registry state machine, the file system as a parameter,
  template (re)loading in dev mode, and the render entry points (written separately, as in the Rust).
-/
namespace Hbs
open RM

abbrev FS := List (Str × Str)          -- path ↦ content

def assocInsert {α : Type} (l : List (Str × α)) (k : Str) (v : α) : List (Str × α) := hashInsert l k v

/-- interpretation of the implementation identifiers that `setup_builtins` registers
    (the `positive` flag of the two `IfHelper` statics is regenerated too) -/
def implKind (ifStatics : List (String × Bool)) (impl : String) : Option HelperKind :=
  match ifStatics.find? (·.1 == impl) with
  | some (_, pos) => some (.ifH pos)
  | none =>
    match impl with
    | "EACH_HELPER" => some .each | "WITH_HELPER" => some .withH
    | "LOOKUP_HELPER" => some .lookup | "RAW_HELPER" => some .raw | "LOG_HELPER" => some .log
    | "helper_extras::eq" => some .eq | "helper_extras::ne" => some .ne | "helper_extras::gt" => some .gt
    | "helper_extras::gte" => some .gte | "helper_extras::lt" => some .lt | "helper_extras::lte" => some .lte
    | "helper_extras::and" => some .andH | "helper_extras::or" => some .orH
    | "helper_extras::not" => some .notH | "helper_extras::len" => some .len
    | _ => none

def mkBuiltins (ifStatics : List (String × Bool)) (regs : List (String × String)) : List (Str × HelperKind) :=
  regs.foldl (fun acc (n, impl) => match implKind ifStatics impl with
    | some k => assocInsert acc n.toList k
    | none => acc) []

def mkBuiltinDecorators (regs : List (String × String)) : List (Str × DecoKind) :=
  regs.foldl (fun acc (n, impl) => if impl == "INLINE_DECORATOR" then assocInsert acc n.toList .inline else acc) []

/-- `Registry::new` of the current source (regenerated registrations and defaults) -/
def Registry.new : Registry :=
  { helpers := mkBuiltins Generated.ifStatics Generated.builtinHelpers,
    decorators := mkBuiltinDecorators Generated.builtinDecorators,
    escape := if Generated.defaultEscapeFn == "html_escape" then escapeHtml else id,
    strict := Generated.defaultStrict, dev := Generated.defaultDev,
    preventIndent := Generated.defaultPreventIndent }

/-! ### mutators -/

/-- `register_template` -/
def Registry.registerTemplate (r : Registry) (name : Str) (t : Tmpl) : Registry :=
  -- the name no longer stands for a previously tracked source
  { r with templates := assocInsert r.templates name t, sources := assocRemove r.sources name }

/-- `register_template_string` (also `register_partial`) -/
def Registry.registerTemplateString (r : Registry) (name src : Str) : CRes Registry :=
  match compile2 src { name := some name, isPartial := false, preventIndent := r.preventIndent } with
  | .ok t => .ok (r.registerTemplate name t)
  | .err e => .err e
  | .panic s => .panic s
  | .fuel => .fuel

/-- `register_template_file` -/
def Registry.registerTemplateFile (r : Registry) (fs : FS) (name path : Str) : CRes Registry :=
  match assocGet fs path with
  | none => .err { reason := .ioError name }
  | some content =>
    match r.registerTemplateString name content with
    | .ok r' => .ok (if r'.dev then { r' with sources := assocInsert r'.sources name path } else r')
    | e => e

/-- `unregister_template` -/
def Registry.unregisterTemplate (r : Registry) (name : Str) : Registry :=
  { r with templates := assocRemove r.templates name, sources := assocRemove r.sources name }

/-- `clear_templates` -/
def Registry.clearTemplates (r : Registry) : Registry := { r with templates := [], sources := [] }

/-- `set_dev_mode` -/
def Registry.setDevMode (r : Registry) (v : Bool) : Registry :=
  if v then { r with dev := true } else { r with dev := false, sources := [] }

def Registry.hasTemplate (r : Registry) (name : Str) : Bool := (assocGet r.templates name).isSome
def Registry.templateKeys (r : Registry) : List Str := r.templates.map (·.1)

/-! ### loading -/

inductive LoadRes where
  | ok (t : Tmpl)
  | err (e : RenderError)
  | panic (s : String)
  | fuel

/-- `get_or_load_template_optional` -/
def Registry.getOrLoadOptional (r : Registry) (fs : FS) (name : Str) : Option LoadRes :=
  match r.dev, assocGet r.sources name with
  | true, some path =>
    match assocGet fs path with
    | none => some (.err (.of (.templateError { reason := .ioError name })))
    | some src =>
      match compile2 src { name := some name, preventIndent := r.preventIndent, isPartial := false } with
      | .ok t => some (.ok t)
      | .err e => some (.err (.of (.templateError e)))
      | .panic s => some (.panic s)
      | .fuel => some .fuel
  | _, _ => (assocGet r.templates name).map LoadRes.ok

/-- `get_or_load_template` -/
def Registry.getOrLoad (r : Registry) (fs : FS) (name : Str) : LoadRes :=
  match r.getOrLoadOptional fs name with
  | some x => x
  | none => .err (.of (.templateNotFound name))

/-- `gather_dev_mode_templates` -/
def Registry.gatherDev (r : Registry) (fs : FS) (prebound : Option (Str × Tmpl)) :
    List (Str × Str) → List (Str × Tmpl) → Except LoadRes (List (Str × Tmpl))
  | [], acc =>
    match prebound with
    | some (n, t) => .ok (assocInsert acc n t)
    | none => .ok acc
  | (name, _) :: rest, acc =>
    if (prebound.map (·.1)) == some name then r.gatherDev fs prebound rest acc
    else match r.getOrLoad fs name with
      | .ok t => r.gatherDev fs prebound rest (assocInsert acc name t)
      | e => .error e

inductive Final where
  | ok (out : Str)
  | err (e : RenderError) (written : Str)
  | panic (s : String)
  | fuel

def renderFuel : Nat := 4000

def runRM (x : RM Unit) (rc : RC) (out : Out) : Final :=
  match x rc out with
  | .ok _ _ o => .ok o.text
  | .err e o => .err e o.text
  | .panic s => .panic s
  | .fuel => .fuel

/-- `render_resolved_template_to_output` -/
def Registry.renderResolved (r : Registry) (fs : FS) (name : Option Str) (t : Tmpl) (data : Json)
    (out : Out) : Final :=
  if !r.dev then
    runRM (renderTemplate r data renderFuel t) { rootTemplate := t.name } out
  else
    match r.gatherDev fs (name.map (fun n => (n, t))) r.sources [] with
    | .error (.err e) => .err e []
    | .error (.panic s) => .panic s
    | .error .fuel => .fuel
    | .error (.ok _) => .panic "registry.gather"
    | .ok dmt =>
      let tmpl : Option Tmpl := match name with
        | some n => assocGet dmt n
        | none => some t
      match tmpl with
      | none => .panic "registry.devidx"
      | some t' =>
        runRM (renderTemplate r data renderFuel t') { rootTemplate := t'.name, devTemplates := some dmt } out

/-- `render_to_output` -/
def Registry.renderToOutput (r : Registry) (fs : FS) (name : Str) (data : Json) (out : Out) : Final :=
  match r.getOrLoad fs name with
  | .ok t => r.renderResolved fs (some name) t data out
  | .err e => .err e []
  | .panic s => .panic s
  | .fuel => .fuel

/-! ### the entry points.  `Context::wraps` on a `serde_json::Value` is the identity; a `StringOutput`
    / `StringWriter` is a writer that never fails. -/

def Registry.render (r : Registry) (fs : FS) (name : Str) (data : Json) : Final :=
  r.renderToOutput fs name data {}
def Registry.renderWithContext (r : Registry) (fs : FS) (name : Str) (data : Json) : Final :=
  r.renderToOutput fs name data {}
def Registry.renderToWrite (r : Registry) (fs : FS) (name : Str) (data : Json) (failAt : Option Nat) : Final :=
  r.renderToOutput fs name data { failAt := failAt }
def Registry.renderWithContextToWrite (r : Registry) (fs : FS) (name : Str) (data : Json) (failAt : Option Nat) : Final :=
  r.renderToOutput fs name data { failAt := failAt }

def Registry.compileForRenderTemplate (r : Registry) (src : Str) : CRes Tmpl :=
  compile2 src { preventIndent := r.preventIndent }

def Registry.renderTemplateWithContextToWrite (r : Registry) (fs : FS) (src : Str) (data : Json)
    (failAt : Option Nat) : Final :=
  match r.compileForRenderTemplate src with
  | .ok t => r.renderResolved fs none t data { failAt := failAt }
  | .err e => .err (.of (.templateError e)) []
  | .panic s => .panic s
  | .fuel => .fuel
def Registry.renderTemplateWithContext (r : Registry) (fs : FS) (src : Str) (data : Json) : Final :=
  match r.compileForRenderTemplate src with
  | .ok t => r.renderResolved fs none t data {}
  | .err e => .err (.of (.templateError e)) []
  | .panic s => .panic s
  | .fuel => .fuel
def Registry.renderTemplateToWrite (r : Registry) (fs : FS) (src : Str) (data : Json) (failAt : Option Nat) : Final :=
  r.renderTemplateWithContextToWrite fs src data failAt
def Registry.renderTemplate (r : Registry) (fs : FS) (src : Str) (data : Json) : Final :=
  r.renderTemplateToWrite fs src data none

end Hbs
