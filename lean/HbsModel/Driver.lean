import HbsModel.Registry
/-
  Line protocol driver: one JSON case per line in, one JSON result per line out.
  (Not part of any theorem; the `partial def`s here are the stdin loop and the AST dump.)
-/
namespace Hbs.Driver
open Hbs Hbs.Pest Hbs.Grammar

/-! ### protocol JSON helpers -/

def fld (j : Json) (k : String) : Option Json :=
  match j with
  | .obj o => o.get? k.toList
  | _ => none

def fldStr (j : Json) (k : String) : Option Str := (fld j k).bind Json.asStr?
def fldBool (j : Json) (k : String) (d : Bool := false) : Bool := ((fld j k).bind Json.asBool?).getD d
def fldNat (j : Json) (k : String) : Option Nat := (fld j k).bind Json.asU64?
def fldArr (j : Json) (k : String) : List Json :=
  match fld j k with
  | some (.arr a) => a.toList
  | _ => []
def fldStrOpt (j : Json) (k : String) : Option Str :=
  match fld j k with
  | some (.str s) => some s
  | _ => none

def hexToNat (s : Str) : Nat := s.foldl (fun a c => a * 16 + (hexVal? c).getD 0) 0

mutual
  /-- data values travel with explicit number representation: {"#u":"1"} {"#i":"-1"} {"#f":"<hex bits>"} -/
  partial def decodeData : Json → Json
    | .arr a => .arr (JList.ofList (a.toList.map decodeData))
    | .obj o =>
      match o.toList with
      | [(k, .str v)] =>
        if k == str "#u" then .num (.pos (digitsToNat v))
        else if k == str "#i" then .num (.neg (digitsToNat (v.drop 1)))
        else if k == str "#f" then .num (.flt (hexToNat v))
        else .obj (JObj.ofList [(k, .str v)])
      | l => .obj (JObj.ofList (l.map (fun (k, v) => (k, decodeData v))))
    | j => j
end

def natHex (n : Nat) : Str :=
  let rec go (fuel : Nat) (n : Nat) (acc : Str) : Str :=
    match fuel with
    | 0 => acc
    | f + 1 => if n == 0 then acc else go f (n / 16) (hexDigit (n % 16) :: acc)
  let s := go 20 n []
  List.replicate (16 - s.length) '0' ++ s

mutual
  partial def encodeData : Json → Json
    | .num (.pos n) => .obj (JObj.ofList [(str "#u", .str (natToStr n))])
    | .num (.neg n) => .obj (JObj.ofList [(str "#i", .str ('-' :: natToStr n))])
    | .num (.flt b) => .obj (JObj.ofList [(str "#f", .str (natHex b))])
    | .arr a => .arr (JList.ofList (a.toList.map encodeData))
    | .obj o => .obj (JObj.ofList (o.toList.map (fun (k, v) => (k, encodeData v))))
    | j => j
end

def jStr (s : Str) : Json := .str s
def jS (s : String) : Json := .str s.toList
def jOpt (o : Option Str) : Json := match o with | some s => .str s | none => .null
def jNatOpt (o : Option Nat) : Json := match o with | some n => Json.ofNat n | none => .null
def jObj (l : List (String × Json)) : Json := .obj (JObj.ofList (l.map (fun (k, v) => (k.toList, v))))
def jArr (l : List Json) : Json := .arr (JList.ofList l)

/-! ### AST dump -/

def dumpSeg : PathSeg → Json
  | .named n => jObj [("n", jStr n)]
  | .root => jS "root"
  | .loc => jS "loc"
  | .up => jS "up"

def dumpPath : Path → Json
  | .relative segs raw => jObj [("k", jS "rel"), ("segs", jArr (segs.map dumpSeg)), ("raw", jStr raw)]
  | .localVar l n raw => jObj [("k", jS "local"), ("level", Json.ofNat l), ("name", jStr n), ("raw", jStr raw)]

def dumpBp : Option BlockParam → Json
  | none => .null
  | some (.single a) => jArr [jStr a]
  | some (.pair a b) => jArr [jStr a, jStr b]

mutual
  partial def dumpParam : Param → Json
    | .name s => jObj [("k", jS "name"), ("s", jStr s)]
    | .path p => jObj [("k", jS "path"), ("p", dumpPath p)]
    | .lit j => jObj [("k", jS "lit"), ("j", encodeData j)]
    | .sub h => jObj [("k", jS "sub"), ("h", dumpHelper h)]
  partial def dumpHelper (h : HelperT) : Json :=
    jObj [("name", dumpParam h.name), ("params", jArr (h.params.map dumpParam)),
          ("hash", jArr (h.hash.map (fun (k, v) => jArr [jStr k, dumpParam v]))),
          ("bp", dumpBp h.blockParam),
          ("template", match h.template with | some t => dumpTmpl t | none => .null),
          ("inverse", match h.inverse with | some t => dumpTmpl t | none => .null),
          ("block", .bool h.block), ("chain", .bool h.chain), ("ibw", .bool h.indentBeforeWrite)]
  partial def dumpDeco (d : DecoT) : Json :=
    jObj [("name", dumpParam d.name), ("params", jArr (d.params.map dumpParam)),
          ("hash", jArr (d.hash.map (fun (k, v) => jArr [jStr k, dumpParam v]))),
          ("template", match d.template with | some t => dumpTmpl t | none => .null),
          ("indent", jOpt d.indent), ("ibw", .bool d.indentBeforeWrite)]
  partial def dumpElem : Elem → Json
    | .raw s => jObj [("k", jS "raw"), ("s", jStr s)]
    | .html h => jObj [("k", jS "html"), ("h", dumpHelper h)]
    | .expr h => jObj [("k", jS "expr"), ("h", dumpHelper h)]
    | .block h => jObj [("k", jS "block"), ("h", dumpHelper h)]
    | .decoExpr d => jObj [("k", jS "decoExpr"), ("d", dumpDeco d)]
    | .decoBlock d => jObj [("k", jS "decoBlock"), ("d", dumpDeco d)]
    | .partialExpr d => jObj [("k", jS "partialExpr"), ("d", dumpDeco d)]
    | .partialBlock d => jObj [("k", jS "partialBlock"), ("d", dumpDeco d)]
    | .comment s => jObj [("k", jS "comment"), ("s", jStr s)]
  partial def dumpTmpl (t : Tmpl) : Json :=
    jObj [("name", jOpt t.name), ("elements", jArr (t.elements.map dumpElem)),
          ("mapping", jArr (t.mapping.map (fun (l, c) => jArr [Json.ofNat l, Json.ofNat c])))]
end

/-! ### results -/

def terrFields (e : TemplateError) : List (String × Json) :=
  let (rn, args) : String × List Json := match e.reason with
    | .mismatchingClosedHelper a b => ("MismatchingClosedHelper", [jStr a, jStr b])
    | .mismatchingClosedDecorator a b => ("MismatchingClosedDecorator", [jStr a, jStr b])
    | .invalidSyntax => ("InvalidSyntax", [])
    | .invalidParam s => ("InvalidParam", [jStr s])
    | .ioError n => ("IoError", [jStr n])
  [("reason", jS rn), ("args", jArr args), ("name", jOpt e.name), ("line", jNatOpt e.line), ("col", jNatOpt e.col)]

def terrJson (e : TemplateError) : Json := jObj (("r", jS "terr") :: terrFields e)

def rerrFields (e : RenderError) : List (String × Json) :=
  let (rn, args) : String × List Json := match e.reason with
    | .templateNotFound n => ("TemplateNotFound", [jStr n])
    | .templateError te => ("TemplateError", [jObj (terrFields te)])
    | .missingVariable p => ("MissingVariable", [jOpt p])
    | .partialNotFound n => ("PartialNotFound", [jStr n])
    | .helperNotFound n => ("HelperNotFound", [jStr n])
    | .paramNotFoundForIndex h i => ("ParamNotFoundForIndex", [jStr h, Json.ofNat i])
    | .paramNotFoundForName h n => ("ParamNotFoundForName", [jStr h, jStr n])
    | .paramTypeMismatchForName h n t => ("ParamTypeMismatchForName", [jStr h, jStr n, jStr t])
    | .hashTypeMismatchForName h n t => ("HashTypeMismatchForName", [jStr h, jStr n, jStr t])
    | .decoratorNotFound n => ("DecoratorNotFound", [jStr n])
    | .cannotIncludeSelf => ("CannotIncludeSelf", [])
    | .invalidLoggingLevel l => ("InvalidLoggingLevel", [jStr l])
    | .invalidParamType t => ("InvalidParamType", [jStr t])
    | .blockContentRequired => ("BlockContentRequired", [])
    | .invalidJsonPath p => ("InvalidJsonPath", [jStr p])
    | .invalidJsonIndex s => ("InvalidJsonIndex", [jStr s])
    | .serdeError => ("SerdeError", [])
    | .ioError => ("IOError", [])
    | .utf8Error => ("Utf8Error", [])
    | .unimplemented => ("Unimplemented", [])
    | .other s => ("Other", [jStr s])
  [("reason", jS rn), ("args", jArr args), ("name", jOpt e.name), ("line", jNatOpt e.line), ("col", jNatOpt e.col)]

def finalJson : Final → Json
  | .ok out => jObj [("r", jS "ok"), ("out", jStr out)]
  | .err e w => jObj (("r", jS "rerr") :: ("written", jStr w) :: rerrFields e)
  | .panic s => jObj [("r", jS "panic"), ("site", jS s)]
  | .fuel => jObj [("r", jS "fuel")]

def cresJson {α : Type} (f : α → Json) : CRes α → Json
  | .ok a => f a
  | .err e => terrJson e
  | .panic s => jObj [("r", jS "panic"), ("site", jS s)]
  | .fuel => jObj [("r", jS "fuel")]

/-! ### escape functions and helper configuration -/

def markEscape (s : Str) : Str := str "⟦" ++ s ++ str "⟧"

def tyTokOf (s : Str) : TyTok :=
  if s == str "object" then .tObject else if s == str "array" then .tArray else if s == str "str" then .tStr
  else if s == str "i64" then .tI64 else if s == str "u64" then .tU64 else if s == str "f64" then .tF64
  else if s == str "bool" then .tBool else if s == str "null" then .tNull else if s == str "Json" then .tJson
  else if s == str "String" then .tSerdeString else if s == str "u32" then .tSerdeU32 else if s == str "i32" then .tSerdeI32
  else .tSerdeVecU64

def macroSigOf (j : Json) : MacroSig :=
  { name := (fldStr j "name").getD [],
    params := (fldArr j "params").map (fun p => ((fldStr p "n").getD [], tyTokOf ((fldStr p "t").getD []))),
    opts := (fldArr j "opts").map (fun p => ((fldStr p "n").getD [], tyTokOf ((fldStr p "t").getD []),
              decodeData ((fld p "d").getD .null))),
    args := fldBool j "args", kwargs := fldBool j "kwargs", retFirst := fldBool j "ret_first" }

def helperKindOf (j : Json) : Option HelperKind :=
  match (fldStr j "kind").map String.ofList with
  | some "mark" => some (.mark ((fldStr j "tag").getD []))
  | some "probe" => some .probe
  | some "evalp" => some .evalp
  | some "rcstate" => some .rcstate
  | some "vret" => some .vret
  | some "counter" => some .counter
  | some "wr" => some .wr
  | some "incl" => some .incl
  | some "wfmt" => some .wr   -- the harness helper that writes the same text through `write!` with a format argument
  | some "macro" => (fld j "sig").map (fun s => .macroH (macroSigOf s))
  | _ => none

def decoKindOf (j : Json) : Option DecoKind :=
  match (fldStr j "kind").map String.ofList with
  | some "setctx" => some .setctx
  | some "sethelper" => some .sethelper
  | some "inline" => some .inline
  | _ => none

structure Env where
  dummy : Unit := ()

def mkRegistry (env : Env) (cfg : Json) : Registry :=
  let esc : Str → Str := match (fldStr cfg "escape").map String.ofList with
    | some "none" => id
    | some "mark" => markEscape
    | _ => Registry.new.escape
  let _ := env
  let r := { Registry.new with escape := esc }
  let r := (fldArr cfg "helpers").foldl (fun r h =>
    match fldStr h "name", helperKindOf h with
    | some n, some k => { r with helpers := assocInsert r.helpers n k }
    | _, _ => r) r
  let r := (fldArr cfg "decorators").foldl (fun r d =>
    match fldStr d "name", decoKindOf d with
    | some n, some k => { r with decorators := assocInsert r.decorators n k }
    | _, _ => r) r
  let r := { r with strict := fldBool cfg "strict", preventIndent := fldBool cfg "prevent_indent" }
  r.setDevMode (fldBool cfg "dev")

/-! ### sessions -/

structure Session where
  regs : Array Registry
  fs : FS

def setReg (s : Session) (i : Nat) (r : Registry) : Session :=
  { s with regs := s.regs.setIfInBounds i r }

def regResult (s : Session) (i : Nat) (x : CRes Registry) : Session × Json :=
  match x with
  | .ok r => (setReg s i r, jObj [("r", jS "ok")])
  | .err e => (s, terrJson e)
  | .panic p => (s, jObj [("r", jS "panic"), ("site", jS p)])
  | .fuel => (s, jObj [("r", jS "fuel")])

/-- entry points that return a `String` hand no partial output to the caller on error -/
def noWritten : Final → Final
  | .err e _ => .err e []
  | f => f

def doRender (r : Registry) (fs : FS) (op : Json) : Json :=
  let api := ((fldStr op "api").map String.ofList).getD "render"
  let data := decodeData ((fld op "data").getD .null)
  let name := (fldStr op "name").getD []
  let src := (fldStr op "src").getD []
  let failAt := fldNat op "fail_at"
  -- data that serde_json cannot represent (the harness passes `u128::MAX`): `Context::wraps` is the first thing every entry
  -- point does, so each of them returns the serialization error – whatever else is wrong with the call
  if (fldStr op "rust_data").isSome then finalJson (.err (.of .serdeError) []) else
  let fin : Final := match api with
    | "render" => noWritten (r.render fs name data)
    | "render_with_context" => noWritten (r.renderWithContext fs name data)
    | "render_to_write" => r.renderToWrite fs name data failAt
    | "render_with_context_to_write" => r.renderWithContextToWrite fs name data failAt
    | "render_template" => noWritten (r.renderTemplate fs src data)
    | "render_template_with_context" => noWritten (r.renderTemplateWithContext fs src data)
    | "render_template_to_write" => r.renderTemplateToWrite fs src data failAt
    | "render_template_with_context_to_write" => r.renderTemplateWithContextToWrite fs src data failAt
    | _ => .panic "driver.unknown_api"
  finalJson fin

def stepOp (s : Session) (op : Json) : Session × Json :=
  let kind := ((fldStr op "op").map String.ofList).getD ""
  let i := (fldNat op "reg").getD 0
  let r := s.regs[i]?.getD {}
  let name := (fldStr op "name").getD []
  match kind with
  | "reg_string" | "reg_partial" => regResult s i (r.registerTemplateString name ((fldStr op "src").getD []))
  | "reg_template" =>
    let src := (fldStr op "src").getD []
    let x : CRes Registry := match compile2 src { name := fldStrOpt op "tname" } with
      | .ok t => .ok (r.registerTemplate name t)
      | .err e => .err e
      | .panic p => .panic p
      | .fuel => .fuel
    regResult s i x
  | "reg_file" => regResult s i (r.registerTemplateFile s.fs name ((fldStr op "file").getD []))
  | "unregister" => (setReg s i (r.unregisterTemplate name), jObj [("r", jS "ok")])
  | "clear" => (setReg s i r.clearTemplates, jObj [("r", jS "ok")])
  | "set_dev" => (setReg s i (r.setDevMode (fldBool op "v")), jObj [("r", jS "ok")])
  | "set_prevent_indent" => (setReg s i { r with preventIndent := fldBool op "v" }, jObj [("r", jS "ok")])
  | "set_strict" => (setReg s i { r with strict := fldBool op "v" }, jObj [("r", jS "ok")])
  | "write_file" =>
    -- a file written as raw bytes that are not UTF-8 (`bytes_hex`) cannot be read as a template source: as good as absent
    if (fldStr op "bytes_hex").isSome then ({ s with fs := assocRemove s.fs ((fldStr op "file").getD []) }, jObj [("r", jS "ok")]) else
    ({ s with fs := assocInsert s.fs ((fldStr op "file").getD []) ((fldStr op "content").getD []) }, jObj [("r", jS "ok")])
  | "delete_file" => ({ s with fs := assocRemove s.fs ((fldStr op "file").getD []) }, jObj [("r", jS "ok")])
  | "clone" => ({ s with regs := s.regs.push r }, jObj [("r", jS "ok")])
  | "has" => (s, jObj [("r", jS "bool"), ("v", .bool (r.hasTemplate name))])
  | "keys" => (s, jObj [("r", jS "keys"), ("v", jArr (r.templateKeys.map jStr))])
  | "render" | "render_mt" => (s, doRender r s.fs op)
  | _ => (s, jObj [("r", jS "panic"), ("site", jS "driver.unknown_op")])

def runSession (env : Env) (c : Json) : Json :=
  let regs := (fldArr c "regs").map (mkRegistry env)
  let s0 : Session := { regs := regs.toArray, fs := [] }
  let (_, outs) := (fldArr c "ops").foldl (fun (acc : Session × List Json) op =>
    let (s', o) := stepOp acc.1 op
    (s', o :: acc.2)) (s0, [])
  jObj [("r", jS "session"), ("results", jArr outs.reverse)]

def ruleByName (n : Str) : Option Rule := allRules.find? (fun r => r.name.toList == n)

def runCase (env : Env) (c : Json) : Json :=
  match (fldStr c "kind").map String.ofList with
  | some "compile" =>
    let src := (fldStr c "src").getD []
    cresJson (fun t => jObj [("r", jS "ok"), ("ast", dumpTmpl t)])
      (compile2 src { name := fldStrOpt c "name", preventIndent := fldBool c "prevent_indent" })
  | some "pairs" =>
    let src := (fldStr c "src").getD []
    match ruleByName ((fldStr c "rule").getD (str "handlebars")) with
    | none => jObj [("r", jS "panic"), ("site", jS "driver.unknown_rule")]
    | some rule =>
      match Pest.parse Grammar.rules Grammar.ws rule src with
      | .ok _ toks => jObj [("r", jS "ok"), ("toks", jArr (toks.map (fun t =>
          jArr [jS (match t.rule with | some r => r.name | none => "EOI"), Json.ofNat t.s, Json.ofNat t.e])))]
      | .fail => jObj [("r", jS "fail")]
      | .fuel => jObj [("r", jS "fuel")]
  | some "numfmt" =>
    -- Number::to_string of the given number, and from_str of the given text
    let n := decodeData ((fld c "n").getD .null)
    let txt := (fldStr c "text").getD []
    jObj [("r", jS "numfmt"), ("s", jStr n.render),
          ("p", match Json.parse txt with | some v => encodeData v | none => jS "ERR")]
  | some "session" => runSession env c
  | some "escape" => jObj [("r", jS "esc"), ("out", jStr (escapeHtml ((fldStr c "s").getD [])))]
  | _ => jObj [("r", jS "panic"), ("site", jS "driver.unknown_kind")]

def processLine (env : Env) (line : String) : String :=
  match Json.parse line.toList with
  | none => "{\"r\":\"badcase\"}"
  | some c =>
    let res := runCase env c
    let withId := match res, fld c "id" with
      | .obj o, some i => Json.obj (o.insert (str "id") i)
      | r, _ => r
    String.ofList withId.toText

end Hbs.Driver
