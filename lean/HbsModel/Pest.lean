import HbsModel.Basic
/-
  A generic interpreter for pest grammars (the subset pest_meta produces for grammar.pest, plus
  the usual built-ins).  One structural recursion on fuel; repetition and implicit whitespace
  skipping are internal constructors (`starTail`, `skip`) of the same function.
  Result of a successful parse: the pre-order list of (rule, start, end) = `pairs.flatten()`.

  Semantics (validated pair-stream by pair-stream against the real pest parser):
    a ~ b   = a, skip, b                 (sequence restores the position on failure)
    e*      = (e (skip e)*)?             e+ = e (skip e)*
    skip    = WHITESPACE*  only when the current atomicity is non-atomic
    rules   : normal / silent inherit the caller's atomicity; @ sets atomic, $ compound-atomic,
              ! non-atomic; a rule emits its own token iff it is not silent and the *caller's*
              atomicity is not atomic; look-ahead emits nothing and restores the position.
-/
namespace Hbs.Pest

inductive Builtin where
  | any | eoi | soi | asciiDigit | asciiNonzeroDigit | asciiBinDigit | asciiOctDigit | asciiHexDigit
  | asciiAlphaLower | asciiAlphaUpper | asciiAlpha | asciiAlnum | ascii | newline
deriving DecidableEq, Repr

inductive PExpr (R : Type) where
  | str (s : Str)
  | insens (s : Str)
  | range (lo hi : Char)
  | rule (r : R)
  | builtin (b : Builtin)
  | seq (a b : PExpr R)
  | choice (a b : PExpr R)
  | opt (a : PExpr R)
  | rep (a : PExpr R)
  | repOnce (a : PExpr R)
  | posPred (a : PExpr R)
  | negPred (a : PExpr R)
  -- internal
  | skip
  | starTail (a : PExpr R)
deriving Repr

inductive RuleTy where
  | normal | silent | atomic | compound | nonAtomic
deriving DecidableEq, Repr

structure RuleDef (R : Type) where
  ty : RuleTy
  body : PExpr R

inductive Atom where
  | nonAtomic | atomic | compound
deriving DecidableEq, Repr

/-- a token of the flattened pair stream; `rule = none` is the EOI pair -/
structure Tok (R : Type) where
  rule : Option R
  s : Nat
  e : Nat
deriving Repr

structure St where
  pos : Nat
  rest : Str
deriving Repr

inductive PRes (R : Type) where
  | ok (st : St) (toks : List (Tok R))
  | fail
  | fuel

def matchStr : Str → St → Option St
  | [], st => some st
  | c :: cs, st =>
    match st.rest with
    | d :: ds => if c == d then matchStr cs ⟨st.pos + 1, ds⟩ else none
    | [] => none

def lowerAscii (c : Char) : Char :=
  if 'A' ≤ c ∧ c ≤ 'Z' then Char.ofNat (c.toNat + 32) else c

def matchInsens : Str → St → Option St
  | [], st => some st
  | c :: cs, st =>
    match st.rest with
    | d :: ds => if lowerAscii c == lowerAscii d then matchInsens cs ⟨st.pos + 1, ds⟩ else none
    | [] => none

def inRange (lo hi c : Char) : Bool := lo.toNat ≤ c.toNat && c.toNat ≤ hi.toNat

def matchChar (p : Char → Bool) (st : St) : Option St :=
  match st.rest with
  | d :: ds => if p d then some ⟨st.pos + 1, ds⟩ else none
  | [] => none

def builtinChar : Builtin → Char → Bool
  | .any, _ => true
  | .asciiDigit, c => inRange '0' '9' c
  | .asciiNonzeroDigit, c => inRange '1' '9' c
  | .asciiBinDigit, c => inRange '0' '1' c
  | .asciiOctDigit, c => inRange '0' '7' c
  | .asciiHexDigit, c => inRange '0' '9' c || inRange 'a' 'f' c || inRange 'A' 'F' c
  | .asciiAlphaLower, c => inRange 'a' 'z' c
  | .asciiAlphaUpper, c => inRange 'A' 'Z' c
  | .asciiAlpha, c => inRange 'a' 'z' c || inRange 'A' 'Z' c
  | .asciiAlnum, c => inRange 'a' 'z' c || inRange 'A' 'Z' c || inRange '0' '9' c
  | .ascii, c => c.toNat < 128
  | _, _ => false

variable {R : Type}

/-- the atomicity a rule's body runs under: normal / silent rules inherit the caller's -/
def innerAtom (ty : RuleTy) (atom : Atom) : Atom :=
  match ty with
  | .normal => atom
  | .silent => atom
  | .atomic => .atomic
  | .compound => .compound
  | .nonAtomic => .nonAtomic

/-- The interpreter.  `ws` is the grammar's WHITESPACE rule (if any). -/
def eval (G : R → RuleDef R) (ws : Option R) : Nat → Atom → PExpr R → St → PRes R
  | 0, _, _, _ => .fuel
  | fuel + 1, atom, e, st =>
    match e with
    | .str s => match matchStr s st with
      | some st' => .ok st' []
      | none => .fail
    | .insens s => match matchInsens s st with
      | some st' => .ok st' []
      | none => .fail
    | .range lo hi => match matchChar (inRange lo hi) st with
      | some st' => .ok st' []
      | none => .fail
    | .builtin .eoi =>
      if st.rest.isEmpty then
        .ok st (if atom == .atomic then [] else [⟨none, st.pos, st.pos⟩])
      else .fail
    | .builtin .soi => if st.pos == 0 then .ok st [] else .fail
    | .builtin .newline =>
      match st.rest with
      | '\r' :: '\n' :: t => .ok ⟨st.pos + 2, t⟩ []
      | '\n' :: t => .ok ⟨st.pos + 1, t⟩ []
      | '\r' :: t => .ok ⟨st.pos + 1, t⟩ []
      | _ => .fail
    | .builtin b => match matchChar (builtinChar b) st with
      | some st' => .ok st' []
      | none => .fail
    | .rule r =>
      let d := G r
      match eval G ws fuel (innerAtom d.ty atom) d.body st with
      | .ok st' toks =>
        if d.ty != .silent && atom != .atomic then .ok st' (⟨some r, st.pos, st'.pos⟩ :: toks)
        else .ok st' toks
      | .fail => .fail
      | .fuel => .fuel
    | .seq a b =>
      match eval G ws fuel atom a st with
      | .ok st1 t1 =>
        match eval G ws fuel atom .skip st1 with
        | .ok st2 t2 =>
          match eval G ws fuel atom b st2 with
          | .ok st3 t3 => .ok st3 (t1 ++ t2 ++ t3)
          | .fail => .fail
          | .fuel => .fuel
        | .fail => .fail
        | .fuel => .fuel
      | .fail => .fail
      | .fuel => .fuel
    | .choice a b =>
      match eval G ws fuel atom a st with
      | .ok st1 t1 => .ok st1 t1
      | .fail => eval G ws fuel atom b st
      | .fuel => .fuel
    | .opt a =>
      match eval G ws fuel atom a st with
      | .ok st1 t1 => .ok st1 t1
      | .fail => .ok st []
      | .fuel => .fuel
    | .rep a =>
      match eval G ws fuel atom a st with
      | .ok st1 t1 =>
        match eval G ws fuel atom (.starTail a) st1 with
        | .ok st2 t2 => .ok st2 (t1 ++ t2)
        | .fail => .fail
        | .fuel => .fuel
      | .fail => .ok st []
      | .fuel => .fuel
    | .repOnce a =>
      match eval G ws fuel atom a st with
      | .ok st1 t1 =>
        match eval G ws fuel atom (.starTail a) st1 with
        | .ok st2 t2 => .ok st2 (t1 ++ t2)
        | .fail => .fail
        | .fuel => .fuel
      | .fail => .fail
      | .fuel => .fuel
    | .starTail a =>
      -- (skip a)* : each round is a sequence, restored as a whole on failure
      match eval G ws fuel atom .skip st with
      | .ok st1 t1 =>
        match eval G ws fuel atom a st1 with
        | .ok st2 t2 =>
          if st2.pos == st.pos then .ok st2 (t1 ++ t2)   -- no progress: stop (pest would loop)
          else
            match eval G ws fuel atom (.starTail a) st2 with
            | .ok st3 t3 => .ok st3 (t1 ++ t2 ++ t3)
            | .fail => .fail
            | .fuel => .fuel
        | .fail => .ok st []
        | .fuel => .fuel
      | .fail => .ok st []
      | .fuel => .fuel
    | .skip =>
      if atom == .nonAtomic then
        match ws with
        | none => .ok st []
        | some w =>
          match eval G ws fuel .atomic (G w).body st with
          | .ok st1 _ =>
            if st1.pos == st.pos then .ok st1 []
            else eval G ws fuel atom .skip st1
          | .fail => .ok st []
          | .fuel => .fuel
      else .ok st []
    | .posPred a =>
      match eval G ws fuel atom a st with
      | .ok _ _ => .ok st []
      | .fail => .fail
      | .fuel => .fuel
    | .negPred a =>
      match eval G ws fuel atom a st with
      | .ok _ _ => .fail
      | .fail => .ok st []
      | .fuel => .fuel

/-- default fuel: linear in the input, and above the bound under which `Lemmas/GrammarTotal` proves that the interpreter
    never runs out on the regenerated grammar (there: `n * A + K * P + 1` with `A`, `K`, `P` computed from the grammar) -/
def defaultFuel (n : Nat) : Nat := 2000 * n + 2000

/-- run rule `r` (as entry point) on `src` -/
def parse (G : R → RuleDef R) (ws : Option R) (r : R) (src : Str) : PRes R :=
  eval G ws (defaultFuel src.length) .nonAtomic (.rule r) ⟨0, src⟩

/-- `pest::Position::line_col` of char offset `pos` in `src` (1-based; CRLF counts once; a lone CR
    is an ordinary column). -/
def lineColAux : Str → Nat → Nat → Nat × Nat
  | [], l, c => (l, c)
  | '\r' :: '\n' :: t, l, _ => lineColAux t (l + 1) 1
  | '\n' :: t, l, _ => lineColAux t (l + 1) 1
  | _ :: t, l, c => lineColAux t l (c + 1)

def lineCol (src : Str) (pos : Nat) : Nat × Nat := lineColAux (src.take pos) 1 1

end Hbs.Pest
