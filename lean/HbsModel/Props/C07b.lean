import HbsModel.Props.C07
import HbsModel.Props.C02
import HbsModel.Lemmas.EachIndex
import HbsModel.Lemmas.EachKey
/-
  C07 (continued)  `@index` at source level: `{{#each v}}{{@index}}{{/each}}` writes 0, 1, 2, … in order.
-/
namespace Hbs.C07
open Hbs RM Hbs.C02

/-- the body `{{@index}}` rendered in a state whose innermost block holds `@index = i`: the escaped text of `i` -/
theorem render_index_template (reg : Registry) (root : Json) (rc0 rcS : RC) (out : Out) (lc : Nat × Nat) (fuel i : Nat)
    (bI : Block) (brest : List Block)
    (hi : rc0.indentString = none) (hct : rc0.currentTemplate = none) (hmc : rc0.modifiedCtx = none) (hde : rc0.disableEscape = false)
    (hl : assocGet rc0.localHelpers ['@', 'i', 'n', 'd', 'e', 'x'] = none) (hr : assocGet reg.helpers ['@', 'i', 'n', 'd', 'e', 'x'] = none)
    (hbl : rc0.blocks = bI :: brest) (hidx : bI.locals.get (str "index") = some (Json.ofNat i))
    (hq : Quiet rc0 rcS) (hf : out.failAt = none) :
    ∃ rc2 out2, renderTemplate reg root (fuel + 6) (Tmpl.empty.pushElement (.expr PlainText.indexHT) lc.1 lc.2) rcS out = .ok () rc2 out2
      ∧ Quiet rc0 rc2 ∧ out2.failAt = none ∧ out2.text = out.text ++ reg.escape (Json.ofNat i).render := by
  have hqB : Quiet rc0 { rcS with currentTemplate := none } := by
    have := Quiet.setTemplate hq
    rw [hct] at this
    exact this
  have hblB : rcS.blocks = bI :: brest := by rw [hq.blocks, hbl]
  have hev : evaluate2 root (.localVar 0 ['i', 'n', 'd', 'e', 'x'] ['@', 'i', 'n', 'd', 'e', 'x']) { rcS with currentTemplate := none } out
      = .ok (.derived (Json.ofNat i)) { rcS with currentTemplate := none } out := by
    have : bI.locals.get ['i', 'n', 'd', 'e', 'x'] = some (Json.ofNat i) := hidx
    simp [evaluate2, RM.bnd_apply, hblB, this]
  have hel : renderElem reg root (fuel + 4) (.expr PlainText.indexHT) { rcS with currentTemplate := none } out
      = indentAwareWrite (reg.escape (Json.ofNat i).render) { rcS with currentTemplate := none } out :=
    expr_path_escapes_once reg root fuel PlainText.indexHT (.localVar 0 ['i', 'n', 'd', 'e', 'x'] ['@', 'i', 'n', 'd', 'e', 'x'])
      _ out (.derived (Json.ofNat i)) rfl rfl (by rw [hqB]; exact hl) hr (by rw [hqB]; exact hmc) (by rw [hqB]; exact hde) hev rfl
  obtain ⟨rc2, out2, hw, hq2, hf2, ht2⟩ := indentAwareWrite_quiet rc0 hi (reg.escape (Json.ofNat i).render) _ out hqB hf
  have hmA := quiet_modifyAux rc0 rcS (fun r => { r with currentTemplate := (Tmpl.empty.pushElement (.expr PlainText.indexHT) lc.1 lc.2).name }) out hq hqB
  have hq3 : Quiet rc0 { rc2 with currentTemplate := rcS.currentTemplate } := by
    have := Quiet.setTemplate hq2
    rw [← Quiet.template hq] at this
    exact this
  have hmB := quiet_modifyAux rc0 rc2 (fun r => { r with currentTemplate := rcS.currentTemplate }) out2 hq2 hq3
  refine ⟨_, out2, ?_, hq3, hf2, ht2⟩
  rw [show fuel + 6 = (fuel + 4) + 1 + 1 by omega]
  simp only [renderTemplate, RM.bind_def, RM.bnd_apply, RM.get_apply, hmA]
  simp only [Tmpl.empty, Tmpl.pushElement, Tmpl.name, Tmpl.elements, Tmpl.mapping, List.nil_append, renderElems,
    RM.bind_def, RM.bnd_apply, RM.mapErr, hel, hw, RM.pure_def, RM.ret_apply, Option.isNone_none]
  simp only [↓reduceIte]
  exact hmB

/-- the loop of `each` over ANY list of array items with the body `{{@index}}`: the escaped text of each item's index is written,
    in order; the state stays as it was up to the front block (the iteration variables) and the write flags -/
theorem eachLoop_index (reg : Registry) (root : Json) (lc : Nat × Nat) (h : HelperI) (path : Option (List Str)) (len : Nat)
    (hr : assocGet reg.helpers ['@', 'i', 'n', 'd', 'e', 'x'] = none) :
    ∀ (items : List (Nat × Option Str × Str × Json)) (fuel : Nat) (rcS : RC) (out : Out) (b : Block) (brest : List Block),
      (∀ it ∈ items, it.2.1 = none) →
      rcS.indentString = none → rcS.currentTemplate = none → rcS.modifiedCtx = none → rcS.disableEscape = false →
      assocGet rcS.localHelpers ['@', 'i', 'n', 'd', 'e', 'x'] = none →
      rcS.blocks = b :: brest → out.failAt = none →
      ∃ rc' out', eachLoop reg root (fuel + items.length + 7) (Tmpl.empty.pushElement (.expr PlainText.indexHT) lc.1 lc.2) h path len items rcS out = .ok () rc' out'
        ∧ (∃ b', Quiet { rcS with blocks := b' :: brest } rc') ∧ out'.failAt = none
        ∧ out'.text = out.text ++ (items.map (fun it => reg.escape (Json.ofNat it.1).render)).flatten := by
  intro items
  induction items with
  | nil =>
    intro fuel rcS out b brest _ hi hct hmc hde hl hbl hf
    refine ⟨rcS, out, by simp [eachLoop], ⟨b, ?_⟩, hf, by simp⟩
    have : ({ rcS with blocks := b :: brest } : RC) = rcS := by rw [← hbl]
    rw [this]; exact Quiet.refl _
  | cons it rest ih =>
    intro fuel rcS out b brest hkeys hi hct hmc hde hl hbl hf
    obtain ⟨i, key, rel, v⟩ := it
    have hkey : key = none := hkeys (i, key, rel, v) (by simp)
    subst hkey
    let rcA : RC := { rcS with blocks := eachIterBlock b h path i len none rel v :: brest }
    have hmod : modifyFrontBlock (fun b => eachIterBlock b h path i len none rel v) rcS out = .ok () rcA out := by
      simp [modifyFrontBlock, RM.modify_apply, hbl, rcA]
    obtain ⟨rc2, out2, hbody, hq2, hf2, ht2⟩ := render_index_template reg root rcA rcA out lc (fuel + rest.length + 1) i
      (eachIterBlock b h path i len none rel v) brest hi hct hmc hde hl hr rfl (each_array_vars b h path i len rel v).2.2 (Quiet.refl _) hf
    have hi2 : rc2.indentString = none := by rw [hq2.indent]; exact hi
    have hct2 : rc2.currentTemplate = none := by rw [Quiet.template hq2]; exact hct
    have hmc2 : rc2.modifiedCtx = none := by rw [hq2]; exact hmc
    have hde2 : rc2.disableEscape = false := by rw [hq2]; exact hde
    have hl2 : assocGet rc2.localHelpers ['@', 'i', 'n', 'd', 'e', 'x'] = none := by rw [hq2]; exact hl
    have hb2 : rc2.blocks = eachIterBlock b h path i len none rel v :: brest := by rw [hq2.blocks]
    obtain ⟨rc3, out3, hloop, ⟨b3, hq3⟩, hf3, ht3⟩ := ih fuel rc2 out2 _ brest (fun it hit => hkeys it (by simp [hit])) hi2 hct2 hmc2 hde2 hl2 hb2 hf2
    refine ⟨rc3, out3, ?_, ⟨b3, ?_⟩, hf3, ?_⟩
    · rw [show fuel + ((i, (none : Option Str), rel, v) :: rest).length + 7 = (fuel + rest.length + 7) + 1 by simp [List.length_cons]; omega]
      simp only [eachLoop, RM.bind_def, RM.bnd_apply, hmod]
      rw [show fuel + rest.length + 7 = fuel + rest.length + 1 + 6 by omega, hbody]
      simp only []
      rw [show fuel + rest.length + 1 + 6 = fuel + rest.length + 7 by omega, hloop]
    · unfold Quiet at hq3 hq2 ⊢
      rw [hq3, hq2]
    · rw [ht3, ht2]; simp

/-- the block element `{{#each v}}{{@index}}{{/each}}` compiles to, on an ARRAY of any length `n` stored under `v`: the body is written once
    per element – `n` times, in order – and the render state is left as it was (the scope pushed for the iteration is popped);
    `n + 12` units of fuel above any amount suffice (the loop of the model spends one per element) -/
theorem each_index_block_writes (reg : Registry) (root : Json) (rc0 : RC) (xs : JList) (lc : Nat × Nat)
    (hb : rc0.blocks = [{}]) (hi : rc0.indentString = none) (hmc : rc0.modifiedCtx = none) (hct : rc0.currentTemplate = none)
    (hde : rc0.disableEscape = false) (hlx : assocGet rc0.localHelpers ['@', 'i', 'n', 'd', 'e', 'x'] = none) (hrx : assocGet reg.helpers ['@', 'i', 'n', 'd', 'e', 'x'] = none)
    (hl : assocGet rc0.localHelpers ['e', 'a', 'c', 'h'] = none) (hr : assocGet reg.helpers ['e', 'a', 'c', 'h'] = some .each)
    (hsafe : Spec.indexSafe root [['v']] = true) (hj : Spec.descend root [['v']] = some (.arr xs)) :
    WritesTextK (xs.toList.length + 15) reg root rc0 (.block (PlainText.eiHT (PlainText.eiBody lc)))
      ((List.range xs.toList.length).map (fun i => reg.escape (Json.ofNat i).render)).flatten := by
  intro fuel rc out hq hf
  have hblocks : rc.blocks = [{}] := by rw [hq.blocks, hb]
  have hev : evaluate2 root (.relative [.named ['v']] ['v']) rc out = .ok (.context (.arr xs) [['v']]) rc out := by
    have := C01.navigate_current_path_scope root {} [] ['v'] [] rc out (by simp [getInBlockParams, assocGet]) rfl (by simpa using hsafe)
    simp only [C01.names, List.map_cons, List.map_nil] at this
    simp only [evaluate2, RM.bind_def, RM.bnd_apply, RM.get_apply, hblocks, this, C01.blockValue, Spec.descend]
    simp only [Option.bind]
    have hj' : (Spec.step root ['v']).bind (fun v' => Spec.descend v' []) = some (.arr xs) := by simpa [Spec.descend] using hj
    simp [Spec.descend] at hj' ⊢
    rw [hj']
  have hmc' : rc.modifiedCtx = none := by rw [hq]; exact hmc
  have hl' : assocGet rc.localHelpers ['e', 'a', 'c', 'h'] = none := by rw [hq]; exact hl
  have hpath : Path.new ['v'] [.named ['v']] = .relative [.named ['v']] ['v'] := rfl
  have hh : helperFromTemplate reg root (fuel + xs.toList.length + 13) (PlainText.eiHT (PlainText.eiBody lc)) rc out
      = .ok { name := ['e', 'a', 'c', 'h'], params := [⟨some ['v'], .context (.arr xs) [['v']]⟩], hash := [], template := some (PlainText.eiBody lc), inverse := none, blockParam := none, block := true } rc out := by
    rw [show fuel + xs.toList.length + 13 = (fuel + xs.toList.length + 10) + 1 + 1 + 1 by omega]
    simp [helperFromTemplate, PlainText.eiHT, PlainText.eaOpen, HelperG.new, expandAsName, expandParams, expandParam, expandHash,
      RM.bnd_apply, hmc', hpath, hev, Path.raw]
  have hm1 := quiet_modifyAux rc0 rc (fun r => { r with contentProduced := false, indentBeforeWrite := rc.indentBeforeWrite || ((PlainText.eiHT (PlainText.eiBody lc)).indentBeforeWrite && r.trailingNewline) }) out hq (hq.flags _ _ _)
  rw [show fuel + (xs.toList.length + 15) = (fuel + xs.toList.length + 13) + 1 + 1 by omega]
  simp only [renderElem, renderHelper, RM.bind_def, RM.bnd_apply, hh, RM.get_apply, hl', hr, hm1]
  have hibw : (PlainText.eiHT (PlainText.eiBody lc)).indentBeforeWrite = false := rfl
  simp only [hibw, Bool.false_and, Bool.or_false]
  -- the call of `each`
  have hqA : Quiet rc0 { rc with contentProduced := false } := hq.flags _ _ _
  let rcA : RC := { rc with contentProduced := false }
  let items : List (Nat × Option Str × Str × Json) := xs.toList.zipIdx.map (fun (v, i) => (i, none, natToStr i, v))
  have hitems : items.length = xs.toList.length := by simp [items]
  obtain ⟨rc3, out3, hloop, ⟨b3, hq3⟩, hf3, ht3⟩ := eachLoop_index reg root lc
    { name := ['e', 'a', 'c', 'h'], params := [⟨some ['v'], .context (.arr xs) [['v']]⟩], hash := [], template := some (PlainText.eiBody lc), inverse := none, blockParam := none, block := true }
    (some [['v']]) xs.toList.length hrx items (fuel + 5) { rcA with blocks := { basePath := [['v']] } :: rcA.blocks } out { basePath := [['v']] } rcA.blocks
    (by intro it hit; simp only [items, List.mem_map] at hit; obtain ⟨⟨v, i⟩, _, rfl⟩ := hit; rfl)
    (by show rc.indentString = none; rw [hq.indent]; exact hi) (by show rc.currentTemplate = none; rw [Quiet.template hq]; exact hct)
    (by show rc.modifiedCtx = none; exact hmc') (by show rc.disableEscape = false; rw [hq]; exact hde)
    (by show assocGet rc.localHelpers ['@', 'i', 'n', 'd', 'e', 'x'] = none; rw [hq]; exact hlx) rfl hf
  have hcall : callHelper reg root (fuel + xs.toList.length + 13) .each { name := ['e', 'a', 'c', 'h'], params := [⟨some ['v'], .context (.arr xs) [['v']]⟩], hash := [], template := some (PlainText.eiBody lc), inverse := none, blockParam := none, block := true } rcA out
      = .ok () { rc3 with blocks := rc3.blocks.drop 1 } out3 := by
    rw [show fuel + xs.toList.length + 13 = (fuel + 5 + items.length + 7) + 1 by omega]
    simp only [callHelper, HelperKind.hasInner, Bool.false_eq_true, ↓reduceIte, List.getElem?_cons_zero, PJ.json, SJ.asJson, PJ.contextPath,
      SJ.contextPath, createBlock, Option.isNone_none, Bool.or_true, RM.withBlock, RM.bracket_apply]
    unfold PlainText.eiBody at hloop ⊢
    simp only [items, hitems] at hloop ⊢
    rw [hloop]
  rw [hcall]
  simp only []
  have hq4 : Quiet rc0 { rc3 with blocks := rc3.blocks.drop 1 } := by
    have hrcA : Quiet rc0 rcA := hqA
    unfold Quiet at hq3 hrcA ⊢
    rw [hq3]
    simp only [List.drop_succ_cons, List.drop_zero]
    rw [hrcA]
  have hqG : Quiet rc0 ((fun rc_1 : RC => if rc_1.contentProduced = true then { rc_1 with indentBeforeWrite := rc_1.trailingNewline } else { rc_1 with contentProduced := rc.contentProduced, indentBeforeWrite := rc.indentBeforeWrite }) { rc3 with blocks := rc3.blocks.drop 1 }) := by
    by_cases hcp : rc3.contentProduced = true
    · simp only [hcp, ↓reduceIte]; exact Quiet.flags hq4 _ _ _
    · simp only [hcp, ↓reduceIte]; exact Quiet.flags hq4 _ _ _
  refine ⟨_, _, quiet_modifyAux rc0 _ _ out3 hq4 hqG, hqG, hf3, ?_⟩
  rw [ht3]
  have : items.map (fun it => reg.escape (Json.ofNat it.1).render) = (List.range xs.toList.length).map (fun i => reg.escape (Json.ofNat i).render) := by
    simp only [items, List.map_map, Function.comp_def]
    apply List.ext_getElem <;> simp
  rw [this]

/-- `{{#each v}}{{@index}}{{/each}}` -/
abbrev eachIndexSrc : Str := PlainText.eiSrc

/-- **render(L ++ {{#each v}}{{@index}}{{/each}} ++ R) = L ++ esc(0) esc(1) … esc(n-1) ++ R: the iterations happen in order and `@index` counts them** – from the source string to the bytes, for EVERY
    text `L` that may stand before a tag, EVERY text `R` without `{{`, and EVERY array stored under `v` (of any length `n` that
    the model's fuel covers: `n + 33 ≤ 4000`; the empty array included – then nothing is written): the body is rendered once per
    element, in order, and the output is the concatenation.  Through the regenerated grammar (the block's pairs by kernel
    evaluation), the loop of compile2, and the renderer: `renderHelper`, the `each` helper – scope pushed, one iteration per
    element by induction over the list (`eachLoop_index`: `@index` read from the block the iteration set up), scope popped. -/
theorem each_block_index_counts_in_order (r : Registry) (fs : FS) (L R : Str) (data : Json) (xs : JList) (hdev : r.dev = false)
    (hL : L = [] ∨ PlainText.TextBeforeTag L) (hR : PlainText.noOpen R)
    (heach : assocGet r.helpers ['e', 'a', 'c', 'h'] = some .each) (hrx : assocGet r.helpers ['@', 'i', 'n', 'd', 'e', 'x'] = none)
    (hsafe : Spec.indexSafe data [['v']] = true) (hj : Spec.descend data [['v']] = some (.arr xs))
    (hlen : xs.toList.length + 33 ≤ renderFuel) :
    r.renderTemplate fs (L ++ eachIndexSrc ++ R) data = .ok (L ++ ((List.range xs.toList.length).map (fun i => r.escape (Json.ofNat i).render)).flatten ++ R) := by
  unfold Registry.renderTemplate Registry.renderTemplateToWrite Registry.renderTemplateWithContextToWrite
    Registry.compileForRenderTemplate
  obtain ⟨m, hcomp⟩ := PlainText.compile_text_ei_text L _ _ { preventIndent := r.preventIndent } hL (PlainText.textAfterTag_split R hR)
  rw [← PlainText.split_ws R] at hcomp
  rw [hcomp]
  simp only [Registry.renderResolved, hdev, Bool.not_false, ↓reduceIte]
  generalize Pest.lineCol (L ++ PlainText.eiSrc ++ R) (L.length + 11) = lc
  let txt : Str := ((List.range xs.toList.length).map (fun i => r.escape (Json.ofNat i).render)).flatten
  let ets : List (Elem × Str) := (if L = [] then [] else [(.raw L, L)]) ++ [(.block (PlainText.eiHT (PlainText.eiBody lc)), txt)]
    ++ (if R = [] then [] else [(.raw R, R)])
  have hel : (PlainText.leftT L L).elements ++ [Elem.block (PlainText.eiHT (PlainText.eiBody lc))] ++ (if R = [] then [] else [Elem.raw R])
      = ets.map (·.1) := by
    simp only [ets]
    by_cases hLe : L = [] <;> by_cases hRe : R = [] <;> simp [hLe, hRe, PlainText.leftT, Tmpl.empty, Tmpl.elements]
  have htxt : (ets.map (·.2)).flatten = L ++ txt ++ R := by
    simp only [ets]
    by_cases hLe : L = [] <;> by_cases hRe : R = [] <;> simp [hLe, hRe]
  rw [hel]
  have hw : ∀ p ∈ ets, WritesTextK (xs.toList.length + 15) r data { ({ rootTemplate := none } : RC) with currentTemplate := none } p.1 p.2 := by
    intro p hp
    simp only [ets, List.mem_append, List.mem_singleton] at hp
    rcases hp with (hp | rfl) | hp
    · split at hp
      · simp at hp
      · simp at hp; subst hp; exact (writes_raw r data _ rfl L).toK _ (by omega)
    · exact each_index_block_writes r data _ xs lc rfl rfl rfl rfl rfl rfl hrx rfl heach hsafe hj
    · split at hp
      · simp at hp
      · simp at hp; subst hp; exact (writes_raw r data _ rfl R).toK _ (by omega)
  have hlen' : ets.length + (xs.toList.length + 15) + 6 ≤ renderFuel := by
    have h1 : (if L = [] then [] else [((Elem.raw L, L) : Elem × Str)]).length ≤ 1 := by split <;> simp
    have h2 : (if R = [] then [] else [((Elem.raw R, R) : Elem × Str)]).length ≤ 1 := by split <;> simp
    simp only [ets, List.length_append, List.length_singleton]
    omega
  have := render_writes_templateK (xs.toList.length + 15) r data none ets m { rootTemplate := none } hlen' hw
  simp only [Tmpl.name] at this ⊢
  rw [this, htxt]


/-- the body `{{@key}}` rendered in a state whose innermost block holds `@key = k`: the escaped text of `k` -/
theorem render_key_template (reg : Registry) (root : Json) (rc0 rcS : RC) (out : Out) (lc : Nat × Nat) (fuel : Nat) (k : Str)
    (bI : Block) (brest : List Block)
    (hi : rc0.indentString = none) (hct : rc0.currentTemplate = none) (hmc : rc0.modifiedCtx = none) (hde : rc0.disableEscape = false)
    (hl : assocGet rc0.localHelpers ['@', 'k', 'e', 'y'] = none) (hr : assocGet reg.helpers ['@', 'k', 'e', 'y'] = none)
    (hbl : rc0.blocks = bI :: brest) (hidx : bI.locals.get (str "key") = some (Json.str k))
    (hq : Quiet rc0 rcS) (hf : out.failAt = none) :
    ∃ rc2 out2, renderTemplate reg root (fuel + 6) (Tmpl.empty.pushElement (.expr PlainText.keyHT) lc.1 lc.2) rcS out = .ok () rc2 out2
      ∧ Quiet rc0 rc2 ∧ out2.failAt = none ∧ out2.text = out.text ++ reg.escape (Json.str k).render := by
  have hqB : Quiet rc0 { rcS with currentTemplate := none } := by
    have := Quiet.setTemplate hq
    rw [hct] at this
    exact this
  have hblB : rcS.blocks = bI :: brest := by rw [hq.blocks, hbl]
  have hev : evaluate2 root (.localVar 0 ['k', 'e', 'y'] ['@', 'k', 'e', 'y']) { rcS with currentTemplate := none } out
      = .ok (.derived (Json.str k)) { rcS with currentTemplate := none } out := by
    have : bI.locals.get ['k', 'e', 'y'] = some (Json.str k) := hidx
    simp [evaluate2, RM.bnd_apply, hblB, this]
  have hel : renderElem reg root (fuel + 4) (.expr PlainText.keyHT) { rcS with currentTemplate := none } out
      = indentAwareWrite (reg.escape (Json.str k).render) { rcS with currentTemplate := none } out :=
    expr_path_escapes_once reg root fuel PlainText.keyHT (.localVar 0 ['k', 'e', 'y'] ['@', 'k', 'e', 'y'])
      _ out (.derived (Json.str k)) rfl rfl (by rw [hqB]; exact hl) hr (by rw [hqB]; exact hmc) (by rw [hqB]; exact hde) hev rfl
  obtain ⟨rc2, out2, hw, hq2, hf2, ht2⟩ := indentAwareWrite_quiet rc0 hi (reg.escape (Json.str k).render) _ out hqB hf
  have hmA := quiet_modifyAux rc0 rcS (fun r => { r with currentTemplate := (Tmpl.empty.pushElement (.expr PlainText.keyHT) lc.1 lc.2).name }) out hq hqB
  have hq3 : Quiet rc0 { rc2 with currentTemplate := rcS.currentTemplate } := by
    have := Quiet.setTemplate hq2
    rw [← Quiet.template hq] at this
    exact this
  have hmB := quiet_modifyAux rc0 rc2 (fun r => { r with currentTemplate := rcS.currentTemplate }) out2 hq2 hq3
  refine ⟨_, out2, ?_, hq3, hf2, ht2⟩
  rw [show fuel + 6 = (fuel + 4) + 1 + 1 by omega]
  simp only [renderTemplate, RM.bind_def, RM.bnd_apply, RM.get_apply, hmA]
  simp only [Tmpl.empty, Tmpl.pushElement, Tmpl.name, Tmpl.elements, Tmpl.mapping, List.nil_append, renderElems,
    RM.bind_def, RM.bnd_apply, RM.mapErr, hel, hw, RM.pure_def, RM.ret_apply, Option.isNone_none]
  simp only [↓reduceIte]
  exact hmB

/-- the loop of `each` over ANY list of array items with the body `{{@key}}`: the escaped text of each item's index is written,
    in order; the state stays as it was up to the front block (the iteration variables) and the write flags -/
theorem eachLoop_key (reg : Registry) (root : Json) (lc : Nat × Nat) (h : HelperI) (path : Option (List Str)) (len : Nat)
    (hr : assocGet reg.helpers ['@', 'k', 'e', 'y'] = none) :
    ∀ (items : List (Nat × Option Str × Str × Json)) (fuel : Nat) (rcS : RC) (out : Out) (b : Block) (brest : List Block),
      (∀ it ∈ items, it.2.1 = some it.2.2.1) →
      rcS.indentString = none → rcS.currentTemplate = none → rcS.modifiedCtx = none → rcS.disableEscape = false →
      assocGet rcS.localHelpers ['@', 'k', 'e', 'y'] = none →
      rcS.blocks = b :: brest → out.failAt = none →
      ∃ rc' out', eachLoop reg root (fuel + items.length + 7) (Tmpl.empty.pushElement (.expr PlainText.keyHT) lc.1 lc.2) h path len items rcS out = .ok () rc' out'
        ∧ (∃ b', Quiet { rcS with blocks := b' :: brest } rc') ∧ out'.failAt = none
        ∧ out'.text = out.text ++ (items.map (fun it => reg.escape (Json.str it.2.2.1).render)).flatten := by
  intro items
  induction items with
  | nil =>
    intro fuel rcS out b brest _ hi hct hmc hde hl hbl hf
    refine ⟨rcS, out, by simp [eachLoop], ⟨b, ?_⟩, hf, by simp⟩
    have : ({ rcS with blocks := b :: brest } : RC) = rcS := by rw [← hbl]
    rw [this]; exact Quiet.refl _
  | cons it rest ih =>
    intro fuel rcS out b brest hkeys hi hct hmc hde hl hbl hf
    obtain ⟨i, key, rel, v⟩ := it
    have hkey : key = some rel := hkeys (i, key, rel, v) (by simp)
    subst hkey
    let rcA : RC := { rcS with blocks := eachIterBlock b h path i len (some rel) rel v :: brest }
    have hmod : modifyFrontBlock (fun b => eachIterBlock b h path i len (some rel) rel v) rcS out = .ok () rcA out := by
      simp [modifyFrontBlock, RM.modify_apply, hbl, rcA]
    obtain ⟨rc2, out2, hbody, hq2, hf2, ht2⟩ := render_key_template reg root rcA rcA out lc (fuel + rest.length + 1) rel
      (eachIterBlock b h path i len (some rel) rel v) brest hi hct hmc hde hl hr rfl (each_object_vars b h path i len rel v).2.2.2 (Quiet.refl _) hf
    have hi2 : rc2.indentString = none := by rw [hq2.indent]; exact hi
    have hct2 : rc2.currentTemplate = none := by rw [Quiet.template hq2]; exact hct
    have hmc2 : rc2.modifiedCtx = none := by rw [hq2]; exact hmc
    have hde2 : rc2.disableEscape = false := by rw [hq2]; exact hde
    have hl2 : assocGet rc2.localHelpers ['@', 'k', 'e', 'y'] = none := by rw [hq2]; exact hl
    have hb2 : rc2.blocks = eachIterBlock b h path i len (some rel) rel v :: brest := by rw [hq2.blocks]
    obtain ⟨rc3, out3, hloop, ⟨b3, hq3⟩, hf3, ht3⟩ := ih fuel rc2 out2 _ brest (fun it hit => hkeys it (by simp [hit])) hi2 hct2 hmc2 hde2 hl2 hb2 hf2
    refine ⟨rc3, out3, ?_, ⟨b3, ?_⟩, hf3, ?_⟩
    · rw [show fuel + ((i, (some rel : Option Str), rel, v) :: rest).length + 7 = (fuel + rest.length + 7) + 1 by simp [List.length_cons]; omega]
      simp only [eachLoop, RM.bind_def, RM.bnd_apply, hmod]
      rw [show fuel + rest.length + 7 = fuel + rest.length + 1 + 6 by omega, hbody]
      simp only []
      rw [show fuel + rest.length + 1 + 6 = fuel + rest.length + 7 by omega, hloop]
    · unfold Quiet at hq3 hq2 ⊢
      rw [hq3, hq2]
    · rw [ht3, ht2]; simp

/-- the block element `{{#each v}}{{@key}}{{/each}}` compiles to, on an OBJECT with any number `n` of entries stored under `v`: the body is written once
    per element – `n` times, in order – and the render state is left as it was (the scope pushed for the iteration is popped);
    `n + 12` units of fuel above any amount suffice (the loop of the model spends one per element) -/
theorem each_key_block_writes (reg : Registry) (root : Json) (rc0 : RC) (o : JObj) (lc : Nat × Nat)
    (hb : rc0.blocks = [{}]) (hi : rc0.indentString = none) (hmc : rc0.modifiedCtx = none) (hct : rc0.currentTemplate = none)
    (hde : rc0.disableEscape = false) (hlx : assocGet rc0.localHelpers ['@', 'k', 'e', 'y'] = none) (hrx : assocGet reg.helpers ['@', 'k', 'e', 'y'] = none)
    (hl : assocGet rc0.localHelpers ['e', 'a', 'c', 'h'] = none) (hr : assocGet reg.helpers ['e', 'a', 'c', 'h'] = some .each)
    (hsafe : Spec.indexSafe root [['v']] = true) (hj : Spec.descend root [['v']] = some (.obj o)) :
    WritesTextK (o.toList.length + 15) reg root rc0 (.block (PlainText.ekHT (PlainText.ekBody lc)))
      (o.toList.map (fun kv => reg.escape (Json.str kv.1).render)).flatten := by
  intro fuel rc out hq hf
  have hblocks : rc.blocks = [{}] := by rw [hq.blocks, hb]
  have hev : evaluate2 root (.relative [.named ['v']] ['v']) rc out = .ok (.context (.obj o) [['v']]) rc out := by
    have := C01.navigate_current_path_scope root {} [] ['v'] [] rc out (by simp [getInBlockParams, assocGet]) rfl (by simpa using hsafe)
    simp only [C01.names, List.map_cons, List.map_nil] at this
    simp only [evaluate2, RM.bind_def, RM.bnd_apply, RM.get_apply, hblocks, this, C01.blockValue, Spec.descend]
    simp only [Option.bind]
    have hj' : (Spec.step root ['v']).bind (fun v' => Spec.descend v' []) = some (.obj o) := by simpa [Spec.descend] using hj
    simp [Spec.descend] at hj' ⊢
    rw [hj']
  have hmc' : rc.modifiedCtx = none := by rw [hq]; exact hmc
  have hl' : assocGet rc.localHelpers ['e', 'a', 'c', 'h'] = none := by rw [hq]; exact hl
  have hpath : Path.new ['v'] [.named ['v']] = .relative [.named ['v']] ['v'] := rfl
  have hh : helperFromTemplate reg root (fuel + o.toList.length + 13) (PlainText.ekHT (PlainText.ekBody lc)) rc out
      = .ok { name := ['e', 'a', 'c', 'h'], params := [⟨some ['v'], .context (.obj o) [['v']]⟩], hash := [], template := some (PlainText.ekBody lc), inverse := none, blockParam := none, block := true } rc out := by
    rw [show fuel + o.toList.length + 13 = (fuel + o.toList.length + 10) + 1 + 1 + 1 by omega]
    simp [helperFromTemplate, PlainText.ekHT, PlainText.eaOpen, HelperG.new, expandAsName, expandParams, expandParam, expandHash,
      RM.bnd_apply, hmc', hpath, hev, Path.raw]
  have hm1 := quiet_modifyAux rc0 rc (fun r => { r with contentProduced := false, indentBeforeWrite := rc.indentBeforeWrite || ((PlainText.ekHT (PlainText.ekBody lc)).indentBeforeWrite && r.trailingNewline) }) out hq (hq.flags _ _ _)
  rw [show fuel + (o.toList.length + 15) = (fuel + o.toList.length + 13) + 1 + 1 by omega]
  simp only [renderElem, renderHelper, RM.bind_def, RM.bnd_apply, hh, RM.get_apply, hl', hr, hm1]
  have hibw : (PlainText.ekHT (PlainText.ekBody lc)).indentBeforeWrite = false := rfl
  simp only [hibw, Bool.false_and, Bool.or_false]
  -- the call of `each`
  have hqA : Quiet rc0 { rc with contentProduced := false } := hq.flags _ _ _
  let rcA : RC := { rc with contentProduced := false }
  let items : List (Nat × Option Str × Str × Json) := o.toList.zipIdx.map (fun ((k, v), i) => (i, some k, k, v))
  have hitems : items.length = o.toList.length := by simp [items]
  obtain ⟨rc3, out3, hloop, ⟨b3, hq3⟩, hf3, ht3⟩ := eachLoop_key reg root lc
    { name := ['e', 'a', 'c', 'h'], params := [⟨some ['v'], .context (.obj o) [['v']]⟩], hash := [], template := some (PlainText.ekBody lc), inverse := none, blockParam := none, block := true }
    (some [['v']]) o.toList.length hrx items (fuel + 5) { rcA with blocks := { basePath := [['v']] } :: rcA.blocks } out { basePath := [['v']] } rcA.blocks
    (by intro it hit; simp only [items, List.mem_map] at hit; obtain ⟨⟨⟨k, v⟩, i⟩, _, rfl⟩ := hit; rfl)
    (by show rc.indentString = none; rw [hq.indent]; exact hi) (by show rc.currentTemplate = none; rw [Quiet.template hq]; exact hct)
    (by show rc.modifiedCtx = none; exact hmc') (by show rc.disableEscape = false; rw [hq]; exact hde)
    (by show assocGet rc.localHelpers ['@', 'k', 'e', 'y'] = none; rw [hq]; exact hlx) rfl hf
  have hcall : callHelper reg root (fuel + o.toList.length + 13) .each { name := ['e', 'a', 'c', 'h'], params := [⟨some ['v'], .context (.obj o) [['v']]⟩], hash := [], template := some (PlainText.ekBody lc), inverse := none, blockParam := none, block := true } rcA out
      = .ok () { rc3 with blocks := rc3.blocks.drop 1 } out3 := by
    rw [show fuel + o.toList.length + 13 = (fuel + 5 + items.length + 7) + 1 by omega]
    simp only [callHelper, HelperKind.hasInner, Bool.false_eq_true, ↓reduceIte, List.getElem?_cons_zero, PJ.json, SJ.asJson, PJ.contextPath,
      SJ.contextPath, createBlock, Option.isNone_none, Bool.or_true, RM.withBlock, RM.bracket_apply]
    unfold PlainText.ekBody at hloop ⊢
    simp only [items, hitems] at hloop ⊢
    rw [hloop]
  rw [hcall]
  simp only []
  have hq4 : Quiet rc0 { rc3 with blocks := rc3.blocks.drop 1 } := by
    have hrcA : Quiet rc0 rcA := hqA
    unfold Quiet at hq3 hrcA ⊢
    rw [hq3]
    simp only [List.drop_succ_cons, List.drop_zero]
    rw [hrcA]
  have hqG : Quiet rc0 ((fun rc_1 : RC => if rc_1.contentProduced = true then { rc_1 with indentBeforeWrite := rc_1.trailingNewline } else { rc_1 with contentProduced := rc.contentProduced, indentBeforeWrite := rc.indentBeforeWrite }) { rc3 with blocks := rc3.blocks.drop 1 }) := by
    by_cases hcp : rc3.contentProduced = true
    · simp only [hcp, ↓reduceIte]; exact Quiet.flags hq4 _ _ _
    · simp only [hcp, ↓reduceIte]; exact Quiet.flags hq4 _ _ _
  refine ⟨_, _, quiet_modifyAux rc0 _ _ out3 hq4 hqG, hqG, hf3, ?_⟩
  rw [ht3]
  have : items.map (fun it => reg.escape (Json.str it.2.2.1).render) = o.toList.map (fun kv => reg.escape (Json.str kv.1).render) := by
    simp only [items, List.map_map, Function.comp_def]
    apply List.ext_getElem <;> simp
  rw [this]

/-- `{{#each v}}{{@key}}{{/each}}` -/
abbrev eachKeySrc : Str := PlainText.ekSrc

/-- **render(L ++ {{#each v}}{{@key}}{{/each}} ++ R) = L ++ esc(k1) esc(k2) … esc(kn) ++ R: every entry of an object is visited once, in the
    map's order, and `@key` is the entry's key** – from the source string to the bytes, for EVERY text `L` that may stand before a
    tag, EVERY text `R` without `{{`, EVERY object stored under `v` (with any number `n` of entries that the model's fuel covers:
    `n + 33 ≤ 4000`; the empty object included – then nothing is written), every spelling of the keys and every escape function.
    Through the regenerated grammar (the block's pairs by kernel evaluation), the loop of compile2, and the renderer:
    `renderHelper`, the `each` helper – scope pushed, one iteration per entry by induction over the list (`eachLoop_key`: `@key`
    read from the block the iteration set up), scope popped. -/
theorem each_block_key_names_each_entry (r : Registry) (fs : FS) (L R : Str) (data : Json) (o : JObj) (hdev : r.dev = false)
    (hL : L = [] ∨ PlainText.TextBeforeTag L) (hR : PlainText.noOpen R)
    (heach : assocGet r.helpers ['e', 'a', 'c', 'h'] = some .each) (hrx : assocGet r.helpers ['@', 'k', 'e', 'y'] = none)
    (hsafe : Spec.indexSafe data [['v']] = true) (hj : Spec.descend data [['v']] = some (.obj o))
    (hlen : o.toList.length + 33 ≤ renderFuel) :
    r.renderTemplate fs (L ++ eachKeySrc ++ R) data = .ok (L ++ (o.toList.map (fun kv => r.escape (Json.str kv.1).render)).flatten ++ R) := by
  unfold Registry.renderTemplate Registry.renderTemplateToWrite Registry.renderTemplateWithContextToWrite
    Registry.compileForRenderTemplate
  obtain ⟨m, hcomp⟩ := PlainText.compile_text_ek_text L _ _ { preventIndent := r.preventIndent } hL (PlainText.textAfterTag_split R hR)
  rw [← PlainText.split_ws R] at hcomp
  rw [hcomp]
  simp only [Registry.renderResolved, hdev, Bool.not_false, ↓reduceIte]
  generalize Pest.lineCol (L ++ PlainText.ekSrc ++ R) (L.length + 11) = lc
  let txt : Str := (o.toList.map (fun kv => r.escape (Json.str kv.1).render)).flatten
  let ets : List (Elem × Str) := (if L = [] then [] else [(.raw L, L)]) ++ [(.block (PlainText.ekHT (PlainText.ekBody lc)), txt)]
    ++ (if R = [] then [] else [(.raw R, R)])
  have hel : (PlainText.leftT L L).elements ++ [Elem.block (PlainText.ekHT (PlainText.ekBody lc))] ++ (if R = [] then [] else [Elem.raw R])
      = ets.map (·.1) := by
    simp only [ets]
    by_cases hLe : L = [] <;> by_cases hRe : R = [] <;> simp [hLe, hRe, PlainText.leftT, Tmpl.empty, Tmpl.elements]
  have htxt : (ets.map (·.2)).flatten = L ++ txt ++ R := by
    simp only [ets]
    by_cases hLe : L = [] <;> by_cases hRe : R = [] <;> simp [hLe, hRe]
  rw [hel]
  have hw : ∀ p ∈ ets, WritesTextK (o.toList.length + 15) r data { ({ rootTemplate := none } : RC) with currentTemplate := none } p.1 p.2 := by
    intro p hp
    simp only [ets, List.mem_append, List.mem_singleton] at hp
    rcases hp with (hp | rfl) | hp
    · split at hp
      · simp at hp
      · simp at hp; subst hp; exact (writes_raw r data _ rfl L).toK _ (by omega)
    · exact each_key_block_writes r data _ o lc rfl rfl rfl rfl rfl rfl hrx rfl heach hsafe hj
    · split at hp
      · simp at hp
      · simp at hp; subst hp; exact (writes_raw r data _ rfl R).toK _ (by omega)
  have hlen' : ets.length + (o.toList.length + 15) + 6 ≤ renderFuel := by
    have h1 : (if L = [] then [] else [((Elem.raw L, L) : Elem × Str)]).length ≤ 1 := by split <;> simp
    have h2 : (if R = [] then [] else [((Elem.raw R, R) : Elem × Str)]).length ≤ 1 := by split <;> simp
    simp only [ets, List.length_append, List.length_singleton]
    omega
  have := render_writes_templateK (o.toList.length + 15) r data none ets m { rootTemplate := none } hlen' hw
  simp only [Tmpl.name] at this ⊢
  rw [this, htxt]



/-- non-vacuity: three elements count 0 1 2 -/
example : ((List.range (JList.ofList [Json.null, Json.bool true, Json.str []]).toList.length).map (fun i => (Json.ofNat i).render)).flatten = ['0', '1', '2'] := by
  decide

end Hbs.C07
