import HbsModel.Registry
import HbsModel.Lemmas.NumOrder
import HbsModel.Lemmas.NumLiteral
/-
  C15  Comparison and boolean helpers agree with exact arithmetic and order laws.
  (`num-order`'s NumOrd is an external crate: its mixed comparisons are represented by exact
  comparison of the dyadic values, `Num.cmp`; that assumption is validated on the boundary set.)
-/
namespace Hbs.C15
open Hbs

/-! ### order laws of the exact comparison -/

theorem ordering_rev_rev (o : Ordering) : Ordering.rev (Ordering.rev o) = o := by cases o <;> rfl

theorem nat_compare_rev (x y : Nat) : compare x y = Ordering.rev (compare y x) := by
  rcases Nat.lt_trichotomy x y with h | h | h
  · rw [Nat.compare_eq_lt.mpr h, Nat.compare_eq_gt.mpr h]; rfl
  · subst h; simp [Ordering.rev]
  · rw [Nat.compare_eq_gt.mpr h, Nat.compare_eq_lt.mpr h]; rfl

theorem magCmp_rev (a b : Dy) : Dy.magCmp a b = Ordering.rev (Dy.magCmp b a) := by
  unfold Dy.magCmp
  rw [Int.min_comm b.e a.e]
  exact nat_compare_rev _ _

/-- antisymmetry of the exact order: comparing the other way round reverses the answer -/
theorem dy_cmp_rev (a b : Dy) : Dy.cmp a b = Ordering.rev (Dy.cmp b a) := by
  unfold Dy.cmp
  by_cases ha : a.m = 0 <;> by_cases hb : b.m = 0 <;> simp [ha, hb]
  · simp [Ordering.rev]
  · cases b.neg <;> simp [Ordering.rev]
  · cases a.neg <;> simp [Ordering.rev]
  · cases a.neg <;> cases b.neg <;> simp [Ordering.rev]
    · exact magCmp_rev a b
    · exact magCmp_rev b a

theorem num_cmp_rev (a b : Num) : Num.cmp a b = Ordering.rev (Num.cmp b a) := dy_cmp_rev _ _

/-! ### `cmp_nums`: the 3×3 representation dispatch never fails on well-formed numbers and is the
    exact comparison -/

theorem cmpNums_exact (a b : Num) (ha : a.WF) : cmpNums a b = some (Num.cmp a b) := by
  cases a with
  | pos n => simp [cmpNums, Num.isU64, Num.asU64?]
  | neg n => simp [cmpNums, Num.isU64, Num.isI64, Num.asI64?]
  | flt x => simp [cmpNums, Num.isU64, Num.isI64]

/-! ### `compare_json` by cases -/

theorem compare_num_num (a b : Num) : compareJson (.num a) (.num b) = cmpNums a b := rfl
theorem compare_str_str (a b : Str) : compareJson (.str a) (.str b) = some (strCmp a b) := rfl
theorem compare_bool_bool : compareJson (.bool false) (.bool true) = some .lt ∧
    compareJson (.bool true) (.bool false) = some .gt ∧
    compareJson (.bool true) (.bool true) = some .eq ∧ compareJson (.bool false) (.bool false) = some .eq := by
  decide
theorem compare_num_str (a : Num) (s : Str) : compareJson (.num a) (.str s) = cmpNumStr a s := rfl
theorem compare_str_num (a : Num) (s : Str) :
    compareJson (.str s) (.num a) = (cmpNumStr a s).map Ordering.rev := rfl

/-- any other pairing is incomparable, so gt/gte/lt/lte are all false on it -/
theorem compare_other (x y : Json)
    (h : ¬ ((∃ a b, x = .num a ∧ y = .num b) ∨ (∃ a b, x = .str a ∧ y = .str b) ∨
            (∃ a b, x = .bool a ∧ y = .bool b) ∨ (∃ a b, x = .num a ∧ y = .str b) ∨
            (∃ a b, x = .str a ∧ y = .num b))) : compareJson x y = none := by
  cases x <;> cases y <;> simp_all [compareJson]

/-! ### the laws for all values.  The four operators as the helpers compute them: -/

def gt (x y : Json) : Bool := compareJson x y == some .gt
def lt (x y : Json) : Bool := compareJson x y == some .lt
def gte (x y : Json) : Bool := match compareJson x y with | some o => o != .lt | none => false
def lte (x y : Json) : Bool := match compareJson x y with | some o => o != .gt | none => false

theorem strLt_asymm : ∀ (a b : Str), strLt a b = true → strLt b a = true → False
  | [], [], h1, _ => by simp [strLt] at h1
  | [], _ :: _, _, h2 => by simp [strLt] at h2
  | _ :: _, [], h1, _ => by simp [strLt] at h1
  | x :: xs, y :: ys, h1, h2 => by
    simp only [strLt] at h1 h2
    by_cases c1 : x.toNat < y.toNat
    · have c2 : ¬ y.toNat < x.toNat := by omega
      have c3 : y.toNat > x.toNat := c1
      simp [c2, c3] at h2
    · by_cases c2 : x.toNat > y.toNat
      · simp [c1, c2] at h1
      · have c3 : ¬ y.toNat < x.toNat := by omega
        have c4 : ¬ y.toNat > x.toNat := by omega
        simp only [c1, c2, ↓reduceIte] at h1
        simp only [c3, c4, ↓reduceIte] at h2
        exact strLt_asymm xs ys h1 h2

theorem strCmp_rev (a b : Str) : strCmp a b = Ordering.rev (strCmp b a) := by
  unfold strCmp
  by_cases h1 : strLt a b = true <;> by_cases h2 : strLt b a = true <;> simp [h1, h2, Ordering.rev]
  exact strLt_asymm a b h1 h2

theorem cmpNums_rev (a b : Num) (ha : a.WF) (hb : b.WF) :
    cmpNums a b = (cmpNums b a).map Ordering.rev := by
  rw [cmpNums_exact a b ha, cmpNums_exact b a hb, num_cmp_rev a b]; rfl

/-- well-formedness of the numbers inside a value (what serde_json can hold) -/
def numWF : Json → Prop
  | .num n => n.WF
  | _ => True

/-- swapping the operands reverses the comparison, for every pair of values whose numbers are
    well-formed; numeric strings are compared through the number they parse to -/
theorem compareJson_rev (x y : Json) (hx : numWF x) (hy : numWF y) :
    compareJson x y = (compareJson y x).map Ordering.rev := by
  cases x <;> cases y <;> simp only [compareJson, Option.map]
  case num.num a b => simpa [Option.map] using cmpNums_rev a b hx hy
  case str.str a b => rw [strCmp_rev a b]
  case bool.bool a b => cases a <;> cases b <;> rfl
  case num.str a s =>
    cases h : cmpNumStr a s <;> simp [ordering_rev_rev]

theorem lt_eq_gt_swapped (x y : Json) (hx : numWF x) (hy : numWF y) : lt x y = gt y x := by
  unfold lt gt
  rw [compareJson_rev x y hx hy]
  cases compareJson y x with
  | none => rfl
  | some o => cases o <;> rfl

theorem gte_eq_lte_swapped (x y : Json) (hx : numWF x) (hy : numWF y) : gte x y = lte y x := by
  unfold gte lte
  rw [compareJson_rev x y hx hy]
  cases compareJson y x with
  | none => rfl
  | some o => cases o <;> rfl

theorem gt_implies_gte_excludes_lt (x y : Json) (h : gt x y = true) : gte x y = true ∧ lt x y = false := by
  unfold gt at h
  unfold gte lt
  cases hc : compareJson x y with
  | none => simp [hc] at h
  | some o => cases o <;> simp_all

/-- eq is the negation of ne and both are JSON equality (`PartialEq for Value`) -/
theorem eq_is_not_ne (reg : Registry) (h : HelperI) (x y : PJ) (rest : List PJ) (hp : h.params = x :: y :: rest)
    (hs : reg.strict = false) :
    callInner reg .eq h = .ok (boolJson (Json.beq x.json y.json)) ∧
    callInner reg .ne h = .ok (boolJson (!Json.beq x.json y.json)) := by
  simp [callInner, binaryExtra, macroParams, hp, hs, asJsonValue, asJsonValueWith, lookupAccessor,
    Generated.macroAccessors, TyTok.token, applyAccessor]

/-- and / or are the conjunction / disjunction of the truthiness of ALL their arguments
    (true / false on the empty list); not is the negation -/
theorem and_is_all (reg : Registry) (h : HelperI) :
    callInner reg .andH h = .ok (boolJson (h.params.all (fun p => p.json.truthy false))) := rfl
theorem or_is_any (reg : Registry) (h : HelperI) :
    callInner reg .orH h = .ok (boolJson (h.params.any (fun p => p.json.truthy false))) := rfl

/-- len: element / entry / byte count, 0 for everything else -/
theorem len_cases : (∀ a, jsonLen (.arr a) = a.length) ∧ (∀ m, jsonLen (.obj m) = m.length) ∧
    (∀ s, jsonLen (.str s) = utf8Len s) ∧ jsonLen .null = 0 ∧ (∀ b, jsonLen (.bool b) = 0) ∧
    (∀ n, jsonLen (.num n) = 0) := by
  refine ⟨fun _ => rfl, fun _ => rfl, fun _ => rfl, rfl, fun _ => rfl, fun _ => rfl⟩

/-! ### the comparison IS the order of the exact values – a total preorder on all number representations -/

/-- the exact value of a number as an integer multiple of 2^K (u64 / i64: the integer itself at K = 0;
    f64: ±mantissa·2^(exponent-K)) -/
def scaled (K : Int) (a : Num) : Int := a.exact.scaled K

/-- **`gt/gte/lt/lte` compare exact mathematical values**: at any common scale 2^K below both
    exponents, the comparison of two numbers – unsigned, signed or floating, in any mix – is the
    integer comparison of their exact values -/
theorem num_cmp_is_order_of_exact_values (a b : Num) (K : Int) (ha : K ≤ a.exact.e) (hb : K ≤ b.exact.e) :
    Num.cmp a b = compare (scaled K a) (scaled K b) :=
  Dy.cmp_scaled a.exact b.exact K ha hb

/-- integers are their own exact value -/
theorem scaled_int : (∀ n, scaled 0 (.pos n) = n) ∧ (∀ n, scaled 0 (.neg n) = -(n : Int)) := by
  constructor <;> intro n <;> simp [scaled, Num.exact, Dy.scaled, Dy.mag]

/-- **numbers written in the template as integer literals compare as the integers they spell**, over the whole u64 range:
    the literal's text goes through `serde_json::from_str` (`json_parse_integer_literal`: the value is exactly the integer
    spelled – no detour through i64 or a float), and two such numbers are ordered like those integers -/
theorem integer_literals_compare_as_spelled (da db : List Nat) (ha : IntSpelling da) (hb : IntSpelling db)
    (hva : digitsVal da < 2 ^ 64) (hvb : digitsVal db < 2 ^ 64) :
    Json.parse (da.map digitChar) = some (.num (.pos (digitsVal da))) ∧
    Json.parse (db.map digitChar) = some (.num (.pos (digitsVal db))) ∧
    Num.cmp (.pos (digitsVal da)) (.pos (digitsVal db)) = compare (digitsVal da : Int) (digitsVal db : Int) := by
  refine ⟨json_parse_integer_literal da ha hva, json_parse_integer_literal db hb hvb, ?_⟩
  have h := num_cmp_is_order_of_exact_values (.pos (digitsVal da)) (.pos (digitsVal db)) 0 (by simp [Num.exact]) (by simp [Num.exact])
  rw [h, scaled_int.1, scaled_int.1]

/-- u64::MAX and u64::MAX - 1 written as literals: the larger one is greater (both are above i64::MAX) -/
example : Num.cmp (.pos (digitsVal [1,8,4,4,6,7,4,4,0,7,3,7,0,9,5,5,1,6,1,5])) (.pos (digitsVal [1,8,4,4,6,7,4,4,0,7,3,7,0,9,5,5,1,6,1,4])) = .gt := by
  decide

private theorem common_scale (a b c : Num) :
    ∃ K : Int, K ≤ a.exact.e ∧ K ≤ b.exact.e ∧ K ≤ c.exact.e :=
  ⟨min a.exact.e (min b.exact.e c.exact.e), by omega, by omega, by omega⟩

/-- transitivity of the mixed order (u64 / i64 / f64 in any combination) -/
theorem num_lt_trans (a b c : Num) (h1 : Num.cmp a b = .lt) (h2 : Num.cmp b c = .lt) : Num.cmp a c = .lt := by
  obtain ⟨K, ha, hb, hc⟩ := common_scale a b c
  rw [num_cmp_is_order_of_exact_values a b K ha hb, Int.compare_eq_lt] at h1
  rw [num_cmp_is_order_of_exact_values b c K hb hc, Int.compare_eq_lt] at h2
  rw [num_cmp_is_order_of_exact_values a c K ha hc, Int.compare_eq_lt]
  omega

theorem num_le_trans (a b c : Num) (h1 : Num.cmp a b ≠ .gt) (h2 : Num.cmp b c ≠ .gt) : Num.cmp a c ≠ .gt := by
  obtain ⟨K, ha, hb, hc⟩ := common_scale a b c
  rw [num_cmp_is_order_of_exact_values a b K ha hb, Ne, Int.compare_eq_gt] at h1
  rw [num_cmp_is_order_of_exact_values b c K hb hc, Ne, Int.compare_eq_gt] at h2
  rw [num_cmp_is_order_of_exact_values a c K ha hc, Ne, Int.compare_eq_gt]
  omega

/-- numbers that compare equal have the same exact value, and conversely (so `2^53` as u64 and as f64
    are equal, `2^53 + 1` and `2^53` as f64 are not) -/
theorem num_eq_iff_same_value (a b : Num) (K : Int) (ha : K ≤ a.exact.e) (hb : K ≤ b.exact.e) :
    Num.cmp a b = .eq ↔ scaled K a = scaled K b := by
  rw [num_cmp_is_order_of_exact_values a b K ha hb, Int.compare_eq_eq]

theorem num_eq_trans (a b c : Num) (h1 : Num.cmp a b = .eq) (h2 : Num.cmp b c = .eq) : Num.cmp a c = .eq := by
  obtain ⟨K, ha, hb, hc⟩ := common_scale a b c
  rw [num_eq_iff_same_value a b K ha hb] at h1
  rw [num_eq_iff_same_value b c K hb hc] at h2
  rw [num_eq_iff_same_value a c K ha hc]
  omega

/-- the helpers on well-formed JSON numbers: `lt` is transitive -/
theorem lt_trans_numbers (a b c : Num) (ha : a.WF) (hb : b.WF)
    (h1 : lt (.num a) (.num b) = true) (h2 : lt (.num b) (.num c) = true) : lt (.num a) (.num c) = true := by
  simp only [lt, compare_num_num, cmpNums_exact a _ ha, cmpNums_exact b _ hb, beq_iff_eq, Option.some.injEq] at *
  exact num_lt_trans a b c h1 h2

/-- evaluated instances: 2^53 as u64 equals 2^53 as f64; 2^53+1 (u64) is greater than 2^53 (f64);
    u64::MAX is less than 2^64 as f64; -0.0 equals 0 -/
example : Num.cmp (.pos (2 ^ 53)) (.flt 0x4340000000000000) = .eq
    ∧ Num.cmp (.pos (2 ^ 53 + 1)) (.flt 0x4340000000000000) = .gt
    ∧ Num.cmp (.pos (2 ^ 64 - 1)) (.flt 0x43F0000000000000) = .lt
    ∧ Num.cmp (.flt 0x8000000000000000) (.pos 0) = .eq := by decide

end Hbs.C15
