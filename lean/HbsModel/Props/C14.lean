import HbsModel.Registry
import HbsModel.Lemmas.RM
import HbsModel.Lemmas.Assoc
import HbsModel.Props.C02
/-
  C14  Name resolution: helper before field, explicit paths always data, hooks last.
-/
namespace Hbs.C14
open Hbs RM

/-- a bare `{{name}}` whose name is a registered helper invokes the helper, whatever the data holds -/
theorem helper_before_field (reg : Registry) (root : Json) (fuel : Nat) (ht : HelperT) (n : Str) (d : HelperKind)
    (hname : ht.name = .name n ∨ ∃ p, ht.name = .path p ∧ p.raw = n) (hno : ht.isNameOnly = true)
    (hr : assocGet reg.helpers n = some d) :
    renderExpression reg root (fuel + 2) ht = renderHelper reg root (fuel + 1) ht := by
  funext rc out
  rcases hname with hname | ⟨p, hname, hp⟩
  · simp [renderExpression, hno, hname, expandAsName, RM.bnd_apply, hr]
  · subst hp
    simp [renderExpression, hno, hname, expandAsName, RM.bnd_apply, hr]

/-- … and a helper registered for this render by a decorator takes precedence over a registry helper -/
theorem local_before_registry (reg : Registry) (root : Json) (fuel : Nat) (ht : HelperT) (h : HelperI)
    (d dl : HelperKind) (rc rc1 : RC) (out out1 : Out)
    (hh : helperFromTemplate reg root fuel ht rc out = .ok h rc1 out1)
    (hl : assocGet rc1.localHelpers h.name = some dl) (_hr : assocGet reg.helpers h.name = some d) :
    renderHelper reg root (fuel + 1) ht rc out =
      (do
        modifyAux (fun rc =>
          { rc with contentProduced := false, indentBeforeWrite := rc1.indentBeforeWrite || (ht.indentBeforeWrite && rc.trailingNewline) })
        callHelper reg root fuel dl h
        modifyAux (fun rc =>
          if rc.contentProduced then { rc with indentBeforeWrite := rc.trailingNewline }
          else { rc with contentProduced := rc1.contentProduced, indentBeforeWrite := rc1.indentBeforeWrite })) rc1 out1 := by
  simp [renderHelper, RM.bnd_apply, hh, hl]

/-- no helper, no hook: a call with arguments or a block fails with HelperNotFound -/
theorem helper_not_found (reg : Registry) (root : Json) (fuel : Nat) (ht : HelperT) (h : HelperI)
    (rc rc1 : RC) (out out1 : Out)
    (hh : helperFromTemplate reg root fuel ht rc out = .ok h rc1 out1)
    (hl : assocGet rc1.localHelpers h.name = none) (hr : assocGet reg.helpers h.name = none)
    (hhook : assocGet reg.helpers (if ht.block then BLOCK_HELPER_MISSING else HELPER_MISSING) = none) :
    renderHelper reg root (fuel + 1) ht rc out = .err (.of (.helperNotFound h.name)) out1 := by
  simp [renderHelper, RM.bnd_apply, hh, hl, hr, hhook]

/-- … unless the hook for that tag form is registered, which then receives the call -/
theorem hook_receives_call (reg : Registry) (root : Json) (fuel : Nat) (ht : HelperT) (h : HelperI)
    (hook : HelperKind) (rc rc1 : RC) (out out1 : Out)
    (hh : helperFromTemplate reg root fuel ht rc out = .ok h rc1 out1)
    (hl : assocGet rc1.localHelpers h.name = none) (hr : assocGet reg.helpers h.name = none)
    (hhook : assocGet reg.helpers (if ht.block then BLOCK_HELPER_MISSING else HELPER_MISSING) = some hook) :
    renderHelper reg root (fuel + 1) ht rc out =
      (do
        modifyAux (fun rc =>
          { rc with contentProduced := false, indentBeforeWrite := rc1.indentBeforeWrite || (ht.indentBeforeWrite && rc.trailingNewline) })
        callHelper reg root fuel hook h
        modifyAux (fun rc =>
          if rc.contentProduced then { rc with indentBeforeWrite := rc.trailingNewline }
          else { rc with contentProduced := rc1.contentProduced, indentBeforeWrite := rc1.indentBeforeWrite })) rc1 out1 := by
  simp [renderHelper, RM.bnd_apply, hh, hl, hr, hhook]

/-- an unknown decorator is DecoratorNotFound -/
theorem decorator_not_found (reg : Registry) (root : Json) (fuel : Nat) (dt : DecoT) (di : DecoI)
    (rc rc1 : RC) (out out1 : Out)
    (hd : decoFromTemplate reg root fuel dt rc out = .ok di rc1 out1)
    (hn : assocGet reg.decorators di.name = none) :
    evalDecorator reg root (fuel + 1) dt rc out = .err (.of (.decoratorNotFound di.name)) out1 := by
  simp [evalDecorator, RM.bnd_apply, hd, hn]

/-- subexpressions resolve names the same way: local, registry, hook, else HelperNotFound -/
theorem subexpr_helper_not_found (reg : Registry) (root : Json) (fuel : Nat) (ht : HelperT) (n : Str) (h : HelperI)
    (rc rc1 : RC) (out out1 : Out)
    (hn : expandAsName reg root fuel ht.name rc out = .ok n rc out)
    (hh : helperFromTemplate reg root fuel ht rc out = .ok h rc1 out1)
    (hl : assocGet rc1.localHelpers n = none) (hr : assocGet reg.helpers n = none)
    (hhook : assocGet reg.helpers (if ht.block then BLOCK_HELPER_MISSING else HELPER_MISSING) = none) :
    expandParam reg root (fuel + 1) (.sub ht) rc out = .err (.of (.helperNotFound n)) out1 := by
  simp [expandParam, RM.bnd_apply, hn, hh, hl, hr, hhook]

/-- explicit path spellings (`./name`, `this.name`, `[name]`) never match a helper name: the raw text
    of the path – which is what is looked up – keeps the spelling -/
theorem explicit_spelling_is_data (reg : Registry) (root : Json) (fuel : Nat) (ht : HelperT) (p : Path)
    (rc : RC) (out : Out)
    (hname : ht.name = .path p) (hno : ht.isNameOnly = true)
    (hl : assocGet rc.localHelpers p.raw = none) (hr : assocGet reg.helpers p.raw = none) :
    renderExpression reg root (fuel + 3) ht rc out =
      (do
        let cj ← expandParam reg root (fuel + 2) ht.name
        if cj.isMissing then
          if reg.strict then throw (strictError cj.relPath)
          else match assocGet reg.helpers HELPER_MISSING with
            | some hook => do
              let h ← helperFromTemplate reg root (fuel + 2) ht
              callHelper reg root (fuel + 2) hook h
            | none => pure ()
        else do
          let rc ← get
          indentAwareWrite (doEscape reg rc cj.json.render)) rc out := by
  simp [renderExpression, hno, hname, expandAsName, RM.bnd_apply, hl, hr]
  rfl

/-- effects of a decorator apply to what is rendered AFTER it: the element loop renders the
    elements before it from the state before it -/
theorem decorator_effects_are_sequential (reg : Registry) (root : Json) (fuel : Nat) (tn : Option Str)
    (e : Elem) (es : List Elem) (m : List (Nat × Nat)) :
    renderElems reg root (fuel + 1) tn (e :: es) m =
      (do
        RM.mapErr (renderElem reg root fuel e) (fun er =>
          let er := if er.line.isNone then
              match m.head? with
              | some (l, c) => { er with line := some l, col := some c }
              | none => er
            else er
          if er.name.isNone then { er with name := tn } else er)
        renderElems reg root fuel tn es (m.drop 1)) := by
  simp only [renderElems]
  rfl

/-! ### local helpers registered by decorators: the latest registration of a name is the one consulted -/

/-- a decorator that registers a local helper binds the name for what is rendered after it, whatever the name was bound to
    before (an earlier local helper of that name included), and touches nothing else -/
theorem local_helper_registration (reg : Registry) (root : Json) (fuel : Nat) (dt : DecoT) (di : DecoI) (n tag : Str)
    (rc rc1 : RC) (out out1 : Out)
    (hd : decoFromTemplate reg root fuel dt rc out = .ok di rc1 out1)
    (hk : assocGet reg.decorators di.name = some .sethelper)
    (hn : (di.params[0]?).bind (·.json.asStr?) = some n) (ht : (di.params[1]?).bind (·.json.asStr?) = some tag) :
    evalDecorator reg root (fuel + 1) dt rc out
      = .ok () { rc1 with localHelpers := hashInsert rc1.localHelpers n (.mark tag) } out1 := by
  simp [evalDecorator, RM.bnd_apply, hd, hk, hn, ht, RM.modifyAux]

/-- after two registrations of the same name the second answers (`local_before_registry` then routes every tag of that name
    to it); every other name keeps its helper -/
theorem later_local_helper_wins (ls : List (Str × HelperKind)) (n : Str) (h1 h2 : HelperKind) :
    assocGet (hashInsert (hashInsert ls n h1) n h2) n = some h2 ∧
    ∀ q, q ≠ n → assocGet (hashInsert (hashInsert ls n h1) n h2) q = assocGet ls q := by
  refine ⟨assocGet_insert_same _ _ _, fun q hq => ?_⟩
  rw [assocGet_insert_other _ _ _ _ hq, assocGet_insert_other _ _ _ _ hq]

/-! ### explicit path spellings always read the data – at source level -/

/-- **`{{this.v}}`, `{{this/v}}`, `{{./v}}` read the field `v` of the data even when a helper called `v` is registered**
    (only a helper registered under the whole spelling, e.g. the name "this.v", would be consulted): from the source text,
    between any two texts, for every value and every escape function.  With `{{v}}` itself the helper would win
    (`helper_before_field`). -/
theorem explicit_spelling_reads_data (r : Registry) (fs : FS) (s0 s1 : Str) (sp : C02.Spelling) (data j : Json) (hdev : r.dev = false)
    (hsp : sp = .thisDot ∨ sp = .thisSlash ∨ sp = .dotSlash)
    (hok : C02.TextsOk s0 [(sp, s1)])
    (hnohelper : assocGet r.helpers sp.raw = none)
    (hsafe : Spec.indexSafe data [['v']] = true) (hj : Spec.descend data [['v']] = some j) :
    r.renderTemplate fs (C02.textsAndTags s0 [(sp, s1)]) data = .ok (s0 ++ (r.escape j.render ++ s1)) := by
  have h := C02.texts_and_tags_render r fs s0 [(sp, s1)] data j hdev hok (by simp [renderFuel])
    (by intro q hq; simp at hq; subst hq; exact hnohelper) hsafe hj
  rw [h]
  rcases hsp with rfl | rfl | rfl <;> simp [C02.Spelling.output]

/-- the hypothesis speaks about the spelled name only: a registry that HAS a helper `v` satisfies it -/
example (k : HelperKind) : assocGet [((['v'] : Str), k)] C02.Spelling.thisDot.raw = none := by
  simp [assocGet, C02.Spelling.raw]

/-- all spellings of the path agree with `{{v}}` (when no helper shadows it) -/
theorem spellings_agree (r : Registry) (fs : FS) (s0 s1 : Str) (sp : C02.Spelling) (data j : Json) (hdev : r.dev = false)
    (hsp : sp ≠ .triple ∧ sp ≠ .amp)
    (hok : C02.TextsOk s0 [(sp, s1)]) (hok' : C02.TextsOk s0 [(.dbl, s1)])
    (hnohelper : assocGet r.helpers sp.raw = none) (hnov : assocGet r.helpers ['v'] = none)
    (hsafe : Spec.indexSafe data [['v']] = true) (hj : Spec.descend data [['v']] = some j) :
    r.renderTemplate fs (C02.textsAndTags s0 [(sp, s1)]) data = r.renderTemplate fs (C02.textsAndTags s0 [(.dbl, s1)]) data := by
  rw [C02.texts_and_tags_render r fs s0 [(sp, s1)] data j hdev hok (by simp [renderFuel]) (by intro q hq; simp at hq; subst hq; exact hnohelper) hsafe hj,
    C02.texts_and_tags_render r fs s0 [(.dbl, s1)] data j hdev hok' (by simp [renderFuel]) (by intro q hq; simp at hq; subst hq; exact hnov) hsafe hj]
  cases sp <;> simp_all [C02.Spelling.output]

end Hbs.C14
