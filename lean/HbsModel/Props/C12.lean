import HbsModel.Registry
import HbsModel.Lemmas.RenderPlain
import HbsModel.Lemmas.PartialLine
import HbsModel.Lemmas.PartialNameLine
import HbsModel.Props.C11
import HbsModel.Lemmas.RM
import HbsModel.Spec.Indent
/-
  C12  A standalone partial's output is indented line by line.
-/
namespace Hbs.C12
open Hbs RM Hbs.Spec

theorem withIndent_cons_ne (ind : Str) (c : Char) (t : Str) (h : c ≠ '\n') :
    withIndent ind (c :: t) = c :: withIndent ind t := by
  have : (c == '\n') = false := beq_eq_false_iff_ne.mpr h
  simp [withIndent, this]

theorem withIndent_line (ind line rest : Str) (h : line.all (· != '\n') = true) :
    withIndent ind (line ++ rest) = line ++ withIndent ind rest := by
  induction line with
  | nil => rfl
  | cons c cs ih =>
    simp only [List.all_cons, Bool.and_eq_true] at h
    have hc : c ≠ '\n' := by simpa using h.1
    simp only [List.cons_append]
    rw [withIndent_cons_ne ind c _ hc, ih h.2]

theorem splitAtNl_spec (s : Str) :
    (∀ line, splitAtNl s = (line, none) → s = line ∧ line.all (· != '\n') = true) ∧
    (∀ line rest, splitAtNl s = (line, some rest) →
        s = line ++ '\n' :: rest ∧ line.all (· != '\n') = true) := by
  induction s with
  | nil => simp [splitAtNl]
  | cons c t ih =>
    by_cases hc : (c == '\n') = true
    · have e : c = '\n' := by simpa using hc
      subst e
      simp [splitAtNl]
    · have hne : (c != '\n') = true := by simpa using hc
      simp only [splitAtNl, hc, Bool.false_eq_true, ↓reduceIte]
      constructor
      · intro line h
        cases hs : splitAtNl t with
        | mk l r =>
          rw [hs] at h
          simp only [Prod.mk.injEq] at h
          obtain ⟨h1, h2⟩ := h
          subst h1; subst h2
          obtain ⟨e1, e2⟩ := ih.1 l hs
          exact ⟨by rw [← e1], by simp [hne, e2]⟩
      · intro line rest h
        cases hs : splitAtNl t with
        | mk l r =>
          rw [hs] at h
          simp only [Prod.mk.injEq] at h
          obtain ⟨h1, h2⟩ := h
          subst h1; subst h2
          obtain ⟨e1, e2⟩ := ih.2 l rest hs
          exact ⟨by rw [e1]; rfl, by simp [hne, e2]⟩

/-- `write_indented` hands the writer, segment by segment, exactly `with_indent s W` -/
theorem indentedSegments_flatten (ind : Str) : ∀ (fuel : Nat) (s : Str), s.length < fuel →
    (indentedSegments ind fuel s).flatten = withIndent ind s := by
  intro fuel
  induction fuel with
  | zero => intro s h; omega
  | succ fuel ih =>
    intro s hlen
    simp only [indentedSegments]
    cases hs : splitAtNl s with
    | mk line r =>
      cases r with
      | none =>
        obtain ⟨e1, e2⟩ := (splitAtNl_spec s).1 line hs
        simp only [List.flatten_cons, List.flatten_nil, List.append_nil]
        rw [e1]
        have := withIndent_line ind line [] e2
        simpa [withIndent] using this.symm
      | some rest =>
        obtain ⟨e1, e2⟩ := (splitAtNl_spec s).2 line rest hs
        simp only
        rw [e1, withIndent_line ind line _ e2]
        cases rest with
        | nil => simp [withIndent]
        | cons c t =>
          have hl : (c :: t).length < fuel := by
            rw [e1] at hlen; simp at hlen ⊢; omega
          simp only [List.isEmpty_cons, Bool.false_eq_true, ↓reduceIte, List.flatten_cons]
          rw [ih (c :: t) hl]
          simp [withIndent]

theorem writeIndented_is_withIndent (v ind : Str) :
    (indentedSegments ind (v.length + 1) v).flatten = withIndent ind v :=
  indentedSegments_flatten ind _ v (by omega)

/-- indentation never alters the number of lines … -/
theorem withIndent_same_newlines (ind : Str) (hind : ind.all (· != '\n') = true) (s : Str) :
    (withIndent ind s).filter (· == '\n') = s.filter (· == '\n') := by
  have hi : ind.filter (· == '\n') = [] := by
    apply List.filter_eq_nil_iff.mpr
    intro a ha
    have := List.all_eq_true.mp hind a ha
    simpa using this
  induction s with
  | nil => rfl
  | cons c t ih =>
    simp only [withIndent]
    split <;> simp [List.filter_cons, List.filter_append, hi, ih]

/-- … nor the non-whitespace content -/
theorem withIndent_same_content (ind : Str) (hind : ind.all isBlank = true) (s : Str) :
    (withIndent ind s).filter (fun c => !isBlank c) = s.filter (fun c => !isBlank c) := by
  have hi : ind.filter (fun c => !isBlank c) = [] := by
    apply List.filter_eq_nil_iff.mpr
    intro a ha
    have := List.all_eq_true.mp hind a ha
    simp [this]
  induction s with
  | nil => rfl
  | cons c t ih =>
    simp only [withIndent]
    split <;> simp [List.filter_cons, List.filter_append, hi, ih]

/-- every line after the first starts with W: after a line feed that is not the chunk's last
    character the indent follows immediately -/
theorem indent_follows_newline (ind : Str) (c : Char) (t : Str) :
    withIndent ind ('\n' :: c :: t) = '\n' :: (ind ++ withIndent ind (c :: t)) := by
  simp [withIndent]

/-- nested partials: the indentation of a nested standalone partial is ADDED to the outer one -/
theorem nested_indent_concat (reg : Registry) (root : Json) (fuel : Nat) (dt : DecoT) (n : Str)
    (rc : RC) (out : Out) (w1 w2 : Str)
    (hname : dt.name = .name n) (hp : dt.params = []) (hh : dt.hash = [])
    (h1 : rc.indentString = some w1) (h2 : dt.indent = some w2) :
    decoFromTemplate reg root (fuel + 2) dt rc out =
      .ok { name := n, params := [], hash := [], template := dt.template, indent := some (w1 ++ w2) } rc out := by
  simp [decoFromTemplate, hname, hp, hh, expandAsName, expandParams, expandHash, RM.bnd_apply, h1, h2]

/-- the first line: the indent is written before a chunk iff `indent_before_write` is set and the
    chunk does not begin with a line break; afterwards the flag says whether the chunk ended a line -/
theorem first_line_indent (v w : Str) (rc : RC) (out : Out) (hv : v ≠ [])
    (hi : rc.indentString = some w) (hb : rc.indentBeforeWrite = true) (hs : startsWithNewline v = false) :
    indentAwareWrite v rc out =
      (do write w
          writeIndented v w
          modify (fun rc => { rc with trailingNewline := endsWithNewline v, indentBeforeWrite := endsWithNewline v }))
        { rc with contentProduced := true } out := by
  have he : v.isEmpty = false := by cases v <;> simp_all
  simp [indentAwareWrite, he, hi, hb, hs, RM.bnd_apply]

/-! ### a standalone partial from source text to bytes -/

theorem writeAll_text (segs : List Str) (out : Out) (hf : out.failAt = none) :
    ∃ out', (∀ rc : RC, writeAll segs rc out = .ok () rc out') ∧ out'.failAt = none ∧ out'.text = out.text ++ segs.flatten := by
  induction segs generalizing out with
  | nil => exact ⟨out, fun rc => by simp [writeAll], hf, by simp⟩
  | cons s segs ih =>
    by_cases hs : s = []
    · subst hs
      obtain ⟨o2, h2, hf2, ht2⟩ := ih out hf
      exact ⟨o2, fun rc => by simp [writeAll, RM.bnd_apply, h2 rc], hf2, by simpa using ht2⟩
    · obtain ⟨o2, h2, hf2, ht2⟩ := ih { out with segs := s :: out.segs, count := out.count + 1 } hf
      refine ⟨o2, fun rc => ?_, hf2, ?_⟩
      · have hw := write_ok s rc out hs (by simp [hf])
        simp [writeAll, RM.bnd_apply, hw, h2 rc]
      · rw [ht2, text_push]; simp

/-- a chunk written under an active indentation `w`, at the start of a line: `w` in front of the first line (unless the
    chunk starts with a line break) and after every line break but a final one -/
theorem indentAwareWrite_indented (v w : Str) (rc : RC) (out : Out) (hv : v ≠ [])
    (hi : rc.indentString = some w) (hb : rc.indentBeforeWrite = true) (hf : out.failAt = none) :
    ∃ out', indentAwareWrite v rc out
        = .ok () { rc with contentProduced := true, trailingNewline := endsWithNewline v, indentBeforeWrite := endsWithNewline v } out'
      ∧ out'.failAt = none
      ∧ out'.text = out.text ++ (if startsWithNewline v then [] else w) ++ Spec.withIndent w v := by
  have he : v.isEmpty = false := by cases v <;> simp_all
  by_cases hs : startsWithNewline v = true
  · obtain ⟨o2, h2, hf2, ht2⟩ := writeAll_text (indentedSegments w (v.length + 1) v) out hf
    refine ⟨o2, ?_, hf2, ?_⟩
    · simp [indentAwareWrite, he, hi, hs, RM.bnd_apply, writeIndented, h2]
    · rw [ht2, writeIndented_is_withIndent]; simp [hs]
  · have hs' : startsWithNewline v = false := by simpa using hs
    by_cases hw : w = []
    · subst hw
      obtain ⟨o2, h2, hf2, ht2⟩ := writeAll_text (indentedSegments [] (v.length + 1) v) out hf
      refine ⟨o2, ?_, hf2, ?_⟩
      · simp [indentAwareWrite, he, hi, hb, hs', RM.bnd_apply, writeIndented, h2]
      · rw [ht2, writeIndented_is_withIndent]; simp [hs']
    · obtain ⟨o2, h2, hf2, ht2⟩ := writeAll_text (indentedSegments w (v.length + 1) v)
        { out with segs := w :: out.segs, count := out.count + 1 } hf
      refine ⟨o2, ?_, hf2, ?_⟩
      · have hww : ∀ rc : RC, RM.write w rc out = .ok () rc { out with segs := w :: out.segs, count := out.count + 1 } :=
          fun rc => write_ok w rc out hw (by simp [hf])
        simp [indentAwareWrite, he, hi, hb, hs', RM.bnd_apply, writeIndented, hww, h2]
      · rw [ht2, writeIndented_is_withIndent, text_push]; simp [hs']

theorem modifyAux_eq (f : RC → RC) (rc : RC) (out : Out) (g : RC)
    (h : g = { f rc with blocks := rc.blocks, disableEscape := rc.disableEscape, indentString := rc.indentString,
                          pbStack := rc.pbStack, pbBinding := rc.pbBinding }) :
    RM.modifyAux f rc out = .ok () g out := by
  subst h; rfl

/-- a registered plain-text partial rendered under an indentation, at the start of a line -/
theorem render_plain_partial_indented (reg : Registry) (root : Json) (f : Nat) (P w : Str) (rcE : RC) (out : Out) (hP : P ≠ [])
    (hi : rcE.indentString = some w) (hb : rcE.indentBeforeWrite = true) (hf : out.failAt = none) :
    ∃ out', renderTemplate reg root (f + 3) (.mk (some ['p']) [.raw P] [(1, 1)]) rcE out
        = .ok () { rcE with currentTemplate := some ['p'], contentProduced := true, trailingNewline := endsWithNewline P,
                            indentBeforeWrite := endsWithNewline P } out'
      ∧ out'.failAt = none
      ∧ out'.text = out.text ++ (if startsWithNewline P then [] else w) ++ Spec.withIndent w P := by
  obtain ⟨out', hw, hf', ht⟩ := indentAwareWrite_indented P w { rcE with currentTemplate := some ['p'] } out hP hi hb hf
  refine ⟨out', ?_, hf', ht⟩
  have hm := modifyAux_eq (fun rc => { rc with currentTemplate := some ['p'] }) rcE out { rcE with currentTemplate := some ['p'] } rfl
  simp only [renderTemplate, renderElems, renderElem, RM.bind_def, RM.bnd_apply, RM.get_apply, Tmpl.name, Tmpl.elements, Tmpl.mapping,
    RM.mapErr, hm, hw, RM.pure_def, RM.ret_apply, Option.isNone_some, Bool.false_eq_true, ↓reduceIte]

/-- the current context of a top-level scope is the root -/
theorem evaluate_this_top (root : Json) (rc : RC) (out : Out) (hb : rc.blocks = [{}]) :
    evaluate2 root (.relative [] []) rc out = .ok (.context root []) rc out := by
  simp [evaluate2, RM.bnd_apply, hb, navigate, parseJsonVisitor, visitorScan, mergeJsonPath, walk]

/-- `expand_partial` for `{{> p}}` (no argument, no hash) with `p` a registered plain text: its text under the indentation,
    and the caller's state back except for the three write flags -/
theorem expandPartial_plain (reg : Registry) (root : Json) (f : Nat) (P w : Str) (rc1 : RC) (out : Out) (hP : P ≠ [])
    (hreg : assocGet reg.templates ['p'] = some (.mk (some ['p']) [.raw P] [(1, 1)]))
    (hb : rc1.blocks = [{}]) (hpa : rc1.partials = []) (hdv : rc1.devTemplates = none) (hct : rc1.currentTemplate ≠ some ['p'])
    (hib : rc1.indentBeforeWrite = true) (hf : out.failAt = none) :
    ∃ out', expandPartial reg root (f + 4) ⟨['p'], [], [], none, some w⟩ rc1 out
        = .ok () { rc1 with contentProduced := true, trailingNewline := endsWithNewline P, indentBeforeWrite := endsWithNewline P } out'
      ∧ out'.failAt = none
      ∧ out'.text = out.text ++ (if startsWithNewline P then [] else w) ++ Spec.withIndent w P := by
  obtain ⟨out', hr, hf', ht⟩ := render_plain_partial_indented reg root f P w
    { rc1 with blocks := [{ baseValue := some root }], indentString := some w, partials := [], devTemplates := none } out hP rfl hib hf
  refine ⟨out', ?_, hf', ht⟩
  have hev := evaluate_this_top root rc1 out hb
  have hne : (rc1.currentTemplate == some ['p']) = false := by simpa using hct
  have hpb : (['p'] == PARTIAL_BLOCK) = false := by decide
  simp only [expandPartial, RM.bind_def, RM.bnd_apply, RM.pure_def, RM.ret_apply, RM.get_apply, hne, Bool.false_eq_true, ↓reduceIte, hpb,
    hpa, hdv, assocGet, Option.bind, hreg, List.getElem?_nil, hev, SJ.asJson, mergeJson, List.map_nil, List.isEmpty_nil,
    RM.partialScope, RM.bracket_apply]
  rw [hr]
  simp [hb, hpa, hdv]

/-- the compiled standalone `{{> p}}` with indentation `w`, where `p` is registered as the plain text `P`: the text of `P`
    with `w` in front of every line, in every state a plain template can be in -/
theorem partial_writes_indented (reg : Registry) (root : Json) (rc0 : RC) (P w : Str) (hP : P ≠ [])
    (hreg : assocGet reg.templates ['p'] = some (.mk (some ['p']) [.raw P] [(1, 1)]))
    (hb : rc0.blocks = [{}]) (hi : rc0.indentString = none) (hmc : rc0.modifiedCtx = none)
    (hpa : rc0.partials = []) (hdv : rc0.devTemplates = none) (hct : rc0.currentTemplate ≠ some ['p']) :
    WritesText reg root rc0 (.partialExpr (PlainText.partD (some w) true))
      ((if startsWithNewline P then [] else w) ++ Spec.withIndent w P) := by
  intro fuel rc out hq hf
  have hrb : rc.blocks = [{}] := by rw [hq.blocks, hb]
  have hri : rc.indentString = none := by rw [hq.indent, hi]
  have hrm : rc.modifiedCtx = none := by rw [hq]; exact hmc
  have hrp : rc.partials = [] := by rw [hq]; exact hpa
  have hrd : rc.devTemplates = none := by rw [hq]; exact hdv
  have hrc : rc.currentTemplate ≠ some ['p'] := by rw [hq]; exact hct
  have hdeco : decoFromTemplate reg root (fuel + 5) (PlainText.partD (some w) true) rc out
      = .ok ⟨['p'], [], [], none, some w⟩ rc out := by
    simp [decoFromTemplate, expandAsName, expandParams, expandHash, PlainText.partD, DecoG.new, RM.bnd_apply, hri]
  have hm1 := modifyAux_eq (fun r : RC => { r with
      indentBeforeWrite := rc.indentBeforeWrite || ((PlainText.partD (some w) true).indentBeforeWrite && (r.trailingNewline || (PlainText.partD (some w) true).indent.isSome)),
      contentProduced := false }) rc out { rc with indentBeforeWrite := true, contentProduced := false }
    (by simp [PlainText.partD, DecoG.new])
  obtain ⟨out', hx, hf', ht⟩ := expandPartial_plain reg root (fuel + 1) P w { rc with indentBeforeWrite := true, contentProduced := false } out hP hreg
    hrb hrp hrd hrc rfl hf
  refine ⟨{ rc with contentProduced := true, trailingNewline := endsWithNewline P, indentBeforeWrite := endsWithNewline P }, out', ?_,
    hq.flags _ _ _, hf', by rw [ht, List.append_assoc]⟩
  have hm2 := modifyAux_eq (fun r : RC => if r.contentProduced then { r with indentBeforeWrite := r.trailingNewline }
      else { r with contentProduced := rc.contentProduced, indentBeforeWrite := rc.indentBeforeWrite })
    { rc with contentProduced := true, trailingNewline := endsWithNewline P, indentBeforeWrite := endsWithNewline P } out'
    { rc with contentProduced := true, trailingNewline := endsWithNewline P, indentBeforeWrite := endsWithNewline P } (by simp)
  simp only [renderElem, RM.bind_def, RM.bnd_apply, hdeco, RM.get_apply]
  rw [hm1]
  simp only []
  rw [show fuel + 5 = fuel + 1 + 4 from rfl, hx]
  simp only []
  exact hm2

/-- `{{> p}}` -/
abbrev partialTag : Str := PlainText.partSrc

/-- **a standalone partial's output is indented line by line** – from the source text to the bytes: for EVERY text `L0`
    that is empty or ends a line, EVERY non-empty indentation `W` of blanks, EVERY following text `R`, and EVERY non-empty
    plain text `P` registered as the partial `p`:  `L0 ++ W ++ {{> p}} ++ (LF | CRLF) ++ R`  renders to
    `L0 ++ W·P ++ R`, where `W·P` is `P` with `W` in front of its first line (unless `P` begins with a line break) and
    after every line break of `P` except a final one (`Spec.withIndent`); the tag's own indentation and line break are gone
    and nothing else.  Through the regenerated grammar, the standalone-line rule and the indentation capture of compile2,
    `expand_partial` and the streaming indent writer. -/
theorem standalone_partial_is_indented (r : Registry) (fs : FS) (L0 W nl R P : Str) (data : Json)
    (hdev : r.dev = false) (hpi : r.preventIndent = false)
    (hreg : assocGet r.templates ['p'] = some (.mk (some ['p']) [.raw P] [(1, 1)])) (hP : P ≠ [])
    (hL0 : L0 = [] ∨ L0.getLast? = some '\n') (hopen : C03.noOpen L0)
    (hW : ∀ ch ∈ W, isBlank ch = true) (hWne : W ≠ [])
    (hnl : nl = ['\n'] ∨ nl = ['\r', '\n']) (hR : C03.noOpen R) :
    r.renderTemplate fs ((L0 ++ W) ++ partialTag ++ (nl ++ R)) data
      = .ok (L0 ++ ((if startsWithNewline P then [] else W) ++ Spec.withIndent W P) ++ R) := by
  -- the line shape
  have hL0' : L0 = [] ∨ ∃ x, L0.getLast? = some x ∧ isBlank x = false := by
    rcases hL0 with h | h
    · left; exact h
    · right; exact ⟨'\n', h, by decide⟩
  have htrimL : trimEndBlank (L0 ++ W) = L0 := C11.trimEndBlank_append L0 W hW hL0'
  obtain ⟨x, rr, hx, hxb, hxn⟩ : ∃ x rr, nl ++ R = x :: rr ∧ isBlank x = false ∧ isNewline x = true := by
    rcases hnl with rfl | rfl
    · exact ⟨'\n', R, rfl, by decide, by decide⟩
    · exact ⟨'\r', '\n' :: R, rfl, by decide, by decide⟩
  have htrimR : trimStartBlank (nl ++ R) = nl ++ R := by
    unfold trimStartBlank; rw [hx]; simp [List.dropWhile, hxb]
  have hstrip : stripFirstNewline (nl ++ R) = R := by
    rcases hnl with rfl | rfl <;> simp [stripFirstNewline]
  have htrimR' : trimStartBlank (x :: rr) = x :: rr := by rw [← hx]; exact htrimR
  have hsa : PlainText.standalone (L0 ++ W) (nl ++ R) false = true := by
    simp only [PlainText.standalone, startsWithEmptyLine, endsWithEmptyLine, htrimL, hx, htrimR', startsWithNewline, hxn,
      Bool.true_or, Bool.true_and]
    rcases hL0 with rfl | h
    · rfl
    · have : isNewline '\n' = true := by decide
      simp [endsWithNewline, h, this]
  have hftb : findTrailingBlank (L0 ++ W) = some W := by
    have hlen : W.length ≠ 0 := fun h => hWne (List.eq_nil_of_length_eq_zero h)
    simp only [findTrailingBlank, htrimL]
    have : (L0.length == (L0 ++ W).length) = false := by simp; omega
    simp [this, hWne]
  have hLne : L0 ++ W ≠ [] := by simp [hWne]
  have hLtext : L0 ++ W = [] ∨ PlainText.TextBeforeTag (L0 ++ W) := by
    right
    obtain ⟨y, hy, hyb⟩ : ∃ y, (L0 ++ W).getLast? = some y ∧ isBlank y = true := by
      cases hg : W.getLast? with
      | none => simp [List.getLast?_eq_none_iff] at hg; exact absurd hg hWne
      | some y => exact ⟨y, by simp [List.getLast?_append, hg], hW y (List.mem_of_getLast? hg)⟩
    refine ⟨PlainText.noOpen_append_blank L0 W hopen hW, ?_, ?_⟩
    · rw [hy]; intro e; cases e; simp [isBlank] at hyb
    · rw [hy]; intro e; cases e; simp [isBlank] at hyb
  have hRtext : PlainText.noOpen (nl ++ R) := by
    rcases hnl with rfl | rfl
    · exact PlainText.noOpen_cons '\n' R (by decide) hR
    · exact PlainText.noOpen_cons '\r' _ (by decide) (PlainText.noOpen_cons '\n' R (by decide) hR)
  -- compile
  unfold Registry.renderTemplate Registry.renderTemplateToWrite Registry.renderTemplateWithContextToWrite
    Registry.compileForRenderTemplate
  obtain ⟨m, hcomp⟩ := PlainText.compile_text_partial_text (L0 ++ W) _ _ { preventIndent := r.preventIndent } hpi hLtext
    (PlainText.textAfterTag_split (nl ++ R) hRtext)
  rw [← PlainText.split_ws (nl ++ R)] at hcomp
  have hA : nl ++ R ≠ [] := by rw [hx]; simp
  simp only [hsa, ↓reduceIte, htrimL, htrimR, hstrip, hftb, hA, PlainText.leftT, hLne, Tmpl.elements] at hcomp
  rw [show partialTag = PlainText.partSrc from rfl, hcomp]
  simp only [Registry.renderResolved, hdev, Bool.not_false, ↓reduceIte]
  -- render
  have hw : ∀ q ∈ [((Elem.raw L0, L0) : Elem × Str), (.partialExpr (PlainText.partD (some W) true), (if startsWithNewline P then [] else W) ++ Spec.withIndent W P),
      (.raw R, R)], WritesText r data { ({ rootTemplate := none } : RC) with currentTemplate := none } q.1 q.2 := by
    intro q hq
    simp only [List.mem_cons, List.not_mem_nil, or_false] at hq
    rcases hq with rfl | rfl | rfl
    · exact writes_raw r data _ rfl L0
    · exact partial_writes_indented r data _ P W hP hreg rfl rfl rfl rfl rfl (by simp)
    · exact writes_raw r data _ rfl R
  have := render_writes_template r data none _ m { rootTemplate := none } (by simp [renderFuel]) hw
  simp only [List.map_cons, List.map_nil, Tmpl.name, List.cons_append, List.nil_append] at this ⊢
  rw [this]
  simp

/-! ### the same for EVERY partial name -/

/-- a registered plain-text partial rendered under an indentation, at the start of a line -/
theorem render_plain_partial_indented_named (nm : Str) (reg : Registry) (root : Json) (f : Nat) (P w : Str) (rcE : RC) (out : Out) (hP : P ≠ [])
    (hi : rcE.indentString = some w) (hb : rcE.indentBeforeWrite = true) (hf : out.failAt = none) :
    ∃ out', renderTemplate reg root (f + 3) (.mk (some nm) [.raw P] [(1, 1)]) rcE out
        = .ok () { rcE with currentTemplate := some nm, contentProduced := true, trailingNewline := endsWithNewline P,
                            indentBeforeWrite := endsWithNewline P } out'
      ∧ out'.failAt = none
      ∧ out'.text = out.text ++ (if startsWithNewline P then [] else w) ++ Spec.withIndent w P := by
  obtain ⟨out', hw, hf', ht⟩ := indentAwareWrite_indented P w { rcE with currentTemplate := some nm } out hP hi hb hf
  refine ⟨out', ?_, hf', ht⟩
  have hm := modifyAux_eq (fun rc => { rc with currentTemplate := some nm }) rcE out { rcE with currentTemplate := some nm } rfl
  simp only [renderTemplate, renderElems, renderElem, RM.bind_def, RM.bnd_apply, RM.get_apply, Tmpl.name, Tmpl.elements, Tmpl.mapping,
    RM.mapErr, hm, hw, RM.pure_def, RM.ret_apply, Option.isNone_some, Bool.false_eq_true, ↓reduceIte]

/-- `expand_partial` for `{{> name}}` (no argument, no hash) with `p` a registered plain text: its text under the indentation,
    and the caller's state back except for the three write flags -/
theorem expandPartial_plain_named (nm : Str) (hnpb : (nm == PARTIAL_BLOCK) = false) (reg : Registry) (root : Json) (f : Nat) (P w : Str) (rc1 : RC) (out : Out) (hP : P ≠ [])
    (hreg : assocGet reg.templates nm = some (.mk (some nm) [.raw P] [(1, 1)]))
    (hb : rc1.blocks = [{}]) (hpa : rc1.partials = []) (hdv : rc1.devTemplates = none) (hct : rc1.currentTemplate ≠ some nm)
    (hib : rc1.indentBeforeWrite = true) (hf : out.failAt = none) :
    ∃ out', expandPartial reg root (f + 4) ⟨nm, [], [], none, some w⟩ rc1 out
        = .ok () { rc1 with contentProduced := true, trailingNewline := endsWithNewline P, indentBeforeWrite := endsWithNewline P } out'
      ∧ out'.failAt = none
      ∧ out'.text = out.text ++ (if startsWithNewline P then [] else w) ++ Spec.withIndent w P := by
  obtain ⟨out', hr, hf', ht⟩ := render_plain_partial_indented_named nm reg root f P w
    { rc1 with blocks := [{ baseValue := some root }], indentString := some w, partials := [], devTemplates := none } out hP rfl hib hf
  refine ⟨out', ?_, hf', ht⟩
  have hev := evaluate_this_top root rc1 out hb
  have hne : (rc1.currentTemplate == some nm) = false := by simpa using hct
  have hpb : (nm == PARTIAL_BLOCK) = false := hnpb
  simp only [expandPartial, RM.bind_def, RM.bnd_apply, RM.pure_def, RM.ret_apply, RM.get_apply, hne, Bool.false_eq_true, ↓reduceIte, hpb,
    hpa, hdv, assocGet, Option.bind, hreg, List.getElem?_nil, hev, SJ.asJson, mergeJson, List.map_nil, List.isEmpty_nil,
    RM.partialScope, RM.bracket_apply]
  rw [hr]
  simp [hb, hpa, hdv]

/-- the compiled standalone `{{> name}}` with indentation `w`, where `p` is registered as the plain text `P`: the text of `P`
    with `w` in front of every line, in every state a plain template can be in -/
theorem partial_writes_indented_named (nm : Str) (hnpb : (nm == PARTIAL_BLOCK) = false) (reg : Registry) (root : Json) (rc0 : RC) (P w : Str) (hP : P ≠ [])
    (hreg : assocGet reg.templates nm = some (.mk (some nm) [.raw P] [(1, 1)]))
    (hb : rc0.blocks = [{}]) (hi : rc0.indentString = none) (hmc : rc0.modifiedCtx = none)
    (hpa : rc0.partials = []) (hdv : rc0.devTemplates = none) (hct : rc0.currentTemplate ≠ some nm) :
    WritesText reg root rc0 (.partialExpr (PlainText.pnameD nm (some w) true))
      ((if startsWithNewline P then [] else w) ++ Spec.withIndent w P) := by
  intro fuel rc out hq hf
  have hrb : rc.blocks = [{}] := by rw [hq.blocks, hb]
  have hri : rc.indentString = none := by rw [hq.indent, hi]
  have hrm : rc.modifiedCtx = none := by rw [hq]; exact hmc
  have hrp : rc.partials = [] := by rw [hq]; exact hpa
  have hrd : rc.devTemplates = none := by rw [hq]; exact hdv
  have hrc : rc.currentTemplate ≠ some nm := by rw [hq]; exact hct
  have hdeco : decoFromTemplate reg root (fuel + 5) (PlainText.pnameD nm (some w) true) rc out
      = .ok ⟨nm, [], [], none, some w⟩ rc out := by
    simp [decoFromTemplate, expandAsName, expandParams, expandHash, PlainText.pnameD, DecoG.new, RM.bnd_apply, hri]
  have hm1 := modifyAux_eq (fun r : RC => { r with
      indentBeforeWrite := rc.indentBeforeWrite || ((PlainText.pnameD nm (some w) true).indentBeforeWrite && (r.trailingNewline || (PlainText.pnameD nm (some w) true).indent.isSome)),
      contentProduced := false }) rc out { rc with indentBeforeWrite := true, contentProduced := false }
    (by simp [PlainText.pnameD, DecoG.new])
  obtain ⟨out', hx, hf', ht⟩ := expandPartial_plain_named nm hnpb reg root (fuel + 1) P w { rc with indentBeforeWrite := true, contentProduced := false } out hP hreg
    hrb hrp hrd hrc rfl hf
  refine ⟨{ rc with contentProduced := true, trailingNewline := endsWithNewline P, indentBeforeWrite := endsWithNewline P }, out', ?_,
    hq.flags _ _ _, hf', by rw [ht, List.append_assoc]⟩
  have hm2 := modifyAux_eq (fun r : RC => if r.contentProduced then { r with indentBeforeWrite := r.trailingNewline }
      else { r with contentProduced := rc.contentProduced, indentBeforeWrite := rc.indentBeforeWrite })
    { rc with contentProduced := true, trailingNewline := endsWithNewline P, indentBeforeWrite := endsWithNewline P } out'
    { rc with contentProduced := true, trailingNewline := endsWithNewline P, indentBeforeWrite := endsWithNewline P } (by simp)
  simp only [renderElem, RM.bind_def, RM.bnd_apply, hdeco, RM.get_apply]
  rw [hm1]
  simp only []
  rw [show fuel + 5 = fuel + 1 + 4 from rfl, hx]
  simp only []
  exact hm2

/-- `{{> name}}` -/
abbrev namedPartialTag (nm : Str) : Str := PlainText.pnameSrc nm

/-- **a standalone partial's output is indented line by line** – from the source text to the bytes: for EVERY text `L0`
    that is empty or ends a line, EVERY non-empty indentation `W` of blanks, EVERY following text `R`, and EVERY non-empty
    plain text `P` registered as the partial `name` – ANY name of the grammar's `partial_symbol_char` class (`dir/name.hbs`, `é-1`, …):  `L0 ++ W ++ {{> p}} ++ (LF | CRLF) ++ R`  renders to
    `L0 ++ W·P ++ R`, where `W·P` is `P` with `W` in front of its first line (unless `P` begins with a line break) and
    after every line break of `P` except a final one (`Spec.withIndent`); the tag's own indentation and line break are gone
    and nothing else.  Through the regenerated grammar, the standalone-line rule and the indentation capture of compile2,
    `expand_partial` and the streaming indent writer. -/
theorem standalone_named_partial_is_indented (r : Registry) (fs : FS) (nm L0 W nl R P : Str) (data : Json) (hnm : PlainText.PartialName nm)
    (hdev : r.dev = false) (hpi : r.preventIndent = false)
    (hreg : assocGet r.templates nm = some (.mk (some nm) [.raw P] [(1, 1)])) (hP : P ≠ [])
    (hL0 : L0 = [] ∨ L0.getLast? = some '\n') (hopen : C03.noOpen L0)
    (hW : ∀ ch ∈ W, isBlank ch = true) (hWne : W ≠ [])
    (hnl : nl = ['\n'] ∨ nl = ['\r', '\n']) (hR : C03.noOpen R) :
    r.renderTemplate fs ((L0 ++ W) ++ namedPartialTag nm ++ (nl ++ R)) data
      = .ok (L0 ++ ((if startsWithNewline P then [] else W) ++ Spec.withIndent W P) ++ R) := by
  have hnpb : (nm == PARTIAL_BLOCK) = false := by
    apply beq_eq_false_iff_ne.mpr
    intro e
    have := hnm.sym '@' (by rw [e]; decide)
    exact absurd this (by decide)
  -- the line shape
  have hL0' : L0 = [] ∨ ∃ x, L0.getLast? = some x ∧ isBlank x = false := by
    rcases hL0 with h | h
    · left; exact h
    · right; exact ⟨'\n', h, by decide⟩
  have htrimL : trimEndBlank (L0 ++ W) = L0 := C11.trimEndBlank_append L0 W hW hL0'
  obtain ⟨x, rr, hx, hxb, hxn⟩ : ∃ x rr, nl ++ R = x :: rr ∧ isBlank x = false ∧ isNewline x = true := by
    rcases hnl with rfl | rfl
    · exact ⟨'\n', R, rfl, by decide, by decide⟩
    · exact ⟨'\r', '\n' :: R, rfl, by decide, by decide⟩
  have htrimR : trimStartBlank (nl ++ R) = nl ++ R := by
    unfold trimStartBlank; rw [hx]; simp [List.dropWhile, hxb]
  have hstrip : stripFirstNewline (nl ++ R) = R := by
    rcases hnl with rfl | rfl <;> simp [stripFirstNewline]
  have htrimR' : trimStartBlank (x :: rr) = x :: rr := by rw [← hx]; exact htrimR
  have hsa : PlainText.standalone (L0 ++ W) (nl ++ R) false = true := by
    simp only [PlainText.standalone, startsWithEmptyLine, endsWithEmptyLine, htrimL, hx, htrimR', startsWithNewline, hxn,
      Bool.true_or, Bool.true_and]
    rcases hL0 with rfl | h
    · rfl
    · have : isNewline '\n' = true := by decide
      simp [endsWithNewline, h, this]
  have hftb : findTrailingBlank (L0 ++ W) = some W := by
    have hlen : W.length ≠ 0 := fun h => hWne (List.eq_nil_of_length_eq_zero h)
    simp only [findTrailingBlank, htrimL]
    have : (L0.length == (L0 ++ W).length) = false := by simp; omega
    simp [this, hWne]
  have hLne : L0 ++ W ≠ [] := by simp [hWne]
  have hLtext : L0 ++ W = [] ∨ PlainText.TextBeforeTag (L0 ++ W) := by
    right
    obtain ⟨y, hy, hyb⟩ : ∃ y, (L0 ++ W).getLast? = some y ∧ isBlank y = true := by
      cases hg : W.getLast? with
      | none => simp [List.getLast?_eq_none_iff] at hg; exact absurd hg hWne
      | some y => exact ⟨y, by simp [List.getLast?_append, hg], hW y (List.mem_of_getLast? hg)⟩
    refine ⟨PlainText.noOpen_append_blank L0 W hopen hW, ?_, ?_⟩
    · rw [hy]; intro e; cases e; simp [isBlank] at hyb
    · rw [hy]; intro e; cases e; simp [isBlank] at hyb
  have hRtext : PlainText.noOpen (nl ++ R) := by
    rcases hnl with rfl | rfl
    · exact PlainText.noOpen_cons '\n' R (by decide) hR
    · exact PlainText.noOpen_cons '\r' _ (by decide) (PlainText.noOpen_cons '\n' R (by decide) hR)
  -- compile
  unfold Registry.renderTemplate Registry.renderTemplateToWrite Registry.renderTemplateWithContextToWrite
    Registry.compileForRenderTemplate
  obtain ⟨m, hcomp⟩ := PlainText.compile_text_pname_text nm (L0 ++ W) _ _ { preventIndent := r.preventIndent } hnm hpi hLtext
    (PlainText.textAfterTag_split (nl ++ R) hRtext)
  rw [← PlainText.split_ws (nl ++ R)] at hcomp
  have hA : nl ++ R ≠ [] := by rw [hx]; simp
  simp only [hsa, ↓reduceIte, htrimL, htrimR, hstrip, hftb, hA, PlainText.leftT, hLne, Tmpl.elements] at hcomp
  rw [show namedPartialTag nm = PlainText.pnameSrc nm from rfl, hcomp]
  simp only [Registry.renderResolved, hdev, Bool.not_false, ↓reduceIte]
  -- render
  have hw : ∀ q ∈ [((Elem.raw L0, L0) : Elem × Str), (.partialExpr (PlainText.pnameD nm (some W) true), (if startsWithNewline P then [] else W) ++ Spec.withIndent W P),
      (.raw R, R)], WritesText r data { ({ rootTemplate := none } : RC) with currentTemplate := none } q.1 q.2 := by
    intro q hq
    simp only [List.mem_cons, List.not_mem_nil, or_false] at hq
    rcases hq with rfl | rfl | rfl
    · exact writes_raw r data _ rfl L0
    · exact partial_writes_indented_named nm hnpb r data _ P W hP hreg rfl rfl rfl rfl rfl (by simp)
    · exact writes_raw r data _ rfl R
  have := render_writes_template r data none _ m { rootTemplate := none } (by simp [renderFuel]) hw
  simp only [List.map_cons, List.map_nil, Tmpl.name, List.cons_append, List.nil_append] at this ⊢
  rw [this]
  simp

end Hbs.C12
