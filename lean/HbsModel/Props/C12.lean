import HbsModel.Registry
import HbsModel.Lemmas.RM
import HbsModel.Spec.Indent
/-
  C12  A standalone partial's output is indented line by line.
-/
namespace Hbs.C12
open Hbs RM Hbs.Spec

theorem withIndent_cons_ne (ind : Str) (c : Char) (t : Str) (h : c ≠ '\n') :
    withIndent ind (c :: t) = c :: withIndent ind t := by
  have : (c == '\n') = false := beq_eq_false_iff_ne.mpr h
  simp [withIndent, this]

theorem withIndent_line (ind line rest : Str) (h : line.all (· != '\n') = true) :
    withIndent ind (line ++ rest) = line ++ withIndent ind rest := by
  induction line with
  | nil => rfl
  | cons c cs ih =>
    simp only [List.all_cons, Bool.and_eq_true] at h
    have hc : c ≠ '\n' := by simpa using h.1
    simp only [List.cons_append]
    rw [withIndent_cons_ne ind c _ hc, ih h.2]

theorem splitAtNl_spec (s : Str) :
    (∀ line, splitAtNl s = (line, none) → s = line ∧ line.all (· != '\n') = true) ∧
    (∀ line rest, splitAtNl s = (line, some rest) →
        s = line ++ '\n' :: rest ∧ line.all (· != '\n') = true) := by
  induction s with
  | nil => simp [splitAtNl]
  | cons c t ih =>
    by_cases hc : (c == '\n') = true
    · have e : c = '\n' := by simpa using hc
      subst e
      simp [splitAtNl]
    · have hne : (c != '\n') = true := by simpa using hc
      simp only [splitAtNl, hc, Bool.false_eq_true, ↓reduceIte]
      constructor
      · intro line h
        cases hs : splitAtNl t with
        | mk l r =>
          rw [hs] at h
          simp only [Prod.mk.injEq] at h
          obtain ⟨h1, h2⟩ := h
          subst h1; subst h2
          obtain ⟨e1, e2⟩ := ih.1 l hs
          exact ⟨by rw [← e1], by simp [hne, e2]⟩
      · intro line rest h
        cases hs : splitAtNl t with
        | mk l r =>
          rw [hs] at h
          simp only [Prod.mk.injEq] at h
          obtain ⟨h1, h2⟩ := h
          subst h1; subst h2
          obtain ⟨e1, e2⟩ := ih.2 l rest hs
          exact ⟨by rw [e1]; rfl, by simp [hne, e2]⟩

/-- `write_indented` hands the writer, segment by segment, exactly `with_indent s W` -/
theorem indentedSegments_flatten (ind : Str) : ∀ (fuel : Nat) (s : Str), s.length < fuel →
    (indentedSegments ind fuel s).flatten = withIndent ind s := by
  intro fuel
  induction fuel with
  | zero => intro s h; omega
  | succ fuel ih =>
    intro s hlen
    simp only [indentedSegments]
    cases hs : splitAtNl s with
    | mk line r =>
      cases r with
      | none =>
        obtain ⟨e1, e2⟩ := (splitAtNl_spec s).1 line hs
        simp only [List.flatten_cons, List.flatten_nil, List.append_nil]
        rw [e1]
        have := withIndent_line ind line [] e2
        simpa [withIndent] using this.symm
      | some rest =>
        obtain ⟨e1, e2⟩ := (splitAtNl_spec s).2 line rest hs
        simp only
        rw [e1, withIndent_line ind line _ e2]
        cases rest with
        | nil => simp [withIndent]
        | cons c t =>
          have hl : (c :: t).length < fuel := by
            rw [e1] at hlen; simp at hlen ⊢; omega
          simp only [List.isEmpty_cons, Bool.false_eq_true, ↓reduceIte, List.flatten_cons]
          rw [ih (c :: t) hl]
          simp [withIndent]

theorem writeIndented_is_withIndent (v ind : Str) :
    (indentedSegments ind (v.length + 1) v).flatten = withIndent ind v :=
  indentedSegments_flatten ind _ v (by omega)

/-- indentation never alters the number of lines … -/
theorem withIndent_same_newlines (ind : Str) (hind : ind.all (· != '\n') = true) (s : Str) :
    (withIndent ind s).filter (· == '\n') = s.filter (· == '\n') := by
  have hi : ind.filter (· == '\n') = [] := by
    apply List.filter_eq_nil_iff.mpr
    intro a ha
    have := List.all_eq_true.mp hind a ha
    simpa using this
  induction s with
  | nil => rfl
  | cons c t ih =>
    simp only [withIndent]
    split <;> simp [List.filter_cons, List.filter_append, hi, ih]

/-- … nor the non-whitespace content -/
theorem withIndent_same_content (ind : Str) (hind : ind.all isBlank = true) (s : Str) :
    (withIndent ind s).filter (fun c => !isBlank c) = s.filter (fun c => !isBlank c) := by
  have hi : ind.filter (fun c => !isBlank c) = [] := by
    apply List.filter_eq_nil_iff.mpr
    intro a ha
    have := List.all_eq_true.mp hind a ha
    simp [this]
  induction s with
  | nil => rfl
  | cons c t ih =>
    simp only [withIndent]
    split <;> simp [List.filter_cons, List.filter_append, hi, ih]

/-- every line after the first starts with W: after a line feed that is not the chunk's last
    character the indent follows immediately -/
theorem indent_follows_newline (ind : Str) (c : Char) (t : Str) :
    withIndent ind ('\n' :: c :: t) = '\n' :: (ind ++ withIndent ind (c :: t)) := by
  simp [withIndent]

/-- nested partials: the indentation of a nested standalone partial is ADDED to the outer one -/
theorem nested_indent_concat (reg : Registry) (root : Json) (fuel : Nat) (dt : DecoT) (n : Str)
    (rc : RC) (out : Out) (w1 w2 : Str)
    (hname : dt.name = .name n) (hp : dt.params = []) (hh : dt.hash = [])
    (h1 : rc.indentString = some w1) (h2 : dt.indent = some w2) :
    decoFromTemplate reg root (fuel + 2) dt rc out =
      .ok { name := n, params := [], hash := [], template := dt.template, indent := some (w1 ++ w2) } rc out := by
  simp [decoFromTemplate, hname, hp, hh, expandAsName, expandParams, expandHash, RM.bnd_apply, h1, h2]

/-- the first line: the indent is written before a chunk iff `indent_before_write` is set and the
    chunk does not begin with a line break; afterwards the flag says whether the chunk ended a line -/
theorem first_line_indent (v w : Str) (rc : RC) (out : Out) (hv : v ≠ [])
    (hi : rc.indentString = some w) (hb : rc.indentBeforeWrite = true) (hs : startsWithNewline v = false) :
    indentAwareWrite v rc out =
      (do write w
          writeIndented v w
          modify (fun rc => { rc with trailingNewline := endsWithNewline v, indentBeforeWrite := endsWithNewline v }))
        { rc with contentProduced := true } out := by
  have he : v.isEmpty = false := by cases v <;> simp_all
  simp [indentAwareWrite, he, hi, hb, hs, RM.bnd_apply]

end Hbs.C12
