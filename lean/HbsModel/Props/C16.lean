import HbsModel.Registry
/-
  C16  All render entry points agree; rendering is deterministic and shareable.
  The eight entry points are written separately in the model, as in registry.rs; each reduces to
  `render_to_output` / `render_resolved_template_to_output` on the same registry value.  Determinism
  and independence of call order are the functional purity of the model: a render takes the
  registry by value and returns none.  (OS thread schedules are outside a pure model: see DESIGN.)
-/
namespace Hbs.C16
open Hbs


theorem render_eq_with_context (r : Registry) (fs : FS) (name : Str) (data : Json) :
    r.render fs name data = r.renderWithContext fs name data := by
  unfold Registry.render Registry.renderWithContext; rfl

theorem render_to_write_eq (r : Registry) (fs : FS) (name : Str) (data : Json) (k : Option Nat) :
    r.renderToWrite fs name data k = r.renderWithContextToWrite fs name data k := by
  unfold Registry.renderToWrite Registry.renderWithContextToWrite; rfl

/-- the `String`-returning entry point and the writer entry point with a writer that never fails -/
theorem render_eq_render_to_write (r : Registry) (fs : FS) (name : Str) (data : Json) :
    r.render fs name data = r.renderToWrite fs name data none := by
  unfold Registry.render Registry.renderToWrite; rfl

theorem render_template_variants (r : Registry) (fs : FS) (src : Str) (data : Json) :
    r.renderTemplate fs src data = r.renderTemplateWithContext fs src data ∧
    r.renderTemplate fs src data = r.renderTemplateToWrite fs src data none ∧
    r.renderTemplate fs src data = r.renderTemplateWithContextToWrite fs src data none := by
  refine ⟨?_, ?_, ?_⟩
  · unfold Registry.renderTemplate Registry.renderTemplateToWrite
      Registry.renderTemplateWithContextToWrite Registry.renderTemplateWithContext
    cases r.compileForRenderTemplate src <;> rfl
  · unfold Registry.renderTemplate; rfl
  · unfold Registry.renderTemplate Registry.renderTemplateToWrite; rfl

/-- `render_template` compiles with the registry's prevent_indent and no name, then takes the same
    path as a registered template -/
theorem render_template_is_compile_then_resolved (r : Registry) (fs : FS) (src : Str) (data : Json) (t : Tmpl)
    (h : r.compileForRenderTemplate src = .ok t) :
    r.renderTemplate fs src data = r.renderResolved fs none t data {} := by
  unfold Registry.renderTemplate Registry.renderTemplateToWrite Registry.renderTemplateWithContextToWrite
  rw [h]

theorem compile_for_render_template (r : Registry) (src : Str) :
    r.compileForRenderTemplate src = compile2 src { preventIndent := r.preventIndent } := by
  unfold Registry.compileForRenderTemplate; rfl

theorem render_registered_is_resolved (r : Registry) (fs : FS) (name : Str) (data : Json) (t : Tmpl)
    (hd : r.dev = false) (h : assocGet r.templates name = some t) :
    r.render fs name data = r.renderResolved fs (some name) t data {} := by
  unfold Registry.render Registry.renderToOutput Registry.getOrLoad Registry.getOrLoadOptional
  simp only [hd, h, Option.map]

/-- without dev mode the resolved render does not depend on the name it was looked up under: only
    on the template value (so a precompiled Template registered under a name renders like the same
    text registered as a string, up to the template's own name in errors) -/
theorem resolved_ignores_lookup_name (r : Registry) (fs : FS) (n1 n2 : Option Str) (t : Tmpl) (data : Json) (o : Out)
    (hd : r.dev = false) : r.renderResolved fs n1 t data o = r.renderResolved fs n2 t data o := by
  unfold Registry.renderResolved
  simp only [hd]; rfl

/-- determinism: a render is a function of (registry, files, name, data); repeating it, or doing
    other renders in between, cannot change it -/
theorem deterministic (r : Registry) (fs : FS) (name : Str) (data : Json) (other : Str) (d2 : Json) :
    let first := r.render fs name data
    let _interleaved := r.render fs other d2
    r.render fs name data = first := rfl

/-- the bytes handed to a writer are the concatenation of the write calls -/
theorem written_is_concat (o : Out) : o.text = o.segs.reverse.flatten := rfl

end Hbs.C16
