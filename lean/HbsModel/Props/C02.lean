import HbsModel.Registry
import HbsModel.Lemmas.Write
import HbsModel.Props.C08
import HbsModel.Props.C01
import HbsModel.Lemmas.CompileValue
import HbsModel.Lemmas.PlainTags
import HbsModel.Lemmas.CompileName
import HbsModel.Lemmas.CompileHtmlName
import HbsModel.Lemmas.NameTags
import HbsModel.Lemmas.CompilePath

import HbsModel.Lemmas.RenderPlain
/-
  C02  Data is escaped exactly once in {{ }} and never in {{{ }}} / {{& }}.
  (a) theorems over the *regenerated* table of `escape_html`, for every string;
  (b) theorems over the render model for an arbitrary escape function.
-/
namespace Hbs.C02
open Hbs

/-- the characters that must never appear in escaped output -/
def dangerousChars : List Char := ['<', '>', '"', '\'', '`', '=']
def dangerous (c : Char) : Bool := dangerousChars.contains c

/-- the seven fixed entities -/
def entities : List Str := [str "&lt;", str "&gt;", str "&quot;", str "&amp;", str "&#x27;", str "&#x60;", str "&#x3D;"]

/-- a block of escaped output: an entity, or one harmless character -/
def goodBlock (b : Str) : Prop :=
  b ∈ entities ∨ ∃ c, b = [c] ∧ c ≠ '&' ∧ dangerous c = false

/-- the keys of the regenerated table -/
def keys : List Char := Generated.escTable.map (·.1)

theorem dangerous_are_keys : ∀ c ∈ dangerousChars, c ∈ keys := by decide
theorem amp_is_key : '&' ∈ keys := by decide
theorem images_are_entities : ∀ p ∈ Generated.escTable, p.2 ∈ entities := by decide

theorem lookup_of_not_key (tbl : List (Char × Str)) (c : Char) (h : c ∉ tbl.map (·.1)) :
    escLookup tbl c = [c] := by
  induction tbl with
  | nil => rfl
  | cons p t ih =>
    obtain ⟨k, v⟩ := p
    simp only [List.map_cons, List.mem_cons, not_or] at h
    simp only [escLookup]
    rw [if_neg (by intro e; exact h.1 ((beq_iff_eq.mp e).symm))]
    exact ih h.2

theorem lookup_of_key (tbl : List (Char × Str)) (c : Char) (h : c ∈ tbl.map (·.1)) :
    ∃ p ∈ tbl, p.1 = c ∧ escLookup tbl c = p.2 := by
  induction tbl with
  | nil => simp at h
  | cons p t ih =>
    obtain ⟨k, v⟩ := p
    simp only [escLookup]
    by_cases hk : k = c
    · subst hk; exact ⟨(k, v), by simp, rfl, by simp⟩
    · have : c ∈ t.map (·.1) := by
        simp only [List.map_cons, List.mem_cons] at h
        rcases h with h | h
        · exact absurd h.symm hk
        · exact h
      obtain ⟨q, hq, h1, h2⟩ := ih this
      refine ⟨q, by simp [hq], h1, ?_⟩
      rw [if_neg (by intro e; exact hk (beq_iff_eq.mp e))]; exact h2

theorem lookup_good (c : Char) : goodBlock (escLookup Generated.escTable c) := by
  by_cases hk : c ∈ keys
  · obtain ⟨p, hp, _, h2⟩ := lookup_of_key Generated.escTable c hk
    left; rw [h2]; exact images_are_entities p hp
  · right
    refine ⟨c, lookup_of_not_key _ c hk, ?_, ?_⟩
    · intro h; subst h; exact hk amp_is_key
    · cases hd : dangerous c with
      | false => rfl
      | true =>
        exfalso; apply hk; apply dangerous_are_keys
        simpa [dangerous] using hd

/-- escaped output is a concatenation of good blocks, one per input character, in order -/
theorem esc_blocks (s : Str) :
    escapeHtml s = (s.map (escLookup Generated.escTable)).flatten ∧
    ∀ b ∈ s.map (escLookup Generated.escTable), goodBlock b := by
  constructor
  · simp [escapeHtml, escapeWith, List.flatMap]
  · intro b hb
    obtain ⟨c, _, rfl⟩ := List.mem_map.mp hb
    exact lookup_good c

theorem entity_chars_clean : ∀ e ∈ entities, ∀ c ∈ e, dangerous c = false := by decide

/-- `&` occurs in an entity only as its first character -/
theorem entity_amp_only_first : ∀ e ∈ entities, e.head? = some '&' ∧ ∀ c ∈ e.tail, c ≠ '&' := by decide

/-- (a1) no `< > " ' \` =` in the image, for every string -/
theorem esc_image_clean (s : Str) : ∀ c ∈ escapeHtml s, dangerous c = false := by
  intro c hc
  rw [(esc_blocks s).1] at hc
  obtain ⟨b, hb, hcb⟩ := List.mem_flatten.mp hc
  rcases (esc_blocks s).2 b hb with he | ⟨d, rfl, _, hd⟩
  · exact entity_chars_clean b he c hcb
  · simp at hcb; subst hcb; exact hd

/-! injectivity: an explicit inverse -/

/-- undo one block at the head of the input -/
def unescapeStep (tbl : List (Char × Str)) (s : Str) : Option (Char × Str) :=
  match tbl with
  | [] => none
  | (k, v) :: t =>
    match stripPrefix? v s with
    | some rest => some (k, rest)
    | none => unescapeStep t s

def unescapeWith (tbl : List (Char × Str)) : Nat → Str → Str
  | 0, _ => []
  | _ + 1, [] => []
  | fuel + 1, c :: cs =>
    match unescapeStep tbl (c :: cs) with
    | some (k, rest) => k :: unescapeWith tbl fuel rest
    | none => c :: unescapeWith tbl fuel cs

def unescape (s : Str) : Str := unescapeWith Generated.escTable (s.length + 1) s

/-- table facts used by the inverse: no image is a proper prefix competitor of another, checked on
    the regenerated table by evaluation with an arbitrary continuation -/
theorem step_on_image : ∀ p ∈ Generated.escTable, ∀ rest : Str,
    unescapeStep Generated.escTable (p.2 ++ rest) = some (p.1, rest) := by
  intro p hp rest
  have hall : Generated.escTable.all
      (fun p => unescapeStep Generated.escTable (p.2 ++ rest) == some (p.1, rest)) = true := by
    simp [Generated.escTable, List.all, unescapeStep, stripPrefix?]
  have := List.all_eq_true.mp hall p hp
  simpa using this

theorem images_start_with_amp : ∀ p ∈ Generated.escTable, p.2.head? = some '&' := by decide

theorem step_none_of_not_amp (tbl : List (Char × Str)) (h : ∀ p ∈ tbl, p.2.head? = some '&')
    (c : Char) (rest : Str) (hc : c ≠ '&') : unescapeStep tbl (c :: rest) = none := by
  induction tbl with
  | nil => rfl
  | cons p t ih =>
    obtain ⟨k, v⟩ := p
    have hv := h (k, v) (by simp)
    simp only [unescapeStep]
    cases v with
    | nil => simp at hv
    | cons a as =>
      simp only [List.head?_cons, Option.some.injEq] at hv
      subst hv
      have : stripPrefix? ('&' :: as) (c :: rest) = none := by
        simp only [stripPrefix?]
        rw [if_neg]
        intro e; exact hc ((beq_iff_eq.mp e).symm)
      rw [this]
      exact ih (fun q hq => h q (by simp [hq]))

theorem step_lookup (c : Char) (rest : Str) :
    (unescapeStep Generated.escTable (escLookup Generated.escTable c ++ rest) = some (c, rest) ∧
      escLookup Generated.escTable c ≠ [c]) ∨
    (unescapeStep Generated.escTable (c :: rest) = none ∧ escLookup Generated.escTable c = [c]) := by
  by_cases hk : c ∈ keys
  · left
    obtain ⟨p, hp, h1, h2⟩ := lookup_of_key Generated.escTable c hk
    rw [h2]
    refine ⟨by rw [step_on_image p hp rest, h1], ?_⟩
    intro h
    have hh := images_start_with_amp p hp
    rw [h] at hh
    simp at hh
    subst hh
    have := images_are_entities p hp
    rw [h] at this
    revert this; decide
  · right
    refine ⟨step_none_of_not_amp _ images_start_with_amp c rest ?_, lookup_of_not_key _ c hk⟩
    intro h; subst h; exact hk amp_is_key

theorem unescapeWith_escape (s : Str) : ∀ fuel, fuel > (escapeHtml s).length →
    unescapeWith Generated.escTable fuel (escapeHtml s) = s := by
  induction s with
  | nil => intro fuel _; cases fuel <;> simp [escapeHtml, escapeWith, unescapeWith]
  | cons c cs ih =>
    intro fuel hf
    have hsplit : escapeHtml (c :: cs) = escLookup Generated.escTable c ++ escapeHtml cs := by
      simp [escapeHtml, escapeWith]
    rw [hsplit] at hf ⊢
    rcases step_lookup c (escapeHtml cs) with ⟨h1, h2⟩ | ⟨h1, h2⟩
    · -- an entity
      have hne : escLookup Generated.escTable c ≠ [] := by
        intro h; rw [h] at h1; simp at h1
        rcases lookup_good c with he | ⟨d, hd, _, _⟩
        · rw [h] at he; revert he; decide
        · rw [h] at hd; simp at hd
      obtain ⟨d, ds, hd⟩ := List.exists_cons_of_ne_nil hne
      cases fuel with
      | zero => simp at hf
      | succ fuel =>
        rw [hd] at hf h1 ⊢
        simp only [List.cons_append, unescapeWith]
        rw [show d :: (ds ++ escapeHtml cs) = (d :: ds) ++ escapeHtml cs by simp] at *
        rw [h1]
        simp only
        congr 1
        apply ih
        simp at hf; omega
    · rw [h2] at hf ⊢
      cases fuel with
      | zero => simp at hf
      | succ fuel =>
        simp only [List.singleton_append, unescapeWith, h1]
        congr 1
        apply ih
        simp at hf; omega

/-- (a3) the default escape function is injective: the original value can be recovered -/
theorem unescape_escape (s : Str) : unescape (escapeHtml s) = s :=
  unescapeWith_escape s _ (by simp)

theorem escape_injective (s t : Str) (h : escapeHtml s = escapeHtml t) : s = t := by
  rw [← unescape_escape s, ← unescape_escape t, h]

end Hbs.C02

/-! ### (b) the renderer applies the registry's escape function exactly once in `{{ }}` and never in
    `{{{ }}}` / `{{& }}`, raw text, subexpression results — for an ARBITRARY escape function
    (`reg.escape` is a field of the registry and is universally quantified below). -/
namespace Hbs.C02
open Hbs RM

/-- `{{path}}` on a present value hands `escape (text v)` – the escape function applied exactly once –
    to the writer. -/
theorem expr_path_escapes_once (reg : Registry) (root : Json) (fuel : Nat) (ht : HelperT) (p : Path)
    (rc : RC) (out : Out) (v : SJ)
    (hname : ht.name = .path p) (hno : ht.isNameOnly = true)
    (hl : assocGet rc.localHelpers p.raw = none) (hr : assocGet reg.helpers p.raw = none)
    (hmc : rc.modifiedCtx = none) (hde : rc.disableEscape = false)
    (hev : evaluate2 root p rc out = .ok v rc out) (hv : v.isMissing = false) :
    renderElem reg root (fuel + 4) (.expr ht) rc out
      = indentAwareWrite (reg.escape v.asJson.render) rc out := by
  simp [renderElem, renderExpression, hno, hname, expandAsName, expandParam, RM.bnd_apply, hl, hr, hmc,
    hev, PJ.isMissing, hv, PJ.json, doEscape, hde]

/-- `{{{path}}}` / `{{&path}}` hand `text v` itself to the writer (the escape function is not called),
    and escaping is on again afterwards. -/
theorem html_never_escapes (reg : Registry) (root : Json) (fuel : Nat) (ht : HelperT) (p : Path)
    (rc : RC) (out : Out) (v : SJ)
    (hname : ht.name = .path p) (hno : ht.isNameOnly = true)
    (hl : assocGet rc.localHelpers p.raw = none) (hr : assocGet reg.helpers p.raw = none)
    (hmc : rc.modifiedCtx = none)
    (hev : ∀ rc', rc'.blocks = rc.blocks → evaluate2 root p rc' out = .ok v rc' out) (hv : v.isMissing = false) :
    renderElem reg root (fuel + 4) (.html ht) rc out
      = RM.escOffReset (indentAwareWrite v.asJson.render) rc out := by
  simp [renderElem, renderExpression, hno, hname, expandAsName, expandParam, RM.bnd_apply, hl, hr, hmc,
    hev, PJ.isMissing, hv, PJ.json, doEscape, RM.escOffReset, RM.bracket_apply]

/-- after any successful `{{{ }}}` element the escape toggle is off again, whatever it wrote -/
theorem html_resets_toggle (reg : Registry) (root : Json) (fuel : Nat) (ht : HelperT)
    (rc rc' : RC) (out out' : Out)
    (h : renderElem reg root (fuel + 1) (.html ht) rc out = .ok () rc' out') :
    rc'.disableEscape = false := by
  simp only [renderElem, RM.escOffReset, RM.bracket_apply] at h
  split at h <;> simp_all
  obtain ⟨h1, _⟩ := h
  rw [← h1]

/-- template text is written verbatim, never escaped -/
theorem raw_text_unescaped (reg : Registry) (root : Json) (fuel : Nat) (s : Str) (rc : RC) (out : Out) :
    renderElem reg root (fuel + 1) (.raw s) rc out = indentAwareWrite s rc out := by
  simp [renderElem]

/-- value helpers (`lookup`, `eq`, … and every `handlebars_helper!` helper) used as `{{h …}}`: the
    default `call` escapes the rendered result exactly once. -/
theorem default_call_escapes_once (reg : Registry) (root : Json) (fuel : Nat) (d : HelperKind) (h : HelperI)
    (rc : RC) (out : Out) (r : SJ)
    (hin : d.hasInner = true) (hres : callInner reg d h = .ok r) (hm : r.isMissing = false)
    (hde : rc.disableEscape = false) :
    callHelper reg root (fuel + 1) d h rc out = indentAwareWrite (reg.escape r.asJson.render) rc out := by
  simp [callHelper, hin, hres, hm, RM.bnd_apply, doEscape, hde]

/-- a subexpression `(h …)` of a value helper delivers the typed result itself: nothing is escaped and
    nothing is written to the user's output. -/
theorem subexpr_unescaped (reg : Registry) (root : Json) (fuel : Nat) (d : HelperKind) (h : HelperI)
    (rc : RC) (out : Out) (r : SJ)
    (hin : d.hasInner = true) (hres : callInner reg d h = .ok r) :
    callHelperForValue reg root (fuel + 1) d h rc out = .ok ⟨none, r⟩ rc out := by
  simp [callHelperForValue, hin, hres]

/-- a subexpression of a writing helper (`if`, `each`, user helpers…) runs with escaping disabled,
    against a private output, and the toggle is put back. -/
theorem subexpr_call_disables_and_restores (reg : Registry) (root : Json) (fuel : Nat) (d : HelperKind)
    (h : HelperI) (rc rc1 : RC) (out o1 : Out)
    (hin : d.hasInner = false)
    (hcall : callHelper reg root fuel d h { rc with disableEscape := true } {} = .ok () rc1 o1) :
    callHelperForValue reg root (fuel + 1) d h rc out
      = .ok ⟨none, .derived (.str o1.text)⟩ { rc1 with disableEscape := rc.disableEscape } out := by
  simp [callHelperForValue, hin, RM.bnd_apply, RM.captured, hcall, RM.escOffSaved, RM.bracket_apply]

end Hbs.C02

/-! ### the escape toggle, for the whole renderer (instance of the frame theorem of C08) -/
namespace Hbs.C02
open Hbs RM

/-- **escaping that is on stays on**: whatever template element has rendered – `{{{ }}}` and `{{& }}`
    included, at any depth, inside any helper body or partial – if escaping was on before it, it is on
    after it.  So every `{{path}}` that is a sibling or a later relative of a triple-brace expression is
    escaped (exactly once, by `expr_path_escapes_once`). -/
theorem escaping_stays_on (reg : Registry) (root : Json) (fuel : Nat) (e : Elem) (rc rc' : RC) (out out' : Out)
    (h : renderElem reg root fuel e rc out = .ok () rc' out') (hon : rc.disableEscape = false) :
    rc'.disableEscape = false :=
  (C08.finished_construct_restores_frame reg root fuel e rc rc' out out' h).2.2.2.2 hon

/-- a whole render starts with escaping on (`RenderContext::new`) and ends with it on -/
theorem render_ends_with_escaping_on (reg : Registry) (root : Json) (fuel : Nat) (t : Tmpl) (rc' : RC) (out out' : Out)
    (name : Option Str) (h : renderTemplate reg root fuel t { rootTemplate := name } out = .ok () rc' out') :
    rc'.disableEscape = false :=
  (C08.template_restores_frame reg root fuel t _ rc' out out' h).esc rfl

end Hbs.C02

/-! ### from source text to bytes: `{{v}}` between two texts is the value, escaped exactly once -/
namespace Hbs.C02
open Hbs RM

/-- the compiled value expression of the path `v` – however its text `raw` is spelled – writes `escape (text of data.v)`
    in every state a plain template can be in -/
theorem path_value_writes_escaped (raw : Str) (reg : Registry) (root j : Json) (rc0 : RC)
    (hb : rc0.blocks = [{}]) (hi : rc0.indentString = none) (hmc : rc0.modifiedCtx = none) (hde : rc0.disableEscape = false)
    (hl : assocGet rc0.localHelpers raw = none) (hr : assocGet reg.helpers raw = none)
    (hsafe : Spec.indexSafe root [['v']] = true) (hj : Spec.descend root [['v']] = some j) :
    WritesText reg root rc0 (.expr (PlainText.valHTr raw)) (reg.escape j.render) := by
  intro fuel rc out hq hf
  have hev : evaluate2 root (.relative [.named ['v']] raw) rc out = .ok (.context j [['v']]) rc out := by
    have hblocks : rc.blocks = [{}] := by rw [hq.blocks, hb]
    have := C01.navigate_current_path_scope root {} [] ['v'] [] rc out (by simp [getInBlockParams, assocGet]) rfl (by simpa using hsafe)
    simp only [C01.names, List.map_cons, List.map_nil] at this
    simp only [evaluate2, RM.bind_def, RM.bnd_apply, RM.get_apply, hblocks, this, C01.blockValue, Spec.descend]
    simp only [Option.bind]
    have hj' : (Spec.step root ['v']).bind (fun v' => Spec.descend v' []) = some j := by simpa [Spec.descend] using hj
    simp [Spec.descend] at hj' ⊢
    rw [hj']
  have h : renderElem reg root (fuel + 6) (.expr (PlainText.valHTr raw)) rc out = _ :=
    expr_path_escapes_once reg root (fuel + 2) (PlainText.valHTr raw) (.relative [.named ['v']] raw) rc out (.context j [['v']])
      rfl rfl (by rw [hq]; exact hl) hr (by rw [hq]; exact hmc) (by rw [hq]; exact hde) hev rfl
  rw [h]
  exact indentAwareWrite_quiet rc0 hi _ rc out hq hf

theorem value_writes_escaped (reg : Registry) (root j : Json) (rc0 : RC)
    (hb : rc0.blocks = [{}]) (hi : rc0.indentString = none) (hmc : rc0.modifiedCtx = none) (hde : rc0.disableEscape = false)
    (hl : assocGet rc0.localHelpers ['v'] = none) (hr : assocGet reg.helpers ['v'] = none)
    (hsafe : Spec.indexSafe root [['v']] = true) (hj : Spec.descend root [['v']] = some j) :
    WritesText reg root rc0 (.expr PlainText.valHT) (reg.escape j.render) :=
  path_value_writes_escaped ['v'] reg root j rc0 hb hi hmc hde hl hr hsafe hj

/-- `{{v}}` -/
abbrev valueTag : Str := PlainText.valSrc

/-- **render(L ++ {{v}} ++ R) = L ++ escape(text of data.v) ++ R** – from the source string to the bytes,
    for EVERY text `L` that may stand before a tag, EVERY text `R` without `{{`, every data value and every
    escape function: the value is escaped exactly once, the text around it (whitespace next to the tag
    included: a value expression never triggers the standalone-line rule) is reproduced verbatim.
    Through the grammar regenerated from src/grammar.pest (the tag's pairs are decided by the kernel with
    the known-prefix evaluator), the loop of compile2 and the renderer. -/
theorem value_between_texts_escaped_once (r : Registry) (fs : FS) (L R : Str) (data j : Json) (hdev : r.dev = false)
    (hL : L = [] ∨ PlainText.TextBeforeTag L) (hR : PlainText.noOpen R)
    (hnohelper : assocGet r.helpers ['v'] = none)
    (hsafe : Spec.indexSafe data [['v']] = true) (hj : Spec.descend data [['v']] = some j) :
    r.renderTemplate fs (L ++ valueTag ++ R) data = .ok (L ++ r.escape j.render ++ R) := by
  unfold Registry.renderTemplate Registry.renderTemplateToWrite Registry.renderTemplateWithContextToWrite
    Registry.compileForRenderTemplate
  obtain ⟨m, hcomp⟩ := PlainText.compile_text_value_text L _ _ { preventIndent := r.preventIndent } hL (PlainText.textAfterTag_split R hR)
  rw [← PlainText.split_ws R] at hcomp
  rw [hcomp]
  simp only [Registry.renderResolved, hdev, Bool.not_false, ↓reduceIte]
  let ets : List (Elem × Str) := (if L = [] then [] else [(.raw L, L)]) ++ [(.expr PlainText.valHT, r.escape j.render)]
    ++ (if R = [] then [] else [(.raw R, R)])
  have hel : (PlainText.leftT L L).elements ++ [Elem.expr PlainText.valHT] ++ (if R = [] then [] else [Elem.raw R]) = ets.map (·.1) := by
    simp only [ets]
    by_cases hLe : L = [] <;> by_cases hRe : R = [] <;> simp [hLe, hRe, PlainText.leftT, Tmpl.empty, Tmpl.elements]
  have htxt : (ets.map (·.2)).flatten = L ++ r.escape j.render ++ R := by
    simp only [ets]
    by_cases hLe : L = [] <;> by_cases hRe : R = [] <;> simp [hLe, hRe]
  rw [hel]
  have hw : ∀ p ∈ ets, WritesText r data { ({ rootTemplate := none } : RC) with currentTemplate := none } p.1 p.2 := by
    intro p hp
    simp only [ets, List.mem_append, List.mem_singleton] at hp
    rcases hp with (hp | rfl) | hp
    · split at hp
      · simp at hp
      · simp at hp; subst hp; exact writes_raw r data _ rfl L
    · exact value_writes_escaped r data j _ rfl rfl rfl rfl rfl hnohelper hsafe hj
    · split at hp
      · simp at hp
      · simp at hp; subst hp; exact writes_raw r data _ rfl R
  have hlen : ets.length + 12 ≤ renderFuel := by
    have h1 : (if L = [] then [] else [((Elem.raw L, L) : Elem × Str)]).length ≤ 1 := by split <;> simp
    have h2 : (if R = [] then [] else [((Elem.raw R, R) : Elem × Str)]).length ≤ 1 := by split <;> simp
    simp only [ets, List.length_append, List.length_singleton]
    have : renderFuel = 4000 := rfl
    omega
  have := render_writes_template r data none ets m { rootTemplate := none } hlen hw
  simp only [Tmpl.name] at this ⊢
  rw [this, htxt]

/-- non-vacuity: data `{"v": "<b>"}` and surrounding text with lone braces and whitespace next to the tag -/
example : Spec.indexSafe (.obj (JObj.ofList [(['v'], Json.str ['<', 'b', '>'])])) [['v']] = true
    ∧ Spec.descend (.obj (JObj.ofList [(['v'], Json.str ['<', 'b', '>'])])) [['v']] = some (Json.str ['<', 'b', '>'])
    ∧ PlainText.TextBeforeTag ['a', '{', ' ', '\n', ' '] := by
  refine ⟨by rfl, by rfl, ⟨by simp [PlainText.noOpen], by simp, by simp⟩⟩

/-! ### any number of value tags – `{{v}}`, `{{{v}}}`, `{{&v}}` in any mix – between texts -/

/-- the compiled `{{{v}}}` / `{{&v}}` writes the text of data.v as it is, in every state a plain template can be in,
    and leaves escaping on -/
theorem html_value_writes_raw (reg : Registry) (root j : Json) (rc0 : RC)
    (hb : rc0.blocks = [{}]) (hi : rc0.indentString = none) (hmc : rc0.modifiedCtx = none) (hde : rc0.disableEscape = false)
    (hl : assocGet rc0.localHelpers ['v'] = none) (hr : assocGet reg.helpers ['v'] = none)
    (hsafe : Spec.indexSafe root [['v']] = true) (hj : Spec.descend root [['v']] = some j) :
    WritesText reg root rc0 (.html PlainText.valHT) j.render := by
  intro fuel rc out hq hf
  have hev : ∀ rc', rc'.blocks = rc.blocks → evaluate2 root (.relative [.named ['v']] ['v']) rc' out = .ok (.context j [['v']]) rc' out := by
    intro rc' hbl
    have hblocks : rc'.blocks = [{}] := by rw [hbl, hq.blocks, hb]
    have := C01.navigate_current_path_scope root {} [] ['v'] [] rc' out (by simp [getInBlockParams, assocGet]) rfl (by simpa using hsafe)
    simp only [C01.names, List.map_cons, List.map_nil] at this
    simp only [evaluate2, RM.bind_def, RM.bnd_apply, RM.get_apply, hblocks, this, C01.blockValue, Spec.descend]
    simp only [Option.bind]
    have hj' : (Spec.step root ['v']).bind (fun v' => Spec.descend v' []) = some j := by simpa [Spec.descend] using hj
    simp [Spec.descend] at hj' ⊢
    rw [hj']
  have h : renderElem reg root (fuel + 6) (.html PlainText.valHT) rc out = _ :=
    html_never_escapes reg root (fuel + 2) PlainText.valHT (.relative [.named ['v']] ['v']) rc out (.context j [['v']])
      rfl rfl (by rw [hq]; exact hl) hr (by rw [hq]; exact hmc) hev rfl
  rw [h]
  -- escaping off … the write … escaping on again
  have hq' : Quiet { rc0 with disableEscape := true } { rc with disableEscape := true } := by
    unfold Quiet at *; rw [hq]
  obtain ⟨rc1, out1, hw, hq1, hf1, ht1⟩ := indentAwareWrite_quiet { rc0 with disableEscape := true } hi j.render
    { rc with disableEscape := true } out hq' hf
  refine ⟨{ rc1 with disableEscape := false }, out1, ?_, ?_, hf1, ht1⟩
  · simp only [RM.escOffReset, RM.bracket_apply]
    have : SJ.asJson (.context j [['v']]) = j := rfl
    rw [this, hw]
  · unfold Quiet at *
    rw [hq1]
    simp [hde]

/-- the three spellings of a value tag -/
inductive Spelling where
  | dbl        -- {{v}}
  | triple     -- {{{v}}}
  | amp        -- {{&v}}
  | thisDot    -- {{this.v}}
  | thisSlash  -- {{this/v}}
  | dotSlash   -- {{./v}}
  | spaced     -- {{ v }}
deriving DecidableEq

def Spelling.ctag : Spelling → PlainText.CTag
  | .dbl => PlainText.tagValue
  | .triple => PlainText.tagTriple
  | .amp => PlainText.tagAmp
  | .thisDot => PlainText.tagThisDot
  | .thisSlash => PlainText.tagThisSlash
  | .dotSlash => PlainText.tagDotSlash
  | .spaced => PlainText.tagSpaced

/-- the path text of the spelling (what `expand_as_name` looks up among the helpers first) -/
def Spelling.raw : Spelling → Str
  | .thisDot => ['t', 'h', 'i', 's', '.', 'v']
  | .thisSlash => ['t', 'h', 'i', 's', '/', 'v']
  | .dotSlash => ['.', '/', 'v']
  | _ => ['v']

/-- what the tag writes for the value `j` under the escape function `esc` -/
def Spelling.output (esc : Str → Str) (j : Json) : Spelling → Str
  | .triple => j.render
  | .amp => j.render
  | _ => esc j.render

def ctags (more : List (Spelling × Str)) : List (PlainText.CTag × Str) := more.map (fun q => (q.1.ctag, q.2))

/-- `S0 T1 S1 T2 … Tk Sk` with every `Ti` one of `{{v}}`, `{{{v}}}`, `{{&v}}`, `{{this.v}}`, `{{this/v}}`, `{{./v}}`, `{{ v }}` -/
def textsAndTags (s0 : Str) (more : List (Spelling × Str)) : Str := PlainText.tailSrc s0 (PlainText.ptags (ctags more))
/-- every text but the last may stand in front of a tag (no `{{` inside, no `{` or `\` at its end); the last has no `{{` -/
def TextsOk (s0 : Str) (more : List (Spelling × Str)) : Prop := PlainText.TextsOk s0 (PlainText.ptags (ctags more))

example : textsAndTags ['a'] [(.dbl, [' ']), (.triple, ['b']), (.amp, [])]
    = ['a', '{', '{', 'v', '}', '}', ' ', '{', '{', '{', 'v', '}', '}', '}', 'b', '{', '{', '&', 'v', '}', '}'] := by decide

/-- the elements with the text each writes -/
def tailEts (esc : Str → Str) (j : Json) : Str → List (Spelling × Str) → List (Elem × Str)
  | s, [] => if s = [] then [] else [(.raw s, s)]
  | s, (sp, s') :: more => (if s = [] then [] else [(.raw s, s)]) ++ [(sp.ctag.el, sp.output esc j)] ++ tailEts esc j s' more

theorem tailEts_elems (esc : Str → Str) (j : Json) : ∀ (more : List (Spelling × Str)) (s : Str),
    (tailEts esc j s more).map (·.1) = PlainText.tailElems s (ctags more) := by
  intro more
  induction more with
  | nil => intro s; by_cases h : s = [] <;> simp [tailEts, ctags, PlainText.tailElems, h]
  | cons q more ih =>
    intro s
    obtain ⟨sp, s'⟩ := q
    have := ih s'
    simp only [ctags] at this ⊢
    by_cases h : s = [] <;> simp [tailEts, PlainText.tailElems, h, this]

theorem tailEts_text (esc : Str → Str) (j : Json) : ∀ (more : List (Spelling × Str)) (s : Str),
    ((tailEts esc j s more).map (·.2)).flatten = s ++ (more.map (fun q => q.1.output esc j ++ q.2)).flatten := by
  intro more
  induction more with
  | nil => intro s; by_cases h : s = [] <;> simp [tailEts, h]
  | cons q more ih => intro s; obtain ⟨sp, s'⟩ := q; by_cases h : s = [] <;> simp [tailEts, h, ih]

theorem tailEts_length (esc : Str → Str) (j : Json) : ∀ (more : List (Spelling × Str)) (s : Str),
    (tailEts esc j s more).length ≤ 2 * more.length + 1 := by
  intro more
  induction more with
  | nil => intro s; by_cases h : s = [] <;> simp [tailEts, h]
  | cons q more ih => intro s; obtain ⟨sp, s'⟩ := q; have := ih s'; by_cases h : s = [] <;> simp [tailEts, h] <;> omega

/-- **render(S0 T1 S1 … Tk Sk) = S0 ++ out(T1) ++ S1 ++ … ++ out(Tk) ++ Sk**  where `out({{v}}) = escape(text of data.v)`
    and `out({{{v}}}) = out({{&v}}) = text of data.v`:  for ANY NUMBER of value tags in ANY MIX of the three spellings,
    every admissible choice of the texts between them (whitespace-only texts between two tags included – pest's
    implicit skipping produces no pair for them and compile2 puts them back), every data value and every escape
    function.  Each `{{v}}` is escaped exactly once, no `{{{v}}}` / `{{&v}}` is ever escaped – also when it follows
    or precedes a `{{v}}` – and every character of template text comes out, in order.  From the source string through
    the regenerated grammar, compile2 and the renderer.  (The bound on the number of tags is the model's render fuel.) -/
theorem texts_and_tags_render (r : Registry) (fs : FS) (s0 : Str) (more : List (Spelling × Str)) (data j : Json) (hdev : r.dev = false)
    (hok : TextsOk s0 more) (hmany : 2 * more.length + 14 ≤ renderFuel)
    (hnohelper : ∀ q ∈ more, assocGet r.helpers q.1.raw = none)
    (hsafe : Spec.indexSafe data [['v']] = true) (hj : Spec.descend data [['v']] = some j) :
    r.renderTemplate fs (textsAndTags s0 more) data
      = .ok (s0 ++ (more.map (fun q => q.1.output r.escape j ++ q.2)).flatten) := by
  unfold Registry.renderTemplate Registry.renderTemplateToWrite Registry.renderTemplateWithContextToWrite
    Registry.compileForRenderTemplate
  have hTs : ∀ q ∈ PlainText.ptags (ctags more), PlainText.TagAt q.1.src 150 q.1.toks := by
    intro q hq
    simp only [PlainText.ptags, ctags, List.map_map, List.mem_map] at hq
    obtain ⟨⟨sp, s⟩, _, rfl⟩ := hq
    cases sp
    · exact (PlainText.tagValue_at).weaken' (by decide)
    · exact (PlainText.tagTriple_at).weaken' (by decide)
    · exact (PlainText.tagAmp_at).weaken' (by decide)
    · exact PlainText.tagThisDot_at
    · exact PlainText.tagThisSlash_at
    · exact PlainText.tagDotSlash_at
    · exact PlainText.tagSpaced_at
  obtain ⟨m, hcomp⟩ := PlainText.compile_texts_tags 150 { preventIndent := r.preventIndent } s0 (ctags more) (Or.inl (by decide)) hTs hok
  unfold textsAndTags
  rw [hcomp]
  simp only [Registry.renderResolved, hdev, Bool.not_false, ↓reduceIte]
  rw [← tailEts_elems r.escape j more s0]
  have hgen : ∀ (more : List (Spelling × Str)) (s : Str), (∀ q ∈ more, assocGet r.helpers q.1.raw = none) → ∀ p ∈ tailEts r.escape j s more,
      WritesText r data { ({ rootTemplate := none } : RC) with currentTemplate := none } p.1 p.2 := by
    intro more
    induction more with
    | nil =>
      intro s _ p hp
      simp only [tailEts] at hp
      split at hp
      · simp at hp
      · simp at hp; subst hp; exact writes_raw r data _ rfl s
    | cons q more ih =>
      intro s hno p hp
      obtain ⟨sp, s'⟩ := q
      have hsp : assocGet r.helpers sp.raw = none := hno (sp, s') (by simp)
      simp only [tailEts, List.mem_append, List.mem_singleton] at hp
      rcases hp with (hp | rfl) | hp
      · split at hp
        · simp at hp
        · simp at hp; subst hp; exact writes_raw r data _ rfl s
      · cases sp
        · exact value_writes_escaped r data j _ rfl rfl rfl rfl rfl hsp hsafe hj
        · exact html_value_writes_raw r data j _ rfl rfl rfl rfl rfl hsp hsafe hj
        · exact html_value_writes_raw r data j _ rfl rfl rfl rfl rfl hsp hsafe hj
        · exact path_value_writes_escaped _ r data j _ rfl rfl rfl rfl rfl hsp hsafe hj
        · exact path_value_writes_escaped _ r data j _ rfl rfl rfl rfl rfl hsp hsafe hj
        · exact path_value_writes_escaped _ r data j _ rfl rfl rfl rfl rfl hsp hsafe hj
        · exact path_value_writes_escaped _ r data j _ rfl rfl rfl rfl rfl hsp hsafe hj
      · exact ih s' (fun q hq => hno q (by simp [hq])) p hp
  have hlen : (tailEts r.escape j s0 more).length + 12 ≤ renderFuel := by
    have := tailEts_length r.escape j more s0; omega
  have := render_writes_template r data none (tailEts r.escape j s0 more) m { rootTemplate := none } hlen (hgen more s0 hnohelper)
  simp only [Tmpl.name] at this ⊢
  rw [this, tailEts_text]

/-- non-vacuity: `a {{v}}  {{{v}}}b{` – a whitespace-only text between two tags, lone braces -/
example : TextsOk ['a', ' '] [(.dbl, [' ', ' ']), (.triple, ['b', '{'])] := by
  refine ⟨Or.inr ⟨by simp [PlainText.noOpen], by simp, by simp⟩, Or.inr ⟨by simp [PlainText.noOpen], by simp, by simp⟩, ?_⟩
  show PlainText.noOpen ['b', '{']
  simp [PlainText.noOpen]

/-! ### every identifier: `{{name}}` between two texts -/

/-- the compiled value expression of the one-segment path `nm` writes `escape (text of data.nm)` -/
theorem named_value_writes_escaped (nm : Str) (reg : Registry) (root j : Json) (rc0 : RC)
    (hb : rc0.blocks = [{}]) (hi : rc0.indentString = none) (hmc : rc0.modifiedCtx = none) (hde : rc0.disableEscape = false)
    (hl : assocGet rc0.localHelpers nm = none) (hr : assocGet reg.helpers nm = none)
    (hsafe : Spec.indexSafe root [nm] = true) (hj : Spec.descend root [nm] = some j) :
    WritesText reg root rc0 (.expr (PlainText.nameHT nm)) (reg.escape j.render) := by
  intro fuel rc out hq hf
  have hev : evaluate2 root (.relative [.named nm] nm) rc out = .ok (.context j [nm]) rc out := by
    have hblocks : rc.blocks = [{}] := by rw [hq.blocks, hb]
    have := C01.navigate_current_path_scope root {} [] nm [] rc out (by simp [getInBlockParams, assocGet]) rfl (by simpa using hsafe)
    simp only [C01.names, List.map_cons, List.map_nil] at this
    simp only [evaluate2, RM.bind_def, RM.bnd_apply, RM.get_apply, hblocks, this, C01.blockValue, Spec.descend]
    simp only [Option.bind]
    have hj' : (Spec.step root nm).bind (fun v' => Spec.descend v' []) = some j := by simpa [Spec.descend] using hj
    simp [Spec.descend] at hj' ⊢
    rw [hj']
  have h : renderElem reg root (fuel + 6) (.expr (PlainText.nameHT nm)) rc out = _ :=
    expr_path_escapes_once reg root (fuel + 2) (PlainText.nameHT nm) (.relative [.named nm] nm) rc out (.context j [nm])
      rfl rfl (by rw [hq]; exact hl) hr (by rw [hq]; exact hmc) (by rw [hq]; exact hde) hev rfl
  rw [h]
  exact indentAwareWrite_quiet rc0 hi _ rc out hq hf

/-- `{{` name `}}` -/
abbrev nameTag (nm : Str) : Str := PlainText.identSrc nm

/-- **render(L ++ {{name}} ++ R) = L ++ escape(text of data.name) ++ R for EVERY identifier** – any non-empty run
    of the grammar's `symbol_char` class (ASCII letters and digits, `-`, `_`, `$`, `:`, every character from U+0080 up)
    that does not begin with `else` and is not `this`, of any length – between every text `L` that may stand before a
    tag and every text `R` without `{{`, for every data value and every escape function.  The tag's pairs are DERIVED
    from the regenerated grammar for all names at once (Lemmas/NameTag: the loops of `identifier` and `path_id` by
    induction over the name, `symbol_char` as a character class); compile2 and the renderer as for `{{v}}`. -/
theorem name_between_texts_escaped_once (r : Registry) (fs : FS) (nm L R : Str) (data j : Json) (hdev : r.dev = false)
    (hnm : PlainText.IdentName nm) (hthis : (nm == str "this") = false)
    (hL : L = [] ∨ PlainText.TextBeforeTag L) (hR : PlainText.noOpen R)
    (hnohelper : assocGet r.helpers nm = none)
    (hsafe : Spec.indexSafe data [nm] = true) (hj : Spec.descend data [nm] = some j) :
    r.renderTemplate fs (L ++ nameTag nm ++ R) data = .ok (L ++ r.escape j.render ++ R) := by
  unfold Registry.renderTemplate Registry.renderTemplateToWrite Registry.renderTemplateWithContextToWrite
    Registry.compileForRenderTemplate
  obtain ⟨m, hcomp⟩ := PlainText.compile_text_name_text_pos nm L _ _ { preventIndent := r.preventIndent } hnm hthis hL
    (PlainText.textAfterTag_split R hR)
  rw [← PlainText.split_ws R] at hcomp
  rw [hcomp]
  simp only [Registry.renderResolved, hdev, Bool.not_false, ↓reduceIte]
  let ets : List (Elem × Str) := (if L = [] then [] else [(.raw L, L)]) ++ [(.expr (PlainText.nameHT nm), r.escape j.render)]
    ++ (if R = [] then [] else [(.raw R, R)])
  have hel : (PlainText.leftT L L).elements ++ [Elem.expr (PlainText.nameHT nm)] ++ (if R = [] then [] else [Elem.raw R]) = ets.map (·.1) := by
    simp only [ets]
    by_cases hLe : L = [] <;> by_cases hRe : R = [] <;> simp [hLe, hRe, PlainText.leftT, Tmpl.empty, Tmpl.elements]
  have htxt : (ets.map (·.2)).flatten = L ++ r.escape j.render ++ R := by
    simp only [ets]
    by_cases hLe : L = [] <;> by_cases hRe : R = [] <;> simp [hLe, hRe]
  rw [hel]
  have hw : ∀ p ∈ ets, WritesText r data { ({ rootTemplate := none } : RC) with currentTemplate := none } p.1 p.2 := by
    intro p hp
    simp only [ets, List.mem_append, List.mem_singleton] at hp
    rcases hp with (hp | rfl) | hp
    · split at hp
      · simp at hp
      · simp at hp; subst hp; exact writes_raw r data _ rfl L
    · exact named_value_writes_escaped nm r data j _ rfl rfl rfl rfl rfl hnohelper hsafe hj
    · split at hp
      · simp at hp
      · simp at hp; subst hp; exact writes_raw r data _ rfl R
  have hlen : ets.length + 12 ≤ renderFuel := by
    have h1 : (if L = [] then [] else [((Elem.raw L, L) : Elem × Str)]).length ≤ 1 := by split <;> simp
    have h2 : (if R = [] then [] else [((Elem.raw R, R) : Elem × Str)]).length ≤ 1 := by split <;> simp
    simp only [ets, List.length_append, List.length_singleton]
    have : renderFuel = 4000 := rfl
    omega
  have := render_writes_template r data none ets ((PlainText.leftT L L).mapping ++ [Pest.lineCol (L ++ PlainText.identSrc nm ++ R) L.length] ++ m) { rootTemplate := none } hlen hw
  simp only [Tmpl.name] at this ⊢
  rw [this, htxt]

/-- non-vacuity: the name `größe-1:x` (with a non-ASCII letter), data `{"größe-1:x": "<b>"}` -/
example : PlainText.IdentName ['g', 'r', 'ö', 'ß', 'e', '-', '1', ':', 'x'] ∧ (['g', 'r', 'ö', 'ß', 'e', '-', '1', ':', 'x'] == str "this") = false := by
  refine ⟨⟨by simp, by decide, by decide⟩, by decide⟩

/-- the boundary of the class is the grammar's: `elsewhere` is NOT a name (pest reads `{{else` as an inverse tag) and
    a name containing `.` or a space is not one either -/
example : ¬ PlainText.IdentName ['e', 'l', 's', 'e', 'w', 'h', 'e', 'r', 'e'] ∧ ¬ PlainText.IdentName ['a', '.', 'b'] := by
  refine ⟨fun h => absurd h.notElse (by decide), fun h => absurd (h.sym '.' (by simp)) (by decide)⟩

/-- the compiled `{{{name}}}` / `{{&name}}` writes the text of data.name as it is and leaves escaping on -/
theorem named_html_writes_raw (nm : Str) (reg : Registry) (root j : Json) (rc0 : RC)
    (hb : rc0.blocks = [{}]) (hi : rc0.indentString = none) (hmc : rc0.modifiedCtx = none) (hde : rc0.disableEscape = false)
    (hl : assocGet rc0.localHelpers nm = none) (hr : assocGet reg.helpers nm = none)
    (hsafe : Spec.indexSafe root [nm] = true) (hj : Spec.descend root [nm] = some j) :
    WritesText reg root rc0 (.html (PlainText.nameHT nm)) j.render := by
  intro fuel rc out hq hf
  have hev : ∀ rc', rc'.blocks = rc.blocks → evaluate2 root (.relative [.named nm] nm) rc' out = .ok (.context j [nm]) rc' out := by
    intro rc' hbl
    have hblocks : rc'.blocks = [{}] := by rw [hbl, hq.blocks, hb]
    have := C01.navigate_current_path_scope root {} [] nm [] rc' out (by simp [getInBlockParams, assocGet]) rfl (by simpa using hsafe)
    simp only [C01.names, List.map_cons, List.map_nil] at this
    simp only [evaluate2, RM.bind_def, RM.bnd_apply, RM.get_apply, hblocks, this, C01.blockValue, Spec.descend]
    simp only [Option.bind]
    have hj' : (Spec.step root nm).bind (fun v' => Spec.descend v' []) = some j := by simpa [Spec.descend] using hj
    simp [Spec.descend] at hj' ⊢
    rw [hj']
  have h : renderElem reg root (fuel + 6) (.html (PlainText.nameHT nm)) rc out = _ :=
    html_never_escapes reg root (fuel + 2) (PlainText.nameHT nm) (.relative [.named nm] nm) rc out (.context j [nm])
      rfl rfl (by rw [hq]; exact hl) hr (by rw [hq]; exact hmc) hev rfl
  rw [h]
  have hq' : Quiet { rc0 with disableEscape := true } { rc with disableEscape := true } := by
    unfold Quiet at *; rw [hq]
  obtain ⟨rc1, out1, hw, hq1, hf1, ht1⟩ := indentAwareWrite_quiet { rc0 with disableEscape := true } hi j.render
    { rc with disableEscape := true } out hq' hf
  refine ⟨{ rc1 with disableEscape := false }, out1, ?_, ?_, hf1, ht1⟩
  · simp only [RM.escOffReset, RM.bracket_apply]
    have : SJ.asJson (.context j [nm]) = j := rfl
    rw [this, hw]
  · unfold Quiet at *
    rw [hq1]
    simp [hde]

/-- the common part: a compiled template  text, `.html (name)`, text  renders as  L ++ text of data.name ++ R -/
theorem html_name_render (r : Registry) (fs : FS) (nm L R src : Str) (data j : Json) (m : List (Nat × Nat)) (hdev : r.dev = false)
    (hcomp : compile2 src { preventIndent := r.preventIndent } = .ok (.mk none
      ((PlainText.leftT L L).elements ++ [.html (PlainText.nameHT nm)] ++ (if R = [] then [] else [.raw R])) m))
    (hnohelper : assocGet r.helpers nm = none)
    (hsafe : Spec.indexSafe data [nm] = true) (hj : Spec.descend data [nm] = some j) :
    r.renderTemplate fs src data = .ok (L ++ j.render ++ R) := by
  unfold Registry.renderTemplate Registry.renderTemplateToWrite Registry.renderTemplateWithContextToWrite
    Registry.compileForRenderTemplate
  rw [hcomp]
  simp only [Registry.renderResolved, hdev, Bool.not_false, ↓reduceIte]
  let ets : List (Elem × Str) := (if L = [] then [] else [(.raw L, L)]) ++ [(.html (PlainText.nameHT nm), j.render)]
    ++ (if R = [] then [] else [(.raw R, R)])
  have hel : (PlainText.leftT L L).elements ++ [Elem.html (PlainText.nameHT nm)] ++ (if R = [] then [] else [Elem.raw R]) = ets.map (·.1) := by
    simp only [ets]
    by_cases hLe : L = [] <;> by_cases hRe : R = [] <;> simp [hLe, hRe, PlainText.leftT, Tmpl.empty, Tmpl.elements]
  have htxt : (ets.map (·.2)).flatten = L ++ j.render ++ R := by
    simp only [ets]
    by_cases hLe : L = [] <;> by_cases hRe : R = [] <;> simp [hLe, hRe]
  rw [hel]
  have hw : ∀ p ∈ ets, WritesText r data { ({ rootTemplate := none } : RC) with currentTemplate := none } p.1 p.2 := by
    intro p hp
    simp only [ets, List.mem_append, List.mem_singleton] at hp
    rcases hp with (hp | rfl) | hp
    · split at hp
      · simp at hp
      · simp at hp; subst hp; exact writes_raw r data _ rfl L
    · exact named_html_writes_raw nm r data j _ rfl rfl rfl rfl rfl hnohelper hsafe hj
    · split at hp
      · simp at hp
      · simp at hp; subst hp; exact writes_raw r data _ rfl R
  have hlen : ets.length + 12 ≤ renderFuel := by
    have h1 : (if L = [] then [] else [((Elem.raw L, L) : Elem × Str)]).length ≤ 1 := by split <;> simp
    have h2 : (if R = [] then [] else [((Elem.raw R, R) : Elem × Str)]).length ≤ 1 := by split <;> simp
    simp only [ets, List.length_append, List.length_singleton]
    have : renderFuel = 4000 := rfl
    omega
  have := render_writes_template r data none ets m { rootTemplate := none } hlen hw
  simp only [Tmpl.name] at this ⊢
  rw [this, htxt]

/-- **render(L ++ {{{name}}} ++ R) = L ++ text of data.name ++ R for EVERY identifier**: the value reaches the output as
    it is – the escape function is not called – whatever the name, the texts, the value and the escape function -/
theorem triple_name_between_texts_never_escaped (r : Registry) (fs : FS) (nm L R : Str) (data j : Json) (hdev : r.dev = false)
    (hnm : PlainText.IdentName nm) (hthis : (nm == str "this") = false)
    (hL : L = [] ∨ PlainText.TextBeforeTag L) (hR : PlainText.noOpen R)
    (hnohelper : assocGet r.helpers nm = none)
    (hsafe : Spec.indexSafe data [nm] = true) (hj : Spec.descend data [nm] = some j) :
    r.renderTemplate fs (L ++ PlainText.htmlSrc nm ++ R) data = .ok (L ++ j.render ++ R) := by
  obtain ⟨m, hcomp⟩ := PlainText.compile_text_htmlname_text_pos ['{'] ['}', '}', '}'] nm L _ _ { preventIndent := r.preventIndent } rfl
    (by simp) (nm.length + 110) (by omega) (by simpa [PlainText.hsrcG, PlainText.htmlSrc] using PlainText.html_name_tagAt nm hnm) hthis hL
    (PlainText.textAfterTag_split R hR)
  rw [← PlainText.split_ws R] at hcomp
  exact html_name_render r fs nm L R _ data j _ hdev (by simpa [PlainText.hsrcG, PlainText.htmlSrc] using hcomp) hnohelper hsafe hj

/-- **render(L ++ {{&name}} ++ R) = L ++ text of data.name ++ R for EVERY identifier** -/
theorem amp_name_between_texts_never_escaped (r : Registry) (fs : FS) (nm L R : Str) (data j : Json) (hdev : r.dev = false)
    (hnm : PlainText.IdentName nm) (hthis : (nm == str "this") = false)
    (hL : L = [] ∨ PlainText.TextBeforeTag L) (hR : PlainText.noOpen R)
    (hnohelper : assocGet r.helpers nm = none)
    (hsafe : Spec.indexSafe data [nm] = true) (hj : Spec.descend data [nm] = some j) :
    r.renderTemplate fs (L ++ PlainText.ampSrc nm ++ R) data = .ok (L ++ j.render ++ R) := by
  obtain ⟨m, hcomp⟩ := PlainText.compile_text_htmlname_text_pos ['&'] ['}', '}'] nm L _ _ { preventIndent := r.preventIndent } rfl
    (by simp) (nm.length + 110) (by omega) (by simpa [PlainText.hsrcG, PlainText.ampSrc] using PlainText.amp_name_tagAt nm hnm) hthis hL
    (PlainText.textAfterTag_split R hR)
  rw [← PlainText.split_ws R] at hcomp
  exact html_name_render r fs nm L R _ data j _ hdev (by simpa [PlainText.hsrcG, PlainText.ampSrc] using hcomp) hnohelper hsafe hj

/-! ### any number of value tags of ANY identifiers – each in any of the three forms – between texts -/

/-- the three forms of a value tag -/
inductive NForm where
  | dbl        -- {{name}}
  | triple     -- {{{name}}}
  | amp        -- {{&name}}
deriving DecidableEq

/-- a value tag: its form and its name -/
structure NTag where
  form : NForm
  nm : Str

/-- the tag as written -/
def NTag.text (t : NTag) : Str :=
  match t.form with
  | .dbl => ['{', '{'] ++ t.nm ++ ['}', '}']
  | .triple => ['{', '{', '{'] ++ t.nm ++ ['}', '}', '}']
  | .amp => ['{', '{', '&'] ++ t.nm ++ ['}', '}']

/-- what the tag writes for the value `j` under the escape function `esc` -/
def NTag.output (esc : Str → Str) (j : Json) (t : NTag) : Str :=
  match t.form with
  | .dbl => esc j.render
  | _ => j.render

/-- `S0 T1 S1 T2 … Tk Sk` -/
def namedSrc (s0 : Str) (more : List (NTag × Str)) : Str := s0 ++ (more.map (fun q => q.1.text ++ q.2)).flatten

def NTag.ctag (t : NTag) : PlainText.CTag :=
  if h : (t.nm == str "this") = false then
    match t.form with
    | .dbl => PlainText.identCTag [] ['}', '}'] t.nm false (by decide) h
    | .triple => PlainText.identCTag ['{'] ['}', '}', '}'] t.nm true (by decide) h
    | .amp => PlainText.identCTag ['&'] ['}', '}'] t.nm true (by decide) h
  else PlainText.tagValue

def nctags (more : List (NTag × Str)) : List (PlainText.CTag × Str) := more.map (fun q => (q.1.ctag, q.2))

theorem NTag.ctag_src (t : NTag) (h : (t.nm == str "this") = false) : t.ctag.tag.src = t.text := by
  obtain ⟨f, nm⟩ := t
  cases f <;> simp [NTag.ctag, h, NTag.text, PlainText.identCTag, PlainText.PTag.src]

theorem NTag.ctag_el (t : NTag) (h : (t.nm == str "this") = false) :
    t.ctag.el = (match t.form with | .dbl => .expr (PlainText.nameHT t.nm) | _ => .html (PlainText.nameHT t.nm)) := by
  obtain ⟨f, nm⟩ := t
  cases f <;> simp [NTag.ctag, h, PlainText.identCTag]

theorem NTag.ctag_at (t : NTag) (h : (t.nm == str "this") = false) (hn : PlainText.IdentName t.nm) :
    PlainText.TagAt t.ctag.tag.src (t.nm.length + 110) t.ctag.tag.toks := by
  obtain ⟨f, nm⟩ := t
  cases f
  · have := (PlainText.name_tagAt nm hn).weaken' (F' := nm.length + 110) (by omega)
    simpa [NTag.ctag, h, PlainText.identCTag, PlainText.PTag.src, PlainText.identSrc, PlainText.identToks_eq, Nat.add_comm, Nat.add_left_comm] using this
  · have := PlainText.html_name_tagAt nm hn
    simpa [NTag.ctag, h, PlainText.identCTag, PlainText.PTag.src, PlainText.htmlSrc, Nat.add_comm, Nat.add_left_comm] using this
  · have := PlainText.amp_name_tagAt nm hn
    simpa [NTag.ctag, h, PlainText.identCTag, PlainText.PTag.src, PlainText.ampSrc, Nat.add_comm, Nat.add_left_comm] using this

theorem namedSrc_eq : ∀ (more : List (NTag × Str)) (s0 : Str), (∀ q ∈ more, (q.1.nm == str "this") = false) →
    PlainText.tailSrc s0 (PlainText.ptags (nctags more)) = namedSrc s0 more := by
  intro more
  induction more with
  | nil => intro s0 _; simp [nctags, PlainText.tailSrc, namedSrc]
  | cons q more ih =>
    intro s0 h
    obtain ⟨t, s'⟩ := q
    have := ih s' (fun q hq => h q (by simp [hq]))
    simp only [nctags] at this
    simp [nctags, PlainText.tailSrc, namedSrc, this, NTag.ctag_src t (h (t, s') (by simp)), List.append_assoc]

/-- a tag's name is shorter than the source it stands in -/
theorem name_le_src : ∀ (more : List (NTag × Str)) (s0 : Str) (q : NTag × Str), q ∈ more → q.1.nm.length ≤ (namedSrc s0 more).length := by
  intro more
  induction more with
  | nil => intro s0 q hq; simp at hq
  | cons q0 more ih =>
    intro s0 q hq
    rcases List.mem_cons.mp hq with rfl | hq
    · obtain ⟨⟨f, nm⟩, s'⟩ := q
      cases f <;> simp [namedSrc, NTag.text] <;> omega
    · have := ih q0.2 q hq
      simp [namedSrc] at this ⊢
      omega

/-- the elements with the text each writes -/
def ntailEts (esc : Str → Str) (val : Str → Json) : Str → List (NTag × Str) → List (Elem × Str)
  | s, [] => if s = [] then [] else [(.raw s, s)]
  | s, (t, s') :: more => (if s = [] then [] else [(.raw s, s)]) ++ [(t.ctag.el, t.output esc (val t.nm))] ++ ntailEts esc val s' more

theorem ntailEts_elems (esc : Str → Str) (val : Str → Json) : ∀ (more : List (NTag × Str)) (s : Str),
    (ntailEts esc val s more).map (·.1) = PlainText.tailElems s (nctags more) := by
  intro more
  induction more with
  | nil => intro s; by_cases h : s = [] <;> simp [ntailEts, nctags, PlainText.tailElems, h]
  | cons q more ih =>
    intro s
    obtain ⟨sp, s'⟩ := q
    have := ih s'
    simp only [nctags] at this ⊢
    by_cases h : s = [] <;> simp [ntailEts, PlainText.tailElems, h, this]

theorem ntailEts_text (esc : Str → Str) (val : Str → Json) : ∀ (more : List (NTag × Str)) (s : Str),
    ((ntailEts esc val s more).map (·.2)).flatten = s ++ (more.map (fun q => q.1.output esc (val q.1.nm) ++ q.2)).flatten := by
  intro more
  induction more with
  | nil => intro s; by_cases h : s = [] <;> simp [ntailEts, h]
  | cons q more ih => intro s; obtain ⟨sp, s'⟩ := q; by_cases h : s = [] <;> simp [ntailEts, h, ih]

theorem ntailEts_length (esc : Str → Str) (val : Str → Json) : ∀ (more : List (NTag × Str)) (s : Str),
    (ntailEts esc val s more).length ≤ 2 * more.length + 1 := by
  intro more
  induction more with
  | nil => intro s; by_cases h : s = [] <;> simp [ntailEts, h]
  | cons q more ih => intro s; obtain ⟨sp, s'⟩ := q; have := ih s'; by_cases h : s = [] <;> simp [ntailEts, h] <;> omega

/-- a name the theorem covers: an identifier other than `this` that names no helper and a field of the data -/
structure NameOk (r : Registry) (data : Json) (val : Str → Json) (nm : Str) : Prop where
  ident : PlainText.IdentName nm
  notThis : (nm == str "this") = false
  noHelper : assocGet r.helpers nm = none
  safe : Spec.indexSafe data [nm] = true
  value : Spec.descend data [nm] = some (val nm)

/-- **render(S0 T1 S1 … Tk Sk) = S0 ++ out(T1) ++ S1 ++ … ++ out(Tk) ++ Sk for ANY NUMBER of value tags of ANY
    identifiers**, each written `{{name}}`, `{{{name}}}` or `{{&name}}`, where `out({{n}}) = escape(text of data.n)` and
    `out({{{n}}}) = out({{&n}}) = text of data.n`: every admissible choice of the texts (whitespace-only texts between two
    tags included), every name of the grammar's `symbol_char` class (not beginning with `else`, not `this`, not a
    registered helper), every data value under each name, every escape function.  Each `{{n}}` is escaped exactly once,
    no `{{{n}}}` / `{{&n}}` ever – also next to a `{{n}}` of the same or another name.  (The bound on the number of tags
    is the model's render fuel.) -/
theorem texts_and_named_tags_render (r : Registry) (fs : FS) (s0 : Str) (more : List (NTag × Str)) (data : Json) (val : Str → Json)
    (hdev : r.dev = false) (hnames : ∀ q ∈ more, NameOk r data val q.1.nm)
    (hok : PlainText.TextsOk s0 (PlainText.ptags (nctags more))) (hmany : 2 * more.length + 14 ≤ renderFuel) :
    r.renderTemplate fs (namedSrc s0 more) data
      = .ok (s0 ++ (more.map (fun q => q.1.output r.escape (val q.1.nm) ++ q.2)).flatten) := by
  unfold Registry.renderTemplate Registry.renderTemplateToWrite Registry.renderTemplateWithContextToWrite
    Registry.compileForRenderTemplate
  have hthis : ∀ q ∈ more, (q.1.nm == str "this") = false := fun q hq => (hnames q hq).notThis
  have hsrcEq := namedSrc_eq more s0 hthis
  have hTs : ∀ q ∈ PlainText.ptags (nctags more), PlainText.TagAt q.1.src (2 * (namedSrc s0 more).length + 150) q.1.toks := by
    intro q hq
    simp only [PlainText.ptags, nctags, List.map_map, List.mem_map] at hq
    obtain ⟨⟨t, s⟩, hmem, rfl⟩ := hq
    have hle := name_le_src more s0 (t, s) hmem
    exact (NTag.ctag_at t (hthis _ hmem) (hnames _ hmem).ident).weaken' (by have : t.nm.length ≤ (namedSrc s0 more).length := hle; omega)
  obtain ⟨m, hcomp⟩ := PlainText.compile_texts_tags (2 * (namedSrc s0 more).length + 150) { preventIndent := r.preventIndent } s0 (nctags more)
    (Or.inr (by rw [hsrcEq]; exact Nat.le_refl _)) hTs hok
  rw [← hsrcEq, hcomp]
  simp only [Registry.renderResolved, hdev, Bool.not_false, ↓reduceIte]
  rw [← ntailEts_elems r.escape val more s0]
  have hgen : ∀ (more : List (NTag × Str)) (s : Str), (∀ q ∈ more, NameOk r data val q.1.nm) → ∀ p ∈ ntailEts r.escape val s more,
      WritesText r data { ({ rootTemplate := none } : RC) with currentTemplate := none } p.1 p.2 := by
    intro more
    induction more with
    | nil =>
      intro s _ p hp
      simp only [ntailEts] at hp
      split at hp
      · simp at hp
      · simp at hp; subst hp; exact writes_raw r data _ rfl s
    | cons q more ih =>
      intro s hno p hp
      obtain ⟨t, s'⟩ := q
      have hq := hno (t, s') (by simp)
      simp only [ntailEts, List.mem_append, List.mem_singleton] at hp
      rcases hp with (hp | rfl) | hp
      · split at hp
        · simp at hp
        · simp at hp; subst hp; exact writes_raw r data _ rfl s
      · rw [NTag.ctag_el t hq.notThis]
        obtain ⟨f, nm⟩ := t
        cases f
        · exact named_value_writes_escaped nm r data _ _ rfl rfl rfl rfl rfl hq.noHelper hq.safe hq.value
        · exact named_html_writes_raw nm r data _ _ rfl rfl rfl rfl rfl hq.noHelper hq.safe hq.value
        · exact named_html_writes_raw nm r data _ _ rfl rfl rfl rfl rfl hq.noHelper hq.safe hq.value
      · exact ih s' (fun q hq => hno q (by simp [hq])) p hp
  have hlen : (ntailEts r.escape val s0 more).length + 12 ≤ renderFuel := by
    have := ntailEts_length r.escape val more s0; omega
  have := render_writes_template r data none (ntailEts r.escape val s0 more) m { rootTemplate := none } hlen (hgen more s0 hnames)
  simp only [Tmpl.name] at this ⊢
  rw [this, ntailEts_text]

/-- the source of the theorem is what it looks like: `a{{x}} {{{y-1}}}b` -/
example : namedSrc ['a'] [(⟨.dbl, ['x']⟩, [' ']), (⟨.triple, ['y', '-', '1']⟩, ['b'])]
    = ['a', '{', '{', 'x', '}', '}', ' ', '{', '{', '{', 'y', '-', '1', '}', '}', '}', 'b'] := by decide

/-! ### every dotted path: `{{n0.n1/n2…}}` between two texts -/

/-- the compiled value expression of a path of named segments writes `escape (text of the value the segments designate)` -/
theorem segs_value_writes_escaped (n0 : Str) (rest : List (Char × Str)) (reg : Registry) (root j : Json) (rc0 : RC)
    (hb : rc0.blocks = [{}]) (hi : rc0.indentString = none) (hmc : rc0.modifiedCtx = none) (hde : rc0.disableEscape = false)
    (hl : assocGet rc0.localHelpers (PlainText.pathText n0 rest) = none) (hr : assocGet reg.helpers (PlainText.pathText n0 rest) = none)
    (hsafe : Spec.indexSafe root (n0 :: rest.map (·.2)) = true) (hj : Spec.descend root (n0 :: rest.map (·.2)) = some j) :
    WritesText reg root rc0 (.expr (PlainText.pathHT n0 rest)) (reg.escape j.render) := by
  intro fuel rc out hq hf
  have hsegs : PlainText.pathSegs n0 rest = C01.names (n0 :: rest.map (·.2)) := by
    simp [PlainText.pathSegs, C01.names, List.map_map, Function.comp_def]
  have hev : evaluate2 root (.relative (PlainText.pathSegs n0 rest) (PlainText.pathText n0 rest)) rc out
      = .ok (.context j (n0 :: rest.map (·.2))) rc out := by
    have hblocks : rc.blocks = [{}] := by rw [hq.blocks, hb]
    have := C01.navigate_current_path_scope root {} [] n0 (rest.map (·.2)) rc out (by simp [getInBlockParams, assocGet]) rfl (by simpa using hsafe)
    simp only [evaluate2, RM.bind_def, RM.bnd_apply, RM.get_apply, hblocks, hsegs, this, C01.blockValue]
    have hj' : (Spec.descend root []).bind (fun v => Spec.descend v (n0 :: rest.map (·.2))) = some j := by simpa [Spec.descend] using hj
    simp only [List.nil_append] at hj' ⊢
    rw [hj']
  have h : renderElem reg root (fuel + 6) (.expr (PlainText.pathHT n0 rest)) rc out = _ :=
    expr_path_escapes_once reg root (fuel + 2) (PlainText.pathHT n0 rest) (.relative (PlainText.pathSegs n0 rest) (PlainText.pathText n0 rest)) rc out
      (.context j (n0 :: rest.map (·.2))) rfl rfl (by rw [hq]; exact hl) hr (by rw [hq]; exact hmc) (by rw [hq]; exact hde) hev rfl
  rw [h]
  exact indentAwareWrite_quiet rc0 hi _ rc out hq hf

/-- **render(L ++ {{n0.n1/n2…}} ++ R) = L ++ escape(text of data.n0.n1.n2…) ++ R for EVERY dotted path** – any number of
    segments, each any non-empty run of the grammar's `symbol_char` class (the first not beginning with `else`, none of them
    `this`), joined by `.` or `/` in any mix – between every text `L` that may stand before a tag and every text `R` without `{{`,
    for every data value and every escape function: the path designates the value reached by descending the data segment by
    segment (C01's rule for a plain context path, here from the source text), and that value is escaped exactly once.  The pairs
    of the tag are derived from the regenerated grammar for all paths at once (`Lemmas/PathTag.lean`: the loop
    `(path_sep ~ path_item)*` by induction over the segments), `parse_json_path_from_iter` by induction over the pairs
    (`Lemmas/CompilePath.lean`). -/
theorem dotted_path_between_texts_escaped_once (r : Registry) (fs : FS) (n0 : Str) (rest : List (Char × Str)) (L R : Str) (data j : Json)
    (hdev : r.dev = false) (hp : PlainText.PathName n0 rest) (hno : PlainText.NoThis n0 rest)
    (hL : L = [] ∨ PlainText.TextBeforeTag L) (hR : PlainText.noOpen R)
    (hnohelper : assocGet r.helpers (PlainText.pathText n0 rest) = none)
    (hsafe : Spec.indexSafe data (n0 :: rest.map (·.2)) = true) (hj : Spec.descend data (n0 :: rest.map (·.2)) = some j) :
    r.renderTemplate fs (L ++ PlainText.pathSrc n0 rest ++ R) data = .ok (L ++ r.escape j.render ++ R) := by
  unfold Registry.renderTemplate Registry.renderTemplateToWrite Registry.renderTemplateWithContextToWrite
    Registry.compileForRenderTemplate
  obtain ⟨m, hcomp⟩ := PlainText.compile_text_path_text_pos n0 rest L _ _ { preventIndent := r.preventIndent } hp hno hL
    (PlainText.textAfterTag_split R hR)
  rw [← PlainText.split_ws R] at hcomp
  rw [hcomp]
  simp only [Registry.renderResolved, hdev, Bool.not_false, ↓reduceIte]
  let ets : List (Elem × Str) := (if L = [] then [] else [(.raw L, L)]) ++ [(.expr (PlainText.pathHT n0 rest), r.escape j.render)]
    ++ (if R = [] then [] else [(.raw R, R)])
  have hel : (PlainText.leftT L L).elements ++ [Elem.expr (PlainText.pathHT n0 rest)] ++ (if R = [] then [] else [Elem.raw R]) = ets.map (·.1) := by
    simp only [ets]
    by_cases hLe : L = [] <;> by_cases hRe : R = [] <;> simp [hLe, hRe, PlainText.leftT, Tmpl.empty, Tmpl.elements]
  have htxt : (ets.map (·.2)).flatten = L ++ r.escape j.render ++ R := by
    simp only [ets]
    by_cases hLe : L = [] <;> by_cases hRe : R = [] <;> simp [hLe, hRe]
  rw [hel]
  have hw : ∀ p ∈ ets, WritesText r data { ({ rootTemplate := none } : RC) with currentTemplate := none } p.1 p.2 := by
    intro p hp'
    simp only [ets, List.mem_append, List.mem_singleton] at hp'
    rcases hp' with (hp' | rfl) | hp'
    · split at hp'
      · simp at hp'
      · simp at hp'; subst hp'; exact writes_raw r data _ rfl L
    · exact segs_value_writes_escaped n0 rest r data j _ rfl rfl rfl rfl rfl hnohelper hsafe hj
    · split at hp'
      · simp at hp'
      · simp at hp'; subst hp'; exact writes_raw r data _ rfl R
  have hlen : ets.length + 12 ≤ renderFuel := by
    have h1 : (if L = [] then [] else [((Elem.raw L, L) : Elem × Str)]).length ≤ 1 := by split <;> simp
    have h2 : (if R = [] then [] else [((Elem.raw R, R) : Elem × Str)]).length ≤ 1 := by split <;> simp
    simp only [ets, List.length_append, List.length_singleton]
    have : renderFuel = 4000 := rfl
    omega
  have := render_writes_template r data none ets ((PlainText.leftT L L).mapping ++ [Pest.lineCol (L ++ PlainText.pathSrc n0 rest ++ R) L.length] ++ m)
    { rootTemplate := none } hlen hw
  simp only [Tmpl.name] at this ⊢
  rw [this, htxt]

/-- the source of the theorem is what it looks like: `{{user.name/first-1}}` -/
example : PlainText.pathSrc ['u'] [('.', ['n']), ('/', ['f', '-', '1'])] = ['{', '{', 'u', '.', 'n', '/', 'f', '-', '1', '}', '}'] := by decide

end Hbs.C02
