import HbsModel.Props.C02
/-
  C14 (continued)  "helper before field" at source level.
-/
namespace Hbs.C14
open Hbs RM Hbs.C02

/-- the compiled `{{name}}` with a helper registered under `name` (the harness helper that writes a line naming itself and its
    arguments): the helper is called – with no parameter and no hash – whatever the data holds under `name` -/
theorem named_helper_called (nm tag : Str) (reg : Registry) (root : Json) (rc0 : RC)
    (hh : assocGet reg.helpers nm = some (.mark tag)) (hl : assocGet rc0.localHelpers nm = none) :
    WritesText reg root rc0 (.expr (PlainText.nameHT nm)) (['['] ++ tag ++ [':'] ++ nm ++ [':', ']']) := by
  intro fuel rc out hq hf
  have hl' : assocGet rc.localHelpers nm = none := by rw [hq]; exact hl
  refine ⟨rc, { out with segs := (['['] ++ tag ++ [':'] ++ nm ++ [':', ']']) :: out.segs, count := out.count + 1 }, ?_, hq, hf, text_push out _⟩
  simp [renderElem, renderExpression, renderHelper, helperFromTemplate, PlainText.nameHT, HelperG.new, HelperG.isNameOnly, expandAsName,
    expandParams, expandParam, expandHash, RM.bnd_apply, hl', hh, callHelper, RM.write, hf, HelperKind.hasInner, markLine, joinWith, Path.new,
    getLocalPathAndLevel, Path.raw]

/-- **helper before field, at source level**: for EVERY identifier `name` (not `this`), every text `L`, `R` and ANY data – also
    data that has a field `name` – with a helper registered under `name`, `L ++ {{name}} ++ R` renders what the HELPER writes
    (here: the line `[tag:name:]` of the harness's marking helper, showing it was called with no argument), not the field. -/
theorem helper_wins_over_field_at_source (r : Registry) (fs : FS) (nm tag L R : Str) (data : Json) (hdev : r.dev = false)
    (hnm : PlainText.IdentName nm) (hthis : (nm == str "this") = false)
    (hL : L = [] ∨ PlainText.TextBeforeTag L) (hR : PlainText.noOpen R)
    (hh : assocGet r.helpers nm = some (.mark tag)) :
    r.renderTemplate fs (L ++ nameTag nm ++ R) data = .ok (L ++ (['['] ++ tag ++ [':'] ++ nm ++ [':', ']']) ++ R) := by
  unfold Registry.renderTemplate Registry.renderTemplateToWrite Registry.renderTemplateWithContextToWrite
    Registry.compileForRenderTemplate
  obtain ⟨m, hcomp⟩ := PlainText.compile_text_name_text_pos nm L _ _ { preventIndent := r.preventIndent } hnm hthis hL
    (PlainText.textAfterTag_split R hR)
  rw [← PlainText.split_ws R] at hcomp
  rw [hcomp]
  simp only [Registry.renderResolved, hdev, Bool.not_false, ↓reduceIte]
  let ets : List (Elem × Str) := (if L = [] then [] else [(.raw L, L)]) ++ [(.expr (PlainText.nameHT nm), ['['] ++ tag ++ [':'] ++ nm ++ [':', ']'])]
    ++ (if R = [] then [] else [(.raw R, R)])
  have hel : (PlainText.leftT L L).elements ++ [Elem.expr (PlainText.nameHT nm)] ++ (if R = [] then [] else [Elem.raw R]) = ets.map (·.1) := by
    simp only [ets]
    by_cases hLe : L = [] <;> by_cases hRe : R = [] <;> simp [hLe, hRe, PlainText.leftT, Tmpl.empty, Tmpl.elements]
  have htxt : (ets.map (·.2)).flatten = L ++ (['['] ++ tag ++ [':'] ++ nm ++ [':', ']']) ++ R := by
    simp only [ets]
    by_cases hLe : L = [] <;> by_cases hRe : R = [] <;> simp [hLe, hRe]
  rw [hel]
  have hw : ∀ p ∈ ets, WritesText r data { ({ rootTemplate := none } : RC) with currentTemplate := none } p.1 p.2 := by
    intro p hp
    simp only [ets, List.mem_append, List.mem_singleton] at hp
    rcases hp with (hp | rfl) | hp
    · split at hp
      · simp at hp
      · simp at hp; subst hp; exact writes_raw r data _ rfl L
    · exact named_helper_called nm tag r data _ hh rfl
    · split at hp
      · simp at hp
      · simp at hp; subst hp; exact writes_raw r data _ rfl R
  have hlen : ets.length + 12 ≤ renderFuel := by
    have h1 : (if L = [] then [] else [((Elem.raw L, L) : Elem × Str)]).length ≤ 1 := by split <;> simp
    have h2 : (if R = [] then [] else [((Elem.raw R, R) : Elem × Str)]).length ≤ 1 := by split <;> simp
    simp only [ets, List.length_append, List.length_singleton]
    have : renderFuel = 4000 := rfl
    omega
  have := render_writes_template r data none ets ((PlainText.leftT L L).mapping ++ [Pest.lineCol (L ++ PlainText.identSrc nm ++ R) L.length] ++ m) { rootTemplate := none } hlen hw
  simp only [Tmpl.name] at this ⊢
  rw [this, htxt]

end Hbs.C14
