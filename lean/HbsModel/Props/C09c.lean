import HbsModel.Props.C09b
import HbsModel.Props.C06
import HbsModel.Lemmas.WithPartial
/-
  C09 (continued)  The context a partial is applied to is the CURRENT one: `{{#with v}}{{> p}}{{/with}}` applies `p` to `data.v`.
-/
namespace Hbs.C09
open Hbs RM Hbs.Spec Hbs.PlainText

/-- `this` in a scope held as the path `v` into the data: the value the data holds under `v` -/
theorem evaluate_this_in_path_scope (root j : Json) (rc : RC) (out : Out) (b : Block) (rest : List Block)
    (hb : rc.blocks = b :: rest) (hbp : b.basePath = [['v']]) (hbv : b.baseValue = none)
    (hsafe : Spec.indexSafe root [['v']] = true) (hj : Spec.descend root [['v']] = some j) :
    evaluate2 root (.relative [] []) rc out = .ok (.context j [['v']]) rc out := by
  have hw := C01.walk_refines_descend root [['v']] hsafe
  simp [evaluate2, RM.bnd_apply, hb, navigate, parseJsonVisitor, visitorScan, mergeJsonPath, hbp, hbv, hw, hj]

/-- `expand_partial` for `{{> name}}` with `name` registered as the compiled `{{x}}`, in ANY scope whose current context is `ctx`:
    the partial is applied to `ctx`; the caller's state comes back except for the write flags -/
theorem expandPartial_value_ctx (nm x : Str) (hnpb : (nm == PARTIAL_BLOCK) = false) (reg : Registry) (root ctx j : Json) (path : List Str) (f : Nat) (mp : List (Nat × Nat)) (rc1 : RC) (out : Out)
    (hreg : assocGet reg.templates nm = some (.mk (some nm) [.expr (PlainText.nameHT x)] mp))
    (hthis : evaluate2 root (.relative [] []) rc1 out = .ok (.context ctx path) rc1 out)
    (hpa : rc1.partials = []) (hdv : rc1.devTemplates = none) (hct : rc1.currentTemplate ≠ some nm)
    (hin : rc1.indentString = none) (hmc : rc1.modifiedCtx = none) (hde : rc1.disableEscape = false)
    (hl : assocGet rc1.localHelpers x = none) (hr : assocGet reg.helpers x = none)
    (hsafe : Spec.indexSafe ctx [x] = true) (hj : Spec.descend ctx [x] = some j) (hf : out.failAt = none) :
    ∃ rc' out', expandPartial reg root (f + 7) ⟨nm, [], [], none, none⟩ rc1 out = .ok () rc' out'
      ∧ Quiet rc1 rc' ∧ out'.failAt = none ∧ out'.text = out.text ++ reg.escape j.render := by
  obtain ⟨rc2, out2, hr2, hq2, hf2, ht2⟩ := render_value_partial nm x reg ctx j root f mp
    { rc1 with blocks := [{ baseValue := some ctx }], indentString := none, partials := [], devTemplates := none } out rfl rfl hmc hde hl hr hsafe hj hf
  have hne : (rc1.currentTemplate == some nm) = false := by simpa using hct
  refine ⟨{ rc2 with pbStack := rc2.pbStack, pbBinding := rc1.pbBinding, blocks := rc1.blocks, currentTemplate := rc1.currentTemplate, indentString := rc1.indentString }, out2, ?_, ?_, hf2, ht2⟩
  · rw [show f + 7 = (f + 6) + 1 by omega]
    simp only [expandPartial, RM.bind_def, RM.bnd_apply, RM.pure_def, RM.ret_apply, RM.get_apply, hne, Bool.false_eq_true, ↓reduceIte, hnpb,
      hpa, hdv, assocGet, Option.bind, hreg, List.getElem?_nil, hthis, SJ.asJson, mergeJson, List.map_nil, List.isEmpty_nil,
      RM.partialScope, RM.bracket_apply]
    rw [hr2]
    simp [hpa, hdv, hin]
  · unfold Quiet at hq2 ⊢
    rw [hq2]
    simp [hpa, hdv, hin]

/-- the compiled `{{> name}}` in a scope held as the path `v`, `name` registered as the compiled `{{x}}`: the escaped text of `data.v.x` -/
theorem partial_value_writes_ctx (nm x : Str) (hnpb : (nm == PARTIAL_BLOCK) = false) (reg : Registry) (root ctx j : Json) (rc0 : RC) (mp : List (Nat × Nat)) (b : Block) (rest : List Block)
    (hreg : assocGet reg.templates nm = some (.mk (some nm) [.expr (PlainText.nameHT x)] mp))
    (hb : rc0.blocks = b :: rest) (hbp : b.basePath = [['v']]) (hbv : b.baseValue = none)
    (hsafe0 : Spec.indexSafe root [['v']] = true) (hj0 : Spec.descend root [['v']] = some ctx) (hi : rc0.indentString = none) (hmc : rc0.modifiedCtx = none) (hde : rc0.disableEscape = false)
    (hpa : rc0.partials = []) (hdv : rc0.devTemplates = none) (hct : rc0.currentTemplate ≠ some nm)
    (hl : assocGet rc0.localHelpers x = none) (hr : assocGet reg.helpers x = none)
    (hsafe : Spec.indexSafe ctx [x] = true) (hj : Spec.descend ctx [x] = some j) :
    WritesTextK 9 reg root rc0 (.partialExpr (PlainText.pnameD nm none false)) (reg.escape j.render) := by
  intro fuel rc out hq hf
  have hrb : rc.blocks = b :: rest := by rw [hq.blocks, hb]
  have hri : rc.indentString = none := by rw [hq.indent, hi]
  have hrm : rc.modifiedCtx = none := by rw [hq]; exact hmc
  have hrde : rc.disableEscape = false := by rw [hq]; exact hde
  have hrp : rc.partials = [] := by rw [hq]; exact hpa
  have hrd : rc.devTemplates = none := by rw [hq]; exact hdv
  have hrc : rc.currentTemplate ≠ some nm := by rw [hq]; exact hct
  have hrl : assocGet rc.localHelpers x = none := by rw [hq]; exact hl
  have hdeco : decoFromTemplate reg root (fuel + 8) (PlainText.pnameD nm none false) rc out
      = .ok ⟨nm, [], [], none, none⟩ rc out := by
    simp [decoFromTemplate, expandAsName, expandParams, expandHash, PlainText.pnameD, DecoG.new, RM.bnd_apply, hri]
  have hqA : Quiet rc0 { rc with contentProduced := false } := hq.flags _ _ _
  have hm1 := C12.modifyAux_eq (fun r : RC => { r with
      indentBeforeWrite := rc.indentBeforeWrite || ((PlainText.pnameD nm none false).indentBeforeWrite && (r.trailingNewline || (PlainText.pnameD nm none false).indent.isSome)),
      contentProduced := false }) rc out { rc with contentProduced := false }
    (by simp [PlainText.pnameD, DecoG.new])
  have hthis := evaluate_this_in_path_scope root ctx { rc with contentProduced := false } out b rest hrb hbp hbv hsafe0 hj0
  obtain ⟨rc', out', hx, hq', hf', ht⟩ := expandPartial_value_ctx nm x hnpb reg root ctx j [['v']] (fuel + 1) mp { rc with contentProduced := false } out hreg
    hthis hrp hrd hrc hri hrm hrde hrl hr hsafe hj hf
  have hq'' : Quiet rc0 rc' := by
    unfold Quiet at hq' hqA ⊢
    rw [hq', hqA]
  have hqG : Quiet rc0 ((fun r : RC => if r.contentProduced = true then { r with indentBeforeWrite := r.trailingNewline }
      else { r with contentProduced := rc.contentProduced, indentBeforeWrite := rc.indentBeforeWrite }) rc') := by
    by_cases hcp : rc'.contentProduced = true
    · simp only [hcp, ↓reduceIte]; exact Quiet.flags hq'' _ _ _
    · simp only [hcp]; exact Quiet.flags hq'' _ _ _
  have hm2 := quiet_modifyAux rc0 rc' (fun r : RC => if r.contentProduced = true then { r with indentBeforeWrite := r.trailingNewline }
      else { r with contentProduced := rc.contentProduced, indentBeforeWrite := rc.indentBeforeWrite }) out' hq'' hqG
  refine ⟨_, out', ?_, hqG, hf', ht⟩
  rw [show fuel + 9 = (fuel + 8) + 1 by omega]
  simp only [renderElem, RM.bind_def, RM.bnd_apply, hdeco, RM.get_apply]
  rw [hm1]
  simp only []
  rw [show fuel + 8 = fuel + 1 + 7 by omega, hx]
  simp only []
  exact hm2


/-- the body of the block – one partial call – rendered in the scope the `with` helper pushed -/
theorem render_partial_body (reg : Registry) (root ctx j : Json) (rc0 rcS : RC) (out : Out) (lc : Nat × Nat) (fuel : Nat) (x : Str) (mp : List (Nat × Nat))
    (b : Block) (rest : List Block)
    (hreg : assocGet reg.templates ['p'] = some (.mk (some ['p']) [.expr (PlainText.nameHT x)] mp))
    (hb : rc0.blocks = b :: rest) (hbp : b.basePath = [['v']]) (hbv : b.baseValue = none)
    (hsafe0 : Spec.indexSafe root [['v']] = true) (hj0 : Spec.descend root [['v']] = some ctx)
    (hi : rc0.indentString = none) (hct : rc0.currentTemplate = none) (hmc : rc0.modifiedCtx = none) (hde : rc0.disableEscape = false)
    (hpa : rc0.partials = []) (hdv : rc0.devTemplates = none)
    (hl : assocGet rc0.localHelpers x = none) (hr : assocGet reg.helpers x = none)
    (hsafe : Spec.indexSafe ctx [x] = true) (hj : Spec.descend ctx [x] = some j)
    (hq : Quiet rc0 rcS) (hf : out.failAt = none) :
    ∃ rc2 out2, renderTemplate reg root (fuel + 11) (PlainText.wpBody lc) rcS out = .ok () rc2 out2
      ∧ Quiet rc0 rc2 ∧ out2.failAt = none ∧ out2.text = out.text ++ reg.escape j.render := by
  have hqB : Quiet rc0 { rcS with currentTemplate := none } := by
    have := Quiet.setTemplate hq
    rw [hct] at this
    exact this
  have hw := partial_value_writes_ctx ['p'] x (by decide) reg root ctx j rc0 mp b rest hreg hb hbp hbv hsafe0 hj0 hi hmc hde hpa hdv
    (by rw [hct]; simp) hl hr hsafe hj
  obtain ⟨rc2, out2, hel, hq2, hf2, ht2⟩ := hw fuel { rcS with currentTemplate := none } out hqB hf
  have hmA := quiet_modifyAux rc0 rcS (fun r => { r with currentTemplate := (PlainText.wpBody lc).name }) out hq hqB
  have hq3 : Quiet rc0 { rc2 with currentTemplate := rcS.currentTemplate } := by
    have := Quiet.setTemplate hq2
    rw [← Quiet.template hq] at this
    exact this
  have hmB := quiet_modifyAux rc0 rc2 (fun r => { r with currentTemplate := rcS.currentTemplate }) out2 hq2 hq3
  refine ⟨_, out2, ?_, hq3, hf2, ht2⟩
  rw [show fuel + 11 = (fuel + 9) + 1 + 1 by omega]
  simp only [renderTemplate, RM.bind_def, RM.bnd_apply, RM.get_apply, hmA]
  simp only [PlainText.wpBody, Tmpl.empty, Tmpl.pushElement, Tmpl.name, Tmpl.elements, Tmpl.mapping, List.nil_append, renderElems,
    RM.bind_def, RM.bnd_apply, RM.mapErr, hel, RM.pure_def, RM.ret_apply, Option.isNone_none]
  simp only [↓reduceIte]
  exact hmB

/-- the block element `{{#with v}}{{> p}}{{/with}}` compiles to, `p` registered as the compiled `{{x}}`, on a truthy `data.v`: the
    partial is applied to `data.v` – the escaped text of `data.v.x` – and the scope pushed for the body is popped again -/
theorem with_partial_block_writes (x : Str) (mp : List (Nat × Nat)) (reg : Registry) (root j jx : Json) (rc0 : RC) (lc : Nat × Nat)
    (hreg : assocGet reg.templates ['p'] = some (.mk (some ['p']) [.expr (PlainText.nameHT x)] mp)) (hT : j.truthy false = true)
    (hde : rc0.disableEscape = false) (hpa : rc0.partials = []) (hdv : rc0.devTemplates = none)
    (hlx : assocGet rc0.localHelpers x = none) (hrx : assocGet reg.helpers x = none)
    (hsafex : Spec.indexSafe j [x] = true) (hjx : Spec.descend j [x] = some jx)
    (hb : rc0.blocks = [{}]) (hi : rc0.indentString = none) (hmc : rc0.modifiedCtx = none) (hct : rc0.currentTemplate = none)
    (hl : assocGet rc0.localHelpers ['w', 'i', 't', 'h'] = none) (hr : assocGet reg.helpers ['w', 'i', 't', 'h'] = some .withH)
    (hsafe : Spec.indexSafe root [['v']] = true) (hj : Spec.descend root [['v']] = some j) :
    WritesTextK 14 reg root rc0 (.block (PlainText.wpHT (PlainText.wpBody lc))) (reg.escape jx.render) := by
  intro fuel0 rc out hq hf
  rw [show fuel0 + 14 = (fuel0 + 8) + 6 by omega]
  generalize hfu : fuel0 + 8 = fuel
  have hblocks : rc.blocks = [{}] := by rw [hq.blocks, hb]
  have hev : evaluate2 root (.relative [.named ['v']] ['v']) rc out = .ok (.context j [['v']]) rc out := by
    have := C01.navigate_current_path_scope root {} [] ['v'] [] rc out (by simp [getInBlockParams, assocGet]) rfl (by simpa using hsafe)
    simp only [C01.names, List.map_cons, List.map_nil] at this
    simp only [evaluate2, RM.bind_def, RM.bnd_apply, RM.get_apply, hblocks, this, C01.blockValue, Spec.descend]
    simp only [Option.bind]
    have hj' : (Spec.step root ['v']).bind (fun v' => Spec.descend v' []) = some j := by simpa [Spec.descend] using hj
    simp [Spec.descend] at hj' ⊢
    rw [hj']
  have hmc' : rc.modifiedCtx = none := by rw [hq]; exact hmc
  have hl' : assocGet rc.localHelpers ['w', 'i', 't', 'h'] = none := by rw [hq]; exact hl
  have hpath : Path.new ['v'] [.named ['v']] = .relative [.named ['v']] ['v'] := rfl
  have hh : helperFromTemplate reg root (fuel + 4) (PlainText.wpHT (PlainText.wpBody lc)) rc out
      = .ok { name := ['w', 'i', 't', 'h'], params := [⟨some ['v'], .context j [['v']]⟩], hash := [], template := some (PlainText.wpBody lc), inverse := none, blockParam := none, block := true } rc out := by
    simp [helperFromTemplate, PlainText.wpHT, PlainText.wiOpen, HelperG.new, expandAsName, expandParams, expandParam, expandHash,
      RM.bnd_apply, hmc', hpath, hev, Path.raw]
  have hm1 := quiet_modifyAux rc0 rc (fun r => { r with contentProduced := false, indentBeforeWrite := rc.indentBeforeWrite || ((PlainText.wpHT (PlainText.wpBody lc)).indentBeforeWrite && r.trailingNewline) }) out hq (hq.flags _ _ _)
  simp only [renderElem, renderHelper, RM.bind_def, RM.bnd_apply, hh, RM.get_apply, hl', hr, hm1]
  have hibw : (PlainText.wpHT (PlainText.wpBody lc)).indentBeforeWrite = false := rfl
  simp only [hibw, Bool.false_and, Bool.or_false]
  have hqA : Quiet rc0 { rc with contentProduced := false } := hq.flags _ _ _
  let rcA : RC := { rc with contentProduced := false }
  have finish : ∀ (rc2 : RC) (out2 : Out) (txt : Str), Quiet rc0 rc2 → out2.failAt = none → out2.text = out.text ++ txt →
      ∃ rc' out', RM.modifyAux (fun rc_1 : RC => if rc_1.contentProduced = true then { rc_1 with indentBeforeWrite := rc_1.trailingNewline } else { rc_1 with contentProduced := rc.contentProduced, indentBeforeWrite := rc.indentBeforeWrite }) rc2 out2 = .ok () rc' out'
        ∧ Quiet rc0 rc' ∧ out'.failAt = none ∧ out'.text = out.text ++ txt := by
    intro rc2 out2 txt hq2 hf2 ht2
    have hqG : Quiet rc0 ((fun rc_1 : RC => if rc_1.contentProduced = true then { rc_1 with indentBeforeWrite := rc_1.trailingNewline } else { rc_1 with contentProduced := rc.contentProduced, indentBeforeWrite := rc.indentBeforeWrite }) rc2) := by
      by_cases hcp : rc2.contentProduced = true
      · simp only [hcp, ↓reduceIte]; exact Quiet.flags hq2 _ _ _
      · simp only [hcp, ↓reduceIte]; exact Quiet.flags hq2 _ _ _
    exact ⟨_, _, quiet_modifyAux rc0 _ _ out2 hq2 hqG, hqG, hf2, ht2⟩
  have ht : j.truthy false = true := hT
  let rcP : RC := { rcA with blocks := { basePath := [['v']] } :: rcA.blocks }
  obtain ⟨rc2, out2, hbody, hq2, hf2, ht2⟩ := render_partial_body reg root j jx rcP rcP out lc fuel0 x mp { basePath := [['v']] } rcA.blocks hreg rfl rfl rfl hsafe hj
    (by show rc.indentString = none; rw [hq.indent]; exact hi) (by show rc.currentTemplate = none; rw [Quiet.template hq]; exact hct)
    (by show rc.modifiedCtx = none; exact hmc') (by show rc.disableEscape = false; rw [hq]; exact hde)
    (by show rc.partials = []; rw [hq]; exact hpa) (by show rc.devTemplates = none; rw [hq]; exact hdv)
    (by show assocGet rc.localHelpers x = none; rw [hq]; exact hlx) hrx hsafex hjx (Quiet.refl _) hf
  have hcall : callHelper reg root (fuel + 4) .withH { name := ['w', 'i', 't', 'h'], params := [⟨some ['v'], .context j [['v']]⟩], hash := [], template := some (PlainText.wpBody lc), inverse := none, blockParam := none, block := true } rcA out
      = .ok () { rc2 with blocks := rc2.blocks.drop 1 } out2 := by
    rw [show fuel + 4 = (fuel + 3) + 1 by omega]
    simp only [callHelper, HelperKind.hasInner, Bool.false_eq_true, ↓reduceIte, List.getElem?_cons_zero, PJ.json, SJ.asJson, ht, PJ.contextPath,
      SJ.contextPath, createBlock, HelperI.blockParam1, RM.withBlock, RM.bracket_apply]
    rw [← hfu, show fuel0 + 8 + 3 = fuel0 + 11 by omega, hbody]
  rw [hcall]
  have hq4 : Quiet rc0 { rc2 with blocks := rc2.blocks.drop 1 } := by
    have hrcA : Quiet rc0 rcA := hqA
    unfold Quiet at hq2 hrcA ⊢
    rw [hq2]
    simp only [rcP, List.drop_succ_cons, List.drop_zero]
    rw [hrcA]
  exact finish _ out2 _ hq4 hf2 ht2


/-- `{{#with v}}{{> p}}{{/with}}` -/
abbrev withPartialSrc : Str := PlainText.wpSrc

/-- **a partial is applied to the CURRENT context, whatever scope that is**: with the partial `p` holding what the source `{{x}}`
    compiles to (any identifier `x`), for every text `L`, `R`, every data whose `v` is truthy and every escape function,
    `L ++ {{#with v}}{{> p}}{{/with}} ++ R` renders `L ++ escape(text of data.v.x) ++ R`: inside the `with` block the partial sees
    `data.v`, not the root – and afterwards the caller's scope is what it was.  Through the regenerated grammar (the block's 11
    pairs by kernel evaluation), compile2 (a partial tag compiled inside an open block), the `with` helper (scope held as a
    path), `expand_partial` (the current context re-evaluated from that path, handed to the partial by value) and the writer. -/
theorem partial_in_with_sees_the_with_context (r : Registry) (fs : FS) (x L R : Str) (data j jx : Json) (mp : List (Nat × Nat))
    (hdev : r.dev = false) (hpi : r.preventIndent = false)
    (hL : L = [] ∨ PlainText.TextBeforeTag L) (hR : PlainText.noOpen R)
    (hwith : assocGet r.helpers ['w', 'i', 't', 'h'] = some .withH)
    (hreg : assocGet r.templates ['p'] = some (.mk (some ['p']) [.expr (PlainText.nameHT x)] mp))
    (hnohelper : assocGet r.helpers x = none)
    (hsafe : Spec.indexSafe data [['v']] = true) (hj : Spec.descend data [['v']] = some j) (hT : j.truthy false = true)
    (hsafex : Spec.indexSafe j [x] = true) (hjx : Spec.descend j [x] = some jx) :
    r.renderTemplate fs (L ++ withPartialSrc ++ R) data = .ok (L ++ r.escape jx.render ++ R) := by
  unfold Registry.renderTemplate Registry.renderTemplateToWrite Registry.renderTemplateWithContextToWrite
    Registry.compileForRenderTemplate
  obtain ⟨m, hcomp⟩ := PlainText.compile_text_wp_text L _ _ { preventIndent := r.preventIndent } hpi hL (PlainText.textAfterTag_split R hR)
  rw [← PlainText.split_ws R] at hcomp
  rw [show withPartialSrc = PlainText.wpSrc from rfl, hcomp]
  simp only [Registry.renderResolved, hdev, Bool.not_false, ↓reduceIte]
  generalize Pest.lineCol (L ++ PlainText.wpSrc ++ R) (L.length + 11) = lc
  let txt : Str := r.escape jx.render
  let ets : List (Elem × Str) := (if L = [] then [] else [(.raw L, L)]) ++ [(.block (PlainText.wpHT (PlainText.wpBody lc)), txt)]
    ++ (if R = [] then [] else [(.raw R, R)])
  have hel : (PlainText.leftT L L).elements ++ [Elem.block (PlainText.wpHT (PlainText.wpBody lc))] ++ (if R = [] then [] else [Elem.raw R])
      = ets.map (·.1) := by
    simp only [ets]
    by_cases hLe : L = [] <;> by_cases hRe : R = [] <;> simp [hLe, hRe, PlainText.leftT, Tmpl.empty, Tmpl.elements]
  have htxt : (ets.map (·.2)).flatten = L ++ txt ++ R := by
    simp only [ets]
    by_cases hLe : L = [] <;> by_cases hRe : R = [] <;> simp [hLe, hRe]
  rw [hel]
  have hw : ∀ p ∈ ets, WritesTextK 14 r data { ({ rootTemplate := none } : RC) with currentTemplate := none } p.1 p.2 := by
    intro p hp
    simp only [ets, List.mem_append, List.mem_singleton] at hp
    rcases hp with (hp | rfl) | hp
    · split at hp
      · simp at hp
      · simp at hp; subst hp; exact (writes_raw r data _ rfl L).toK _ (by omega)
    · exact with_partial_block_writes x mp r data j jx _ lc hreg hT rfl rfl rfl rfl hnohelper hsafex hjx rfl rfl rfl rfl rfl hwith hsafe hj
    · split at hp
      · simp at hp
      · simp at hp; subst hp; exact (writes_raw r data _ rfl R).toK _ (by omega)
  have hlen : ets.length + 14 + 6 ≤ renderFuel := by
    have h1 : (if L = [] then [] else [((Elem.raw L, L) : Elem × Str)]).length ≤ 1 := by split <;> simp
    have h2 : (if R = [] then [] else [((Elem.raw R, R) : Elem × Str)]).length ≤ 1 := by split <;> simp
    simp only [ets, List.length_append, List.length_singleton]
    have : renderFuel = 4000 := rfl
    omega
  have := render_writes_templateK 14 r data none ets m { rootTemplate := none } hlen hw
  simp only [Tmpl.name] at this ⊢
  rw [this, htxt]

end Hbs.C09
