import HbsModel.Registry
import HbsModel.Lemmas.IfBlock
import HbsModel.Lemmas.IfBodyBlock
import HbsModel.Lemmas.UnlessBodyBlock
import HbsModel.Lemmas.WithBodyBlock
import HbsModel.Lemmas.IfElseBlock
import HbsModel.Lemmas.UnlessBlock
import HbsModel.Lemmas.WithBlock
import HbsModel.Lemmas.RenderPlain
import HbsModel.Props.C01
import HbsModel.Lemmas.RM
/-
  C06  Conditional blocks render exactly the one branch selected by truthiness.
-/
namespace Hbs.C06
open Hbs RM

/-! ### truthiness (`JsonTruthy::is_truthy`) by cases -/

theorem truthy_false (z : Bool) : (Json.bool false).truthy z = false := rfl
theorem truthy_true (z : Bool) : (Json.bool true).truthy z = true := rfl
theorem truthy_null (z : Bool) : Json.null.truthy z = false := rfl
theorem truthy_empty_string (z : Bool) : (Json.str []).truthy z = false := rfl
theorem truthy_string (c : Char) (s : Str) (z : Bool) : (Json.str (c :: s)).truthy z = true := rfl
theorem truthy_empty_array (z : Bool) : (Json.arr .nil).truthy z = false := rfl
theorem truthy_array (h : Json) (t : JList) (z : Bool) : (Json.arr (.cons h t)).truthy z = true := rfl
theorem truthy_empty_object (z : Bool) : (Json.obj .nil).truthy z = false := rfl
theorem truthy_object (k : Str) (v : Json) (t : JObj) (z : Bool) : (Json.obj (.cons k v t)).truthy z = true := rfl

/-- integers: zero is false, everything else true -/
theorem truthy_pos_int (n : Nat) : (Json.num (.pos n)).truthy false = (n != 0) := rfl
theorem truthy_neg_int (n : Nat) : (Json.num (.neg n)).truthy false = true := rfl
/-- with includeZero every number is true -/
theorem truthy_include_zero (n : Num) : (Json.num n).truthy true = true := by
  cases n <;> rfl

/-- floats: ±0.0 is false, EVERYTHING else is true – subnormals included (they were falsy before the
    repair recorded in known_findings.json as `fixed: property=C06`) -/
theorem truthy_float (b : Nat) : (Json.num (.flt b)).truthy false = !F64.isZero b := rfl

theorem truthy_float_zero : (Json.num (.flt 0)).truthy false = false ∧ (Json.num (.flt F64.negZero)).truthy false = false := by
  decide

/-- the smallest subnormal 5e-324 (bits = 1) is non-zero and therefore true -/
theorem subnormal_is_truthy : F64.isZero 1 = false ∧ (Json.num (.flt 1)).truthy false = true := by decide

/-! ### if / unless pick exactly one branch and do not touch the scope -/

/-- what `{{#if v}}` / `{{#unless v}}` do: render the selected template from the *same* render
    context (no block is pushed), or nothing. -/
theorem if_renders_selected (reg : Registry) (root : Json) (fuel : Nat) (positive : Bool) (h : HelperI)
    (p : PJ) (ps : List PJ) (hp : h.params = p :: ps) :
    callHelper reg root (fuel + 1) (.ifH positive) h =
      (let z := ((assocGet h.hash (str "includeZero")).bind (·.json.asBool?)).getD false
       let v := if positive then p.json.truthy z else !p.json.truthy z
       match (if v then h.template else h.inverse) with
       | some t => renderTemplate reg root fuel t
       | none => pure ()) := by
  funext rc out
  simp [callHelper, HelperKind.hasInner, hp]
  rfl

/-- unless is the negation of if: with the branches swapped they are the same computation -/
theorem unless_is_not_if (reg : Registry) (root : Json) (fuel : Nat) (h : HelperI) (p : PJ) (ps : List PJ)
    (hp : h.params = p :: ps) :
    callHelper reg root (fuel + 1) (.ifH false) h =
    callHelper reg root (fuel + 1) (.ifH true) { h with template := h.inverse, inverse := h.template } := by
  rw [if_renders_selected reg root fuel false h p ps hp,
      if_renders_selected reg root fuel true _ p ps (by simpa using hp)]
  simp only [Bool.false_eq_true, ↓reduceIte]
  cases p.json.truthy _ <;> simp

/-- a missing condition argument is an error, not a default -/
theorem if_requires_param (reg : Registry) (root : Json) (fuel : Nat) (positive : Bool) (h : HelperI)
    (hp : h.params = []) (rc : RC) (out : Out) :
    callHelper reg root (fuel + 1) (.ifH positive) h rc out
      = .err (.of (.paramNotFoundForIndex (str "if") 0)) out := by
  simp [callHelper, HelperKind.hasInner, hp]

/-- `with` selects: truthy → body in the new scope, else the inverse (same scope), else nothing /
    strict error -/
theorem with_falsy_renders_inverse (reg : Registry) (root : Json) (fuel : Nat) (h : HelperI) (p : PJ)
    (ps : List PJ) (hp : h.params = p :: ps) (hf : p.json.truthy false = false) :
    callHelper reg root (fuel + 1) .withH h =
      (match h.inverse with
       | some t => renderTemplate reg root fuel t
       | none => if reg.strict then throw (strictError p.relPath) else pure ()) := by
  funext rc out
  simp [callHelper, HelperKind.hasInner, hp, hf]
  rfl

/-! ### else-chains: the parser's in-place reversal -/

/-- `insert_inverse_node` pushes the new link in FRONT of the links collected so far … -/
theorem insert_pushes_front (h node : HelperT) :
    (insertInverseNode h node).inverse =
      some (Tmpl.empty.pushElemOnly (.block { node with inverse := h.inverse })) := rfl

/-- … and `revert_chain_and_set`'s loop reverses that list while re-linking `inverse`: one step. -/
theorem revertChain_step (fuel : Nat) (node : Tmpl) (c : HelperT) (prev : Option Tmpl)
    (hn : node.elements = [.block c]) :
    revertChain (fuel + 1) (some node) prev =
      revertChain fuel c.inverse (some (node.setElements [.block { c with inverse := prev }])) := by
  simp [revertChain, hn]

theorem revertChain_done (fuel : Nat) (prev : Option Tmpl) : revertChain (fuel + 1) none prev = .ok prev := rfl

/-! ### `{{#if v}}A{{/if}}` – at source level -/

/-- the block element `{{#if v}}A{{/if}}` compiles to writes `A` when `data.v` is truthy and nothing otherwise – and leaves
    the render state as it was (up to the write flags) -/
theorem if_block_writes (reg : Registry) (root j : Json) (rc0 : RC) (lc : Nat × Nat)
    (hb : rc0.blocks = [{}]) (hi : rc0.indentString = none) (hmc : rc0.modifiedCtx = none) (hct : rc0.currentTemplate = none)
    (hl : assocGet rc0.localHelpers ['i', 'f'] = none) (hr : assocGet reg.helpers ['i', 'f'] = some (.ifH true))
    (hsafe : Spec.indexSafe root [['v']] = true) (hj : Spec.descend root [['v']] = some j) :
    WritesText reg root rc0 (.block (PlainText.ifHT (PlainText.ifBody lc))) (if j.truthy false then ['A'] else []) := by
  intro fuel rc out hq hf
  have hblocks : rc.blocks = [{}] := by rw [hq.blocks, hb]
  have hev : evaluate2 root (.relative [.named ['v']] ['v']) rc out = .ok (.context j [['v']]) rc out := by
    have := C01.navigate_current_path_scope root {} [] ['v'] [] rc out (by simp [getInBlockParams, assocGet]) rfl (by simpa using hsafe)
    simp only [C01.names, List.map_cons, List.map_nil] at this
    simp only [evaluate2, RM.bind_def, RM.bnd_apply, RM.get_apply, hblocks, this, C01.blockValue, Spec.descend]
    simp only [Option.bind]
    have hj' : (Spec.step root ['v']).bind (fun v' => Spec.descend v' []) = some j := by simpa [Spec.descend] using hj
    simp [Spec.descend] at hj' ⊢
    rw [hj']
  have hmc' : rc.modifiedCtx = none := by rw [hq]; exact hmc
  have hl' : assocGet rc.localHelpers ['i', 'f'] = none := by rw [hq]; exact hl
  have hpath : Path.new ['v'] [.named ['v']] = .relative [.named ['v']] ['v'] := rfl
  -- the helper as evaluated
  have hh : helperFromTemplate reg root (fuel + 4) (PlainText.ifHT (PlainText.ifBody lc)) rc out
      = .ok { name := ['i', 'f'], params := [⟨some ['v'], .context j [['v']]⟩], hash := [], template := some (PlainText.ifBody lc),
              inverse := none, blockParam := none, block := true } rc out := by
    simp [helperFromTemplate, PlainText.ifHT, PlainText.ifOpen, HelperG.new, expandAsName, expandParams, expandParam, expandHash,
      RM.bnd_apply, hmc', hpath, hev, Path.raw]
  -- the state the helper is called in, and the one after the call
  let rc1 : RC := { rc with contentProduced := false, indentBeforeWrite := rc.indentBeforeWrite || (false && rc.trailingNewline) }
  have hq1 : Quiet rc0 rc1 := hq.flags _ _ _
  have hm1 := quiet_modifyAux rc0 rc (fun r => { r with contentProduced := false, indentBeforeWrite := rc.indentBeforeWrite || ((PlainText.ifHT (PlainText.ifBody lc)).indentBeforeWrite && r.trailingNewline) }) out hq (hq.flags _ _ _)
  have hcall := if_renders_selected reg root (fuel + 3) true { name := ['i', 'f'], params := [⟨some ['v'], .context j [['v']]⟩], hash := [], template := some (PlainText.ifBody lc), inverse := none, blockParam := none, block := true } ⟨some ['v'], .context j [['v']]⟩ [] rfl
  have hc4 : callHelper reg root (fuel + 4) (.ifH true) { name := ['i', 'f'], params := [⟨some ['v'], .context j [['v']]⟩], hash := [], template := some (PlainText.ifBody lc), inverse := none, blockParam := none, block := true } = _ := hcall
  simp only [renderElem, renderHelper, RM.bind_def, RM.bnd_apply, hh, RM.get_apply, hl', hr, hm1, hc4]
  have hz : ((assocGet ([] : List (Str × PJ)) (str "includeZero")).bind fun x => x.json.asBool?).getD false = false := by simp [assocGet]
  have hjs : ({ relPath := some ['v'], value := SJ.context j [['v']] } : PJ).json = j := rfl
  have hibw : (PlainText.ifHT (PlainText.ifBody lc)).indentBeforeWrite = false := rfl
  simp only [hz, hjs, if_true, hibw, Bool.false_and, Bool.or_false]
  by_cases ht : j.truthy false = true
  · simp only [ht, if_true]
    -- the body: one text element, rendered with the current template name handed over and back
    have hqA : Quiet rc0 { rc with contentProduced := false } := hq.flags _ _ _
    have hqB : Quiet rc0 { rc with contentProduced := false, currentTemplate := none } := by
      have := Quiet.setTemplate hqA
      rw [hct] at this
      exact this
    obtain ⟨rc2, out2, hw, hq2, hf2, ht2⟩ := indentAwareWrite_quiet rc0 hi ['A'] _ out hqB hf
    have hmA := quiet_modifyAux rc0 { rc with contentProduced := false } (fun r => { r with currentTemplate := (PlainText.ifBody lc).name }) out hqA hqB
    have hq3 : Quiet rc0 { rc2 with currentTemplate := rc.currentTemplate } := by
      have := Quiet.setTemplate hq2
      rw [← Quiet.template hq] at this
      exact this
    have hmB := quiet_modifyAux rc0 rc2 (fun r => { r with currentTemplate := rc.currentTemplate }) out2 hq2 hq3
    have hbody : renderTemplate reg root (fuel + 3) (PlainText.ifBody lc) { rc with contentProduced := false } out
        = .ok () { rc2 with currentTemplate := rc.currentTemplate } out2 := by
      simp only [renderTemplate, RM.bind_def, RM.bnd_apply, RM.get_apply, hmA]
      simp only [PlainText.ifBody, Tmpl.empty, Tmpl.pushElement, Tmpl.name, Tmpl.elements, Tmpl.mapping, List.nil_append, renderElems,
        renderElem, RM.bind_def, RM.bnd_apply, RM.mapErr, hw, RM.pure_def, RM.ret_apply, Option.isNone_none]
      simp only [↓reduceIte]
      exact hmB
    rw [hbody]
    simp only []
    have hqG : Quiet rc0 ((fun rc_1 : RC => if rc_1.contentProduced = true then { rc_1 with indentBeforeWrite := rc_1.trailingNewline } else { rc_1 with contentProduced := rc.contentProduced, indentBeforeWrite := rc.indentBeforeWrite }) { rc2 with currentTemplate := rc.currentTemplate }) := by
      by_cases hcp : rc2.contentProduced = true
      · simp only [hcp, ↓reduceIte]; exact Quiet.flags hq3 _ _ _
      · simp only [hcp, ↓reduceIte]; exact Quiet.flags hq3 _ _ _
    exact ⟨_, _, quiet_modifyAux rc0 _ _ out2 hq3 hqG, hqG, hf2, ht2⟩
  · simp only [ht, Bool.false_eq_true, if_false]
    have hqA : Quiet rc0 { rc with contentProduced := false } := hq.flags _ _ _
    have hqG : Quiet rc0 ((fun rc_1 : RC => if rc_1.contentProduced = true then { rc_1 with indentBeforeWrite := rc_1.trailingNewline } else { rc_1 with contentProduced := rc.contentProduced, indentBeforeWrite := rc.indentBeforeWrite }) { rc with contentProduced := false }) := by
      simp only [Bool.false_eq_true, ↓reduceIte]; exact Quiet.flags hqA _ _ _
    exact ⟨_, _, quiet_modifyAux rc0 _ _ out hqA hqG, hqG, hf, by simp⟩

/-- `{{#if v}}A{{/if}}` -/
abbrev ifBlockSrc : Str := PlainText.ifSrc

/-- **render(L ++ {{#if v}}A{{/if}} ++ R) = L ++ (A when data.v is truthy, nothing otherwise) ++ R** – from the source string to
    the bytes, for EVERY text `L` that may stand before a tag, EVERY text `R` without `{{` and every data value: the block
    renders its body exactly when the condition is truthy, and the text around it – whitespace and line breaks next to the
    block tags included, since neither tag stands alone on its line – is reproduced verbatim.  Through the regenerated grammar
    (the ten pairs of the block are decided by the kernel with the known-prefix evaluator: the block is ONE element of
    `template` whatever follows), four iterations of the loop of compile2 (block start, body template, body text, block end,
    with the standalone-line test at both tags) and the renderer (`renderHelper`, the `if` helper, the body template). -/
theorem if_block_renders_by_truthiness (r : Registry) (fs : FS) (L R : Str) (data j : Json) (hdev : r.dev = false)
    (hL : L = [] ∨ PlainText.TextBeforeTag L) (hR : PlainText.noOpen R)
    (hif : assocGet r.helpers ['i', 'f'] = some (.ifH true))
    (hsafe : Spec.indexSafe data [['v']] = true) (hj : Spec.descend data [['v']] = some j) :
    r.renderTemplate fs (L ++ ifBlockSrc ++ R) data = .ok (L ++ (if j.truthy false then ['A'] else []) ++ R) := by
  unfold Registry.renderTemplate Registry.renderTemplateToWrite Registry.renderTemplateWithContextToWrite
    Registry.compileForRenderTemplate
  obtain ⟨m, hcomp⟩ := PlainText.compile_text_if_text L _ _ { preventIndent := r.preventIndent } hL (PlainText.textAfterTag_split R hR)
  rw [← PlainText.split_ws R] at hcomp
  rw [hcomp]
  simp only [Registry.renderResolved, hdev, Bool.not_false, ↓reduceIte]
  generalize Pest.lineCol (L ++ PlainText.ifSrc ++ R) (L.length + 9) = lc
  let txt : Str := if j.truthy false then ['A'] else []
  let ets : List (Elem × Str) := (if L = [] then [] else [(.raw L, L)]) ++ [(.block (PlainText.ifHT (PlainText.ifBody lc)), txt)]
    ++ (if R = [] then [] else [(.raw R, R)])
  have hel : (PlainText.leftT L L).elements ++ [Elem.block (PlainText.ifHT (PlainText.ifBody lc))] ++ (if R = [] then [] else [Elem.raw R])
      = ets.map (·.1) := by
    simp only [ets]
    by_cases hLe : L = [] <;> by_cases hRe : R = [] <;> simp [hLe, hRe, PlainText.leftT, Tmpl.empty, Tmpl.elements]
  have htxt : (ets.map (·.2)).flatten = L ++ txt ++ R := by
    simp only [ets]
    by_cases hLe : L = [] <;> by_cases hRe : R = [] <;> simp [hLe, hRe]
  rw [hel]
  have hw : ∀ p ∈ ets, WritesText r data { ({ rootTemplate := none } : RC) with currentTemplate := none } p.1 p.2 := by
    intro p hp
    simp only [ets, List.mem_append, List.mem_singleton] at hp
    rcases hp with (hp | rfl) | hp
    · split at hp
      · simp at hp
      · simp at hp; subst hp; exact writes_raw r data _ rfl L
    · exact if_block_writes r data j _ lc rfl rfl rfl rfl rfl hif hsafe hj
    · split at hp
      · simp at hp
      · simp at hp; subst hp; exact writes_raw r data _ rfl R
  have hlen : ets.length + 12 ≤ renderFuel := by
    have h1 : (if L = [] then [] else [((Elem.raw L, L) : Elem × Str)]).length ≤ 1 := by split <;> simp
    have h2 : (if R = [] then [] else [((Elem.raw R, R) : Elem × Str)]).length ≤ 1 := by split <;> simp
    simp only [ets, List.length_append, List.length_singleton]
    have : renderFuel = 4000 := rfl
    omega
  have := render_writes_template r data none ets m { rootTemplate := none } hlen hw
  simp only [Tmpl.name] at this ⊢
  rw [this, htxt]

/-- non-vacuity: the registry as the crate builds it binds `if` to the `if` helper; a falsy and a truthy condition -/
example : assocGet Registry.new.helpers ['i', 'f'] = some (.ifH true) ∧ (Json.str []).truthy false = false ∧ (Json.str ['x']).truthy false = true := by
  refine ⟨by rfl, by decide, by decide⟩

/-! ### `{{#if v}}A{{else}}B{{/if}}` – at source level -/

/-- a body of one text element, rendered from a quiet state: the text is written, the state stays quiet -/
theorem render_one_text (reg : Registry) (root : Json) (rc0 rcS : RC) (out : Out) (c : Char) (lc : Nat × Nat) (fuel : Nat)
    (hi : rc0.indentString = none) (hct : rc0.currentTemplate = none) (hq : Quiet rc0 rcS) (hf : out.failAt = none) :
    ∃ rc2 out2, renderTemplate reg root (fuel + 3) (Tmpl.empty.pushElement (.raw [c]) lc.1 lc.2) rcS out = .ok () rc2 out2
      ∧ Quiet rc0 rc2 ∧ out2.failAt = none ∧ out2.text = out.text ++ [c] := by
  have hqB : Quiet rc0 { rcS with currentTemplate := none } := by
    have := Quiet.setTemplate hq
    rw [hct] at this
    exact this
  obtain ⟨rc2, out2, hw, hq2, hf2, ht2⟩ := indentAwareWrite_quiet rc0 hi [c] _ out hqB hf
  have hmA := quiet_modifyAux rc0 rcS (fun r => { r with currentTemplate := (Tmpl.empty.pushElement (.raw [c]) lc.1 lc.2).name }) out hq hqB
  have hq3 : Quiet rc0 { rc2 with currentTemplate := rcS.currentTemplate } := by
    have := Quiet.setTemplate hq2
    rw [← Quiet.template hq] at this
    exact this
  have hmB := quiet_modifyAux rc0 rc2 (fun r => { r with currentTemplate := rcS.currentTemplate }) out2 hq2 hq3
  refine ⟨_, out2, ?_, hq3, hf2, ht2⟩
  simp only [renderTemplate, RM.bind_def, RM.bnd_apply, RM.get_apply, hmA]
  simp only [Tmpl.empty, Tmpl.pushElement, Tmpl.name, Tmpl.elements, Tmpl.mapping, List.nil_append, renderElems,
    renderElem, RM.bind_def, RM.bnd_apply, RM.mapErr, hw, RM.pure_def, RM.ret_apply, Option.isNone_none]
  simp only [↓reduceIte]
  exact hmB

/-- the block element `{{#if v}}A{{else}}B{{/if}}` compiles to writes `A` when `data.v` is truthy and `B` otherwise: exactly one
    of the two branches, never both, never none -/
theorem if_else_block_writes (reg : Registry) (root j : Json) (rc0 : RC) (lcA lcB : Nat × Nat)
    (hb : rc0.blocks = [{}]) (hi : rc0.indentString = none) (hmc : rc0.modifiedCtx = none) (hct : rc0.currentTemplate = none)
    (hl : assocGet rc0.localHelpers ['i', 'f'] = none) (hr : assocGet reg.helpers ['i', 'f'] = some (.ifH true))
    (hsafe : Spec.indexSafe root [['v']] = true) (hj : Spec.descend root [['v']] = some j) :
    WritesText reg root rc0 (.block (PlainText.ifElseHT (PlainText.ifBody lcA) (PlainText.ieInv lcB)))
      (if j.truthy false then ['A'] else ['B']) := by
  intro fuel rc out hq hf
  have hblocks : rc.blocks = [{}] := by rw [hq.blocks, hb]
  have hev : evaluate2 root (.relative [.named ['v']] ['v']) rc out = .ok (.context j [['v']]) rc out := by
    have := C01.navigate_current_path_scope root {} [] ['v'] [] rc out (by simp [getInBlockParams, assocGet]) rfl (by simpa using hsafe)
    simp only [C01.names, List.map_cons, List.map_nil] at this
    simp only [evaluate2, RM.bind_def, RM.bnd_apply, RM.get_apply, hblocks, this, C01.blockValue, Spec.descend]
    simp only [Option.bind]
    have hj' : (Spec.step root ['v']).bind (fun v' => Spec.descend v' []) = some j := by simpa [Spec.descend] using hj
    simp [Spec.descend] at hj' ⊢
    rw [hj']
  have hmc' : rc.modifiedCtx = none := by rw [hq]; exact hmc
  have hl' : assocGet rc.localHelpers ['i', 'f'] = none := by rw [hq]; exact hl
  have hpath : Path.new ['v'] [.named ['v']] = .relative [.named ['v']] ['v'] := rfl
  have hh : helperFromTemplate reg root (fuel + 4) (PlainText.ifElseHT (PlainText.ifBody lcA) (PlainText.ieInv lcB)) rc out
      = .ok { name := ['i', 'f'], params := [⟨some ['v'], .context j [['v']]⟩], hash := [], template := some (PlainText.ifBody lcA), inverse := some (PlainText.ieInv lcB), blockParam := none, block := true } rc out := by
    simp [helperFromTemplate, PlainText.ifElseHT, PlainText.ifOpen, HelperG.new, expandAsName, expandParams, expandParam, expandHash,
      RM.bnd_apply, hmc', hpath, hev, Path.raw]
  have hm1 := quiet_modifyAux rc0 rc (fun r => { r with contentProduced := false, indentBeforeWrite := rc.indentBeforeWrite || ((PlainText.ifElseHT (PlainText.ifBody lcA) (PlainText.ieInv lcB)).indentBeforeWrite && r.trailingNewline) }) out hq (hq.flags _ _ _)
  have hcall := if_renders_selected reg root (fuel + 3) true { name := ['i', 'f'], params := [⟨some ['v'], .context j [['v']]⟩], hash := [], template := some (PlainText.ifBody lcA), inverse := some (PlainText.ieInv lcB), blockParam := none, block := true } ⟨some ['v'], .context j [['v']]⟩ [] rfl
  have hc4 : callHelper reg root (fuel + 4) (.ifH true) { name := ['i', 'f'], params := [⟨some ['v'], .context j [['v']]⟩], hash := [], template := some (PlainText.ifBody lcA), inverse := some (PlainText.ieInv lcB), blockParam := none, block := true } = _ := hcall
  simp only [renderElem, renderHelper, RM.bind_def, RM.bnd_apply, hh, RM.get_apply, hl', hr, hm1, hc4]
  have hz : ((assocGet ([] : List (Str × PJ)) (str "includeZero")).bind fun x => x.json.asBool?).getD false = false := by simp [assocGet]
  have hjs : ({ relPath := some ['v'], value := SJ.context j [['v']] } : PJ).json = j := rfl
  have hibw : (PlainText.ifElseHT (PlainText.ifBody lcA) (PlainText.ieInv lcB)).indentBeforeWrite = false := rfl
  simp only [hz, hjs, if_true, hibw, Bool.false_and, Bool.or_false]
  have hqA : Quiet rc0 { rc with contentProduced := false } := hq.flags _ _ _
  have finish : ∀ (rc2 : RC) (out2 : Out) (c : Char), Quiet rc0 rc2 → out2.failAt = none → out2.text = out.text ++ [c] →
      ∃ rc' out', RM.modifyAux (fun rc_1 : RC => if rc_1.contentProduced = true then { rc_1 with indentBeforeWrite := rc_1.trailingNewline } else { rc_1 with contentProduced := rc.contentProduced, indentBeforeWrite := rc.indentBeforeWrite }) rc2 out2 = .ok () rc' out'
        ∧ Quiet rc0 rc' ∧ out'.failAt = none ∧ out'.text = out.text ++ [c] := by
    intro rc2 out2 c hq2 hf2 ht2
    have hqG : Quiet rc0 ((fun rc_1 : RC => if rc_1.contentProduced = true then { rc_1 with indentBeforeWrite := rc_1.trailingNewline } else { rc_1 with contentProduced := rc.contentProduced, indentBeforeWrite := rc.indentBeforeWrite }) rc2) := by
      by_cases hcp : rc2.contentProduced = true
      · simp only [hcp, ↓reduceIte]; exact Quiet.flags hq2 _ _ _
      · simp only [hcp, ↓reduceIte]; exact Quiet.flags hq2 _ _ _
    exact ⟨_, _, quiet_modifyAux rc0 _ _ out2 hq2 hqG, hqG, hf2, ht2⟩
  by_cases ht : j.truthy false = true
  · simp only [ht, if_true]
    obtain ⟨rc2, out2, hbody, hq2, hf2, ht2⟩ := render_one_text reg root rc0 { rc with contentProduced := false } out 'A' lcA fuel hi hct hqA hf
    unfold PlainText.ifBody
    rw [hbody]
    exact finish rc2 out2 'A' hq2 hf2 ht2
  · simp only [ht, Bool.false_eq_true, if_false]
    obtain ⟨rc2, out2, hbody, hq2, hf2, ht2⟩ := render_one_text reg root rc0 { rc with contentProduced := false } out 'B' lcB fuel hi hct hqA hf
    unfold PlainText.ieInv
    rw [hbody]
    exact finish rc2 out2 'B' hq2 hf2 ht2

/-- `{{#if v}}A{{else}}B{{/if}}` -/
abbrev ifElseBlockSrc : Str := PlainText.ieSrc

/-- **render(L ++ {{#if v}}A{{else}}B{{/if}} ++ R) = L ++ (A when data.v is truthy, B otherwise) ++ R** – from the source string to the
    bytes, for EVERY text `L` that may stand before a tag, EVERY text `R` without `{{` and every data value: exactly one of
    the two branches is rendered, selected by the truthiness of the condition, and the text around the block is reproduced
    verbatim.  Through the regenerated grammar (the fourteen pairs of the block decided by the kernel), seven iterations of the
    loop of compile2 (block start, body, `{{else}}`, else branch, block end – with the standalone-line test at all three tags)
    and the renderer. -/
theorem if_else_block_renders_one_branch (r : Registry) (fs : FS) (L R : Str) (data j : Json) (hdev : r.dev = false)
    (hL : L = [] ∨ PlainText.TextBeforeTag L) (hR : PlainText.noOpen R)
    (hif : assocGet r.helpers ['i', 'f'] = some (.ifH true))
    (hsafe : Spec.indexSafe data [['v']] = true) (hj : Spec.descend data [['v']] = some j) :
    r.renderTemplate fs (L ++ ifElseBlockSrc ++ R) data = .ok (L ++ (if j.truthy false then ['A'] else ['B']) ++ R) := by
  unfold Registry.renderTemplate Registry.renderTemplateToWrite Registry.renderTemplateWithContextToWrite
    Registry.compileForRenderTemplate
  obtain ⟨m, hcomp⟩ := PlainText.compile_text_ie_text L _ _ { preventIndent := r.preventIndent } hL (PlainText.textAfterTag_split R hR)
  rw [← PlainText.split_ws R] at hcomp
  rw [hcomp]
  simp only [Registry.renderResolved, hdev, Bool.not_false, ↓reduceIte]
  generalize Pest.lineCol (L ++ PlainText.ieSrc ++ R) (L.length + 9) = lcA
  generalize Pest.lineCol (L ++ PlainText.ieSrc ++ R) (L.length + 18) = lcB
  let txt : Str := if j.truthy false then ['A'] else ['B']
  let ets : List (Elem × Str) := (if L = [] then [] else [(.raw L, L)]) ++ [(.block (PlainText.ifElseHT (PlainText.ifBody lcA) (PlainText.ieInv lcB)), txt)]
    ++ (if R = [] then [] else [(.raw R, R)])
  have hel : (PlainText.leftT L L).elements ++ [Elem.block (PlainText.ifElseHT (PlainText.ifBody lcA) (PlainText.ieInv lcB))] ++ (if R = [] then [] else [Elem.raw R])
      = ets.map (·.1) := by
    simp only [ets]
    by_cases hLe : L = [] <;> by_cases hRe : R = [] <;> simp [hLe, hRe, PlainText.leftT, Tmpl.empty, Tmpl.elements]
  have htxt : (ets.map (·.2)).flatten = L ++ txt ++ R := by
    simp only [ets]
    by_cases hLe : L = [] <;> by_cases hRe : R = [] <;> simp [hLe, hRe]
  rw [hel]
  have hw : ∀ p ∈ ets, WritesText r data { ({ rootTemplate := none } : RC) with currentTemplate := none } p.1 p.2 := by
    intro p hp
    simp only [ets, List.mem_append, List.mem_singleton] at hp
    rcases hp with (hp | rfl) | hp
    · split at hp
      · simp at hp
      · simp at hp; subst hp; exact writes_raw r data _ rfl L
    · exact if_else_block_writes r data j _ lcA lcB rfl rfl rfl rfl rfl hif hsafe hj
    · split at hp
      · simp at hp
      · simp at hp; subst hp; exact writes_raw r data _ rfl R
  have hlen : ets.length + 12 ≤ renderFuel := by
    have h1 : (if L = [] then [] else [((Elem.raw L, L) : Elem × Str)]).length ≤ 1 := by split <;> simp
    have h2 : (if R = [] then [] else [((Elem.raw R, R) : Elem × Str)]).length ≤ 1 := by split <;> simp
    simp only [ets, List.length_append, List.length_singleton]
    have : renderFuel = 4000 := rfl
    omega
  have := render_writes_template r data none ets m { rootTemplate := none } hlen hw
  simp only [Tmpl.name] at this ⊢
  rw [this, htxt]

/-- the general form: ANY block element calling `if` on the path `v` with a one-text body and no else branch – whatever its
    indentation request (set when the opening tag stands alone on its line) – writes the body when `data.v` is truthy and
    nothing otherwise -/
theorem if_text_block_writes (reg : Registry) (root j : Json) (rc0 : RC) (ht : HelperT) (s : Str) (lc : Nat × Nat)
    (hname : ht.name = .name ['i', 'f']) (hparams : ht.params = [.path (Path.new ['v'] [.named ['v']])]) (hhash : ht.hash = [])
    (htpl : ht.template = some (Tmpl.empty.pushElement (.raw s) lc.1 lc.2)) (hinv : ht.inverse = none)
    (hb : rc0.blocks = [{}]) (hi : rc0.indentString = none) (hmc : rc0.modifiedCtx = none) (hct : rc0.currentTemplate = none)
    (hl : assocGet rc0.localHelpers ['i', 'f'] = none) (hr : assocGet reg.helpers ['i', 'f'] = some (.ifH true))
    (hsafe : Spec.indexSafe root [['v']] = true) (hj : Spec.descend root [['v']] = some j) :
    WritesText reg root rc0 (.block ht) (if j.truthy false then s else []) := by
  intro fuel rc out hq hf
  have hblocks : rc.blocks = [{}] := by rw [hq.blocks, hb]
  have hev : evaluate2 root (.relative [.named ['v']] ['v']) rc out = .ok (.context j [['v']]) rc out := by
    have := C01.navigate_current_path_scope root {} [] ['v'] [] rc out (by simp [getInBlockParams, assocGet]) rfl (by simpa using hsafe)
    simp only [C01.names, List.map_cons, List.map_nil] at this
    simp only [evaluate2, RM.bind_def, RM.bnd_apply, RM.get_apply, hblocks, this, C01.blockValue, Spec.descend]
    simp only [Option.bind]
    have hj' : (Spec.step root ['v']).bind (fun v' => Spec.descend v' []) = some j := by simpa [Spec.descend] using hj
    simp [Spec.descend] at hj' ⊢
    rw [hj']
  have hmc' : rc.modifiedCtx = none := by rw [hq]; exact hmc
  have hl' : assocGet rc.localHelpers ['i', 'f'] = none := by rw [hq]; exact hl
  have hpath : Path.new ['v'] [.named ['v']] = .relative [.named ['v']] ['v'] := rfl
  have hh : helperFromTemplate reg root (fuel + 4) ht rc out
      = .ok { name := ['i', 'f'], params := [⟨some ['v'], .context j [['v']]⟩], hash := [], template := some (Tmpl.empty.pushElement (.raw s) lc.1 lc.2), inverse := none, blockParam := ht.blockParam, block := ht.block } rc out := by
    simp [helperFromTemplate, hname, hparams, hhash, htpl, hinv, expandAsName, expandParams, expandParam, expandHash,
      RM.bnd_apply, hmc', hpath, hev, Path.raw]
  have hm1 := quiet_modifyAux rc0 rc (fun r => { r with contentProduced := false, indentBeforeWrite := rc.indentBeforeWrite || (ht.indentBeforeWrite && r.trailingNewline) }) out hq (hq.flags _ _ _)
  have hcall := if_renders_selected reg root (fuel + 3) true { name := ['i', 'f'], params := [⟨some ['v'], .context j [['v']]⟩], hash := [], template := some (Tmpl.empty.pushElement (.raw s) lc.1 lc.2), inverse := none, blockParam := ht.blockParam, block := ht.block } ⟨some ['v'], .context j [['v']]⟩ [] rfl
  have hc4 : callHelper reg root (fuel + 4) (.ifH true) { name := ['i', 'f'], params := [⟨some ['v'], .context j [['v']]⟩], hash := [], template := some (Tmpl.empty.pushElement (.raw s) lc.1 lc.2), inverse := none, blockParam := ht.blockParam, block := ht.block } = _ := hcall
  simp only [renderElem, renderHelper, RM.bind_def, RM.bnd_apply, hh, RM.get_apply, hl', hr, hm1, hc4]
  have hz : ((assocGet ([] : List (Str × PJ)) (str "includeZero")).bind fun x => x.json.asBool?).getD false = false := by simp [assocGet]
  have hjs : ({ relPath := some ['v'], value := SJ.context j [['v']] } : PJ).json = j := rfl
  simp only [hz, hjs, if_true]
  have hqA : Quiet rc0 { rc with contentProduced := false, indentBeforeWrite := rc.indentBeforeWrite || (ht.indentBeforeWrite && rc.trailingNewline) } := hq.flags _ _ _
  have finish : ∀ (rc2 : RC) (out2 : Out) (txt : Str), Quiet rc0 rc2 → out2.failAt = none → out2.text = out.text ++ txt →
      ∃ rc' out', RM.modifyAux (fun rc_1 : RC => if rc_1.contentProduced = true then { rc_1 with indentBeforeWrite := rc_1.trailingNewline } else { rc_1 with contentProduced := rc.contentProduced, indentBeforeWrite := rc.indentBeforeWrite }) rc2 out2 = .ok () rc' out'
        ∧ Quiet rc0 rc' ∧ out'.failAt = none ∧ out'.text = out.text ++ txt := by
    intro rc2 out2 txt hq2 hf2 ht2
    have hqG : Quiet rc0 ((fun rc_1 : RC => if rc_1.contentProduced = true then { rc_1 with indentBeforeWrite := rc_1.trailingNewline } else { rc_1 with contentProduced := rc.contentProduced, indentBeforeWrite := rc.indentBeforeWrite }) rc2) := by
      by_cases hcp : rc2.contentProduced = true
      · simp only [hcp, ↓reduceIte]; exact Quiet.flags hq2 _ _ _
      · simp only [hcp, ↓reduceIte]; exact Quiet.flags hq2 _ _ _
    exact ⟨_, _, quiet_modifyAux rc0 _ _ out2 hq2 hqG, hqG, hf2, ht2⟩
  by_cases ht : j.truthy false = true
  · simp only [ht, if_true]
    obtain ⟨rc2, out2, hbody, hq2, hf2, ht2⟩ := render_text_template reg root rc0 _ out s lc fuel hi hct hqA hf
    rw [hbody]
    exact finish rc2 out2 s hq2 hf2 ht2
  · simp only [ht, Bool.false_eq_true, if_false]
    exact finish _ out [] hqA hf (by simp)

/-- `if` and `unless` at once (`positive` = which of the two the registry binds the name to): ANY block element calling the helper on the path `v` with a one-text body and no else branch – whatever its
    indentation request (set when the opening tag stands alone on its line) – writes the body when `data.v` is truthy and
    nothing otherwise -/
theorem cond_text_block_writes (positive : Bool) (nm : Str) (reg : Registry) (root j : Json) (rc0 : RC) (ht : HelperT) (s : Str) (lc : Nat × Nat)
    (hname : ht.name = .name nm) (hparams : ht.params = [.path (Path.new ['v'] [.named ['v']])]) (hhash : ht.hash = [])
    (htpl : ht.template = some (Tmpl.empty.pushElement (.raw s) lc.1 lc.2)) (hinv : ht.inverse = none)
    (hb : rc0.blocks = [{}]) (hi : rc0.indentString = none) (hmc : rc0.modifiedCtx = none) (hct : rc0.currentTemplate = none)
    (hl : assocGet rc0.localHelpers nm = none) (hr : assocGet reg.helpers nm = some (.ifH positive))
    (hsafe : Spec.indexSafe root [['v']] = true) (hj : Spec.descend root [['v']] = some j) :
    WritesText reg root rc0 (.block ht) (if (if positive then j.truthy false else !j.truthy false) then s else []) := by
  intro fuel rc out hq hf
  have hblocks : rc.blocks = [{}] := by rw [hq.blocks, hb]
  have hev : evaluate2 root (.relative [.named ['v']] ['v']) rc out = .ok (.context j [['v']]) rc out := by
    have := C01.navigate_current_path_scope root {} [] ['v'] [] rc out (by simp [getInBlockParams, assocGet]) rfl (by simpa using hsafe)
    simp only [C01.names, List.map_cons, List.map_nil] at this
    simp only [evaluate2, RM.bind_def, RM.bnd_apply, RM.get_apply, hblocks, this, C01.blockValue, Spec.descend]
    simp only [Option.bind]
    have hj' : (Spec.step root ['v']).bind (fun v' => Spec.descend v' []) = some j := by simpa [Spec.descend] using hj
    simp [Spec.descend] at hj' ⊢
    rw [hj']
  have hmc' : rc.modifiedCtx = none := by rw [hq]; exact hmc
  have hl' : assocGet rc.localHelpers nm = none := by rw [hq]; exact hl
  have hpath : Path.new ['v'] [.named ['v']] = .relative [.named ['v']] ['v'] := rfl
  have hh : helperFromTemplate reg root (fuel + 4) ht rc out
      = .ok { name := nm, params := [⟨some ['v'], .context j [['v']]⟩], hash := [], template := some (Tmpl.empty.pushElement (.raw s) lc.1 lc.2), inverse := none, blockParam := ht.blockParam, block := ht.block } rc out := by
    simp [helperFromTemplate, hname, hparams, hhash, htpl, hinv, expandAsName, expandParams, expandParam, expandHash,
      RM.bnd_apply, hmc', hpath, hev, Path.raw]
  have hm1 := quiet_modifyAux rc0 rc (fun r => { r with contentProduced := false, indentBeforeWrite := rc.indentBeforeWrite || (ht.indentBeforeWrite && r.trailingNewline) }) out hq (hq.flags _ _ _)
  have hcall := if_renders_selected reg root (fuel + 3) positive { name := nm, params := [⟨some ['v'], .context j [['v']]⟩], hash := [], template := some (Tmpl.empty.pushElement (.raw s) lc.1 lc.2), inverse := none, blockParam := ht.blockParam, block := ht.block } ⟨some ['v'], .context j [['v']]⟩ [] rfl
  have hc4 : callHelper reg root (fuel + 4) (.ifH positive) { name := nm, params := [⟨some ['v'], .context j [['v']]⟩], hash := [], template := some (Tmpl.empty.pushElement (.raw s) lc.1 lc.2), inverse := none, blockParam := ht.blockParam, block := ht.block } = _ := hcall
  simp only [renderElem, renderHelper, RM.bind_def, RM.bnd_apply, hh, RM.get_apply, hl', hr, hm1, hc4]
  have hz : ((assocGet ([] : List (Str × PJ)) (str "includeZero")).bind fun x => x.json.asBool?).getD false = false := by simp [assocGet]
  have hjs : ({ relPath := some ['v'], value := SJ.context j [['v']] } : PJ).json = j := rfl
  simp only [hz, hjs]
  have hqA : Quiet rc0 { rc with contentProduced := false, indentBeforeWrite := rc.indentBeforeWrite || (ht.indentBeforeWrite && rc.trailingNewline) } := hq.flags _ _ _
  have finish : ∀ (rc2 : RC) (out2 : Out) (txt : Str), Quiet rc0 rc2 → out2.failAt = none → out2.text = out.text ++ txt →
      ∃ rc' out', RM.modifyAux (fun rc_1 : RC => if rc_1.contentProduced = true then { rc_1 with indentBeforeWrite := rc_1.trailingNewline } else { rc_1 with contentProduced := rc.contentProduced, indentBeforeWrite := rc.indentBeforeWrite }) rc2 out2 = .ok () rc' out'
        ∧ Quiet rc0 rc' ∧ out'.failAt = none ∧ out'.text = out.text ++ txt := by
    intro rc2 out2 txt hq2 hf2 ht2
    have hqG : Quiet rc0 ((fun rc_1 : RC => if rc_1.contentProduced = true then { rc_1 with indentBeforeWrite := rc_1.trailingNewline } else { rc_1 with contentProduced := rc.contentProduced, indentBeforeWrite := rc.indentBeforeWrite }) rc2) := by
      by_cases hcp : rc2.contentProduced = true
      · simp only [hcp, ↓reduceIte]; exact Quiet.flags hq2 _ _ _
      · simp only [hcp, ↓reduceIte]; exact Quiet.flags hq2 _ _ _
    exact ⟨_, _, quiet_modifyAux rc0 _ _ out2 hq2 hqG, hqG, hf2, ht2⟩
  by_cases ht : (if positive = true then j.truthy false else !j.truthy false) = true
  · simp only [ht, if_true]
    obtain ⟨rc2, out2, hbody, hq2, hf2, ht2⟩ := render_text_template reg root rc0 _ out s lc fuel hi hct hqA hf
    rw [hbody]
    exact finish rc2 out2 s hq2 hf2 ht2
  · simp only [ht, Bool.false_eq_true, if_false]
    exact finish _ out [] hqA hf (by simp)

/-- `{{#unless v}}A{{/unless}}` -/
abbrev unlessBlockSrc : Str := PlainText.unSrc

/-- **render(L ++ {{#unless v}}A{{/unless}} ++ R) = L ++ (A when data.v is FALSY, nothing otherwise) ++ R** – from the source string to
    the bytes, for every text `L`, `R` and every data value: `unless` is the negation of `if` -/
theorem unless_block_renders_by_falsiness (r : Registry) (fs : FS) (L R : Str) (data j : Json) (hdev : r.dev = false)
    (hL : L = [] ∨ PlainText.TextBeforeTag L) (hR : PlainText.noOpen R)
    (hun : assocGet r.helpers ['u', 'n', 'l', 'e', 's', 's'] = some (.ifH false))
    (hsafe : Spec.indexSafe data [['v']] = true) (hj : Spec.descend data [['v']] = some j) :
    r.renderTemplate fs (L ++ unlessBlockSrc ++ R) data = .ok (L ++ (if j.truthy false then [] else ['A']) ++ R) := by
  unfold Registry.renderTemplate Registry.renderTemplateToWrite Registry.renderTemplateWithContextToWrite
    Registry.compileForRenderTemplate
  obtain ⟨m, hcomp⟩ := PlainText.compile_text_un_text L _ _ { preventIndent := r.preventIndent } hL (PlainText.textAfterTag_split R hR)
  rw [← PlainText.split_ws R] at hcomp
  rw [hcomp]
  simp only [Registry.renderResolved, hdev, Bool.not_false, ↓reduceIte]
  generalize Pest.lineCol (L ++ PlainText.unSrc ++ R) (L.length + 13) = lc
  let txt : Str := if j.truthy false then [] else ['A']
  let ets : List (Elem × Str) := (if L = [] then [] else [(.raw L, L)]) ++ [(.block (PlainText.unHT (PlainText.unBody lc)), txt)]
    ++ (if R = [] then [] else [(.raw R, R)])
  have hel : (PlainText.leftT L L).elements ++ [Elem.block (PlainText.unHT (PlainText.unBody lc))] ++ (if R = [] then [] else [Elem.raw R])
      = ets.map (·.1) := by
    simp only [ets]
    by_cases hLe : L = [] <;> by_cases hRe : R = [] <;> simp [hLe, hRe, PlainText.leftT, Tmpl.empty, Tmpl.elements]
  have htxt : (ets.map (·.2)).flatten = L ++ txt ++ R := by
    simp only [ets]
    by_cases hLe : L = [] <;> by_cases hRe : R = [] <;> simp [hLe, hRe]
  rw [hel]
  have hw : ∀ p ∈ ets, WritesText r data { ({ rootTemplate := none } : RC) with currentTemplate := none } p.1 p.2 := by
    intro p hp
    simp only [ets, List.mem_append, List.mem_singleton] at hp
    rcases hp with (hp | rfl) | hp
    · split at hp
      · simp at hp
      · simp at hp; subst hp; exact writes_raw r data _ rfl L
    · have := cond_text_block_writes false ['u', 'n', 'l', 'e', 's', 's'] r data j { ({ rootTemplate := none } : RC) with currentTemplate := none }
        (PlainText.unHT (PlainText.unBody lc)) ['A'] lc rfl rfl rfl rfl rfl rfl rfl rfl rfl rfl hun hsafe hj
      have e : (if (if false = true then j.truthy false else !j.truthy false) = true then ['A'] else []) = txt := by
        simp only [txt]
        cases j.truthy false <;> simp
      rw [e] at this
      exact this
    · split at hp
      · simp at hp
      · simp at hp; subst hp; exact writes_raw r data _ rfl R
  have hlen : ets.length + 12 ≤ renderFuel := by
    have h1 : (if L = [] then [] else [((Elem.raw L, L) : Elem × Str)]).length ≤ 1 := by split <;> simp
    have h2 : (if R = [] then [] else [((Elem.raw R, R) : Elem × Str)]).length ≤ 1 := by split <;> simp
    simp only [ets, List.length_append, List.length_singleton]
    have : renderFuel = 4000 := rfl
    omega
  have := render_writes_template r data none ets m { rootTemplate := none } hlen hw
  simp only [Tmpl.name] at this ⊢
  rw [this, htxt]

/-- **`if` and `unless` are complementary at source level**: on the same data exactly one of `{{#if v}}A{{/if}}` and
    `{{#unless v}}A{{/unless}}` – between the same texts – writes its body -/
theorem if_and_unless_are_complementary (r : Registry) (fs : FS) (L R : Str) (data j : Json) (hdev : r.dev = false)
    (hL : L = [] ∨ PlainText.TextBeforeTag L) (hR : PlainText.noOpen R)
    (hif : assocGet r.helpers ['i', 'f'] = some (.ifH true))
    (hun : assocGet r.helpers ['u', 'n', 'l', 'e', 's', 's'] = some (.ifH false))
    (hsafe : Spec.indexSafe data [['v']] = true) (hj : Spec.descend data [['v']] = some j) :
    (r.renderTemplate fs (L ++ ifBlockSrc ++ R) data = .ok (L ++ ['A'] ++ R) ∧ r.renderTemplate fs (L ++ unlessBlockSrc ++ R) data = .ok (L ++ R))
    ∨ (r.renderTemplate fs (L ++ ifBlockSrc ++ R) data = .ok (L ++ R) ∧ r.renderTemplate fs (L ++ unlessBlockSrc ++ R) data = .ok (L ++ ['A'] ++ R)) := by
  have h1 := if_block_renders_by_truthiness r fs L R data j hdev hL hR hif hsafe hj
  have h2 := unless_block_renders_by_falsiness r fs L R data j hdev hL hR hun hsafe hj
  by_cases ht : j.truthy false = true
  · left; simp only [ht, if_true, List.append_nil] at h1 h2; exact ⟨h1, h2⟩
  · right
    have hf : j.truthy false = false := by simpa using ht
    simp only [hf, Bool.false_eq_true, if_false, List.append_nil] at h1 h2
    exact ⟨h1, h2⟩

example : assocGet Registry.new.helpers ['u', 'n', 'l', 'e', 's', 's'] = some (.ifH false) := by rfl

/-! ### `{{#with v}}A{{/with}}` – at source level -/

/-- the block element `{{#with v}}A{{/with}}` compiles to (non-strict mode): the body – rendered in the scope of the value – is
    written when `data.v` is truthy, nothing otherwise; the scope pushed for the body is popped again -/
theorem with_text_block_writes (reg : Registry) (root j : Json) (rc0 : RC) (lc : Nat × Nat) (hstrict : reg.strict = false)
    (hb : rc0.blocks = [{}]) (hi : rc0.indentString = none) (hmc : rc0.modifiedCtx = none) (hct : rc0.currentTemplate = none)
    (hl : assocGet rc0.localHelpers ['w', 'i', 't', 'h'] = none) (hr : assocGet reg.helpers ['w', 'i', 't', 'h'] = some .withH)
    (hsafe : Spec.indexSafe root [['v']] = true) (hj : Spec.descend root [['v']] = some j) :
    WritesText reg root rc0 (.block (PlainText.wiHT (PlainText.wiBody lc))) (if j.truthy false then ['A'] else []) := by
  intro fuel rc out hq hf
  have hblocks : rc.blocks = [{}] := by rw [hq.blocks, hb]
  have hev : evaluate2 root (.relative [.named ['v']] ['v']) rc out = .ok (.context j [['v']]) rc out := by
    have := C01.navigate_current_path_scope root {} [] ['v'] [] rc out (by simp [getInBlockParams, assocGet]) rfl (by simpa using hsafe)
    simp only [C01.names, List.map_cons, List.map_nil] at this
    simp only [evaluate2, RM.bind_def, RM.bnd_apply, RM.get_apply, hblocks, this, C01.blockValue, Spec.descend]
    simp only [Option.bind]
    have hj' : (Spec.step root ['v']).bind (fun v' => Spec.descend v' []) = some j := by simpa [Spec.descend] using hj
    simp [Spec.descend] at hj' ⊢
    rw [hj']
  have hmc' : rc.modifiedCtx = none := by rw [hq]; exact hmc
  have hl' : assocGet rc.localHelpers ['w', 'i', 't', 'h'] = none := by rw [hq]; exact hl
  have hpath : Path.new ['v'] [.named ['v']] = .relative [.named ['v']] ['v'] := rfl
  have hh : helperFromTemplate reg root (fuel + 4) (PlainText.wiHT (PlainText.wiBody lc)) rc out
      = .ok { name := ['w', 'i', 't', 'h'], params := [⟨some ['v'], .context j [['v']]⟩], hash := [], template := some (PlainText.wiBody lc), inverse := none, blockParam := none, block := true } rc out := by
    simp [helperFromTemplate, PlainText.wiHT, PlainText.wiOpen, HelperG.new, expandAsName, expandParams, expandParam, expandHash,
      RM.bnd_apply, hmc', hpath, hev, Path.raw]
  have hm1 := quiet_modifyAux rc0 rc (fun r => { r with contentProduced := false, indentBeforeWrite := rc.indentBeforeWrite || ((PlainText.wiHT (PlainText.wiBody lc)).indentBeforeWrite && r.trailingNewline) }) out hq (hq.flags _ _ _)
  simp only [renderElem, renderHelper, RM.bind_def, RM.bnd_apply, hh, RM.get_apply, hl', hr, hm1]
  have hibw : (PlainText.wiHT (PlainText.wiBody lc)).indentBeforeWrite = false := rfl
  simp only [hibw, Bool.false_and, Bool.or_false]
  have hqA : Quiet rc0 { rc with contentProduced := false } := hq.flags _ _ _
  let rcA : RC := { rc with contentProduced := false }
  have finish : ∀ (rc2 : RC) (out2 : Out) (txt : Str), Quiet rc0 rc2 → out2.failAt = none → out2.text = out.text ++ txt →
      ∃ rc' out', RM.modifyAux (fun rc_1 : RC => if rc_1.contentProduced = true then { rc_1 with indentBeforeWrite := rc_1.trailingNewline } else { rc_1 with contentProduced := rc.contentProduced, indentBeforeWrite := rc.indentBeforeWrite }) rc2 out2 = .ok () rc' out'
        ∧ Quiet rc0 rc' ∧ out'.failAt = none ∧ out'.text = out.text ++ txt := by
    intro rc2 out2 txt hq2 hf2 ht2
    have hqG : Quiet rc0 ((fun rc_1 : RC => if rc_1.contentProduced = true then { rc_1 with indentBeforeWrite := rc_1.trailingNewline } else { rc_1 with contentProduced := rc.contentProduced, indentBeforeWrite := rc.indentBeforeWrite }) rc2) := by
      by_cases hcp : rc2.contentProduced = true
      · simp only [hcp, ↓reduceIte]; exact Quiet.flags hq2 _ _ _
      · simp only [hcp, ↓reduceIte]; exact Quiet.flags hq2 _ _ _
    exact ⟨_, _, quiet_modifyAux rc0 _ _ out2 hq2 hqG, hqG, hf2, ht2⟩
  by_cases ht : j.truthy false = true
  · -- truthy: the body in the pushed scope
    let rcP : RC := { rcA with blocks := { basePath := [['v']] } :: rcA.blocks }
    obtain ⟨rc2, out2, hbody, hq2, hf2, ht2⟩ := render_text_template reg root rcP rcP out ['A'] lc fuel
      (by show rc.indentString = none; rw [hq.indent]; exact hi) (by show rc.currentTemplate = none; rw [Quiet.template hq]; exact hct) (Quiet.refl _) hf
    have hcall : callHelper reg root (fuel + 4) .withH { name := ['w', 'i', 't', 'h'], params := [⟨some ['v'], .context j [['v']]⟩], hash := [], template := some (PlainText.wiBody lc), inverse := none, blockParam := none, block := true } rcA out
        = .ok () { rc2 with blocks := rc2.blocks.drop 1 } out2 := by
      rw [show fuel + 4 = (fuel + 3) + 1 by omega]
      simp only [callHelper, HelperKind.hasInner, Bool.false_eq_true, ↓reduceIte, List.getElem?_cons_zero, PJ.json, SJ.asJson, ht, PJ.contextPath,
        SJ.contextPath, createBlock, HelperI.blockParam1, RM.withBlock, RM.bracket_apply]
      unfold PlainText.wiBody
      rw [hbody]
    rw [hcall]
    simp only [ht, if_true]
    have hq4 : Quiet rc0 { rc2 with blocks := rc2.blocks.drop 1 } := by
      have hrcA : Quiet rc0 rcA := hqA
      unfold Quiet at hq2 hrcA ⊢
      rw [hq2]
      simp only [rcP, List.drop_succ_cons, List.drop_zero]
      rw [hrcA]
    exact finish _ out2 ['A'] hq4 hf2 ht2
  · have hcall : callHelper reg root (fuel + 4) .withH { name := ['w', 'i', 't', 'h'], params := [⟨some ['v'], .context j [['v']]⟩], hash := [], template := some (PlainText.wiBody lc), inverse := none, blockParam := none, block := true } rcA out
        = .ok () rcA out := by
      rw [show fuel + 4 = (fuel + 3) + 1 by omega]
      simp [callHelper, HelperKind.hasInner, PJ.json, SJ.asJson, ht, hstrict]
    rw [hcall]
    simp only [ht, Bool.false_eq_true, if_false]
    exact finish rcA out [] hqA hf (by simp)

/-- `{{#with v}}A{{/with}}` -/
abbrev withBlockSrc : Str := PlainText.wiSrc

/-- **render(L ++ {{#with v}}A{{/with}} ++ R) = L ++ (A when data.v is truthy, nothing otherwise) ++ R** in non-strict mode – from the
    source string to the bytes, for every text `L`, `R` and every data value: `with` selects by the same truthiness as `if`
    (0 is falsy), renders its body in the scope of the value and leaves the caller's scope as it was -/
theorem with_block_renders_by_truthiness (r : Registry) (fs : FS) (L R : Str) (data j : Json) (hdev : r.dev = false)
    (hstrict : r.strict = false)
    (hL : L = [] ∨ PlainText.TextBeforeTag L) (hR : PlainText.noOpen R)
    (hwith : assocGet r.helpers ['w', 'i', 't', 'h'] = some .withH)
    (hsafe : Spec.indexSafe data [['v']] = true) (hj : Spec.descend data [['v']] = some j) :
    r.renderTemplate fs (L ++ withBlockSrc ++ R) data = .ok (L ++ (if j.truthy false then ['A'] else []) ++ R) := by
  unfold Registry.renderTemplate Registry.renderTemplateToWrite Registry.renderTemplateWithContextToWrite
    Registry.compileForRenderTemplate
  obtain ⟨m, hcomp⟩ := PlainText.compile_text_wi_text L _ _ { preventIndent := r.preventIndent } hL (PlainText.textAfterTag_split R hR)
  rw [← PlainText.split_ws R] at hcomp
  rw [hcomp]
  simp only [Registry.renderResolved, hdev, Bool.not_false, ↓reduceIte]
  generalize Pest.lineCol (L ++ PlainText.wiSrc ++ R) (L.length + 11) = lc
  let txt : Str := if j.truthy false then ['A'] else []
  let ets : List (Elem × Str) := (if L = [] then [] else [(.raw L, L)]) ++ [(.block (PlainText.wiHT (PlainText.wiBody lc)), txt)]
    ++ (if R = [] then [] else [(.raw R, R)])
  have hel : (PlainText.leftT L L).elements ++ [Elem.block (PlainText.wiHT (PlainText.wiBody lc))] ++ (if R = [] then [] else [Elem.raw R])
      = ets.map (·.1) := by
    simp only [ets]
    by_cases hLe : L = [] <;> by_cases hRe : R = [] <;> simp [hLe, hRe, PlainText.leftT, Tmpl.empty, Tmpl.elements]
  have htxt : (ets.map (·.2)).flatten = L ++ txt ++ R := by
    simp only [ets]
    by_cases hLe : L = [] <;> by_cases hRe : R = [] <;> simp [hLe, hRe]
  rw [hel]
  have hw : ∀ p ∈ ets, WritesText r data { ({ rootTemplate := none } : RC) with currentTemplate := none } p.1 p.2 := by
    intro p hp
    simp only [ets, List.mem_append, List.mem_singleton] at hp
    rcases hp with (hp | rfl) | hp
    · split at hp
      · simp at hp
      · simp at hp; subst hp; exact writes_raw r data _ rfl L
    · exact with_text_block_writes r data j _ lc hstrict rfl rfl rfl rfl rfl hwith hsafe hj
    · split at hp
      · simp at hp
      · simp at hp; subst hp; exact writes_raw r data _ rfl R
  have hlen : ets.length + 12 ≤ renderFuel := by
    have h1 : (if L = [] then [] else [((Elem.raw L, L) : Elem × Str)]).length ≤ 1 := by split <;> simp
    have h2 : (if R = [] then [] else [((Elem.raw R, R) : Elem × Str)]).length ≤ 1 := by split <;> simp
    simp only [ets, List.length_append, List.length_singleton]
    have : renderFuel = 4000 := rfl
    omega
  have := render_writes_template r data none ets m { rootTemplate := none } hlen hw
  simp only [Tmpl.name] at this ⊢
  rw [this, htxt]

example : assocGet Registry.new.helpers ['w', 'i', 't', 'h'] = some .withH := by rfl

/-! ### `{{#if v}}` X `{{/if}}` for every body text X – at source level -/

/-- the block element `{{#if v}}A{{/if}}` compiles to writes `A` when `data.v` is truthy and nothing otherwise – and leaves
    the render state as it was (up to the write flags) -/
theorem if_block_writes_any_body (X : Str) (reg : Registry) (root j : Json) (rc0 : RC) (lc : Nat × Nat)
    (hb : rc0.blocks = [{}]) (hi : rc0.indentString = none) (hmc : rc0.modifiedCtx = none) (hct : rc0.currentTemplate = none)
    (hl : assocGet rc0.localHelpers ['i', 'f'] = none) (hr : assocGet reg.helpers ['i', 'f'] = some (.ifH true))
    (hsafe : Spec.indexSafe root [['v']] = true) (hj : Spec.descend root [['v']] = some j) :
    WritesText reg root rc0 (.block (PlainText.ifHT (PlainText.ifBodyX X lc))) (if j.truthy false then X else []) := by
  intro fuel rc out hq hf
  have hblocks : rc.blocks = [{}] := by rw [hq.blocks, hb]
  have hev : evaluate2 root (.relative [.named ['v']] ['v']) rc out = .ok (.context j [['v']]) rc out := by
    have := C01.navigate_current_path_scope root {} [] ['v'] [] rc out (by simp [getInBlockParams, assocGet]) rfl (by simpa using hsafe)
    simp only [C01.names, List.map_cons, List.map_nil] at this
    simp only [evaluate2, RM.bind_def, RM.bnd_apply, RM.get_apply, hblocks, this, C01.blockValue, Spec.descend]
    simp only [Option.bind]
    have hj' : (Spec.step root ['v']).bind (fun v' => Spec.descend v' []) = some j := by simpa [Spec.descend] using hj
    simp [Spec.descend] at hj' ⊢
    rw [hj']
  have hmc' : rc.modifiedCtx = none := by rw [hq]; exact hmc
  have hl' : assocGet rc.localHelpers ['i', 'f'] = none := by rw [hq]; exact hl
  have hpath : Path.new ['v'] [.named ['v']] = .relative [.named ['v']] ['v'] := rfl
  -- the helper as evaluated
  have hh : helperFromTemplate reg root (fuel + 4) (PlainText.ifHT (PlainText.ifBodyX X lc)) rc out
      = .ok { name := ['i', 'f'], params := [⟨some ['v'], .context j [['v']]⟩], hash := [], template := some (PlainText.ifBodyX X lc),
              inverse := none, blockParam := none, block := true } rc out := by
    simp [helperFromTemplate, PlainText.ifHT, PlainText.ifOpen, HelperG.new, expandAsName, expandParams, expandParam, expandHash,
      RM.bnd_apply, hmc', hpath, hev, Path.raw]
  -- the state the helper is called in, and the one after the call
  let rc1 : RC := { rc with contentProduced := false, indentBeforeWrite := rc.indentBeforeWrite || (false && rc.trailingNewline) }
  have hq1 : Quiet rc0 rc1 := hq.flags _ _ _
  have hm1 := quiet_modifyAux rc0 rc (fun r => { r with contentProduced := false, indentBeforeWrite := rc.indentBeforeWrite || ((PlainText.ifHT (PlainText.ifBodyX X lc)).indentBeforeWrite && r.trailingNewline) }) out hq (hq.flags _ _ _)
  have hcall := if_renders_selected reg root (fuel + 3) true { name := ['i', 'f'], params := [⟨some ['v'], .context j [['v']]⟩], hash := [], template := some (PlainText.ifBodyX X lc), inverse := none, blockParam := none, block := true } ⟨some ['v'], .context j [['v']]⟩ [] rfl
  have hc4 : callHelper reg root (fuel + 4) (.ifH true) { name := ['i', 'f'], params := [⟨some ['v'], .context j [['v']]⟩], hash := [], template := some (PlainText.ifBodyX X lc), inverse := none, blockParam := none, block := true } = _ := hcall
  simp only [renderElem, renderHelper, RM.bind_def, RM.bnd_apply, hh, RM.get_apply, hl', hr, hm1, hc4]
  have hz : ((assocGet ([] : List (Str × PJ)) (str "includeZero")).bind fun x => x.json.asBool?).getD false = false := by simp [assocGet]
  have hjs : ({ relPath := some ['v'], value := SJ.context j [['v']] } : PJ).json = j := rfl
  have hibw : (PlainText.ifHT (PlainText.ifBodyX X lc)).indentBeforeWrite = false := rfl
  simp only [hz, hjs, if_true, hibw, Bool.false_and, Bool.or_false]
  by_cases ht : j.truthy false = true
  · simp only [ht, if_true]
    -- the body: one text element, rendered with the current template name handed over and back
    have hqA : Quiet rc0 { rc with contentProduced := false } := hq.flags _ _ _
    have hqB : Quiet rc0 { rc with contentProduced := false, currentTemplate := none } := by
      have := Quiet.setTemplate hqA
      rw [hct] at this
      exact this
    obtain ⟨rc2, out2, hw, hq2, hf2, ht2⟩ := indentAwareWrite_quiet rc0 hi X _ out hqB hf
    have hmA := quiet_modifyAux rc0 { rc with contentProduced := false } (fun r => { r with currentTemplate := (PlainText.ifBodyX X lc).name }) out hqA hqB
    have hq3 : Quiet rc0 { rc2 with currentTemplate := rc.currentTemplate } := by
      have := Quiet.setTemplate hq2
      rw [← Quiet.template hq] at this
      exact this
    have hmB := quiet_modifyAux rc0 rc2 (fun r => { r with currentTemplate := rc.currentTemplate }) out2 hq2 hq3
    have hbody : renderTemplate reg root (fuel + 3) (PlainText.ifBodyX X lc) { rc with contentProduced := false } out
        = .ok () { rc2 with currentTemplate := rc.currentTemplate } out2 := by
      simp only [renderTemplate, RM.bind_def, RM.bnd_apply, RM.get_apply, hmA]
      simp only [PlainText.ifBodyX, Tmpl.empty, Tmpl.pushElement, Tmpl.name, Tmpl.elements, Tmpl.mapping, List.nil_append, renderElems,
        renderElem, RM.bind_def, RM.bnd_apply, RM.mapErr, hw, RM.pure_def, RM.ret_apply, Option.isNone_none]
      simp only [↓reduceIte]
      exact hmB
    rw [hbody]
    simp only []
    have hqG : Quiet rc0 ((fun rc_1 : RC => if rc_1.contentProduced = true then { rc_1 with indentBeforeWrite := rc_1.trailingNewline } else { rc_1 with contentProduced := rc.contentProduced, indentBeforeWrite := rc.indentBeforeWrite }) { rc2 with currentTemplate := rc.currentTemplate }) := by
      by_cases hcp : rc2.contentProduced = true
      · simp only [hcp, ↓reduceIte]; exact Quiet.flags hq3 _ _ _
      · simp only [hcp, ↓reduceIte]; exact Quiet.flags hq3 _ _ _
    exact ⟨_, _, quiet_modifyAux rc0 _ _ out2 hq3 hqG, hqG, hf2, ht2⟩
  · simp only [ht, Bool.false_eq_true, if_false]
    have hqA : Quiet rc0 { rc with contentProduced := false } := hq.flags _ _ _
    have hqG : Quiet rc0 ((fun rc_1 : RC => if rc_1.contentProduced = true then { rc_1 with indentBeforeWrite := rc_1.trailingNewline } else { rc_1 with contentProduced := rc.contentProduced, indentBeforeWrite := rc.indentBeforeWrite }) { rc with contentProduced := false }) := by
      simp only [Bool.false_eq_true, ↓reduceIte]; exact Quiet.flags hqA _ _ _
    exact ⟨_, _, quiet_modifyAux rc0 _ _ out hqA hqG, hqG, hf, by simp⟩

/-- `{{#if v}}` X `{{/if}}` -/
abbrev ifBlockSrcX (X : Str) : Str := PlainText.ifXSrc X

/-- **render(L ++ {{#if v}} X {{/if}} ++ R) = L ++ (X when data.v is truthy, nothing otherwise) ++ R for EVERY body text X** (without `{{` and backslashes, beginning and ending with a non-whitespace character) – from the source string to
    the bytes, for EVERY text `L` that may stand before a tag, EVERY text `R` without `{{` and every data value: the block
    renders its body exactly when the condition is truthy, and the text around it – whitespace and line breaks next to the
    block tags included, since neither tag stands alone on its line – is reproduced verbatim.  Through the regenerated grammar
    (the opening and closing tags decided by the known-prefix evaluator, the body by the text lemmas, the block assembled on the normal form of `helper_block`: `Lemmas/IfBodyTag.lean`), four iterations of the loop of compile2 (block start, body template, body text, block end,
    with the standalone-line test at both tags) and the renderer (`renderHelper`, the `if` helper, the body template). -/
theorem if_block_any_body_renders_by_truthiness (r : Registry) (fs : FS) (X L R : Str) (hX : PlainText.BlockText X) (data j : Json) (hdev : r.dev = false)
    (hL : L = [] ∨ PlainText.TextBeforeTag L) (hR : PlainText.noOpen R)
    (hif : assocGet r.helpers ['i', 'f'] = some (.ifH true))
    (hsafe : Spec.indexSafe data [['v']] = true) (hj : Spec.descend data [['v']] = some j) :
    r.renderTemplate fs (L ++ ifBlockSrcX X ++ R) data = .ok (L ++ (if j.truthy false then X else []) ++ R) := by
  unfold Registry.renderTemplate Registry.renderTemplateToWrite Registry.renderTemplateWithContextToWrite
    Registry.compileForRenderTemplate
  obtain ⟨m, hcomp⟩ := PlainText.compile_text_ifX_text X L _ _ { preventIndent := r.preventIndent } hX hL (PlainText.textAfterTag_split R hR)
  rw [← PlainText.split_ws R] at hcomp
  rw [hcomp]
  simp only [Registry.renderResolved, hdev, Bool.not_false, ↓reduceIte]
  generalize Pest.lineCol (L ++ PlainText.ifXSrc X ++ R) (L.length + 9) = lc
  let txt : Str := if j.truthy false then X else []
  let ets : List (Elem × Str) := (if L = [] then [] else [(.raw L, L)]) ++ [(.block (PlainText.ifHT (PlainText.ifBodyX X lc)), txt)]
    ++ (if R = [] then [] else [(.raw R, R)])
  have hel : (PlainText.leftT L L).elements ++ [Elem.block (PlainText.ifHT (PlainText.ifBodyX X lc))] ++ (if R = [] then [] else [Elem.raw R])
      = ets.map (·.1) := by
    simp only [ets]
    by_cases hLe : L = [] <;> by_cases hRe : R = [] <;> simp [hLe, hRe, PlainText.leftT, Tmpl.empty, Tmpl.elements]
  have htxt : (ets.map (·.2)).flatten = L ++ txt ++ R := by
    simp only [ets]
    by_cases hLe : L = [] <;> by_cases hRe : R = [] <;> simp [hLe, hRe]
  rw [hel]
  have hw : ∀ p ∈ ets, WritesText r data { ({ rootTemplate := none } : RC) with currentTemplate := none } p.1 p.2 := by
    intro p hp
    simp only [ets, List.mem_append, List.mem_singleton] at hp
    rcases hp with (hp | rfl) | hp
    · split at hp
      · simp at hp
      · simp at hp; subst hp; exact writes_raw r data _ rfl L
    · exact if_block_writes_any_body X r data j _ lc rfl rfl rfl rfl rfl hif hsafe hj
    · split at hp
      · simp at hp
      · simp at hp; subst hp; exact writes_raw r data _ rfl R
  have hlen : ets.length + 12 ≤ renderFuel := by
    have h1 : (if L = [] then [] else [((Elem.raw L, L) : Elem × Str)]).length ≤ 1 := by split <;> simp
    have h2 : (if R = [] then [] else [((Elem.raw R, R) : Elem × Str)]).length ≤ 1 := by split <;> simp
    simp only [ets, List.length_append, List.length_singleton]
    have : renderFuel = 4000 := rfl
    omega
  have := render_writes_template r data none ets m { rootTemplate := none } hlen hw
  simp only [Tmpl.name] at this ⊢
  rw [this, htxt]



/-! ### `{{#unless v}}` X `{{/unless}}` and `{{#with v}}` X `{{/with}}` for every body text X -/

abbrev unlessBlockSrcX (X : Str) : Str := PlainText.unXSrc X

/-- **render(L ++ {{#unless v}} X {{/unless}} ++ R) = L ++ (X when data.v is FALSY, nothing otherwise) ++ R** – from the source string to
    the bytes, for every text `L`, `R` and every data value: `unless` is the negation of `if` -/
theorem unless_block_any_body_renders_by_falsiness (r : Registry) (fs : FS) (X L R : Str) (hX : PlainText.BlockText X) (data j : Json) (hdev : r.dev = false)
    (hL : L = [] ∨ PlainText.TextBeforeTag L) (hR : PlainText.noOpen R)
    (hun : assocGet r.helpers ['u', 'n', 'l', 'e', 's', 's'] = some (.ifH false))
    (hsafe : Spec.indexSafe data [['v']] = true) (hj : Spec.descend data [['v']] = some j) :
    r.renderTemplate fs (L ++ unlessBlockSrcX X ++ R) data = .ok (L ++ (if j.truthy false then [] else X) ++ R) := by
  unfold Registry.renderTemplate Registry.renderTemplateToWrite Registry.renderTemplateWithContextToWrite
    Registry.compileForRenderTemplate
  obtain ⟨m, hcomp⟩ := PlainText.compile_text_unX_text X L _ _ { preventIndent := r.preventIndent } hX hL (PlainText.textAfterTag_split R hR)
  rw [← PlainText.split_ws R] at hcomp
  rw [hcomp]
  simp only [Registry.renderResolved, hdev, Bool.not_false, ↓reduceIte]
  generalize Pest.lineCol (L ++ PlainText.unXSrc X ++ R) (L.length + 13) = lc
  let txt : Str := if j.truthy false then [] else X
  let ets : List (Elem × Str) := (if L = [] then [] else [(.raw L, L)]) ++ [(.block (PlainText.unHT (PlainText.unBodyX X lc)), txt)]
    ++ (if R = [] then [] else [(.raw R, R)])
  have hel : (PlainText.leftT L L).elements ++ [Elem.block (PlainText.unHT (PlainText.unBodyX X lc))] ++ (if R = [] then [] else [Elem.raw R])
      = ets.map (·.1) := by
    simp only [ets]
    by_cases hLe : L = [] <;> by_cases hRe : R = [] <;> simp [hLe, hRe, PlainText.leftT, Tmpl.empty, Tmpl.elements]
  have htxt : (ets.map (·.2)).flatten = L ++ txt ++ R := by
    simp only [ets]
    by_cases hLe : L = [] <;> by_cases hRe : R = [] <;> simp [hLe, hRe]
  rw [hel]
  have hw : ∀ p ∈ ets, WritesText r data { ({ rootTemplate := none } : RC) with currentTemplate := none } p.1 p.2 := by
    intro p hp
    simp only [ets, List.mem_append, List.mem_singleton] at hp
    rcases hp with (hp | rfl) | hp
    · split at hp
      · simp at hp
      · simp at hp; subst hp; exact writes_raw r data _ rfl L
    · have := cond_text_block_writes false ['u', 'n', 'l', 'e', 's', 's'] r data j { ({ rootTemplate := none } : RC) with currentTemplate := none }
        (PlainText.unHT (PlainText.unBodyX X lc)) X lc rfl rfl rfl rfl rfl rfl rfl rfl rfl rfl hun hsafe hj
      have e : (if (if false = true then j.truthy false else !j.truthy false) = true then X else []) = txt := by
        simp only [txt]
        cases j.truthy false <;> simp
      rw [e] at this
      exact this
    · split at hp
      · simp at hp
      · simp at hp; subst hp; exact writes_raw r data _ rfl R
  have hlen : ets.length + 12 ≤ renderFuel := by
    have h1 : (if L = [] then [] else [((Elem.raw L, L) : Elem × Str)]).length ≤ 1 := by split <;> simp
    have h2 : (if R = [] then [] else [((Elem.raw R, R) : Elem × Str)]).length ≤ 1 := by split <;> simp
    simp only [ets, List.length_append, List.length_singleton]
    have : renderFuel = 4000 := rfl
    omega
  have := render_writes_template r data none ets m { rootTemplate := none } hlen hw
  simp only [Tmpl.name] at this ⊢
  rw [this, htxt]



/-- the block element `{{#with v}} X {{/with}}` compiles to (non-strict mode): the body – rendered in the scope of the value – is
    written when `data.v` is truthy, nothing otherwise; the scope pushed for the body is popped again -/
theorem with_any_text_block_writes (X : Str) (reg : Registry) (root j : Json) (rc0 : RC) (lc : Nat × Nat) (hstrict : reg.strict = false)
    (hb : rc0.blocks = [{}]) (hi : rc0.indentString = none) (hmc : rc0.modifiedCtx = none) (hct : rc0.currentTemplate = none)
    (hl : assocGet rc0.localHelpers ['w', 'i', 't', 'h'] = none) (hr : assocGet reg.helpers ['w', 'i', 't', 'h'] = some .withH)
    (hsafe : Spec.indexSafe root [['v']] = true) (hj : Spec.descend root [['v']] = some j) :
    WritesText reg root rc0 (.block (PlainText.wiHT (PlainText.wiBodyX X lc))) (if j.truthy false then X else []) := by
  intro fuel rc out hq hf
  have hblocks : rc.blocks = [{}] := by rw [hq.blocks, hb]
  have hev : evaluate2 root (.relative [.named ['v']] ['v']) rc out = .ok (.context j [['v']]) rc out := by
    have := C01.navigate_current_path_scope root {} [] ['v'] [] rc out (by simp [getInBlockParams, assocGet]) rfl (by simpa using hsafe)
    simp only [C01.names, List.map_cons, List.map_nil] at this
    simp only [evaluate2, RM.bind_def, RM.bnd_apply, RM.get_apply, hblocks, this, C01.blockValue, Spec.descend]
    simp only [Option.bind]
    have hj' : (Spec.step root ['v']).bind (fun v' => Spec.descend v' []) = some j := by simpa [Spec.descend] using hj
    simp [Spec.descend] at hj' ⊢
    rw [hj']
  have hmc' : rc.modifiedCtx = none := by rw [hq]; exact hmc
  have hl' : assocGet rc.localHelpers ['w', 'i', 't', 'h'] = none := by rw [hq]; exact hl
  have hpath : Path.new ['v'] [.named ['v']] = .relative [.named ['v']] ['v'] := rfl
  have hh : helperFromTemplate reg root (fuel + 4) (PlainText.wiHT (PlainText.wiBodyX X lc)) rc out
      = .ok { name := ['w', 'i', 't', 'h'], params := [⟨some ['v'], .context j [['v']]⟩], hash := [], template := some (PlainText.wiBodyX X lc), inverse := none, blockParam := none, block := true } rc out := by
    simp [helperFromTemplate, PlainText.wiHT, PlainText.wiOpen, HelperG.new, expandAsName, expandParams, expandParam, expandHash,
      RM.bnd_apply, hmc', hpath, hev, Path.raw]
  have hm1 := quiet_modifyAux rc0 rc (fun r => { r with contentProduced := false, indentBeforeWrite := rc.indentBeforeWrite || ((PlainText.wiHT (PlainText.wiBodyX X lc)).indentBeforeWrite && r.trailingNewline) }) out hq (hq.flags _ _ _)
  simp only [renderElem, renderHelper, RM.bind_def, RM.bnd_apply, hh, RM.get_apply, hl', hr, hm1]
  have hibw : (PlainText.wiHT (PlainText.wiBodyX X lc)).indentBeforeWrite = false := rfl
  simp only [hibw, Bool.false_and, Bool.or_false]
  have hqA : Quiet rc0 { rc with contentProduced := false } := hq.flags _ _ _
  let rcA : RC := { rc with contentProduced := false }
  have finish : ∀ (rc2 : RC) (out2 : Out) (txt : Str), Quiet rc0 rc2 → out2.failAt = none → out2.text = out.text ++ txt →
      ∃ rc' out', RM.modifyAux (fun rc_1 : RC => if rc_1.contentProduced = true then { rc_1 with indentBeforeWrite := rc_1.trailingNewline } else { rc_1 with contentProduced := rc.contentProduced, indentBeforeWrite := rc.indentBeforeWrite }) rc2 out2 = .ok () rc' out'
        ∧ Quiet rc0 rc' ∧ out'.failAt = none ∧ out'.text = out.text ++ txt := by
    intro rc2 out2 txt hq2 hf2 ht2
    have hqG : Quiet rc0 ((fun rc_1 : RC => if rc_1.contentProduced = true then { rc_1 with indentBeforeWrite := rc_1.trailingNewline } else { rc_1 with contentProduced := rc.contentProduced, indentBeforeWrite := rc.indentBeforeWrite }) rc2) := by
      by_cases hcp : rc2.contentProduced = true
      · simp only [hcp, ↓reduceIte]; exact Quiet.flags hq2 _ _ _
      · simp only [hcp, ↓reduceIte]; exact Quiet.flags hq2 _ _ _
    exact ⟨_, _, quiet_modifyAux rc0 _ _ out2 hq2 hqG, hqG, hf2, ht2⟩
  by_cases ht : j.truthy false = true
  · -- truthy: the body in the pushed scope
    let rcP : RC := { rcA with blocks := { basePath := [['v']] } :: rcA.blocks }
    obtain ⟨rc2, out2, hbody, hq2, hf2, ht2⟩ := render_text_template reg root rcP rcP out X lc fuel
      (by show rc.indentString = none; rw [hq.indent]; exact hi) (by show rc.currentTemplate = none; rw [Quiet.template hq]; exact hct) (Quiet.refl _) hf
    have hcall : callHelper reg root (fuel + 4) .withH { name := ['w', 'i', 't', 'h'], params := [⟨some ['v'], .context j [['v']]⟩], hash := [], template := some (PlainText.wiBodyX X lc), inverse := none, blockParam := none, block := true } rcA out
        = .ok () { rc2 with blocks := rc2.blocks.drop 1 } out2 := by
      rw [show fuel + 4 = (fuel + 3) + 1 by omega]
      simp only [callHelper, HelperKind.hasInner, Bool.false_eq_true, ↓reduceIte, List.getElem?_cons_zero, PJ.json, SJ.asJson, ht, PJ.contextPath,
        SJ.contextPath, createBlock, HelperI.blockParam1, RM.withBlock, RM.bracket_apply]
      unfold PlainText.wiBodyX
      rw [hbody]
    rw [hcall]
    simp only [ht, if_true]
    have hq4 : Quiet rc0 { rc2 with blocks := rc2.blocks.drop 1 } := by
      have hrcA : Quiet rc0 rcA := hqA
      unfold Quiet at hq2 hrcA ⊢
      rw [hq2]
      simp only [rcP, List.drop_succ_cons, List.drop_zero]
      rw [hrcA]
    exact finish _ out2 X hq4 hf2 ht2
  · have hcall : callHelper reg root (fuel + 4) .withH { name := ['w', 'i', 't', 'h'], params := [⟨some ['v'], .context j [['v']]⟩], hash := [], template := some (PlainText.wiBodyX X lc), inverse := none, blockParam := none, block := true } rcA out
        = .ok () rcA out := by
      rw [show fuel + 4 = (fuel + 3) + 1 by omega]
      simp [callHelper, HelperKind.hasInner, PJ.json, SJ.asJson, ht, hstrict]
    rw [hcall]
    simp only [ht, Bool.false_eq_true, if_false]
    exact finish rcA out [] hqA hf (by simp)

/-- `{{#with v}} X {{/with}}` -/
abbrev withBlockSrcX (X : Str) : Str := PlainText.wiXSrc X

/-- **render(L ++ {{#with v}} X {{/with}} ++ R) = L ++ (A when data.v is truthy, nothing otherwise) ++ R** in non-strict mode – from the
    source string to the bytes, for every text `L`, `R` and every data value: `with` selects by the same truthiness as `if`
    (0 is falsy), renders its body in the scope of the value and leaves the caller's scope as it was -/
theorem with_block_any_body_renders_by_truthiness (r : Registry) (fs : FS) (X L R : Str) (hX : PlainText.BlockText X) (data j : Json) (hdev : r.dev = false)
    (hstrict : r.strict = false)
    (hL : L = [] ∨ PlainText.TextBeforeTag L) (hR : PlainText.noOpen R)
    (hwith : assocGet r.helpers ['w', 'i', 't', 'h'] = some .withH)
    (hsafe : Spec.indexSafe data [['v']] = true) (hj : Spec.descend data [['v']] = some j) :
    r.renderTemplate fs (L ++ withBlockSrcX X ++ R) data = .ok (L ++ (if j.truthy false then X else []) ++ R) := by
  unfold Registry.renderTemplate Registry.renderTemplateToWrite Registry.renderTemplateWithContextToWrite
    Registry.compileForRenderTemplate
  obtain ⟨m, hcomp⟩ := PlainText.compile_text_wiX_text X L _ _ { preventIndent := r.preventIndent } hX hL (PlainText.textAfterTag_split R hR)
  rw [← PlainText.split_ws R] at hcomp
  rw [hcomp]
  simp only [Registry.renderResolved, hdev, Bool.not_false, ↓reduceIte]
  generalize Pest.lineCol (L ++ PlainText.wiXSrc X ++ R) (L.length + 11) = lc
  let txt : Str := if j.truthy false then X else []
  let ets : List (Elem × Str) := (if L = [] then [] else [(.raw L, L)]) ++ [(.block (PlainText.wiHT (PlainText.wiBodyX X lc)), txt)]
    ++ (if R = [] then [] else [(.raw R, R)])
  have hel : (PlainText.leftT L L).elements ++ [Elem.block (PlainText.wiHT (PlainText.wiBodyX X lc))] ++ (if R = [] then [] else [Elem.raw R])
      = ets.map (·.1) := by
    simp only [ets]
    by_cases hLe : L = [] <;> by_cases hRe : R = [] <;> simp [hLe, hRe, PlainText.leftT, Tmpl.empty, Tmpl.elements]
  have htxt : (ets.map (·.2)).flatten = L ++ txt ++ R := by
    simp only [ets]
    by_cases hLe : L = [] <;> by_cases hRe : R = [] <;> simp [hLe, hRe]
  rw [hel]
  have hw : ∀ p ∈ ets, WritesText r data { ({ rootTemplate := none } : RC) with currentTemplate := none } p.1 p.2 := by
    intro p hp
    simp only [ets, List.mem_append, List.mem_singleton] at hp
    rcases hp with (hp | rfl) | hp
    · split at hp
      · simp at hp
      · simp at hp; subst hp; exact writes_raw r data _ rfl L
    · exact with_any_text_block_writes X r data j _ lc hstrict rfl rfl rfl rfl rfl hwith hsafe hj
    · split at hp
      · simp at hp
      · simp at hp; subst hp; exact writes_raw r data _ rfl R
  have hlen : ets.length + 12 ≤ renderFuel := by
    have h1 : (if L = [] then [] else [((Elem.raw L, L) : Elem × Str)]).length ≤ 1 := by split <;> simp
    have h2 : (if R = [] then [] else [((Elem.raw R, R) : Elem × Str)]).length ≤ 1 := by split <;> simp
    simp only [ets, List.length_append, List.length_singleton]
    have : renderFuel = 4000 := rfl
    omega
  have := render_writes_template r data none ets m { rootTemplate := none } hlen hw
  simp only [Tmpl.name] at this ⊢
  rw [this, htxt]

end Hbs.C06
