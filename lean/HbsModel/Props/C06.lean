import HbsModel.Registry
import HbsModel.Lemmas.RM
/-
  C06  Conditional blocks render exactly the one branch selected by truthiness.
-/
namespace Hbs.C06
open Hbs RM

/-! ### truthiness (`JsonTruthy::is_truthy`) by cases -/

theorem truthy_false (z : Bool) : (Json.bool false).truthy z = false := rfl
theorem truthy_true (z : Bool) : (Json.bool true).truthy z = true := rfl
theorem truthy_null (z : Bool) : Json.null.truthy z = false := rfl
theorem truthy_empty_string (z : Bool) : (Json.str []).truthy z = false := rfl
theorem truthy_string (c : Char) (s : Str) (z : Bool) : (Json.str (c :: s)).truthy z = true := rfl
theorem truthy_empty_array (z : Bool) : (Json.arr .nil).truthy z = false := rfl
theorem truthy_array (h : Json) (t : JList) (z : Bool) : (Json.arr (.cons h t)).truthy z = true := rfl
theorem truthy_empty_object (z : Bool) : (Json.obj .nil).truthy z = false := rfl
theorem truthy_object (k : Str) (v : Json) (t : JObj) (z : Bool) : (Json.obj (.cons k v t)).truthy z = true := rfl

/-- integers: zero is false, everything else true -/
theorem truthy_pos_int (n : Nat) : (Json.num (.pos n)).truthy false = (n != 0) := rfl
theorem truthy_neg_int (n : Nat) : (Json.num (.neg n)).truthy false = true := rfl
/-- with includeZero every number is true -/
theorem truthy_include_zero (n : Num) : (Json.num n).truthy true = true := by
  cases n <;> rfl

/-- floats: ±0.0 is false, EVERYTHING else is true – subnormals included (they were falsy before the
    repair recorded in known_findings.json as `fixed: property=C06`) -/
theorem truthy_float (b : Nat) : (Json.num (.flt b)).truthy false = !F64.isZero b := rfl

theorem truthy_float_zero : (Json.num (.flt 0)).truthy false = false ∧ (Json.num (.flt F64.negZero)).truthy false = false := by
  decide

/-- the smallest subnormal 5e-324 (bits = 1) is non-zero and therefore true -/
theorem subnormal_is_truthy : F64.isZero 1 = false ∧ (Json.num (.flt 1)).truthy false = true := by decide

/-! ### if / unless pick exactly one branch and do not touch the scope -/

/-- what `{{#if v}}` / `{{#unless v}}` do: render the selected template from the *same* render
    context (no block is pushed), or nothing. -/
theorem if_renders_selected (reg : Registry) (root : Json) (fuel : Nat) (positive : Bool) (h : HelperI)
    (p : PJ) (ps : List PJ) (hp : h.params = p :: ps) :
    callHelper reg root (fuel + 1) (.ifH positive) h =
      (let z := ((assocGet h.hash (str "includeZero")).bind (·.json.asBool?)).getD false
       let v := if positive then p.json.truthy z else !p.json.truthy z
       match (if v then h.template else h.inverse) with
       | some t => renderTemplate reg root fuel t
       | none => pure ()) := by
  funext rc out
  simp [callHelper, HelperKind.hasInner, hp]
  rfl

/-- unless is the negation of if: with the branches swapped they are the same computation -/
theorem unless_is_not_if (reg : Registry) (root : Json) (fuel : Nat) (h : HelperI) (p : PJ) (ps : List PJ)
    (hp : h.params = p :: ps) :
    callHelper reg root (fuel + 1) (.ifH false) h =
    callHelper reg root (fuel + 1) (.ifH true) { h with template := h.inverse, inverse := h.template } := by
  rw [if_renders_selected reg root fuel false h p ps hp,
      if_renders_selected reg root fuel true _ p ps (by simpa using hp)]
  simp only [Bool.false_eq_true, ↓reduceIte]
  cases p.json.truthy _ <;> simp

/-- a missing condition argument is an error, not a default -/
theorem if_requires_param (reg : Registry) (root : Json) (fuel : Nat) (positive : Bool) (h : HelperI)
    (hp : h.params = []) (rc : RC) (out : Out) :
    callHelper reg root (fuel + 1) (.ifH positive) h rc out
      = .err (.of (.paramNotFoundForIndex (str "if") 0)) out := by
  simp [callHelper, HelperKind.hasInner, hp]

/-- `with` selects: truthy → body in the new scope, else the inverse (same scope), else nothing /
    strict error -/
theorem with_falsy_renders_inverse (reg : Registry) (root : Json) (fuel : Nat) (h : HelperI) (p : PJ)
    (ps : List PJ) (hp : h.params = p :: ps) (hf : p.json.truthy false = false) :
    callHelper reg root (fuel + 1) .withH h =
      (match h.inverse with
       | some t => renderTemplate reg root fuel t
       | none => if reg.strict then throw (strictError p.relPath) else pure ()) := by
  funext rc out
  simp [callHelper, HelperKind.hasInner, hp, hf]
  rfl

/-! ### else-chains: the parser's in-place reversal -/

/-- `insert_inverse_node` pushes the new link in FRONT of the links collected so far … -/
theorem insert_pushes_front (h node : HelperT) :
    (insertInverseNode h node).inverse =
      some (Tmpl.empty.pushElemOnly (.block { node with inverse := h.inverse })) := rfl

/-- … and `revert_chain_and_set`'s loop reverses that list while re-linking `inverse`: one step. -/
theorem revertChain_step (fuel : Nat) (node : Tmpl) (c : HelperT) (prev : Option Tmpl)
    (hn : node.elements = [.block c]) :
    revertChain (fuel + 1) (some node) prev =
      revertChain fuel c.inverse (some (node.setElements [.block { c with inverse := prev }])) := by
  simp [revertChain, hn]

theorem revertChain_done (fuel : Nat) (prev : Option Tmpl) : revertChain (fuel + 1) none prev = .ok prev := rfl

end Hbs.C06
