import HbsModel.Props.C07b
import HbsModel.Props.C01c
import HbsModel.Lemmas.EachUp
/-
  C07 / C01 (continued)  `../` out of an iteration: `{{#each v}}{{../x}}{{/each}}` writes the OUTER scope's `x` once per element.
-/
namespace Hbs.C07
open Hbs RM Hbs.C02

theorem eachIterBlock_blockParams (b : Block) (h : HelperI) (path : Option (List Str)) (i len : Nat) (key : Option Str) (rel : Str) (v : Json)
    (hbp : h.blockParam = none) : (eachIterBlock b h path i len key rel v).blockParams = b.blockParams := by
  simp [eachIterBlock, setBlockParam, HelperI.blockParam1, HelperI.blockParamPair, hbp]

/-- the loop of `each` over ANY list of array items with the body `{{../x}}` (no block parameters): the escaped text of the OUTER scope's `x` is written
    once per item; the state stays as it was up to the front block (the iteration variables) and the write flags -/
theorem eachLoop_up (reg : Registry) (root : Json) (lc : Nat × Nat) (h : HelperI) (path : Option (List Str)) (len : Nat)
    (jx : Json) (hbph : h.blockParam = none)
    (hr : assocGet reg.helpers ['.', '.', '/', 'x'] = none)
    (hsafe : Spec.indexSafe root [['x']] = true) (hjx : Spec.descend root [['x']] = some jx) :
    ∀ (items : List (Nat × Option Str × Str × Json)) (fuel : Nat) (rcS : RC) (out : Out) (b : Block),
      b.blockParams = [] →
      rcS.indentString = none → rcS.currentTemplate = none → rcS.modifiedCtx = none → rcS.disableEscape = false →
      assocGet rcS.localHelpers ['.', '.', '/', 'x'] = none →
      rcS.blocks = [b, {}] → out.failAt = none →
      ∃ rc' out', eachLoop reg root (fuel + items.length + 7) (Tmpl.empty.pushElement (.expr PlainText.upHT) lc.1 lc.2) h path len items rcS out = .ok () rc' out'
        ∧ (∃ b', Quiet { rcS with blocks := [b', {}] } rc') ∧ out'.failAt = none
        ∧ out'.text = out.text ++ (List.replicate items.length (reg.escape jx.render)).flatten := by
  intro items
  induction items with
  | nil =>
    intro fuel rcS out b _ hi hct hmc hde hl hbl hf
    refine ⟨rcS, out, by simp [eachLoop], ⟨b, ?_⟩, hf, by simp⟩
    have : ({ rcS with blocks := [b, {}] } : RC) = rcS := by rw [← hbl]
    rw [this]; exact Quiet.refl _
  | cons it rest ih =>
    intro fuel rcS out b hbpar hi hct hmc hde hl hbl hf
    obtain ⟨i, key, rel, v⟩ := it
    let rcA : RC := { rcS with blocks := [eachIterBlock b h path i len key rel v, {}] }
    have hmod : modifyFrontBlock (fun b => eachIterBlock b h path i len key rel v) rcS out = .ok () rcA out := by
      simp [modifyFrontBlock, RM.modify_apply, hbl, rcA]
    have hbp' : (eachIterBlock b h path i len key rel v).blockParams = [] := by rw [eachIterBlock_blockParams _ _ _ _ _ _ _ _ hbph]; exact hbpar
    obtain ⟨rc2, out2, hbody, hq2, hf2, ht2⟩ := C01.render_up_body reg root jx rcA rcA out lc (fuel + rest.length + 1)
      (eachIterBlock b h path i len key rel v) rfl hbp' hi hct hmc hde hl hr hsafe hjx (Quiet.refl _) hf
    unfold PlainText.wuBody at hbody
    have hi2 : rc2.indentString = none := by rw [hq2.indent]; exact hi
    have hct2 : rc2.currentTemplate = none := by rw [Quiet.template hq2]; exact hct
    have hmc2 : rc2.modifiedCtx = none := by rw [hq2]; exact hmc
    have hde2 : rc2.disableEscape = false := by rw [hq2]; exact hde
    have hl2 : assocGet rc2.localHelpers ['.', '.', '/', 'x'] = none := by rw [hq2]; exact hl
    have hb2 : rc2.blocks = [eachIterBlock b h path i len key rel v, {}] := by rw [hq2.blocks]
    obtain ⟨rc3, out3, hloop, ⟨b3, hq3⟩, hf3, ht3⟩ := ih fuel rc2 out2 _ hbp' hi2 hct2 hmc2 hde2 hl2 hb2 hf2
    refine ⟨rc3, out3, ?_, ⟨b3, ?_⟩, hf3, ?_⟩
    · rw [show fuel + ((i, key, rel, v) :: rest).length + 7 = (fuel + rest.length + 7) + 1 by simp [List.length_cons]; omega]
      simp only [eachLoop, RM.bind_def, RM.bnd_apply, hmod]
      rw [show fuel + rest.length + 7 = fuel + rest.length + 1 + 6 by omega, hbody]
      simp only []
      rw [show fuel + rest.length + 1 + 6 = fuel + rest.length + 7 by omega, hloop]
    · unfold Quiet at hq3 hq2 ⊢
      rw [hq3, hq2]
    · rw [ht3, ht2]; simp [List.replicate_succ]


/-- the block element `{{#each v}}{{../x}}{{/each}}` compiles to, on an ARRAY of any length `n` stored under `v`: the body is written once
    per element – `n` times, in order – and the render state is left as it was (the scope pushed for the iteration is popped);
    `n + 12` units of fuel above any amount suffice (the loop of the model spends one per element) -/
theorem each_up_block_writes (reg : Registry) (root : Json) (rc0 : RC) (xs : JList) (lc : Nat × Nat)
    (hb : rc0.blocks = [{}]) (hi : rc0.indentString = none) (hmc : rc0.modifiedCtx = none) (hct : rc0.currentTemplate = none)
    (hde : rc0.disableEscape = false) (hlx : assocGet rc0.localHelpers ['.', '.', '/', 'x'] = none) (hrx : assocGet reg.helpers ['.', '.', '/', 'x'] = none)
    (jx : Json) (hsafex : Spec.indexSafe root [['x']] = true) (hjx : Spec.descend root [['x']] = some jx)
    (hl : assocGet rc0.localHelpers ['e', 'a', 'c', 'h'] = none) (hr : assocGet reg.helpers ['e', 'a', 'c', 'h'] = some .each)
    (hsafe : Spec.indexSafe root [['v']] = true) (hj : Spec.descend root [['v']] = some (.arr xs)) :
    WritesTextK (xs.toList.length + 15) reg root rc0 (.block (PlainText.euHT (PlainText.euBody lc)))
      (List.replicate xs.toList.length (reg.escape jx.render)).flatten := by
  intro fuel rc out hq hf
  have hblocks : rc.blocks = [{}] := by rw [hq.blocks, hb]
  have hev : evaluate2 root (.relative [.named ['v']] ['v']) rc out = .ok (.context (.arr xs) [['v']]) rc out := by
    have := C01.navigate_current_path_scope root {} [] ['v'] [] rc out (by simp [getInBlockParams, assocGet]) rfl (by simpa using hsafe)
    simp only [C01.names, List.map_cons, List.map_nil] at this
    simp only [evaluate2, RM.bind_def, RM.bnd_apply, RM.get_apply, hblocks, this, C01.blockValue, Spec.descend]
    simp only [Option.bind]
    have hj' : (Spec.step root ['v']).bind (fun v' => Spec.descend v' []) = some (.arr xs) := by simpa [Spec.descend] using hj
    simp [Spec.descend] at hj' ⊢
    rw [hj']
  have hmc' : rc.modifiedCtx = none := by rw [hq]; exact hmc
  have hl' : assocGet rc.localHelpers ['e', 'a', 'c', 'h'] = none := by rw [hq]; exact hl
  have hpath : Path.new ['v'] [.named ['v']] = .relative [.named ['v']] ['v'] := rfl
  have hh : helperFromTemplate reg root (fuel + xs.toList.length + 13) (PlainText.euHT (PlainText.euBody lc)) rc out
      = .ok { name := ['e', 'a', 'c', 'h'], params := [⟨some ['v'], .context (.arr xs) [['v']]⟩], hash := [], template := some (PlainText.euBody lc), inverse := none, blockParam := none, block := true } rc out := by
    rw [show fuel + xs.toList.length + 13 = (fuel + xs.toList.length + 10) + 1 + 1 + 1 by omega]
    simp [helperFromTemplate, PlainText.euHT, PlainText.eaOpen, HelperG.new, expandAsName, expandParams, expandParam, expandHash,
      RM.bnd_apply, hmc', hpath, hev, Path.raw]
  have hm1 := quiet_modifyAux rc0 rc (fun r => { r with contentProduced := false, indentBeforeWrite := rc.indentBeforeWrite || ((PlainText.euHT (PlainText.euBody lc)).indentBeforeWrite && r.trailingNewline) }) out hq (hq.flags _ _ _)
  rw [show fuel + (xs.toList.length + 15) = (fuel + xs.toList.length + 13) + 1 + 1 by omega]
  simp only [renderElem, renderHelper, RM.bind_def, RM.bnd_apply, hh, RM.get_apply, hl', hr, hm1]
  have hibw : (PlainText.euHT (PlainText.euBody lc)).indentBeforeWrite = false := rfl
  simp only [hibw, Bool.false_and, Bool.or_false]
  -- the call of `each`
  have hqA : Quiet rc0 { rc with contentProduced := false } := hq.flags _ _ _
  let rcA : RC := { rc with contentProduced := false }
  let items : List (Nat × Option Str × Str × Json) := xs.toList.zipIdx.map (fun (v, i) => (i, none, natToStr i, v))
  have hitems : items.length = xs.toList.length := by simp [items]
  obtain ⟨rc3, out3, hloop, ⟨b3, hq3⟩, hf3, ht3⟩ := eachLoop_up reg root lc
    { name := ['e', 'a', 'c', 'h'], params := [⟨some ['v'], .context (.arr xs) [['v']]⟩], hash := [], template := some (PlainText.euBody lc), inverse := none, blockParam := none, block := true }
    (some [['v']]) xs.toList.length jx rfl hrx hsafex hjx items (fuel + 5) { rcA with blocks := { basePath := [['v']] } :: rcA.blocks } out { basePath := [['v']] }
    rfl
    (by show rc.indentString = none; rw [hq.indent]; exact hi) (by show rc.currentTemplate = none; rw [Quiet.template hq]; exact hct)
    (by show rc.modifiedCtx = none; exact hmc') (by show rc.disableEscape = false; rw [hq]; exact hde)
    (by show assocGet rc.localHelpers ['.', '.', '/', 'x'] = none; rw [hq]; exact hlx)
    (by show ({ basePath := [['v']] } : Block) :: rc.blocks = _; rw [hblocks]) hf
  have hcall : callHelper reg root (fuel + xs.toList.length + 13) .each { name := ['e', 'a', 'c', 'h'], params := [⟨some ['v'], .context (.arr xs) [['v']]⟩], hash := [], template := some (PlainText.euBody lc), inverse := none, blockParam := none, block := true } rcA out
      = .ok () { rc3 with blocks := rc3.blocks.drop 1 } out3 := by
    rw [show fuel + xs.toList.length + 13 = (fuel + 5 + items.length + 7) + 1 by omega]
    simp only [callHelper, HelperKind.hasInner, Bool.false_eq_true, ↓reduceIte, List.getElem?_cons_zero, PJ.json, SJ.asJson, PJ.contextPath,
      SJ.contextPath, createBlock, Option.isNone_none, Bool.or_true, RM.withBlock, RM.bracket_apply]
    unfold PlainText.euBody at hloop ⊢
    simp only [items, hitems] at hloop ⊢
    rw [hloop]
  rw [hcall]
  simp only []
  have hq4 : Quiet rc0 { rc3 with blocks := rc3.blocks.drop 1 } := by
    have hrcA : Quiet rc0 rcA := hqA
    unfold Quiet at hq3 hrcA ⊢
    rw [hq3]
    simp only [List.drop_succ_cons, List.drop_zero]
    rw [hrcA]
    simp [hb]
  have hqG : Quiet rc0 ((fun rc_1 : RC => if rc_1.contentProduced = true then { rc_1 with indentBeforeWrite := rc_1.trailingNewline } else { rc_1 with contentProduced := rc.contentProduced, indentBeforeWrite := rc.indentBeforeWrite }) { rc3 with blocks := rc3.blocks.drop 1 }) := by
    by_cases hcp : rc3.contentProduced = true
    · simp only [hcp, ↓reduceIte]; exact Quiet.flags hq4 _ _ _
    · simp only [hcp, ↓reduceIte]; exact Quiet.flags hq4 _ _ _
  refine ⟨_, _, quiet_modifyAux rc0 _ _ out3 hq4 hqG, hqG, hf3, ?_⟩
  rw [ht3, hitems]

/-- `{{#each v}}{{../x}}{{/each}}` -/
abbrev eachUpSrc : Str := PlainText.euSrc

/-- **`../` out of an iteration**: for every text `L`, `R`, every array under `v` (of any length `n`), every value of `data.x` and every
    escape function, `L ++ {{#each v}}{{../x}}{{/each}} ++ R` renders `L ++` n copies of `escape(text of data.x)` `++ R`: in every iteration the
    current scope is the element, and `../x` is the field `x` of the scope around the block. -/
theorem each_block_parent_path_reads_the_outer_scope (r : Registry) (fs : FS) (L R : Str) (data : Json) (xs : JList) (hdev : r.dev = false)
    (hL : L = [] ∨ PlainText.TextBeforeTag L) (hR : PlainText.noOpen R)
    (heach : assocGet r.helpers ['e', 'a', 'c', 'h'] = some .each) (hrx : assocGet r.helpers ['.', '.', '/', 'x'] = none)
    (jx : Json) (hsafex : Spec.indexSafe data [['x']] = true) (hjx : Spec.descend data [['x']] = some jx)
    (hsafe : Spec.indexSafe data [['v']] = true) (hj : Spec.descend data [['v']] = some (.arr xs))
    (hlen : xs.toList.length + 33 ≤ renderFuel) :
    r.renderTemplate fs (L ++ eachUpSrc ++ R) data = .ok (L ++ (List.replicate xs.toList.length (r.escape jx.render)).flatten ++ R) := by
  unfold Registry.renderTemplate Registry.renderTemplateToWrite Registry.renderTemplateWithContextToWrite
    Registry.compileForRenderTemplate
  obtain ⟨m, hcomp⟩ := PlainText.compile_text_eu_text L _ _ { preventIndent := r.preventIndent } hL (PlainText.textAfterTag_split R hR)
  rw [← PlainText.split_ws R] at hcomp
  rw [hcomp]
  simp only [Registry.renderResolved, hdev, Bool.not_false, ↓reduceIte]
  generalize Pest.lineCol (L ++ PlainText.euSrc ++ R) (L.length + 11) = lc
  let txt : Str := (List.replicate xs.toList.length (r.escape jx.render)).flatten
  let ets : List (Elem × Str) := (if L = [] then [] else [(.raw L, L)]) ++ [(.block (PlainText.euHT (PlainText.euBody lc)), txt)]
    ++ (if R = [] then [] else [(.raw R, R)])
  have hel : (PlainText.leftT L L).elements ++ [Elem.block (PlainText.euHT (PlainText.euBody lc))] ++ (if R = [] then [] else [Elem.raw R])
      = ets.map (·.1) := by
    simp only [ets]
    by_cases hLe : L = [] <;> by_cases hRe : R = [] <;> simp [hLe, hRe, PlainText.leftT, Tmpl.empty, Tmpl.elements]
  have htxt : (ets.map (·.2)).flatten = L ++ txt ++ R := by
    simp only [ets]
    by_cases hLe : L = [] <;> by_cases hRe : R = [] <;> simp [hLe, hRe]
  rw [hel]
  have hw : ∀ p ∈ ets, WritesTextK (xs.toList.length + 15) r data { ({ rootTemplate := none } : RC) with currentTemplate := none } p.1 p.2 := by
    intro p hp
    simp only [ets, List.mem_append, List.mem_singleton] at hp
    rcases hp with (hp | rfl) | hp
    · split at hp
      · simp at hp
      · simp at hp; subst hp; exact (writes_raw r data _ rfl L).toK _ (by omega)
    · exact each_up_block_writes r data _ xs lc rfl rfl rfl rfl rfl rfl hrx jx hsafex hjx rfl heach hsafe hj
    · split at hp
      · simp at hp
      · simp at hp; subst hp; exact (writes_raw r data _ rfl R).toK _ (by omega)
  have hlen' : ets.length + (xs.toList.length + 15) + 6 ≤ renderFuel := by
    have h1 : (if L = [] then [] else [((Elem.raw L, L) : Elem × Str)]).length ≤ 1 := by split <;> simp
    have h2 : (if R = [] then [] else [((Elem.raw R, R) : Elem × Str)]).length ≤ 1 := by split <;> simp
    simp only [ets, List.length_append, List.length_singleton]
    omega
  have := render_writes_templateK (xs.toList.length + 15) r data none ets m { rootTemplate := none } hlen' hw
  simp only [Tmpl.name] at this ⊢
  rw [this, htxt]



end Hbs.C07
