import HbsModel.Registry
import HbsModel.Lemmas.RM
import HbsModel.Lemmas.Block
/-
  C07  each visits every element once, in order, with correct iteration variables.
-/
namespace Hbs.C07
open Hbs RM

/-! ### the block of iteration `i` of `len` (`each_step_vars`) -/

theorem get_put_same (lv : LocalVars) (k : Str) (v : Json)
    (hk : k = str "first" ∨ k = str "last" ∨ k = str "index" ∨ k = str "key") :
    (lv.put k v).get k = some v := by
  rcases hk with rfl | rfl | rfl | rfl <;> simp [LocalVars.put, LocalVars.get, str] <;> decide

/-- @first, @last, @index of iteration `i` (arrays: no @key is set by this iteration) -/
theorem each_array_vars (b : Block) (h : HelperI) (path : Option (List Str)) (i len : Nat) (rel : Str) (v : Json) :
    let b' := eachIterBlock b h path i len none rel v
    b'.locals.get (str "first") = some (.bool (i == 0)) ∧
    b'.locals.get (str "last") = some (.bool (i + 1 == len)) ∧
    b'.locals.get (str "index") = some (Json.ofNat i) := by
  simp only [eachIterBlock]
  simp only [setBlockParam_locals, updateBlockContext_locals]
  simp [LocalVars.put, LocalVars.get, str]

/-- objects additionally set @key to the entry's key -/
theorem each_object_vars (b : Block) (h : HelperI) (path : Option (List Str)) (i len : Nat) (k : Str) (v : Json) :
    let b' := eachIterBlock b h path i len (some k) k v
    b'.locals.get (str "first") = some (.bool (i == 0)) ∧
    b'.locals.get (str "last") = some (.bool (i + 1 == len)) ∧
    b'.locals.get (str "index") = some (Json.ofNat i) ∧
    b'.locals.get (str "key") = some (.str k) := by
  simp only [eachIterBlock]
  simp only [setBlockParam_locals, updateBlockContext_locals]
  simp [LocalVars.put, LocalVars.get, str]

/-- the context of iteration `i`, value representation: the element itself -/
theorem each_context_value (b : Block) (h : HelperI) (i len : Nat) (key : Option Str) (rel : Str) (v : Json) :
    (eachIterBlock b h none i len key rel v).baseValue = some v := by
  simp only [eachIterBlock]
  simp [updateBlockContext]

/-- the context of iteration `i`, path representation: `base ++ [i]` – pushed on the first iteration,
    the last segment overwritten afterwards -/
theorem each_context_path_first (b : Block) (h : HelperI) (p : List Str) (len : Nat) (key : Option Str)
    (rel : Str) (v : Json) :
    (eachIterBlock b h (some p) 0 len key rel v).basePath = p ++ [rel] := by
  simp only [eachIterBlock]
  simp [updateBlockContext]

theorem setLast_append {α : Type} (l : List α) (x y : α) : setLast (l ++ [x]) y = l ++ [y] := by
  simp [setLast]

theorem each_context_path_next (b : Block) (h : HelperI) (p : List Str) (i len : Nat) (key : Option Str)
    (rel prev : Str) (v : Json) (hb : b.basePath = p ++ [prev]) :
    (eachIterBlock b h (some p) (i + 1) len key rel v).basePath = p ++ [rel] := by
  simp only [eachIterBlock]
  simp [updateBlockContext, hb, setLast_append]

/-- block parameters `as |a|` / `as |a b|`: first = the element, second = the key (index for arrays);
    the order written in the template is preserved -/
theorem each_block_param_single (b : Block) (h : HelperI) (a : Str) (k v : Json)
    (hbp : h.blockParam = some (.single a)) :
    (setBlockParam b h none k v).blockParams = [(a, .value v)] := by
  simp [setBlockParam, HelperI.blockParam1, hbp]

theorem each_block_param_pair_value (b : Block) (h : HelperI) (a c : Str) (k v : Json)
    (hbp : h.blockParam = some (.pair a c)) (hne : a ≠ c) :
    assocGet (setBlockParam b h none k v).blockParams a = (some (.value v) : Option Holder) ∧
    assocGet (setBlockParam b h none k v).blockParams c = (some (.value k) : Option Holder) := by
  have hne' : (c == a) = false := by
    apply beq_eq_false_iff_ne.mpr; exact fun e => hne e.symm
  have hne2 : (a == c) = false := by simpa using hne
  simp only [setBlockParam, HelperI.blockParam1, HelperI.blockParamPair, hbp, hashInsert]
  simp only [hne', Bool.false_eq_true, ↓reduceIte]
  split <;> simp [assocGet, hne', hne2]

/-! ### every element once, in order: the loop -/

/-- the iteration of `each` is the sequential composition, in list order, of
    "set the block for element i; render the body" -/
theorem eachLoop_cons (reg : Registry) (root : Json) (fuel : Nat) (t : Tmpl) (h : HelperI)
    (path : Option (List Str)) (len i : Nat) (key : Option Str) (rel : Str) (v : Json)
    (rest : List (Nat × Option Str × Str × Json)) :
    eachLoop reg root (fuel + 1) t h path len ((i, key, rel, v) :: rest) =
      (do modifyFrontBlock (fun b => eachIterBlock b h path i len key rel v)
          renderTemplate reg root fuel t
          eachLoop reg root fuel t h path len rest) := by
  simp [eachLoop]

theorem eachLoop_nil (reg : Registry) (root : Json) (fuel : Nat) (t : Tmpl) (h : HelperI)
    (path : Option (List Str)) (len : Nat) :
    eachLoop reg root (fuel + 1) t h path len [] = pure () := by
  simp [eachLoop]

/-- an empty array with an else body renders the else body and nothing else; a non-iterable
    value likewise -/
theorem each_empty_renders_else (reg : Registry) (root : Json) (fuel : Nat) (h : HelperI) (p : PJ) (ps : List PJ)
    (t et : Tmpl) (hp : h.params = p :: ps) (ht : h.template = some t) (hi : h.inverse = some et)
    (hv : p.json = .arr .nil ∨ p.json = .obj .nil ∨ (∀ a, p.json ≠ .arr a) ∧ (∀ o, p.json ≠ .obj o)) :
    callHelper reg root (fuel + 1) .each h = renderTemplate reg root fuel et := by
  funext rc out
  rcases hv with hv | hv | ⟨h1, h2⟩
  · simp [callHelper, HelperKind.hasInner, hp, ht, hi, hv, JList.isEmpty]
  · simp [callHelper, HelperKind.hasInner, hp, ht, hi, hv, JObj.isEmpty]
  · cases hj : p.json with
    | arr a => exact absurd hj (h1 a)
    | obj o => exact absurd hj (h2 o)
    | null => simp [callHelper, HelperKind.hasInner, hp, ht, hi, hj]
    | bool b => simp [callHelper, HelperKind.hasInner, hp, ht, hi, hj]
    | num n => simp [callHelper, HelperKind.hasInner, hp, ht, hi, hj]
    | str s => simp [callHelper, HelperKind.hasInner, hp, ht, hi, hj]

/-- objects iterate in the map's (key) order, arrays in index order: the work list handed to the
    loop is the list of elements zipped with 0,1,2,… -/
theorem each_array_worklist (xs : List Json) :
    (xs.zipIdx.map (fun (v, i) => (i, (none : Option Str), natToStr i, v))).map (fun x => x.1)
      = List.range xs.length := by
  simp [List.map_map, Function.comp_def]
  apply List.ext_getElem <;> simp

end Hbs.C07
