import HbsModel.Registry
import HbsModel.Lemmas.RM
import HbsModel.Lemmas.Block
import HbsModel.Lemmas.EachBlock
import HbsModel.Lemmas.EachBodyBlock
import HbsModel.Lemmas.RenderPlain
import HbsModel.Props.C01
/-
  C07  each visits every element once, in order, with correct iteration variables.
-/
namespace Hbs.C07
open Hbs RM

/-! ### the block of iteration `i` of `len` (`each_step_vars`) -/

theorem get_put_same (lv : LocalVars) (k : Str) (v : Json)
    (hk : k = str "first" ∨ k = str "last" ∨ k = str "index" ∨ k = str "key") :
    (lv.put k v).get k = some v := by
  rcases hk with rfl | rfl | rfl | rfl <;> simp [LocalVars.put, LocalVars.get, str] <;> decide

/-- @first, @last, @index of iteration `i` (arrays: no @key is set by this iteration) -/
theorem each_array_vars (b : Block) (h : HelperI) (path : Option (List Str)) (i len : Nat) (rel : Str) (v : Json) :
    let b' := eachIterBlock b h path i len none rel v
    b'.locals.get (str "first") = some (.bool (i == 0)) ∧
    b'.locals.get (str "last") = some (.bool (i + 1 == len)) ∧
    b'.locals.get (str "index") = some (Json.ofNat i) := by
  simp only [eachIterBlock]
  simp only [setBlockParam_locals, updateBlockContext_locals]
  simp [LocalVars.put, LocalVars.get, str]

/-- objects additionally set @key to the entry's key -/
theorem each_object_vars (b : Block) (h : HelperI) (path : Option (List Str)) (i len : Nat) (k : Str) (v : Json) :
    let b' := eachIterBlock b h path i len (some k) k v
    b'.locals.get (str "first") = some (.bool (i == 0)) ∧
    b'.locals.get (str "last") = some (.bool (i + 1 == len)) ∧
    b'.locals.get (str "index") = some (Json.ofNat i) ∧
    b'.locals.get (str "key") = some (.str k) := by
  simp only [eachIterBlock]
  simp only [setBlockParam_locals, updateBlockContext_locals]
  simp [LocalVars.put, LocalVars.get, str]

/-- the context of iteration `i`, value representation: the element itself -/
theorem each_context_value (b : Block) (h : HelperI) (i len : Nat) (key : Option Str) (rel : Str) (v : Json) :
    (eachIterBlock b h none i len key rel v).baseValue = some v := by
  simp only [eachIterBlock]
  simp [updateBlockContext]

/-- the context of iteration `i`, path representation: `base ++ [i]` – pushed on the first iteration,
    the last segment overwritten afterwards -/
theorem each_context_path_first (b : Block) (h : HelperI) (p : List Str) (len : Nat) (key : Option Str)
    (rel : Str) (v : Json) :
    (eachIterBlock b h (some p) 0 len key rel v).basePath = p ++ [rel] := by
  simp only [eachIterBlock]
  simp [updateBlockContext]

theorem setLast_append {α : Type} (l : List α) (x y : α) : setLast (l ++ [x]) y = l ++ [y] := by
  simp [setLast]

theorem each_context_path_next (b : Block) (h : HelperI) (p : List Str) (i len : Nat) (key : Option Str)
    (rel prev : Str) (v : Json) (hb : b.basePath = p ++ [prev]) :
    (eachIterBlock b h (some p) (i + 1) len key rel v).basePath = p ++ [rel] := by
  simp only [eachIterBlock]
  simp [updateBlockContext, hb, setLast_append]

/-- block parameters `as |a|` / `as |a b|`: first = the element, second = the key (index for arrays);
    the order written in the template is preserved -/
theorem each_block_param_single (b : Block) (h : HelperI) (a : Str) (k v : Json)
    (hbp : h.blockParam = some (.single a)) :
    (setBlockParam b h none k v).blockParams = [(a, .value v)] := by
  simp [setBlockParam, HelperI.blockParam1, hbp]

theorem each_block_param_pair_value (b : Block) (h : HelperI) (a c : Str) (k v : Json)
    (hbp : h.blockParam = some (.pair a c)) (hne : a ≠ c) :
    assocGet (setBlockParam b h none k v).blockParams a = (some (.value v) : Option Holder) ∧
    assocGet (setBlockParam b h none k v).blockParams c = (some (.value k) : Option Holder) := by
  have hne' : (c == a) = false := by
    apply beq_eq_false_iff_ne.mpr; exact fun e => hne e.symm
  have hne2 : (a == c) = false := by simpa using hne
  simp only [setBlockParam, HelperI.blockParam1, HelperI.blockParamPair, hbp, hashInsert]
  simp only [hne', Bool.false_eq_true, ↓reduceIte]
  split <;> simp [assocGet, hne', hne2]

/-! ### every element once, in order: the loop -/

/-- the iteration of `each` is the sequential composition, in list order, of
    "set the block for element i; render the body" -/
theorem eachLoop_cons (reg : Registry) (root : Json) (fuel : Nat) (t : Tmpl) (h : HelperI)
    (path : Option (List Str)) (len i : Nat) (key : Option Str) (rel : Str) (v : Json)
    (rest : List (Nat × Option Str × Str × Json)) :
    eachLoop reg root (fuel + 1) t h path len ((i, key, rel, v) :: rest) =
      (do modifyFrontBlock (fun b => eachIterBlock b h path i len key rel v)
          renderTemplate reg root fuel t
          eachLoop reg root fuel t h path len rest) := by
  simp [eachLoop]

theorem eachLoop_nil (reg : Registry) (root : Json) (fuel : Nat) (t : Tmpl) (h : HelperI)
    (path : Option (List Str)) (len : Nat) :
    eachLoop reg root (fuel + 1) t h path len [] = pure () := by
  simp [eachLoop]

/-- an empty array with an else body renders the else body and nothing else; a non-iterable
    value likewise -/
theorem each_empty_renders_else (reg : Registry) (root : Json) (fuel : Nat) (h : HelperI) (p : PJ) (ps : List PJ)
    (t et : Tmpl) (hp : h.params = p :: ps) (ht : h.template = some t) (hi : h.inverse = some et)
    (hv : p.json = .arr .nil ∨ p.json = .obj .nil ∨ (∀ a, p.json ≠ .arr a) ∧ (∀ o, p.json ≠ .obj o)) :
    callHelper reg root (fuel + 1) .each h = renderTemplate reg root fuel et := by
  funext rc out
  rcases hv with hv | hv | ⟨h1, h2⟩
  · simp [callHelper, HelperKind.hasInner, hp, ht, hi, hv, JList.isEmpty]
  · simp [callHelper, HelperKind.hasInner, hp, ht, hi, hv, JObj.isEmpty]
  · cases hj : p.json with
    | arr a => exact absurd hj (h1 a)
    | obj o => exact absurd hj (h2 o)
    | null => simp [callHelper, HelperKind.hasInner, hp, ht, hi, hj]
    | bool b => simp [callHelper, HelperKind.hasInner, hp, ht, hi, hj]
    | num n => simp [callHelper, HelperKind.hasInner, hp, ht, hi, hj]
    | str s => simp [callHelper, HelperKind.hasInner, hp, ht, hi, hj]

/-- objects iterate in the map's (key) order, arrays in index order: the work list handed to the
    loop is the list of elements zipped with 0,1,2,… -/
theorem each_array_worklist (xs : List Json) :
    (xs.zipIdx.map (fun (v, i) => (i, (none : Option Str), natToStr i, v))).map (fun x => x.1)
      = List.range xs.length := by
  simp [List.map_map, Function.comp_def]
  apply List.ext_getElem <;> simp

/-! ### `{{#each v}}A{{/each}}` – at source level -/

/-- the block element `{{#each v}}A{{/each}}` compiles to, on an ARRAY of any length `n` stored under `v`: the body is written once
    per element – `n` times, in order – and the render state is left as it was (the scope pushed for the iteration is popped);
    `n + 12` units of fuel above any amount suffice (the loop of the model spends one per element) -/
theorem each_text_block_writes (reg : Registry) (root : Json) (rc0 : RC) (xs : JList) (lc : Nat × Nat)
    (hb : rc0.blocks = [{}]) (hi : rc0.indentString = none) (hmc : rc0.modifiedCtx = none) (hct : rc0.currentTemplate = none)
    (hl : assocGet rc0.localHelpers ['e', 'a', 'c', 'h'] = none) (hr : assocGet reg.helpers ['e', 'a', 'c', 'h'] = some .each)
    (hsafe : Spec.indexSafe root [['v']] = true) (hj : Spec.descend root [['v']] = some (.arr xs)) :
    WritesTextK (xs.toList.length + 12) reg root rc0 (.block (PlainText.eaHT (PlainText.eaBody lc)))
      (List.replicate xs.toList.length ['A']).flatten := by
  intro fuel rc out hq hf
  have hblocks : rc.blocks = [{}] := by rw [hq.blocks, hb]
  have hev : evaluate2 root (.relative [.named ['v']] ['v']) rc out = .ok (.context (.arr xs) [['v']]) rc out := by
    have := C01.navigate_current_path_scope root {} [] ['v'] [] rc out (by simp [getInBlockParams, assocGet]) rfl (by simpa using hsafe)
    simp only [C01.names, List.map_cons, List.map_nil] at this
    simp only [evaluate2, RM.bind_def, RM.bnd_apply, RM.get_apply, hblocks, this, C01.blockValue, Spec.descend]
    simp only [Option.bind]
    have hj' : (Spec.step root ['v']).bind (fun v' => Spec.descend v' []) = some (.arr xs) := by simpa [Spec.descend] using hj
    simp [Spec.descend] at hj' ⊢
    rw [hj']
  have hmc' : rc.modifiedCtx = none := by rw [hq]; exact hmc
  have hl' : assocGet rc.localHelpers ['e', 'a', 'c', 'h'] = none := by rw [hq]; exact hl
  have hpath : Path.new ['v'] [.named ['v']] = .relative [.named ['v']] ['v'] := rfl
  have hh : helperFromTemplate reg root (fuel + xs.toList.length + 10) (PlainText.eaHT (PlainText.eaBody lc)) rc out
      = .ok { name := ['e', 'a', 'c', 'h'], params := [⟨some ['v'], .context (.arr xs) [['v']]⟩], hash := [], template := some (PlainText.eaBody lc), inverse := none, blockParam := none, block := true } rc out := by
    rw [show fuel + xs.toList.length + 10 = (fuel + xs.toList.length + 7) + 1 + 1 + 1 by omega]
    simp [helperFromTemplate, PlainText.eaHT, PlainText.eaOpen, HelperG.new, expandAsName, expandParams, expandParam, expandHash,
      RM.bnd_apply, hmc', hpath, hev, Path.raw]
  have hm1 := quiet_modifyAux rc0 rc (fun r => { r with contentProduced := false, indentBeforeWrite := rc.indentBeforeWrite || ((PlainText.eaHT (PlainText.eaBody lc)).indentBeforeWrite && r.trailingNewline) }) out hq (hq.flags _ _ _)
  rw [show fuel + (xs.toList.length + 12) = (fuel + xs.toList.length + 10) + 1 + 1 by omega]
  simp only [renderElem, renderHelper, RM.bind_def, RM.bnd_apply, hh, RM.get_apply, hl', hr, hm1]
  have hibw : (PlainText.eaHT (PlainText.eaBody lc)).indentBeforeWrite = false := rfl
  simp only [hibw, Bool.false_and, Bool.or_false]
  -- the call of `each`
  have hqA : Quiet rc0 { rc with contentProduced := false } := hq.flags _ _ _
  let rcA : RC := { rc with contentProduced := false }
  let items : List (Nat × Option Str × Str × Json) := xs.toList.zipIdx.map (fun (v, i) => (i, none, natToStr i, v))
  have hitems : items.length = xs.toList.length := by simp [items]
  obtain ⟨rc3, out3, hloop, ⟨b3, hq3⟩, hf3, ht3⟩ := eachLoop_text reg root ['A'] lc
    { name := ['e', 'a', 'c', 'h'], params := [⟨some ['v'], .context (.arr xs) [['v']]⟩], hash := [], template := some (PlainText.eaBody lc), inverse := none, blockParam := none, block := true }
    (some [['v']]) xs.toList.length items (fuel + 5) { rcA with blocks := { basePath := [['v']] } :: rcA.blocks } out { basePath := [['v']] } rcA.blocks
    (by show rc.indentString = none; rw [hq.indent]; exact hi) (by show rc.currentTemplate = none; rw [Quiet.template hq]; exact hct) rfl hf
  have hcall : callHelper reg root (fuel + xs.toList.length + 10) .each { name := ['e', 'a', 'c', 'h'], params := [⟨some ['v'], .context (.arr xs) [['v']]⟩], hash := [], template := some (PlainText.eaBody lc), inverse := none, blockParam := none, block := true } rcA out
      = .ok () { rc3 with blocks := rc3.blocks.drop 1 } out3 := by
    rw [show fuel + xs.toList.length + 10 = (fuel + 5 + items.length + 4) + 1 by omega]
    simp only [callHelper, HelperKind.hasInner, Bool.false_eq_true, ↓reduceIte, List.getElem?_cons_zero, PJ.json, SJ.asJson, PJ.contextPath,
      SJ.contextPath, createBlock, Option.isNone_none, Bool.or_true, RM.withBlock, RM.bracket_apply]
    unfold PlainText.eaBody at hloop ⊢
    simp only [items, hitems] at hloop ⊢
    rw [hloop]
  rw [hcall]
  simp only []
  have hq4 : Quiet rc0 { rc3 with blocks := rc3.blocks.drop 1 } := by
    have hrcA : Quiet rc0 rcA := hqA
    unfold Quiet at hq3 hrcA ⊢
    rw [hq3]
    simp only [List.drop_succ_cons, List.drop_zero]
    rw [hrcA]
  have hqG : Quiet rc0 ((fun rc_1 : RC => if rc_1.contentProduced = true then { rc_1 with indentBeforeWrite := rc_1.trailingNewline } else { rc_1 with contentProduced := rc.contentProduced, indentBeforeWrite := rc.indentBeforeWrite }) { rc3 with blocks := rc3.blocks.drop 1 }) := by
    by_cases hcp : rc3.contentProduced = true
    · simp only [hcp, ↓reduceIte]; exact Quiet.flags hq4 _ _ _
    · simp only [hcp, ↓reduceIte]; exact Quiet.flags hq4 _ _ _
  refine ⟨_, _, quiet_modifyAux rc0 _ _ out3 hq4 hqG, hqG, hf3, ?_⟩
  rw [ht3, hitems]

/-- `{{#each v}}A{{/each}}` -/
abbrev eachBlockSrc : Str := PlainText.eaSrc

/-- **render(L ++ {{#each v}}A{{/each}} ++ R) = L ++ A…A ++ R, one `A` per element** – from the source string to the bytes, for EVERY
    text `L` that may stand before a tag, EVERY text `R` without `{{`, and EVERY array stored under `v` (of any length `n` that
    the model's fuel covers: `n + 30 ≤ 4000`; the empty array included – then nothing is written): the body is rendered once per
    element, in order, and the output is the concatenation.  Through the regenerated grammar (the block's pairs by kernel
    evaluation), the loop of compile2, and the renderer: `renderHelper`, the `each` helper – scope pushed, one iteration per
    element by induction over the list (`eachLoop_text`), scope popped. -/
theorem each_block_renders_body_per_element (r : Registry) (fs : FS) (L R : Str) (data : Json) (xs : JList) (hdev : r.dev = false)
    (hL : L = [] ∨ PlainText.TextBeforeTag L) (hR : PlainText.noOpen R)
    (heach : assocGet r.helpers ['e', 'a', 'c', 'h'] = some .each)
    (hsafe : Spec.indexSafe data [['v']] = true) (hj : Spec.descend data [['v']] = some (.arr xs))
    (hlen : xs.toList.length + 30 ≤ renderFuel) :
    r.renderTemplate fs (L ++ eachBlockSrc ++ R) data = .ok (L ++ (List.replicate xs.toList.length ['A']).flatten ++ R) := by
  unfold Registry.renderTemplate Registry.renderTemplateToWrite Registry.renderTemplateWithContextToWrite
    Registry.compileForRenderTemplate
  obtain ⟨m, hcomp⟩ := PlainText.compile_text_ea_text L _ _ { preventIndent := r.preventIndent } hL (PlainText.textAfterTag_split R hR)
  rw [← PlainText.split_ws R] at hcomp
  rw [hcomp]
  simp only [Registry.renderResolved, hdev, Bool.not_false, ↓reduceIte]
  generalize Pest.lineCol (L ++ PlainText.eaSrc ++ R) (L.length + 11) = lc
  let txt : Str := (List.replicate xs.toList.length ['A']).flatten
  let ets : List (Elem × Str) := (if L = [] then [] else [(.raw L, L)]) ++ [(.block (PlainText.eaHT (PlainText.eaBody lc)), txt)]
    ++ (if R = [] then [] else [(.raw R, R)])
  have hel : (PlainText.leftT L L).elements ++ [Elem.block (PlainText.eaHT (PlainText.eaBody lc))] ++ (if R = [] then [] else [Elem.raw R])
      = ets.map (·.1) := by
    simp only [ets]
    by_cases hLe : L = [] <;> by_cases hRe : R = [] <;> simp [hLe, hRe, PlainText.leftT, Tmpl.empty, Tmpl.elements]
  have htxt : (ets.map (·.2)).flatten = L ++ txt ++ R := by
    simp only [ets]
    by_cases hLe : L = [] <;> by_cases hRe : R = [] <;> simp [hLe, hRe]
  rw [hel]
  have hw : ∀ p ∈ ets, WritesTextK (xs.toList.length + 12) r data { ({ rootTemplate := none } : RC) with currentTemplate := none } p.1 p.2 := by
    intro p hp
    simp only [ets, List.mem_append, List.mem_singleton] at hp
    rcases hp with (hp | rfl) | hp
    · split at hp
      · simp at hp
      · simp at hp; subst hp; exact (writes_raw r data _ rfl L).toK _ (by omega)
    · exact each_text_block_writes r data _ xs lc rfl rfl rfl rfl rfl heach hsafe hj
    · split at hp
      · simp at hp
      · simp at hp; subst hp; exact (writes_raw r data _ rfl R).toK _ (by omega)
  have hlen' : ets.length + (xs.toList.length + 12) + 6 ≤ renderFuel := by
    have h1 : (if L = [] then [] else [((Elem.raw L, L) : Elem × Str)]).length ≤ 1 := by split <;> simp
    have h2 : (if R = [] then [] else [((Elem.raw R, R) : Elem × Str)]).length ≤ 1 := by split <;> simp
    simp only [ets, List.length_append, List.length_singleton]
    omega
  have := render_writes_templateK (xs.toList.length + 12) r data none ets m { rootTemplate := none } hlen' hw
  simp only [Tmpl.name] at this ⊢
  rw [this, htxt]

/-- non-vacuity: the registry as the crate builds it binds `each` to the each helper; three elements -/
example : assocGet Registry.new.helpers ['e', 'a', 'c', 'h'] = some .each ∧
    (List.replicate (JList.ofList [Json.null, Json.bool true, Json.str []]).toList.length ['A']).flatten = ['A', 'A', 'A'] := by
  refine ⟨by rfl, by decide⟩


/-! ### `{{#each v}}` X `{{/each}}` for EVERY body text X – at source level -/

/-- the block element `{{#each v}} X {{/each}}` compiles to, on an ARRAY of any length `n` stored under `v`: the body is written once
    per element – `n` times, in order – and the render state is left as it was (the scope pushed for the iteration is popped);
    `n + 12` units of fuel above any amount suffice (the loop of the model spends one per element) -/
theorem each_any_text_block_writes (X : Str) (reg : Registry) (root : Json) (rc0 : RC) (xs : JList) (lc : Nat × Nat)
    (hb : rc0.blocks = [{}]) (hi : rc0.indentString = none) (hmc : rc0.modifiedCtx = none) (hct : rc0.currentTemplate = none)
    (hl : assocGet rc0.localHelpers ['e', 'a', 'c', 'h'] = none) (hr : assocGet reg.helpers ['e', 'a', 'c', 'h'] = some .each)
    (hsafe : Spec.indexSafe root [['v']] = true) (hj : Spec.descend root [['v']] = some (.arr xs)) :
    WritesTextK (xs.toList.length + 12) reg root rc0 (.block (PlainText.eaHT (PlainText.eaBodyX X lc)))
      (List.replicate xs.toList.length X).flatten := by
  intro fuel rc out hq hf
  have hblocks : rc.blocks = [{}] := by rw [hq.blocks, hb]
  have hev : evaluate2 root (.relative [.named ['v']] ['v']) rc out = .ok (.context (.arr xs) [['v']]) rc out := by
    have := C01.navigate_current_path_scope root {} [] ['v'] [] rc out (by simp [getInBlockParams, assocGet]) rfl (by simpa using hsafe)
    simp only [C01.names, List.map_cons, List.map_nil] at this
    simp only [evaluate2, RM.bind_def, RM.bnd_apply, RM.get_apply, hblocks, this, C01.blockValue, Spec.descend]
    simp only [Option.bind]
    have hj' : (Spec.step root ['v']).bind (fun v' => Spec.descend v' []) = some (.arr xs) := by simpa [Spec.descend] using hj
    simp [Spec.descend] at hj' ⊢
    rw [hj']
  have hmc' : rc.modifiedCtx = none := by rw [hq]; exact hmc
  have hl' : assocGet rc.localHelpers ['e', 'a', 'c', 'h'] = none := by rw [hq]; exact hl
  have hpath : Path.new ['v'] [.named ['v']] = .relative [.named ['v']] ['v'] := rfl
  have hh : helperFromTemplate reg root (fuel + xs.toList.length + 10) (PlainText.eaHT (PlainText.eaBodyX X lc)) rc out
      = .ok { name := ['e', 'a', 'c', 'h'], params := [⟨some ['v'], .context (.arr xs) [['v']]⟩], hash := [], template := some (PlainText.eaBodyX X lc), inverse := none, blockParam := none, block := true } rc out := by
    rw [show fuel + xs.toList.length + 10 = (fuel + xs.toList.length + 7) + 1 + 1 + 1 by omega]
    simp [helperFromTemplate, PlainText.eaHT, PlainText.eaOpen, HelperG.new, expandAsName, expandParams, expandParam, expandHash,
      RM.bnd_apply, hmc', hpath, hev, Path.raw]
  have hm1 := quiet_modifyAux rc0 rc (fun r => { r with contentProduced := false, indentBeforeWrite := rc.indentBeforeWrite || ((PlainText.eaHT (PlainText.eaBodyX X lc)).indentBeforeWrite && r.trailingNewline) }) out hq (hq.flags _ _ _)
  rw [show fuel + (xs.toList.length + 12) = (fuel + xs.toList.length + 10) + 1 + 1 by omega]
  simp only [renderElem, renderHelper, RM.bind_def, RM.bnd_apply, hh, RM.get_apply, hl', hr, hm1]
  have hibw : (PlainText.eaHT (PlainText.eaBodyX X lc)).indentBeforeWrite = false := rfl
  simp only [hibw, Bool.false_and, Bool.or_false]
  -- the call of `each`
  have hqA : Quiet rc0 { rc with contentProduced := false } := hq.flags _ _ _
  let rcA : RC := { rc with contentProduced := false }
  let items : List (Nat × Option Str × Str × Json) := xs.toList.zipIdx.map (fun (v, i) => (i, none, natToStr i, v))
  have hitems : items.length = xs.toList.length := by simp [items]
  obtain ⟨rc3, out3, hloop, ⟨b3, hq3⟩, hf3, ht3⟩ := eachLoop_text reg root X lc
    { name := ['e', 'a', 'c', 'h'], params := [⟨some ['v'], .context (.arr xs) [['v']]⟩], hash := [], template := some (PlainText.eaBodyX X lc), inverse := none, blockParam := none, block := true }
    (some [['v']]) xs.toList.length items (fuel + 5) { rcA with blocks := { basePath := [['v']] } :: rcA.blocks } out { basePath := [['v']] } rcA.blocks
    (by show rc.indentString = none; rw [hq.indent]; exact hi) (by show rc.currentTemplate = none; rw [Quiet.template hq]; exact hct) rfl hf
  have hcall : callHelper reg root (fuel + xs.toList.length + 10) .each { name := ['e', 'a', 'c', 'h'], params := [⟨some ['v'], .context (.arr xs) [['v']]⟩], hash := [], template := some (PlainText.eaBodyX X lc), inverse := none, blockParam := none, block := true } rcA out
      = .ok () { rc3 with blocks := rc3.blocks.drop 1 } out3 := by
    rw [show fuel + xs.toList.length + 10 = (fuel + 5 + items.length + 4) + 1 by omega]
    simp only [callHelper, HelperKind.hasInner, Bool.false_eq_true, ↓reduceIte, List.getElem?_cons_zero, PJ.json, SJ.asJson, PJ.contextPath,
      SJ.contextPath, createBlock, Option.isNone_none, Bool.or_true, RM.withBlock, RM.bracket_apply]
    unfold PlainText.eaBodyX at hloop ⊢
    simp only [items, hitems] at hloop ⊢
    rw [hloop]
  rw [hcall]
  simp only []
  have hq4 : Quiet rc0 { rc3 with blocks := rc3.blocks.drop 1 } := by
    have hrcA : Quiet rc0 rcA := hqA
    unfold Quiet at hq3 hrcA ⊢
    rw [hq3]
    simp only [List.drop_succ_cons, List.drop_zero]
    rw [hrcA]
  have hqG : Quiet rc0 ((fun rc_1 : RC => if rc_1.contentProduced = true then { rc_1 with indentBeforeWrite := rc_1.trailingNewline } else { rc_1 with contentProduced := rc.contentProduced, indentBeforeWrite := rc.indentBeforeWrite }) { rc3 with blocks := rc3.blocks.drop 1 }) := by
    by_cases hcp : rc3.contentProduced = true
    · simp only [hcp, ↓reduceIte]; exact Quiet.flags hq4 _ _ _
    · simp only [hcp, ↓reduceIte]; exact Quiet.flags hq4 _ _ _
  refine ⟨_, _, quiet_modifyAux rc0 _ _ out3 hq4 hqG, hqG, hf3, ?_⟩
  rw [ht3, hitems]

/-- `{{#each v}} X {{/each}}` -/
abbrev eachBlockSrcX (X : Str) : Str := PlainText.eaXSrc X

/-- **render(L ++ {{#each v}} X {{/each}} ++ R) = L ++ A…A ++ R, one `A` per element** – from the source string to the bytes, for EVERY
    text `L` that may stand before a tag, EVERY text `R` without `{{`, and EVERY array stored under `v` (of any length `n` that
    the model's fuel covers: `n + 30 ≤ 4000`; the empty array included – then nothing is written): the body is rendered once per
    element, in order, and the output is the concatenation.  Through the regenerated grammar (the block's pairs by kernel
    evaluation), the loop of compile2, and the renderer: `renderHelper`, the `each` helper – scope pushed, one iteration per
    element by induction over the list (`eachLoop_text`), scope popped. -/
theorem each_block_any_body_per_element (r : Registry) (fs : FS) (X L R : Str) (hX : PlainText.BlockText X) (data : Json) (xs : JList) (hdev : r.dev = false)
    (hL : L = [] ∨ PlainText.TextBeforeTag L) (hR : PlainText.noOpen R)
    (heach : assocGet r.helpers ['e', 'a', 'c', 'h'] = some .each)
    (hsafe : Spec.indexSafe data [['v']] = true) (hj : Spec.descend data [['v']] = some (.arr xs))
    (hlen : xs.toList.length + 30 ≤ renderFuel) :
    r.renderTemplate fs (L ++ eachBlockSrcX X ++ R) data = .ok (L ++ (List.replicate xs.toList.length X).flatten ++ R) := by
  unfold Registry.renderTemplate Registry.renderTemplateToWrite Registry.renderTemplateWithContextToWrite
    Registry.compileForRenderTemplate
  obtain ⟨m, hcomp⟩ := PlainText.compile_text_eaX_text X L _ _ { preventIndent := r.preventIndent } hX hL (PlainText.textAfterTag_split R hR)
  rw [← PlainText.split_ws R] at hcomp
  rw [hcomp]
  simp only [Registry.renderResolved, hdev, Bool.not_false, ↓reduceIte]
  generalize Pest.lineCol (L ++ PlainText.eaXSrc X ++ R) (L.length + 11) = lc
  let txt : Str := (List.replicate xs.toList.length X).flatten
  let ets : List (Elem × Str) := (if L = [] then [] else [(.raw L, L)]) ++ [(.block (PlainText.eaHT (PlainText.eaBodyX X lc)), txt)]
    ++ (if R = [] then [] else [(.raw R, R)])
  have hel : (PlainText.leftT L L).elements ++ [Elem.block (PlainText.eaHT (PlainText.eaBodyX X lc))] ++ (if R = [] then [] else [Elem.raw R])
      = ets.map (·.1) := by
    simp only [ets]
    by_cases hLe : L = [] <;> by_cases hRe : R = [] <;> simp [hLe, hRe, PlainText.leftT, Tmpl.empty, Tmpl.elements]
  have htxt : (ets.map (·.2)).flatten = L ++ txt ++ R := by
    simp only [ets]
    by_cases hLe : L = [] <;> by_cases hRe : R = [] <;> simp [hLe, hRe]
  rw [hel]
  have hw : ∀ p ∈ ets, WritesTextK (xs.toList.length + 12) r data { ({ rootTemplate := none } : RC) with currentTemplate := none } p.1 p.2 := by
    intro p hp
    simp only [ets, List.mem_append, List.mem_singleton] at hp
    rcases hp with (hp | rfl) | hp
    · split at hp
      · simp at hp
      · simp at hp; subst hp; exact (writes_raw r data _ rfl L).toK _ (by omega)
    · exact each_any_text_block_writes X r data _ xs lc rfl rfl rfl rfl rfl heach hsafe hj
    · split at hp
      · simp at hp
      · simp at hp; subst hp; exact (writes_raw r data _ rfl R).toK _ (by omega)
  have hlen' : ets.length + (xs.toList.length + 12) + 6 ≤ renderFuel := by
    have h1 : (if L = [] then [] else [((Elem.raw L, L) : Elem × Str)]).length ≤ 1 := by split <;> simp
    have h2 : (if R = [] then [] else [((Elem.raw R, R) : Elem × Str)]).length ≤ 1 := by split <;> simp
    simp only [ets, List.length_append, List.length_singleton]
    omega
  have := render_writes_templateK (xs.toList.length + 12) r data none ets m { rootTemplate := none } hlen' hw
  simp only [Tmpl.name] at this ⊢
  rw [this, htxt]

end Hbs.C07
