import HbsModel.Props.C01c
import HbsModel.Lemmas.WithValue
import HbsModel.Lemmas.WithThis
/-
  C01 (continued)  the positive counterpart at source level: inside `{{#with v}}` the path `x` reads the field `x` of `data.v`.
-/
namespace Hbs.C01
open Hbs RM Hbs.Spec Hbs.C02

/-- the body `{{x}}` rendered in the scope the `with` helper pushed (held as the path `v`): the escaped text of the field `x` of
    `data.v` -/
theorem render_x_body_in_with (reg : Registry) (root j jx : Json) (rc0 rcS : RC) (out : Out) (lc : Nat × Nat) (fuel : Nat)
    (hb : rc0.blocks = [{ basePath := [['v']] }, {}])
    (hi : rc0.indentString = none) (hct : rc0.currentTemplate = none) (hmc : rc0.modifiedCtx = none) (hde : rc0.disableEscape = false)
    (hl : assocGet rc0.localHelpers ['x'] = none) (hr : assocGet reg.helpers ['x'] = none)
    (hsafe : Spec.indexSafe root [['v'], ['x']] = true) (hj : Spec.descend root [['v']] = some j) (hjx : Spec.descend j [['x']] = some jx)
    (hq : Quiet rc0 rcS) (hf : out.failAt = none) :
    ∃ rc2 out2, renderTemplate reg root (fuel + 6) (PlainText.wivBody lc) rcS out = .ok () rc2 out2
      ∧ Quiet rc0 rc2 ∧ out2.failAt = none ∧ out2.text = out.text ++ reg.escape jx.render := by
  have hqB : Quiet rc0 { rcS with currentTemplate := none } := by
    have := Quiet.setTemplate hq
    rw [hct] at this
    exact this
  have hblB : rcS.blocks = [{ basePath := [['v']] }, {}] := by rw [hq.blocks, hb]
  have hev : evaluate2 root (.relative [.named ['x']] ['x']) { rcS with currentTemplate := none } out
      = .ok (.context jx [['v'], ['x']]) { rcS with currentTemplate := none } out := by
    have key : ∀ (rc : RC), navigate root [.named ['x']] [{ basePath := [['v']] }, {}] rc out = .ok (.context jx [['v'], ['x']]) rc out := by
      intro rc
      have h := navigate_current_path_scope root { basePath := [['v']] } [{}] ['x'] [] rc out (by simp [getInBlockParams, assocGet]) rfl
        (by simpa using hsafe)
      simp only [names, List.map_cons, List.map_nil] at h
      rw [h]
      have hj' : (blockValue root { basePath := [['v']] }).bind (fun v => Spec.descend v [['x']]) = some jx := by
        simp only [blockValue]
        rw [hj]
        simpa using hjx
      simp only [hj', List.cons_append, List.nil_append]
    simp only [evaluate2, RM.bind_def, RM.bnd_apply, RM.get_apply, hblB, key]
  have hel : renderElem reg root (fuel + 4) (.expr PlainText.wivXHT) { rcS with currentTemplate := none } out
      = indentAwareWrite (reg.escape jx.render) { rcS with currentTemplate := none } out :=
    expr_path_escapes_once reg root fuel PlainText.wivXHT (.relative [.named ['x']] ['x'])
      _ out (.context jx [['v'], ['x']]) rfl rfl (by rw [hqB]; exact hl) hr (by rw [hqB]; exact hmc) (by rw [hqB]; exact hde) hev rfl
  obtain ⟨rc2, out2, hw, hq2, hf2, ht2⟩ := indentAwareWrite_quiet rc0 hi (reg.escape jx.render) _ out hqB hf
  have hmA := quiet_modifyAux rc0 rcS (fun r => { r with currentTemplate := (PlainText.wivBody lc).name }) out hq hqB
  have hq3 : Quiet rc0 { rc2 with currentTemplate := rcS.currentTemplate } := by
    have := Quiet.setTemplate hq2
    rw [← Quiet.template hq] at this
    exact this
  have hmB := quiet_modifyAux rc0 rc2 (fun r => { r with currentTemplate := rcS.currentTemplate }) out2 hq2 hq3
  refine ⟨_, out2, ?_, hq3, hf2, ht2⟩
  rw [show fuel + 6 = (fuel + 4) + 1 + 1 by omega]
  simp only [renderTemplate, RM.bind_def, RM.bnd_apply, RM.get_apply, hmA]
  simp only [PlainText.wivBody, Tmpl.empty, Tmpl.pushElement, Tmpl.name, Tmpl.elements, Tmpl.mapping, List.nil_append, renderElems,
    RM.bind_def, RM.bnd_apply, RM.mapErr, hel, hw, RM.pure_def, RM.ret_apply, Option.isNone_none]
  simp only [↓reduceIte]
  exact hmB

/-- the block element `{{#with v}}{{x}}{{/with}}` compiles to, on a truthy `data.v`: the escaped text of `data.v.x` – the field of the
    scope the helper pushed –, the pushed scope popped again -/
theorem with_value_block_writes (reg : Registry) (root j jx : Json) (rc0 : RC) (lc : Nat × Nat)
    (hT : j.truthy false = true)
    (hde : rc0.disableEscape = false)
    (hlx : assocGet rc0.localHelpers ['x'] = none) (hrx : assocGet reg.helpers ['x'] = none)
    (hsafex : Spec.indexSafe root [['v'], ['x']] = true) (hjx : Spec.descend j [['x']] = some jx)
    (hb : rc0.blocks = [{}]) (hi : rc0.indentString = none) (hmc : rc0.modifiedCtx = none) (hct : rc0.currentTemplate = none)
    (hl : assocGet rc0.localHelpers ['w', 'i', 't', 'h'] = none) (hr : assocGet reg.helpers ['w', 'i', 't', 'h'] = some .withH)
    (hsafe : Spec.indexSafe root [['v']] = true) (hj : Spec.descend root [['v']] = some j) :
    WritesTextK 9 reg root rc0 (.block (PlainText.wivHT (PlainText.wivBody lc))) (reg.escape jx.render) := by
  intro fuel0 rc out hq hf
  rw [show fuel0 + 9 = (fuel0 + 3) + 6 by omega]
  generalize hfu : fuel0 + 3 = fuel
  have hblocks : rc.blocks = [{}] := by rw [hq.blocks, hb]
  have hev : evaluate2 root (.relative [.named ['v']] ['v']) rc out = .ok (.context j [['v']]) rc out := by
    have := C01.navigate_current_path_scope root {} [] ['v'] [] rc out (by simp [getInBlockParams, assocGet]) rfl (by simpa using hsafe)
    simp only [C01.names, List.map_cons, List.map_nil] at this
    simp only [evaluate2, RM.bind_def, RM.bnd_apply, RM.get_apply, hblocks, this, C01.blockValue, Spec.descend]
    simp only [Option.bind]
    have hj' : (Spec.step root ['v']).bind (fun v' => Spec.descend v' []) = some j := by simpa [Spec.descend] using hj
    simp [Spec.descend] at hj' ⊢
    rw [hj']
  have hmc' : rc.modifiedCtx = none := by rw [hq]; exact hmc
  have hl' : assocGet rc.localHelpers ['w', 'i', 't', 'h'] = none := by rw [hq]; exact hl
  have hpath : Path.new ['v'] [.named ['v']] = .relative [.named ['v']] ['v'] := rfl
  have hh : helperFromTemplate reg root (fuel + 4) (PlainText.wivHT (PlainText.wivBody lc)) rc out
      = .ok { name := ['w', 'i', 't', 'h'], params := [⟨some ['v'], .context j [['v']]⟩], hash := [], template := some (PlainText.wivBody lc), inverse := none, blockParam := none, block := true } rc out := by
    simp [helperFromTemplate, PlainText.wivHT, PlainText.wiOpen, HelperG.new, expandAsName, expandParams, expandParam, expandHash,
      RM.bnd_apply, hmc', hpath, hev, Path.raw]
  have hm1 := quiet_modifyAux rc0 rc (fun r => { r with contentProduced := false, indentBeforeWrite := rc.indentBeforeWrite || ((PlainText.wivHT (PlainText.wivBody lc)).indentBeforeWrite && r.trailingNewline) }) out hq (hq.flags _ _ _)
  simp only [renderElem, renderHelper, RM.bind_def, RM.bnd_apply, hh, RM.get_apply, hl', hr, hm1]
  have hibw : (PlainText.wivHT (PlainText.wivBody lc)).indentBeforeWrite = false := rfl
  simp only [hibw, Bool.false_and, Bool.or_false]
  have hqA : Quiet rc0 { rc with contentProduced := false } := hq.flags _ _ _
  let rcA : RC := { rc with contentProduced := false }
  have finish : ∀ (rc2 : RC) (out2 : Out) (txt : Str), Quiet rc0 rc2 → out2.failAt = none → out2.text = out.text ++ txt →
      ∃ rc' out', RM.modifyAux (fun rc_1 : RC => if rc_1.contentProduced = true then { rc_1 with indentBeforeWrite := rc_1.trailingNewline } else { rc_1 with contentProduced := rc.contentProduced, indentBeforeWrite := rc.indentBeforeWrite }) rc2 out2 = .ok () rc' out'
        ∧ Quiet rc0 rc' ∧ out'.failAt = none ∧ out'.text = out.text ++ txt := by
    intro rc2 out2 txt hq2 hf2 ht2
    have hqG : Quiet rc0 ((fun rc_1 : RC => if rc_1.contentProduced = true then { rc_1 with indentBeforeWrite := rc_1.trailingNewline } else { rc_1 with contentProduced := rc.contentProduced, indentBeforeWrite := rc.indentBeforeWrite }) rc2) := by
      by_cases hcp : rc2.contentProduced = true
      · simp only [hcp, ↓reduceIte]; exact Quiet.flags hq2 _ _ _
      · simp only [hcp, ↓reduceIte]; exact Quiet.flags hq2 _ _ _
    exact ⟨_, _, quiet_modifyAux rc0 _ _ out2 hq2 hqG, hqG, hf2, ht2⟩
  have ht : j.truthy false = true := hT
  let rcP : RC := { rcA with blocks := { basePath := [['v']] } :: rcA.blocks }
  obtain ⟨rc2, out2, hbody, hq2, hf2, ht2⟩ := render_x_body_in_with reg root j jx rcP rcP out lc fuel0
    (by show ({ basePath := [['v']] } : Block) :: rc.blocks = _; rw [hblocks])
    (by show rc.indentString = none; rw [hq.indent]; exact hi) (by show rc.currentTemplate = none; rw [Quiet.template hq]; exact hct)
    (by show rc.modifiedCtx = none; exact hmc') (by show rc.disableEscape = false; rw [hq]; exact hde)
    (by show assocGet rc.localHelpers ['x'] = none; rw [hq]; exact hlx) hrx hsafex hj hjx (Quiet.refl _) hf
  have hcall : callHelper reg root (fuel + 4) .withH { name := ['w', 'i', 't', 'h'], params := [⟨some ['v'], .context j [['v']]⟩], hash := [], template := some (PlainText.wivBody lc), inverse := none, blockParam := none, block := true } rcA out
      = .ok () { rc2 with blocks := rc2.blocks.drop 1 } out2 := by
    rw [show fuel + 4 = (fuel + 3) + 1 by omega]
    simp only [callHelper, HelperKind.hasInner, Bool.false_eq_true, ↓reduceIte, List.getElem?_cons_zero, PJ.json, SJ.asJson, ht, PJ.contextPath,
      SJ.contextPath, createBlock, HelperI.blockParam1, RM.withBlock, RM.bracket_apply]
    rw [← hfu, show fuel0 + 3 + 3 = fuel0 + 6 by omega, hbody]
  rw [hcall]
  have hq4 : Quiet rc0 { rc2 with blocks := rc2.blocks.drop 1 } := by
    have hrcA : Quiet rc0 rcA := hqA
    unfold Quiet at hq2 hrcA ⊢
    rw [hq2]
    simp only [rcP, List.drop_succ_cons, List.drop_zero]
    rw [hrcA]
  exact finish _ out2 _ hq4 hf2 ht2



/-- `{{#with v}}{{x}}{{/with}}` -/
abbrev withValueSrc : Str := PlainText.wivSrc

/-- **inside `{{#with v}}` a path designates a field of `data.v`** – at source level: for every text `L`, `R`, every data whose `v` is
    truthy and every escape function, `L ++ {{#with v}}{{x}}{{/with}} ++ R` renders `L ++ escape(text of data.v.x) ++ R`: the helper
    pushes ONE scope holding `data.v` (as the path `v`), and `x` is the field `x` of that scope – whatever the data itself holds under
    `x`.  Together with `parent_path_in_with_reads_the_outer_scope` (`../x` in the same place is `data.x`) this is the scope rule of C01
    for `with`, from source text to bytes.  Through the regenerated grammar (the 13 pairs of the block by kernel evaluation), compile2
    (a value tag compiled inside an open block), the `with` helper and `navigate` (`navigate_current_path_scope`). -/
theorem path_in_with_reads_the_with_scope (r : Registry) (fs : FS) (L R : Str) (data j jx : Json)
    (hdev : r.dev = false)
    (hL : L = [] ∨ PlainText.TextBeforeTag L) (hR : PlainText.noOpen R)
    (hwith : assocGet r.helpers ['w', 'i', 't', 'h'] = some .withH)
    (hnohelper : assocGet r.helpers ['x'] = none)
    (hsafe : Spec.indexSafe data [['v']] = true) (hj : Spec.descend data [['v']] = some j) (hT : j.truthy false = true)
    (hsafex : Spec.indexSafe data [['v'], ['x']] = true) (hjx : Spec.descend j [['x']] = some jx) :
    r.renderTemplate fs (L ++ withValueSrc ++ R) data = .ok (L ++ r.escape jx.render ++ R) := by
  unfold Registry.renderTemplate Registry.renderTemplateToWrite Registry.renderTemplateWithContextToWrite
    Registry.compileForRenderTemplate
  obtain ⟨m, hcomp⟩ := PlainText.compile_text_wiv_text L _ _ { preventIndent := r.preventIndent } hL (PlainText.textAfterTag_split R hR)
  rw [← PlainText.split_ws R] at hcomp
  rw [show withValueSrc = PlainText.wivSrc from rfl, hcomp]
  simp only [Registry.renderResolved, hdev, Bool.not_false, ↓reduceIte]
  generalize Pest.lineCol (L ++ PlainText.wivSrc ++ R) (L.length + 11) = lc
  let txt : Str := r.escape jx.render
  let ets : List (Elem × Str) := (if L = [] then [] else [(.raw L, L)]) ++ [(.block (PlainText.wivHT (PlainText.wivBody lc)), txt)]
    ++ (if R = [] then [] else [(.raw R, R)])
  have hel : (PlainText.leftT L L).elements ++ [Elem.block (PlainText.wivHT (PlainText.wivBody lc))] ++ (if R = [] then [] else [Elem.raw R])
      = ets.map (·.1) := by
    simp only [ets]
    by_cases hLe : L = [] <;> by_cases hRe : R = [] <;> simp [hLe, hRe, PlainText.leftT, Tmpl.empty, Tmpl.elements]
  have htxt : (ets.map (·.2)).flatten = L ++ txt ++ R := by
    simp only [ets]
    by_cases hLe : L = [] <;> by_cases hRe : R = [] <;> simp [hLe, hRe]
  rw [hel]
  have hw : ∀ p ∈ ets, WritesTextK 9 r data { ({ rootTemplate := none } : RC) with currentTemplate := none } p.1 p.2 := by
    intro p hp
    simp only [ets, List.mem_append, List.mem_singleton] at hp
    rcases hp with (hp | rfl) | hp
    · split at hp
      · simp at hp
      · simp at hp; subst hp; exact (writes_raw r data _ rfl L).toK _ (by omega)
    · exact with_value_block_writes r data j jx _ lc hT rfl rfl hnohelper hsafex hjx rfl rfl rfl rfl rfl hwith hsafe hj
    · split at hp
      · simp at hp
      · simp at hp; subst hp; exact (writes_raw r data _ rfl R).toK _ (by omega)
  have hlen : ets.length + 9 + 6 ≤ renderFuel := by
    have h1 : (if L = [] then [] else [((Elem.raw L, L) : Elem × Str)]).length ≤ 1 := by split <;> simp
    have h2 : (if R = [] then [] else [((Elem.raw R, R) : Elem × Str)]).length ≤ 1 := by split <;> simp
    simp only [ets, List.length_append, List.length_singleton]
    have : renderFuel = 4000 := rfl
    omega
  have := render_writes_templateK 9 r data none ets m { rootTemplate := none } hlen hw
  simp only [Tmpl.name] at this ⊢
  rw [this, htxt]



/-! ### `this` inside `with` -/

/-- the body `{{this}}` rendered in the scope the `with` helper pushed (held as the path `v`): the escaped text of `data.v` itself -/
theorem render_this_body_in_with (reg : Registry) (root j : Json) (rc0 rcS : RC) (out : Out) (lc : Nat × Nat) (fuel : Nat)
    (hb : rc0.blocks = [{ basePath := [['v']] }, {}])
    (hi : rc0.indentString = none) (hct : rc0.currentTemplate = none) (hmc : rc0.modifiedCtx = none) (hde : rc0.disableEscape = false)
    (hl : assocGet rc0.localHelpers ['t', 'h', 'i', 's'] = none) (hr : assocGet reg.helpers ['t', 'h', 'i', 's'] = none)
    (hsafe : Spec.indexSafe root [['v']] = true) (hj : Spec.descend root [['v']] = some j)
    (hq : Quiet rc0 rcS) (hf : out.failAt = none) :
    ∃ rc2 out2, renderTemplate reg root (fuel + 6) (PlainText.wtBody lc) rcS out = .ok () rc2 out2
      ∧ Quiet rc0 rc2 ∧ out2.failAt = none ∧ out2.text = out.text ++ reg.escape j.render := by
  have hqB : Quiet rc0 { rcS with currentTemplate := none } := by
    have := Quiet.setTemplate hq
    rw [hct] at this
    exact this
  have hblB : rcS.blocks = [{ basePath := [['v']] }, {}] := by rw [hq.blocks, hb]
  have hev : evaluate2 root (.relative [] ['t', 'h', 'i', 's']) { rcS with currentTemplate := none } out
      = .ok (.context j [['v']]) { rcS with currentTemplate := none } out := by
    exact C09.evaluate_this_in_path_scope root j { rcS with currentTemplate := none } out { basePath := [['v']] } [{}] hblB rfl rfl hsafe hj
  have hel : renderElem reg root (fuel + 4) (.expr PlainText.thisHT) { rcS with currentTemplate := none } out
      = indentAwareWrite (reg.escape j.render) { rcS with currentTemplate := none } out :=
    expr_path_escapes_once reg root fuel PlainText.thisHT (.relative [] ['t', 'h', 'i', 's'])
      _ out (.context j [['v']]) rfl rfl (by rw [hqB]; exact hl) hr (by rw [hqB]; exact hmc) (by rw [hqB]; exact hde) hev rfl
  obtain ⟨rc2, out2, hw, hq2, hf2, ht2⟩ := indentAwareWrite_quiet rc0 hi (reg.escape j.render) _ out hqB hf
  have hmA := quiet_modifyAux rc0 rcS (fun r => { r with currentTemplate := (PlainText.wtBody lc).name }) out hq hqB
  have hq3 : Quiet rc0 { rc2 with currentTemplate := rcS.currentTemplate } := by
    have := Quiet.setTemplate hq2
    rw [← Quiet.template hq] at this
    exact this
  have hmB := quiet_modifyAux rc0 rc2 (fun r => { r with currentTemplate := rcS.currentTemplate }) out2 hq2 hq3
  refine ⟨_, out2, ?_, hq3, hf2, ht2⟩
  rw [show fuel + 6 = (fuel + 4) + 1 + 1 by omega]
  simp only [renderTemplate, RM.bind_def, RM.bnd_apply, RM.get_apply, hmA]
  simp only [PlainText.wtBody, Tmpl.empty, Tmpl.pushElement, Tmpl.name, Tmpl.elements, Tmpl.mapping, List.nil_append, renderElems,
    RM.bind_def, RM.bnd_apply, RM.mapErr, hel, hw, RM.pure_def, RM.ret_apply, Option.isNone_none]
  simp only [↓reduceIte]
  exact hmB

/-- the block element `{{#with v}}{{this}}{{/with}}` compiles to, on a truthy `data.v`: the escaped text of `data.v`, the pushed scope
    popped again -/
theorem with_this_block_writes (reg : Registry) (root j : Json) (rc0 : RC) (lc : Nat × Nat)
    (hT : j.truthy false = true)
    (hde : rc0.disableEscape = false)
    (hlx : assocGet rc0.localHelpers ['t', 'h', 'i', 's'] = none) (hrx : assocGet reg.helpers ['t', 'h', 'i', 's'] = none)
    (hb : rc0.blocks = [{}]) (hi : rc0.indentString = none) (hmc : rc0.modifiedCtx = none) (hct : rc0.currentTemplate = none)
    (hl : assocGet rc0.localHelpers ['w', 'i', 't', 'h'] = none) (hr : assocGet reg.helpers ['w', 'i', 't', 'h'] = some .withH)
    (hsafe : Spec.indexSafe root [['v']] = true) (hj : Spec.descend root [['v']] = some j) :
    WritesTextK 9 reg root rc0 (.block (PlainText.wtHT (PlainText.wtBody lc))) (reg.escape j.render) := by
  intro fuel0 rc out hq hf
  rw [show fuel0 + 9 = (fuel0 + 3) + 6 by omega]
  generalize hfu : fuel0 + 3 = fuel
  have hblocks : rc.blocks = [{}] := by rw [hq.blocks, hb]
  have hev : evaluate2 root (.relative [.named ['v']] ['v']) rc out = .ok (.context j [['v']]) rc out := by
    have := C01.navigate_current_path_scope root {} [] ['v'] [] rc out (by simp [getInBlockParams, assocGet]) rfl (by simpa using hsafe)
    simp only [C01.names, List.map_cons, List.map_nil] at this
    simp only [evaluate2, RM.bind_def, RM.bnd_apply, RM.get_apply, hblocks, this, C01.blockValue, Spec.descend]
    simp only [Option.bind]
    have hj' : (Spec.step root ['v']).bind (fun v' => Spec.descend v' []) = some j := by simpa [Spec.descend] using hj
    simp [Spec.descend] at hj' ⊢
    rw [hj']
  have hmc' : rc.modifiedCtx = none := by rw [hq]; exact hmc
  have hl' : assocGet rc.localHelpers ['w', 'i', 't', 'h'] = none := by rw [hq]; exact hl
  have hpath : Path.new ['v'] [.named ['v']] = .relative [.named ['v']] ['v'] := rfl
  have hh : helperFromTemplate reg root (fuel + 4) (PlainText.wtHT (PlainText.wtBody lc)) rc out
      = .ok { name := ['w', 'i', 't', 'h'], params := [⟨some ['v'], .context j [['v']]⟩], hash := [], template := some (PlainText.wtBody lc), inverse := none, blockParam := none, block := true } rc out := by
    simp [helperFromTemplate, PlainText.wtHT, PlainText.wiOpen, HelperG.new, expandAsName, expandParams, expandParam, expandHash,
      RM.bnd_apply, hmc', hpath, hev, Path.raw]
  have hm1 := quiet_modifyAux rc0 rc (fun r => { r with contentProduced := false, indentBeforeWrite := rc.indentBeforeWrite || ((PlainText.wtHT (PlainText.wtBody lc)).indentBeforeWrite && r.trailingNewline) }) out hq (hq.flags _ _ _)
  simp only [renderElem, renderHelper, RM.bind_def, RM.bnd_apply, hh, RM.get_apply, hl', hr, hm1]
  have hibw : (PlainText.wtHT (PlainText.wtBody lc)).indentBeforeWrite = false := rfl
  simp only [hibw, Bool.false_and, Bool.or_false]
  have hqA : Quiet rc0 { rc with contentProduced := false } := hq.flags _ _ _
  let rcA : RC := { rc with contentProduced := false }
  have finish : ∀ (rc2 : RC) (out2 : Out) (txt : Str), Quiet rc0 rc2 → out2.failAt = none → out2.text = out.text ++ txt →
      ∃ rc' out', RM.modifyAux (fun rc_1 : RC => if rc_1.contentProduced = true then { rc_1 with indentBeforeWrite := rc_1.trailingNewline } else { rc_1 with contentProduced := rc.contentProduced, indentBeforeWrite := rc.indentBeforeWrite }) rc2 out2 = .ok () rc' out'
        ∧ Quiet rc0 rc' ∧ out'.failAt = none ∧ out'.text = out.text ++ txt := by
    intro rc2 out2 txt hq2 hf2 ht2
    have hqG : Quiet rc0 ((fun rc_1 : RC => if rc_1.contentProduced = true then { rc_1 with indentBeforeWrite := rc_1.trailingNewline } else { rc_1 with contentProduced := rc.contentProduced, indentBeforeWrite := rc.indentBeforeWrite }) rc2) := by
      by_cases hcp : rc2.contentProduced = true
      · simp only [hcp, ↓reduceIte]; exact Quiet.flags hq2 _ _ _
      · simp only [hcp, ↓reduceIte]; exact Quiet.flags hq2 _ _ _
    exact ⟨_, _, quiet_modifyAux rc0 _ _ out2 hq2 hqG, hqG, hf2, ht2⟩
  have ht : j.truthy false = true := hT
  let rcP : RC := { rcA with blocks := { basePath := [['v']] } :: rcA.blocks }
  obtain ⟨rc2, out2, hbody, hq2, hf2, ht2⟩ := render_this_body_in_with reg root j rcP rcP out lc fuel0
    (by show ({ basePath := [['v']] } : Block) :: rc.blocks = _; rw [hblocks])
    (by show rc.indentString = none; rw [hq.indent]; exact hi) (by show rc.currentTemplate = none; rw [Quiet.template hq]; exact hct)
    (by show rc.modifiedCtx = none; exact hmc') (by show rc.disableEscape = false; rw [hq]; exact hde)
    (by show assocGet rc.localHelpers ['t', 'h', 'i', 's'] = none; rw [hq]; exact hlx) hrx hsafe hj (Quiet.refl _) hf
  have hcall : callHelper reg root (fuel + 4) .withH { name := ['w', 'i', 't', 'h'], params := [⟨some ['v'], .context j [['v']]⟩], hash := [], template := some (PlainText.wtBody lc), inverse := none, blockParam := none, block := true } rcA out
      = .ok () { rc2 with blocks := rc2.blocks.drop 1 } out2 := by
    rw [show fuel + 4 = (fuel + 3) + 1 by omega]
    simp only [callHelper, HelperKind.hasInner, Bool.false_eq_true, ↓reduceIte, List.getElem?_cons_zero, PJ.json, SJ.asJson, ht, PJ.contextPath,
      SJ.contextPath, createBlock, HelperI.blockParam1, RM.withBlock, RM.bracket_apply]
    rw [← hfu, show fuel0 + 3 + 3 = fuel0 + 6 by omega, hbody]
  rw [hcall]
  have hq4 : Quiet rc0 { rc2 with blocks := rc2.blocks.drop 1 } := by
    have hrcA : Quiet rc0 rcA := hqA
    unfold Quiet at hq2 hrcA ⊢
    rw [hq2]
    simp only [rcP, List.drop_succ_cons, List.drop_zero]
    rw [hrcA]
  exact finish _ out2 _ hq4 hf2 ht2



/-- `{{#with v}}{{this}}{{/with}}` -/
abbrev withThisSrc : Str := PlainText.wtSrc

/-- **inside `{{#with v}}`, `this` is `data.v`** – at source level: for every text `L`, `R`, every truthy `data.v` (a string, a number,
    an array, an object …) and every escape function, `L ++ {{#with v}}{{this}}{{/with}} ++ R` renders `L ++ escape(text of data.v) ++ R`:
    the current context inside the block is the value the helper was given.  Through the regenerated grammar (the 13 pairs of the
    block by kernel evaluation; `this` is a path without segments), compile2, the `with` helper and `navigate`
    (`C09.evaluate_this_in_path_scope`). -/
theorem this_in_with_is_the_with_value (r : Registry) (fs : FS) (L R : Str) (data j : Json)
    (hdev : r.dev = false)
    (hL : L = [] ∨ PlainText.TextBeforeTag L) (hR : PlainText.noOpen R)
    (hwith : assocGet r.helpers ['w', 'i', 't', 'h'] = some .withH)
    (hnohelper : assocGet r.helpers ['t', 'h', 'i', 's'] = none)
    (hsafe : Spec.indexSafe data [['v']] = true) (hj : Spec.descend data [['v']] = some j) (hT : j.truthy false = true) :
    r.renderTemplate fs (L ++ withThisSrc ++ R) data = .ok (L ++ r.escape j.render ++ R) := by
  unfold Registry.renderTemplate Registry.renderTemplateToWrite Registry.renderTemplateWithContextToWrite
    Registry.compileForRenderTemplate
  obtain ⟨m, hcomp⟩ := PlainText.compile_text_wt_text L _ _ { preventIndent := r.preventIndent } hL (PlainText.textAfterTag_split R hR)
  rw [← PlainText.split_ws R] at hcomp
  rw [show withThisSrc = PlainText.wtSrc from rfl, hcomp]
  simp only [Registry.renderResolved, hdev, Bool.not_false, ↓reduceIte]
  generalize Pest.lineCol (L ++ PlainText.wtSrc ++ R) (L.length + 11) = lc
  let txt : Str := r.escape j.render
  let ets : List (Elem × Str) := (if L = [] then [] else [(.raw L, L)]) ++ [(.block (PlainText.wtHT (PlainText.wtBody lc)), txt)]
    ++ (if R = [] then [] else [(.raw R, R)])
  have hel : (PlainText.leftT L L).elements ++ [Elem.block (PlainText.wtHT (PlainText.wtBody lc))] ++ (if R = [] then [] else [Elem.raw R])
      = ets.map (·.1) := by
    simp only [ets]
    by_cases hLe : L = [] <;> by_cases hRe : R = [] <;> simp [hLe, hRe, PlainText.leftT, Tmpl.empty, Tmpl.elements]
  have htxt : (ets.map (·.2)).flatten = L ++ txt ++ R := by
    simp only [ets]
    by_cases hLe : L = [] <;> by_cases hRe : R = [] <;> simp [hLe, hRe]
  rw [hel]
  have hw : ∀ p ∈ ets, WritesTextK 9 r data { ({ rootTemplate := none } : RC) with currentTemplate := none } p.1 p.2 := by
    intro p hp
    simp only [ets, List.mem_append, List.mem_singleton] at hp
    rcases hp with (hp | rfl) | hp
    · split at hp
      · simp at hp
      · simp at hp; subst hp; exact (writes_raw r data _ rfl L).toK _ (by omega)
    · exact with_this_block_writes r data j _ lc hT rfl rfl hnohelper rfl rfl rfl rfl rfl hwith hsafe hj
    · split at hp
      · simp at hp
      · simp at hp; subst hp; exact (writes_raw r data _ rfl R).toK _ (by omega)
  have hlen : ets.length + 9 + 6 ≤ renderFuel := by
    have h1 : (if L = [] then [] else [((Elem.raw L, L) : Elem × Str)]).length ≤ 1 := by split <;> simp
    have h2 : (if R = [] then [] else [((Elem.raw R, R) : Elem × Str)]).length ≤ 1 := by split <;> simp
    simp only [ets, List.length_append, List.length_singleton]
    have : renderFuel = 4000 := rfl
    omega
  have := render_writes_templateK 9 r data none ets m { rootTemplate := none } hlen hw
  simp only [Tmpl.name] at this ⊢
  rw [this, htxt]



end Hbs.C01
