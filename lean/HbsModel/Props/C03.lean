import HbsModel.Registry
import HbsModel.Lemmas.RM
import HbsModel.Lemmas.Write
/-
  C03  Template text outside tags is reproduced verbatim.
-/
namespace Hbs.C03
open Hbs RM

/-- a `RawString s` element hands exactly `s` to the writer, as one call, when no indent is active -/
theorem render_raw_verbatim (reg : Registry) (root : Json) (fuel : Nat) (s : Str) (rc : RC) (out : Out)
    (hs : s ≠ []) (hi : rc.indentString = none) (hf : out.failAt ≠ some out.count) :
    ∃ rc', renderElem reg root (fuel + 1) (.raw s) rc out
      = .ok () rc' { out with segs := s :: out.segs, count := out.count + 1 } := by
  refine ⟨{ rc with contentProduced := true, trailingNewline := endsWithNewline s,
                     indentBeforeWrite := endsWithNewline s }, ?_⟩
  simp only [renderElem]
  exact indentAwareWrite_plain s rc out hs hi hf

/-- comments write nothing and change nothing -/
theorem comment_writes_nothing (reg : Registry) (root : Json) (fuel : Nat) (s : Str) (rc : RC) (out : Out) :
    renderElem reg root (fuel + 1) (.comment s) rc out = .ok () rc out := by
  simp [renderElem]

/-- the `raw` helper renders its body: a raw block's body (one RawString) is written as it is -/
theorem raw_helper_is_body (reg : Registry) (root : Json) (fuel : Nat) (h : HelperI) (t : Tmpl)
    (ht : h.template = some t) :
    callHelper reg root (fuel + 1) .raw h = renderTemplate reg root fuel t := by
  funext rc out
  simp [callHelper, HelperKind.hasInner, ht]

/-- from the regenerated grammar: text rules are compound-atomic – pest skips no whitespace inside
    them – and `escape` is atomic -/
theorem raw_text_compound : (Grammar.rules .r_raw_text).ty = .compound := rfl
theorem raw_block_text_compound : (Grammar.rules .r_raw_block_text).ty = .compound := rfl
theorem escape_atomic : (Grammar.rules .r_escape).ty = .atomic := rfl

/-! ### `Template::raw_string` removes exactly the escape backslashes -/

theorem removeAt_length (s : Str) (i : Nat) (r : Str) (h : removeAt s i = some r) : r.length + 1 = s.length := by
  induction s generalizing i r with
  | nil => simp [removeAt] at h
  | cons c t ih =>
    cases i with
    | zero => simp [removeAt] at h; subst h; simp
    | succ i =>
      simp only [removeAt, Option.map_eq_some_iff] at h
      obtain ⟨r', hr', rfl⟩ := h
      have := ih i r' hr'
      simp; omega

/-- removing position `i` deletes that one character and keeps everything else in order -/
theorem removeAt_spec (s : Str) (i : Nat) (r : Str) (h : removeAt s i = some r) :
    r = s.take i ++ s.drop (i + 1) := by
  induction s generalizing i r with
  | nil => simp [removeAt] at h
  | cons c t ih =>
    cases i with
    | zero => simp [removeAt] at h; subst h; simp
    | succ i =>
      simp only [removeAt, Option.map_eq_some_iff] at h
      obtain ⟨r', hr', rfl⟩ := h
      rw [ih i r' hr']
      simp

/-- no escapes, no flags: the slice is kept as it is -/
theorem rawString_plain (slice : Str) (p : CTok) (h : p.escapes = []) (hl : p.e - p.s ≤ slice.length) :
    rawString slice (some p) false false = .ok (.raw slice) := by
  have : ¬ slice.length < p.e - p.s := by omega
  simp [rawString, this, h, removeEscapes]

/-- one escape: exactly the character at the escape's start (the backslash) is removed -/
theorem rawString_one_escape (slice : Str) (p : CTok) (esc : Nat) (r : Str)
    (h : p.escapes = [esc]) (hl : p.e - p.s ≤ slice.length)
    (hge : p.s ≤ slice.length - (p.e - p.s) + esc)
    (hr : removeAt slice (slice.length - (p.e - p.s) + esc - p.s) = some r) :
    rawString slice (some p) false false = .ok (.raw (slice.take (slice.length - (p.e - p.s) + esc - p.s)
      ++ slice.drop (slice.length - (p.e - p.s) + esc - p.s + 1))) := by
  have h1 : ¬ slice.length < p.e - p.s := by omega
  have h2 : ¬ slice.length - (p.e - p.s) + esc < p.s := by omega
  simp only [rawString, h1, ↓reduceIte, h, removeEscapes, h2, hr]
  rw [removeAt_spec slice _ r hr]
  simp

/-- NEGATION WITNESS (known finding F1): the raw_block_text arm of compile2 builds its text from the
    pair's own span, so whitespace pest skipped between `{{{{raw}}}}` and the body is lost; the model
    reproduces it (evaluated by the driver on `{{{{raw}}}} x {{{{/raw}}}}`; see known_findings.json). -/
theorem raw_block_uses_span_only (src : Str) (t : CTok) : tokStr src t = (src.drop t.s).take (t.e - t.s) := rfl

end Hbs.C03
