import HbsModel.Registry
import HbsModel.Lemmas.RM
import HbsModel.Lemmas.Write
import HbsModel.Lemmas.CompilePlain
import HbsModel.Lemmas.CompileComment
import HbsModel.Lemmas.RenderPlain
import HbsModel.Lemmas.Assoc
import HbsModel.Lemmas.RawBlock
/-
  C03  Template text outside tags is reproduced verbatim.
-/
namespace Hbs.C03
open Hbs RM

/-- a `RawString s` element hands exactly `s` to the writer, as one call, when no indent is active -/
theorem render_raw_verbatim (reg : Registry) (root : Json) (fuel : Nat) (s : Str) (rc : RC) (out : Out)
    (hs : s ≠ []) (hi : rc.indentString = none) (hf : out.failAt ≠ some out.count) :
    ∃ rc', renderElem reg root (fuel + 1) (.raw s) rc out
      = .ok () rc' { out with segs := s :: out.segs, count := out.count + 1 } := by
  refine ⟨{ rc with contentProduced := true, trailingNewline := endsWithNewline s,
                     indentBeforeWrite := endsWithNewline s }, ?_⟩
  simp only [renderElem]
  exact indentAwareWrite_plain s rc out hs hi hf

/-- comments write nothing and change nothing -/
theorem comment_writes_nothing (reg : Registry) (root : Json) (fuel : Nat) (s : Str) (rc : RC) (out : Out) :
    renderElem reg root (fuel + 1) (.comment s) rc out = .ok () rc out := by
  simp [renderElem]

/-- the `raw` helper renders its body: a raw block's body (one RawString) is written as it is -/
theorem raw_helper_is_body (reg : Registry) (root : Json) (fuel : Nat) (h : HelperI) (t : Tmpl)
    (ht : h.template = some t) :
    callHelper reg root (fuel + 1) .raw h = renderTemplate reg root fuel t := by
  funext rc out
  simp [callHelper, HelperKind.hasInner, ht]

/-- from the regenerated grammar: text rules are compound-atomic – pest skips no whitespace inside
    them – and `escape` is atomic -/
theorem raw_text_compound : (Grammar.rules .r_raw_text).ty = .compound := rfl
theorem raw_block_text_compound : (Grammar.rules .r_raw_block_text).ty = .compound := rfl
theorem escape_atomic : (Grammar.rules .r_escape).ty = .atomic := rfl

/-! ### `Template::raw_string` removes exactly the escape backslashes -/

theorem removeAt_length (s : Str) (i : Nat) (r : Str) (h : removeAt s i = some r) : r.length + 1 = s.length := by
  induction s generalizing i r with
  | nil => simp [removeAt] at h
  | cons c t ih =>
    cases i with
    | zero => simp [removeAt] at h; subst h; simp
    | succ i =>
      simp only [removeAt, Option.map_eq_some_iff] at h
      obtain ⟨r', hr', rfl⟩ := h
      have := ih i r' hr'
      simp; omega

/-- removing position `i` deletes that one character and keeps everything else in order -/
theorem removeAt_spec (s : Str) (i : Nat) (r : Str) (h : removeAt s i = some r) :
    r = s.take i ++ s.drop (i + 1) := by
  induction s generalizing i r with
  | nil => simp [removeAt] at h
  | cons c t ih =>
    cases i with
    | zero => simp [removeAt] at h; subst h; simp
    | succ i =>
      simp only [removeAt, Option.map_eq_some_iff] at h
      obtain ⟨r', hr', rfl⟩ := h
      rw [ih i r' hr']
      simp

/-- no escapes, no flags: the slice is kept as it is -/
theorem rawString_plain (slice : Str) (p : CTok) (h : p.escapes = []) (hl : p.e - p.s ≤ slice.length) :
    rawString slice (some p) false false = .ok (.raw slice) := by
  have : ¬ slice.length < p.e - p.s := by omega
  simp [rawString, this, h, removeEscapes]

/-- one escape: exactly the character at the escape's start (the backslash) is removed -/
theorem rawString_one_escape (slice : Str) (p : CTok) (esc : Nat) (r : Str)
    (h : p.escapes = [esc]) (hl : p.e - p.s ≤ slice.length)
    (hge : p.s ≤ slice.length - (p.e - p.s) + esc)
    (hr : removeAt slice (slice.length - (p.e - p.s) + esc - p.s) = some r) :
    rawString slice (some p) false false = .ok (.raw (slice.take (slice.length - (p.e - p.s) + esc - p.s)
      ++ slice.drop (slice.length - (p.e - p.s) + esc - p.s + 1))) := by
  have h1 : ¬ slice.length < p.e - p.s := by omega
  have h2 : ¬ slice.length - (p.e - p.s) + esc < p.s := by omega
  simp only [rawString, h1, ↓reduceIte, h, removeEscapes, h2, hr]
  rw [removeAt_spec slice _ r hr]
  simp

/-- NEGATION WITNESS (known finding F1): the raw_block_text arm of compile2 builds its text from the
    pair's own span, so whitespace pest skipped between `{{{{raw}}}}` and the body is lost; the model
    reproduces it (evaluated by the driver on `{{{{raw}}}} x {{{{/raw}}}}`; see known_findings.json). -/
theorem raw_block_uses_span_only (src : Str) (t : CTok) : tokStr src t = (src.drop t.s).take (t.e - t.s) := rfl

end Hbs.C03

/-! ### a template without `{{` renders to itself – from the SOURCE TEXT, through the grammar
    regenerated from src/grammar.pest and the loop of compile2, to the bytes written -/
namespace Hbs.C03
open Hbs RM Hbs.PlainText

/-- the source contains no `{{` (lone braces, backslashes and everything else are allowed) -/
abbrev noOpen := PlainText.noOpen

/-- the parse of a source without `{{`: template( raw_text ) EOI (see Lemmas/PlainText: a big-step proof
    system for the PEG interpreter, a verified end-of-input analysis decided over the regenerated grammar,
    and an induction over the characters – including runs of backslashes, which `escape` tries first) -/
theorem parse_plain (s : Str) (hne : s ≠ []) (hs : noOpen s) :
    Pest.parse Grammar.rules Grammar.ws .r_handlebars s = .ok ⟨s.length, []⟩ (plainToks s.length) :=
  PlainText.parse_plain s hne hs

/-- for EVERY non-empty string without `{{` – any length, any characters: lone braces, backslashes,
    quotes, CR, LF, tabs, non-ASCII – compile2 yields the single element RawString(s) -/
theorem compile_plain (s : Str) (opts : TemplateOptions) (hne : s ≠ []) (hs : noOpen s) :
    compile2 s opts = .ok (.mk opts.name [.raw s] [(1, 1)]) :=
  PlainText.compile_plain s opts hne hs

theorem compile_empty (opts : TemplateOptions) : compile2 [] opts = .ok (.mk opts.name [] []) :=
  PlainText.compile_empty opts

/-- the template `[RawString s]` writes `s` -/
theorem render_single_raw (reg : Registry) (root : Json) (name : Option Str) (s : Str) (hne : s ≠ []) (rc : RC)
    (hi : rc.indentString = none) :
    runRM (renderTemplate reg root renderFuel (.mk name [.raw s] [(1, 1)])) rc {} = .ok s := by
  obtain ⟨rc', h⟩ := render_raw_verbatim reg root (renderFuel - 3) s { rc with currentTemplate := name } {} hne hi (by simp)
  have hf : renderFuel = (renderFuel - 3 + 1) + 2 := by decide
  unfold runRM
  rw [hf]
  simp only [renderTemplate, renderElems, RM.bind_def, RM.bnd_apply, RM.get_apply, RM.modify_apply, RM.modifyAux_apply, RM.mapErr,
    Tmpl.name, Tmpl.elements, Tmpl.mapping, h, List.drop, RM.pure_def, RM.ret_apply]
  cases name <;> simp [Out.text]

theorem render_empty_template (reg : Registry) (root : Json) (name : Option Str) (rc : RC) :
    runRM (renderTemplate reg root renderFuel (.mk name [] [])) rc {} = .ok [] := by
  have hf : renderFuel = (renderFuel - 2) + 2 := by decide
  unfold runRM
  rw [hf]
  simp only [renderTemplate, renderElems, RM.bind_def, RM.bnd_apply, RM.get_apply, RM.modify_apply, RM.modifyAux_apply,
    Tmpl.name, Tmpl.elements, Tmpl.mapping, RM.pure_def, RM.ret_apply]
  cases name <;> simp [Out.text]

/-- **a template without `{{` renders to itself**, for any data, through `render_template` (registry
    not in dev mode): source text in, the same text out.  This is the first clause of the property at
    full strength: EVERY string that does not contain `{{`, the empty one included. -/
theorem template_without_tags_renders_to_itself (r : Registry) (fs : FS) (s : Str) (data : Json)
    (hdev : r.dev = false) (hs : noOpen s) :
    r.renderTemplate fs s data = .ok s := by
  unfold Registry.renderTemplate Registry.renderTemplateToWrite Registry.renderTemplateWithContextToWrite
    Registry.compileForRenderTemplate
  by_cases hne : s = []
  · subst hne
    rw [compile_empty]
    simp only [Registry.renderResolved, hdev, Bool.not_false, ↓reduceIte]
    exact render_empty_template r data none _
  · rw [compile_plain s _ hne hs]
    simp only [Registry.renderResolved, hdev, Bool.not_false, ↓reduceIte]
    exact render_single_raw r data none s hne _ rfl

/-- … and registered under a name and rendered with `render` -/
theorem registered_template_without_tags_renders_to_itself (r : Registry) (fs : FS) (name s : Str) (data : Json)
    (hdev : r.dev = false) (hs : noOpen s) :
    ∃ r', r.registerTemplateString name s = .ok r' ∧ r'.render fs name data = .ok s := by
  unfold Registry.registerTemplateString
  by_cases hne : s = []
  · subst hne
    rw [compile_empty]
    refine ⟨_, rfl, ?_⟩
    simp only [Registry.render, Registry.renderToOutput, Registry.getOrLoad, Registry.getOrLoadOptional,
      Registry.registerTemplate, hdev, assocInsert, assocGet_insert_same, Option.map_some]
    simp only [Registry.renderResolved, hdev, Bool.not_false, ↓reduceIte]
    exact render_empty_template _ data _ _
  · rw [compile_plain s _ hne hs]
    refine ⟨_, rfl, ?_⟩
    simp only [Registry.render, Registry.renderToOutput, Registry.getOrLoad, Registry.getOrLoadOptional,
      Registry.registerTemplate, hdev, assocInsert, assocGet_insert_same, Option.map_some]
    simp only [Registry.renderResolved, hdev, Bool.not_false, ↓reduceIte]
    exact render_single_raw _ data _ s hne _ rfl

/-! ### the escape `\{{` : a literal `{{`, and the text after it stays text -/

/-- the quoting of the property: every `{{` of the text written as `\{{` -/
abbrev quote := PlainText.quote
/-- the property's quantifier: no backslash immediately before a `{{` -/
abbrev noEscBrace := PlainText.noEscBrace

/-- for EVERY non-empty text without a backslash immediately before a `{{`, `quote s` compiles to
    RawString(s): each `\{{` is one `escape` pair inside ONE raw_text pair (Lemmas/QuotedText:
    `parse_quoted`), and `raw_string` removes exactly the inserted backslashes -/
theorem compile_quoted (s : Str) (opts : TemplateOptions) (hne : s ≠ []) (hs : noEscBrace s) :
    compile2 (quote s) opts = .ok (.mk opts.name [.raw s] [(1, 1)]) :=
  PlainText.compile_quoted s opts hne hs

/-- **render(quote s) = s** for any data: the first two clauses of the property at full strength and at
    source level – any text, braces and `{{` included, is reproduced verbatim once its `{{` are escaped -/
theorem quoted_text_renders_verbatim (r : Registry) (fs : FS) (s : Str) (data : Json)
    (hdev : r.dev = false) (hs : noEscBrace s) :
    r.renderTemplate fs (quote s) data = .ok s := by
  unfold Registry.renderTemplate Registry.renderTemplateToWrite Registry.renderTemplateWithContextToWrite
    Registry.compileForRenderTemplate
  by_cases hne : s = []
  · subst hne
    have : quote [] = [] := rfl
    rw [this, compile_empty]
    simp only [Registry.renderResolved, hdev, Bool.not_false, ↓reduceIte]
    exact render_empty_template r data none _
  · rw [compile_quoted s _ hne hs]
    simp only [Registry.renderResolved, hdev, Bool.not_false, ↓reduceIte]
    exact render_single_raw r data none s hne _ rfl

/-- non-vacuity: a text with `{{`, `{{{`, `}}`, a lone backslash and a backslash before a single brace -/
example : noEscBrace ['a', '{', '{', 'x', '}', '}', '{', '{', '{', '\\', 'b', '\\', '{', 'c'] ∧
    quote ['a', '{', '{', 'x'] = ['a', '\\', '{', '{', 'x'] := by
  constructor
  · simp [noEscBrace, PlainText.noEscBrace]
  · rfl

/-- non-vacuity: the hypothesis holds of a string with a lone brace, a backslash before a brace, quotes,
    line breaks and non-ASCII -/
example : noOpen ['a', '{', 'b', '\\', '{', '"', '\n', '}', 'é', '\r', '{'] := by
  simp [noOpen, PlainText.noOpen]

/-! ### text around a comment: `comments write nothing`, the text around them is kept, and whitespace
    goes only where the standalone-line rule says so – at source level, for EVERY text and comment body -/

/-- text that may stand in front of a tag: no `{{` inside, and neither `{` nor `\` at its end (they
    would join the tag's own braces: `{{{` / `\{{`) -/
abbrev TextBeforeTag := PlainText.TextBeforeTag
/-- a comment body: no `}}` inside, no `}` at its end … -/
abbrev CommentText := PlainText.CommentText
/-- … and not – after whitespace – starting with `--` (that is the long comment form) -/
abbrev noDash := PlainText.noDash
/-- the standalone-line test of `process_standalone_statement`, on the text before and after the tag -/
abbrev standalone := PlainText.standalone
/-- `{{!` c `}}` -/
abbrev comment (c : Str) : Str := PlainText.cmtSrc c

/-- **render(L ++ {{!c}} ++ R)**, for any data, for EVERY text `L` that may stand before a tag, EVERY
    comment body `c` and EVERY text `R` without `{{`: the comment writes nothing; when it does not stand
    alone on its line the output is exactly `L ++ R` – the whitespace pest's implicit skipping dropped
    after the tag is put back by compile2; when it stands alone on its line, exactly the blanks in front
    of it and the blanks and first line break behind it are gone.  Proved from the source string through
    the grammar regenerated from src/grammar.pest, the loop of compile2 and the renderer. -/
theorem text_around_comment_is_kept (r : Registry) (fs : FS) (L c R : Str) (data : Json) (hdev : r.dev = false)
    (hL : L = [] ∨ TextBeforeTag L) (hc : CommentText c) (hd : noDash c) (hR : noOpen R) :
    r.renderTemplate fs (L ++ comment c ++ R) data
      = .ok (if standalone L R false then trimEndBlank L ++ stripFirstNewline (trimStartBlank R) else L ++ R) := by
  unfold Registry.renderTemplate Registry.renderTemplateToWrite Registry.renderTemplateWithContextToWrite
    Registry.compileForRenderTemplate
  obtain ⟨txt, m, hcomp⟩ := PlainText.compile_text_comment L c R { preventIndent := r.preventIndent } hL hc hd hR
  rw [hcomp]
  simp only [Registry.renderResolved, hdev, Bool.not_false, ↓reduceIte]
  have hplain : ∀ e ∈ (PlainText.leftT L (if PlainText.standalone L R false then trimEndBlank L else L)).elements ++ [Elem.comment txt]
      ++ (if R = [] then [] else [Elem.raw (if PlainText.standalone L R false then stripFirstNewline (trimStartBlank R) else R)]),
      plainElem e = true := by
    intro e he
    simp only [List.mem_append, List.mem_singleton] at he
    rcases he with (he | rfl) | he
    · unfold PlainText.leftT at he
      split at he
      · simp [Tmpl.empty, Tmpl.elements] at he
      · simp [Tmpl.elements] at he; subst he; rfl
    · rfl
    · split at he
      · simp at he
      · simp at he; subst he; rfl
  have hlen : ((PlainText.leftT L (if PlainText.standalone L R false then trimEndBlank L else L)).elements ++ [Elem.comment txt]
      ++ (if R = [] then [] else [Elem.raw (if PlainText.standalone L R false then stripFirstNewline (trimStartBlank R) else R)])).length
      + 10 ≤ renderFuel := by
    have h1 : (PlainText.leftT L (if PlainText.standalone L R false then trimEndBlank L else L)).elements.length ≤ 1 := by
      unfold PlainText.leftT; split <;> simp [Tmpl.empty, Tmpl.elements]
    have h2 : (if R = [] then [] else [Elem.raw (if PlainText.standalone L R false then stripFirstNewline (trimStartBlank R) else R)]).length ≤ 1 := by
      split <;> simp
    simp only [List.length_append, List.length_singleton]
    have : renderFuel = 4000 := rfl
    omega
  have hr := render_plain_template r data (.mk none _ m) hplain hlen { rootTemplate := none } rfl
  simp only [Tmpl.name] at hr ⊢
  rw [hr]
  congr 1
  simp only [Tmpl.elements, standalone]
  by_cases hLe : L = []
  · subst hLe
    by_cases hRe : R = []
    · subst hRe
      by_cases hsa : PlainText.standalone [] [] false = true <;>
        simp [hsa, PlainText.leftT, Tmpl.empty, Tmpl.elements, elemsText, trimEndBlank, dropWhileEnd, trimStartBlank, stripFirstNewline]
    · by_cases hsa : PlainText.standalone [] R false = true <;>
        simp [hsa, PlainText.leftT, Tmpl.empty, Tmpl.elements, elemsText, hRe, trimEndBlank, dropWhileEnd]
  · by_cases hRe : R = []
    · subst hRe
      by_cases hsa : PlainText.standalone L [] false = true <;>
        simp [hsa, PlainText.leftT, hLe, Tmpl.elements, elemsText, trimStartBlank, stripFirstNewline]
    · by_cases hsa : PlainText.standalone L R false = true <;>
        simp [hsa, PlainText.leftT, hLe, Tmpl.elements, elemsText, hRe]

/-- non-vacuity: a comment that stands alone on its line, and one that does not -/
example : standalone ['a', '\n', ' ', ' '] [' ', '\n', 'b'] false = true
    ∧ standalone ['a', ' '] [' ', 'b'] false = false
    ∧ TextBeforeTag ['a', '{', '\n', ' '] ∧ CommentText [' ', 'x', '}', ' ', '-', '-'] ∧ noDash [' ', '-', 'x'] := by
  refine ⟨by decide, by decide, ⟨by simp [PlainText.noOpen], by simp, by simp⟩, ⟨by simp [PlainText.noClose], by simp⟩, ?_⟩
  intro t h
  simp [List.dropWhile, isPestWs] at h

/-! ### the body of a raw block – at source level -/

/-- the block element `{{{{raw}}}}b{{{{/raw}}}}` compiles to writes `b` and leaves the render state as it was -/
theorem raw_block_writes (reg : Registry) (root : Json) (rc0 : RC) (b : Str) (lc : Nat × Nat)
    (hi : rc0.indentString = none) (hct : rc0.currentTemplate = none)
    (hl : assocGet rc0.localHelpers ['r', 'a', 'w'] = none) (hr : assocGet reg.helpers ['r', 'a', 'w'] = some .raw) :
    WritesText reg root rc0 (.block (PlainText.rawHT (Tmpl.empty.pushElement (.raw b) lc.1 lc.2))) b := by
  intro fuel rc out hq hf
  have hl' : assocGet rc.localHelpers ['r', 'a', 'w'] = none := by rw [hq]; exact hl
  have hh : helperFromTemplate reg root (fuel + 4) (PlainText.rawHT (Tmpl.empty.pushElement (.raw b) lc.1 lc.2)) rc out
      = .ok { name := ['r', 'a', 'w'], params := [], hash := [], template := some (Tmpl.empty.pushElement (.raw b) lc.1 lc.2), inverse := none, blockParam := none, block := true } rc out := by
    simp [helperFromTemplate, PlainText.rawHT, PlainText.rawOpen, HelperG.new, expandAsName, expandParams, expandHash, RM.bnd_apply]
  have hm1 := quiet_modifyAux rc0 rc (fun r => { r with contentProduced := false, indentBeforeWrite := rc.indentBeforeWrite || ((PlainText.rawHT (Tmpl.empty.pushElement (.raw b) lc.1 lc.2)).indentBeforeWrite && r.trailingNewline) }) out hq (hq.flags _ _ _)
  have hcall := raw_helper_is_body reg root (fuel + 3) { name := ['r', 'a', 'w'], params := [], hash := [], template := some (Tmpl.empty.pushElement (.raw b) lc.1 lc.2), inverse := none, blockParam := none, block := true } (Tmpl.empty.pushElement (.raw b) lc.1 lc.2) rfl
  have hc4 : callHelper reg root (fuel + 4) .raw { name := ['r', 'a', 'w'], params := [], hash := [], template := some (Tmpl.empty.pushElement (.raw b) lc.1 lc.2), inverse := none, blockParam := none, block := true } = _ := hcall
  simp only [renderElem, renderHelper, RM.bind_def, RM.bnd_apply, hh, RM.get_apply, hl', hr, hm1, hc4]
  have hibw : (PlainText.rawHT (Tmpl.empty.pushElement (.raw b) lc.1 lc.2)).indentBeforeWrite = false := rfl
  simp only [hibw, Bool.false_and, Bool.or_false]
  have hqA : Quiet rc0 { rc with contentProduced := false } := hq.flags _ _ _
  obtain ⟨rc2, out2, hbody, hq2, hf2, ht2⟩ := render_text_template reg root rc0 { rc with contentProduced := false } out b lc fuel hi hct hqA hf
  rw [hbody]
  simp only []
  have hqG : Quiet rc0 ((fun rc_1 : RC => if rc_1.contentProduced = true then { rc_1 with indentBeforeWrite := rc_1.trailingNewline } else { rc_1 with contentProduced := rc.contentProduced, indentBeforeWrite := rc.indentBeforeWrite }) rc2) := by
    by_cases hcp : rc2.contentProduced = true
    · simp only [hcp, ↓reduceIte]; exact Quiet.flags hq2 _ _ _
    · simp only [hcp, ↓reduceIte]; exact Quiet.flags hq2 _ _ _
  exact ⟨_, _, quiet_modifyAux rc0 _ _ out2 hq2 hqG, hqG, hf2, ht2⟩

/-- **render(L ++ {{{{raw}}}}b{{{{/raw}}}} ++ R) = L ++ b ++ R** – from the source string to the bytes, for EVERY body `b` without a
    backslash, without `{{{{` inside and not ending in `{` – tags (`{{x}}`, `{{#if}}`, `{{!c}}`), lone braces, quotes,
    non-ASCII text, line breaks, and LEADING AND TRAILING WHITESPACE included: the body is written byte for byte –, every
    text `L` that ends in, and every text `R` that begins with, a character that is neither a blank nor a line break (so that
    neither tag of the block is alone on its line and the standalone-line rule of C11 has nothing to remove), and any data.
    The whitespace at the start of the body is skipped by pest's implicit WHITESPACE between `raw_block_start` and
    `raw_block_text` (the pair of the text begins behind it: `rawBlock_tagAt`) and put back by compile2's "leading space
    fix" (`step_raw_body`: the element is cut from the end of the opening tag, not from the start of the pair) – the defect
    recorded as F1 was the absence of exactly this. -/
theorem raw_block_body_is_verbatim (r : Registry) (fs : FS) (X b R2 : Str) (c c' : Char) (data : Json) (hdev : r.dev = false)
    (hL : PlainText.TextBeforeTag (X ++ [c])) (hcb : isBlank c = false) (hcn : isNewline c = false)
    (hb : PlainText.RawBody b) (hc' : isPestWs c' = false) (hR : PlainText.noOpen (c' :: R2))
    (hraw : assocGet r.helpers ['r', 'a', 'w'] = some .raw) :
    r.renderTemplate fs ((X ++ [c]) ++ PlainText.rawSrc b ++ (c' :: R2)) data = .ok ((X ++ [c]) ++ b ++ (c' :: R2)) := by
  unfold Registry.renderTemplate Registry.renderTemplateToWrite Registry.renderTemplateWithContextToWrite
    Registry.compileForRenderTemplate
  obtain ⟨m, lc, hcomp⟩ := PlainText.compile_text_raw_text X b R2 c c' { preventIndent := r.preventIndent } hL hcb hcn hb hc' hR
  rw [hcomp]
  simp only [Registry.renderResolved, hdev, Bool.not_false, ↓reduceIte]
  let ets : List (Elem × Str) := [(.raw (X ++ [c]), X ++ [c]), (.block (PlainText.rawHT (Tmpl.empty.pushElement (.raw b) lc.1 lc.2)), b),
    (.raw (c' :: R2), c' :: R2)]
  have hel : [Elem.raw (X ++ [c])] ++ [Elem.block (PlainText.rawHT (Tmpl.empty.pushElement (.raw b) lc.1 lc.2))] ++ [Elem.raw (c' :: R2)]
      = ets.map (·.1) := rfl
  have htxt : (ets.map (·.2)).flatten = (X ++ [c]) ++ b ++ (c' :: R2) := by simp [ets]
  rw [hel]
  have hw : ∀ p ∈ ets, WritesText r data { ({ rootTemplate := none } : RC) with currentTemplate := none } p.1 p.2 := by
    intro p hp
    simp only [ets, List.mem_cons, List.not_mem_nil, or_false] at hp
    rcases hp with rfl | rfl | rfl
    · exact writes_raw r data _ rfl _
    · exact raw_block_writes r data _ b lc rfl rfl rfl hraw
    · exact writes_raw r data _ rfl _
  have hlen : ets.length + 12 ≤ renderFuel := by
    have : renderFuel = 4000 := rfl
    simp [ets]; omega
  have := render_writes_template r data none ets m { rootTemplate := none } hlen hw
  simp only [Tmpl.name] at this ⊢
  rw [this, htxt]

/-- non-vacuity: the crate's registry binds `raw` to the raw helper; a body that begins with whitespace and a line break and
    holds a tag, a comment and lone braces -/
example : assocGet Registry.new.helpers ['r', 'a', 'w'] = some .raw ∧
    PlainText.RawBody [' ', '\n', '{', '{', 'x', '}', '}', ' ', '{', '{', '!', 'c', '}', '}', '}', ' '] := by
  refine ⟨by rfl, ⟨by simp [PlainText.noOpen4], by simp, by simp⟩⟩

end Hbs.C03
