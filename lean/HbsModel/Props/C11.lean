import HbsModel.Registry
import HbsModel.Lemmas.Text
/-
  C11  Whitespace control removes exactly the whitespace the rules name.
-/
namespace Hbs.C11
open Hbs

/-! ### every trimming operation used by compile2 deletes only whitespace, only at the stated end -/

/-- `{{~` : `remove_previous_whitespace` turns the previous text `s` into `trim_end s` -/
theorem tilde_before_removes_only_trailing_ws (s : Str) :
    ∃ suf, s = trimEnd s ++ suf ∧ suf.all isUniWs = true := trimEnd_spec s

/-- `~}}` : the next text is `trim_start` of what was written -/
theorem tilde_after_removes_only_leading_ws (s : Str) :
    ∃ pre, s = pre ++ trimStart s ∧ pre.all isUniWs = true := trimStart_spec s

/-- after a standalone tag: spaces/tabs and then at most one line break are removed from the next
    text; nothing else -/
theorem standalone_next_text (s : Str) :
    ∃ pre nl, s = pre ++ nl ++ stripFirstNewline (trimStartBlank s) ∧ pre.all isBlank = true ∧
      (nl = [] ∨ nl = ['\n'] ∨ nl = ['\r', '\n']) := by
  obtain ⟨pre, h1, h2⟩ := trimStartBlank_spec s
  rcases stripFirstNewline_spec (trimStartBlank s) with h | h | h
  · exact ⟨pre, [], by rw [← h]; simpa using h1, h2, Or.inl rfl⟩
  · refine ⟨pre, ['\n'], ?_, h2, Or.inr (Or.inl rfl)⟩
    rw [List.append_assoc]; simp only [List.singleton_append]; rw [← h]; exact h1
  · refine ⟨pre, ['\r', '\n'], ?_, h2, Or.inr (Or.inr rfl)⟩
    rw [List.append_assoc]; simp only [List.cons_append, List.nil_append]; rw [← h]; exact h1

/-- before a standalone tag: only the spaces/tabs of the tag's own line are removed from the
    previous text -/
theorem standalone_prev_text (s : Str) :
    ∃ suf, s = trimEndBlank s ++ suf ∧ suf.all isBlank = true := trimEndBlank_spec s

/-- `raw_string` with neither flag set keeps the text as it is (no other whitespace is removed) -/
theorem rawString_keeps (s : Str) : rawString s none false false = .ok (.raw s) := rfl

/-! ### the standalone test, judged on the source as written -/

/-- `process_standalone_statement` answers true exactly when: everything after the tag up to a line
    break is space/tab (or only spaces/tabs remain before the end of the source, full templates only) AND everything between the
    previous line break (or the start) and the tag is space/tab -/
theorem standalone_iff (stk : List Tmpl) (src : Str) (s e : Nat) (isPartial : Bool)
    (hs : s ≤ src.length) (he : e ≤ src.length) :
    ∃ stk', processStandalone stk src s e false isPartial = .ok
      ((startsWithEmptyLine (src.drop e) || (!isPartial && (trimStartBlank (src.drop e)).isEmpty)) &&
        (s == 0 || endsWithEmptyLine (src.take s)), stk') := by
  have h1 : slice? src e src.length = some (src.drop e) := by
    simp [slice?, he, List.take_of_length_le]
  have h2 : slice? src 0 s = some (src.take s) := by simp [slice?, hs]
  simp only [processStandalone, h1, h2]
  by_cases hw : (startsWithEmptyLine (src.drop e) || (!isPartial && (trimStartBlank (src.drop e)).isEmpty)) = true
  · simp only [hw, ↓reduceIte, Bool.false_and, Bool.false_eq_true, Bool.true_and]
    exact ⟨stk, rfl⟩
  · simp only [hw, Bool.false_eq_true, ↓reduceIte]
    exact ⟨stk, by simp⟩

/-- a value expression never goes through the standalone test: its arm of compile2 only looks at the
    two tilde flags (stated on the classification used by the loop) -/
theorem expression_is_not_block_start : isBlockStart (some .r_expression) = false ∧
    isBlockStart (some .r_html_expression) = false := by decide

end Hbs.C11
