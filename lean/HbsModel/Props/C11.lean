import HbsModel.Registry
import HbsModel.Lemmas.Text
import HbsModel.Props.C03
import HbsModel.Props.C02
import HbsModel.Lemmas.TildeValue
import HbsModel.Lemmas.IfBlockLines
import HbsModel.Props.C06
/-
  C11  Whitespace control removes exactly the whitespace the rules name.
-/
namespace Hbs.C11
open Hbs

/-! ### every trimming operation used by compile2 deletes only whitespace, only at the stated end -/

/-- `{{~` : `remove_previous_whitespace` turns the previous text `s` into `trim_end s` -/
theorem tilde_before_removes_only_trailing_ws (s : Str) :
    ∃ suf, s = trimEnd s ++ suf ∧ suf.all isUniWs = true := trimEnd_spec s

/-- `~}}` : the next text is `trim_start` of what was written -/
theorem tilde_after_removes_only_leading_ws (s : Str) :
    ∃ pre, s = pre ++ trimStart s ∧ pre.all isUniWs = true := trimStart_spec s

/-- after a standalone tag: spaces/tabs and then at most one line break are removed from the next
    text; nothing else -/
theorem standalone_next_text (s : Str) :
    ∃ pre nl, s = pre ++ nl ++ stripFirstNewline (trimStartBlank s) ∧ pre.all isBlank = true ∧
      (nl = [] ∨ nl = ['\n'] ∨ nl = ['\r', '\n']) := by
  obtain ⟨pre, h1, h2⟩ := trimStartBlank_spec s
  rcases stripFirstNewline_spec (trimStartBlank s) with h | h | h
  · exact ⟨pre, [], by rw [← h]; simpa using h1, h2, Or.inl rfl⟩
  · refine ⟨pre, ['\n'], ?_, h2, Or.inr (Or.inl rfl)⟩
    rw [List.append_assoc]; simp only [List.singleton_append]; rw [← h]; exact h1
  · refine ⟨pre, ['\r', '\n'], ?_, h2, Or.inr (Or.inr rfl)⟩
    rw [List.append_assoc]; simp only [List.cons_append, List.nil_append]; rw [← h]; exact h1

/-- before a standalone tag: only the spaces/tabs of the tag's own line are removed from the
    previous text -/
theorem standalone_prev_text (s : Str) :
    ∃ suf, s = trimEndBlank s ++ suf ∧ suf.all isBlank = true := trimEndBlank_spec s

/-- `raw_string` with neither flag set keeps the text as it is (no other whitespace is removed) -/
theorem rawString_keeps (s : Str) : rawString s none false false = .ok (.raw s) := rfl

/-! ### the standalone test, judged on the source as written -/

/-- `process_standalone_statement` answers true exactly when: everything after the tag up to a line
    break is space/tab (or only spaces/tabs remain before the end of the source, full templates only) AND everything between the
    previous line break (or the start) and the tag is space/tab -/
theorem standalone_iff (stk : List Tmpl) (src : Str) (s e : Nat) (isPartial : Bool)
    (hs : s ≤ src.length) (he : e ≤ src.length) :
    ∃ stk', processStandalone stk src s e false isPartial = .ok
      ((startsWithEmptyLine (src.drop e) || (!isPartial && (trimStartBlank (src.drop e)).isEmpty)) &&
        (s == 0 || endsWithEmptyLine (src.take s)), stk') := by
  have h1 : slice? src e src.length = some (src.drop e) := by
    simp [slice?, he, List.take_of_length_le]
  have h2 : slice? src 0 s = some (src.take s) := by simp [slice?, hs]
  simp only [processStandalone, h1, h2]
  by_cases hw : (startsWithEmptyLine (src.drop e) || (!isPartial && (trimStartBlank (src.drop e)).isEmpty)) = true
  · simp only [hw, ↓reduceIte, Bool.false_and, Bool.false_eq_true, Bool.true_and]
    exact ⟨stk, rfl⟩
  · simp only [hw, Bool.false_eq_true, ↓reduceIte]
    exact ⟨stk, by simp⟩

/-- a value expression never goes through the standalone test: its arm of compile2 only looks at the
    two tilde flags (stated on the classification used by the loop) -/
theorem expression_is_not_block_start : isBlockStart (some .r_expression) = false ∧
    isBlockStart (some .r_html_expression) = false := by decide

/-! ### the standalone-line rule at source level, for a comment tag (from `C03.text_around_comment_is_kept`) -/

theorem dropWhile_blank_append (ind rest : Str) (hind : ∀ ch ∈ ind, isBlank ch = true)
    (hrest : rest = [] ∨ ∃ x r, rest = x :: r ∧ isBlank x = false) :
    (ind ++ rest).dropWhile isBlank = rest := by
  induction ind with
  | nil =>
    rcases hrest with rfl | ⟨x, r, rfl, hx⟩
    · rfl
    · simp [List.dropWhile, hx]
  | cons a ind ih =>
    have ha := hind a (by simp)
    simp only [List.cons_append, List.dropWhile, ha]
    exact ih (fun ch h => hind ch (by simp [h]))

theorem trimEndBlank_append (L0 ind : Str) (hind : ∀ ch ∈ ind, isBlank ch = true)
    (hL0 : L0 = [] ∨ ∃ x, L0.getLast? = some x ∧ isBlank x = false) :
    trimEndBlank (L0 ++ ind) = L0 := by
  unfold trimEndBlank dropWhileEnd
  rw [List.reverse_append]
  have := dropWhile_blank_append ind.reverse L0.reverse (fun ch h => hind ch (by simpa using h))
    (by
      rcases hL0 with rfl | ⟨x, hx, hb⟩
      · left; rfl
      · right
        cases hr : L0.reverse with
        | nil => simp at hr; subst hr; simp at hx
        | cons y r =>
          refine ⟨y, r, rfl, ?_⟩
          have : L0.getLast? = some y := by
            rw [← List.head?_reverse, hr]; rfl
          rw [this] at hx; cases hx; exact hb)
  rw [this, List.reverse_reverse]

/-- **a comment alone on its line contributes no whitespace of its own**: the indentation in front of it,
    the blanks behind it and the line break (LF or CRLF) are removed, and nothing else – for EVERY text
    `L0` ending a line (or empty: the start of the template counts as a line boundary), every
    indentation, every comment body, every following text `R1` -/
theorem comment_alone_on_its_line (r : Registry) (fs : FS) (L0 ind c ind2 nl R1 : Str) (data : Json)
    (hdev : r.dev = false)
    (hL0 : L0 = [] ∨ L0.getLast? = some '\n') (hopen : C03.noOpen L0)
    (hind : ∀ ch ∈ ind, isBlank ch = true) (hind2 : ∀ ch ∈ ind2, isBlank ch = true)
    (hnl : nl = ['\n'] ∨ nl = ['\r', '\n'])
    (hc : C03.CommentText c) (hd : C03.noDash c) (hR1 : C03.noOpen R1) :
    r.renderTemplate fs ((L0 ++ ind) ++ C03.comment c ++ (ind2 ++ nl ++ R1)) data = .ok (L0 ++ R1) := by
  have hL0' : L0 = [] ∨ ∃ x, L0.getLast? = some x ∧ isBlank x = false := by
    rcases hL0 with h | h
    · left; exact h
    · right; exact ⟨'\n', h, by decide⟩
  have htrimL : trimEndBlank (L0 ++ ind) = L0 := trimEndBlank_append L0 ind hind hL0'
  have hnlhead : ∃ x rr, nl ++ R1 = x :: rr ∧ isBlank x = false ∧ isNewline x = true := by
    rcases hnl with rfl | rfl
    · exact ⟨'\n', R1, rfl, by decide, by decide⟩
    · exact ⟨'\r', '\n' :: R1, rfl, by decide, by decide⟩
  obtain ⟨x, rr, hx, hxb, hxn⟩ := hnlhead
  have htrimR : trimStartBlank (ind2 ++ nl ++ R1) = nl ++ R1 := by
    unfold trimStartBlank
    rw [List.append_assoc]
    exact dropWhile_blank_append ind2 (nl ++ R1) hind2 (Or.inr ⟨x, rr, hx, hxb⟩)
  have hstrip : stripFirstNewline (nl ++ R1) = R1 := by
    rcases hnl with rfl | rfl <;> simp [stripFirstNewline]
  have hsa : C03.standalone (L0 ++ ind) (ind2 ++ nl ++ R1) false = true := by
    simp only [C03.standalone, PlainText.standalone, startsWithEmptyLine, endsWithEmptyLine, htrimL, htrimR, hx, startsWithNewline, hxn,
      Bool.true_or, Bool.true_and]
    rcases hL0 with rfl | h
    · rfl
    · have : isNewline '\n' = true := by decide
      simp [endsWithNewline, h, this]
  -- the hypotheses of the text theorem
  have hLtext : L0 ++ ind = [] ∨ C03.TextBeforeTag (L0 ++ ind) := by
    by_cases he : L0 ++ ind = []
    · left; exact he
    · right
      have hlast : ∃ y, (L0 ++ ind).getLast? = some y ∧ (isBlank y = true ∨ y = '\n') := by
        by_cases hi : ind = []
        · subst hi
          rcases hL0 with rfl | h
          · simp at he
          · exact ⟨'\n', by simpa using h, Or.inr rfl⟩
        · cases hg : ind.getLast? with
          | none => simp [List.getLast?_eq_none_iff] at hg; exact absurd hg hi
          | some y => exact ⟨y, by simp [List.getLast?_append, hg], Or.inl (hind y (List.mem_of_getLast? hg))⟩
      obtain ⟨y, hy, hyb⟩ := hlast
      refine ⟨?_, ?_, ?_⟩
      · exact PlainText.noOpen_append_blank L0 ind hopen hind
      · rw [hy]; rcases hyb with h | rfl
        · intro e; cases e; simp [isBlank] at h
        · decide
      · rw [hy]; rcases hyb with h | rfl
        · intro e; cases e; simp [isBlank] at h
        · decide
  have hRtext : C03.noOpen (ind2 ++ nl ++ R1) := by
    rw [List.append_assoc]
    apply PlainText.noOpen_blank_append ind2 _ hind2
    rcases hnl with rfl | rfl
    · exact PlainText.noOpen_cons '\n' R1 (by decide) hR1
    · exact PlainText.noOpen_cons '\r' _ (by decide) (PlainText.noOpen_cons '\n' R1 (by decide) hR1)
  have := C03.text_around_comment_is_kept r fs (L0 ++ ind) c (ind2 ++ nl ++ R1) data hdev hLtext hc hd hRtext
  rw [this, hsa]
  simp only [↓reduceIte, htrimL, htrimR, hstrip]

/-- **a line that holds any other text keeps all its whitespace**: when something other than blanks
    stands on the comment's line – before it or behind it – nothing is removed at all -/
theorem comment_beside_text_keeps_whitespace (r : Registry) (fs : FS) (L c R : Str) (data : Json) (hdev : r.dev = false)
    (hL : L = [] ∨ C03.TextBeforeTag L) (hc : C03.CommentText c) (hd : C03.noDash c) (hR : C03.noOpen R)
    (htext : (∃ x, (trimEndBlank L).getLast? = some x ∧ isNewline x = false)
           ∨ (∃ x rr, trimStartBlank R = x :: rr ∧ isNewline x = false)) :
    r.renderTemplate fs (L ++ C03.comment c ++ R) data = .ok (L ++ R) := by
  have hsa : C03.standalone L R false = false := by
    simp only [C03.standalone, PlainText.standalone, startsWithEmptyLine, endsWithEmptyLine]
    rcases htext with ⟨x, hx, hn⟩ | ⟨x, rr, hx, hn⟩
    · have hne : (trimEndBlank L).isEmpty = false := by
        cases h : trimEndBlank L with
        | nil => rw [h] at hx; simp at hx
        | cons a t => rfl
      simp [endsWithNewline, hx, hn, hne]
    · simp [hx, startsWithNewline, hn]
  rw [C03.text_around_comment_is_kept r fs L c R data hdev hL hc hd hR, hsa]
  simp

/-- non-vacuity of both line shapes -/
example : (trimEndBlank ['a', '\n', 'b', ' ', ' ']).getLast? = some 'b' ∧ trimStartBlank [' ', 'x', '\n'] = ['x', '\n'] := by
  decide

/-! ### `~` on a value expression – at source level -/

theorem pestWs_is_uniWs (c : Char) (h : isPestWs c = true) : isUniWs c = true := by
  simp only [isPestWs, Bool.or_eq_true, beq_iff_eq] at h
  rcases h with ((rfl | rfl) | rfl) | rfl <;> decide

theorem trimStart_of_pestWs_only (R : Str) (h : R.dropWhile isPestWs = []) : trimStart R = [] := by
  induction R with
  | nil => rfl
  | cons c t ih =>
    by_cases hc : isPestWs c = true
    · simp only [List.dropWhile_cons, hc, ↓reduceIte] at h
      simp [trimStart, List.dropWhile_cons, pestWs_is_uniWs c hc]
      exact ih h
    · simp [List.dropWhile_cons, hc] at h

/-- a template that compiled to  [text?] · `{{v}}` · [text?]  renders to those texts around the escaped value -/
theorem render_text_value_text (r : Registry) (fs : FS) (src : Str) (lo ro : Option Str) (m : List (Nat × Nat)) (data j : Json)
    (hdev : r.dev = false)
    (hcomp : compile2 src { preventIndent := r.preventIndent }
      = .ok (.mk none ((lo.map Elem.raw).toList ++ [.expr PlainText.valHT] ++ (ro.map Elem.raw).toList) m))
    (hnohelper : assocGet r.helpers ['v'] = none)
    (hsafe : Spec.indexSafe data [['v']] = true) (hj : Spec.descend data [['v']] = some j) :
    r.renderTemplate fs src data = .ok (lo.getD [] ++ r.escape j.render ++ ro.getD []) := by
  unfold Registry.renderTemplate Registry.renderTemplateToWrite Registry.renderTemplateWithContextToWrite
    Registry.compileForRenderTemplate
  rw [hcomp]
  simp only [Registry.renderResolved, hdev, Bool.not_false, ↓reduceIte]
  let ets : List (Elem × Str) := (lo.map (fun x => (Elem.raw x, x))).toList ++ [(.expr PlainText.valHT, r.escape j.render)]
    ++ (ro.map (fun x => (Elem.raw x, x))).toList
  have hel : (lo.map Elem.raw).toList ++ [Elem.expr PlainText.valHT] ++ (ro.map Elem.raw).toList = ets.map (·.1) := by
    simp only [ets]
    cases lo <;> cases ro <;> simp
  have htxt : (ets.map (·.2)).flatten = lo.getD [] ++ r.escape j.render ++ ro.getD [] := by
    simp only [ets]
    cases lo <;> cases ro <;> simp
  rw [hel]
  have hw : ∀ p ∈ ets, WritesText r data { ({ rootTemplate := none } : RC) with currentTemplate := none } p.1 p.2 := by
    intro p hp
    simp only [ets, List.mem_append, List.mem_singleton] at hp
    rcases hp with (hp | rfl) | hp
    · cases lo with
      | none => simp at hp
      | some x => simp at hp; subst hp; exact writes_raw r data _ rfl _
    · exact C02.value_writes_escaped r data j _ rfl rfl rfl rfl rfl hnohelper hsafe hj
    · cases ro with
      | none => simp at hp
      | some x => simp at hp; subst hp; exact writes_raw r data _ rfl _
  have hlen : ets.length + 12 ≤ renderFuel := by
    have : renderFuel = 4000 := rfl
    simp only [ets, List.length_append, List.length_singleton]
    cases lo <;> cases ro <;> simp <;> omega
  have := render_writes_template r data none ets m { rootTemplate := none } hlen hw
  simp only [Tmpl.name] at this ⊢
  rw [this, htxt]

/-- `{{~v~}}`, `{{~v}}`, `{{v~}}` -/
abbrev tildeValueTag : Str := PlainText.tvSrc
abbrev tildeLeftValueTag : Str := PlainText.tlSrc
abbrev tildeRightValueTag : Str := PlainText.trSrc

/-- **render(L ++ {{~v~}} ++ R) = trim_end(L) ++ escape(text of data.v) ++ trim_start(R)** – from the source string to the bytes,
    for EVERY text `L` that may stand before a tag, EVERY text `R` without `{{`, every data value and escape function: a `~` on
    either side of a value expression removes the whole whitespace run of the adjacent text (every `char::is_whitespace`
    character, line breaks and non-ASCII spaces included) and nothing else – which is what deleting that whitespace from the
    source by hand and writing `{{v}}` gives (`C02.value_between_texts_escaped_once`).  Through the regenerated grammar, the
    loop of compile2 and the renderer. -/
theorem tilde_value_trims_both_sides (r : Registry) (fs : FS) (L R : Str) (data j : Json) (hdev : r.dev = false)
    (hL : L = [] ∨ PlainText.TextBeforeTag L) (hR : PlainText.noOpen R)
    (hnohelper : assocGet r.helpers ['v'] = none)
    (hsafe : Spec.indexSafe data [['v']] = true) (hj : Spec.descend data [['v']] = some j) :
    r.renderTemplate fs (L ++ tildeValueTag ++ R) data = .ok (trimEnd L ++ r.escape j.render ++ trimStart R) := by
  obtain ⟨m, hcomp⟩ := PlainText.compile_text_tv_text L _ _ { preventIndent := r.preventIndent } hL (PlainText.textAfterTag_split R hR)
  rw [← PlainText.split_ws R] at hcomp
  have h := render_text_value_text r fs (L ++ tildeValueTag ++ R) (if L = [] then none else some (trimEnd L))
    (if R.dropWhile isPestWs = [] then none else some (trimStart R)) m data j hdev
    (by rw [hcomp]; by_cases hLe : L = [] <;> by_cases hRe : R.dropWhile isPestWs = [] <;>
          simp [hLe, hRe, PlainText.leftT, Tmpl.empty, Tmpl.elements])
    hnohelper hsafe hj
  rw [h]
  by_cases hLe : L = []
  · subst hLe
    by_cases hRe : R.dropWhile isPestWs = []
    · simp [hRe, trimStart_of_pestWs_only R hRe, trimEnd, dropWhileEnd]
    · simp [hRe, trimEnd, dropWhileEnd]
  · by_cases hRe : R.dropWhile isPestWs = []
    · simp [hLe, hRe, trimStart_of_pestWs_only R hRe]
    · simp [hLe, hRe]

/-- **`{{~v}}`: only the text in front loses its trailing whitespace** – the text behind is reproduced as written -/
theorem tilde_before_value_trims_left_only (r : Registry) (fs : FS) (L R : Str) (data j : Json) (hdev : r.dev = false)
    (hL : L = [] ∨ PlainText.TextBeforeTag L) (hR : PlainText.noOpen R)
    (hnohelper : assocGet r.helpers ['v'] = none)
    (hsafe : Spec.indexSafe data [['v']] = true) (hj : Spec.descend data [['v']] = some j) :
    r.renderTemplate fs (L ++ tildeLeftValueTag ++ R) data = .ok (trimEnd L ++ r.escape j.render ++ R) := by
  obtain ⟨m, hcomp⟩ := PlainText.compile_text_tl_text L _ _ { preventIndent := r.preventIndent } hL (PlainText.textAfterTag_split R hR)
  rw [← PlainText.split_ws R] at hcomp
  have h := render_text_value_text r fs (L ++ tildeLeftValueTag ++ R) (if L = [] then none else some (trimEnd L))
    (if R = [] then none else some R) m data j hdev
    (by rw [hcomp]; by_cases hLe : L = [] <;> by_cases hRe : R = [] <;>
          simp [hLe, hRe, PlainText.leftT, Tmpl.empty, Tmpl.elements])
    hnohelper hsafe hj
  rw [h]
  by_cases hLe : L = []
  · subst hLe
    by_cases hRe : R = [] <;> simp [hRe, trimEnd, dropWhileEnd]
  · by_cases hRe : R = [] <;> simp [hLe, hRe]

/-- **`{{v~}}`: only the text behind loses its leading whitespace** – the text in front is reproduced as written -/
theorem tilde_after_value_trims_right_only (r : Registry) (fs : FS) (L R : Str) (data j : Json) (hdev : r.dev = false)
    (hL : L = [] ∨ PlainText.TextBeforeTag L) (hR : PlainText.noOpen R)
    (hnohelper : assocGet r.helpers ['v'] = none)
    (hsafe : Spec.indexSafe data [['v']] = true) (hj : Spec.descend data [['v']] = some j) :
    r.renderTemplate fs (L ++ tildeRightValueTag ++ R) data = .ok (L ++ r.escape j.render ++ trimStart R) := by
  obtain ⟨m, hcomp⟩ := PlainText.compile_text_tr_text L _ _ { preventIndent := r.preventIndent } hL (PlainText.textAfterTag_split R hR)
  rw [← PlainText.split_ws R] at hcomp
  have h := render_text_value_text r fs (L ++ tildeRightValueTag ++ R) (if L = [] then none else some L)
    (if R.dropWhile isPestWs = [] then none else some (trimStart R)) m data j hdev
    (by rw [hcomp]; by_cases hLe : L = [] <;> by_cases hRe : R.dropWhile isPestWs = [] <;>
          simp [hLe, hRe, PlainText.leftT, Tmpl.empty, Tmpl.elements])
    hnohelper hsafe hj
  rw [h]
  by_cases hLe : L = []
  · subst hLe
    by_cases hRe : R.dropWhile isPestWs = []
    · simp [hRe, trimStart_of_pestWs_only R hRe]
    · simp [hRe]
  · by_cases hRe : R.dropWhile isPestWs = []
    · simp [hLe, hRe, trimStart_of_pestWs_only R hRe]
    · simp [hLe, hRe]

/-- **a `~` equals deleting the whitespace by hand**: the three tilde forms render what `{{v}}` renders on the source from which
    the whitespace next to the tilde was deleted (whenever that source is again a text-tag-text source) -/
theorem tilde_equals_manual_deletion (r : Registry) (fs : FS) (L R : Str) (data j : Json) (hdev : r.dev = false)
    (hL : L = [] ∨ PlainText.TextBeforeTag L) (hR : PlainText.noOpen R)
    (hL' : trimEnd L = [] ∨ PlainText.TextBeforeTag (trimEnd L)) (hR' : PlainText.noOpen (trimStart R))
    (hnohelper : assocGet r.helpers ['v'] = none)
    (hsafe : Spec.indexSafe data [['v']] = true) (hj : Spec.descend data [['v']] = some j) :
    r.renderTemplate fs (L ++ tildeValueTag ++ R) data = r.renderTemplate fs (trimEnd L ++ C02.valueTag ++ trimStart R) data ∧
    r.renderTemplate fs (L ++ tildeLeftValueTag ++ R) data = r.renderTemplate fs (trimEnd L ++ C02.valueTag ++ R) data ∧
    r.renderTemplate fs (L ++ tildeRightValueTag ++ R) data = r.renderTemplate fs (L ++ C02.valueTag ++ trimStart R) data := by
  refine ⟨?_, ?_, ?_⟩
  · rw [tilde_value_trims_both_sides r fs L R data j hdev hL hR hnohelper hsafe hj,
      C02.value_between_texts_escaped_once r fs (trimEnd L) (trimStart R) data j hdev hL' hR' hnohelper hsafe hj]
  · rw [tilde_before_value_trims_left_only r fs L R data j hdev hL hR hnohelper hsafe hj,
      C02.value_between_texts_escaped_once r fs (trimEnd L) R data j hdev hL' hR hnohelper hsafe hj]
  · rw [tilde_after_value_trims_right_only r fs L R data j hdev hL hR hnohelper hsafe hj,
      C02.value_between_texts_escaped_once r fs L (trimStart R) data j hdev hL hR' hnohelper hsafe hj]

/-- non-vacuity: text with a line break, a tab and a no-break space next to the tag on either side -/
example : PlainText.TextBeforeTag ['a', '\n', '\t', '\u00a0'] ∧ trimEnd ['a', '\n', '\t', '\u00a0'] = ['a'] ∧ trimStart ['\u3000', '\n', 'z', ' '] = ['z', ' '] := by
  refine ⟨⟨by simp [PlainText.noOpen], by simp, by simp⟩, by decide, by decide⟩

/-! ### the standalone-line rule at block tags – at source level -/

/-- `{{#if v}}⏎A⏎{{/if}}` -/
abbrev ifBlockLinesSrc : Str := PlainText.ilSrc

/-- **a block whose tags stand alone on their lines contributes only the lines of its body**: for EVERY text `L` that is empty or
    ends an empty line (a line break followed by blanks only – the opening tag's indentation), EVERY text `R` that begins with the
    rest of an empty line (blanks and a line break, or blanks up to the end of the template) and every data value,
    `render(L ++ {{#if v}}⏎A⏎{{/if}} ++ R) = trimEndBlank L ++ (A⏎ when data.v is truthy) ++ stripFirstNewline (trimStartBlank R)`:
    the indentation in front of each block tag and the line break behind it are removed – the one behind the opening tag
    although pest had skipped it and compile2 put it back first – and nothing else; a falsy condition leaves no blank line
    behind.  From the source string to the bytes: `il_tagAt` (the block's pairs, by kernel evaluation), `step_if_start_sa`,
    `step_inner_raw_tl`, `step_if_end_sa` (the loop of compile2 with `process_standalone_statement` answering "standalone" at both
    tags: `processStandalone_spec`, `processStandalone_own_line`), `C06.if_text_block_writes` (renderer). -/
theorem if_block_on_its_own_lines (r : Registry) (fs : FS) (L R : Str) (data j : Json) (hdev : r.dev = false)
    (hL : L = [] ∨ PlainText.TextBeforeTag L) (hR : PlainText.noOpen R)
    (hLsa : endsWithEmptyLine L = true)
    (hRsa : (startsWithEmptyLine R || (trimStartBlank R).isEmpty) = true)
    (hif : assocGet r.helpers ['i', 'f'] = some (.ifH true))
    (hsafe : Spec.indexSafe data [['v']] = true) (hj : Spec.descend data [['v']] = some j) :
    r.renderTemplate fs (L ++ ifBlockLinesSrc ++ R) data
      = .ok (trimEndBlank L ++ (if j.truthy false then ['A', '\n'] else []) ++ stripFirstNewline (trimStartBlank R)) := by
  unfold Registry.renderTemplate Registry.renderTemplateToWrite Registry.renderTemplateWithContextToWrite
    Registry.compileForRenderTemplate
  obtain ⟨m, hcomp⟩ := PlainText.compile_text_il_text L _ _ { preventIndent := r.preventIndent } hL (PlainText.textAfterTag_split R hR) hLsa
    (by rw [← PlainText.split_ws R]; simpa using hRsa)
  rw [← PlainText.split_ws R] at hcomp
  rw [hcomp]
  simp only [Registry.renderResolved, hdev, Bool.not_false, ↓reduceIte]
  generalize Pest.lineCol (L ++ PlainText.ilSrc ++ R) (L.length + 10) = lc
  let txt : Str := if j.truthy false then ['A', '\n'] else []
  let tR : Str := stripFirstNewline (trimStartBlank R)
  let ets : List (Elem × Str) := (if L = [] then [] else [(.raw (trimEndBlank L), trimEndBlank L)])
    ++ [(.block { PlainText.ifOpenSA with template := some (PlainText.ilBody lc) }, txt)]
    ++ (if R = [] then [] else [(.raw tR, tR)])
  have hel : (PlainText.leftT L (trimEndBlank L)).elements ++ [Elem.block { PlainText.ifOpenSA with template := some (PlainText.ilBody lc) }]
      ++ (if R = [] then [] else [Elem.raw tR]) = ets.map (·.1) := by
    simp only [ets]
    by_cases hLe : L = [] <;> by_cases hRe : R = [] <;> simp [hLe, hRe, PlainText.leftT, Tmpl.empty, Tmpl.elements]
  have htxt : (ets.map (·.2)).flatten = trimEndBlank L ++ txt ++ tR := by
    simp only [ets]
    by_cases hLe : L = []
    · subst hLe
      by_cases hRe : R = []
      · subst hRe; simp [tR, trimEndBlank, dropWhileEnd, trimStartBlank, stripFirstNewline]
      · simp [hRe, trimEndBlank, dropWhileEnd]
    · by_cases hRe : R = []
      · subst hRe; simp [hLe, tR, trimStartBlank, stripFirstNewline]
      · simp [hLe, hRe]
  rw [hel]
  have hw : ∀ p ∈ ets, WritesText r data { ({ rootTemplate := none } : RC) with currentTemplate := none } p.1 p.2 := by
    intro p hp
    simp only [ets, List.mem_append, List.mem_singleton] at hp
    rcases hp with (hp | rfl) | hp
    · split at hp
      · simp at hp
      · simp at hp; subst hp; exact writes_raw r data _ rfl _
    · exact C06.if_text_block_writes r data j _ _ ['A', '\n'] lc rfl rfl rfl rfl rfl rfl rfl rfl rfl rfl hif hsafe hj
    · split at hp
      · simp at hp
      · simp at hp; subst hp; exact writes_raw r data _ rfl _
  have hlen : ets.length + 12 ≤ renderFuel := by
    have h1 : (if L = [] then [] else [((Elem.raw (trimEndBlank L), trimEndBlank L) : Elem × Str)]).length ≤ 1 := by split <;> simp
    have h2 : (if R = [] then [] else [((Elem.raw tR, tR) : Elem × Str)]).length ≤ 1 := by split <;> simp
    simp only [ets, List.length_append, List.length_singleton]
    have : renderFuel = 4000 := rfl
    omega
  have := render_writes_template r data none ets m { rootTemplate := none } hlen hw
  simp only [Tmpl.name] at this ⊢
  rw [this, htxt]

/-- non-vacuity: an indented block between two lines of text -/
example : endsWithEmptyLine ['x', '\n', ' ', ' '] = true ∧ (startsWithEmptyLine [' ', '\n', 'y'] || (trimStartBlank [' ', '\n', 'y']).isEmpty) = true
    ∧ trimEndBlank ['x', '\n', ' ', ' '] = ['x', '\n'] ∧ stripFirstNewline (trimStartBlank [' ', '\n', 'y']) = ['y'] := by decide

end Hbs.C11
