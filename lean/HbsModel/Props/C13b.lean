import HbsModel.Props.C18
/-
  C13 (continued)  A literal argument at source level: from the characters of the tag to the helper's parameter.
-/
namespace Hbs.C13
open Hbs RM Hbs.PlainText

/-- the compiled `{{name 1}}` with `name` registered as the harness helper that writes its first argument as JSON text:
    the helper is called with the JSON number 1 and writes `1` -/
theorem literal_call_writes (nm : Str) (reg : Registry) (root : Json) (rc0 : RC)
    (hh : assocGet reg.helpers nm = some .wr) (hl : assocGet rc0.localHelpers nm = none) :
    WritesText reg root rc0 (.expr (PlainText.callNHT nm)) ['1'] := by
  intro fuel rc out hq hf
  have hl' : assocGet rc.localHelpers nm = none := by rw [hq]; exact hl
  have hnum : (Num.pos 1).toText = ['1'] := by decide
  refine ⟨rc, { out with segs := ['1'] :: out.segs, count := out.count + 1 }, ?_, hq, hf, text_push out ['1']⟩
  simp [renderElem, renderExpression, renderHelper, helperFromTemplate, PlainText.callNHT, HelperG.new, HelperG.isNameOnly, expandAsName,
    expandParams, expandParam, expandHash, RM.bnd_apply, hl', hh, callHelper, RM.write, hf, HelperKind.hasInner, PJ.json, SJ.asJson, Json.render, hnum]

/-- **a literal argument reaches the helper as written** – from the source text to the helper's parameter: for EVERY helper name
    (any identifier of the grammar), EVERY text `L` that may stand before a tag and EVERY text `R`, with `name` registered as
    the helper that writes its first argument as JSON text, `L ++ {{name 1}} ++ R` renders to `L ++ 1 ++ R`: the helper was
    found under its name, called once, its parameter 0 was the JSON number 1, and the text around the tag is untouched.
    Through the regenerated grammar (identifier, helper_parameter, literal pairs), `parse_param` of compile2 (the literal goes
    through the JSON parser), `Helper::try_from_template` and the call. -/
theorem literal_argument_reaches_the_helper (r : Registry) (fs : FS) (nm L R : Str) (data : Json) (hnm : PlainText.IdentName nm)
    (hdev : r.dev = false) (hL : L = [] ∨ PlainText.TextBeforeTag L) (hR : PlainText.noOpen R)
    (hh : assocGet r.helpers nm = some .wr) :
    r.renderTemplate fs (L ++ PlainText.callNSrc nm ++ R) data = .ok (L ++ ['1'] ++ R) := by
  unfold Registry.renderTemplate Registry.renderTemplateToWrite Registry.renderTemplateWithContextToWrite
    Registry.compileForRenderTemplate
  obtain ⟨extra, hcomp⟩ := PlainText.compile_text_callN_text_pos nm L _ _ { preventIndent := r.preventIndent } hnm hL
    (PlainText.textAfterTag_split R hR)
  rw [← PlainText.split_ws R] at hcomp
  rw [hcomp]
  simp only [Registry.renderResolved, hdev, Bool.not_false, ↓reduceIte]
  have hw : ∀ q ∈ (if L = [] then [] else [((Elem.raw L, L) : Elem × Str)]) ++ [(.expr (PlainText.callNHT nm), ['1'])]
      ++ (if R = [] then [] else [((Elem.raw R, R) : Elem × Str)]),
      WritesText r data { ({ rootTemplate := none } : RC) with currentTemplate := none } q.1 q.2 := by
    intro q hq
    simp only [List.mem_append, List.mem_cons, List.not_mem_nil, or_false] at hq
    rcases hq with (hq | rfl) | hq
    · split at hq
      · cases hq
      · simp only [List.mem_cons, List.not_mem_nil, or_false] at hq; subst hq
        exact writes_raw r data _ rfl L
    · exact literal_call_writes nm r data _ hh rfl
    · split at hq
      · cases hq
      · simp only [List.mem_cons, List.not_mem_nil, or_false] at hq; subst hq
        exact writes_raw r data _ rfl R
  have := render_writes_template r data none _ ((PlainText.leftT L L).mapping ++ [Pest.lineCol (L ++ PlainText.callNSrc nm ++ R) L.length] ++ extra)
    { rootTemplate := none } (by simp only [List.length_append]; split <;> split <;> simp [renderFuel]) hw
  by_cases hLe : L = [] <;> by_cases hRe : R = [] <;>
    simp only [hLe, hRe, ↓reduceIte, PlainText.leftT, Tmpl.elements, Tmpl.empty, List.map_cons, List.map_nil, List.map_append, List.nil_append, List.append_nil,
      List.cons_append, Tmpl.name, Tmpl.mapping] at this ⊢ <;> (rw [this]; simp)

end Hbs.C13
