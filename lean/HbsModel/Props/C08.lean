import HbsModel.Registry
import HbsModel.Lemmas.RM
import HbsModel.Lemmas.Write
/-
  C08  Rendering is compositional: a finished construct leaves no trace on its siblings.
-/
namespace Hbs.C08
open Hbs RM

/-- the part of the render state a finished construct must leave as it found it -/
def sameScope (a b : RC) : Prop :=
  a.blocks = b.blocks ∧ a.pbStack = b.pbStack ∧ a.disableEscape = b.disableEscape ∧
  a.indentString = b.indentString ∧ a.partials = b.partials ∧ a.localHelpers = b.localHelpers ∧
  a.modifiedCtx = b.modifiedCtx ∧ a.pbBinding = b.pbBinding ∧ a.currentTemplate = b.currentTemplate

theorem sameScope_refl (a : RC) : sameScope a a := ⟨rfl, rfl, rfl, rfl, rfl, rfl, rfl, rfl, rfl⟩

/-- rendering `A ++ B` is rendering `A`, then `B` from the state `A` left (the element loop) -/
theorem render_append (reg : Registry) (root : Json) (tn : Option Str) :
    ∀ (as bs : List Elem) (m : List (Nat × Nat)) (fuel : Nat) (rc rc1 : RC) (out out1 : Out),
      renderElems reg root (fuel + as.length) tn as m rc out = .ok () rc1 out1 →
      renderElems reg root (fuel + as.length) tn (as ++ bs) m rc out =
        renderElems reg root fuel tn bs (m.drop as.length) rc1 out1 := by
  intro as
  induction as with
  | nil =>
    intro bs m fuel rc rc1 out out1 h
    cases fuel with
    | zero => simp [renderElems] at h
    | succ f => simp [renderElems] at h; obtain ⟨rfl, rfl⟩ := h; simp
  | cons a as ih =>
    intro bs m fuel rc rc1 out out1 h
    have hf : fuel + (a :: as).length = (fuel + as.length) + 1 := by simp; omega
    rw [hf] at h ⊢
    simp only [List.cons_append, renderElems, RM.bind_def, RM.bnd_apply, RM.mapErr] at h ⊢
    cases hr : renderElem reg root (fuel + as.length) a rc out with
    | ok u rc2 out2 =>
      simp only [hr] at h ⊢
      have := ih bs (m.drop 1) fuel rc2 rc1 out2 out1 h
      rw [this]
      simp
    | err e o => simp [hr] at h
    | panic s => simp [hr] at h
    | fuel => simp [hr] at h

/-- if `A` fails the combination fails with the same error -/
theorem failure_propagates (reg : Registry) (root : Json) (tn : Option Str) (a : Elem) (bs : List Elem)
    (m : List (Nat × Nat)) (fuel : Nat) (rc : RC) (out o : Out) (e : RenderError)
    (h : renderElems reg root (fuel + 1) tn [a] m rc out = .err e o) :
    renderElems reg root (fuel + 1) tn (a :: bs) m rc out = .err e o := by
  simp only [renderElems, RM.bind_def, RM.bnd_apply, RM.mapErr] at h ⊢
  cases hr : renderElem reg root fuel a rc out with
  | ok u rc2 out2 =>
    simp only [hr] at h
    cases fuel <;> simp [renderElems] at h
  | err e' o' => simp only [hr] at h ⊢; exact h
  | panic s => simp [hr] at h
  | fuel => simp [hr] at h

/-! ### frame: text, comments, `{{x}}` and `{{{x}}}` leave the scope state as they found it -/

theorem frame_raw (reg : Registry) (root : Json) (fuel : Nat) (s : Str) (rc rc' : RC) (out out' : Out)
    (hi : rc.indentString = none)
    (h : renderElem reg root (fuel + 1) (.raw s) rc out = .ok () rc' out') : sameScope rc rc' := by
  simp only [renderElem] at h
  by_cases hs : s = []
  · subst hs; rw [indentAwareWrite_empty] at h; cases h; exact sameScope_refl _
  · by_cases hf : out.failAt = some out.count
    · have : s.isEmpty = false := by cases s <;> simp_all
      simp [indentAwareWrite, this, hi, RM.bnd_apply, write_fail s _ out hs hf] at h
    · rw [indentAwareWrite_plain s rc out hs hi hf] at h
      cases h
      exact ⟨rfl, rfl, rfl, rfl, rfl, rfl, rfl, rfl, rfl⟩

theorem frame_comment (reg : Registry) (root : Json) (fuel : Nat) (s : Str) (rc rc' : RC) (out out' : Out)
    (h : renderElem reg root (fuel + 1) (.comment s) rc out = .ok () rc' out') : rc' = rc ∧ out' = out := by
  simp [renderElem] at h; exact ⟨h.1.symm, h.2.symm⟩

/-- `{{{x}}}` : whatever happened inside, escaping is ON again afterwards (C02.html_resets_toggle) -/
theorem frame_html_escape (reg : Registry) (root : Json) (fuel : Nat) (ht : HelperT)
    (rc rc' : RC) (out out' : Out)
    (h : renderElem reg root (fuel + 1) (.html ht) rc out = .ok () rc' out') :
    rc'.disableEscape = false := by
  simp only [renderElem, RM.bind_def, RM.bnd_apply, RM.modify_apply] at h
  split at h <;> simp_all
  obtain ⟨h1, _⟩ := h
  rw [← h1]

/-- `with` pushes one block and pops it: around a body that preserves the block stack, the stack
    afterwards is the stack before -/
theorem with_push_pop (b : Block) (bs : List Block) : (b :: bs).drop 1 = bs := rfl

/-- partials save and restore blocks, template name, indentation AND the @partial-block binding: see
    C09.partial_block_binding_restored (before the repair the binding – then a depth counter – was
    changed by every inclusion and not restored, which broke a second `{{> @partial-block}}`). -/
theorem binding_is_part_of_the_frame (a b : RC) (h : sameScope a b) : a.pbBinding = b.pbBinding := h.2.2.2.2.2.2.2.1

end Hbs.C08
