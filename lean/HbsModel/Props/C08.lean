import HbsModel.Registry
import HbsModel.Lemmas.RM
import HbsModel.Lemmas.Write
import HbsModel.Lemmas.Induct
/-
  C08  Rendering is compositional: a finished construct leaves no trace on its siblings.
-/
namespace Hbs.C08
open Hbs RM

/-- the part of the render state a finished construct must leave as it found it -/
def sameScope (a b : RC) : Prop :=
  a.blocks = b.blocks ∧ a.pbStack = b.pbStack ∧ a.disableEscape = b.disableEscape ∧
  a.indentString = b.indentString ∧ a.partials = b.partials ∧ a.localHelpers = b.localHelpers ∧
  a.modifiedCtx = b.modifiedCtx ∧ a.pbBinding = b.pbBinding ∧ a.currentTemplate = b.currentTemplate

theorem sameScope_refl (a : RC) : sameScope a a := ⟨rfl, rfl, rfl, rfl, rfl, rfl, rfl, rfl, rfl⟩

/-- rendering `A ++ B` is rendering `A`, then `B` from the state `A` left (the element loop) -/
theorem render_append (reg : Registry) (root : Json) (tn : Option Str) :
    ∀ (as bs : List Elem) (m : List (Nat × Nat)) (fuel : Nat) (rc rc1 : RC) (out out1 : Out),
      renderElems reg root (fuel + as.length) tn as m rc out = .ok () rc1 out1 →
      renderElems reg root (fuel + as.length) tn (as ++ bs) m rc out =
        renderElems reg root fuel tn bs (m.drop as.length) rc1 out1 := by
  intro as
  induction as with
  | nil =>
    intro bs m fuel rc rc1 out out1 h
    cases fuel with
    | zero => simp [renderElems] at h
    | succ f => simp [renderElems] at h; obtain ⟨rfl, rfl⟩ := h; simp
  | cons a as ih =>
    intro bs m fuel rc rc1 out out1 h
    have hf : fuel + (a :: as).length = (fuel + as.length) + 1 := by simp; omega
    rw [hf] at h ⊢
    simp only [List.cons_append, renderElems, RM.bind_def, RM.bnd_apply, RM.mapErr] at h ⊢
    cases hr : renderElem reg root (fuel + as.length) a rc out with
    | ok u rc2 out2 =>
      simp only [hr] at h ⊢
      have := ih bs (m.drop 1) fuel rc2 rc1 out2 out1 h
      rw [this]
      simp
    | err e o => simp [hr] at h
    | panic s => simp [hr] at h
    | fuel => simp [hr] at h

/-- if `A` fails the combination fails with the same error -/
theorem failure_propagates (reg : Registry) (root : Json) (tn : Option Str) (a : Elem) (bs : List Elem)
    (m : List (Nat × Nat)) (fuel : Nat) (rc : RC) (out o : Out) (e : RenderError)
    (h : renderElems reg root (fuel + 1) tn [a] m rc out = .err e o) :
    renderElems reg root (fuel + 1) tn (a :: bs) m rc out = .err e o := by
  simp only [renderElems, RM.bind_def, RM.bnd_apply, RM.mapErr] at h ⊢
  cases hr : renderElem reg root fuel a rc out with
  | ok u rc2 out2 =>
    simp only [hr] at h
    cases fuel <;> simp [renderElems] at h
  | err e' o' => simp only [hr] at h ⊢; exact h
  | panic s => simp [hr] at h
  | fuel => simp [hr] at h

/-! ### frame: text, comments, `{{x}}` and `{{{x}}}` leave the scope state as they found it -/

theorem frame_raw (reg : Registry) (root : Json) (fuel : Nat) (s : Str) (rc rc' : RC) (out out' : Out)
    (hi : rc.indentString = none)
    (h : renderElem reg root (fuel + 1) (.raw s) rc out = .ok () rc' out') : sameScope rc rc' := by
  simp only [renderElem] at h
  by_cases hs : s = []
  · subst hs; rw [indentAwareWrite_empty] at h; cases h; exact sameScope_refl _
  · by_cases hf : out.failAt = some out.count
    · have : s.isEmpty = false := by cases s <;> simp_all
      simp [indentAwareWrite, this, hi, RM.bnd_apply, write_fail s _ out hs hf] at h
    · rw [indentAwareWrite_plain s rc out hs hi hf] at h
      cases h
      exact ⟨rfl, rfl, rfl, rfl, rfl, rfl, rfl, rfl, rfl⟩

theorem frame_comment (reg : Registry) (root : Json) (fuel : Nat) (s : Str) (rc rc' : RC) (out out' : Out)
    (h : renderElem reg root (fuel + 1) (.comment s) rc out = .ok () rc' out') : rc' = rc ∧ out' = out := by
  simp [renderElem] at h; exact ⟨h.1.symm, h.2.symm⟩

/-- `{{{x}}}` : whatever happened inside, escaping is ON again afterwards (C02.html_resets_toggle) -/
theorem frame_html_escape (reg : Registry) (root : Json) (fuel : Nat) (ht : HelperT)
    (rc rc' : RC) (out out' : Out)
    (h : renderElem reg root (fuel + 1) (.html ht) rc out = .ok () rc' out') :
    rc'.disableEscape = false := by
  simp only [renderElem, RM.escOffReset, RM.bracket_apply] at h
  split at h <;> simp_all
  obtain ⟨h1, _⟩ := h
  rw [← h1]

/-- `with` pushes one block and pops it: around a body that preserves the block stack, the stack
    afterwards is the stack before -/
theorem with_push_pop (b : Block) (bs : List Block) : (b :: bs).drop 1 = bs := rfl

/-- partials save and restore blocks, template name, indentation AND the @partial-block binding: see
    C09.partial_block_binding_restored (before the repair the binding – then a depth counter – was
    changed by every inclusion and not restored, which broke a second `{{> @partial-block}}`). -/
theorem binding_is_part_of_the_frame (a b : RC) (h : sameScope a b) : a.pbBinding = b.pbBinding := h.2.2.2.2.2.2.2.1

end Hbs.C08

/-! ### the frame theorem – for the whole renderer: a finished construct leaves the current context, the
    `../` chain and the @-variables (all held in the scope stack), the indentation, what `@partial-block`
    denotes, and escaping as it found them.  Only inline-partial definitions, decorator effects, the
    template name and the write-state flags may differ afterwards. -/
namespace Hbs.C08
open Hbs RM

/-- the frame after (`rc'`) against the frame before (`rc`) -/
structure FrameEq (rc rc' : RC) : Prop where
  blocks : rc'.blocks = rc.blocks
  indent : rc'.indentString = rc.indentString
  pbStack : rc'.pbStack = rc.pbStack
  pbBinding : rc'.pbBinding = rc.pbBinding
  /-- escaping that was on is on again -/
  esc : rc.disableEscape = false → rc'.disableEscape = false

/-- the same, except that the innermost block may have been rewritten (the iteration of `each`) -/
structure FrameWeak (rc rc' : RC) : Prop where
  tail : rc'.blocks.drop 1 = rc.blocks.drop 1
  depth : rc'.blocks.length = rc.blocks.length
  indent : rc'.indentString = rc.indentString
  pbStack : rc'.pbStack = rc.pbStack
  pbBinding : rc'.pbBinding = rc.pbBinding
  esc : rc.disableEscape = false → rc'.disableEscape = false

theorem FrameEq.refl (rc : RC) : FrameEq rc rc := ⟨rfl, rfl, rfl, rfl, id⟩
theorem FrameEq.trans {a b c : RC} (h1 : FrameEq a b) (h2 : FrameEq b c) : FrameEq a c :=
  ⟨h2.blocks.trans h1.blocks, h2.indent.trans h1.indent, h2.pbStack.trans h1.pbStack,
   h2.pbBinding.trans h1.pbBinding, fun h => h2.esc (h1.esc h)⟩
theorem FrameEq.weak {a b : RC} (h : FrameEq a b) : FrameWeak a b :=
  ⟨by rw [h.blocks], by rw [h.blocks], h.indent, h.pbStack, h.pbBinding, h.esc⟩
theorem FrameWeak.refl (rc : RC) : FrameWeak rc rc := (FrameEq.refl rc).weak
theorem FrameWeak.trans {a b c : RC} (h1 : FrameWeak a b) (h2 : FrameWeak b c) : FrameWeak a c :=
  ⟨h2.tail.trans h1.tail, h2.depth.trans h1.depth, h2.indent.trans h1.indent, h2.pbStack.trans h1.pbStack,
   h2.pbBinding.trans h1.pbBinding, fun h => h2.esc (h1.esc h)⟩

/-- a computation that, when it succeeds, leaves the frame as it found it -/
def Framed {α : Type} (x : RM α) : Prop := ∀ rc out a rc' out', x rc out = .ok a rc' out' → FrameEq rc rc'
def FramedW {α : Type} (x : RM α) : Prop := ∀ rc out a rc' out', x rc out = .ok a rc' out' → FrameWeak rc rc'

theorem framed_of_state_free {α : Type} (x : RM α)
    (h : ∀ rc out a rc' out', x rc out = .ok a rc' out' → rc' = rc) : Framed x := by
  intro rc out a rc' out' hx
  rw [h rc out a rc' out' hx]; exact FrameEq.refl _

theorem framed_bnd {α β : Type} (x : RM α) (f : α → RM β) (hx : Framed x) (hf : ∀ a, Framed (f a)) :
    Framed (RM.bnd x f) := by
  intro rc out b rc2 out2 h
  rw [RM.bnd_apply] at h
  cases hr : x rc out with
  | ok a rc1 out1 => rw [hr] at h; exact (hx rc out a rc1 out1 hr).trans (hf a rc1 out1 b rc2 out2 h)
  | err e o => rw [hr] at h; cases h
  | panic s => rw [hr] at h; cases h
  | fuel => rw [hr] at h; cases h

theorem framedW_bnd {α β : Type} (x : RM α) (f : α → RM β) (hx : FramedW x) (hf : ∀ a, FramedW (f a)) :
    FramedW (RM.bnd x f) := by
  intro rc out b rc2 out2 h
  rw [RM.bnd_apply] at h
  cases hr : x rc out with
  | ok a rc1 out1 => rw [hr] at h; exact (hx rc out a rc1 out1 hr).trans (hf a rc1 out1 b rc2 out2 h)
  | err e o => rw [hr] at h; cases h
  | panic s => rw [hr] at h; cases h
  | fuel => rw [hr] at h; cases h

theorem framed_write (s : Str) : Framed (RM.write s) := by
  apply framed_of_state_free
  intro rc out a rc' out' h
  unfold RM.write at h
  split at h
  · cases h; rfl
  · split at h
    · cases h
    · cases h; rfl

theorem framed_modifyAux (f : RC → RC) : Framed (RM.modifyAux f) := by
  intro rc out a rc' out' h
  rw [RM.modifyAux_apply] at h
  cases h
  exact ⟨rfl, rfl, rfl, rfl, id⟩

theorem framedW_frontMod (f : Block → Block) : FramedW (modifyFrontBlock f) := by
  intro rc out a rc' out' h
  unfold modifyFrontBlock at h
  rw [RM.modify_apply] at h
  cases h
  cases hb : rc.blocks with
  | nil => exact FrameWeak.refl _
  | cons b rest => exact ⟨by simp [hb], by simp [hb], rfl, rfl, rfl, id⟩

theorem framed_mapErr {α : Type} (x : RM α) (g : RenderError → RenderError) (hx : Framed x) : Framed (RM.mapErr x g) := by
  intro rc out a rc' out' h
  unfold RM.mapErr at h
  cases hr : x rc out with
  | ok a1 rc1 o1 => rw [hr] at h; cases h; exact hx rc out _ _ _ hr
  | err e o => rw [hr] at h; cases h
  | panic s => rw [hr] at h; cases h
  | fuel => rw [hr] at h; cases h

theorem framed_captured {α : Type} (x : RM α) (hx : Framed x) : Framed (RM.captured x) := by
  intro rc out a rc' out' h
  unfold RM.captured at h
  cases hr : x rc {} with
  | ok a1 rc1 o1 => rw [hr] at h; cases h; exact hx rc {} _ _ _ hr
  | err e o => rw [hr] at h; cases h
  | panic s => rw [hr] at h; cases h
  | fuel => rw [hr] at h; cases h

/-- `push_block` … `pop_block` around a body that keeps the rest of the stack: the stack is as before -/
theorem framed_withBlock {α : Type} (b : Block) (x : RM α) (hx : FramedW x) : Framed (RM.withBlock b x) := by
  intro rc out a rc' out' h
  unfold RM.withBlock at h
  rw [RM.bracket_apply] at h
  cases hr : x { rc with blocks := b :: rc.blocks } out with
  | ok a1 rc1 o1 =>
    rw [hr] at h; cases h
    have hw := hx _ out _ _ _ hr
    exact ⟨by simpa using hw.tail, hw.indent, hw.pbStack, hw.pbBinding, hw.esc⟩
  | err e o => rw [hr] at h; cases h
  | panic s => rw [hr] at h; cases h
  | fuel => rw [hr] at h; cases h

theorem framed_escOffReset {α : Type} (x : RM α) (hx : Framed x) : Framed (RM.escOffReset x) := by
  intro rc out a rc' out' h
  unfold RM.escOffReset at h
  rw [RM.bracket_apply] at h
  cases hr : x { rc with disableEscape := true } out with
  | ok a1 rc1 o1 =>
    rw [hr] at h; cases h
    have hw := hx _ out _ _ _ hr
    exact ⟨hw.blocks, hw.indent, hw.pbStack, hw.pbBinding, fun _ => rfl⟩
  | err e o => rw [hr] at h; cases h
  | panic s => rw [hr] at h; cases h
  | fuel => rw [hr] at h; cases h

theorem framed_escOffSaved {α : Type} (x : RM α) (hx : Framed x) : Framed (RM.escOffSaved x) := by
  intro rc out a rc' out' h
  unfold RM.escOffSaved at h
  rw [RM.bracket_apply] at h
  cases hr : x { rc with disableEscape := true } out with
  | ok a1 rc1 o1 =>
    rw [hr] at h; cases h
    have hw := hx _ out _ _ _ hr
    exact ⟨hw.blocks, hw.indent, hw.pbStack, hw.pbBinding, fun hd => hd⟩
  | err e o => rw [hr] at h; cases h
  | panic s => rw [hr] at h; cases h
  | fuel => rw [hr] at h; cases h

/-- a partial inclusion: whatever scope, indentation and binding the partial ran in, the caller's are back -/
theorem framed_partialScope (isPB : Bool) (merged : Json) (indent : Option Str) (pb : Option Tmpl) (x : RM Unit)
    (hx : Framed x) : Framed (RM.partialScope isPB merged indent pb x) := by
  intro rc out a rc' out' h
  unfold RM.partialScope at h
  rw [RM.bracket_apply] at h
  split at h
  · rename_i a1 rc1 o1 hr
    cases h
    have hw := hx _ out _ _ _ hr
    refine ⟨rfl, rfl, ?_, rfl, ?_⟩
    · -- the pushed body (if any) is dropped again
      have hps := hw.pbStack
      cases pb with
      | none => cases isPB <;> simpa using hps
      | some t => cases isPB <;> simp_all
    · intro hd
      have := hw.esc
      cases pb <;> cases isPB <;> simp_all
  · rename_i hne
    cases hr : x _ out with
    | ok a1 rc1 o1 => exact absurd hr (hne a1 rc1 o1)
    | err e o => rw [hr] at h; cases h
    | panic s => rw [hr] at h; cases h
    | fuel => rw [hr] at h; cases h

theorem framed_ret {α : Type} (a : α) : Framed (RM.ret a) :=
  framed_of_state_free _ (fun rc out b rc' out' h => by cases h; rfl)
theorem framed_throw {α : Type} (e : RenderError) : Framed (RM.throw e : RM α) := fun rc out a rc' out' h => by cases h
theorem framed_throwR {α : Type} (r : RReason) : Framed (RM.throwR r : RM α) := framed_throw _
theorem framed_panic {α : Type} (s : String) : Framed (RM.panic s : RM α) := fun rc out a rc' out' h => by cases h

theorem framed_navigate (root : Json) (segs : List PathSeg) (blocks : List Block) : Framed (navigate root segs blocks) := by
  unfold navigate
  simp only [RM.pure_def]
  repeat' with_reducible first
    | exact framed_ret _
    | exact framed_throw _
    | exact framed_throwR _
    | exact framed_panic _
    | split

/-- the frame property as a closed predicate -/
def framePred : RMPred where
  P := fun x => Framed x
  Q := fun x => FramedW x
  sub := fun _ h rc out a rc' out' hx => (h rc out a rc' out' hx).weak
  ret := framed_ret
  bnd := framed_bnd
  qbnd := framedW_bnd
  get := framed_of_state_free _ (fun rc out b rc' out' h => by cases h; rfl)
  modifyAux := framed_modifyAux
  frontMod := framedW_frontMod
  throw := framed_throw
  outOfFuel := fun rc out a rc' out' h => by cases h
  write := framed_write
  mapErr := fun x g _ hx => framed_mapErr x g hx
  captured := framed_captured
  withBlock := framed_withBlock
  escOffReset := framed_escOffReset
  escOffSaved := framed_escOffSaved
  partialScope := framed_partialScope
  navigate := framed_navigate

/-- **A finished construct leaves no trace on the frame** – for ANY template element (text, expression,
    `{{{ }}}`, block helper with any body, partial, partial block, decorator), ANY data, registry and state:
    when it has rendered, the scope stack (current context, `../` chain, @-variables, block parameters),
    the indentation, the meaning of `@partial-block` and escaping are what they were before it. -/
theorem finished_construct_restores_frame (reg : Registry) (root : Json) (fuel : Nat) (e : Elem)
    (rc rc' : RC) (out out' : Out) (h : renderElem reg root fuel e rc out = .ok () rc' out') :
    rc'.blocks = rc.blocks ∧ rc'.indentString = rc.indentString ∧ rc'.pbStack = rc.pbStack ∧
    rc'.pbBinding = rc.pbBinding ∧ (rc.disableEscape = false → rc'.disableEscape = false) := by
  have := (framePred.all reg root fuel).renderElem e rc out () rc' out' h
  exact ⟨this.blocks, this.indent, this.pbStack, this.pbBinding, this.esc⟩

/-- the same for a whole template, a helper call and a partial inclusion -/
theorem template_restores_frame (reg : Registry) (root : Json) (fuel : Nat) (t : Tmpl)
    (rc rc' : RC) (out out' : Out) (h : renderTemplate reg root fuel t rc out = .ok () rc' out') : FrameEq rc rc' :=
  (framePred.all reg root fuel).renderTemplate t rc out () rc' out' h

theorem helper_call_restores_frame (reg : Registry) (root : Json) (fuel : Nat) (d : HelperKind) (hi : HelperI)
    (rc rc' : RC) (out out' : Out) (h : callHelper reg root fuel d hi rc out = .ok () rc' out') : FrameEq rc rc' :=
  (framePred.all reg root fuel).callHelper d hi rc out () rc' out' h

theorem partial_restores_frame (reg : Registry) (root : Json) (fuel : Nat) (d : DecoI)
    (rc rc' : RC) (out out' : Out) (h : expandPartial reg root fuel d rc out = .ok () rc' out') : FrameEq rc rc' :=
  (framePred.all reg root fuel).expandPartial d rc out () rc' out' h

/-- the iteration of `each` only ever rewrites the block it iterates in -/
theorem each_loop_keeps_outer_scopes (reg : Registry) (root : Json) (fuel : Nat) (t : Tmpl) (hi : HelperI)
    (p : Option (List Str)) (len : Nat) (items : List (Nat × Option Str × Str × Json))
    (rc rc' : RC) (out out' : Out) (h : eachLoop reg root fuel t hi p len items rc out = .ok () rc' out') :
    rc'.blocks.drop 1 = rc.blocks.drop 1 ∧ rc'.blocks.length = rc.blocks.length := by
  have := (framePred.all reg root fuel).eachLoop t hi p len items rc out () rc' out' h
  exact ⟨this.tail, this.depth⟩

/-- non-vacuity: a block helper over a body really runs with a deeper stack and comes back -/
example : ∃ rc' out', renderElem Registry.new (.obj (.cons ['a'] (.num (.pos 1)) .nil)) 20
    (.block { name := .name ['w', 'i', 't', 'h'], params := [.path (Path.new ['a'] [.named ['a']])], hash := [], blockParam := none,
              template := some (.mk none [.raw ['x']] [(1, 1)]), inverse := none, block := true, chain := false,
              indentBeforeWrite := false }) {} {} = .ok () rc' out' ∧ rc'.blocks = ({} : RC).blocks ∧ out'.text = ['x'] := by
  refine ⟨_, _, rfl, rfl, rfl⟩

end Hbs.C08
