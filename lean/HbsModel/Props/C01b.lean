import HbsModel.Props.C02
/-
  C01 at source level (kept apart from Props/C01.lean, which the lemmas used here depend on).
-/
namespace Hbs.C01
open Hbs

/-- **a dotted context path designates the value reached by descending the data along its segments** – from the source text:
    for EVERY path `n0.n1/n2…` of identifiers (any number of segments, `.` and `/` in any mix, every character class of the
    grammar's `symbol_char`), between any admissible texts, the tag `{{n0.n1/n2…}}` writes the (escaped) text of
    `Spec.descend data [n0, n1, n2, …]` and nothing else.  (Instance of `C02.dotted_path_between_texts_escaped_once`, stated here
    for the property it serves: the scope rule for a plain context path at top level.) -/
theorem dotted_path_designates_descent (r : Registry) (fs : FS) (n0 : Str) (rest : List (Char × Str)) (L R : Str) (data j : Json)
    (hdev : r.dev = false) (hp : PlainText.PathName n0 rest) (hno : PlainText.NoThis n0 rest)
    (hL : L = [] ∨ PlainText.TextBeforeTag L) (hR : PlainText.noOpen R)
    (hnohelper : assocGet r.helpers (PlainText.pathText n0 rest) = none)
    (hsafe : Spec.indexSafe data (n0 :: rest.map (·.2)) = true) (hj : Spec.descend data (n0 :: rest.map (·.2)) = some j) :
    r.renderTemplate fs (L ++ PlainText.pathSrc n0 rest ++ R) data = .ok (L ++ r.escape j.render ++ R) :=
  C02.dotted_path_between_texts_escaped_once r fs n0 rest L R data j hdev hp hno hL hR hnohelper hsafe hj

/-- the separator does not matter: `a.b` and `a/b` designate the same value -/
theorem separators_agree (r : Registry) (fs : FS) (n0 n1 : Str) (L R : Str) (data j : Json)
    (hdev : r.dev = false) (hp : PlainText.PathName n0 [('.', n1)]) (hno : PlainText.NoThis n0 [('.', n1)])
    (hL : L = [] ∨ PlainText.TextBeforeTag L) (hR : PlainText.noOpen R)
    (hh1 : assocGet r.helpers (PlainText.pathText n0 [('.', n1)]) = none) (hh2 : assocGet r.helpers (PlainText.pathText n0 [('/', n1)]) = none)
    (hsafe : Spec.indexSafe data [n0, n1] = true) (hj : Spec.descend data [n0, n1] = some j) :
    r.renderTemplate fs (L ++ PlainText.pathSrc n0 [('.', n1)] ++ R) data = r.renderTemplate fs (L ++ PlainText.pathSrc n0 [('/', n1)] ++ R) data := by
  have hp2 : PlainText.PathName n0 [('/', n1)] :=
    ⟨hp.first, fun q hq => by simp at hq; subst hq; right; rfl, fun q hq => by simp at hq; subst hq; exact hp.names ('.', n1) (by simp)⟩
  have hno2 : PlainText.NoThis n0 [('/', n1)] := ⟨hno.1, fun q hq => by simp at hq; subst hq; exact hno.2 ('.', n1) (by simp)⟩
  rw [dotted_path_designates_descent r fs n0 [('.', n1)] L R data j hdev hp hno hL hR hh1 (by simpa using hsafe) (by simpa using hj),
    dotted_path_designates_descent r fs n0 [('/', n1)] L R data j hdev hp2 hno2 hL hR hh2 (by simpa using hsafe) (by simpa using hj)]

end Hbs.C01
