import HbsModel.Props.C09b
import HbsModel.Props.C18
/-
  C18 (continued)  An error raised INSIDE a partial names the partial and the position of the failing tag in the partial's source.
-/
namespace Hbs.C18
open Hbs RM Hbs.Spec

/-- the compiled `{{x}}` registered as the partial `nm`, rendered in strict mode on a context without `x`: MissingVariable(x),
    decorated with the partial's name and the tag's entry in the partial's own position table -/
theorem render_value_partial_missing (nm x : Str) (reg : Registry) (ctx : Json) (root : Json) (f : Nat) (pos : Nat × Nat) (m : List (Nat × Nat)) (rcE : RC) (out : Out)
    (hs : reg.strict = true)
    (hb : rcE.blocks = [{ baseValue := some ctx }]) (hmc : rcE.modifiedCtx = none)
    (hl : assocGet rcE.localHelpers x = none) (hr : assocGet reg.helpers x = none)
    (hsafe : Spec.indexSafe ctx [x] = true) (hj : Spec.descend ctx [x] = none) :
    renderTemplate reg root (f + 6) (.mk (some nm) [.expr (PlainText.nameHT x)] (pos :: m)) rcE out
      = .err { reason := .missingVariable (some x), name := some nm, line := some pos.1, col := some pos.2 } out := by
  let rcB : RC := { rcE with currentTemplate := some nm }
  have hev : evaluate2 root (.relative [.named x] x) rcB out = .ok .missing rcB out := by
    have := C01.navigate_current_value_scope root { baseValue := some ctx } [] x [] rcB out ctx (by simp [getInBlockParams, assocGet]) rfl (by simpa using hsafe)
    simp only [C01.names, List.map_cons, List.map_nil] at this
    have hbB : rcB.blocks = [{ baseValue := some ctx }] := hb
    simp only [evaluate2, RM.bind_def, RM.bnd_apply, RM.get_apply, hbB, this, C01.blockValue]
    simp only [Option.bind]
    rw [hj]
  have hel := C10.strict_missing_is_error reg root f (PlainText.nameHT x) (.relative [.named x] x) rcB out rfl rfl hl hr hmc hs hev
  have hmA := C12.modifyAux_eq (fun rc => { rc with currentTemplate := some nm }) rcE out rcB rfl
  rw [show f + 6 = (f + 4) + 1 + 1 by omega]
  simp only [renderTemplate, renderElems, renderElem, RM.bind_def, RM.bnd_apply, RM.get_apply, Tmpl.name, Tmpl.elements, Tmpl.mapping,
    RM.mapErr, hmA]
  simp only [hel]
  simp [decorateRender, strictError, RenderError.of, Path.raw]

/-- the error leaves `expand_partial` as it is (the scope it set up is dropped with it) -/
theorem expandPartial_value_missing (nm x : Str) (hnpb : (nm == PARTIAL_BLOCK) = false) (reg : Registry) (root : Json) (f : Nat) (pos : Nat × Nat) (m : List (Nat × Nat)) (rc1 : RC) (out : Out)
    (hs : reg.strict = true)
    (hreg : assocGet reg.templates nm = some (.mk (some nm) [.expr (PlainText.nameHT x)] (pos :: m)))
    (hb : rc1.blocks = [{}]) (hpa : rc1.partials = []) (hdv : rc1.devTemplates = none) (hct : rc1.currentTemplate ≠ some nm)
    (hmc : rc1.modifiedCtx = none) (hl : assocGet rc1.localHelpers x = none) (hr : assocGet reg.helpers x = none)
    (hsafe : Spec.indexSafe root [x] = true) (hj : Spec.descend root [x] = none) :
    expandPartial reg root (f + 7) ⟨nm, [], [], none, none⟩ rc1 out
      = .err { reason := .missingVariable (some x), name := some nm, line := some pos.1, col := some pos.2 } out := by
  have hr2 := render_value_partial_missing nm x reg root root f pos m
    { rc1 with blocks := [{ baseValue := some root }], indentString := none, partials := [], devTemplates := none } out hs rfl hmc hl hr hsafe hj
  have hev := C12.evaluate_this_top root rc1 out hb
  have hne : (rc1.currentTemplate == some nm) = false := by simpa using hct
  rw [show f + 7 = (f + 6) + 1 by omega]
  simp only [expandPartial, RM.bind_def, RM.bnd_apply, RM.pure_def, RM.ret_apply, RM.get_apply, hne, Bool.false_eq_true, ↓reduceIte, hnpb,
    hpa, hdv, assocGet, Option.bind, hreg, List.getElem?_nil, hev, SJ.asJson, mergeJson, List.map_nil, List.isEmpty_nil,
    RM.partialScope, RM.bracket_apply]
  rw [hr2]

/-- … and the partial call element -/
theorem partial_call_missing (nm x : Str) (hnpb : (nm == PARTIAL_BLOCK) = false) (reg : Registry) (root : Json) (fuel : Nat) (pos : Nat × Nat) (m : List (Nat × Nat)) (rc : RC) (out : Out)
    (hs : reg.strict = true)
    (hreg : assocGet reg.templates nm = some (.mk (some nm) [.expr (PlainText.nameHT x)] (pos :: m)))
    (hb : rc.blocks = [{}]) (hi : rc.indentString = none) (hpa : rc.partials = []) (hdv : rc.devTemplates = none) (hct : rc.currentTemplate ≠ some nm)
    (hmc : rc.modifiedCtx = none) (hl : assocGet rc.localHelpers x = none) (hr : assocGet reg.helpers x = none)
    (hsafe : Spec.indexSafe root [x] = true) (hj : Spec.descend root [x] = none) :
    renderElem reg root (fuel + 9) (.partialExpr (PlainText.pnameD nm none false)) rc out
      = .err { reason := .missingVariable (some x), name := some nm, line := some pos.1, col := some pos.2 } out := by
  have hdeco : decoFromTemplate reg root (fuel + 8) (PlainText.pnameD nm none false) rc out
      = .ok ⟨nm, [], [], none, none⟩ rc out := by
    simp [decoFromTemplate, expandAsName, expandParams, expandHash, PlainText.pnameD, DecoG.new, RM.bnd_apply, hi]
  have hm1 := C12.modifyAux_eq (fun r : RC => { r with
      indentBeforeWrite := rc.indentBeforeWrite || ((PlainText.pnameD nm none false).indentBeforeWrite && (r.trailingNewline || (PlainText.pnameD nm none false).indent.isSome)),
      contentProduced := false }) rc out { rc with contentProduced := false }
    (by simp [PlainText.pnameD, DecoG.new])
  have hx := expandPartial_value_missing nm x hnpb reg root (fuel + 1) pos m { rc with contentProduced := false } out hs hreg hb hpa hdv hct hmc hl hr hsafe hj
  rw [show fuel + 9 = (fuel + 8) + 1 by omega]
  simp only [renderElem, RM.bind_def, RM.bnd_apply, hdeco, RM.get_apply]
  rw [hm1]
  simp only []
  rw [show fuel + 8 = fuel + 1 + 7 by omega, hx]

/-- **an error raised inside a partial names the PARTIAL and the position of the failing tag in the partial's own source**: with the
    partial `nm` holding what the source `{{x}}` compiles to (position table `pos :: m`, `pos` the tag's line and column there),
    in strict mode on data without `x`, `L ++ {{> nm}} ++ R` registered as `name` fails with MissingVariable(x), template name
    `nm` (not `name`), line and column `pos`, after exactly `L` was written – the decoration the partial's render loop put on
    the error is kept by the including template's. -/
theorem error_in_partial_names_the_partial (r : Registry) (fs : FS) (nm x name L R : Str) (data : Json) (pos : Nat × Nat) (m : List (Nat × Nat))
    (hnm : PlainText.PartialName nm) (hne : nm ≠ name)
    (hdev : r.dev = false) (hpi : r.preventIndent = false) (hstrict : r.strict = true)
    (hreg : assocGet r.templates nm = some (.mk (some nm) [.expr (PlainText.nameHT x)] (pos :: m)))
    (hnohelper : assocGet r.helpers x = none)
    (hsafe : Spec.indexSafe data [x] = true) (hmiss : Spec.descend data [x] = none)
    (hL : L = [] ∨ C03.TextBeforeTag L) (hLb : L = [] ∨ ∃ c, L.getLast? = some c ∧ isBlank c = false)
    (hR : C03.noOpen R)
    (htext : (∃ c, (trimEndBlank L).getLast? = some c ∧ isNewline c = false)
           ∨ (∃ c rr, trimStartBlank R = c :: rr ∧ isNewline c = false)) :
    ∃ r', r.registerTemplateString name (L ++ C12.namedPartialTag nm ++ R) = .ok r' ∧
      r'.render fs name data = .err
        { reason := .missingVariable (some x), name := some nm, line := some pos.1, col := some pos.2 } L := by
  have hnpb : (nm == PARTIAL_BLOCK) = false := by
    apply beq_eq_false_iff_ne.mpr
    intro e
    have := hnm.sym '@' (by rw [e]; decide)
    exact absurd this (by decide)
  have htrimL : trimEndBlank L = L := by
    rcases hLb with rfl | h
    · rfl
    · exact C11.trimEndBlank_append L [] (by simp) (Or.inr h) |> fun e => by simpa using e
  have hsa : PlainText.standalone L R false = false := by
    simp only [PlainText.standalone, startsWithEmptyLine, endsWithEmptyLine]
    rcases htext with ⟨c, hc, hn⟩ | ⟨c, rr, hc, hn⟩
    · have hne' : (trimEndBlank L).isEmpty = false := by
        cases h : trimEndBlank L with
        | nil => rw [h] at hc; simp at hc
        | cons a t => rfl
      simp [endsWithNewline, hc, hn, hne']
    · simp [hc, startsWithNewline, hn]
  have hftb : findTrailingBlank L = none := by
    simp [findTrailingBlank, htrimL]
  obtain ⟨mm, hcomp⟩ := PlainText.compile_text_pname_text nm L _ _ { name := some name, isPartial := false, preventIndent := r.preventIndent } hnm hpi hL
    (PlainText.textAfterTag_split R hR)
  rw [← PlainText.split_ws R] at hcomp
  simp only [hsa, Bool.false_eq_true, ↓reduceIte, hftb] at hcomp
  unfold Registry.registerTemplateString
  rw [show C12.namedPartialTag nm = PlainText.pnameSrc nm from rfl, hcomp]
  refine ⟨_, rfl, ?_⟩
  generalize hT : Tmpl.mk (some name) ((PlainText.leftT L L).elements ++ [Elem.partialExpr (PlainText.pnameD nm none false)] ++ if R = [] then [] else [Elem.raw R]) mm = T
  have hload : (r.registerTemplate name T).getOrLoad fs name = .ok T := by
    simp [Registry.getOrLoad, Registry.getOrLoadOptional, Registry.registerTemplate, hdev, assocInsert, assocGet_insert_same]
  have hdev' : (r.registerTemplate name T).dev = false := by simp [Registry.registerTemplate, hdev]
  have hs' : (r.registerTemplate name T).strict = true := by simp [Registry.registerTemplate, hstrict]
  have hh' : assocGet (r.registerTemplate name T).helpers x = none := by simp [Registry.registerTemplate, hnohelper]
  have hreg' : assocGet (r.registerTemplate name T).templates nm = some (.mk (some nm) [.expr (PlainText.nameHT x)] (pos :: m)) := by
    simp only [Registry.registerTemplate, assocInsert]
    rw [assocGet_insert_other _ _ _ _ hne]; exact hreg
  generalize r.registerTemplate name T = reg at *
  simp only [Registry.render, Registry.renderToOutput, hload, Registry.renderResolved, hdev', Bool.not_false, ↓reduceIte]
  subst hT
  generalize (if R = [] then [] else [Elem.raw R]) = tail
  have hf : renderFuel = (3988 + 9) + 1 + 1 + 1 := by decide
  unfold runRM
  by_cases hLe : L = []
  · subst hLe
    have herr := partial_call_missing nm x hnpb reg data (3988 + 1) pos m { ({ rootTemplate := some name } : RC) with currentTemplate := some name } {}
      hs' hreg' rfl rfl rfl rfl (by simpa using hne.symm) rfl rfl hh' hsafe hmiss
    rw [hf]
    simp only [PlainText.leftT, ↓reduceIte, Tmpl.empty, Tmpl.elements, Tmpl.mapping, Tmpl.name, List.nil_append, List.cons_append,
      renderTemplate, renderElems, RM.bind_def, RM.bnd_apply, RM.get_apply, RM.modifyAux_apply, RM.mapErr, herr]
    simp [decorateRender, Out.text]
  · have hwr := indentAwareWrite_plain L { ({ rootTemplate := some name } : RC) with currentTemplate := some name } {} hLe rfl (by simp)
    have herr := partial_call_missing nm x hnpb reg data 3988 pos m
      { rootTemplate := some name, currentTemplate := some name, contentProduced := true, trailingNewline := endsWithNewline L, indentBeforeWrite := endsWithNewline L }
      { segs := [L], count := 1 } hs' hreg' rfl rfl rfl rfl (by simpa using hne.symm) rfl rfl hh' hsafe hmiss
    rw [hf]
    simp only [PlainText.leftT, hLe, ↓reduceIte, Tmpl.elements, Tmpl.mapping, Tmpl.name, List.nil_append, List.cons_append,
      renderTemplate, renderElems, renderElem, RM.bind_def, RM.bnd_apply, RM.get_apply, RM.modifyAux_apply, RM.mapErr, hwr, List.drop]
    have herr' : renderElem reg data (3996 + 1) (.partialExpr (PlainText.pnameD nm none false))
        { rootTemplate := some name, currentTemplate := some name, contentProduced := true, trailingNewline := endsWithNewline L, indentBeforeWrite := endsWithNewline L }
        { segs := [L], count := 1 } = _ := herr
    simp only [renderElem, RM.bind_def, RM.bnd_apply, RM.get_apply, RM.modifyAux_apply] at herr'
    simp only [herr']
    simp [decorateRender, Out.text]

end Hbs.C18
