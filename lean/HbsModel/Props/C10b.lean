import HbsModel.Props.C18
import HbsModel.Props.C07
/-
  C10 (continued)  `each` on a missing value without an else branch, in strict mode, at source level.
-/
namespace Hbs.C10
open Hbs RM

/-- the block element `{{#each v}}A{{/each}}` compiles to, in strict mode on data without `v`: MissingVariable("v"), nothing written -/
theorem each_missing_strict_fails (reg : Registry) (data : Json) (lc : Nat × Nat) (hs : reg.strict = true)
    (hr : assocGet reg.helpers ['e', 'a', 'c', 'h'] = some .each)
    (hsafe : Spec.indexSafe data [['v']] = true) (hmiss : Spec.descend data [['v']] = none)
    (rc : RC) (out : Out) (fuel : Nat) (hb : rc.blocks = [{}]) (hmc : rc.modifiedCtx = none)
    (hl : assocGet rc.localHelpers ['e', 'a', 'c', 'h'] = none) :
    renderElem reg data (fuel + 6) (.block (PlainText.eaHT (PlainText.eaBody lc))) rc out = .err (strictError (some ['v'])) out := by
  have hev : evaluate2 data (.relative [.named ['v']] ['v']) rc out = .ok .missing rc out := by
    have := C01.navigate_current_path_scope data {} [] ['v'] [] rc out (by simp [getInBlockParams, assocGet]) rfl (by simpa using hsafe)
    simp only [C01.names, List.map_cons, List.map_nil] at this
    simp only [evaluate2, RM.bind_def, RM.bnd_apply, RM.get_apply, hb, this, C01.blockValue, Spec.descend]
    simp only [Option.bind]
    have hj' : (Spec.step data ['v']).bind (fun v' => Spec.descend v' []) = none := by simpa [Spec.descend] using hmiss
    simp [Spec.descend] at hj' ⊢
    rw [hj']
  have hpath : Path.new ['v'] [.named ['v']] = .relative [.named ['v']] ['v'] := rfl
  simp [renderElem, renderHelper, helperFromTemplate, PlainText.eaHT, PlainText.eaOpen, HelperG.new, expandAsName, expandParams, expandParam, expandHash,
    RM.bnd_apply, hmc, hpath, hev, Path.raw, hl, hr, callHelper, HelperKind.hasInner, PJ.json, SJ.asJson, hs, RM.modifyAux_apply, RM.throw, PJ.relPath]

/-- **`each` on a missing value without an else branch is the strict error, at source level**: for every text `L`, `R`, in strict
    mode on data without a field `v`, `L ++ {{#each v}}A{{/each}} ++ R` fails with MissingVariable("v"), the error names the
    template, and exactly `L` was written before it – through the regenerated grammar, compile2 and the `each` helper (no
    iteration, no else branch to fall back to). -/
theorem strict_each_on_missing_fails_at_source (r : Registry) (fs : FS) (name L R : Str) (data : Json)
    (hdev : r.dev = false) (hstrict : r.strict = true)
    (hL : L = [] ∨ PlainText.TextBeforeTag L) (hR : PlainText.noOpen R)
    (heach : assocGet r.helpers ['e', 'a', 'c', 'h'] = some .each)
    (hsafe : Spec.indexSafe data [['v']] = true) (hmiss : Spec.descend data [['v']] = none) :
    ∃ r' line col, r.registerTemplateString name (L ++ C07.eachBlockSrc ++ R) = .ok r' ∧
      r'.render fs name data = .err
        { reason := .missingVariable (some ['v']), name := some name, line := line, col := col } L := by
  obtain ⟨m, hcomp⟩ := PlainText.compile_text_ea_text L _ _ { name := some name, isPartial := false, preventIndent := r.preventIndent }
    hL (PlainText.textAfterTag_split R hR)
  rw [← PlainText.split_ws R] at hcomp
  generalize Pest.lineCol (L ++ PlainText.eaSrc ++ R) (L.length + 11) = lc at hcomp
  unfold Registry.registerTemplateString
  rw [show C07.eachBlockSrc = PlainText.eaSrc from rfl, hcomp]
  generalize hT : Tmpl.mk (some name) ((PlainText.leftT L L).elements ++ [Elem.block (PlainText.eaHT (PlainText.eaBody lc))] ++ if R = [] then [] else [Elem.raw R]) m = T
  have hload : (r.registerTemplate name T).getOrLoad fs name = .ok T := by
    simp [Registry.getOrLoad, Registry.getOrLoadOptional, Registry.registerTemplate, hdev, assocInsert, assocGet_insert_same]
  have hdev' : (r.registerTemplate name T).dev = false := by simp [Registry.registerTemplate, hdev]
  have hs' : (r.registerTemplate name T).strict = true := by simp [Registry.registerTemplate, hstrict]
  have hh' : assocGet (r.registerTemplate name T).helpers ['e', 'a', 'c', 'h'] = some .each := by simp [Registry.registerTemplate, heach]
  generalize hreg0 : r.registerTemplate name T = reg at *
  subst hT
  generalize (if R = [] then [] else [Elem.raw R]) = tail at *
  have hf : renderFuel = (3991 + 6) + 1 + 1 + 1 := by decide
  by_cases hLe : L = []
  · subst hLe
    have herr := each_missing_strict_fails reg data lc hs' hh' hsafe hmiss
      { ({ rootTemplate := some name } : RC) with currentTemplate := some name } {} (3991 + 1) rfl rfl rfl
    refine ⟨reg, (m.head?).map (·.1), (m.head?).map (·.2), (by rw [← hreg0]), ?_⟩
    simp only [Registry.render, Registry.renderToOutput, hload, Registry.renderResolved, hdev', Bool.not_false, ↓reduceIte]
    unfold runRM
    rw [hf]
    simp only [PlainText.leftT, ↓reduceIte, Tmpl.empty, Tmpl.elements, Tmpl.mapping, Tmpl.name, List.nil_append, List.cons_append,
      renderTemplate, renderElems, RM.bind_def, RM.bnd_apply, RM.get_apply, RM.modifyAux_apply, RM.mapErr, herr]
    cases hm : m.head? <;> simp [decorateRender, strictError, RenderError.of, Out.text, hm]
  · have hwr := indentAwareWrite_plain L { ({ rootTemplate := some name } : RC) with currentTemplate := some name } {} hLe rfl (by simp)
    have herr := each_missing_strict_fails reg data lc hs' hh' hsafe hmiss
      { rootTemplate := some name, currentTemplate := some name, contentProduced := true, trailingNewline := endsWithNewline L, indentBeforeWrite := endsWithNewline L }
      { segs := [L], count := 1 } 3991 rfl rfl rfl
    refine ⟨reg, (m[1]?).map (·.1), (m[1]?).map (·.2), (by rw [← hreg0]), ?_⟩
    simp only [Registry.render, Registry.renderToOutput, hload, Registry.renderResolved, hdev', Bool.not_false, ↓reduceIte]
    unfold runRM
    rw [hf]
    simp only [PlainText.leftT, hLe, ↓reduceIte, Tmpl.elements, Tmpl.mapping, Tmpl.name, List.nil_append, List.cons_append,
      renderTemplate, renderElems, renderElem, RM.bind_def, RM.bnd_apply, RM.get_apply, RM.modifyAux_apply, RM.mapErr, hwr]
    simp only [renderElem] at herr
    simp only [herr]
    cases hm : m[1]? <;> simp [decorateRender, strictError, RenderError.of, Out.text, hm]

end Hbs.C10
