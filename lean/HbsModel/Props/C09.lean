import HbsModel.Registry
import HbsModel.Lemmas.RM
import HbsModel.Lemmas.Assoc
import HbsModel.Props.C08
/-
  C09  A partial renders as its template applied to the designated context.
-/
namespace Hbs.C09
open Hbs RM

/-! ### `merge_json`: the context handed to the partial -/

/-- no hash arguments: the partial sees the designated value itself, whatever its type -/
theorem merge_empty (base : Json) : mergeJson base [] = base := rfl

theorem insert_get_same : ∀ (m : JObj) (k : Str) (v : Json), (m.insert k v).get? k = some v
  | .nil, k, v => by simp [JObj.insert, JObj.get?]
  | .cons k' v' t, k, v => by
    simp only [JObj.insert]
    by_cases h1 : (k == k') = true
    · have e : k = k' := by simpa using h1
      subst e; simp [JObj.get?]
    · simp only [h1, Bool.false_eq_true, ↓reduceIte]
      by_cases h2 : strLt k k' = true
      · simp [h2, JObj.get?]
      · simp only [h2, Bool.false_eq_true, ↓reduceIte, JObj.get?]
        have : (k' == k) = false := by
          apply beq_eq_false_iff_ne.mpr
          intro e; apply h1; simp [e]
        simp only [this, Bool.false_eq_true, ↓reduceIte]
        exact insert_get_same t k v

theorem insert_get_other : ∀ (m : JObj) (k q : Str) (v : Json), q ≠ k → (m.insert k v).get? q = m.get? q
  | .nil, k, q, v, hne => by
    have : (k == q) = false := beq_eq_false_iff_ne.mpr (fun e => hne e.symm)
    simp [JObj.insert, JObj.get?, this]
  | .cons k' v' t, k, q, v, hne => by
    have hkq : (k == q) = false := beq_eq_false_iff_ne.mpr (fun e => hne e.symm)
    simp only [JObj.insert]
    by_cases h1 : (k == k') = true
    · have e : k = k' := by simpa using h1
      subst e
      simp [JObj.get?, hkq]
    · simp only [h1, Bool.false_eq_true, ↓reduceIte]
      by_cases h2 : strLt k k' = true
      · simp [h2, JObj.get?, hkq]
      · simp only [h2, Bool.false_eq_true, ↓reduceIte, JObj.get?]
        split
        · rfl
        · exact insert_get_other t k q v hne

/-- a single hash argument k=v over an object context: k reads v, every other field is the base's -/
theorem merge_one_object (m : JObj) (k : Str) (v : Json) :
    ∃ m', mergeJson (.obj m) [(k, v)] = .obj m' ∧ m'.get? k = some v ∧ ∀ q, q ≠ k → m'.get? q = m.get? q := by
  refine ⟨m.insert k v, by simp [mergeJson], insert_get_same m k v, fun q hq => insert_get_other m k q v hq⟩

/-- hash arguments over a scalar / null context start from the empty object -/
theorem merge_scalar (k : Str) (v : Json) :
    mergeJson .null [(k, v)] = .obj (JObj.nil.insert k v) ∧
    (∀ b, mergeJson (.bool b) [(k, v)] = .obj (JObj.nil.insert k v)) ∧
    (∀ n, mergeJson (.num n) [(k, v)] = .obj (JObj.nil.insert k v)) := by
  refine ⟨by simp [mergeJson], fun b => by simp [mergeJson], fun n => by simp [mergeJson]⟩

/-! ### lookup order and the two errors -/

/-- directly including the template being rendered is reported as an error -/
theorem self_include_error (reg : Registry) (root : Json) (fuel : Nat) (d : DecoI) (rc : RC) (out : Out)
    (hno : d.template = none) (hcur : rc.currentTemplate = some d.name) :
    expandPartial reg root (fuel + 1) d rc out = .err (.of .cannotIncludeSelf) out := by
  simp [expandPartial, hno, RM.bnd_apply, hcur]

/-- an unknown partial without a block is PartialNotFound (checked in this order: inline, dev-mode,
    registry, block body) -/
theorem unknown_partial_error (reg : Registry) (root : Json) (fuel : Nat) (d : DecoI) (rc : RC) (out : Out)
    (hno : d.template = none) (hcur : rc.currentTemplate ≠ some d.name)
    (hnb : d.name ≠ PARTIAL_BLOCK)
    (h1 : assocGet rc.partials d.name = none) (h2 : rc.devTemplates = none)
    (h3 : assocGet reg.templates d.name = none) :
    expandPartial reg root (fuel + 1) d rc out = .err (.of (.partialNotFound d.name)) out := by
  have hb : (d.name == PARTIAL_BLOCK) = false := beq_eq_false_iff_ne.mpr hnb
  simp [expandPartial, hno, RM.bnd_apply, hcur, hb, h1, h2, h3]

/-- inside the partial the scope stack is ONE fresh block holding the merged context: the caller's
    `../`, block parameters and @-variables are not visible; after the call the caller's blocks,
    template name, indentation and @partial-block binding are restored. -/
theorem partial_scope_is_fresh (reg : Registry) (root : Json) (fuel : Nat) (d : DecoI) (rc : RC) (out : Out)
    (t : Tmpl) (base : SJ)
    (hno : d.template = none) (hcur : rc.currentTemplate ≠ some d.name) (hnb : d.name ≠ PARTIAL_BLOCK)
    (h1 : assocGet rc.partials d.name = some t)
    (hp : d.params = [])
    (hev : evaluate2 root (.relative [] []) rc out = .ok base rc out) :
    expandPartial reg root (fuel + 1) d rc out =
      (match renderTemplate reg root fuel t
          { rc with blocks := [{ baseValue := some (mergeJson base.asJson (d.hash.map (fun (k, v) => (k, v.json)))) }],
                    indentString := d.indent } out with
       | .ok () rc1 out1 =>
         .ok () { rc1 with blocks := rc.blocks, currentTemplate := rc.currentTemplate,
                           indentString := rc.indentString, pbBinding := rc.pbBinding } out1
       | r => r) := by
  have hb : (d.name == PARTIAL_BLOCK) = false := beq_eq_false_iff_ne.mpr hnb
  simp [expandPartial, hno, RM.bnd_apply, hcur, hb, h1, hp, hev, RM.partialScope, RM.bracket_apply]
  split <;> simp_all

/-- `{{> @partial-block}}` renders the block body of the enclosing inclusion; a second use finds the
    same body again because the binding is put back after each inclusion (it was shifted and never
    restored before the repair recorded in known_findings.json as `fixed: property=C09`) -/
theorem partial_block_binding_restored (reg : Registry) (root : Json) (fuel : Nat) (d : DecoI)
    (rc rc' : RC) (out out' : Out) (t : Tmpl) (base : SJ)
    (hno : d.template = none) (hcur : rc.currentTemplate ≠ some d.name) (hnb : d.name ≠ PARTIAL_BLOCK)
    (h1 : assocGet rc.partials d.name = some t) (hp : d.params = [])
    (hev : evaluate2 root (.relative [] []) rc out = .ok base rc out)
    (hok : expandPartial reg root (fuel + 1) d rc out = .ok () rc' out') :
    rc'.pbBinding = rc.pbBinding ∧ rc'.blocks = rc.blocks ∧ rc'.currentTemplate = rc.currentTemplate ∧
    rc'.indentString = rc.indentString := by
  rw [partial_scope_is_fresh reg root fuel d rc out t base hno hcur hnb h1 hp hev] at hok
  split at hok
  · cases hok; exact ⟨rfl, rfl, rfl, rfl⟩
  · rename_i hne
    exfalso
    cases hr : renderTemplate reg root fuel t _ out with
    | ok u rc1 out1 => exact hne rc1 out1 hr
    | err e o => rw [hr] at hok; cases hok
    | panic s => rw [hr] at hok; cases hok
    | fuel => rw [hr] at hok; cases hok

end Hbs.C09

/-! ### for the whole renderer (instance of the frame theorem of C08) -/
namespace Hbs.C09
open Hbs RM

/-- **ANY partial inclusion** – registered, inline, dev-mode, `@partial-block`, with a context argument,
    hash arguments, a block body, an indentation, and whatever its template does – hands back the
    caller's scope stack, indentation and `@partial-block` binding exactly as they were, and leaves
    escaping on if it was on: nothing of the partial's scope (the merged context, its hash arguments,
    its own block parameters and @-variables) is visible afterwards. -/
theorem any_partial_restores_the_caller (reg : Registry) (root : Json) (fuel : Nat) (d : DecoI)
    (rc rc' : RC) (out out' : Out) (h : expandPartial reg root fuel d rc out = .ok () rc' out') :
    rc'.blocks = rc.blocks ∧ rc'.indentString = rc.indentString ∧ rc'.pbStack = rc.pbStack ∧
    rc'.pbBinding = rc.pbBinding ∧ (rc.disableEscape = false → rc'.disableEscape = false) := by
  have := C08.partial_restores_frame reg root fuel d rc rc' out out' h
  exact ⟨this.blocks, this.indent, this.pbStack, this.pbBinding, this.esc⟩

/-! ### inline partials: from the definition onward, the latest definition of a name wins -/

/-- evaluating `{{#*inline "n"}}body{{/inline}}` binds `n` to `body` in the render's table of inline partials, whatever the
    table held before (an earlier definition of `n` included), and touches nothing else of the state a sibling can observe -/
theorem inline_definition_binds (reg : Registry) (root : Json) (fuel : Nat) (dt : DecoT) (di : DecoI) (p : PJ)
    (name : Str) (t : Tmpl) (rc rc1 : RC) (out out1 : Out)
    (hd : decoFromTemplate reg root fuel dt rc out = .ok di rc1 out1)
    (hk : assocGet reg.decorators di.name = some .inline)
    (hp : di.params[0]? = some p) (hs : p.json.asStr? = some name) (ht : di.template = some t) :
    evalDecorator reg root (fuel + 1) dt rc out = .ok () { rc1 with partials := hashInsert rc1.partials name t } out1 := by
  simp [evalDecorator, RM.bnd_apply, hd, hk, hp, hs, ht, RM.modifyAux]

/-- after two definitions of the same name the second is in force; every other name keeps its binding -/
theorem later_inline_definition_wins (ps : List (Str × Tmpl)) (n : Str) (t1 t2 : Tmpl) :
    assocGet (hashInsert (hashInsert ps n t1) n t2) n = some t2 ∧
    ∀ q, q ≠ n → assocGet (hashInsert (hashInsert ps n t1) n t2) q = assocGet ps q := by
  refine ⟨assocGet_insert_same _ _ _, fun q hq => ?_⟩
  rw [assocGet_insert_other _ _ _ _ hq, assocGet_insert_other _ _ _ _ hq]

end Hbs.C09
