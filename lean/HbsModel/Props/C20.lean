import HbsModel.Registry
import HbsModel.Generated.MacroTable
/-
  C20  Macro-defined helpers enforce their declared signature.
  Decision logic stated outright on the model of the `handlebars_helper!` expansion, over the
  REGENERATED accessor table.
-/
namespace Hbs.C20
open Hbs

/-! ### the regenerated table says what it must -/

theorem accessor_table :
    lookupAccessor Generated.macroAccessors "object" = some "as_object" ∧
    lookupAccessor Generated.macroAccessors "array" = some "as_array" ∧
    lookupAccessor Generated.macroAccessors "str" = some "as_str" ∧
    lookupAccessor Generated.macroAccessors "i64" = some "as_i64" ∧
    lookupAccessor Generated.macroAccessors "u64" = some "as_u64" ∧
    lookupAccessor Generated.macroAccessors "f64" = some "as_f64" ∧
    lookupAccessor Generated.macroAccessors "bool" = some "as_bool" ∧
    lookupAccessor Generated.macroAccessors "null" = some "as_null" ∧
    lookupAccessor Generated.macroAccessors "Json" = some "identity" ∧
    lookupAccessor Generated.macroAccessors "String" = none ∧
    lookupAccessor Generated.macroAccessors "Vec" = none ∧
    lookupAccessor Generated.macroAccessors "u32" = none ∧
    lookupAccessor Generated.macroAccessors "i32" = none := by decide

/-- every shape fact of the expansion that the model relies on was recognised in the source -/
theorem expansion_shape :
    Generated.macro_paramMissing = true ∧ Generated.macro_paramMismatch = true ∧
    Generated.macro_hashMismatch = true ∧ Generated.macro_strictMissing = true ∧
    Generated.macro_paramIdxInc = true ∧ Generated.macro_paramByIdx = true ∧
    Generated.macro_hashByName = true ∧ Generated.macro_hashDefault = true ∧
    Generated.macro_argsAll = true ∧ Generated.macro_kwargsAll = true ∧
    Generated.macro_resultDerived = true := by decide

/-! ### conversion to the declared type: right JSON type ⇒ the value, wrong type ⇒ none (never a default) -/

/-- a serde integer type narrower than the JSON number: a value outside its range is NOT converted (so it is a type mismatch,
    never a wrapped value) -/
theorem conv_u32 (x : Json) : asJsonValue .tSerdeU32 x =
    (match x with | .num (.pos k) => if k < 2 ^ 32 then some (.num (.pos k)) else none | _ => none) := by
  match x with
  | .num n => cases n <;> simp [asJsonValue, asJsonValueWith, lookupAccessor, Generated.macroAccessors, TyTok.token, fromValue]
  | .null | .bool _ | .str _ | .arr _ | .obj _ => simp [asJsonValue, asJsonValueWith, lookupAccessor, Generated.macroAccessors, TyTok.token, fromValue]

theorem conv_i32 (x : Json) : asJsonValue .tSerdeI32 x =
    (match x with
     | .num (.pos k) => if k < 2 ^ 31 then some (.num (.pos k)) else none
     | .num (.neg k) => if k ≤ 2 ^ 31 then some (.num (.neg k)) else none
     | _ => none) := by
  match x with
  | .num n => cases n <;> simp [asJsonValue, asJsonValueWith, lookupAccessor, Generated.macroAccessors, TyTok.token, fromValue]
  | .null | .bool _ | .str _ | .arr _ | .obj _ => simp [asJsonValue, asJsonValueWith, lookupAccessor, Generated.macroAccessors, TyTok.token, fromValue]


theorem conv_str (x : Json) : asJsonValue .tStr x = (match x with | .str s => some (.str s) | _ => none) := by
  cases x <;> simp [asJsonValue, asJsonValueWith, lookupAccessor, Generated.macroAccessors, TyTok.token, applyAccessor]
theorem conv_bool (x : Json) : asJsonValue .tBool x = (match x with | .bool b => some (.bool b) | _ => none) := by
  cases x <;> simp [asJsonValue, asJsonValueWith, lookupAccessor, Generated.macroAccessors, TyTok.token, applyAccessor]
theorem conv_array (x : Json) : asJsonValue .tArray x = (match x with | .arr a => some (.arr a) | _ => none) := by
  cases x <;> simp [asJsonValue, asJsonValueWith, lookupAccessor, Generated.macroAccessors, TyTok.token, applyAccessor]
theorem conv_object (x : Json) : asJsonValue .tObject x = (match x with | .obj a => some (.obj a) | _ => none) := by
  cases x <;> simp [asJsonValue, asJsonValueWith, lookupAccessor, Generated.macroAccessors, TyTok.token, applyAccessor]
theorem conv_null (x : Json) : asJsonValue .tNull x = (match x with | .null => some .null | _ => none) := by
  cases x <;> simp [asJsonValue, asJsonValueWith, lookupAccessor, Generated.macroAccessors, TyTok.token, applyAccessor]
theorem conv_json (x : Json) : asJsonValue .tJson x = some x := by
  cases x <;> simp [asJsonValue, asJsonValueWith, lookupAccessor, Generated.macroAccessors, TyTok.token, applyAccessor]
/-- u64: exactly the non-negative integers in range; i64: the integers below 2^63 -/
theorem conv_u64 (x : Json) : asJsonValue .tU64 x = (match x with | .num (.pos n) => some (.num (.pos n)) | _ => none) := by
  cases x with
  | num n => cases n <;> simp [asJsonValue, asJsonValueWith, lookupAccessor, Generated.macroAccessors, TyTok.token, applyAccessor, Num.asU64?]
  | _ => simp [asJsonValue, asJsonValueWith, lookupAccessor, Generated.macroAccessors, TyTok.token, applyAccessor]
theorem conv_i64 (x : Json) : asJsonValue .tI64 x =
    (match x with
     | .num (.pos n) => if n < 2 ^ 63 then some (.num (.pos n)) else none
     | .num (.neg n) => some (.num (.neg n))
     | _ => none) := by
  cases x with
  | num n =>
    cases n <;> simp [asJsonValue, asJsonValueWith, lookupAccessor, Generated.macroAccessors, TyTok.token, applyAccessor, Num.asI64?]
  | _ => simp [asJsonValue, asJsonValueWith, lookupAccessor, Generated.macroAccessors, TyTok.token, applyAccessor]

/-! ### the parameter loop: i-th declared parameter from the i-th argument; errors name helper and parameter -/

/-- a missing required argument is ParamNotFoundForName(helper, parameter) -/
theorem missing_required (strict : Bool) (sig : MacroSig) (h : HelperI) (pname : Str) (ty : TyTok)
    (rest : List (Str × TyTok)) (idx : Nat) (acc : List Json) (hm : h.params[idx]? = none) :
    macroParams strict sig h ((pname, ty) :: rest) idx acc = .error (.paramNotFoundForName sig.name pname) := by
  simp [macroParams, hm]

/-- in strict mode a parameter whose path designates nothing counts as missing -/
theorem strict_missing_value (sig : MacroSig) (h : HelperI) (pname : Str) (ty : TyTok)
    (rest : List (Str × TyTok)) (idx : Nat) (acc : List Json) (x : PJ)
    (hx : h.params[idx]? = some x) (hmiss : x.isMissing = true) :
    macroParams true sig h ((pname, ty) :: rest) idx acc = .error (.paramNotFoundForName sig.name pname) := by
  simp [macroParams, hx, hmiss]

/-- an argument of the wrong JSON type is ParamTypeMismatchForName(helper, parameter, type) – never a
    silent default -/
theorem wrong_type (strict : Bool) (sig : MacroSig) (h : HelperI) (pname : Str) (ty : TyTok)
    (rest : List (Str × TyTok)) (idx : Nat) (acc : List Json) (x : PJ)
    (hx : h.params[idx]? = some x) (hs : (strict && x.isMissing) = false)
    (hconv : asJsonValue ty x.json = none) :
    macroParams strict sig h ((pname, ty) :: rest) idx acc =
      .error (.paramTypeMismatchForName sig.name pname ty.text) := by
  simp [macroParams, hx, hconv]
  simpa using hs

/-- a well-typed argument is consumed and the next parameter reads the NEXT argument -/
theorem right_type_advances (strict : Bool) (sig : MacroSig) (h : HelperI) (pname : Str) (ty : TyTok)
    (rest : List (Str × TyTok)) (idx : Nat) (acc : List Json) (x : PJ) (v : Json)
    (hx : h.params[idx]? = some x) (hs : (strict && x.isMissing) = false)
    (hconv : asJsonValue ty x.json = some v) :
    macroParams strict sig h ((pname, ty) :: rest) idx acc = macroParams strict sig h rest (idx + 1) (v :: acc) := by
  simp [macroParams, hx, hconv]
  intro h1 h2; simp [h1, h2] at hs

/-! ### named options: same-named hash argument, or the declared default when absent -/

theorem option_absent_default (sig : MacroSig) (h : HelperI) (oname : Str) (ty : TyTok) (dflt : Json)
    (rest : List (Str × TyTok × Json)) (acc : List (Str × Json)) (ha : assocGet h.hash oname = none) :
    macroOpts sig h ((oname, ty, dflt) :: rest) acc = macroOpts sig h rest ((oname, dflt) :: acc) := by
  simp [macroOpts, ha]

theorem option_wrong_type (sig : MacroSig) (h : HelperI) (oname : Str) (ty : TyTok) (dflt : Json)
    (rest : List (Str × TyTok × Json)) (acc : List (Str × Json)) (x : PJ)
    (ha : assocGet h.hash oname = some x) (hconv : asJsonValue ty x.json = none) :
    macroOpts sig h ((oname, ty, dflt) :: rest) acc = .error (.hashTypeMismatchForName sig.name oname ty.text) := by
  simp [macroOpts, ha, hconv]

theorem option_present (sig : MacroSig) (h : HelperI) (oname : Str) (ty : TyTok) (dflt : Json)
    (rest : List (Str × TyTok × Json)) (acc : List (Str × Json)) (x : PJ) (v : Json)
    (ha : assocGet h.hash oname = some x) (hconv : asJsonValue ty x.json = some v) :
    macroOpts sig h ((oname, ty, dflt) :: rest) acc = macroOpts sig h rest ((oname, v) :: acc) := by
  simp [macroOpts, ha, hconv]

/-- the result is a typed JSON value handed to subexpression callers as is (never through text) -/
theorem result_is_typed (reg : Registry) (sig : MacroSig) (h : HelperI) (v : Json)
    (hr : macroCallInner reg.strict sig h = .ok v) :
    callInner reg (.macroH sig) h = .ok (.derived v) := by
  simp [callInner, hr]

/-- a signature error is the error of the call (no panic, no default) -/
theorem error_propagates (reg : Registry) (sig : MacroSig) (h : HelperI) (e : RReason)
    (hr : macroCallInner reg.strict sig h = .error e) :
    callInner reg (.macroH sig) h = .error e := by
  simp [callInner, hr]

end Hbs.C20
