import HbsModel.Registry
import HbsModel.Props.C18
import HbsModel.Lemmas.GrammarTotal
/-
  C04  Compiling any string terminates with a template or a TemplateError.
  The model's `compile2` is total; the Rust hazards (unwrap / unreachable! / slices) are explicit
  `panic` outcomes of the model, so "never panics" is a statement about the model that can fail.
-/
namespace Hbs.C04
open Hbs Hbs.Pest

/-- every reported position lies inside the source: 1 ≤ line ≤ 1 + number of line feeds, 1 ≤ column -/
theorem position_in_source (src : Str) (pos : Nat) :
    1 ≤ (lineCol src pos).1 ∧ 1 ≤ (lineCol src pos).2 ∧
    (lineCol src pos).1 ≤ 1 + (src.filter (· == '\n')).length := C18.lineCol_in_source src pos

/-- a grammar error is a TemplateError carrying the template name (never a panic) -/
theorem grammar_error_is_template_error (src : Str) (opts : TemplateOptions)
    (h : Pest.parse Grammar.rules Grammar.ws .r_handlebars src = .fail) :
    compile2 src opts = .err { reason := .invalidSyntax, name := some opts.nameOrDefault } :=
  C18.syntax_error_has_name src opts h

/-- a rejected registration leaves the registry as it was -/
theorem failed_registration_is_noop (r : Registry) (name src : Str) (e : TemplateError)
    (h : compile2 src { name := some name, isPartial := false, preventIndent := r.preventIndent } = .err e) :
    r.registerTemplateString name src = .err e := by
  unfold Registry.registerTemplateString
  rw [h]

/-- slices taken at pair boundaries never panic: `slice?` succeeds whenever a ≤ b ≤ |s| -/
theorem slice_ok (s : Str) (a b : Nat) (h1 : a ≤ b) (h2 : b ≤ s.length) :
    slice? s a b = some ((s.drop a).take (b - a)) := by
  simp [slice?, h1, h2]

/-- the pest interpreter only moves forward: a successful match of a literal advances the position
    by its length and consumes exactly that prefix -/
theorem matchStr_advances (lit : Str) (st st' : St) (h : matchStr lit st = some st') :
    st'.pos = st.pos + lit.length ∧ st.rest = lit ++ st'.rest := by
  induction lit generalizing st with
  | nil => simp [matchStr] at h; subst h; simp
  | cons c cs ih =>
    simp only [matchStr] at h
    cases hr : st.rest with
    | nil => simp [hr] at h
    | cons d ds =>
      simp only [hr] at h
      split at h
      · rename_i hcd
        have e : c = d := by simpa using hcd
        obtain ⟨h1, h2⟩ := ih _ h
        simp only at h1 h2
        refine ⟨by simp [h1]; omega, ?_⟩
        rw [h2, e]; simp
      · cases h

/-- mismatched block ends: the error the loop builds carries line, column and the template name -/
theorem mismatch_error_shape (opts : TemplateOptions) (a b : Str) (line col : Nat) :
    ({ reason := .mismatchingClosedHelper a b, name := some opts.nameOrDefault, line := some line, col := some col }
      : TemplateError).line.isSome ∧
    ({ reason := .mismatchingClosedHelper a b, name := some opts.nameOrDefault, line := some line, col := some col }
      : TemplateError).name.isSome := ⟨rfl, rfl⟩

/-- NEGATION WITNESS (finding F14): `{{~else if …}}` makes compile2 panic (`parse_name` receives the
    `~` pair and hits `unreachable!()`); the model reaches the same panic site on the same pair order. -/
theorem parse_name_rejects_tilde (src : Str) (fuel : Nat) (t : CTok) (rest : List CTok)
    (h : t.rule = some .r_leading_tilde_to_omit_whitespace) :
    (match parseName src (fuel + 1) (t :: rest) with | .panic _ => true | _ => false) = true := by
  simp [parseName, h]

/-! ### `Path::new` on `@../../this`-shaped paths: the walk over the `../` run ends at the end of the list -/

theorem takeWhile_ups (k : Nat) (rest : List PathSeg) (h : rest.head? ≠ some .up) :
    (List.replicate k PathSeg.up ++ rest).takeWhile (· == .up) = List.replicate k PathSeg.up := by
  induction k with
  | zero =>
    cases rest with
    | nil => rfl
    | cons x xs =>
      have : (x == PathSeg.up) = false := by
        apply beq_eq_false_iff_ne.mpr; intro e; subst e; simp at h
      simp [List.takeWhile_cons, this]
  | succ n ih => simp [List.replicate_succ, List.takeWhile_cons, ih]

/-- a path made of `@`, any number of `../`, and nothing that names a variable (`@../this`: `this` leaves no segment behind)
    is not a local-variable path: `Path::new` answers with the relative path, for every length of the `../` run – there is
    no index past the end to take -/
theorem local_marker_without_name_is_relative (k : Nat) (raw : Str) :
    Path.new raw (.loc :: List.replicate k .up) = .relative (.loc :: List.replicate k .up) raw := by
  have h := takeWhile_ups k [] (by simp)
  simp only [List.append_nil] at h
  simp [Path.new, getLocalPathAndLevel, h]

/-- … and with a name behind the run it is the local variable of that level -/
theorem local_marker_with_name (k : Nat) (n raw : Str) (more : List PathSeg) :
    Path.new raw (.loc :: (List.replicate k .up ++ .named n :: more)) = .localVar k n raw := by
  have h := takeWhile_ups k (.named n :: more) (by simp)
  simp [Path.new, getLocalPathAndLevel, h]

/-- PARSING TERMINATES, for every string and every entry rule: the PEG interpreter run on the regenerated grammar gives a
    definite answer – a pair stream or a failure – and never the model's out-of-fuel outcome.  The grammar's well-formedness
    (no rule can re-enter itself before a character is consumed; `nullable`/`rank` tables computed from `Grammar.rules`) is
    decided by the kernel on every run (`Grammar.wfCheck_true`), the rest is `Pest.eval_total`, an induction on the fuel
    with the bound `n * A + k * P + size e` (`n` characters left, `k` the rank bound, `A`, `P` constants of the grammar) -/
theorem parsing_terminates (r : Grammar.Rule) (src : Str) :
    Pest.parse Grammar.rules Grammar.ws r src ≠ .fuel := Grammar.parse_never_fuel r src

/-- … with recursion depth linear in the length of the text: any fuel from `|src| * A + K * P + 1` on is enough -/
theorem parsing_depth_is_linear (r : Grammar.Rule) (src : Str) (F : Nat)
    (hF : src.length * Grammar.A + Grammar.K * Grammar.P + 1 ≤ F) :
    Pest.eval Grammar.rules Grammar.ws F .nonAtomic (.rule r) ⟨0, src⟩ ≠ .fuel :=
  Grammar.parse_terminates r src F hF

/-- … and the same for ANY expression started anywhere, under any atomicity (sub-parsers, look-aheads, the whitespace skip) -/
theorem evaluation_terminates (n F : Nat) (atom : Pest.Atom) (e : Pest.PExpr Grammar.Rule) (st : Pest.St)
    (hn : st.rest.length ≤ n) (hF : n * Grammar.A + Grammar.K * Grammar.P + e.size ≤ F) :
    Pest.eval Grammar.rules Grammar.ws F atom e st ≠ .fuel :=
  Grammar.eval_never_fuel n F atom e st hn hF

/-- the interpreter only moves forward, by exactly the characters it takes off the input (every expression, every state) -/
theorem interpreter_only_moves_forward (F : Nat) (atom : Pest.Atom) (e : Pest.PExpr Grammar.Rule) (st st' : Pest.St)
    (t : List (Pest.Tok Grammar.Rule)) (h : Pest.eval Grammar.rules Grammar.ws F atom e st = .ok st' t) :
    st'.pos + st'.rest.length = st.pos + st.rest.length ∧ st.pos ≤ st'.pos :=
  let h' := Pest.eval_adv Grammar.rules Grammar.ws Grammar.nul (fun r => (Grammar.wf_rule r).1) F atom e st st' t h
  ⟨h'.1, h'.2.1⟩

/-- the first stage of `compile2` therefore always ends in pairs or in the syntax error: what is left of `.fuel` in
    `compile2Inner` comes from the token loop only -/
theorem compile_parse_stage_is_definite (src : Str) :
    (∃ st toks, Pest.parse Grammar.rules Grammar.ws .r_handlebars src = .ok st toks) ∨
    Pest.parse Grammar.rules Grammar.ws .r_handlebars src = .fail := by
  have h := parsing_terminates .r_handlebars src
  cases h1 : Pest.parse Grammar.rules Grammar.ws .r_handlebars src with
  | ok st toks => exact Or.inl ⟨st, toks, rfl⟩
  | fail => exact Or.inr rfl
  | fuel => exact absurd h1 h

/-- no repetition of the grammar is over a body that can succeed on nothing (where pest's generated loop would not
    return) – decided by the kernel on the regenerated grammar … -/
theorem repetitions_have_consuming_bodies (r : Grammar.Rule) :
    Pest.repsConsume Grammar.nul (Grammar.rules r).body = true := Grammar.reps_consume r

/-- … so the interpreter's guard "stop a repetition that made no progress" – the one place where the model's loop differs
    from pest's – never decides anything: after a round of a repetition with such a body the position has moved -/
theorem no_progress_guard_is_dead (F : Nat) (atom : Pest.Atom) (a : Pest.PExpr Grammar.Rule) (st st1 st2 : Pest.St)
    (t1 t2 : List (Pest.Tok Grammar.Rule)) (ha : Pest.nullable Grammar.nul a = false)
    (h1 : Pest.eval Grammar.rules Grammar.ws F atom .skip st = .ok st1 t1)
    (h2 : Pest.eval Grammar.rules Grammar.ws F atom a st1 = .ok st2 t2) :
    (st2.pos == st.pos) = false :=
  Pest.starTail_round_advances Grammar.rules Grammar.ws Grammar.nul (fun r => (Grammar.wf_rule r).1) F atom a st st1 st2 t1 t2 ha h1 h2

end Hbs.C04
