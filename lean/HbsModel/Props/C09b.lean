import HbsModel.Props.C12
/-
  C09 (continued)  The partial call at source level: a `{{> name}}` that does NOT stand alone on its line.
-/
namespace Hbs.C09
open Hbs RM Hbs.Spec Hbs.C12 Hbs.PlainText

/-- a registered plain-text partial rendered without an indentation in force -/
theorem render_plain_partial_named (nm : Str) (reg : Registry) (root : Json) (f : Nat) (P : Str) (rcE : RC) (out : Out) (hP : P ≠ [])
    (hi : rcE.indentString = none) (hf : out.failAt = none) :
    ∃ out', renderTemplate reg root (f + 3) (.mk (some nm) [.raw P] [(1, 1)]) rcE out
        = .ok () { rcE with currentTemplate := some nm, contentProduced := true, trailingNewline := endsWithNewline P,
                            indentBeforeWrite := endsWithNewline P } out'
      ∧ out'.failAt = none
      ∧ out'.text = out.text ++ P := by
  have hw := indentAwareWrite_plain P { rcE with currentTemplate := some nm } out hP hi (by simp [hf])
  refine ⟨{ out with segs := P :: out.segs, count := out.count + 1 }, ?_, hf, text_push out P⟩
  have hm := modifyAux_eq (fun rc => { rc with currentTemplate := some nm }) rcE out { rcE with currentTemplate := some nm } rfl
  simp only [renderTemplate, renderElems, renderElem, RM.bind_def, RM.bnd_apply, RM.get_apply, Tmpl.name, Tmpl.elements, Tmpl.mapping,
    RM.mapErr, hm, hw, RM.pure_def, RM.ret_apply, Option.isNone_some, Bool.false_eq_true, ↓reduceIte]

/-- `expand_partial` for `{{> name}}` (no argument, no hash, no indentation) with `name` a registered plain text: its text, and the
    caller's state back except for the three write flags -/
theorem expandPartial_plain_named_inline (nm : Str) (hnpb : (nm == PARTIAL_BLOCK) = false) (reg : Registry) (root : Json) (f : Nat) (P : Str) (rc1 : RC) (out : Out) (hP : P ≠ [])
    (hreg : assocGet reg.templates nm = some (.mk (some nm) [.raw P] [(1, 1)]))
    (hb : rc1.blocks = [{}]) (hpa : rc1.partials = []) (hdv : rc1.devTemplates = none) (hct : rc1.currentTemplate ≠ some nm)
    (hin : rc1.indentString = none) (hf : out.failAt = none) :
    ∃ out', expandPartial reg root (f + 4) ⟨nm, [], [], none, none⟩ rc1 out
        = .ok () { rc1 with contentProduced := true, trailingNewline := endsWithNewline P, indentBeforeWrite := endsWithNewline P } out'
      ∧ out'.failAt = none
      ∧ out'.text = out.text ++ P := by
  obtain ⟨out', hr, hf', ht⟩ := render_plain_partial_named nm reg root f P
    { rc1 with blocks := [{ baseValue := some root }], indentString := none, partials := [], devTemplates := none } out hP rfl hf
  refine ⟨out', ?_, hf', ht⟩
  have hev := evaluate_this_top root rc1 out hb
  have hne : (rc1.currentTemplate == some nm) = false := by simpa using hct
  have hpb : (nm == PARTIAL_BLOCK) = false := hnpb
  simp only [expandPartial, RM.bind_def, RM.bnd_apply, RM.pure_def, RM.ret_apply, RM.get_apply, hne, Bool.false_eq_true, ↓reduceIte, hpb,
    hpa, hdv, assocGet, Option.bind, hreg, List.getElem?_nil, hev, SJ.asJson, mergeJson, List.map_nil, List.isEmpty_nil,
    RM.partialScope, RM.bracket_apply]
  rw [hr]
  simp [hb, hpa, hdv, hin]

/-- the compiled `{{> name}}` beside other text on its line, where `name` is registered as the plain text `P`: the text of `P` -/
theorem partial_writes_named_inline (nm : Str) (hnpb : (nm == PARTIAL_BLOCK) = false) (reg : Registry) (root : Json) (rc0 : RC) (P : Str) (hP : P ≠ [])
    (hreg : assocGet reg.templates nm = some (.mk (some nm) [.raw P] [(1, 1)]))
    (hb : rc0.blocks = [{}]) (hi : rc0.indentString = none) (hmc : rc0.modifiedCtx = none)
    (hpa : rc0.partials = []) (hdv : rc0.devTemplates = none) (hct : rc0.currentTemplate ≠ some nm) :
    WritesText reg root rc0 (.partialExpr (PlainText.pnameD nm none false)) P := by
  intro fuel rc out hq hf
  have hrb : rc.blocks = [{}] := by rw [hq.blocks, hb]
  have hri : rc.indentString = none := by rw [hq.indent, hi]
  have hrm : rc.modifiedCtx = none := by rw [hq]; exact hmc
  have hrp : rc.partials = [] := by rw [hq]; exact hpa
  have hrd : rc.devTemplates = none := by rw [hq]; exact hdv
  have hrc : rc.currentTemplate ≠ some nm := by rw [hq]; exact hct
  have hdeco : decoFromTemplate reg root (fuel + 5) (PlainText.pnameD nm none false) rc out
      = .ok ⟨nm, [], [], none, none⟩ rc out := by
    simp [decoFromTemplate, expandAsName, expandParams, expandHash, PlainText.pnameD, DecoG.new, RM.bnd_apply, hri]
  have hm1 := modifyAux_eq (fun r : RC => { r with
      indentBeforeWrite := rc.indentBeforeWrite || ((PlainText.pnameD nm none false).indentBeforeWrite && (r.trailingNewline || (PlainText.pnameD nm none false).indent.isSome)),
      contentProduced := false }) rc out { rc with contentProduced := false }
    (by simp [PlainText.pnameD, DecoG.new])
  obtain ⟨out', hx, hf', ht⟩ := expandPartial_plain_named_inline nm hnpb reg root (fuel + 1) P { rc with contentProduced := false } out hP hreg
    hrb hrp hrd hrc hri hf
  refine ⟨{ rc with contentProduced := true, trailingNewline := endsWithNewline P, indentBeforeWrite := endsWithNewline P }, out', ?_,
    hq.flags _ _ _, hf', ht⟩
  have hm2 := modifyAux_eq (fun r : RC => if r.contentProduced then { r with indentBeforeWrite := r.trailingNewline }
      else { r with contentProduced := rc.contentProduced, indentBeforeWrite := rc.indentBeforeWrite })
    { rc with contentProduced := true, trailingNewline := endsWithNewline P, indentBeforeWrite := endsWithNewline P } out'
    { rc with contentProduced := true, trailingNewline := endsWithNewline P, indentBeforeWrite := endsWithNewline P } (by simp)
  simp only [renderElem, RM.bind_def, RM.bnd_apply, hdeco, RM.get_apply]
  rw [hm1]
  simp only []
  rw [show fuel + 5 = fuel + 1 + 4 from rfl, hx]
  simp only []
  exact hm2

/-- **a partial call renders the partial** – from the source text to the bytes: for EVERY text `L` that may stand before a tag and
    does not end in a blank, EVERY following text `R`, EVERY partial name the grammar admits and EVERY non-empty plain text `P`
    registered under it, when the tag does NOT stand alone on its line (something other than blanks shares the line with it, on
    either side), `L ++ {{> name}} ++ R` renders to `L ++ P ++ R`: the partial's text where the tag stood, every character of
    the surrounding text kept.  Through the regenerated grammar, the standalone-line test of compile2 (which says no),
    `expand_partial` and the writer. -/
theorem inline_partial_call_renders_the_partial (r : Registry) (fs : FS) (nm L R P : Str) (data : Json) (hnm : PlainText.PartialName nm)
    (hdev : r.dev = false) (hpi : r.preventIndent = false)
    (hreg : assocGet r.templates nm = some (.mk (some nm) [.raw P] [(1, 1)])) (hP : P ≠ [])
    (hL : L = [] ∨ C03.TextBeforeTag L) (hLb : L = [] ∨ ∃ x, L.getLast? = some x ∧ isBlank x = false)
    (hR : C03.noOpen R)
    (htext : (∃ x, (trimEndBlank L).getLast? = some x ∧ isNewline x = false)
           ∨ (∃ x rr, trimStartBlank R = x :: rr ∧ isNewline x = false)) :
    r.renderTemplate fs (L ++ C12.namedPartialTag nm ++ R) data = .ok (L ++ P ++ R) := by
  have hnpb : (nm == PARTIAL_BLOCK) = false := by
    apply beq_eq_false_iff_ne.mpr
    intro e
    have := hnm.sym '@' (by rw [e]; decide)
    exact absurd this (by decide)
  have htrimL : trimEndBlank L = L := by
    rcases hLb with rfl | h
    · rfl
    · exact C11.trimEndBlank_append L [] (by simp) (Or.inr h) |> fun e => by simpa using e
  have hsa : PlainText.standalone L R false = false := by
    simp only [PlainText.standalone, startsWithEmptyLine, endsWithEmptyLine]
    rcases htext with ⟨x, hx, hn⟩ | ⟨x, rr, hx, hn⟩
    · have hne : (trimEndBlank L).isEmpty = false := by
        cases h : trimEndBlank L with
        | nil => rw [h] at hx; simp at hx
        | cons a t => rfl
      simp [endsWithNewline, hx, hn, hne]
    · simp [hx, startsWithNewline, hn]
  have hftb : findTrailingBlank L = none := by
    simp [findTrailingBlank, htrimL]
  unfold Registry.renderTemplate Registry.renderTemplateToWrite Registry.renderTemplateWithContextToWrite
    Registry.compileForRenderTemplate
  obtain ⟨m, hcomp⟩ := PlainText.compile_text_pname_text nm L _ _ { preventIndent := r.preventIndent } hnm hpi hL
    (PlainText.textAfterTag_split R hR)
  rw [← PlainText.split_ws R] at hcomp
  simp only [hsa, Bool.false_eq_true, ↓reduceIte, hftb] at hcomp
  rw [show C12.namedPartialTag nm = PlainText.pnameSrc nm from rfl, hcomp]
  simp only [Registry.renderResolved, hdev, Bool.not_false, ↓reduceIte]
  have hw : ∀ q ∈ (if L = [] then [] else [((Elem.raw L, L) : Elem × Str)]) ++ [(.partialExpr (PlainText.pnameD nm none false), P)]
      ++ (if R = [] then [] else [((Elem.raw R, R) : Elem × Str)]),
      WritesText r data { ({ rootTemplate := none } : RC) with currentTemplate := none } q.1 q.2 := by
    intro q hq
    simp only [List.mem_append, List.mem_cons, List.not_mem_nil, or_false] at hq
    rcases hq with (hq | rfl) | hq
    · split at hq
      · cases hq
      · simp only [List.mem_cons, List.not_mem_nil, or_false] at hq; subst hq
        exact writes_raw r data _ rfl L
    · exact partial_writes_named_inline nm hnpb r data _ P hP hreg rfl rfl rfl rfl rfl (by simp)
    · split at hq
      · cases hq
      · simp only [List.mem_cons, List.not_mem_nil, or_false] at hq; subst hq
        exact writes_raw r data _ rfl R
  have := render_writes_template r data none _ m { rootTemplate := none } (by
    simp only [List.length_append]; split <;> split <;> simp [renderFuel]) hw
  by_cases hLe : L = [] <;> by_cases hRe : R = [] <;>
    simp only [hLe, hRe, ↓reduceIte, PlainText.leftT, Tmpl.elements, Tmpl.empty, List.map_cons, List.map_nil, List.map_append, List.nil_append, List.append_nil,
      List.cons_append, Tmpl.name] at this ⊢ <;> (rw [this]; simp)

/-- non-vacuity: `a {{> p}} b` and a tag at the very start followed by text -/
example : (C03.TextBeforeTag ['a', ' '] ∨ True) ∧ (trimEndBlank ['x', ':']).getLast? = some ':' ∧ trimStartBlank [' ', 'y'] = ['y'] := by
  refine ⟨Or.inr trivial, by decide, by decide⟩

/-! ### a partial whose text is a value tag: the context it is applied to -/

/-- the compiled `{{x}}` registered as the partial `nm`, rendered in the scope `expand_partial` sets up (one block holding the
    designated context BY VALUE): the escaped text of the context's field `x` -/
theorem render_value_partial (nm x : Str) (reg : Registry) (ctx j : Json) (root : Json) (f : Nat) (mp : List (Nat × Nat)) (rcE : RC) (out : Out)
    (hb : rcE.blocks = [{ baseValue := some ctx }]) (hi : rcE.indentString = none) (hmc : rcE.modifiedCtx = none)
    (hde : rcE.disableEscape = false) (hl : assocGet rcE.localHelpers x = none) (hr : assocGet reg.helpers x = none)
    (hsafe : Spec.indexSafe ctx [x] = true) (hj : Spec.descend ctx [x] = some j) (hf : out.failAt = none) :
    ∃ rc2 out2, renderTemplate reg root (f + 6) (.mk (some nm) [.expr (PlainText.nameHT x)] mp) rcE out = .ok () rc2 out2
      ∧ Quiet { rcE with currentTemplate := some nm } rc2 ∧ out2.failAt = none ∧ out2.text = out.text ++ reg.escape j.render := by
  let rcB : RC := { rcE with currentTemplate := some nm }
  have hev : evaluate2 root (.relative [.named x] x) rcB out = .ok (.derived j) rcB out := by
    have := C01.navigate_current_value_scope root { baseValue := some ctx } [] x [] rcB out ctx (by simp [getInBlockParams, assocGet]) rfl (by simpa using hsafe)
    simp only [C01.names, List.map_cons, List.map_nil] at this
    have hbB : rcB.blocks = [{ baseValue := some ctx }] := hb
    simp only [evaluate2, RM.bind_def, RM.bnd_apply, RM.get_apply, hbB, this, C01.blockValue]
    simp only [Option.bind]
    rw [hj]
  have hel : renderElem reg root (f + 4) (.expr (PlainText.nameHT x)) rcB out = indentAwareWrite (reg.escape j.render) rcB out :=
    C02.expr_path_escapes_once reg root f (PlainText.nameHT x) (.relative [.named x] x) rcB out (.derived j) rfl rfl hl hr hmc hde hev rfl
  obtain ⟨rc2, out2, hw, hq2, hf2, ht2⟩ := indentAwareWrite_quiet rcB hi (reg.escape j.render) rcB out (Quiet.refl _) hf
  have hmA := C12.modifyAux_eq (fun rc => { rc with currentTemplate := some nm }) rcE out rcB rfl
  refine ⟨rc2, out2, ?_, hq2, hf2, ht2⟩
  rw [show f + 6 = (f + 4) + 1 + 1 by omega]
  simp only [renderTemplate, renderElems, RM.bind_def, RM.bnd_apply, RM.get_apply, Tmpl.name, Tmpl.elements, Tmpl.mapping,
    RM.mapErr, hmA, hel, hw, RM.pure_def, RM.ret_apply, Option.isNone_some, Bool.false_eq_true, ↓reduceIte]

/-- `expand_partial` for `{{> name}}` (no argument, no hash, no indentation) with `name` registered as the compiled `{{x}}`: the
    partial is applied to the caller's current context – here the data itself – and the caller's state comes back except for
    the write flags -/
theorem expandPartial_value_named (nm x : Str) (hnpb : (nm == PARTIAL_BLOCK) = false) (reg : Registry) (root j : Json) (f : Nat) (mp : List (Nat × Nat)) (rc1 : RC) (out : Out)
    (hreg : assocGet reg.templates nm = some (.mk (some nm) [.expr (PlainText.nameHT x)] mp))
    (hb : rc1.blocks = [{}]) (hpa : rc1.partials = []) (hdv : rc1.devTemplates = none) (hct : rc1.currentTemplate ≠ some nm)
    (hin : rc1.indentString = none) (hmc : rc1.modifiedCtx = none) (hde : rc1.disableEscape = false)
    (hl : assocGet rc1.localHelpers x = none) (hr : assocGet reg.helpers x = none)
    (hsafe : Spec.indexSafe root [x] = true) (hj : Spec.descend root [x] = some j) (hf : out.failAt = none) :
    ∃ rc' out', expandPartial reg root (f + 7) ⟨nm, [], [], none, none⟩ rc1 out = .ok () rc' out'
      ∧ Quiet rc1 rc' ∧ out'.failAt = none ∧ out'.text = out.text ++ reg.escape j.render := by
  obtain ⟨rc2, out2, hr2, hq2, hf2, ht2⟩ := render_value_partial nm x reg root j root f mp
    { rc1 with blocks := [{ baseValue := some root }], indentString := none, partials := [], devTemplates := none } out rfl rfl hmc hde hl hr hsafe hj hf
  have hev := C12.evaluate_this_top root rc1 out hb
  have hne : (rc1.currentTemplate == some nm) = false := by simpa using hct
  refine ⟨{ rc2 with pbStack := rc2.pbStack, pbBinding := rc1.pbBinding, blocks := rc1.blocks, currentTemplate := rc1.currentTemplate, indentString := rc1.indentString }, out2, ?_, ?_, hf2, ht2⟩
  · rw [show f + 7 = (f + 6) + 1 by omega]
    simp only [expandPartial, RM.bind_def, RM.bnd_apply, RM.pure_def, RM.ret_apply, RM.get_apply, hne, Bool.false_eq_true, ↓reduceIte, hnpb,
      hpa, hdv, assocGet, Option.bind, hreg, List.getElem?_nil, hev, SJ.asJson, mergeJson, List.map_nil, List.isEmpty_nil,
      RM.partialScope, RM.bracket_apply]
    rw [hr2]
    simp [hb, hpa, hdv, hin]
  · unfold Quiet at hq2 ⊢
    rw [hq2]
    simp [hb, hpa, hdv, hin]

/-- the compiled `{{> name}}` beside other text on its line, `name` registered as the compiled `{{x}}`: the escaped text of the
    current context's field `x` -/
theorem partial_value_writes_inline (nm x : Str) (hnpb : (nm == PARTIAL_BLOCK) = false) (reg : Registry) (root j : Json) (rc0 : RC) (mp : List (Nat × Nat))
    (hreg : assocGet reg.templates nm = some (.mk (some nm) [.expr (PlainText.nameHT x)] mp))
    (hb : rc0.blocks = [{}]) (hi : rc0.indentString = none) (hmc : rc0.modifiedCtx = none) (hde : rc0.disableEscape = false)
    (hpa : rc0.partials = []) (hdv : rc0.devTemplates = none) (hct : rc0.currentTemplate ≠ some nm)
    (hl : assocGet rc0.localHelpers x = none) (hr : assocGet reg.helpers x = none)
    (hsafe : Spec.indexSafe root [x] = true) (hj : Spec.descend root [x] = some j) :
    WritesTextK 9 reg root rc0 (.partialExpr (PlainText.pnameD nm none false)) (reg.escape j.render) := by
  intro fuel rc out hq hf
  have hrb : rc.blocks = [{}] := by rw [hq.blocks, hb]
  have hri : rc.indentString = none := by rw [hq.indent, hi]
  have hrm : rc.modifiedCtx = none := by rw [hq]; exact hmc
  have hrde : rc.disableEscape = false := by rw [hq]; exact hde
  have hrp : rc.partials = [] := by rw [hq]; exact hpa
  have hrd : rc.devTemplates = none := by rw [hq]; exact hdv
  have hrc : rc.currentTemplate ≠ some nm := by rw [hq]; exact hct
  have hrl : assocGet rc.localHelpers x = none := by rw [hq]; exact hl
  have hdeco : decoFromTemplate reg root (fuel + 8) (PlainText.pnameD nm none false) rc out
      = .ok ⟨nm, [], [], none, none⟩ rc out := by
    simp [decoFromTemplate, expandAsName, expandParams, expandHash, PlainText.pnameD, DecoG.new, RM.bnd_apply, hri]
  have hqA : Quiet rc0 { rc with contentProduced := false } := hq.flags _ _ _
  have hm1 := C12.modifyAux_eq (fun r : RC => { r with
      indentBeforeWrite := rc.indentBeforeWrite || ((PlainText.pnameD nm none false).indentBeforeWrite && (r.trailingNewline || (PlainText.pnameD nm none false).indent.isSome)),
      contentProduced := false }) rc out { rc with contentProduced := false }
    (by simp [PlainText.pnameD, DecoG.new])
  obtain ⟨rc', out', hx, hq', hf', ht⟩ := expandPartial_value_named nm x hnpb reg root j (fuel + 1) mp { rc with contentProduced := false } out hreg
    hrb hrp hrd hrc hri hrm hrde hrl hr hsafe hj hf
  have hq'' : Quiet rc0 rc' := by
    unfold Quiet at hq' hqA ⊢
    rw [hq', hqA]
  have hqG : Quiet rc0 ((fun r : RC => if r.contentProduced = true then { r with indentBeforeWrite := r.trailingNewline }
      else { r with contentProduced := rc.contentProduced, indentBeforeWrite := rc.indentBeforeWrite }) rc') := by
    by_cases hcp : rc'.contentProduced = true
    · simp only [hcp, ↓reduceIte]; exact Quiet.flags hq'' _ _ _
    · simp only [hcp]; exact Quiet.flags hq'' _ _ _
  have hm2 := quiet_modifyAux rc0 rc' (fun r : RC => if r.contentProduced = true then { r with indentBeforeWrite := r.trailingNewline }
      else { r with contentProduced := rc.contentProduced, indentBeforeWrite := rc.indentBeforeWrite }) out' hq'' hqG
  refine ⟨_, out', ?_, hqG, hf', ht⟩
  rw [show fuel + 9 = (fuel + 8) + 1 by omega]
  simp only [renderElem, RM.bind_def, RM.bnd_apply, hdeco, RM.get_apply]
  rw [hm1]
  simp only []
  rw [show fuel + 8 = fuel + 1 + 7 by omega, hx]
  simp only []
  exact hm2

/-- what the source `{{x}}` registered under `nm` compiles to: one expression element -/
theorem value_tag_compiles (nm x : Str) (pi : Bool) (hx : PlainText.IdentName x) (hthis : (x == str "this") = false) :
    ∃ mp, compile2 (C02.nameTag x) { name := some nm, isPartial := false, preventIndent := pi } = .ok (.mk (some nm) [.expr (PlainText.nameHT x)] mp) := by
  obtain ⟨m, h⟩ := PlainText.compile_text_name_text_pos x [] [] [] { name := some nm, isPartial := false, preventIndent := pi } hx hthis (Or.inl rfl)
    ⟨by simp, by simp, by simp [PlainText.noOpen]⟩
  refine ⟨[Pest.lineCol (PlainText.identSrc x) 0] ++ m, ?_⟩
  simpa [C02.nameTag, PlainText.leftT, Tmpl.empty, Tmpl.elements, Tmpl.mapping] using h

/-- **a partial renders as its template applied to the current context** – at source level: for EVERY partial name, EVERY identifier
    `x`, with the partial `name` holding what the source `{{x}}` compiles to, EVERY text `L` (not ending in a blank) and `R`, the tag
    not alone on its line, every data value and escape function: `L ++ {{> name}} ++ R` renders `L ++ escape(text of data.x) ++ R` –
    exactly what `L ++ {{x}} ++ R` renders (`C02.name_between_texts_escaped_once`): the partial sees the caller's context, its
    expression is escaped once, and the caller's state is as before. -/
theorem partial_applies_template_to_current_context (r : Registry) (fs : FS) (nm x L R : Str) (data j : Json) (mp : List (Nat × Nat))
    (hnm : PlainText.PartialName nm) (hdev : r.dev = false) (hpi : r.preventIndent = false)
    (hreg : assocGet r.templates nm = some (.mk (some nm) [.expr (PlainText.nameHT x)] mp))
    (hnohelper : assocGet r.helpers x = none)
    (hsafe : Spec.indexSafe data [x] = true) (hj : Spec.descend data [x] = some j)
    (hL : L = [] ∨ C03.TextBeforeTag L) (hLb : L = [] ∨ ∃ c, L.getLast? = some c ∧ isBlank c = false)
    (hR : C03.noOpen R)
    (htext : (∃ c, (trimEndBlank L).getLast? = some c ∧ isNewline c = false)
           ∨ (∃ c rr, trimStartBlank R = c :: rr ∧ isNewline c = false)) :
    r.renderTemplate fs (L ++ C12.namedPartialTag nm ++ R) data = .ok (L ++ r.escape j.render ++ R) := by
  have hnpb : (nm == PARTIAL_BLOCK) = false := by
    apply beq_eq_false_iff_ne.mpr
    intro e
    have := hnm.sym '@' (by rw [e]; decide)
    exact absurd this (by decide)
  have htrimL : trimEndBlank L = L := by
    rcases hLb with rfl | h
    · rfl
    · exact C11.trimEndBlank_append L [] (by simp) (Or.inr h) |> fun e => by simpa using e
  have hsa : PlainText.standalone L R false = false := by
    simp only [PlainText.standalone, startsWithEmptyLine, endsWithEmptyLine]
    rcases htext with ⟨c, hc, hn⟩ | ⟨c, rr, hc, hn⟩
    · have hne : (trimEndBlank L).isEmpty = false := by
        cases h : trimEndBlank L with
        | nil => rw [h] at hc; simp at hc
        | cons a t => rfl
      simp [endsWithNewline, hc, hn, hne]
    · simp [hc, startsWithNewline, hn]
  have hftb : findTrailingBlank L = none := by
    simp [findTrailingBlank, htrimL]
  unfold Registry.renderTemplate Registry.renderTemplateToWrite Registry.renderTemplateWithContextToWrite
    Registry.compileForRenderTemplate
  obtain ⟨m, hcomp⟩ := PlainText.compile_text_pname_text nm L _ _ { preventIndent := r.preventIndent } hnm hpi hL
    (PlainText.textAfterTag_split R hR)
  rw [← PlainText.split_ws R] at hcomp
  simp only [hsa, Bool.false_eq_true, ↓reduceIte, hftb] at hcomp
  rw [show C12.namedPartialTag nm = PlainText.pnameSrc nm from rfl, hcomp]
  simp only [Registry.renderResolved, hdev, Bool.not_false, ↓reduceIte]
  have hw : ∀ q ∈ (if L = [] then [] else [((Elem.raw L, L) : Elem × Str)]) ++ [(.partialExpr (PlainText.pnameD nm none false), r.escape j.render)]
      ++ (if R = [] then [] else [((Elem.raw R, R) : Elem × Str)]),
      WritesTextK 9 r data { ({ rootTemplate := none } : RC) with currentTemplate := none } q.1 q.2 := by
    intro q hq
    simp only [List.mem_append, List.mem_cons, List.not_mem_nil, or_false] at hq
    rcases hq with (hq | rfl) | hq
    · split at hq
      · cases hq
      · simp only [List.mem_cons, List.not_mem_nil, or_false] at hq; subst hq
        exact (writes_raw r data _ rfl L).toK _ (by omega)
    · exact partial_value_writes_inline nm x hnpb r data j _ mp hreg rfl rfl rfl rfl rfl rfl (by simp) rfl hnohelper hsafe hj
    · split at hq
      · cases hq
      · simp only [List.mem_cons, List.not_mem_nil, or_false] at hq; subst hq
        exact (writes_raw r data _ rfl R).toK _ (by omega)
  have := render_writes_templateK 9 r data none _ m { rootTemplate := none } (by
    simp only [List.length_append]; split <;> split <;> simp [renderFuel]) hw
  by_cases hLe : L = [] <;> by_cases hRe : R = [] <;>
    simp only [hLe, hRe, ↓reduceIte, PlainText.leftT, Tmpl.elements, Tmpl.empty, List.map_cons, List.map_nil, List.map_append, List.nil_append, List.append_nil,
      List.cons_append, Tmpl.name] at this ⊢ <;> (rw [this]; simp)

end Hbs.C09
