import HbsModel.Registry
import HbsModel.Lemmas.RM
import HbsModel.Lemmas.Write
import HbsModel.Lemmas.Induct
import HbsModel.Generated.WriteSites
/-
  C19  Output is streamed append-only; writer failures surface as errors.
  The writer is `Out`: the list of write calls so far plus the fault index `failAt`.
-/
namespace Hbs.C19
open Hbs RM

/-- every call of `Output::write` (and of the two writing helpers) in src/ propagates its Result:
    re-proved over the REGENERATED list of call sites on every run -/
theorem all_write_sites_propagate : Generated.writeSites.all (·.propagated) = true := by decide

theorem write_sites_nonempty : Generated.writeSites.length ≥ 5 := by decide

/-- one write call: it fails exactly when it is the `failAt`-th call, with the IO error, handing
    nothing to the writer; otherwise it appends exactly its segment -/
theorem write_call (s : Str) (rc : RC) (out : Out) (hs : s ≠ []) :
    (out.failAt = some out.count → RM.write s rc out = .err (.of .ioError) out) ∧
    (out.failAt ≠ some out.count →
      RM.write s rc out = .ok () rc { out with segs := s :: out.segs, count := out.count + 1 }) :=
  ⟨write_fail s rc out hs, write_ok s rc out hs⟩

/-- prefix property of a result relative to the output it started from -/
def Extends (o o' : Out) : Prop := ∃ more, o'.segs = more ++ o.segs ∧ o'.count = o.count + more.length ∧ o'.failAt = o.failAt

theorem Extends.refl (o : Out) : Extends o o := ⟨[], by simp⟩
theorem Extends.trans {a b c : Out} (h1 : Extends a b) (h2 : Extends b c) : Extends a c := by
  obtain ⟨m1, s1, c1, f1⟩ := h1
  obtain ⟨m2, s2, c2, f2⟩ := h2
  exact ⟨m2 ++ m1, by simp [s2, s1], by simp [c2, c1]; omega, by rw [f2, f1]⟩

/-- the writer state a result leaves behind (ok or error) -/
def outOf {α : Type} : RRes α → Option Out
  | .ok _ _ o => some o
  | .err _ o => some o
  | _ => none

/-- what a computation may do to the writer: only append (never retract), in both outcomes -/
structure AppendOnly {α : Type} (x : RM α) : Prop where
  ext : ∀ rc out o', outOf (x rc out) = some o' → Extends out o'

theorem write_appendOnly (s : Str) : AppendOnly (RM.write s) := by
  constructor
  intro rc out o' h
  unfold RM.write at h
  split at h
  · simp [outOf] at h; subst h; exact Extends.refl _
  · split at h
    · simp [outOf] at h; subst h; exact Extends.refl _
    · simp [outOf] at h; subst h; exact ⟨[s], by simp⟩

theorem ret_appendOnly {α : Type} (a : α) : AppendOnly (RM.ret a) := by
  constructor; intro rc out o' h; simp [outOf] at h; subst h; exact Extends.refl _
theorem modify_appendOnly (f : RC → RC) : AppendOnly (RM.modify f) := by
  constructor; intro rc out o' h; simp [outOf] at h; subst h; exact Extends.refl _
theorem get_appendOnly : AppendOnly RM.get := by
  constructor; intro rc out o' h; simp [outOf] at h; subst h; exact Extends.refl _
theorem throw_appendOnly {α : Type} (e : RenderError) : AppendOnly (RM.throw e : RM α) := by
  constructor; intro rc out o' h; simp [outOf] at h; subst h; exact Extends.refl _

/-- sequencing preserves append-only-ness: this is what makes the bytes handed to the writer at any
    moment a prefix of the complete output -/
theorem bnd_appendOnly {α β : Type} (x : RM α) (f : α → RM β) (hx : AppendOnly x) (hf : ∀ a, AppendOnly (f a)) :
    AppendOnly (RM.bnd x f) := by
  constructor
  intro rc out o' h
  simp only [RM.bnd] at h
  cases hxr : x rc out with
  | ok a rc' o1 =>
    simp only [hxr] at h
    have h1 := hx.ext rc out o1 (by simp [hxr, outOf])
    exact h1.trans ((hf a).ext rc' o1 o' h)
  | err e o1 =>
    simp only [hxr, outOf, Option.some.injEq] at h
    subst h
    exact hx.ext rc out o1 (by simp [hxr, outOf])
  | panic s => simp [hxr, outOf] at h
  | fuel => simp [hxr, outOf] at h

theorem writeAll_appendOnly (ss : List Str) : AppendOnly (writeAll ss) := by
  induction ss with
  | nil => exact ret_appendOnly ()
  | cons s ss ih =>
    simp only [writeAll, RM.bind_def]
    exact bnd_appendOnly _ _ (write_appendOnly s) (fun _ => ih)

theorem writeIndented_appendOnly (v ind : Str) : AppendOnly (writeIndented v ind) :=
  writeAll_appendOnly _

theorem indentAwareWrite_appendOnly (v : Str) : AppendOnly (indentAwareWrite v) := by
  unfold indentAwareWrite
  simp only [RM.bind_def]
  repeat' first
    | exact ret_appendOnly _
    | exact modify_appendOnly _
    | exact get_appendOnly
    | exact write_appendOnly _
    | exact writeIndented_appendOnly _ _
    | apply bnd_appendOnly
    | intro _
    | split

/-- a failing write ends the sequence: nothing after it runs (the error short-circuits `bind`) -/
theorem error_short_circuits {α β : Type} (x : RM α) (f : α → RM β) (rc : RC) (out o : Out) (e : RenderError)
    (h : x rc out = .err e o) : RM.bnd x f rc out = .err e o := RM.bnd_err x f rc out o e h

/-- the subexpression output is private: a computation run under `captured` cannot touch the
    user's writer, and cannot be failed by its fault index -/
theorem subexpr_output_private {α : Type} (x : RM α) (rc : RC) (out o' : Out)
    (h : outOf (RM.captured x rc out) = some o') : o' = out := by
  unfold RM.captured at h
  split at h <;> simp [outOf] at h <;> exact h.symm

end Hbs.C19

/-! ### the whole renderer is append-only: for EVERY template, helper, partial, decorator, data,
    state and fuel (generic induction principle of Lemmas/Induct) -/
namespace Hbs.C19
open Hbs RM

theorem outOfFuel_appendOnly {α : Type} : AppendOnly (RM.outOfFuel : RM α) := by
  constructor; intro rc out o' h; simp [outOf] at h

theorem throwR_appendOnly {α : Type} (r : RReason) : AppendOnly (RM.throwR r : RM α) := throw_appendOnly _

theorem panic_appendOnly {α : Type} (s : String) : AppendOnly (RM.panic s : RM α) := by
  constructor; intro rc out o' h; simp [outOf] at h

theorem mapErr_appendOnly {α : Type} (x : RM α) (f : RenderError → RenderError) (hx : AppendOnly x) :
    AppendOnly (RM.mapErr x f) := by
  constructor
  intro rc out o' h
  unfold RM.mapErr at h
  cases hr : x rc out with
  | ok a rc1 o1 => rw [hr] at h; exact hx.ext rc out o' (by rw [hr]; exact h)
  | err e o1 => rw [hr] at h; simp [outOf] at h; subst h; exact hx.ext rc out o1 (by simp [hr, outOf])
  | panic s => rw [hr] at h; simp [outOf] at h
  | fuel => rw [hr] at h; simp [outOf] at h

theorem captured_appendOnly {α : Type} (x : RM α) : AppendOnly (RM.captured x) := by
  constructor
  intro rc out o' h
  have := subexpr_output_private x rc out o' h
  subst this; exact Extends.refl _

theorem bracket_appendOnly {α : Type} (enter : RC → RC) (x : RM α) (leave : RC → RC → RC) (hx : AppendOnly x) :
    AppendOnly (RM.bracket enter x leave) := by
  constructor
  intro rc out o' h
  unfold RM.bracket at h
  cases hr : x (enter rc) out with
  | ok a rc1 o1 => simp only [hr, outOf, Option.some.injEq] at h; subst h; exact hx.ext (enter rc) out o1 (by simp [hr, outOf])
  | err e o1 => simp only [hr, outOf, Option.some.injEq] at h; subst h; exact hx.ext (enter rc) out o1 (by simp [hr, outOf])
  | panic s => simp [hr, outOf] at h
  | fuel => simp [hr, outOf] at h

theorem navigate_appendOnly (root : Json) (segs : List PathSeg) (blocks : List Block) :
    AppendOnly (navigate root segs blocks) := by
  unfold navigate
  simp only [RM.pure_def]
  repeat' with_reducible first
    | exact ret_appendOnly _
    | exact throw_appendOnly _
    | exact throwR_appendOnly _
    | exact panic_appendOnly _
    | split

/-- append-only as a closed predicate -/
def aoPred : RMPred where
  P := fun x => AppendOnly x
  Q := fun x => AppendOnly x
  sub := fun _ h => h
  ret := ret_appendOnly
  bnd := bnd_appendOnly
  qbnd := bnd_appendOnly
  get := get_appendOnly
  modifyAux := fun _ => modify_appendOnly _
  frontMod := fun _ => modify_appendOnly _
  throw := throw_appendOnly
  outOfFuel := outOfFuel_appendOnly
  write := write_appendOnly
  mapErr := fun x f _ hx => mapErr_appendOnly x f hx
  captured := fun x _ => captured_appendOnly x
  withBlock := fun _ x hx => bracket_appendOnly _ x _ hx
  escOffReset := fun x hx => bracket_appendOnly _ x _ hx
  escOffSaved := fun x hx => bracket_appendOnly _ x _ hx
  partialScope := fun _ _ _ _ x hx => bracket_appendOnly _ x _ hx
  navigate := navigate_appendOnly

/-- EVERY render computation only appends to the writer: whatever a render of ANY template has
    handed over at the moment it ends – with Ok or with any error, the planted IO error included –
    extends what had been handed over before; nothing is retracted or reordered. -/
theorem render_appendOnly (reg : Registry) (root : Json) (fuel : Nat) (t : Tmpl) :
    AppendOnly (renderTemplate reg root fuel t) := (aoPred.all reg root fuel).renderTemplate t

/-- in particular the bytes accepted before a failure are a prefix (in write order) of … the bytes
    accepted: the segments present at the start are still the oldest ones at the end. -/
theorem render_keeps_prefix (reg : Registry) (root : Json) (fuel : Nat) (t : Tmpl) (rc : RC) (out o' : Out)
    (h : outOf (renderTemplate reg root fuel t rc out) = some o') :
    ∃ more, o'.segs = more ++ out.segs ∧ o'.failAt = out.failAt := by
  obtain ⟨more, h1, _, h3⟩ := (render_appendOnly reg root fuel t).ext rc out o' h
  exact ⟨more, h1, h3⟩

end Hbs.C19

/-! ### a writer that fails on its k-th call: `FaultSim x` relates two runs of the SAME computation from
    the same state, one against a writer that never fails and one against the same writer with a fault
    planted at call `k`.  It is closed under every combinator of the renderer, hence (generic induction
    principle) holds of every render function. -/
namespace Hbs.C19
open Hbs RM

/-- the same writer with a fault planted at call `k` -/
def faulty (o : Out) (k : Nat) : Out := { o with failAt := some k }

@[simp] theorem faulty_count (o : Out) (k : Nat) : (faulty o k).count = o.count := rfl
@[simp] theorem faulty_segs (o : Out) (k : Nat) : (faulty o k).segs = o.segs := rfl
@[simp] theorem faulty_failAt (o : Out) (k : Nat) : (faulty o k).failAt = some k := rfl

/-- the faulty run reached the fault: it ended with an error whose reason is the IO error, after exactly
    `k` accepted calls, and what the writer accepted are the OLDEST segments of the fault-free run's `o'` -/
def Hit {α : Type} (k : Nat) (o' : Out) (r : RRes α) : Prop :=
  ∃ e oF, r = .err e oF ∧ e.reason = .ioError ∧ oF.count = k ∧ oF.failAt = some k ∧ ∃ m, o'.segs = m ++ oF.segs

/-- the faulty run stayed in step with the fault-free one (fault not reached) or hit the fault -/
structure FaultSim {α : Type} (x : RM α) : Prop where
  ao : AppendOnly x
  ok : ∀ k rc o a rc' o', o.failAt = none → o.count ≤ k → x rc o = .ok a rc' o' →
    (o'.count ≤ k ∧ x rc (faulty o k) = .ok a rc' (faulty o' k)) ∨ (k < o'.count ∧ Hit k o' (x rc (faulty o k)))
  err : ∀ k rc o e o', o.failAt = none → o.count ≤ k → x rc o = .err e o' →
    (o'.count ≤ k ∧ x rc (faulty o k) = .err e (faulty o' k)) ∨ (k < o'.count ∧ Hit k o' (x rc (faulty o k)))

/-- a computation that neither reads nor changes the writer -/
theorem faultSim_of_outIndep {α : Type} (x : RM α)
    (h : ∀ rc : RC, (∃ a rc', ∀ o2, x rc o2 = .ok a rc' o2) ∨ (∃ e, ∀ o2, x rc o2 = .err e o2) ∨
      (∃ s, ∀ o2, x rc o2 = .panic s) ∨ (∀ o2, x rc o2 = .fuel)) : FaultSim x := by
  refine ⟨⟨?_⟩, ?_, ?_⟩
  · intro rc out o' ho
    rcases h rc with ⟨a, rc', h1⟩ | ⟨e, h1⟩ | ⟨s, h1⟩ | h1 <;> rw [h1] at ho <;> simp [outOf] at ho
    all_goals subst ho; exact Extends.refl _
  · intro k rc o a rc' o' _ hk hx
    rcases h rc with ⟨a1, rc1, h1⟩ | ⟨e, h1⟩ | ⟨s, h1⟩ | h1 <;> rw [h1] at hx <;> simp at hx
    obtain ⟨rfl, rfl, rfl⟩ := hx
    exact Or.inl ⟨hk, h1 _⟩
  · intro k rc o e o' _ hk hx
    rcases h rc with ⟨a1, rc1, h1⟩ | ⟨e1, h1⟩ | ⟨s, h1⟩ | h1 <;> rw [h1] at hx <;> simp at hx
    obtain ⟨rfl, rfl⟩ := hx
    exact Or.inl ⟨hk, h1 _⟩

theorem ret_faultSim {α : Type} (a : α) : FaultSim (RM.ret a) :=
  faultSim_of_outIndep _ (fun rc => Or.inl ⟨a, rc, fun _ => rfl⟩)
theorem get_faultSim : FaultSim RM.get :=
  faultSim_of_outIndep _ (fun rc => Or.inl ⟨rc, rc, fun _ => rfl⟩)
theorem modify_faultSim (f : RC → RC) : FaultSim (RM.modify f) :=
  faultSim_of_outIndep _ (fun rc => Or.inl ⟨(), f rc, fun _ => rfl⟩)
theorem throw_faultSim {α : Type} (e : RenderError) : FaultSim (RM.throw e : RM α) :=
  faultSim_of_outIndep _ (fun _ => Or.inr (Or.inl ⟨e, fun _ => rfl⟩))
theorem throwR_faultSim {α : Type} (r : RReason) : FaultSim (RM.throwR r : RM α) := throw_faultSim _
theorem panic_faultSim {α : Type} (s : String) : FaultSim (RM.panic s : RM α) :=
  faultSim_of_outIndep _ (fun _ => Or.inr (Or.inr (Or.inl ⟨s, fun _ => rfl⟩)))
theorem outOfFuel_faultSim {α : Type} : FaultSim (RM.outOfFuel : RM α) :=
  faultSim_of_outIndep _ (fun _ => Or.inr (Or.inr (Or.inr (fun _ => rfl))))

/-- THE step: one write call.  In step while the call index is below `k`; the `k`-th call fails with the
    IO error and hands nothing over. -/
theorem write_faultSim (s : Str) : FaultSim (RM.write s) := by
  refine ⟨write_appendOnly s, ?_, ?_⟩
  · intro k rc o a rc' o' hf hk hx
    by_cases hs : s = []
    · subst hs
      simp at hx
      obtain ⟨rfl, rfl⟩ := hx
      exact Or.inl ⟨hk, by simp⟩
    · have hne : o.failAt ≠ some o.count := by rw [hf]; simp
      rw [write_ok s rc o hs hne] at hx
      simp at hx
      obtain ⟨rfl, rfl⟩ := hx
      by_cases hkk : o.count = k
      · right
        refine ⟨by simp; omega, ?_⟩
        refine ⟨.of .ioError, faulty o k, ?_, rfl, by simp [hkk], rfl, [s], by simp⟩
        exact write_fail s rc (faulty o k) hs (by simp [hkk])
      · left
        refine ⟨by simp; omega, ?_⟩
        rw [write_ok s rc (faulty o k) hs (by simp; omega)]
        rfl
  · intro k rc o e o' hf hk hx
    by_cases hs : s = []
    · subst hs; simp at hx
    · have hne : o.failAt ≠ some o.count := by rw [hf]; simp
      rw [write_ok s rc o hs hne] at hx
      simp at hx

theorem hit_extend {α β : Type} {k : Nat} {o1 o2 : Out} {r : RRes α} (f : α → RM β)
    (h : Hit k o1 r) (hext : Extends o1 o2) :
    Hit k o2 (match r with
      | .ok a rc' out' => f a rc' out'
      | .err e o => .err e o
      | .panic s => .panic s
      | .fuel => .fuel) := by
  obtain ⟨e, oF, rfl, he, hc, hfa, m, hm⟩ := h
  obtain ⟨more, hs, _, _⟩ := hext
  exact ⟨e, oF, rfl, he, hc, hfa, more ++ m, by rw [hs, hm]; simp⟩

theorem bnd_faultSim {α β : Type} (x : RM α) (f : α → RM β) (hx : FaultSim x) (hf : ∀ a, FaultSim (f a)) :
    FaultSim (RM.bnd x f) := by
  refine ⟨bnd_appendOnly x f hx.ao (fun a => (hf a).ao), ?_, ?_⟩
  · intro k rc o b rc2 o2 hfa hk hb
    rw [RM.bnd_apply] at hb
    cases hxr : x rc o with
    | ok a rc1 o1 =>
      rw [hxr] at hb
      have hext1 := hx.ao.ext rc o o1 (by simp [hxr, outOf])
      have hext2 := (hf a).ao.ext rc1 o1 o2 (by simp [hb, outOf])
      rcases hx.ok k rc o a rc1 o1 hfa hk hxr with ⟨hk1, hsync⟩ | ⟨hk1, hhit⟩
      · have hfa1 : o1.failAt = none := by obtain ⟨_, _, _, h3⟩ := hext1; rw [h3, hfa]
        rcases (hf a).ok k rc1 o1 b rc2 o2 hfa1 hk1 hb with ⟨hk2, hs2⟩ | ⟨hk2, hh2⟩
        · left; refine ⟨hk2, ?_⟩; rw [RM.bnd_apply, hsync]; exact hs2
        · right; refine ⟨hk2, ?_⟩; rw [RM.bnd_apply, hsync]; exact hh2
      · right
        obtain ⟨more, _, hc, _⟩ := id hext2
        refine ⟨by omega, ?_⟩
        rw [RM.bnd_apply]
        exact hit_extend f hhit hext2
    | err e o1 => rw [hxr] at hb; simp at hb
    | panic s => rw [hxr] at hb; simp at hb
    | fuel => rw [hxr] at hb; simp at hb
  · intro k rc o e2 o2 hfa hk hb
    rw [RM.bnd_apply] at hb
    cases hxr : x rc o with
    | ok a rc1 o1 =>
      rw [hxr] at hb
      have hext1 := hx.ao.ext rc o o1 (by simp [hxr, outOf])
      have hext2 := (hf a).ao.ext rc1 o1 o2 (by simp [hb, outOf])
      rcases hx.ok k rc o a rc1 o1 hfa hk hxr with ⟨hk1, hsync⟩ | ⟨hk1, hhit⟩
      · have hfa1 : o1.failAt = none := by obtain ⟨_, _, _, h3⟩ := hext1; rw [h3, hfa]
        rcases (hf a).err k rc1 o1 e2 o2 hfa1 hk1 hb with ⟨hk2, hs2⟩ | ⟨hk2, hh2⟩
        · left; refine ⟨hk2, ?_⟩; rw [RM.bnd_apply, hsync]; exact hs2
        · right; refine ⟨hk2, ?_⟩; rw [RM.bnd_apply, hsync]; exact hh2
      · right
        obtain ⟨more, _, hc, _⟩ := id hext2
        refine ⟨by omega, ?_⟩
        rw [RM.bnd_apply]
        exact hit_extend f hhit hext2
    | err e o1 =>
      rw [hxr] at hb
      simp at hb
      obtain ⟨rfl, rfl⟩ := hb
      rcases hx.err k rc o e o1 hfa hk hxr with ⟨hk1, hsync⟩ | ⟨hk1, hhit⟩
      · left; refine ⟨hk1, ?_⟩; rw [RM.bnd_apply, hsync]
      · right; refine ⟨hk1, ?_⟩; rw [RM.bnd_apply]; exact hit_extend f hhit (Extends.refl _)
    | panic s => rw [hxr] at hb; simp at hb
    | fuel => rw [hxr] at hb; simp at hb

/-- `map_err` with a reason-preserving function: the IO error stays the IO error -/
theorem mapErr_faultSim {α : Type} (x : RM α) (g : RenderError → RenderError)
    (hg : ∀ e, (g e).reason = e.reason) (hx : FaultSim x) : FaultSim (RM.mapErr x g) := by
  refine ⟨mapErr_appendOnly x g hx.ao, ?_, ?_⟩
  · intro k rc o a rc' o' hfa hk h
    unfold RM.mapErr at h
    cases hxr : x rc o with
    | ok a1 rc1 o1 =>
      rw [hxr] at h; simp at h; obtain ⟨rfl, rfl, rfl⟩ := h
      rcases hx.ok k rc o a1 rc1 o1 hfa hk hxr with ⟨hk1, hs⟩ | ⟨hk1, e, oF, hr, he, hrest⟩
      · left; refine ⟨hk1, ?_⟩; unfold RM.mapErr; rw [hs]
      · right; refine ⟨hk1, g e, oF, ?_, by rw [hg, he], hrest⟩; unfold RM.mapErr; rw [hr]
    | err e o1 => rw [hxr] at h; simp at h
    | panic s => rw [hxr] at h; simp at h
    | fuel => rw [hxr] at h; simp at h
  · intro k rc o e' o' hfa hk h
    unfold RM.mapErr at h
    cases hxr : x rc o with
    | ok a1 rc1 o1 => rw [hxr] at h; simp at h
    | err e o1 =>
      rw [hxr] at h; simp at h; obtain ⟨rfl, rfl⟩ := h
      rcases hx.err k rc o e o1 hfa hk hxr with ⟨hk1, hs⟩ | ⟨hk1, e2, oF, hr, he, hrest⟩
      · left; refine ⟨hk1, ?_⟩; unfold RM.mapErr; rw [hs]
      · right; refine ⟨hk1, g e2, oF, ?_, by rw [hg, he], hrest⟩; unfold RM.mapErr; rw [hr]
    | panic s => rw [hxr] at h; simp at h
    | fuel => rw [hxr] at h; simp at h

/-- a subexpression runs against a private writer without a fault: both runs do the same -/
theorem captured_faultSim {α : Type} (x : RM α) : FaultSim (RM.captured x) := by
  refine ⟨captured_appendOnly x, ?_, ?_⟩
  · intro k rc o a rc' o' _ hk h
    unfold RM.captured at h
    cases hxr : x rc {} with
    | ok a1 rc1 o1 =>
      rw [hxr] at h; simp at h; obtain ⟨rfl, rfl, rfl⟩ := h
      left; refine ⟨hk, ?_⟩; unfold RM.captured; rw [hxr]
    | err e o1 => rw [hxr] at h; simp at h
    | panic s => rw [hxr] at h; simp at h
    | fuel => rw [hxr] at h; simp at h
  · intro k rc o e' o' _ hk h
    unfold RM.captured at h
    cases hxr : x rc {} with
    | ok a1 rc1 o1 => rw [hxr] at h; simp at h
    | err e o1 =>
      rw [hxr] at h; simp at h; obtain ⟨rfl, rfl⟩ := h
      left; refine ⟨hk, ?_⟩; unfold RM.captured; rw [hxr]
    | panic s => rw [hxr] at h; simp at h
    | fuel => rw [hxr] at h; simp at h

theorem bracket_faultSim {α : Type} (enter : RC → RC) (x : RM α) (leave : RC → RC → RC) (hx : FaultSim x) :
    FaultSim (RM.bracket enter x leave) := by
  refine ⟨bracket_appendOnly enter x leave hx.ao, ?_, ?_⟩
  · intro k rc o a rc' o' hfa hk h
    unfold RM.bracket at h
    cases hxr : x (enter rc) o with
    | ok a1 rc1 o1 =>
      rw [hxr] at h; simp at h; obtain ⟨rfl, rfl, rfl⟩ := h
      rcases hx.ok k (enter rc) o a1 rc1 o1 hfa hk hxr with ⟨hk1, hs⟩ | ⟨hk1, e, oF, hr, hrest⟩
      · left; refine ⟨hk1, ?_⟩; unfold RM.bracket; rw [hs]
      · right; refine ⟨hk1, e, oF, ?_, hrest⟩; unfold RM.bracket; rw [hr]
    | err e o1 => rw [hxr] at h; simp at h
    | panic s => rw [hxr] at h; simp at h
    | fuel => rw [hxr] at h; simp at h
  · intro k rc o e' o' hfa hk h
    unfold RM.bracket at h
    cases hxr : x (enter rc) o with
    | ok a1 rc1 o1 => rw [hxr] at h; simp at h
    | err e o1 =>
      rw [hxr] at h; simp at h; obtain ⟨rfl, rfl⟩ := h
      rcases hx.err k (enter rc) o e o1 hfa hk hxr with ⟨hk1, hs⟩ | ⟨hk1, e2, oF, hr, hrest⟩
      · left; refine ⟨hk1, ?_⟩; unfold RM.bracket; rw [hs]
      · right; refine ⟨hk1, e2, oF, ?_, hrest⟩; unfold RM.bracket; rw [hr]
    | panic s => rw [hxr] at h; simp at h
    | fuel => rw [hxr] at h; simp at h

theorem navigate_faultSim (root : Json) (segs : List PathSeg) (blocks : List Block) :
    FaultSim (navigate root segs blocks) := by
  unfold navigate
  simp only [RM.pure_def]
  repeat' with_reducible first
    | exact ret_faultSim _
    | exact throw_faultSim _
    | exact throwR_faultSim _
    | exact panic_faultSim _
    | split

/-- the fault simulation as a closed predicate -/
def fsPred : RMPred where
  P := fun x => FaultSim x
  Q := fun x => FaultSim x
  sub := fun _ h => h
  ret := ret_faultSim
  bnd := bnd_faultSim
  qbnd := bnd_faultSim
  get := get_faultSim
  modifyAux := fun _ => modify_faultSim _
  frontMod := fun _ => modify_faultSim _
  throw := throw_faultSim
  outOfFuel := outOfFuel_faultSim
  write := write_faultSim
  mapErr := mapErr_faultSim
  captured := fun x _ => captured_faultSim x
  withBlock := fun _ x hx => bracket_faultSim _ x _ hx
  escOffReset := fun x hx => bracket_faultSim _ x _ hx
  escOffSaved := fun x hx => bracket_faultSim _ x _ hx
  partialScope := fun _ _ _ _ x hx => bracket_faultSim _ x _ hx
  navigate := navigate_faultSim

/-- EVERY render computation, run against a writer failing at call `k`, stays in step with the
    fault-free run until the fault and then stops with the IO error -/
theorem render_faultSim (reg : Registry) (root : Json) (fuel : Nat) (t : Tmpl) :
    FaultSim (renderTemplate reg root fuel t) := (fsPred.all reg root fuel).renderTemplate t

theorem text_prefix_of_segs {o' oF : Out} {m : List Str} (h : o'.segs = m ++ oF.segs) :
    o'.text = oF.text ++ m.reverse.flatten := by
  simp [Out.text, h]

/-- **writer failing on its k-th call**, for ANY template, data, registry, state and fuel: if the
    fault-free render succeeds after `n` write calls then
    * for `k ≥ n` the faulty render succeeds too, with the same output and final state;
    * for `k < n` it returns an error whose reason is the IO error (never Ok, never a panic), exactly
      `k` calls were accepted (nothing further is written), and the accepted text is a prefix of the
      fault-free output. -/
theorem fail_at_k (reg : Registry) (root : Json) (fuel : Nat) (t : Tmpl) (rc rc' : RC) (o' : Out) (k : Nat)
    (h : renderTemplate reg root fuel t rc {} = .ok () rc' o') :
    (o'.count ≤ k ∧ renderTemplate reg root fuel t rc { failAt := some k } = .ok () rc' { o' with failAt := some k }) ∨
    (k < o'.count ∧ ∃ e oF rest, renderTemplate reg root fuel t rc { failAt := some k } = .err e oF ∧
      e.reason = .ioError ∧ oF.count = k ∧ o'.text = oF.text ++ rest) := by
  rcases (render_faultSim reg root fuel t).ok k rc {} () rc' o' rfl (Nat.zero_le _) h with ⟨h1, h2⟩ | ⟨h1, e, oF, hr, he, hc, _, m, hm⟩
  · exact Or.inl ⟨h1, h2⟩
  · exact Or.inr ⟨h1, e, oF, _, hr, he, hc, text_prefix_of_segs hm⟩

/-- the same when the fault-free render itself ends with a render error `e0` after `n` calls: for
    `k ≥ n` the faulty run reports the same error after the same output, for `k < n` the IO error. -/
theorem fail_at_k_of_error (reg : Registry) (root : Json) (fuel : Nat) (t : Tmpl) (rc : RC) (e0 : RenderError) (o' : Out) (k : Nat)
    (h : renderTemplate reg root fuel t rc {} = .err e0 o') :
    (o'.count ≤ k ∧ renderTemplate reg root fuel t rc { failAt := some k } = .err e0 { o' with failAt := some k }) ∨
    (k < o'.count ∧ ∃ e oF rest, renderTemplate reg root fuel t rc { failAt := some k } = .err e oF ∧
      e.reason = .ioError ∧ oF.count = k ∧ o'.text = oF.text ++ rest) := by
  rcases (render_faultSim reg root fuel t).err k rc {} e0 o' rfl (Nat.zero_le _) h with ⟨h1, h2⟩ | ⟨h1, e, oF, hr, he, hc, _, m, hm⟩
  · exact Or.inl ⟨h1, h2⟩
  · exact Or.inr ⟨h1, e, oF, _, hr, he, hc, text_prefix_of_segs hm⟩

/-- the number of write calls of a run from the empty writer is the number of segments: "exactly k calls
    were accepted" means exactly the first k segments -/
theorem count_is_segments (reg : Registry) (root : Json) (fuel : Nat) (t : Tmpl) (rc : RC) (fa : Option Nat) (o' : Out)
    (h : outOf (renderTemplate reg root fuel t rc { failAt := fa }) = some o') : o'.count = o'.segs.length := by
  obtain ⟨more, h1, h2, _⟩ := (render_appendOnly reg root fuel t).ext rc _ o' h
  simp [h1, h2]

/-- non-vacuity: a concrete template with two write calls; the hypotheses of `fail_at_k` are met and
    both alternatives occur -/
example : ∃ rc' o', renderTemplate Registry.new .null 10 (.mk none [.raw ['a'], .raw ['b']] [(1, 1), (1, 2)]) {} {} = .ok () rc' o' ∧ o'.count = 2 :=
  ⟨_, _, rfl, rfl⟩

end Hbs.C19

/-! ### the same at the level of the public entry points (`render_to_write`, `render_template_to_write`
    and their `_with_context` twins): template lookup, dev-mode reloading and compilation happen
    before the first write and do not look at the writer. -/
namespace Hbs.C19
open Hbs RM

theorem runRM_fail_at_k (x : RM Unit) (hx : FaultSim x) (rc : RC) (k : Nat) (text : Str)
    (h : runRM x rc {} = .ok text) :
    runRM x rc { failAt := some k } = .ok text ∨
    ∃ e w rest, runRM x rc { failAt := some k } = .err e w ∧ e.reason = .ioError ∧ text = w ++ rest := by
  unfold runRM at h ⊢
  cases hr : x rc {} with
  | ok a rc' o' =>
    rw [hr] at h
    simp only [Final.ok.injEq] at h
    rcases hx.ok k rc {} a rc' o' rfl (Nat.zero_le _) hr with ⟨_, h2⟩ | ⟨_, e, oF, hr2, he, _, _, m, hm⟩
    · left
      have : faulty ({} : Out) k = { failAt := some k } := rfl
      rw [this] at h2; rw [h2]
      simp only [Final.ok.injEq]
      rw [← h]; rfl
    · right
      have : faulty ({} : Out) k = { failAt := some k } := rfl
      rw [this] at hr2; rw [hr2]
      exact ⟨e, oF.text, m.reverse.flatten, rfl, he, by rw [← h]; exact text_prefix_of_segs hm⟩
  | err e o' => rw [hr] at h; cases h
  | panic s => rw [hr] at h; cases h
  | fuel => rw [hr] at h; cases h

theorem renderResolved_fail_at_k (r : Registry) (fs : FS) (name : Option Str) (t : Tmpl) (data : Json) (k : Nat) (text : Str)
    (h : r.renderResolved fs name t data {} = .ok text) :
    r.renderResolved fs name t data { failAt := some k } = .ok text ∨
    ∃ e w rest, r.renderResolved fs name t data { failAt := some k } = .err e w ∧ e.reason = .ioError ∧ text = w ++ rest := by
  unfold Registry.renderResolved at h ⊢
  cases hd : r.dev with
  | false =>
    simp only [hd, Bool.not_false, ↓reduceIte] at h ⊢
    exact runRM_fail_at_k _ (render_faultSim _ _ _ _) _ k text h
  | true =>
    simp only [hd, Bool.not_true, Bool.false_eq_true, ↓reduceIte] at h ⊢
    cases hg : r.gatherDev fs (name.map (fun n => (n, t))) r.sources [] with
    | error e =>
      rw [hg] at h
      cases e <;> simp at h
    | ok dmt =>
      rw [hg] at h
      simp only [] at h ⊢
      cases name with
      | none =>
        simp only [] at h ⊢
        exact runRM_fail_at_k _ (render_faultSim _ _ _ _) _ k text h
      | some n =>
        simp only [] at h ⊢
        cases ha : assocGet dmt n with
        | none => rw [ha] at h; cases h
        | some t' =>
          rw [ha] at h
          simp only [] at h ⊢
          exact runRM_fail_at_k _ (render_faultSim _ _ _ _) _ k text h

/-- **`render_to_write` with a writer failing on its k-th call** (`failAt = some k`), for any
    registry, file system, template name and data: if the render into an unfailing writer returns
    `text`, the faulty render returns `text` as well (fault not reached) or an error whose reason is
    the IO error, having written a prefix of `text`. -/
theorem render_to_write_fail_at_k (r : Registry) (fs : FS) (name : Str) (data : Json) (k : Nat) (text : Str)
    (h : r.renderToWrite fs name data none = .ok text) :
    r.renderToWrite fs name data (some k) = .ok text ∨
    ∃ e w rest, r.renderToWrite fs name data (some k) = .err e w ∧ e.reason = .ioError ∧ text = w ++ rest := by
  unfold Registry.renderToWrite Registry.renderToOutput at h ⊢
  cases hl : r.getOrLoad fs name with
  | ok t => rw [hl] at h; exact renderResolved_fail_at_k r fs (some name) t data k text h
  | err e => rw [hl] at h; cases h
  | panic s => rw [hl] at h; cases h
  | fuel => rw [hl] at h; cases h

theorem render_template_to_write_fail_at_k (r : Registry) (fs : FS) (src : Str) (data : Json) (k : Nat) (text : Str)
    (h : r.renderTemplateToWrite fs src data none = .ok text) :
    r.renderTemplateToWrite fs src data (some k) = .ok text ∨
    ∃ e w rest, r.renderTemplateToWrite fs src data (some k) = .err e w ∧ e.reason = .ioError ∧ text = w ++ rest := by
  unfold Registry.renderTemplateToWrite Registry.renderTemplateWithContextToWrite at h ⊢
  cases hl : r.compileForRenderTemplate src with
  | ok t => rw [hl] at h; exact renderResolved_fail_at_k r fs none t data k text h
  | err e => rw [hl] at h; cases h
  | panic s => rw [hl] at h; cases h
  | fuel => rw [hl] at h; cases h

end Hbs.C19
