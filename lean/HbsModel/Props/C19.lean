import HbsModel.Registry
import HbsModel.Lemmas.RM
import HbsModel.Lemmas.Write
import HbsModel.Lemmas.Induct
import HbsModel.Generated.WriteSites
/-
  C19  Output is streamed append-only; writer failures surface as errors.
  The writer is `Out`: the list of write calls so far plus the fault index `failAt`.
-/
namespace Hbs.C19
open Hbs RM

/-- every call of `Output::write` (and of the two writing helpers) in src/ propagates its Result:
    re-proved over the REGENERATED list of call sites on every run -/
theorem all_write_sites_propagate : Generated.writeSites.all (·.propagated) = true := by decide

theorem write_sites_nonempty : Generated.writeSites.length ≥ 5 := by decide

/-- one write call: it fails exactly when it is the `failAt`-th call, with the IO error, handing
    nothing to the writer; otherwise it appends exactly its segment -/
theorem write_call (s : Str) (rc : RC) (out : Out) (hs : s ≠ []) :
    (out.failAt = some out.count → RM.write s rc out = .err (.of .ioError) out) ∧
    (out.failAt ≠ some out.count →
      RM.write s rc out = .ok () rc { out with segs := s :: out.segs, count := out.count + 1 }) :=
  ⟨write_fail s rc out hs, write_ok s rc out hs⟩

/-- prefix property of a result relative to the output it started from -/
def Extends (o o' : Out) : Prop := ∃ more, o'.segs = more ++ o.segs ∧ o'.count = o.count + more.length ∧ o'.failAt = o.failAt

theorem Extends.refl (o : Out) : Extends o o := ⟨[], by simp⟩
theorem Extends.trans {a b c : Out} (h1 : Extends a b) (h2 : Extends b c) : Extends a c := by
  obtain ⟨m1, s1, c1, f1⟩ := h1
  obtain ⟨m2, s2, c2, f2⟩ := h2
  exact ⟨m2 ++ m1, by simp [s2, s1], by simp [c2, c1]; omega, by rw [f2, f1]⟩

/-- the writer state a result leaves behind (ok or error) -/
def outOf {α : Type} : RRes α → Option Out
  | .ok _ _ o => some o
  | .err _ o => some o
  | _ => none

/-- what a computation may do to the writer: only append (never retract), in both outcomes -/
structure AppendOnly {α : Type} (x : RM α) : Prop where
  ext : ∀ rc out o', outOf (x rc out) = some o' → Extends out o'

theorem write_appendOnly (s : Str) : AppendOnly (RM.write s) := by
  constructor
  intro rc out o' h
  unfold RM.write at h
  split at h
  · simp [outOf] at h; subst h; exact Extends.refl _
  · split at h
    · simp [outOf] at h; subst h; exact Extends.refl _
    · simp [outOf] at h; subst h; exact ⟨[s], by simp⟩

theorem ret_appendOnly {α : Type} (a : α) : AppendOnly (RM.ret a) := by
  constructor; intro rc out o' h; simp [outOf] at h; subst h; exact Extends.refl _
theorem modify_appendOnly (f : RC → RC) : AppendOnly (RM.modify f) := by
  constructor; intro rc out o' h; simp [outOf] at h; subst h; exact Extends.refl _
theorem get_appendOnly : AppendOnly RM.get := by
  constructor; intro rc out o' h; simp [outOf] at h; subst h; exact Extends.refl _
theorem throw_appendOnly {α : Type} (e : RenderError) : AppendOnly (RM.throw e : RM α) := by
  constructor; intro rc out o' h; simp [outOf] at h; subst h; exact Extends.refl _

/-- sequencing preserves append-only-ness: this is what makes the bytes handed to the writer at any
    moment a prefix of the complete output -/
theorem bnd_appendOnly {α β : Type} (x : RM α) (f : α → RM β) (hx : AppendOnly x) (hf : ∀ a, AppendOnly (f a)) :
    AppendOnly (RM.bnd x f) := by
  constructor
  intro rc out o' h
  simp only [RM.bnd] at h
  cases hxr : x rc out with
  | ok a rc' o1 =>
    simp only [hxr] at h
    have h1 := hx.ext rc out o1 (by simp [hxr, outOf])
    exact h1.trans ((hf a).ext rc' o1 o' h)
  | err e o1 =>
    simp only [hxr, outOf, Option.some.injEq] at h
    subst h
    exact hx.ext rc out o1 (by simp [hxr, outOf])
  | panic s => simp [hxr, outOf] at h
  | fuel => simp [hxr, outOf] at h

theorem writeAll_appendOnly (ss : List Str) : AppendOnly (writeAll ss) := by
  induction ss with
  | nil => exact ret_appendOnly ()
  | cons s ss ih =>
    simp only [writeAll, RM.bind_def]
    exact bnd_appendOnly _ _ (write_appendOnly s) (fun _ => ih)

theorem writeIndented_appendOnly (v ind : Str) : AppendOnly (writeIndented v ind) :=
  writeAll_appendOnly _

theorem indentAwareWrite_appendOnly (v : Str) : AppendOnly (indentAwareWrite v) := by
  unfold indentAwareWrite
  simp only [RM.bind_def]
  repeat' first
    | exact ret_appendOnly _
    | exact modify_appendOnly _
    | exact get_appendOnly
    | exact write_appendOnly _
    | exact writeIndented_appendOnly _ _
    | apply bnd_appendOnly
    | intro _
    | split

/-- a failing write ends the sequence: nothing after it runs (the error short-circuits `bind`) -/
theorem error_short_circuits {α β : Type} (x : RM α) (f : α → RM β) (rc : RC) (out o : Out) (e : RenderError)
    (h : x rc out = .err e o) : RM.bnd x f rc out = .err e o := RM.bnd_err x f rc out o e h

/-- the subexpression output is private: a computation run under `captured` cannot touch the
    user's writer, and cannot be failed by its fault index -/
theorem subexpr_output_private {α : Type} (x : RM α) (rc : RC) (out o' : Out)
    (h : outOf (RM.captured x rc out) = some o') : o' = out := by
  unfold RM.captured at h
  split at h <;> simp [outOf] at h <;> exact h.symm

end Hbs.C19

/-! ### the whole renderer is append-only: for EVERY template, helper, partial, decorator, data,
    state and fuel (generic induction principle of Lemmas/Induct) -/
namespace Hbs.C19
open Hbs RM

theorem outOfFuel_appendOnly {α : Type} : AppendOnly (RM.outOfFuel : RM α) := by
  constructor; intro rc out o' h; simp [outOf] at h

theorem throwR_appendOnly {α : Type} (r : RReason) : AppendOnly (RM.throwR r : RM α) := throw_appendOnly _

theorem panic_appendOnly {α : Type} (s : String) : AppendOnly (RM.panic s : RM α) := by
  constructor; intro rc out o' h; simp [outOf] at h

theorem mapErr_appendOnly {α : Type} (x : RM α) (f : RenderError → RenderError) (hx : AppendOnly x) :
    AppendOnly (RM.mapErr x f) := by
  constructor
  intro rc out o' h
  unfold RM.mapErr at h
  cases hr : x rc out with
  | ok a rc1 o1 => rw [hr] at h; exact hx.ext rc out o' (by rw [hr]; exact h)
  | err e o1 => rw [hr] at h; simp [outOf] at h; subst h; exact hx.ext rc out o1 (by simp [hr, outOf])
  | panic s => rw [hr] at h; simp [outOf] at h
  | fuel => rw [hr] at h; simp [outOf] at h

theorem captured_appendOnly {α : Type} (x : RM α) : AppendOnly (RM.captured x) := by
  constructor
  intro rc out o' h
  have := subexpr_output_private x rc out o' h
  subst this; exact Extends.refl _

theorem cleanup_appendOnly (x : RM Unit) (c : RC → RC) (hx : AppendOnly x) : AppendOnly (RM.withCleanup x c) := by
  constructor
  intro rc out o' h
  unfold RM.withCleanup at h
  cases hr : x rc out with
  | ok a rc1 o1 => simp only [hr, outOf, Option.some.injEq] at h; subst h; exact hx.ext rc out o1 (by simp [hr, outOf])
  | err e o1 => simp only [hr, outOf, Option.some.injEq] at h; subst h; exact hx.ext rc out o1 (by simp [hr, outOf])
  | panic s => simp [hr, outOf] at h
  | fuel => simp [hr, outOf] at h

theorem navigate_appendOnly (root : Json) (segs : List PathSeg) (blocks : List Block) :
    AppendOnly (navigate root segs blocks) := by
  unfold navigate
  simp only [RM.pure_def]
  repeat' with_reducible first
    | exact ret_appendOnly _
    | exact throw_appendOnly _
    | exact throwR_appendOnly _
    | exact panic_appendOnly _
    | split

/-- append-only as a closed predicate -/
def aoPred : RMPred where
  P := fun x => AppendOnly x
  ret := ret_appendOnly
  bnd := bnd_appendOnly
  get := get_appendOnly
  modify := modify_appendOnly
  throw := throw_appendOnly
  outOfFuel := outOfFuel_appendOnly
  write := write_appendOnly
  mapErr := mapErr_appendOnly
  captured := fun x _ => captured_appendOnly x
  cleanup := cleanup_appendOnly
  navigate := navigate_appendOnly

/-- EVERY render computation only appends to the writer: whatever a render of ANY template has
    handed over at the moment it ends – with Ok or with any error, the planted IO error included –
    extends what had been handed over before; nothing is retracted or reordered. -/
theorem render_appendOnly (reg : Registry) (root : Json) (fuel : Nat) (t : Tmpl) :
    AppendOnly (renderTemplate reg root fuel t) := (aoPred.all reg root fuel).renderTemplate t

/-- in particular the bytes accepted before a failure are a prefix (in write order) of … the bytes
    accepted: the segments present at the start are still the oldest ones at the end. -/
theorem render_keeps_prefix (reg : Registry) (root : Json) (fuel : Nat) (t : Tmpl) (rc : RC) (out o' : Out)
    (h : outOf (renderTemplate reg root fuel t rc out) = some o') :
    ∃ more, o'.segs = more ++ out.segs ∧ o'.failAt = out.failAt := by
  obtain ⟨more, h1, _, h3⟩ := (render_appendOnly reg root fuel t).ext rc out o' h
  exact ⟨more, h1, h3⟩

end Hbs.C19
