import HbsModel.Registry
import HbsModel.Lemmas.RM
import HbsModel.Props.C02
import HbsModel.Props.C10
import HbsModel.Lemmas.Assoc
import HbsModel.Lemmas.CallTag
import HbsModel.Lemmas.CompileCallName
/-
  C18  A render error points at the tag that failed.
-/
namespace Hbs.C18
open Hbs RM Hbs.Pest

/-- the decoration `Template::render` applies to the error of element `idx` -/
def decorate (tname : Option Str) (pos : Option (Nat × Nat)) (er : RenderError) : RenderError :=
  let er := if er.line.isNone then
      match pos with
      | some (l, c) => { er with line := some l, col := some c }
      | none => er
    else er
  if er.name.isNone then { er with name := tname } else er

/-- an undecorated error of element i gets `mapping[i]` and the template's name -/
theorem decorate_fresh (tn : Option Str) (l c : Nat) (r : RReason) :
    decorate tn (some (l, c)) (.of r) = { reason := r, name := tn, line := some l, col := some c } := by
  simp [decorate, RenderError.of]

/-- an already decorated error passes unchanged: line/column come from the innermost template,
    the name from the nearest named one -/
theorem decorate_keeps_inner (tn : Option Str) (pos : Option (Nat × Nat)) (er : RenderError)
    (hl : er.line.isSome) (hn : er.name.isSome) : decorate tn pos er = er := by
  cases hline : er.line <;> cases hname : er.name <;> simp_all [decorate]

/-- position already set by an unnamed inner template (else-chain link, block body of an unnamed
    template): only the name is filled in, by the nearest named template -/
theorem decorate_fills_name_only (tn : Option Str) (pos : Option (Nat × Nat)) (er : RenderError) (l : Nat)
    (hl : er.line = some l) (hn : er.name = none) :
    decorate tn pos er = { er with name := tn } := by
  simp [decorate, hl, hn]

/-- the element loop: a failing element i is reported with mapping[i]; elements before it ran -/
theorem failing_head_is_decorated (reg : Registry) (root : Json) (fuel : Nat) (tn : Option Str)
    (e : Elem) (es : List Elem) (m : List (Nat × Nat)) (rc : RC) (out o : Out) (er : RenderError)
    (h : renderElem reg root fuel e rc out = .err er o) :
    renderElems reg root (fuel + 1) tn (e :: es) m rc out = .err (decorate tn m.head? er) o := by
  simp only [renderElems, RM.bind_def, RM.bnd_apply, RM.mapErr, h]
  rfl

theorem later_element_uses_later_mapping (reg : Registry) (root : Json) (fuel : Nat) (tn : Option Str)
    (e : Elem) (es : List Elem) (m : List (Nat × Nat)) (rc rc1 : RC) (out out1 : Out)
    (h : renderElem reg root fuel e rc out = .ok () rc1 out1) :
    renderElems reg root (fuel + 1) tn (e :: es) m rc out = renderElems reg root fuel tn es (m.drop 1) rc1 out1 := by
  simp only [renderElems, RM.bind_def, RM.bnd_apply, RM.mapErr, h]

/-- line/column of a pair start: `pest::Position::line_col`.  Lines are 1-based and never exceed
    1 + the number of line feeds before the position; the column is 1-based. -/
theorem lineColAux_bounds (s : Str) (l c : Nat) (hl : 1 ≤ l) (hc : 1 ≤ c) :
    1 ≤ (lineColAux s l c).1 ∧ 1 ≤ (lineColAux s l c).2 ∧
    (lineColAux s l c).1 ≤ l + (s.filter (· == '\n')).length := by
  fun_induction lineColAux s l c with
  | case1 l c => simp; omega
  | case2 t l c ih =>
    have := ih (by omega) (by omega)
    simp at this ⊢
    omega
  | case3 t l c ih =>
    have := ih (by omega) (by omega)
    simp at this ⊢
    omega
  | case4 ch t l c h1 h2 ih =>
    have := ih hl (by omega)
    refine ⟨this.1, this.2.1, ?_⟩
    have h3 := this.2.2
    have hch : (ch == '\n') = false := by
      apply beq_eq_false_iff_ne.mpr; intro e; exact h2 e
    simp only [List.filter, hch]; exact h3

theorem lineCol_in_source (src : Str) (pos : Nat) :
    1 ≤ (lineCol src pos).1 ∧ 1 ≤ (lineCol src pos).2 ∧
    (lineCol src pos).1 ≤ 1 + (src.filter (· == '\n')).length := by
  have h := lineColAux_bounds (src.take pos) 1 1 (by omega) (by omega)
  refine ⟨h.1, h.2.1, ?_⟩
  have h2 : ((src.take pos).filter (· == '\n')).length ≤ (src.filter (· == '\n')).length := by
    have : (src.take pos).Sublist src := List.take_sublist pos src
    exact (this.filter _).length_le
  unfold lineCol
  omega

/-- a grammar error is reported with the template name given at registration (its position is
    pest's; see C04) -/
theorem syntax_error_has_name (src : Str) (opts : TemplateOptions)
    (h : Pest.parse Grammar.rules Grammar.ws .r_handlebars src = .fail) :
    compile2 src opts = .err { reason := .invalidSyntax, name := some opts.nameOrDefault } := by
  unfold compile2 compile2Inner
  rw [h]
  rfl

end Hbs.C18

/-! ### every error that leaves a template carries a position and – for a named template – a name -/
namespace Hbs.C18
open Hbs RM

theorem decorateRender_line (tn : Option Str) (l c : Nat) (rest : List (Nat × Nat)) (er : RenderError) :
    (decorateRender tn ((l, c) :: rest) er).line.isSome := by
  unfold decorateRender
  cases hl : er.line <;> cases hn : er.name <;> simp [hl, hn]

theorem decorateRender_name (tn : Option Str) (m : List (Nat × Nat)) (er : RenderError) (h : tn.isSome) :
    (decorateRender tn m er).name.isSome := by
  unfold decorateRender
  cases tn with
  | none => simp at h
  | some t =>
    simp only []
    repeat' split
    all_goals first
      | (simp_all; done)
      | (rename_i hne; cases hname : er.name <;> simp_all)

/-- the element loop of a template whose mapping covers its elements (what `compile2` builds: one
    entry per element): ANY error it returns – whichever element failed, at whatever depth the failure
    arose – has a line, and the template's name if it has one (inner templates may already have set
    theirs: `decorate_keeps_inner`). -/
theorem elems_error_positioned (reg : Registry) (root : Json) (tn : Option Str) :
    ∀ (fuel : Nat) (es : List Elem) (m : List (Nat × Nat)) (rc : RC) (out o : Out) (er : RenderError),
      es.length ≤ m.length → renderElems reg root fuel tn es m rc out = .err er o →
      er.line.isSome ∧ (tn.isSome → er.name.isSome) := by
  intro fuel
  induction fuel with
  | zero => intro es m rc out o er _ h; simp [renderElems] at h
  | succ fuel ih =>
    intro es m rc out o er hlen h
    cases es with
    | nil => simp [renderElems] at h
    | cons e es =>
      cases m with
      | nil => simp at hlen
      | cons p rest =>
        obtain ⟨l, c⟩ := p
        simp only [renderElems, RM.bind_def, RM.bnd_apply, RM.mapErr] at h
        cases hr : renderElem reg root fuel e rc out with
        | ok a rc1 o1 =>
          simp only [hr] at h
          exact ih es rest rc1 o1 o er (by simpa using hlen) (by simpa using h)
        | err e1 o1 =>
          simp only [hr] at h
          simp only [RRes.err.injEq] at h
          obtain ⟨rfl, _⟩ := h
          exact ⟨decorateRender_line tn l c rest e1, decorateRender_name tn _ e1⟩
        | panic s => simp [hr] at h
        | fuel => simp [hr] at h

/-- … hence every error of `Template::render` on a template with an aligned mapping is positioned -/
theorem template_error_positioned (reg : Registry) (root : Json) (fuel : Nat) (name : Option Str)
    (es : List Elem) (m : List (Nat × Nat)) (rc : RC) (out o : Out) (er : RenderError)
    (hlen : es.length ≤ m.length)
    (h : renderTemplate reg root fuel (.mk name es m) rc out = .err er o) :
    er.line.isSome ∧ (name.isSome → er.name.isSome) := by
  cases fuel with
  | zero => simp [renderTemplate] at h
  | succ fuel =>
    simp only [renderTemplate, RM.bind_def, RM.bnd_apply, RM.get_apply, RM.modify_apply, RM.modifyAux_apply, Tmpl.name, Tmpl.elements, Tmpl.mapping] at h
    cases hr : renderElems reg root fuel name es m { rc with currentTemplate := name } out with
    | ok a rc1 o1 =>
      rw [hr] at h
      cases hn : name.isNone <;> simp [hn] at h
    | err e1 o1 =>
      rw [hr] at h
      simp only [RRes.err.injEq] at h
      obtain ⟨rfl, _⟩ := h
      exact elems_error_positioned reg root name fuel es m _ out o1 e1 hlen hr
    | panic s => rw [hr] at h; simp at h
    | fuel => rw [hr] at h; simp at h

/-! ### the position of a failing tag, from the source text -/

/-- **a missing variable in strict mode points at its tag**: for EVERY text `L` that may stand before a tag and EVERY
    text `R` without `{{`, the template `L ++ {{v}} ++ R` registered under `name` and rendered in strict mode on data
    without a field `v` fails with MissingVariable("v"), the error names the template and carries the line and column
    of the tag's `{{` in the source (pest's line/column of offset |L|), and exactly `L` was written before it.  From
    the source string through the regenerated grammar, compile2's position table and the renderer. -/
theorem missing_variable_points_at_the_tag (r : Registry) (fs : FS) (name L R : Str) (data : Json)
    (hdev : r.dev = false) (hstrict : r.strict = true)
    (hL : L = [] ∨ PlainText.TextBeforeTag L) (hR : PlainText.noOpen R)
    (hnohelper : assocGet r.helpers ['v'] = none)
    (hsafe : Spec.indexSafe data [['v']] = true) (hmiss : Spec.descend data [['v']] = none) :
    ∃ r', r.registerTemplateString name (L ++ C02.valueTag ++ R) = .ok r' ∧
      r'.render fs name data = .err
        { reason := .missingVariable (some ['v']), name := some name,
          line := some (Pest.lineCol (L ++ C02.valueTag ++ R) L.length).1, col := some (Pest.lineCol (L ++ C02.valueTag ++ R) L.length).2 } L := by
  obtain ⟨extra, hcomp⟩ := PlainText.compile_text_value_text_pos L _ _ { name := some name, isPartial := false, preventIndent := r.preventIndent }
    hL (PlainText.textAfterTag_split R hR)
  rw [← PlainText.split_ws R] at hcomp
  unfold Registry.registerTemplateString
  rw [show C02.valueTag = PlainText.valSrc from rfl, hcomp]
  refine ⟨_, rfl, ?_⟩
  generalize hT : Tmpl.mk (some name) ((PlainText.leftT L L).elements ++ [Elem.expr PlainText.valHT] ++ if R = [] then [] else [Elem.raw R])
    ((PlainText.leftT L L).mapping ++ [Pest.lineCol (L ++ PlainText.valSrc ++ R) L.length] ++ extra) = T
  have hload : (r.registerTemplate name T).getOrLoad fs name = .ok T := by
    simp [Registry.getOrLoad, Registry.getOrLoadOptional, Registry.registerTemplate, hdev, assocInsert, assocGet_insert_same]
  have hdev' : (r.registerTemplate name T).dev = false := by simp [Registry.registerTemplate, hdev]
  have hs' : (r.registerTemplate name T).strict = true := by simp [Registry.registerTemplate, hstrict]
  have hh' : assocGet (r.registerTemplate name T).helpers ['v'] = none := by simp [Registry.registerTemplate, hnohelper]
  generalize r.registerTemplate name T = reg at *
  simp only [Registry.render, Registry.renderToOutput, hload, Registry.renderResolved, hdev', Bool.not_false, ↓reduceIte]
  subst hT
  -- the render: (the text,) then the failing expression
  have hreg : ∀ (reg : Registry), reg.strict = true → assocGet reg.helpers ['v'] = none →
      ∀ (rc : RC) (out : Out) (fuel : Nat), rc.blocks = [{}] → rc.modifiedCtx = none → assocGet rc.localHelpers ['v'] = none →
      renderElem reg data (fuel + 4) (.expr PlainText.valHT) rc out = .err (strictError (some ['v'])) out := by
    intro reg hs hh rc out fuel hb hmc hl
    have hev : evaluate2 data (.relative [.named ['v']] ['v']) rc out = .ok .missing rc out := by
      have := C01.navigate_current_path_scope data {} [] ['v'] [] rc out (by simp [getInBlockParams, assocGet]) rfl (by simpa using hsafe)
      simp only [C01.names, List.map_cons, List.map_nil] at this
      simp only [evaluate2, RM.bind_def, RM.bnd_apply, RM.get_apply, hb, this, C01.blockValue, Spec.descend]
      simp only [Option.bind]
      have hj' : (Spec.step data ['v']).bind (fun v' => Spec.descend v' []) = none := by simpa [Spec.descend] using hmiss
      simp [Spec.descend] at hj' ⊢
      rw [hj']
    have := C10.strict_missing_is_error reg data (fuel + 0) PlainText.valHT (.relative [.named ['v']] ['v']) rc out rfl rfl hl hh hmc hs hev
    simp only [renderElem]
    exact this
  generalize hlc : Pest.lineCol (L ++ PlainText.valSrc ++ R) L.length = lc
  generalize (if R = [] then [] else [Elem.raw R]) = tail
  have hf : renderFuel = (3993 + 4) + 1 + 1 + 1 := by decide
  unfold runRM
  by_cases hLe : L = []
  · subst hLe
    have herr := hreg reg hs' hh' { ({ rootTemplate := some name } : RC) with currentTemplate := some name } {} (3993 + 1) rfl rfl rfl
    rw [hf]
    simp only [PlainText.leftT, ↓reduceIte, Tmpl.empty, Tmpl.elements, Tmpl.mapping, Tmpl.name, List.nil_append, List.cons_append,
      renderTemplate, renderElems, RM.bind_def, RM.bnd_apply, RM.get_apply, RM.modifyAux_apply, RM.mapErr, herr]
    simp [decorateRender, strictError, RenderError.of, Out.text]
  · have hwr := indentAwareWrite_plain L { ({ rootTemplate := some name } : RC) with currentTemplate := some name } {} hLe rfl (by simp)
    have herr := hreg reg hs' hh' { rootTemplate := some name, currentTemplate := some name, contentProduced := true, trailingNewline := endsWithNewline L, indentBeforeWrite := endsWithNewline L } { segs := [L], count := 1 } 3993 rfl rfl rfl
    rw [hf]
    simp only [PlainText.leftT, hLe, ↓reduceIte, Tmpl.elements, Tmpl.mapping, Tmpl.name, List.nil_append, List.cons_append,
      renderTemplate, renderElems, renderElem, RM.bind_def, RM.bnd_apply, RM.get_apply, RM.modifyAux_apply, RM.mapErr, hwr, List.drop]
    simp only [renderElem] at herr
    simp only [herr]
    simp [decorateRender, strictError, RenderError.of, Out.text]

/-- **… for EVERY identifier**: `L ++ {{name}} ++ R` in strict mode on data without a field `name` fails with
    MissingVariable(name) at the line and column of the tag's `{{`, after exactly `L` was written – for every name of the
    grammar's `symbol_char` class (not beginning with `else`, not `this`, not a helper). -/
theorem missing_name_points_at_the_tag (r : Registry) (fs : FS) (nm name L R : Str) (data : Json)
    (hnm : PlainText.IdentName nm) (hthis : (nm == str "this") = false)
    (hdev : r.dev = false) (hstrict : r.strict = true)
    (hL : L = [] ∨ PlainText.TextBeforeTag L) (hR : PlainText.noOpen R)
    (hnohelper : assocGet r.helpers nm = none)
    (hsafe : Spec.indexSafe data [nm] = true) (hmiss : Spec.descend data [nm] = none) :
    ∃ r', r.registerTemplateString name (L ++ C02.nameTag nm ++ R) = .ok r' ∧
      r'.render fs name data = .err
        { reason := .missingVariable (some nm), name := some name,
          line := some (Pest.lineCol (L ++ C02.nameTag nm ++ R) L.length).1, col := some (Pest.lineCol (L ++ C02.nameTag nm ++ R) L.length).2 } L := by
  obtain ⟨extra, hcomp⟩ := PlainText.compile_text_name_text_pos nm L _ _ { name := some name, isPartial := false, preventIndent := r.preventIndent }
    hnm hthis hL (PlainText.textAfterTag_split R hR)
  rw [← PlainText.split_ws R] at hcomp
  unfold Registry.registerTemplateString
  rw [show C02.nameTag nm = PlainText.identSrc nm from rfl, hcomp]
  refine ⟨_, rfl, ?_⟩
  generalize hT : Tmpl.mk (some name) ((PlainText.leftT L L).elements ++ [Elem.expr (PlainText.nameHT nm)] ++ if R = [] then [] else [Elem.raw R])
    ((PlainText.leftT L L).mapping ++ [Pest.lineCol (L ++ PlainText.identSrc nm ++ R) L.length] ++ extra) = T
  have hload : (r.registerTemplate name T).getOrLoad fs name = .ok T := by
    simp [Registry.getOrLoad, Registry.getOrLoadOptional, Registry.registerTemplate, hdev, assocInsert, assocGet_insert_same]
  have hdev' : (r.registerTemplate name T).dev = false := by simp [Registry.registerTemplate, hdev]
  have hs' : (r.registerTemplate name T).strict = true := by simp [Registry.registerTemplate, hstrict]
  have hh' : assocGet (r.registerTemplate name T).helpers nm = none := by simp [Registry.registerTemplate, hnohelper]
  generalize r.registerTemplate name T = reg at *
  simp only [Registry.render, Registry.renderToOutput, hload, Registry.renderResolved, hdev', Bool.not_false, ↓reduceIte]
  subst hT
  -- the render: (the text,) then the failing expression
  have hreg : ∀ (reg : Registry), reg.strict = true → assocGet reg.helpers nm = none →
      ∀ (rc : RC) (out : Out) (fuel : Nat), rc.blocks = [{}] → rc.modifiedCtx = none → assocGet rc.localHelpers nm = none →
      renderElem reg data (fuel + 4) (.expr (PlainText.nameHT nm)) rc out = .err (strictError (some nm)) out := by
    intro reg hs hh rc out fuel hb hmc hl
    have hev : evaluate2 data (.relative [.named nm] nm) rc out = .ok .missing rc out := by
      have := C01.navigate_current_path_scope data {} [] nm [] rc out (by simp [getInBlockParams, assocGet]) rfl (by simpa using hsafe)
      simp only [C01.names, List.map_cons, List.map_nil] at this
      simp only [evaluate2, RM.bind_def, RM.bnd_apply, RM.get_apply, hb, this, C01.blockValue, Spec.descend]
      simp only [Option.bind]
      have hj' : (Spec.step data nm).bind (fun v' => Spec.descend v' []) = none := by simpa [Spec.descend] using hmiss
      simp [Spec.descend] at hj' ⊢
      rw [hj']
    have := C10.strict_missing_is_error reg data (fuel + 0) (PlainText.nameHT nm) (.relative [.named nm] nm) rc out rfl rfl hl hh hmc hs hev
    simp only [renderElem]
    exact this
  generalize hlc : Pest.lineCol (L ++ PlainText.identSrc nm ++ R) L.length = lc
  generalize (if R = [] then [] else [Elem.raw R]) = tail
  have hf : renderFuel = (3993 + 4) + 1 + 1 + 1 := by decide
  unfold runRM
  by_cases hLe : L = []
  · subst hLe
    have herr := hreg reg hs' hh' { ({ rootTemplate := some name } : RC) with currentTemplate := some name } {} (3993 + 1) rfl rfl rfl
    rw [hf]
    simp only [PlainText.leftT, ↓reduceIte, Tmpl.empty, Tmpl.elements, Tmpl.mapping, Tmpl.name, List.nil_append, List.cons_append,
      renderTemplate, renderElems, RM.bind_def, RM.bnd_apply, RM.get_apply, RM.modifyAux_apply, RM.mapErr, herr]
    simp [decorateRender, strictError, RenderError.of, Out.text]
  · have hwr := indentAwareWrite_plain L { ({ rootTemplate := some name } : RC) with currentTemplate := some name } {} hLe rfl (by simp)
    have herr := hreg reg hs' hh' { rootTemplate := some name, currentTemplate := some name, contentProduced := true, trailingNewline := endsWithNewline L, indentBeforeWrite := endsWithNewline L } { segs := [L], count := 1 } 3993 rfl rfl rfl
    rw [hf]
    simp only [PlainText.leftT, hLe, ↓reduceIte, Tmpl.elements, Tmpl.mapping, Tmpl.name, List.nil_append, List.cons_append,
      renderTemplate, renderElems, renderElem, RM.bind_def, RM.bnd_apply, RM.get_apply, RM.modifyAux_apply, RM.mapErr, hwr, List.drop]
    simp only [renderElem] at herr
    simp only [herr]
    simp [decorateRender, strictError, RenderError.of, Out.text]

/-- **… and for the unescaped spellings** `{{{name}}}` (pre = `{`, cl = `}}}`) and `{{&name}}` (pre = `&`, cl = `}}`): the
    same error at the same position – the line and column of the tag's `{{` – after exactly `L` was written. -/
theorem missing_html_name_points_at_the_tag (r : Registry) (fs : FS) (pre cl nm name L R : Str) (data : Json)
    (hform : (pre = ['{'] ∧ cl = ['}', '}', '}']) ∨ (pre = ['&'] ∧ cl = ['}', '}']))
    (hnm : PlainText.IdentName nm) (hthis : (nm == str "this") = false)
    (hdev : r.dev = false) (hstrict : r.strict = true)
    (hL : L = [] ∨ PlainText.TextBeforeTag L) (hR : PlainText.noOpen R)
    (hnohelper : assocGet r.helpers nm = none)
    (hsafe : Spec.indexSafe data [nm] = true) (hmiss : Spec.descend data [nm] = none) :
    ∃ r', r.registerTemplateString name (L ++ PlainText.hsrcG pre nm cl ++ R) = .ok r' ∧
      r'.render fs name data = .err
        { reason := .missingVariable (some nm), name := some name,
          line := some (Pest.lineCol (L ++ PlainText.hsrcG pre nm cl ++ R) L.length).1, col := some (Pest.lineCol (L ++ PlainText.hsrcG pre nm cl ++ R) L.length).2 } L := by
  have hpre : pre.length = 1 := by rcases hform with ⟨rfl, _⟩ | ⟨rfl, _⟩ <;> rfl
  have hcl : 0 < cl.length := by rcases hform with ⟨_, rfl⟩ | ⟨_, rfl⟩ <;> decide
  have hT : PlainText.TagAt (PlainText.hsrcG pre nm cl) (nm.length + 110)
      (PlainText.identToksG .r_html_expression 3 nm.length (nm.length + 3 + cl.length)) := by
    rcases hform with ⟨rfl, rfl⟩ | ⟨rfl, rfl⟩
    · simpa [PlainText.hsrcG, PlainText.htmlSrc] using PlainText.html_name_tagAt nm hnm
    · simpa [PlainText.hsrcG, PlainText.ampSrc] using PlainText.amp_name_tagAt nm hnm
  obtain ⟨extra, hcomp⟩ := PlainText.compile_text_htmlname_text_pos pre cl nm L _ _ { name := some name, isPartial := false, preventIndent := r.preventIndent }
    hpre hcl (nm.length + 110) (by omega) hT hthis hL (PlainText.textAfterTag_split R hR)
  rw [← PlainText.split_ws R] at hcomp
  unfold Registry.registerTemplateString
  rw [hcomp]
  refine ⟨_, rfl, ?_⟩
  generalize hT : Tmpl.mk (some name) ((PlainText.leftT L L).elements ++ [Elem.html (PlainText.nameHT nm)] ++ if R = [] then [] else [Elem.raw R])
    ((PlainText.leftT L L).mapping ++ [Pest.lineCol (L ++ PlainText.hsrcG pre nm cl ++ R) L.length] ++ extra) = T
  have hload : (r.registerTemplate name T).getOrLoad fs name = .ok T := by
    simp [Registry.getOrLoad, Registry.getOrLoadOptional, Registry.registerTemplate, hdev, assocInsert, assocGet_insert_same]
  have hdev' : (r.registerTemplate name T).dev = false := by simp [Registry.registerTemplate, hdev]
  have hs' : (r.registerTemplate name T).strict = true := by simp [Registry.registerTemplate, hstrict]
  have hh' : assocGet (r.registerTemplate name T).helpers nm = none := by simp [Registry.registerTemplate, hnohelper]
  generalize r.registerTemplate name T = reg at *
  simp only [Registry.render, Registry.renderToOutput, hload, Registry.renderResolved, hdev', Bool.not_false, ↓reduceIte]
  subst hT
  -- the render: (the text,) then the failing expression
  have hreg : ∀ (reg : Registry), reg.strict = true → assocGet reg.helpers nm = none →
      ∀ (rc : RC) (out : Out) (fuel : Nat), rc.blocks = [{}] → rc.modifiedCtx = none → assocGet rc.localHelpers nm = none →
      renderElem reg data (fuel + 4) (.html (PlainText.nameHT nm)) rc out = .err (strictError (some nm)) out := by
    intro reg hs hh rc out fuel hb hmc hl
    have hev : ∀ rc', rc'.blocks = rc.blocks → evaluate2 data (.relative [.named nm] nm) rc' out = .ok .missing rc' out := by
      intro rc' hbl
      have hb' : rc'.blocks = [{}] := by rw [hbl, hb]
      have := C01.navigate_current_path_scope data {} [] nm [] rc' out (by simp [getInBlockParams, assocGet]) rfl (by simpa using hsafe)
      simp only [C01.names, List.map_cons, List.map_nil] at this
      simp only [evaluate2, RM.bind_def, RM.bnd_apply, RM.get_apply, hb', this, C01.blockValue, Spec.descend]
      simp only [Option.bind]
      have hj' : (Spec.step data nm).bind (fun v' => Spec.descend v' []) = none := by simpa [Spec.descend] using hmiss
      simp [Spec.descend] at hj' ⊢
      rw [hj']
    exact C10.strict_missing_is_error_html reg data fuel (PlainText.nameHT nm) (.relative [.named nm] nm) rc out rfl rfl hl hh hmc hs hev
  generalize hlc : Pest.lineCol (L ++ PlainText.hsrcG pre nm cl ++ R) L.length = lc
  generalize (if R = [] then [] else [Elem.raw R]) = tail
  have hf : renderFuel = (3993 + 4) + 1 + 1 + 1 := by decide
  unfold runRM
  by_cases hLe : L = []
  · subst hLe
    have herr := hreg reg hs' hh' { ({ rootTemplate := some name } : RC) with currentTemplate := some name } {} (3993 + 1) rfl rfl rfl
    rw [hf]
    simp only [PlainText.leftT, ↓reduceIte, Tmpl.empty, Tmpl.elements, Tmpl.mapping, Tmpl.name, List.nil_append, List.cons_append,
      renderTemplate, renderElems, RM.bind_def, RM.bnd_apply, RM.get_apply, RM.modifyAux_apply, RM.mapErr, herr]
    simp [decorateRender, strictError, RenderError.of, Out.text]
  · have hwr := indentAwareWrite_plain L { ({ rootTemplate := some name } : RC) with currentTemplate := some name } {} hLe rfl (by simp)
    have herr := hreg reg hs' hh' { rootTemplate := some name, currentTemplate := some name, contentProduced := true, trailingNewline := endsWithNewline L, indentBeforeWrite := endsWithNewline L } { segs := [L], count := 1 } 3993 rfl rfl rfl
    rw [hf]
    simp only [PlainText.leftT, hLe, ↓reduceIte, Tmpl.elements, Tmpl.mapping, Tmpl.name, List.nil_append, List.cons_append,
      renderTemplate, renderElems, renderElem, RM.bind_def, RM.bnd_apply, RM.get_apply, RM.modifyAux_apply, RM.mapErr, hwr, List.drop]
    simp only [renderElem] at herr
    simp only [herr]
    simp [decorateRender, strictError, RenderError.of, Out.text]

/-- `{{h 1}}` -/
abbrev callTag : Str := PlainText.callSrc

/-- **an unknown helper is reported at its tag**: for every text `L` that may stand before a tag and every text `R` without
    `{{`, the template `L ++ {{h 1}} ++ R` registered under `name` and rendered – in either mode, on any data – by a registry
    with no helper `h` and no `helperMissing` hook fails with HelperNotFound("h"), the error names the template and carries the
    line and column of the tag's `{{` (pest's line/column of offset |L|), and exactly `L` was written before it. -/
theorem unknown_helper_points_at_the_tag (r : Registry) (fs : FS) (name L R : Str) (data : Json)
    (hdev : r.dev = false)
    (hL : L = [] ∨ PlainText.TextBeforeTag L) (hR : PlainText.noOpen R)
    (hnohelper : assocGet r.helpers ['h'] = none) (hnohook : assocGet r.helpers HELPER_MISSING = none) :
    ∃ r', r.registerTemplateString name (L ++ callTag ++ R) = .ok r' ∧
      r'.render fs name data = .err
        { reason := .helperNotFound ['h'], name := some name,
          line := some (Pest.lineCol (L ++ callTag ++ R) L.length).1, col := some (Pest.lineCol (L ++ callTag ++ R) L.length).2 } L := by
  obtain ⟨extra, hcomp⟩ := PlainText.compile_text_call_text_pos L _ _ { name := some name, isPartial := false, preventIndent := r.preventIndent }
    hL (PlainText.textAfterTag_split R hR)
  rw [← PlainText.split_ws R] at hcomp
  unfold Registry.registerTemplateString
  rw [show callTag = PlainText.callSrc from rfl, hcomp]
  refine ⟨_, rfl, ?_⟩
  generalize hT : Tmpl.mk (some name) ((PlainText.leftT L L).elements ++ [Elem.expr PlainText.callHT] ++ if R = [] then [] else [Elem.raw R])
    ((PlainText.leftT L L).mapping ++ [Pest.lineCol (L ++ PlainText.callSrc ++ R) L.length] ++ extra) = T
  have hload : (r.registerTemplate name T).getOrLoad fs name = .ok T := by
    simp [Registry.getOrLoad, Registry.getOrLoadOptional, Registry.registerTemplate, hdev, assocInsert, assocGet_insert_same]
  have hdev' : (r.registerTemplate name T).dev = false := by simp [Registry.registerTemplate, hdev]
  have hh' : assocGet (r.registerTemplate name T).helpers ['h'] = none := by simp [Registry.registerTemplate, hnohelper]
  have hk' : assocGet (r.registerTemplate name T).helpers HELPER_MISSING = none := by simp [Registry.registerTemplate, hnohook]
  generalize r.registerTemplate name T = reg at *
  simp only [Registry.render, Registry.renderToOutput, hload, Registry.renderResolved, hdev', Bool.not_false, ↓reduceIte]
  subst hT
  have hreg : ∀ (rc : RC) (out : Out) (fuel : Nat), assocGet rc.localHelpers ['h'] = none →
      renderElem reg data (fuel + 6) (.expr PlainText.callHT) rc out = .err (.of (.helperNotFound ['h'])) out := by
    intro rc out fuel hl
    simp [renderElem, renderExpression, renderHelper, helperFromTemplate, PlainText.callHT, HelperG.new, HelperG.isNameOnly, expandAsName,
      expandParams, expandParam, expandHash, RM.bnd_apply, hl, hh', hk']
  generalize hlc : Pest.lineCol (L ++ PlainText.callSrc ++ R) L.length = lc
  generalize (if R = [] then [] else [Elem.raw R]) = tail
  have hf : renderFuel = (3991 + 6) + 1 + 1 + 1 := by decide
  unfold runRM
  by_cases hLe : L = []
  · subst hLe
    have herr := hreg { ({ rootTemplate := some name } : RC) with currentTemplate := some name } {} (3991 + 1) rfl
    rw [hf]
    simp only [PlainText.leftT, ↓reduceIte, Tmpl.empty, Tmpl.elements, Tmpl.mapping, Tmpl.name, List.nil_append, List.cons_append,
      renderTemplate, renderElems, RM.bind_def, RM.bnd_apply, RM.get_apply, RM.modifyAux_apply, RM.mapErr, herr]
    simp [decorateRender, RenderError.of, Out.text]
  · have hwr := indentAwareWrite_plain L { ({ rootTemplate := some name } : RC) with currentTemplate := some name } {} hLe rfl (by simp)
    have herr := hreg { rootTemplate := some name, currentTemplate := some name, contentProduced := true, trailingNewline := endsWithNewline L, indentBeforeWrite := endsWithNewline L } { segs := [L], count := 1 } 3991 rfl
    rw [hf]
    simp only [PlainText.leftT, hLe, ↓reduceIte, Tmpl.elements, Tmpl.mapping, Tmpl.name, List.nil_append, List.cons_append,
      renderTemplate, renderElems, renderElem, RM.bind_def, RM.bnd_apply, RM.get_apply, RM.modifyAux_apply, RM.mapErr, hwr, List.drop]
    simp only [renderElem] at herr
    simp only [herr]
    simp [decorateRender, RenderError.of, Out.text]


/-- **… for EVERY helper name**: `L ++ {{name 1}} ++ R` with no helper `name` and no hook fails with HelperNotFound(name) at the
    line and column of the tag's `{{`, after exactly `L` was written – for every identifier (any run of the grammar's
    `symbol_char` class that does not begin with `else`). -/
theorem unknown_named_helper_points_at_the_tag (r : Registry) (fs : FS) (nm name L R : Str) (data : Json) (hnm : PlainText.IdentName nm)
    (hdev : r.dev = false)
    (hL : L = [] ∨ PlainText.TextBeforeTag L) (hR : PlainText.noOpen R)
    (hnohelper : assocGet r.helpers nm = none) (hnohook : assocGet r.helpers HELPER_MISSING = none) :
    ∃ r', r.registerTemplateString name (L ++ PlainText.callNSrc nm ++ R) = .ok r' ∧
      r'.render fs name data = .err
        { reason := .helperNotFound nm, name := some name,
          line := some (Pest.lineCol (L ++ PlainText.callNSrc nm ++ R) L.length).1, col := some (Pest.lineCol (L ++ PlainText.callNSrc nm ++ R) L.length).2 } L := by
  obtain ⟨extra, hcomp⟩ := PlainText.compile_text_callN_text_pos nm L _ _ { name := some name, isPartial := false, preventIndent := r.preventIndent }
    hnm hL (PlainText.textAfterTag_split R hR)
  rw [← PlainText.split_ws R] at hcomp
  unfold Registry.registerTemplateString
  rw [hcomp]
  refine ⟨_, rfl, ?_⟩
  generalize hT : Tmpl.mk (some name) ((PlainText.leftT L L).elements ++ [Elem.expr (PlainText.callNHT nm)] ++ if R = [] then [] else [Elem.raw R])
    ((PlainText.leftT L L).mapping ++ [Pest.lineCol (L ++ PlainText.callNSrc nm ++ R) L.length] ++ extra) = T
  have hload : (r.registerTemplate name T).getOrLoad fs name = .ok T := by
    simp [Registry.getOrLoad, Registry.getOrLoadOptional, Registry.registerTemplate, hdev, assocInsert, assocGet_insert_same]
  have hdev' : (r.registerTemplate name T).dev = false := by simp [Registry.registerTemplate, hdev]
  have hh' : assocGet (r.registerTemplate name T).helpers nm = none := by simp [Registry.registerTemplate, hnohelper]
  have hk' : assocGet (r.registerTemplate name T).helpers HELPER_MISSING = none := by simp [Registry.registerTemplate, hnohook]
  generalize r.registerTemplate name T = reg at *
  simp only [Registry.render, Registry.renderToOutput, hload, Registry.renderResolved, hdev', Bool.not_false, ↓reduceIte]
  subst hT
  have hreg : ∀ (rc : RC) (out : Out) (fuel : Nat), assocGet rc.localHelpers nm = none →
      renderElem reg data (fuel + 6) (.expr (PlainText.callNHT nm)) rc out = .err (.of (.helperNotFound nm)) out := by
    intro rc out fuel hl
    simp [renderElem, renderExpression, renderHelper, helperFromTemplate, PlainText.callNHT, HelperG.new, HelperG.isNameOnly, expandAsName,
      expandParams, expandParam, expandHash, RM.bnd_apply, hl, hh', hk']
  generalize hlc : Pest.lineCol (L ++ PlainText.callNSrc nm ++ R) L.length = lc
  generalize (if R = [] then [] else [Elem.raw R]) = tail
  have hf : renderFuel = (3991 + 6) + 1 + 1 + 1 := by decide
  unfold runRM
  by_cases hLe : L = []
  · subst hLe
    have herr := hreg { ({ rootTemplate := some name } : RC) with currentTemplate := some name } {} (3991 + 1) rfl
    rw [hf]
    simp only [PlainText.leftT, ↓reduceIte, Tmpl.empty, Tmpl.elements, Tmpl.mapping, Tmpl.name, List.nil_append, List.cons_append,
      renderTemplate, renderElems, RM.bind_def, RM.bnd_apply, RM.get_apply, RM.modifyAux_apply, RM.mapErr, herr]
    simp [decorateRender, RenderError.of, Out.text]
  · have hwr := indentAwareWrite_plain L { ({ rootTemplate := some name } : RC) with currentTemplate := some name } {} hLe rfl (by simp)
    have herr := hreg { rootTemplate := some name, currentTemplate := some name, contentProduced := true, trailingNewline := endsWithNewline L, indentBeforeWrite := endsWithNewline L } { segs := [L], count := 1 } 3991 rfl
    rw [hf]
    simp only [PlainText.leftT, hLe, ↓reduceIte, Tmpl.elements, Tmpl.mapping, Tmpl.name, List.nil_append, List.cons_append,
      renderTemplate, renderElems, renderElem, RM.bind_def, RM.bnd_apply, RM.get_apply, RM.modifyAux_apply, RM.mapErr, hwr, List.drop]
    simp only [renderElem] at herr
    simp only [herr]
    simp [decorateRender, RenderError.of, Out.text]

end Hbs.C18
