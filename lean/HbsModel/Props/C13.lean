import HbsModel.Registry
import HbsModel.Lemmas.RM
import HbsModel.Lemmas.Assoc
/-
  C13  Helpers receive their arguments exactly as written, once.
-/
namespace Hbs.C13
open Hbs RM

/-! ### argument delivery (`Helper::try_from_template`) -/

/-- a literal argument is delivered as that constant, typed, with no path -/
theorem literal_delivered (reg : Registry) (root : Json) (fuel : Nat) (j : Json) (rc : RC) (out : Out) :
    expandParam reg root (fuel + 1) (.lit j) rc out = .ok ⟨none, .constant j⟩ rc out := by
  simp [expandParam]

/-- a path argument is resolved in the current scope and carries its spelling; absent ⇒ flagged missing -/
theorem path_delivered (reg : Registry) (root : Json) (fuel : Nat) (p : Path) (rc : RC) (out : Out) (v : SJ)
    (hmc : rc.modifiedCtx = none) (hev : evaluate2 root p rc out = .ok v rc out) :
    expandParam reg root (fuel + 1) (.path p) rc out = .ok ⟨some p.raw, v⟩ rc out := by
  simp [expandParam, RM.bnd_apply, hmc, hev]

/-- positional arguments are evaluated left to right and delivered in the same positions -/
theorem params_in_order (reg : Registry) (root : Json) (fuel : Nat) (p : Param) (ps : List Param) :
    expandParams reg root (fuel + 1) (p :: ps) =
      (do let r ← expandParam reg root fuel p
          let rs ← expandParams reg root fuel ps
          pure (r :: rs)) := by
  simp [expandParams]

theorem params_nil (reg : Registry) (root : Json) (fuel : Nat) :
    expandParams reg root (fuel + 1) [] = pure [] := by simp [expandParams]

/-- hash arguments are delivered under their keys -/
theorem hash_under_keys (reg : Registry) (root : Json) (fuel : Nat) (k : Str) (p : Param) (ps : List (Str × Param)) :
    expandHash reg root (fuel + 1) ((k, p) :: ps) =
      (do let r ← expandParam reg root fuel p
          let rs ← expandHash reg root fuel ps
          pure ((k, r) :: rs)) := by
  simp [expandHash]

/-- duplicate hash keys in the source: the last one wins (HashMap insert at compile time) -/
theorem hash_last_duplicate_wins {α : Type} (l : List (Str × α)) (k : Str) (v1 v2 : α) :
    assocGet (hashInsert (hashInsert l k v1) k v2) k = some v2 := assocGet_insert_same _ _ _

/-- the helper receives: params first (in order), then hash, body, else body, block-parameter names
    and the block flag, unchanged from the tag -/
theorem helper_from_template (reg : Registry) (root : Json) (fuel : Nat) (ht : HelperT) :
    helperFromTemplate reg root (fuel + 1) ht =
      (do let name ← expandAsName reg root fuel ht.name
          let pv ← expandParams reg root fuel ht.params
          let hm ← expandHash reg root fuel ht.hash
          pure { name := name, params := pv, hash := hm, template := ht.template, inverse := ht.inverse,
                 blockParam := ht.blockParam, block := ht.block }) := by
  simp [helperFromTemplate]

/-- a subexpression argument is the typed result of the inner helper, evaluated BEFORE the outer
    helper is called (it is part of building the outer helper's arguments) -/
theorem subexpr_inner_first (reg : Registry) (root : Json) (fuel : Nat) (ht : HelperT) (n : Str) (d : HelperKind)
    (h : HelperI) (rc rc1 : RC) (out out1 : Out) (r : SJ)
    (hn : expandAsName reg root fuel ht.name rc out = .ok n rc out)
    (hh : helperFromTemplate reg root fuel ht rc out = .ok h rc1 out1)
    (hl : assocGet rc1.localHelpers n = none) (hr : assocGet reg.helpers n = some d)
    (hin : d.hasInner = true) (hres : callInner reg d h = .ok r) (hf : fuel = Nat.succ (fuel - 1)) :
    expandParam reg root (fuel + 1) (.sub ht) rc out = .ok ⟨none, r⟩ rc1 out1 := by
  rw [hf] at hn hh ⊢
  simp [expandParam, RM.bnd_apply, hn, hh, hl, hr, callHelperForValue, hin, hres]

/-! ### block parameters keep their order -/

theorem block_params_order (src : Str) (limit : Nat) (p1 p2 : CTok) (rest : List CTok) (h : p2.e ≤ limit) :
    parseBlockParam src limit (p1 :: p2 :: rest) = .ok (.pair (tokStr src p1) (tokStr src p2), rest) := by
  simp [parseBlockParam, h]

theorem block_param_single (src : Str) (limit : Nat) (p1 p2 : CTok) (rest : List CTok) (h : ¬ p2.e ≤ limit) :
    parseBlockParam src limit (p1 :: p2 :: rest) = .ok (.single (tokStr src p1), p2 :: rest) := by
  simp [parseBlockParam, h]

/-! ### literals: JSON text → value -/

def parsesTo (txt : Str) (v : Json) : Bool :=
  match Json.parse txt with
  | some j => Json.beq j v
  | none => false

set_option maxRecDepth 8000 in
/-- number, boolean, null, string (with escapes), array and object literals keep their type and
    value (instances evaluated by the kernel; the general statement rests on the correspondence run) -/
theorem literal_examples :
    parsesTo ['0'] (.num (.pos 0)) = true ∧
    parsesTo ['1', '8', '4', '4', '6', '7', '4', '4', '0', '7', '3', '7', '0', '9', '5', '5', '1', '6', '1', '5'] (.num (.pos 18446744073709551615)) = true ∧
    parsesTo ['-', '9', '2', '2', '3', '3', '7', '2', '0', '3', '6', '8', '5', '4', '7', '7', '5', '8', '0', '8'] (.num (.neg 9223372036854775808)) = true ∧
    parsesTo ['t', 'r', 'u', 'e'] (.bool true) = true ∧
    parsesTo ['n', 'u', 'l', 'l'] .null = true ∧
    parsesTo ['"', 'a', '\\', 'n', '\\', 'u', '0', '0', 'e', '9', '"'] (.str ['a', '\n', 'é']) = true ∧
    parsesTo ['[', '1', ',', ' ', '"', 'x', '"', ']'] (.arr (.cons (.num (.pos 1)) (.cons (.str ['x']) .nil))) = true ∧
    parsesTo ['{', '"', 'k', '"', ':', ' ', 'n', 'u', 'l', 'l', '}'] (.obj (.cons ['k'] .null .nil)) = true := by
  decide

set_option maxRecDepth 8000 in
/-- literals serde_json rejects (`1.`, `01`, a lone surrogate) are rejected – they become
    InvalidParam – never defaulted -/
theorem bad_literal_examples :
    (Json.parse ['1', '.']).isNone = true ∧ (Json.parse ['0', '1']).isNone = true ∧ (Json.parse ['"', '\\', 'u', 'd', '8', '0', '0', '"']).isNone = true := by
  decide

/-- NEGATION WITNESS (known finding F12): a tag whose NAME is a subexpression evaluates that
    subexpression twice – `expand_as_name` for the dispatch, then again inside `try_from_template`.
    The two evaluations are visible in the definition of the `.sub` arm: -/
theorem name_subexpr_evaluated_twice (reg : Registry) (root : Json) (fuel : Nat) (ht : HelperT) :
    expandParam reg root (fuel + 1) (.sub ht) =
      (do let name ← expandAsName reg root fuel ht.name            -- first evaluation of the name
          let h ← helperFromTemplate reg root fuel ht               -- evaluates `ht.name` again
          let rc ← get
          match assocGet rc.localHelpers name with
          | some d => callHelperForValue reg root fuel d h
          | none =>
            let helper := match assocGet reg.helpers name with
              | some d => some d
              | none => assocGet reg.helpers (if ht.block then BLOCK_HELPER_MISSING else HELPER_MISSING)
            match helper with
            | some d => callHelperForValue reg root fuel d h
            | none => throwR (.helperNotFound name)) := by
  simp only [expandParam]
  rfl

end Hbs.C13

/-! ### number literals: which serde_json parser the crate is built with (regenerated from Cargo.toml) -/
namespace Hbs.C13
open Hbs

/-- the crate selects serde_json's `float_roundtrip` feature: re-proved against the REGENERATED
    `Generated.serdeFloatRoundtrip` on every run (it fails if the feature is dropped from Cargo.toml) -/
theorem float_roundtrip_enabled : Generated.serdeFloatRoundtrip = true := by decide

/-- … hence a number literal (and a numeric string compared by `gt`/`lt`/…) is converted by the
    correctly rounding parser, whatever its number of digits and its exponent: the best-effort parser
    of the default serde_json build – one multiplication by a table power of ten, up to an ulp off for
    literals such as `108E-28` – is not the one in use (it was before the repair recorded in
    known_findings.json as `fixed: property=C13 e78d0f2`). -/
theorem number_text_correctly_rounded (s : Str) : Num.parsePrefix s = Num.parsePrefixExact s := by
  unfold Num.parsePrefix
  rw [float_roundtrip_enabled]
  rfl

end Hbs.C13
