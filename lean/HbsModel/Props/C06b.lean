import HbsModel.Props.C01c
import HbsModel.Lemmas.IfValue
import HbsModel.Lemmas.UnlessValue
/-
  C06 (continued)  `if` does not change the current context – at source level: a path inside `{{#if v}} … {{/if}}` means what it
  means outside the block.
-/
namespace Hbs.C06
open Hbs RM Hbs.Spec Hbs.C02

/-- the body `{{x}}` rendered in the scope the block was OPENED in (the `if` helper pushed nothing): the escaped text of that
    scope's field `x` -/
theorem render_x_body (reg : Registry) (root jx : Json) (rc0 rcS : RC) (out : Out) (lc : Nat × Nat) (fuel : Nat)
    (hb : rc0.blocks = [{}])
    (hi : rc0.indentString = none) (hct : rc0.currentTemplate = none) (hmc : rc0.modifiedCtx = none) (hde : rc0.disableEscape = false)
    (hl : assocGet rc0.localHelpers ['x'] = none) (hr : assocGet reg.helpers ['x'] = none)
    (hsafe : Spec.indexSafe root [['x']] = true) (hj : Spec.descend root [['x']] = some jx)
    (hq : Quiet rc0 rcS) (hf : out.failAt = none) :
    ∃ rc2 out2, renderTemplate reg root (fuel + 6) (PlainText.ifvBody lc) rcS out = .ok () rc2 out2
      ∧ Quiet rc0 rc2 ∧ out2.failAt = none ∧ out2.text = out.text ++ reg.escape jx.render := by
  have hqB : Quiet rc0 { rcS with currentTemplate := none } := by
    have := Quiet.setTemplate hq
    rw [hct] at this
    exact this
  have hblB : rcS.blocks = [{}] := by rw [hq.blocks, hb]
  have hev : evaluate2 root (.relative [.named ['x']] ['x']) { rcS with currentTemplate := none } out
      = .ok (.context jx [['x']]) { rcS with currentTemplate := none } out := by
    have key : ∀ (rc : RC), navigate root [.named ['x']] [{}] rc out = .ok (.context jx [['x']]) rc out := by
      intro rc
      have h := C01.navigate_current_path_scope root {} [] ['x'] [] rc out (by simp [getInBlockParams, assocGet]) rfl (by simpa using hsafe)
      simp only [C01.names, List.map_cons, List.map_nil] at h
      rw [h]
      have hj' : (C01.blockValue root {}).bind (fun v => Spec.descend v [['x']]) = some jx := by
        simp [C01.blockValue, Spec.descend] at hj ⊢; exact hj
      simp only [List.nil_append] at hj' ⊢
      rw [hj']
    simp only [evaluate2, RM.bind_def, RM.bnd_apply, RM.get_apply, hblB, key]
  have hel : renderElem reg root (fuel + 4) (.expr PlainText.xHT) { rcS with currentTemplate := none } out
      = indentAwareWrite (reg.escape jx.render) { rcS with currentTemplate := none } out :=
    expr_path_escapes_once reg root fuel PlainText.xHT (.relative [.named ['x']] ['x'])
      _ out (.context jx [['x']]) rfl rfl (by rw [hqB]; exact hl) hr (by rw [hqB]; exact hmc) (by rw [hqB]; exact hde) hev rfl
  obtain ⟨rc2, out2, hw, hq2, hf2, ht2⟩ := indentAwareWrite_quiet rc0 hi (reg.escape jx.render) _ out hqB hf
  have hmA := quiet_modifyAux rc0 rcS (fun r => { r with currentTemplate := (PlainText.ifvBody lc).name }) out hq hqB
  have hq3 : Quiet rc0 { rc2 with currentTemplate := rcS.currentTemplate } := by
    have := Quiet.setTemplate hq2
    rw [← Quiet.template hq] at this
    exact this
  have hmB := quiet_modifyAux rc0 rc2 (fun r => { r with currentTemplate := rcS.currentTemplate }) out2 hq2 hq3
  refine ⟨_, out2, ?_, hq3, hf2, ht2⟩
  rw [show fuel + 6 = (fuel + 4) + 1 + 1 by omega]
  simp only [renderTemplate, RM.bind_def, RM.bnd_apply, RM.get_apply, hmA]
  simp only [PlainText.ifvBody, Tmpl.empty, Tmpl.pushElement, Tmpl.name, Tmpl.elements, Tmpl.mapping, List.nil_append, renderElems,
    RM.bind_def, RM.bnd_apply, RM.mapErr, hel, hw, RM.pure_def, RM.ret_apply, Option.isNone_none]
  simp only [↓reduceIte]
  exact hmB

/-- `if` and `unless` at once (`positive` = which of the two the registry binds the name to): ANY block element calling the helper on
    the path `v` whose body is the one value tag `{{x}}`, without an else branch, writes the escaped text of `data.x` – the field of the
    scope the block stands in – when the condition selects the body, nothing otherwise; the render state as it was (up to the write flags) -/
theorem cond_value_block_writes (positive : Bool) (nm : Str) (reg : Registry) (root j jx : Json) (rc0 : RC) (ht : HelperT) (lc : Nat × Nat)
    (hname : ht.name = .name nm) (hparams : ht.params = [.path (Path.new ['v'] [.named ['v']])]) (hhash : ht.hash = [])
    (htpl : ht.template = some (PlainText.ifvBody lc)) (hinv : ht.inverse = none)
    (hde : rc0.disableEscape = false)
    (hlx : assocGet rc0.localHelpers ['x'] = none) (hrx : assocGet reg.helpers ['x'] = none)
    (hsafex : Spec.indexSafe root [['x']] = true) (hjx : Spec.descend root [['x']] = some jx)
    (hb : rc0.blocks = [{}]) (hi : rc0.indentString = none) (hmc : rc0.modifiedCtx = none) (hct : rc0.currentTemplate = none)
    (hl : assocGet rc0.localHelpers nm = none) (hr : assocGet reg.helpers nm = some (.ifH positive))
    (hsafe : Spec.indexSafe root [['v']] = true) (hj : Spec.descend root [['v']] = some j) :
    WritesTextK 9 reg root rc0 (.block ht)
      (if (if positive then j.truthy false else !j.truthy false) then reg.escape jx.render else []) := by
  intro fuel0 rc out hq hf
  rw [show fuel0 + 9 = (fuel0 + 3) + 6 by omega]
  generalize hfu : fuel0 + 3 = fuel
  have hblocks : rc.blocks = [{}] := by rw [hq.blocks, hb]
  have hev : evaluate2 root (.relative [.named ['v']] ['v']) rc out = .ok (.context j [['v']]) rc out := by
    have := C01.navigate_current_path_scope root {} [] ['v'] [] rc out (by simp [getInBlockParams, assocGet]) rfl (by simpa using hsafe)
    simp only [C01.names, List.map_cons, List.map_nil] at this
    simp only [evaluate2, RM.bind_def, RM.bnd_apply, RM.get_apply, hblocks, this, C01.blockValue, Spec.descend]
    simp only [Option.bind]
    have hj' : (Spec.step root ['v']).bind (fun v' => Spec.descend v' []) = some j := by simpa [Spec.descend] using hj
    simp [Spec.descend] at hj' ⊢
    rw [hj']
  have hmc' : rc.modifiedCtx = none := by rw [hq]; exact hmc
  have hl' : assocGet rc.localHelpers nm = none := by rw [hq]; exact hl
  have hpath : Path.new ['v'] [.named ['v']] = .relative [.named ['v']] ['v'] := rfl
  have hh : helperFromTemplate reg root (fuel + 4) ht rc out
      = .ok { name := nm, params := [⟨some ['v'], .context j [['v']]⟩], hash := [], template := some (PlainText.ifvBody lc),
              inverse := none, blockParam := ht.blockParam, block := ht.block } rc out := by
    simp [helperFromTemplate, hname, hparams, hhash, htpl, hinv, expandAsName, expandParams, expandParam, expandHash,
      RM.bnd_apply, hmc', hpath, hev, Path.raw]
  have hm1 := quiet_modifyAux rc0 rc (fun r => { r with contentProduced := false, indentBeforeWrite := rc.indentBeforeWrite || (ht.indentBeforeWrite && r.trailingNewline) }) out hq (hq.flags _ _ _)
  have hcall := if_renders_selected reg root (fuel + 3) positive { name := nm, params := [⟨some ['v'], .context j [['v']]⟩], hash := [], template := some (PlainText.ifvBody lc), inverse := none, blockParam := ht.blockParam, block := ht.block } ⟨some ['v'], .context j [['v']]⟩ [] rfl
  have hc4 : callHelper reg root (fuel + 4) (.ifH positive) { name := nm, params := [⟨some ['v'], .context j [['v']]⟩], hash := [], template := some (PlainText.ifvBody lc), inverse := none, blockParam := ht.blockParam, block := ht.block } = _ := hcall
  simp only [renderElem, renderHelper, RM.bind_def, RM.bnd_apply, hh, RM.get_apply, hl', hr, hm1, hc4]
  have hz : ((assocGet ([] : List (Str × PJ)) (str "includeZero")).bind fun x => x.json.asBool?).getD false = false := by simp [assocGet]
  have hjs : ({ relPath := some ['v'], value := SJ.context j [['v']] } : PJ).json = j := rfl
  simp only [hz, hjs]
  have hqA : Quiet rc0 { rc with contentProduced := false, indentBeforeWrite := rc.indentBeforeWrite || (ht.indentBeforeWrite && rc.trailingNewline) } := hq.flags _ _ _
  have finish : ∀ (rc2 : RC) (out2 : Out) (txt : Str), Quiet rc0 rc2 → out2.failAt = none → out2.text = out.text ++ txt →
      ∃ rc' out', RM.modifyAux (fun rc_1 : RC => if rc_1.contentProduced = true then { rc_1 with indentBeforeWrite := rc_1.trailingNewline } else { rc_1 with contentProduced := rc.contentProduced, indentBeforeWrite := rc.indentBeforeWrite }) rc2 out2 = .ok () rc' out'
        ∧ Quiet rc0 rc' ∧ out'.failAt = none ∧ out'.text = out.text ++ txt := by
    intro rc2 out2 txt hq2 hf2 ht2
    have hqG : Quiet rc0 ((fun rc_1 : RC => if rc_1.contentProduced = true then { rc_1 with indentBeforeWrite := rc_1.trailingNewline } else { rc_1 with contentProduced := rc.contentProduced, indentBeforeWrite := rc.indentBeforeWrite }) rc2) := by
      by_cases hcp : rc2.contentProduced = true
      · simp only [hcp, ↓reduceIte]; exact Quiet.flags hq2 _ _ _
      · simp only [hcp, ↓reduceIte]; exact Quiet.flags hq2 _ _ _
    exact ⟨_, _, quiet_modifyAux rc0 _ _ out2 hq2 hqG, hqG, hf2, ht2⟩
  by_cases ht : (if positive = true then j.truthy false else !j.truthy false) = true
  · simp only [ht, if_true]
    obtain ⟨rc2, out2, hbody, hq2, hf2, ht2⟩ := render_x_body reg root jx rc0 _ out lc fuel0
      hb hi hct hmc hde hlx hrx hsafex hjx hqA hf
    rw [← hfu, show fuel0 + 3 + 3 = fuel0 + 6 by omega, hbody]
    exact finish rc2 out2 _ hq2 hf2 ht2
  · simp only [ht, Bool.false_eq_true, if_false]
    exact finish _ out [] hqA hf (by simp)

/-- the block element `{{#if v}}{{x}}{{/if}}` compiles to -/
theorem if_value_block_writes (reg : Registry) (root j jx : Json) (rc0 : RC) (lc : Nat × Nat)
    (hde : rc0.disableEscape = false)
    (hlx : assocGet rc0.localHelpers ['x'] = none) (hrx : assocGet reg.helpers ['x'] = none)
    (hsafex : Spec.indexSafe root [['x']] = true) (hjx : Spec.descend root [['x']] = some jx)
    (hb : rc0.blocks = [{}]) (hi : rc0.indentString = none) (hmc : rc0.modifiedCtx = none) (hct : rc0.currentTemplate = none)
    (hl : assocGet rc0.localHelpers ['i', 'f'] = none) (hr : assocGet reg.helpers ['i', 'f'] = some (.ifH true))
    (hsafe : Spec.indexSafe root [['v']] = true) (hj : Spec.descend root [['v']] = some j) :
    WritesTextK 9 reg root rc0 (.block (PlainText.ifvHT (PlainText.ifvBody lc))) (if j.truthy false then reg.escape jx.render else []) := by
  have := cond_value_block_writes true ['i', 'f'] reg root j jx rc0 (PlainText.ifvHT (PlainText.ifvBody lc)) lc rfl rfl rfl rfl rfl
    hde hlx hrx hsafex hjx hb hi hmc hct hl hr hsafe hj
  simpa using this

/-- the block element `{{#unless v}}{{x}}{{/unless}}` compiles to -/
theorem unless_value_block_writes (reg : Registry) (root j jx : Json) (rc0 : RC) (lc : Nat × Nat)
    (hde : rc0.disableEscape = false)
    (hlx : assocGet rc0.localHelpers ['x'] = none) (hrx : assocGet reg.helpers ['x'] = none)
    (hsafex : Spec.indexSafe root [['x']] = true) (hjx : Spec.descend root [['x']] = some jx)
    (hb : rc0.blocks = [{}]) (hi : rc0.indentString = none) (hmc : rc0.modifiedCtx = none) (hct : rc0.currentTemplate = none)
    (hl : assocGet rc0.localHelpers ['u', 'n', 'l', 'e', 's', 's'] = none) (hr : assocGet reg.helpers ['u', 'n', 'l', 'e', 's', 's'] = some (.ifH false))
    (hsafe : Spec.indexSafe root [['v']] = true) (hj : Spec.descend root [['v']] = some j) :
    WritesTextK 9 reg root rc0 (.block (PlainText.unvHT (PlainText.unvBody lc))) (if j.truthy false then [] else reg.escape jx.render) := by
  have := cond_value_block_writes false ['u', 'n', 'l', 'e', 's', 's'] reg root j jx rc0 (PlainText.unvHT (PlainText.unvBody lc)) lc rfl rfl rfl rfl rfl
    hde hlx hrx hsafex hjx hb hi hmc hct hl hr hsafe hj
  by_cases ht : j.truthy false = true <;> simpa [ht] using this

/-- `{{#if v}}{{x}}{{/if}}` -/
abbrev ifValueSrc : Str := PlainText.ifvSrc

/-- **`if` does not change the current context** – at source level: for every text `L`, `R`, every data value and every escape
    function, `L ++ {{#if v}}{{x}}{{/if}} ++ R` renders `L ++ escape(text of data.x) ++ R` when `data.v` is truthy and `L ++ R`
    otherwise: the path `x` inside the block is the field `x` of the scope the block stands in – exactly what `{{x}}` means
    outside the block (`C02.name_between_texts_escaped_once`) –, whatever `data.v` holds.  Through the regenerated grammar (the 13
    pairs of the block by kernel evaluation), compile2 (a value tag compiled inside an open block), the `if` helper (no block
    pushed: `if_renders_selected`) and `navigate`. -/
theorem if_keeps_the_current_context (r : Registry) (fs : FS) (L R : Str) (data j jx : Json)
    (hdev : r.dev = false)
    (hL : L = [] ∨ PlainText.TextBeforeTag L) (hR : PlainText.noOpen R)
    (hif : assocGet r.helpers ['i', 'f'] = some (.ifH true))
    (hnohelper : assocGet r.helpers ['x'] = none)
    (hsafe : Spec.indexSafe data [['v']] = true) (hj : Spec.descend data [['v']] = some j)
    (hsafex : Spec.indexSafe data [['x']] = true) (hjx : Spec.descend data [['x']] = some jx) :
    r.renderTemplate fs (L ++ ifValueSrc ++ R) data = .ok (L ++ (if j.truthy false then r.escape jx.render else []) ++ R) := by
  unfold Registry.renderTemplate Registry.renderTemplateToWrite Registry.renderTemplateWithContextToWrite
    Registry.compileForRenderTemplate
  obtain ⟨m, hcomp⟩ := PlainText.compile_text_ifv_text L _ _ { preventIndent := r.preventIndent } hL (PlainText.textAfterTag_split R hR)
  rw [← PlainText.split_ws R] at hcomp
  rw [show ifValueSrc = PlainText.ifvSrc from rfl, hcomp]
  simp only [Registry.renderResolved, hdev, Bool.not_false, ↓reduceIte]
  generalize Pest.lineCol (L ++ PlainText.ifvSrc ++ R) (L.length + 9) = lc
  let txt : Str := if j.truthy false then r.escape jx.render else []
  let ets : List (Elem × Str) := (if L = [] then [] else [(.raw L, L)]) ++ [(.block (PlainText.ifvHT (PlainText.ifvBody lc)), txt)]
    ++ (if R = [] then [] else [(.raw R, R)])
  have hel : (PlainText.leftT L L).elements ++ [Elem.block (PlainText.ifvHT (PlainText.ifvBody lc))] ++ (if R = [] then [] else [Elem.raw R])
      = ets.map (·.1) := by
    simp only [ets]
    by_cases hLe : L = [] <;> by_cases hRe : R = [] <;> simp [hLe, hRe, PlainText.leftT, Tmpl.empty, Tmpl.elements]
  have htxt : (ets.map (·.2)).flatten = L ++ txt ++ R := by
    simp only [ets]
    by_cases hLe : L = [] <;> by_cases hRe : R = [] <;> simp [hLe, hRe]
  rw [hel]
  have hw : ∀ p ∈ ets, WritesTextK 9 r data { ({ rootTemplate := none } : RC) with currentTemplate := none } p.1 p.2 := by
    intro p hp
    simp only [ets, List.mem_append, List.mem_singleton] at hp
    rcases hp with (hp | rfl) | hp
    · split at hp
      · simp at hp
      · simp at hp; subst hp; exact (writes_raw r data _ rfl L).toK _ (by omega)
    · exact if_value_block_writes r data j jx _ lc rfl rfl hnohelper hsafex hjx rfl rfl rfl rfl rfl hif hsafe hj
    · split at hp
      · simp at hp
      · simp at hp; subst hp; exact (writes_raw r data _ rfl R).toK _ (by omega)
  have hlen : ets.length + 9 + 6 ≤ renderFuel := by
    have h1 : (if L = [] then [] else [((Elem.raw L, L) : Elem × Str)]).length ≤ 1 := by split <;> simp
    have h2 : (if R = [] then [] else [((Elem.raw R, R) : Elem × Str)]).length ≤ 1 := by split <;> simp
    simp only [ets, List.length_append, List.length_singleton]
    have : renderFuel = 4000 := rfl
    omega
  have := render_writes_templateK 9 r data none ets m { rootTemplate := none } hlen hw
  simp only [Tmpl.name] at this ⊢
  rw [this, htxt]

/-- `{{#unless v}}{{x}}{{/unless}}` -/
abbrev unlessValueSrc : Str := PlainText.unvSrc

/-- **`unless` does not change the current context either** – at source level: for every text `L`, `R`, every data value and every escape
    function, `L ++ {{#unless v}}{{x}}{{/unless}} ++ R` renders `L ++ escape(text of data.x) ++ R` when `data.v` is FALSY and `L ++ R`
    otherwise: the path `x` inside the block is the field `x` of the scope the block stands in – exactly what `{{x}}` means
    outside the block (`C02.name_between_texts_escaped_once`) –, whatever `data.v` holds.  Through the regenerated grammar (the 13
    pairs of the block by kernel evaluation), compile2 (a value tag compiled inside an open block), the `unless` helper (the same helper with the condition negated; no block
    pushed: `if_renders_selected`) and `navigate`. -/
theorem unless_keeps_the_current_context (r : Registry) (fs : FS) (L R : Str) (data j jx : Json)
    (hdev : r.dev = false)
    (hL : L = [] ∨ PlainText.TextBeforeTag L) (hR : PlainText.noOpen R)
    (hif : assocGet r.helpers ['u', 'n', 'l', 'e', 's', 's'] = some (.ifH false))
    (hnohelper : assocGet r.helpers ['x'] = none)
    (hsafe : Spec.indexSafe data [['v']] = true) (hj : Spec.descend data [['v']] = some j)
    (hsafex : Spec.indexSafe data [['x']] = true) (hjx : Spec.descend data [['x']] = some jx) :
    r.renderTemplate fs (L ++ unlessValueSrc ++ R) data = .ok (L ++ (if j.truthy false then [] else r.escape jx.render) ++ R) := by
  unfold Registry.renderTemplate Registry.renderTemplateToWrite Registry.renderTemplateWithContextToWrite
    Registry.compileForRenderTemplate
  obtain ⟨m, hcomp⟩ := PlainText.compile_text_unv_text L _ _ { preventIndent := r.preventIndent } hL (PlainText.textAfterTag_split R hR)
  rw [← PlainText.split_ws R] at hcomp
  rw [show unlessValueSrc = PlainText.unvSrc from rfl, hcomp]
  simp only [Registry.renderResolved, hdev, Bool.not_false, ↓reduceIte]
  generalize Pest.lineCol (L ++ PlainText.unvSrc ++ R) (L.length + 13) = lc
  let txt : Str := if j.truthy false then [] else r.escape jx.render
  let ets : List (Elem × Str) := (if L = [] then [] else [(.raw L, L)]) ++ [(.block (PlainText.unvHT (PlainText.unvBody lc)), txt)]
    ++ (if R = [] then [] else [(.raw R, R)])
  have hel : (PlainText.leftT L L).elements ++ [Elem.block (PlainText.unvHT (PlainText.unvBody lc))] ++ (if R = [] then [] else [Elem.raw R])
      = ets.map (·.1) := by
    simp only [ets]
    by_cases hLe : L = [] <;> by_cases hRe : R = [] <;> simp [hLe, hRe, PlainText.leftT, Tmpl.empty, Tmpl.elements]
  have htxt : (ets.map (·.2)).flatten = L ++ txt ++ R := by
    simp only [ets]
    by_cases hLe : L = [] <;> by_cases hRe : R = [] <;> simp [hLe, hRe]
  rw [hel]
  have hw : ∀ p ∈ ets, WritesTextK 9 r data { ({ rootTemplate := none } : RC) with currentTemplate := none } p.1 p.2 := by
    intro p hp
    simp only [ets, List.mem_append, List.mem_singleton] at hp
    rcases hp with (hp | rfl) | hp
    · split at hp
      · simp at hp
      · simp at hp; subst hp; exact (writes_raw r data _ rfl L).toK _ (by omega)
    · exact unless_value_block_writes r data j jx _ lc rfl rfl hnohelper hsafex hjx rfl rfl rfl rfl rfl hif hsafe hj
    · split at hp
      · simp at hp
      · simp at hp; subst hp; exact (writes_raw r data _ rfl R).toK _ (by omega)
  have hlen : ets.length + 9 + 6 ≤ renderFuel := by
    have h1 : (if L = [] then [] else [((Elem.raw L, L) : Elem × Str)]).length ≤ 1 := by split <;> simp
    have h2 : (if R = [] then [] else [((Elem.raw R, R) : Elem × Str)]).length ≤ 1 := by split <;> simp
    simp only [ets, List.length_append, List.length_singleton]
    have : renderFuel = 4000 := rfl
    omega
  have := render_writes_templateK 9 r data none ets m { rootTemplate := none } hlen hw
  simp only [Tmpl.name] at this ⊢
  rw [this, htxt]

/-- the hypotheses are satisfiable: the default registry, a truthy `v`, a field `x` -/
example : assocGet Registry.new.helpers ['i', 'f'] = some (.ifH true) ∧ assocGet Registry.new.helpers ['x'] = none
    ∧ assocGet Registry.new.helpers ['u', 'n', 'l', 'e', 's', 's'] = some (.ifH false) := by
  refine ⟨rfl, rfl, rfl⟩

end Hbs.C06
