import HbsModel.Props.C13b
import HbsModel.Props.C20
/-
  C20 (continued)  A macro-defined helper at source level: `{{name 1}}` for a helper declared `|x: i64| x`.
-/
namespace Hbs.C20
open Hbs RM Hbs.PlainText

/-- the harness family's one-parameter helper of type `ty` that returns its parameter -/
def sig1 (sn : Str) (ty : TyTok) (rf : Bool) : MacroSig :=
  { name := sn, params := [(['x'], ty)], opts := [], args := false, kwargs := false, retFirst := rf }

/-- the compiled `{{name 1}}` with `name` defined by `handlebars_helper!(name: |x: i64| x)`: the argument is converted to the
    declared type, the typed result is written through the escape function -/
theorem macro_call_writes (nm sn : Str) (ty : TyTok) (reg : Registry) (root : Json) (rc0 : RC)
    (hty : asJsonValue ty (Json.num (Num.pos 1)) = some (Json.num (Num.pos 1)))
    (hh : assocGet reg.helpers nm = some (.macroH (sig1 sn ty true))) (hl : assocGet rc0.localHelpers nm = none)
    (hi : rc0.indentString = none) (hde : rc0.disableEscape = false) :
    WritesText reg root rc0 (.expr (PlainText.callNHT nm)) (reg.escape ['1']) := by
  intro fuel rc out hq hf
  have hl' : assocGet rc.localHelpers nm = none := by rw [hq]; exact hl
  have hde' : rc.disableEscape = false := by rw [hq]; exact hde
  have hnum : (Num.pos 1).toText = ['1'] := by decide
  have hconv : asJsonValueWith Generated.macroAccessors ty (Json.num (Num.pos 1)) = some (Json.num (Num.pos 1)) := by
    simpa [asJsonValue] using hty
  have hqA : Quiet rc0 { rc with contentProduced := false } := hq.flags _ _ _
  have e : ({ rc with contentProduced := false, disableEscape := false } : RC) = { rc with contentProduced := false } := by
    cases rc; simp_all
  have hqA' : Quiet rc0 { rc with contentProduced := false, disableEscape := false } := by rw [e]; exact hqA
  obtain ⟨rc2, out2, hw, hq2, hf2, ht2⟩ := indentAwareWrite_quiet rc0 hi (reg.escape ['1']) { rc with contentProduced := false, disableEscape := false } out hqA' hf
  have hqG : Quiet rc0 ((fun r : RC => if r.contentProduced = true then { r with indentBeforeWrite := r.trailingNewline }
      else { r with contentProduced := rc.contentProduced, indentBeforeWrite := rc.indentBeforeWrite }) rc2) := by
    by_cases hcp : rc2.contentProduced = true
    · simp only [hcp, ↓reduceIte]; exact Quiet.flags hq2 _ _ _
    · simp only [hcp]; exact Quiet.flags hq2 _ _ _
  refine ⟨_, out2, ?_, hqG, hf2, ht2⟩
  have hm2 := quiet_modifyAux rc0 rc2 (fun r : RC => if r.contentProduced = true then { r with indentBeforeWrite := r.trailingNewline }
      else { r with contentProduced := rc.contentProduced, indentBeforeWrite := rc.indentBeforeWrite }) out2 hq2 hqG
  simp [renderElem, renderExpression, renderHelper, helperFromTemplate, PlainText.callNHT, HelperG.new, HelperG.isNameOnly, expandAsName,
    expandParams, expandParam, expandHash, RM.bnd_apply, hl', hh, callHelper, HelperKind.hasInner, PJ.json, SJ.asJson, Json.render, hnum,
    callInner, macroCallInner, sig1, macroParams, macroOpts, asJsonValue, doEscape, hde', hw, PJ.isMissing, SJ.isMissing, hconv]
  cases hcp : rc2.contentProduced <;> simp [hcp, RM.modifyAux_apply, RM.modifyAux] <;> (try (cases rc2; simp_all))

/-- **a macro-defined helper converts its argument and writes its typed result, escaped** – at source level: for EVERY helper name,
    every text `L`, `R` and every escape function, with `name` registered for a helper defined as `handlebars_helper!(h: |x: i64| x)` (or `|x: Json| x`),
    `L ++ {{name 1}} ++ R` renders `L ++ escape("1") ++ R`: the first argument (the literal 1) is converted to the declared `i64`
    through the accessor table regenerated from the macro, handed to the body, and the typed JSON result is written through
    the registry's escape function – exactly once. -/
theorem macro_helper_converts_and_writes (r : Registry) (fs : FS) (nm sn L R : Str) (ty : TyTok) (hty : ty = .tI64 ∨ ty = .tJson) (data : Json) (hnm : PlainText.IdentName nm)
    (hdev : r.dev = false) (hL : L = [] ∨ PlainText.TextBeforeTag L) (hR : PlainText.noOpen R)
    (hh : assocGet r.helpers nm = some (.macroH (sig1 sn ty true))) :
    r.renderTemplate fs (L ++ PlainText.callNSrc nm ++ R) data = .ok (L ++ r.escape ['1'] ++ R) := by
  have hcv : asJsonValue ty (Json.num (Num.pos 1)) = some (Json.num (Num.pos 1)) := by
    rcases hty with rfl | rfl
    · rw [conv_i64]; simp
    · exact conv_json _
  unfold Registry.renderTemplate Registry.renderTemplateToWrite Registry.renderTemplateWithContextToWrite
    Registry.compileForRenderTemplate
  obtain ⟨extra, hcomp⟩ := PlainText.compile_text_callN_text_pos nm L _ _ { preventIndent := r.preventIndent } hnm hL
    (PlainText.textAfterTag_split R hR)
  rw [← PlainText.split_ws R] at hcomp
  rw [hcomp]
  simp only [Registry.renderResolved, hdev, Bool.not_false, ↓reduceIte]
  have hw : ∀ q ∈ (if L = [] then [] else [((Elem.raw L, L) : Elem × Str)]) ++ [(.expr (PlainText.callNHT nm), r.escape ['1'])]
      ++ (if R = [] then [] else [((Elem.raw R, R) : Elem × Str)]),
      WritesText r data { ({ rootTemplate := none } : RC) with currentTemplate := none } q.1 q.2 := by
    intro q hq
    simp only [List.mem_append, List.mem_cons, List.not_mem_nil, or_false] at hq
    rcases hq with (hq | rfl) | hq
    · split at hq
      · cases hq
      · simp only [List.mem_cons, List.not_mem_nil, or_false] at hq; subst hq
        exact writes_raw r data _ rfl L
    · exact macro_call_writes nm sn ty r data _ hcv hh rfl rfl rfl
    · split at hq
      · cases hq
      · simp only [List.mem_cons, List.not_mem_nil, or_false] at hq; subst hq
        exact writes_raw r data _ rfl R
  have := render_writes_template r data none _ ((PlainText.leftT L L).mapping ++ [Pest.lineCol (L ++ PlainText.callNSrc nm ++ R) L.length] ++ extra)
    { rootTemplate := none } (by simp only [List.length_append]; split <;> split <;> simp [renderFuel]) hw
  by_cases hLe : L = [] <;> by_cases hRe : R = [] <;>
    simp only [hLe, hRe, ↓reduceIte, PlainText.leftT, Tmpl.elements, Tmpl.empty, List.map_cons, List.map_nil, List.map_append, List.nil_append, List.append_nil,
      List.cons_append, Tmpl.name, Tmpl.mapping] at this ⊢ <;> (rw [this]; simp)


/-- **… and an argument of the wrong JSON type is ParamTypeMismatchForName, naming helper and parameter, at the tag**: with `name`
    registered for a helper defined as `handlebars_helper!(h: |x: str| …)`, `L ++ {{name 1}} ++ R` fails with
    ParamTypeMismatchForName(h, "x", "str") at the line and column of the tag's `{{`, after exactly `L` was written –
    never a silent default, for every helper name and every text around the tag. -/
theorem macro_helper_rejects_wrong_type_at_the_tag (r : Registry) (fs : FS) (nm name L R : Str) (data : Json) (hnm : PlainText.IdentName nm)
    (hdev : r.dev = false)
    (hL : L = [] ∨ PlainText.TextBeforeTag L) (hR : PlainText.noOpen R)
    (sn : Str) (rf : Bool) (hhelper : assocGet r.helpers nm = some (.macroH (sig1 sn .tStr rf))) :
    ∃ r', r.registerTemplateString name (L ++ PlainText.callNSrc nm ++ R) = .ok r' ∧
      r'.render fs name data = .err
        { reason := .paramTypeMismatchForName sn ['x'] TyTok.tStr.text, name := some name,
          line := some (Pest.lineCol (L ++ PlainText.callNSrc nm ++ R) L.length).1, col := some (Pest.lineCol (L ++ PlainText.callNSrc nm ++ R) L.length).2 } L := by
  obtain ⟨extra, hcomp⟩ := PlainText.compile_text_callN_text_pos nm L _ _ { name := some name, isPartial := false, preventIndent := r.preventIndent }
    hnm hL (PlainText.textAfterTag_split R hR)
  rw [← PlainText.split_ws R] at hcomp
  unfold Registry.registerTemplateString
  rw [hcomp]
  refine ⟨_, rfl, ?_⟩
  generalize hT : Tmpl.mk (some name) ((PlainText.leftT L L).elements ++ [Elem.expr (PlainText.callNHT nm)] ++ if R = [] then [] else [Elem.raw R])
    ((PlainText.leftT L L).mapping ++ [Pest.lineCol (L ++ PlainText.callNSrc nm ++ R) L.length] ++ extra) = T
  have hload : (r.registerTemplate name T).getOrLoad fs name = .ok T := by
    simp [Registry.getOrLoad, Registry.getOrLoadOptional, Registry.registerTemplate, hdev, assocInsert, assocGet_insert_same]
  have hdev' : (r.registerTemplate name T).dev = false := by simp [Registry.registerTemplate, hdev]
  have hh' : assocGet (r.registerTemplate name T).helpers nm = some (.macroH (sig1 sn .tStr rf)) := by simp [Registry.registerTemplate, hhelper]
  generalize r.registerTemplate name T = reg at *
  simp only [Registry.render, Registry.renderToOutput, hload, Registry.renderResolved, hdev', Bool.not_false, ↓reduceIte]
  subst hT
  have hconv : asJsonValue TyTok.tStr (Json.num (Num.pos 1)) = none := by
    rw [conv_str]
  have hreg : ∀ (rc : RC) (out : Out) (fuel : Nat), assocGet rc.localHelpers nm = none →
      renderElem reg data (fuel + 6) (.expr (PlainText.callNHT nm)) rc out = .err (.of (.paramTypeMismatchForName sn ['x'] TyTok.tStr.text)) out := by
    intro rc out fuel hl
    simp [renderElem, renderExpression, renderHelper, helperFromTemplate, PlainText.callNHT, HelperG.new, HelperG.isNameOnly, expandAsName,
      expandParams, expandParam, expandHash, RM.bnd_apply, hl, hh', callHelper, HelperKind.hasInner, callInner, macroCallInner, sig1, macroParams, macroOpts,
      PJ.isMissing, SJ.isMissing, PJ.json, SJ.asJson, hconv, RM.throwR, RM.modifyAux_apply]
  generalize hlc : Pest.lineCol (L ++ PlainText.callNSrc nm ++ R) L.length = lc
  generalize (if R = [] then [] else [Elem.raw R]) = tail
  have hf : renderFuel = (3991 + 6) + 1 + 1 + 1 := by decide
  unfold runRM
  by_cases hLe : L = []
  · subst hLe
    have herr := hreg { ({ rootTemplate := some name } : RC) with currentTemplate := some name } {} (3991 + 1) rfl
    rw [hf]
    simp only [PlainText.leftT, ↓reduceIte, Tmpl.empty, Tmpl.elements, Tmpl.mapping, Tmpl.name, List.nil_append, List.cons_append,
      renderTemplate, renderElems, RM.bind_def, RM.bnd_apply, RM.get_apply, RM.modifyAux_apply, RM.mapErr, herr]
    simp [decorateRender, RenderError.of, Out.text]
  · have hwr := indentAwareWrite_plain L { ({ rootTemplate := some name } : RC) with currentTemplate := some name } {} hLe rfl (by simp)
    have herr := hreg { rootTemplate := some name, currentTemplate := some name, contentProduced := true, trailingNewline := endsWithNewline L, indentBeforeWrite := endsWithNewline L } { segs := [L], count := 1 } 3991 rfl
    rw [hf]
    simp only [PlainText.leftT, hLe, ↓reduceIte, Tmpl.elements, Tmpl.mapping, Tmpl.name, List.nil_append, List.cons_append,
      renderTemplate, renderElems, renderElem, RM.bind_def, RM.bnd_apply, RM.get_apply, RM.modifyAux_apply, RM.mapErr, hwr, List.drop]
    simp only [renderElem] at herr
    simp only [herr]
    simp [decorateRender, RenderError.of, Out.text]


end Hbs.C20
