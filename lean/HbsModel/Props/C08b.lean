import HbsModel.Props.C02
/-
  C08 (continued)  Compositionality as an equation between outputs, at source level, for fragments made of text and value tags.
-/
namespace Hbs.C08
open Hbs Hbs.C02

/-- the fragment `S0 T1 S1 … Tk Sk` followed by the fragment `U0 V1 U1 … Vm Um`, as one fragment: the texts at the junction
    (`Sk` and `U0`) become one text -/
def glue : Str → List (NTag × Str) → Str → List (NTag × Str) → Str × List (NTag × Str)
  | s0, [], t0, more2 => (s0 ++ t0, more2)
  | s0, (tag, s) :: rest, t0, more2 => (s0, (tag, (glue s rest t0 more2).1) :: (glue s rest t0 more2).2)

theorem glue_src : ∀ (more1 : List (NTag × Str)) (s0 t0 : Str) (more2 : List (NTag × Str)),
    namedSrc (glue s0 more1 t0 more2).1 (glue s0 more1 t0 more2).2 = namedSrc s0 more1 ++ namedSrc t0 more2 := by
  intro more1
  induction more1 with
  | nil => intro s0 t0 more2; simp [glue, namedSrc]
  | cons q rest ih =>
    intro s0 t0 more2
    obtain ⟨tag, s⟩ := q
    have := ih s t0 more2
    simp only [namedSrc] at this ⊢
    simp only [glue, List.map_cons, List.flatten_cons, List.append_assoc]
    rw [this]
    simp only [List.append_assoc]

theorem glue_out (f : NTag → Str) : ∀ (more1 : List (NTag × Str)) (s0 t0 : Str) (more2 : List (NTag × Str)),
    (glue s0 more1 t0 more2).1 ++ ((glue s0 more1 t0 more2).2.map (fun q => f q.1 ++ q.2)).flatten
      = (s0 ++ (more1.map (fun q => f q.1 ++ q.2)).flatten) ++ (t0 ++ (more2.map (fun q => f q.1 ++ q.2)).flatten) := by
  intro more1
  induction more1 with
  | nil => intro s0 t0 more2; simp [glue]
  | cons q rest ih =>
    intro s0 t0 more2
    obtain ⟨tag, s⟩ := q
    have := ih s t0 more2
    simp only [glue, List.map_cons, List.flatten_cons, List.append_assoc] at this ⊢
    rw [this]

theorem glue_length : ∀ (more1 : List (NTag × Str)) (s0 t0 : Str) (more2 : List (NTag × Str)),
    (glue s0 more1 t0 more2).2.length = more1.length + more2.length := by
  intro more1
  induction more1 with
  | nil => intro s0 t0 more2; simp [glue]
  | cons q rest ih => intro s0 t0 more2; obtain ⟨tag, s⟩ := q; simp [glue, ih]; omega

theorem glue_mem : ∀ (more1 : List (NTag × Str)) (s0 t0 : Str) (more2 : List (NTag × Str)) (q : NTag × Str),
    q ∈ (glue s0 more1 t0 more2).2 → (∃ q' ∈ more1, q'.1 = q.1) ∨ (∃ q' ∈ more2, q'.1 = q.1) := by
  intro more1
  induction more1 with
  | nil => intro s0 t0 more2 q h; exact Or.inr ⟨q, by simpa [glue] using h, rfl⟩
  | cons p rest ih =>
    intro s0 t0 more2 q h
    obtain ⟨tag, s⟩ := p
    simp only [glue, List.mem_cons] at h
    rcases h with rfl | h
    · exact Or.inl ⟨(tag, s), by simp, rfl⟩
    · rcases ih s t0 more2 q h with ⟨q', hq', e⟩ | r
      · exact Or.inl ⟨q', by simp [hq'], e⟩
      · exact Or.inr r

/-- **A|B renders as out(A)|out(B)** – at source level, for fragments of text and value tags: for ANY two sources `A`, `B`, each
    a sequence of texts and `{{name}}` / `{{{name}}}` / `{{&name}}` tags of any identifiers, such that the text at the junction
    is still an admissible text, the concatenated source renders to the concatenation of what the two render on their own –
    whatever the data, the names and the escape function.  Nothing a finished tag did (the escaping switch of `{{{ }}}`,
    the write flags) reaches the tags after it. -/
theorem value_fragments_compose (r : Registry) (fs : FS) (s0 t0 : Str) (more1 more2 : List (NTag × Str)) (data : Json) (val : Str → Json)
    (hdev : r.dev = false)
    (hn1 : ∀ q ∈ more1, NameOk r data val q.1.nm) (hn2 : ∀ q ∈ more2, NameOk r data val q.1.nm)
    (hok1 : PlainText.TextsOk s0 (PlainText.ptags (nctags more1))) (hok2 : PlainText.TextsOk t0 (PlainText.ptags (nctags more2)))
    (hok : PlainText.TextsOk (glue s0 more1 t0 more2).1 (PlainText.ptags (nctags (glue s0 more1 t0 more2).2)))
    (hmany : 2 * (more1.length + more2.length) + 14 ≤ renderFuel) :
    ∃ a b, r.renderTemplate fs (namedSrc s0 more1) data = .ok a ∧ r.renderTemplate fs (namedSrc t0 more2) data = .ok b ∧
      r.renderTemplate fs (namedSrc s0 more1 ++ namedSrc t0 more2) data = .ok (a ++ b) := by
  have h1 := texts_and_named_tags_render r fs s0 more1 data val hdev hn1 hok1 (by omega)
  have h2 := texts_and_named_tags_render r fs t0 more2 data val hdev hn2 hok2 (by omega)
  have hn : ∀ q ∈ (glue s0 more1 t0 more2).2, NameOk r data val q.1.nm := by
    intro q hq
    rcases glue_mem more1 s0 t0 more2 q hq with ⟨q', hq', e⟩ | ⟨q', hq', e⟩
    · rw [← e]; exact hn1 q' hq'
    · rw [← e]; exact hn2 q' hq'
  have h := texts_and_named_tags_render r fs _ _ data val hdev hn hok (by rw [glue_length]; omega)
  rw [glue_src] at h
  refine ⟨_, _, h1, h2, ?_⟩
  rw [h, glue_out (fun t => t.output r.escape (val t.nm))]

end Hbs.C08
