import HbsModel.Props.C09b
/-
  C12 (continued)  The indentation of a standalone partial applies to what the partial WRITES: a partial whose text is the value tag
  `{{x}}`, on data whose `x` is any text.
-/
namespace Hbs.C12
open Hbs RM Hbs.Spec

/-- the compiled `{{x}}` registered as the partial `nm`, rendered under an indentation at the start of a line, in the scope
    `expand_partial` sets up: the escaped text of the context's field `x`, indented line by line -/
theorem render_value_partial_indented (nm x : Str) (reg : Registry) (ctx j : Json) (root : Json) (f : Nat) (mp : List (Nat × Nat)) (w : Str) (rcE : RC) (out : Out)
    (hV : reg.escape j.render ≠ [])
    (hb : rcE.blocks = [{ baseValue := some ctx }]) (hi : rcE.indentString = some w) (hbw : rcE.indentBeforeWrite = true) (hmc : rcE.modifiedCtx = none)
    (hde : rcE.disableEscape = false) (hl : assocGet rcE.localHelpers x = none) (hr : assocGet reg.helpers x = none)
    (hsafe : Spec.indexSafe ctx [x] = true) (hj : Spec.descend ctx [x] = some j) (hf : out.failAt = none) :
    ∃ out', renderTemplate reg root (f + 6) (.mk (some nm) [.expr (PlainText.nameHT x)] mp) rcE out
        = .ok () { rcE with currentTemplate := some nm, contentProduced := true, trailingNewline := endsWithNewline (reg.escape j.render),
                            indentBeforeWrite := endsWithNewline (reg.escape j.render) } out'
      ∧ out'.failAt = none
      ∧ out'.text = out.text ++ (if startsWithNewline (reg.escape j.render) then [] else w) ++ Spec.withIndent w (reg.escape j.render) := by
  let rcB : RC := { rcE with currentTemplate := some nm }
  have hev : evaluate2 root (.relative [.named x] x) rcB out = .ok (.derived j) rcB out := by
    have := C01.navigate_current_value_scope root { baseValue := some ctx } [] x [] rcB out ctx (by simp [getInBlockParams, assocGet]) rfl (by simpa using hsafe)
    simp only [C01.names, List.map_cons, List.map_nil] at this
    have hbB : rcB.blocks = [{ baseValue := some ctx }] := hb
    simp only [evaluate2, RM.bind_def, RM.bnd_apply, RM.get_apply, hbB, this, C01.blockValue]
    simp only [Option.bind]
    rw [hj]
  have hel : renderElem reg root (f + 4) (.expr (PlainText.nameHT x)) rcB out = indentAwareWrite (reg.escape j.render) rcB out :=
    C02.expr_path_escapes_once reg root f (PlainText.nameHT x) (.relative [.named x] x) rcB out (.derived j) rfl rfl hl hr hmc hde hev rfl
  obtain ⟨out', hw, hf', ht⟩ := indentAwareWrite_indented (reg.escape j.render) w rcB out hV hi hbw hf
  have hmA := modifyAux_eq (fun rc => { rc with currentTemplate := some nm }) rcE out rcB rfl
  refine ⟨out', ?_, hf', ht⟩
  rw [show f + 6 = (f + 4) + 1 + 1 by omega]
  simp only [renderTemplate, renderElems, RM.bind_def, RM.bnd_apply, RM.get_apply, Tmpl.name, Tmpl.elements, Tmpl.mapping,
    RM.mapErr, hmA, hel, hw, RM.pure_def, RM.ret_apply, Option.isNone_some, Bool.false_eq_true, ↓reduceIte]
  rfl

/-- `expand_partial` for a standalone `{{> name}}` with indentation `w`, `name` registered as the compiled `{{x}}` -/
theorem expandPartial_value_indented (nm x : Str) (hnpb : (nm == PARTIAL_BLOCK) = false) (reg : Registry) (root j : Json) (f : Nat) (mp : List (Nat × Nat)) (w : Str) (rc1 : RC) (out : Out)
    (hV : reg.escape j.render ≠ [])
    (hreg : assocGet reg.templates nm = some (.mk (some nm) [.expr (PlainText.nameHT x)] mp))
    (hb : rc1.blocks = [{}]) (hpa : rc1.partials = []) (hdv : rc1.devTemplates = none) (hct : rc1.currentTemplate ≠ some nm)
    (hib : rc1.indentBeforeWrite = true) (hmc : rc1.modifiedCtx = none) (hde : rc1.disableEscape = false)
    (hl : assocGet rc1.localHelpers x = none) (hr : assocGet reg.helpers x = none)
    (hsafe : Spec.indexSafe root [x] = true) (hj : Spec.descend root [x] = some j) (hf : out.failAt = none) :
    ∃ out', expandPartial reg root (f + 7) ⟨nm, [], [], none, some w⟩ rc1 out
        = .ok () { rc1 with contentProduced := true, trailingNewline := endsWithNewline (reg.escape j.render), indentBeforeWrite := endsWithNewline (reg.escape j.render) } out'
      ∧ out'.failAt = none
      ∧ out'.text = out.text ++ (if startsWithNewline (reg.escape j.render) then [] else w) ++ Spec.withIndent w (reg.escape j.render) := by
  obtain ⟨out', hr2, hf', ht⟩ := render_value_partial_indented nm x reg root j root f mp w
    { rc1 with blocks := [{ baseValue := some root }], indentString := some w, partials := [], devTemplates := none } out hV rfl rfl hib hmc hde hl hr hsafe hj hf
  refine ⟨out', ?_, hf', ht⟩
  have hev := evaluate_this_top root rc1 out hb
  have hne : (rc1.currentTemplate == some nm) = false := by simpa using hct
  rw [show f + 7 = (f + 6) + 1 by omega]
  simp only [expandPartial, RM.bind_def, RM.bnd_apply, RM.pure_def, RM.ret_apply, RM.get_apply, hne, Bool.false_eq_true, ↓reduceIte, hnpb,
    hpa, hdv, assocGet, Option.bind, hreg, List.getElem?_nil, hev, SJ.asJson, mergeJson, List.map_nil, List.isEmpty_nil,
    RM.partialScope, RM.bracket_apply]
  rw [hr2]
  simp [hb, hpa, hdv]

/-- the compiled standalone `{{> name}}` with indentation `w`, `name` registered as the compiled `{{x}}`: the escaped text of the
    current context's `x` with `w` in front of every line -/
theorem partial_value_writes_indented (nm x : Str) (hnpb : (nm == PARTIAL_BLOCK) = false) (reg : Registry) (root j : Json) (rc0 : RC) (mp : List (Nat × Nat)) (w : Str)
    (hV : reg.escape j.render ≠ [])
    (hreg : assocGet reg.templates nm = some (.mk (some nm) [.expr (PlainText.nameHT x)] mp))
    (hb : rc0.blocks = [{}]) (hi : rc0.indentString = none) (hmc : rc0.modifiedCtx = none) (hde : rc0.disableEscape = false)
    (hpa : rc0.partials = []) (hdv : rc0.devTemplates = none) (hct : rc0.currentTemplate ≠ some nm)
    (hl : assocGet rc0.localHelpers x = none) (hr : assocGet reg.helpers x = none)
    (hsafe : Spec.indexSafe root [x] = true) (hj : Spec.descend root [x] = some j) :
    WritesTextK 9 reg root rc0 (.partialExpr (PlainText.pnameD nm (some w) true))
      ((if startsWithNewline (reg.escape j.render) then [] else w) ++ Spec.withIndent w (reg.escape j.render)) := by
  intro fuel rc out hq hf
  have hrb : rc.blocks = [{}] := by rw [hq.blocks, hb]
  have hri : rc.indentString = none := by rw [hq.indent, hi]
  have hrm : rc.modifiedCtx = none := by rw [hq]; exact hmc
  have hrde : rc.disableEscape = false := by rw [hq]; exact hde
  have hrp : rc.partials = [] := by rw [hq]; exact hpa
  have hrd : rc.devTemplates = none := by rw [hq]; exact hdv
  have hrc : rc.currentTemplate ≠ some nm := by rw [hq]; exact hct
  have hrl : assocGet rc.localHelpers x = none := by rw [hq]; exact hl
  have hdeco : decoFromTemplate reg root (fuel + 8) (PlainText.pnameD nm (some w) true) rc out
      = .ok ⟨nm, [], [], none, some w⟩ rc out := by
    simp [decoFromTemplate, expandAsName, expandParams, expandHash, PlainText.pnameD, DecoG.new, RM.bnd_apply, hri]
  have hm1 := modifyAux_eq (fun r : RC => { r with
      indentBeforeWrite := rc.indentBeforeWrite || ((PlainText.pnameD nm (some w) true).indentBeforeWrite && (r.trailingNewline || (PlainText.pnameD nm (some w) true).indent.isSome)),
      contentProduced := false }) rc out { rc with indentBeforeWrite := true, contentProduced := false }
    (by simp [PlainText.pnameD, DecoG.new])
  obtain ⟨out', hx, hf', ht⟩ := expandPartial_value_indented nm x hnpb reg root j (fuel + 1) mp w { rc with indentBeforeWrite := true, contentProduced := false } out hV hreg
    hrb hrp hrd hrc rfl hrm hrde hrl hr hsafe hj hf
  refine ⟨{ rc with contentProduced := true, trailingNewline := endsWithNewline (reg.escape j.render), indentBeforeWrite := endsWithNewline (reg.escape j.render) }, out', ?_,
    hq.flags _ _ _, hf', by rw [ht, List.append_assoc]⟩
  have hm2 := modifyAux_eq (fun r : RC => if r.contentProduced then { r with indentBeforeWrite := r.trailingNewline }
      else { r with contentProduced := rc.contentProduced, indentBeforeWrite := rc.indentBeforeWrite })
    { rc with contentProduced := true, trailingNewline := endsWithNewline (reg.escape j.render), indentBeforeWrite := endsWithNewline (reg.escape j.render) } out'
    { rc with contentProduced := true, trailingNewline := endsWithNewline (reg.escape j.render), indentBeforeWrite := endsWithNewline (reg.escape j.render) } (by simp)
  rw [show fuel + 9 = (fuel + 8) + 1 by omega]
  simp only [renderElem, RM.bind_def, RM.bnd_apply, hdeco, RM.get_apply]
  rw [hm1]
  simp only []
  rw [show fuel + 8 = fuel + 1 + 7 by omega, hx]
  simp only []
  exact hm2

/-- **a standalone partial's OUTPUT is indented line by line** – also when that output comes from the data: with the partial
    `name` holding what the source `{{x}}` compiles to, for every line-ending text `L0`, every non-empty indentation `W`, every
    following text, every value of `data.x` (any number of lines) and every escape function,
    `L0 ++ W ++ {{> name}} ++ (LF | CRLF) ++ R` renders `L0 ++ W·V ++ R` with `V = escape(text of data.x)` and `W·V` = `V` with `W`
    in front of its first line and after every line break but a final one. -/
theorem standalone_partial_output_is_indented (r : Registry) (fs : FS) (nm fld L0 W nl R : Str) (data j : Json) (mp : List (Nat × Nat)) (hnm : PlainText.PartialName nm)
    (hdev : r.dev = false) (hpi : r.preventIndent = false)
    (hreg : assocGet r.templates nm = some (.mk (some nm) [.expr (PlainText.nameHT fld)] mp)) (hV : r.escape j.render ≠ [])
    (hnohelper : assocGet r.helpers fld = none) (hsafe : Spec.indexSafe data [fld] = true) (hj : Spec.descend data [fld] = some j)
    (hL0 : L0 = [] ∨ L0.getLast? = some '\n') (hopen : C03.noOpen L0)
    (hW : ∀ ch ∈ W, isBlank ch = true) (hWne : W ≠ [])
    (hnl : nl = ['\n'] ∨ nl = ['\r', '\n']) (hR : C03.noOpen R) :
    r.renderTemplate fs ((L0 ++ W) ++ namedPartialTag nm ++ (nl ++ R)) data
      = .ok (L0 ++ ((if startsWithNewline (r.escape j.render) then [] else W) ++ Spec.withIndent W (r.escape j.render)) ++ R) := by
  have hnpb : (nm == PARTIAL_BLOCK) = false := by
    apply beq_eq_false_iff_ne.mpr
    intro e
    have := hnm.sym '@' (by rw [e]; decide)
    exact absurd this (by decide)
  -- the line shape
  have hL0' : L0 = [] ∨ ∃ x, L0.getLast? = some x ∧ isBlank x = false := by
    rcases hL0 with h | h
    · left; exact h
    · right; exact ⟨'\n', h, by decide⟩
  have htrimL : trimEndBlank (L0 ++ W) = L0 := C11.trimEndBlank_append L0 W hW hL0'
  obtain ⟨x, rr, hx, hxb, hxn⟩ : ∃ x rr, nl ++ R = x :: rr ∧ isBlank x = false ∧ isNewline x = true := by
    rcases hnl with rfl | rfl
    · exact ⟨'\n', R, rfl, by decide, by decide⟩
    · exact ⟨'\r', '\n' :: R, rfl, by decide, by decide⟩
  have htrimR : trimStartBlank (nl ++ R) = nl ++ R := by
    unfold trimStartBlank; rw [hx]; simp [List.dropWhile, hxb]
  have hstrip : stripFirstNewline (nl ++ R) = R := by
    rcases hnl with rfl | rfl <;> simp [stripFirstNewline]
  have htrimR' : trimStartBlank (x :: rr) = x :: rr := by rw [← hx]; exact htrimR
  have hsa : PlainText.standalone (L0 ++ W) (nl ++ R) false = true := by
    simp only [PlainText.standalone, startsWithEmptyLine, endsWithEmptyLine, htrimL, hx, htrimR', startsWithNewline, hxn,
      Bool.true_or, Bool.true_and]
    rcases hL0 with rfl | h
    · rfl
    · have : isNewline '\n' = true := by decide
      simp [endsWithNewline, h, this]
  have hftb : findTrailingBlank (L0 ++ W) = some W := by
    have hlen : W.length ≠ 0 := fun h => hWne (List.eq_nil_of_length_eq_zero h)
    simp only [findTrailingBlank, htrimL]
    have : (L0.length == (L0 ++ W).length) = false := by simp; omega
    simp [this, hWne]
  have hLne : L0 ++ W ≠ [] := by simp [hWne]
  have hLtext : L0 ++ W = [] ∨ PlainText.TextBeforeTag (L0 ++ W) := by
    right
    obtain ⟨y, hy, hyb⟩ : ∃ y, (L0 ++ W).getLast? = some y ∧ isBlank y = true := by
      cases hg : W.getLast? with
      | none => simp [List.getLast?_eq_none_iff] at hg; exact absurd hg hWne
      | some y => exact ⟨y, by simp [List.getLast?_append, hg], hW y (List.mem_of_getLast? hg)⟩
    refine ⟨PlainText.noOpen_append_blank L0 W hopen hW, ?_, ?_⟩
    · rw [hy]; intro e; cases e; simp [isBlank] at hyb
    · rw [hy]; intro e; cases e; simp [isBlank] at hyb
  have hRtext : PlainText.noOpen (nl ++ R) := by
    rcases hnl with rfl | rfl
    · exact PlainText.noOpen_cons '\n' R (by decide) hR
    · exact PlainText.noOpen_cons '\r' _ (by decide) (PlainText.noOpen_cons '\n' R (by decide) hR)
  -- compile
  unfold Registry.renderTemplate Registry.renderTemplateToWrite Registry.renderTemplateWithContextToWrite
    Registry.compileForRenderTemplate
  obtain ⟨m, hcomp⟩ := PlainText.compile_text_pname_text nm (L0 ++ W) _ _ { preventIndent := r.preventIndent } hnm hpi hLtext
    (PlainText.textAfterTag_split (nl ++ R) hRtext)
  rw [← PlainText.split_ws (nl ++ R)] at hcomp
  have hA : nl ++ R ≠ [] := by rw [hx]; simp
  simp only [hsa, ↓reduceIte, htrimL, htrimR, hstrip, hftb, hA, PlainText.leftT, hLne, Tmpl.elements] at hcomp
  rw [show namedPartialTag nm = PlainText.pnameSrc nm from rfl, hcomp]
  simp only [Registry.renderResolved, hdev, Bool.not_false, ↓reduceIte]
  -- render
  have hw : ∀ q ∈ [((Elem.raw L0, L0) : Elem × Str), (.partialExpr (PlainText.pnameD nm (some W) true), (if startsWithNewline (r.escape j.render) then [] else W) ++ Spec.withIndent W (r.escape j.render)),
      (.raw R, R)], WritesTextK 9 r data { ({ rootTemplate := none } : RC) with currentTemplate := none } q.1 q.2 := by
    intro q hq
    simp only [List.mem_cons, List.not_mem_nil, or_false] at hq
    rcases hq with rfl | rfl | rfl
    · exact (writes_raw r data _ rfl L0).toK _ (by omega)
    · exact partial_value_writes_indented nm fld hnpb r data j _ mp W hV hreg rfl rfl rfl rfl rfl rfl (by simp) rfl hnohelper hsafe hj
    · exact (writes_raw r data _ rfl R).toK _ (by omega)
  have := render_writes_templateK 9 r data none _ m { rootTemplate := none } (by simp [renderFuel]) hw
  simp only [List.map_cons, List.map_nil, Tmpl.name, List.cons_append, List.nil_append] at this ⊢
  rw [this]
  simp


end Hbs.C12
