import HbsModel.Registry
import HbsModel.Lemmas.Assoc
import HbsModel.Spec.RegistryMap
/-
  C17  The registry behaves as a name→template map; dev mode tracks files.
-/
namespace Hbs.C17
open Hbs Hbs.Spec

/-! ### one operation at a time: what `has_template` / lookup see afterwards -/

/-- a successful string registration makes exactly that name denote the new template, compiled with
    the prevent_indent setting in force, and leaves every other name alone -/
theorem register_string_ok (r r' : Registry) (name src : Str)
    (h : r.registerTemplateString name src = .ok r') :
    ∃ t, compile2 src { name := some name, isPartial := false, preventIndent := r.preventIndent } = .ok t ∧
      assocGet r'.templates name = some t ∧
      (∀ q, q ≠ name → assocGet r'.templates q = assocGet r.templates q) ∧
      r'.sources = assocRemove r.sources name ∧ r'.dev = r.dev ∧ r'.preventIndent = r.preventIndent ∧ r'.strict = r.strict := by
  unfold Registry.registerTemplateString at h
  split at h <;> try (cases h)
  rename_i t ht
  refine ⟨t, ht, ?_, ?_, rfl, rfl, rfl, rfl⟩
  · simp [Registry.registerTemplate, assocInsert, assocGet_insert_same]
  · intro q hq; simp [Registry.registerTemplate, assocInsert, assocGet_insert_other _ _ _ _ hq]

/-- a failed registration changes nothing: the result is an error, there is no new registry -/
theorem failed_registration_is_noop (r : Registry) (name src : Str) (e : TemplateError)
    (h : compile2 src { name := some name, isPartial := false, preventIndent := r.preventIndent } = .err e) :
    r.registerTemplateString name src = .err e := by
  unfold Registry.registerTemplateString
  rw [h]

theorem failed_file_registration_is_noop (r : Registry) (fs : FS) (name path : Str)
    (h : assocGet fs path = none) :
    r.registerTemplateFile fs name path = .err { reason := .ioError name } := by
  simp [Registry.registerTemplateFile, h]

/-- unregistering removes the name (and stops tracking it); other names are untouched -/
theorem unregister_removes (r : Registry) (name : Str) :
    (r.unregisterTemplate name).hasTemplate name = false ∧
    assocGet (r.unregisterTemplate name).sources name = none ∧
    ∀ q, q ≠ name → assocGet (r.unregisterTemplate name).templates q = assocGet r.templates q := by
  refine ⟨?_, ?_, ?_⟩
  · simp [Registry.unregisterTemplate, Registry.hasTemplate, assocGet_remove_same]
  · simp [Registry.unregisterTemplate, assocGet_remove_same]
  · intro q hq; simp [Registry.unregisterTemplate, assocGet_remove_other _ _ _ hq]

/-- rendering an unregistered name is TemplateNotFound -/
theorem render_unregistered (r : Registry) (fs : FS) (name : Str) (data : Json)
    (h1 : assocGet r.templates name = none) (h2 : r.dev = false) :
    r.render fs name data = .err (.of (.templateNotFound name)) [] := by
  simp [Registry.render, Registry.renderToOutput, Registry.getOrLoad, Registry.getOrLoadOptional, h1, h2]

theorem clear_removes_all (r : Registry) (name : Str) :
    r.clearTemplates.hasTemplate name = false ∧ r.clearTemplates.sources = [] := by
  simp [Registry.clearTemplates, Registry.hasTemplate, assocGet]

/-- turning dev mode off stops tracking every file -/
theorem dev_off_stops_tracking (r : Registry) : (r.setDevMode false).sources = [] ∧ (r.setDevMode false).dev = false := by
  simp [Registry.setDevMode]

/-- sources are recorded only in dev mode: with dev mode off the content at registration is used -/
theorem file_registration_tracks_iff_dev (r r' : Registry) (fs : FS) (name path : Str)
    (h : r.registerTemplateFile fs name path = .ok r') :
    (r.dev = true → assocGet r'.sources name = some path) ∧ (r.dev = false → assocGet r'.sources name = none) := by
  unfold Registry.registerTemplateFile at h
  cases hc : assocGet fs path with
  | none => rw [hc] at h; cases h
  | some content =>
    rw [hc] at h
    simp only at h
    cases h1 : r.registerTemplateString name content with
    | ok r1 =>
      rw [h1] at h
      simp only [CRes.ok.injEq] at h
      obtain ⟨t, _, _, _, hs, hd, _, _⟩ := register_string_ok r r1 name content h1
      constructor
      · intro hdev
        have hd1 : r1.dev = true := by rw [hd]; exact hdev
        rw [← h]
        simp [hd1, assocInsert, assocGet_insert_same]
      · intro hdev
        have hd1 : r1.dev = false := by rw [hd]; exact hdev
        rw [← h]
        simp [hd1, hs, assocGet_remove_same]
    | err e => rw [h1] at h; cases h
    | panic p => rw [h1] at h; cases h
    | fuel => rw [h1] at h; cases h

/-- dev mode: a tracked name renders according to the file's content AT RENDER TIME; a missing file
    is an error for that render (the registry itself is an input of `getOrLoad`, never modified) -/
theorem tracked_loads_current_file (r : Registry) (fs : FS) (name path src : Str)
    (hd : r.dev = true) (hs : assocGet r.sources name = some path) (hf : assocGet fs path = some src) :
    r.getOrLoad fs name =
      match compile2 src { name := some name, preventIndent := r.preventIndent, isPartial := false } with
      | .ok t => .ok t
      | .err e => .err (.of (.templateError e))
      | .panic s => .panic s
      | .fuel => .fuel := by
  simp only [Registry.getOrLoad, Registry.getOrLoadOptional, hd, hs, hf]
  generalize compile2 src _ = c
  cases c <;> rfl

theorem tracked_missing_file (r : Registry) (fs : FS) (name path : Str)
    (hd : r.dev = true) (hs : assocGet r.sources name = some path) (hf : assocGet fs path = none) :
    r.getOrLoad fs name = .err (.of (.templateError { reason := .ioError name })) := by
  simp [Registry.getOrLoad, Registry.getOrLoadOptional, hd, hs, hf]

/-- with dev mode off the template compiled at registration is used, whatever the file now says -/
theorem untracked_uses_registered (r : Registry) (fs : FS) (name : Str) (t : Tmpl)
    (hd : r.dev = false) (ht : assocGet r.templates name = some t) :
    r.getOrLoad fs name = .ok t := by
  simp [Registry.getOrLoad, Registry.getOrLoadOptional, hd, ht]

/-- registering a string template over a name tracked from a file STOPS tracking the file: the last
    successfully registered template wins (this failed before the repair recorded in
    known_findings.json as `fixed: property=C17`) -/
theorem string_over_tracked_stops_tracking (r r' : Registry) (name src : Str)
    (h : r.registerTemplateString name src = .ok r') : assocGet r'.sources name = none := by
  obtain ⟨_, _, _, _, hsrc, _⟩ := register_string_ok r r' name src h
  rw [hsrc]; exact assocGet_remove_same _ _

/-- a cloned registry is a value: operations on one copy cannot affect the other (the model's
    registries are immutable values; stated for `registerTemplate`) -/
theorem clone_independent (r : Registry) (name : Str) (t : Tmpl) :
    let clone := r
    let _r2 := r.registerTemplate name t
    clone = r := rfl

end Hbs.C17
