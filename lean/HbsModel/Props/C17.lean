import HbsModel.Registry
import HbsModel.Lemmas.Assoc
import HbsModel.Spec.RegistryMap
/-
  C17  The registry behaves as a name→template map; dev mode tracks files.
-/
namespace Hbs.C17
open Hbs Hbs.Spec

/-! ### one operation at a time: what `has_template` / lookup see afterwards -/

/-- a successful string registration makes exactly that name denote the new template, compiled with
    the prevent_indent setting in force, and leaves every other name alone -/
theorem register_string_ok (r r' : Registry) (name src : Str)
    (h : r.registerTemplateString name src = .ok r') :
    ∃ t, compile2 src { name := some name, isPartial := false, preventIndent := r.preventIndent } = .ok t ∧
      assocGet r'.templates name = some t ∧
      (∀ q, q ≠ name → assocGet r'.templates q = assocGet r.templates q) ∧
      r'.sources = assocRemove r.sources name ∧ r'.dev = r.dev ∧ r'.preventIndent = r.preventIndent ∧ r'.strict = r.strict := by
  unfold Registry.registerTemplateString at h
  split at h <;> try (cases h)
  rename_i t ht
  refine ⟨t, ht, ?_, ?_, rfl, rfl, rfl, rfl⟩
  · simp [Registry.registerTemplate, assocInsert, assocGet_insert_same]
  · intro q hq; simp [Registry.registerTemplate, assocInsert, assocGet_insert_other _ _ _ _ hq]

/-- a failed registration changes nothing: the result is an error, there is no new registry -/
theorem failed_registration_is_noop (r : Registry) (name src : Str) (e : TemplateError)
    (h : compile2 src { name := some name, isPartial := false, preventIndent := r.preventIndent } = .err e) :
    r.registerTemplateString name src = .err e := by
  unfold Registry.registerTemplateString
  rw [h]

theorem failed_file_registration_is_noop (r : Registry) (fs : FS) (name path : Str)
    (h : assocGet fs path = none) :
    r.registerTemplateFile fs name path = .err { reason := .ioError name } := by
  simp [Registry.registerTemplateFile, h]

/-- unregistering removes the name (and stops tracking it); other names are untouched -/
theorem unregister_removes (r : Registry) (name : Str) :
    (r.unregisterTemplate name).hasTemplate name = false ∧
    assocGet (r.unregisterTemplate name).sources name = none ∧
    ∀ q, q ≠ name → assocGet (r.unregisterTemplate name).templates q = assocGet r.templates q := by
  refine ⟨?_, ?_, ?_⟩
  · simp [Registry.unregisterTemplate, Registry.hasTemplate, assocGet_remove_same]
  · simp [Registry.unregisterTemplate, assocGet_remove_same]
  · intro q hq; simp [Registry.unregisterTemplate, assocGet_remove_other _ _ _ hq]

/-- rendering an unregistered name is TemplateNotFound -/
theorem render_unregistered (r : Registry) (fs : FS) (name : Str) (data : Json)
    (h1 : assocGet r.templates name = none) (h2 : r.dev = false) :
    r.render fs name data = .err (.of (.templateNotFound name)) [] := by
  simp [Registry.render, Registry.renderToOutput, Registry.getOrLoad, Registry.getOrLoadOptional, h1, h2]

theorem clear_removes_all (r : Registry) (name : Str) :
    r.clearTemplates.hasTemplate name = false ∧ r.clearTemplates.sources = [] := by
  simp [Registry.clearTemplates, Registry.hasTemplate, assocGet]

/-- turning dev mode off stops tracking every file -/
theorem dev_off_stops_tracking (r : Registry) : (r.setDevMode false).sources = [] ∧ (r.setDevMode false).dev = false := by
  simp [Registry.setDevMode]

/-- … and turning it on again does not resume it: after an off/on round trip no name is tracked, so every name renders
    the template compiled at its registration (`after_round_trip_registered_copy_is_used`) until it is registered from a file again -/
theorem dev_round_trip_does_not_resume_tracking (r : Registry) :
    ((r.setDevMode false).setDevMode true).sources = [] ∧ ((r.setDevMode false).setDevMode true).dev = true ∧
    ((r.setDevMode false).setDevMode true).templates = r.templates := by
  simp [Registry.setDevMode]

/-- sources are recorded only in dev mode: with dev mode off the content at registration is used -/
theorem file_registration_tracks_iff_dev (r r' : Registry) (fs : FS) (name path : Str)
    (h : r.registerTemplateFile fs name path = .ok r') :
    (r.dev = true → assocGet r'.sources name = some path) ∧ (r.dev = false → assocGet r'.sources name = none) := by
  unfold Registry.registerTemplateFile at h
  cases hc : assocGet fs path with
  | none => rw [hc] at h; cases h
  | some content =>
    rw [hc] at h
    simp only at h
    cases h1 : r.registerTemplateString name content with
    | ok r1 =>
      rw [h1] at h
      simp only [CRes.ok.injEq] at h
      obtain ⟨t, _, _, _, hs, hd, _, _⟩ := register_string_ok r r1 name content h1
      constructor
      · intro hdev
        have hd1 : r1.dev = true := by rw [hd]; exact hdev
        rw [← h]
        simp [hd1, assocInsert, assocGet_insert_same]
      · intro hdev
        have hd1 : r1.dev = false := by rw [hd]; exact hdev
        rw [← h]
        simp [hd1, hs, assocGet_remove_same]
    | err e => rw [h1] at h; cases h
    | panic p => rw [h1] at h; cases h
    | fuel => rw [h1] at h; cases h

/-- dev mode: a tracked name renders according to the file's content AT RENDER TIME; a missing file
    is an error for that render (the registry itself is an input of `getOrLoad`, never modified) -/
theorem tracked_loads_current_file (r : Registry) (fs : FS) (name path src : Str)
    (hd : r.dev = true) (hs : assocGet r.sources name = some path) (hf : assocGet fs path = some src) :
    r.getOrLoad fs name =
      match compile2 src { name := some name, preventIndent := r.preventIndent, isPartial := false } with
      | .ok t => .ok t
      | .err e => .err (.of (.templateError e))
      | .panic s => .panic s
      | .fuel => .fuel := by
  simp only [Registry.getOrLoad, Registry.getOrLoadOptional, hd, hs, hf]
  generalize compile2 src _ = c
  cases c <;> rfl

theorem tracked_missing_file (r : Registry) (fs : FS) (name path : Str)
    (hd : r.dev = true) (hs : assocGet r.sources name = some path) (hf : assocGet fs path = none) :
    r.getOrLoad fs name = .err (.of (.templateError { reason := .ioError name })) := by
  simp [Registry.getOrLoad, Registry.getOrLoadOptional, hd, hs, hf]

/-- with dev mode off the template compiled at registration is used, whatever the file now says -/
theorem untracked_uses_registered (r : Registry) (fs : FS) (name : Str) (t : Tmpl)
    (hd : r.dev = false) (ht : assocGet r.templates name = some t) :
    r.getOrLoad fs name = .ok t := by
  simp [Registry.getOrLoad, Registry.getOrLoadOptional, hd, ht]

/-- after an off/on round trip of dev mode a name that WAS tracked renders the template compiled at its registration,
    whatever its file now says or whether it still exists -/
theorem after_round_trip_registered_copy_is_used (r : Registry) (fs : FS) (name : Str) (t : Tmpl)
    (ht : assocGet r.templates name = some t) :
    ((r.setDevMode false).setDevMode true).getOrLoad fs name = .ok t := by
  simp [Registry.getOrLoad, Registry.getOrLoadOptional, Registry.setDevMode, assocGet, ht]

/-- registering a string template over a name tracked from a file STOPS tracking the file: the last
    successfully registered template wins (this failed before the repair recorded in
    known_findings.json as `fixed: property=C17`) -/
theorem string_over_tracked_stops_tracking (r r' : Registry) (name src : Str)
    (h : r.registerTemplateString name src = .ok r') : assocGet r'.sources name = none := by
  obtain ⟨_, _, _, _, hsrc, _⟩ := register_string_ok r r' name src h
  rw [hsrc]; exact assocGet_remove_same _ _

/-- a cloned registry is a value: operations on one copy cannot affect the other (the model's
    registries are immutable values; stated for `registerTemplate`) -/
theorem clone_independent (r : Registry) (name : Str) (t : Tmpl) :
    let clone := r
    let _r2 := r.registerTemplate name t
    clone = r := rfl

end Hbs.C17

/-! ### refinement: ANY history of registry operations behaves like a simple abstract map
    name ↦ registration (a function, so no representation at all), observed through `has_template` and
    through what a render loads.  The file system is an input of the operations that read it. -/
namespace Hbs.C17
open Hbs Hbs.Spec

-- `compile2` is opaque here: the refinement does not depend on what compilation does (and unfolding it makes
-- the kernel's defeq checks run the PEG interpreter symbolically)
attribute [local irreducible] compile2

/-- the operations of the registry's template state machine -/
inductive Op where
  | regString (name src : Str)
  | regFile (name path : Str)
  | regTemplate (name : Str) (t : Tmpl)
  | unregister (name : Str)
  | clear
  | setDev (v : Bool)
  | setPreventIndent (v : Bool)

/-- a rejected registration leaves the registry as it was -/
def keepOnFail (r : Registry) (x : CRes Registry) : Registry :=
  match x with
  | .ok r' => r'
  | _ => r

/-- one operation on the model of `Registry` -/
def step (r : Registry) (fs : FS) (op : Op) : Registry :=
  match op with
  | .regString n src => keepOnFail r (r.registerTemplateString n src)
  | .regFile n p => keepOnFail r (r.registerTemplateFile fs n p)
  | .regTemplate n t => r.registerTemplate n t
  | .unregister n => r.unregisterTemplate n
  | .clear => r.clearTemplates
  | .setDev v => r.setDevMode v
  | .setPreventIndent v => { r with preventIndent := v }

/-- the abstract state: what each name stands for, and the two flags -/
structure AState where
  map : Str → Option Registration
  dev : Bool
  preventIndent : Bool

def untrack : Registration → Registration
  | .tracked t _ => .compiled t
  | r => r

/-- bind `n` to the registration made from a successfully compiled template; nothing on failure -/
def bindIfOk (a : AState) (n : Str) (mk : Tmpl → Registration) (x : CRes Tmpl) : AState :=
  match x with
  | .ok t => { a with map := fun q => if q = n then some (mk t) else a.map q }
  | _ => a

/-- the abstract machine -/
def astep (a : AState) (fs : FS) (op : Op) : AState :=
  match op with
  | .regString n src =>
    bindIfOk a n .compiled (compile2 src { name := some n, isPartial := false, preventIndent := a.preventIndent })
  | .regFile n p =>
    match assocGet fs p with
    | none => a
    | some src =>
      bindIfOk a n (fun t => if a.dev then .tracked t p else .compiled t)
        (compile2 src { name := some n, isPartial := false, preventIndent := a.preventIndent })
  | .regTemplate n t => { a with map := fun q => if q = n then some (.compiled t) else a.map q }
  | .unregister n => { a with map := fun q => if q = n then none else a.map q }
  | .clear => { a with map := fun _ => none }
  | .setDev v => if v then { a with dev := true } else { a with dev := false, map := fun q => (a.map q).map untrack }
  | .setPreventIndent v => { a with preventIndent := v }

/-- what a render of `name` loads, abstractly: the compiled copy, or – for a tracked name – the file as
    it is NOW, compiled with the settings in force NOW -/
def aload (a : AState) (fs : FS) (name : Str) : LoadRes :=
  match a.map name with
  | none => .err (.of (.templateNotFound name))
  | some (.compiled t) => .ok t
  | some (.tracked _ path) =>
    match assocGet fs path with
    | none => .err (.of (.templateError { reason := .ioError name }))
    | some src =>
      match compile2 src { name := some name, preventIndent := a.preventIndent, isPartial := false } with
      | .ok t => .ok t
      | .err e => .err (.of (.templateError e))
      | .panic s => .panic s
      | .fuel => .fuel

/-- the abstraction function -/
def abs (r : Registry) : AState :=
  { map := fun n => (assocGet r.templates n).map (fun t =>
      match assocGet r.sources n with
      | some p => .tracked t p
      | none => .compiled t),
    dev := r.dev, preventIndent := r.preventIndent }

/-- the representation invariant: sources are recorded only in dev mode and only for registered names -/
structure Inv (r : Registry) : Prop where
  noDev : r.dev = false → r.sources = []
  sub : ∀ n, (assocGet r.sources n).isSome → (assocGet r.templates n).isSome

theorem inv_new : Inv Registry.new := ⟨fun _ => rfl, fun n h => by simp [Registry.new, assocGet] at h⟩

theorem AState.ext' {a b : AState} (h1 : ∀ n, a.map n = b.map n) (h2 : a.dev = b.dev) (h3 : a.preventIndent = b.preventIndent) :
    a = b := by
  cases a; cases b; simp only [AState.mk.injEq] at *; exact ⟨funext h1, h2, h3⟩

theorem abs_registerTemplate (r : Registry) (n : Str) (t : Tmpl) :
    abs (r.registerTemplate n t) = { abs r with map := fun q => if q = n then some (.compiled t) else (abs r).map q } := by
  apply AState.ext'
  · intro q
    simp only [abs, Registry.registerTemplate, assocInsert]
    by_cases hq : q = n
    · subst hq; simp [assocGet_insert_same, assocGet_remove_same]
    · simp [hq, assocGet_insert_other _ _ _ _ hq, assocGet_remove_other _ _ _ hq]
  · rfl
  · rfl

theorem inv_registerTemplate (r : Registry) (n : Str) (t : Tmpl) (h : Inv r) : Inv (r.registerTemplate n t) := by
  constructor
  · intro hd
    have := h.noDev hd
    simp [Registry.registerTemplate, this, assocRemove]
  · intro q hq
    simp only [Registry.registerTemplate, assocInsert] at hq ⊢
    by_cases hqn : q = n
    · subst hqn; simp [assocGet_insert_same]
    · rw [assocGet_remove_other _ _ _ hqn] at hq
      rw [assocGet_insert_other _ _ _ _ hqn]
      exact h.sub q hq

/-- **one step**: the concrete operation and the abstract one commute with the abstraction, and the
    invariant is kept -/
theorem step_refines (r : Registry) (fs : FS) (op : Op) (h : Inv r) :
    abs (step r fs op) = astep (abs r) fs op ∧ Inv (step r fs op) := by
  cases op with
  | regString n src =>
    show abs (keepOnFail r (r.registerTemplateString n src)) =
        bindIfOk (abs r) n .compiled (compile2 src { name := some n, isPartial := false, preventIndent := r.preventIndent }) ∧
      Inv (keepOnFail r (r.registerTemplateString n src))
    unfold Registry.registerTemplateString
    cases hc : compile2 src { name := some n, isPartial := false, preventIndent := r.preventIndent } with
    | ok t =>
      simp only [keepOnFail, bindIfOk]
      exact ⟨abs_registerTemplate r n t, inv_registerTemplate r n t h⟩
    | err e => simp only [keepOnFail, bindIfOk]; exact ⟨trivial, h⟩
    | panic s => simp only [keepOnFail, bindIfOk]; exact ⟨trivial, h⟩
    | fuel => simp only [keepOnFail, bindIfOk]; exact ⟨trivial, h⟩
  | regFile n p =>
    show abs (keepOnFail r (r.registerTemplateFile fs n p)) =
        (match assocGet fs p with
         | none => abs r
         | some src => bindIfOk (abs r) n (fun t => if r.dev then .tracked t p else .compiled t)
            (compile2 src { name := some n, isPartial := false, preventIndent := r.preventIndent })) ∧
      Inv (keepOnFail r (r.registerTemplateFile fs n p))
    unfold Registry.registerTemplateFile
    cases hf : assocGet fs p with
    | none => simp only [keepOnFail]; exact ⟨trivial, h⟩
    | some src =>
      simp only []
      unfold Registry.registerTemplateString
      cases hc : compile2 src { name := some n, isPartial := false, preventIndent := r.preventIndent } with
      | err e => simp only [keepOnFail, bindIfOk]; exact ⟨trivial, h⟩
      | panic s => simp only [keepOnFail, bindIfOk]; exact ⟨trivial, h⟩
      | fuel => simp only [keepOnFail, bindIfOk]; exact ⟨trivial, h⟩
      | ok t =>
        simp only [keepOnFail, bindIfOk]
        have hdev : (r.registerTemplate n t).dev = r.dev := rfl
        rw [hdev]
        cases hdv : r.dev with
        | false =>
          simp only [Bool.false_eq_true, ↓reduceIte]
          exact ⟨abs_registerTemplate r n t, inv_registerTemplate r n t h⟩
        | true =>
          simp only [↓reduceIte]
          constructor
          · apply AState.ext'
            · intro q
              simp only [abs, Registry.registerTemplate, assocInsert]
              by_cases hq : q = n
              · subst hq; simp [assocGet_insert_same]
              · simp [hq, assocGet_insert_other _ _ _ _ hq, assocGet_remove_other _ _ _ hq]
            · simp [abs, Registry.registerTemplate, hdv]
            · rfl
          · constructor
            · intro hd'; simp [Registry.registerTemplate, hdv] at hd'
            · intro q hq
              simp only [Registry.registerTemplate, assocInsert] at hq ⊢
              by_cases hqn : q = n
              · subst hqn; simp [assocGet_insert_same]
              · rw [assocGet_insert_other _ _ _ _ hqn, assocGet_remove_other _ _ _ hqn] at hq
                rw [assocGet_insert_other _ _ _ _ hqn]
                exact h.sub q hq
  | regTemplate n t => exact ⟨abs_registerTemplate r n t, inv_registerTemplate r n t h⟩
  | unregister n =>
    constructor
    · apply AState.ext'
      · intro q
        simp only [step, astep, abs, Registry.unregisterTemplate]
        by_cases hq : q = n
        · subst hq; simp [assocGet_remove_same]
        · simp [hq, assocGet_remove_other _ _ _ hq]
      · rfl
      · rfl
    · constructor
      · intro hd; have := h.noDev hd; simp [step, Registry.unregisterTemplate, this, assocRemove]
      · intro q hq
        simp only [step, Registry.unregisterTemplate] at hq ⊢
        by_cases hqn : q = n
        · subst hqn; simp [assocGet_remove_same] at hq
        · rw [assocGet_remove_other _ _ _ hqn] at hq ⊢; exact h.sub q hq
  | clear =>
    constructor
    · apply AState.ext'
      · intro q; simp [step, astep, abs, Registry.clearTemplates, assocGet]
      · rfl
      · rfl
    · exact ⟨fun _ => rfl, fun q hq => by simp [step, Registry.clearTemplates, assocGet] at hq⟩
  | setDev v =>
    cases v with
    | true =>
      constructor
      · apply AState.ext'
        · intro q; simp [step, astep, abs, Registry.setDevMode]
        · rfl
        · rfl
      · exact ⟨fun hd => by simp [step, Registry.setDevMode] at hd, fun q hq => h.sub q (by simpa [step, Registry.setDevMode] using hq)⟩
    | false =>
      constructor
      · apply AState.ext'
        · intro q
          simp only [step, astep, abs, Registry.setDevMode, Bool.false_eq_true, ↓reduceIte, assocGet]
          cases assocGet r.templates q with
          | none => rfl
          | some t => cases assocGet r.sources q <;> rfl
        · rfl
        · rfl
      · exact ⟨fun _ => rfl, fun q hq => by simp [step, Registry.setDevMode, assocGet] at hq⟩
  | setPreventIndent v =>
    exact ⟨AState.ext' (fun _ => rfl) rfl rfl, ⟨h.noDev, h.sub⟩⟩

/-- **observations agree**: `has_template`, membership in `get_templates`, and what a render loads -/
theorem has_refines (r : Registry) (n : Str) : r.hasTemplate n = ((abs r).map n).isSome := by
  simp only [Registry.hasTemplate, abs]
  cases assocGet r.templates n <;> simp

theorem load_refines (r : Registry) (fs : FS) (n : Str) (h : Inv r) : r.getOrLoad fs n = aload (abs r) fs n := by
  simp only [Registry.getOrLoad, Registry.getOrLoadOptional, aload, abs]
  cases hd : r.dev with
  | false =>
    have hs := h.noDev hd
    simp only [hs, assocGet]
    cases assocGet r.templates n <;> rfl
  | true =>
    cases hsrc : assocGet r.sources n with
    | none =>
      simp only []
      cases assocGet r.templates n <;> rfl
    | some path =>
      have hsub := h.sub n (by simp [hsrc])
      cases ht : assocGet r.templates n with
      | none => simp [ht] at hsub
      | some t =>
        simp only [Option.map_some]
        cases assocGet fs path with
        | none => rfl
        | some src =>
          simp only []
          cases compile2 src { name := some n, preventIndent := r.preventIndent, isPartial := false } <;> rfl

/-- a history: operations interleaved with whatever the file system is at that moment -/
def run (r : Registry) : List (FS × Op) → Registry
  | [] => r
  | (fs, op) :: rest => run (step r fs op) rest
def arun (a : AState) : List (FS × Op) → AState
  | [] => a
  | (fs, op) :: rest => arun (astep a fs op) rest

/-- **the refinement theorem**: after ANY history of operations (of any length, with the file system
    changing arbitrarily in between) the registry is, as far as `has_template` and rendering can tell,
    the abstract map that the same history produces. -/
theorem history_refines (h : List (FS × Op)) (r : Registry) (hi : Inv r) :
    abs (run r h) = arun (abs r) h ∧ Inv (run r h) := by
  induction h generalizing r with
  | nil => exact ⟨rfl, hi⟩
  | cons x rest ih =>
    obtain ⟨fs, op⟩ := x
    obtain ⟨h1, h2⟩ := step_refines r fs op hi
    have := ih (step r fs op) h2
    simp only [run, arun]
    rw [← h1]; exact this

theorem history_observations (h : List (FS × Op)) (fs : FS) (n : Str) :
    (run Registry.new h).hasTemplate n = ((arun (abs Registry.new) h).map n).isSome ∧
    (run Registry.new h).getOrLoad fs n = aload (arun (abs Registry.new) h) fs n := by
  obtain ⟨h1, h2⟩ := history_refines h Registry.new inv_new
  exact ⟨by rw [has_refines, h1], by rw [load_refines _ _ _ h2, h1]⟩

end Hbs.C17
