import HbsModel.Registry
import HbsModel.Lemmas.RM
import HbsModel.Spec.Scopes
/-
  C01  Path expressions resolve to the value the scope rules designate.
-/
namespace Hbs.C01
open Hbs RM Hbs.Spec

/-! ### walking JSON: `get_data` / the loop of `navigate` refine `Spec.descend` -/

theorem walk_none (ks : List Str) : walk none ks = .ok none := by
  induction ks with
  | nil => rfl
  | cons k ks ih => simp [walk, getData, ih]

/-- on the index-safe domain the walk of the code is the reference descent -/
theorem walk_refines_descend (v : Json) (ks : List Str) (h : indexSafe v ks = true) :
    walk (some v) ks = .ok (descend v ks) := by
  induction ks generalizing v with
  | nil => rfl
  | cons k ks ih =>
    cases v with
    | arr a =>
      simp only [indexSafe, Bool.and_eq_true] at h
      obtain ⟨h1, h2⟩ := h
      obtain ⟨i, hi⟩ := Option.isSome_iff_exists.mp h1
      simp only [walk, getData, hi, descend, step, Option.bind]
      cases hg : a.get? i with
      | none => simp [walk_none]
      | some v' =>
        simp only [hi, Option.bind, hg] at h2
        simpa using ih v' h2
    | obj m =>
      simp only [indexSafe] at h
      simp only [walk, getData, descend, step]
      cases hg : m.get? k with
      | none => simp [walk_none]
      | some v' =>
        simp only [hg] at h
        simpa using ih v' h
    | null => simp [walk, getData, descend, step, walk_none]
    | bool b => simp [walk, getData, descend, step, walk_none]
    | num n => simp [walk, getData, descend, step, walk_none]
    | str s => simp [walk, getData, descend, step, walk_none]

/-- a non-numeric segment applied to an array is the only source of an error -/
theorem walk_error_iff_unsafe (v : Json) (ks : List Str) :
    (∃ e, walk (some v) ks = .error e) ↔ indexSafe v ks = false := by
  constructor
  · intro ⟨e, he⟩
    cases hs : indexSafe v ks with
    | false => rfl
    | true => rw [walk_refines_descend v ks hs] at he; cases he
  · intro h
    induction ks generalizing v with
    | nil => simp [indexSafe] at h
    | cons k ks ih =>
      cases v with
      | arr a =>
        simp only [indexSafe] at h
        cases hp : parseUsize? k with
        | none => exact ⟨k, by simp [walk, getData, hp]⟩
        | some i =>
          simp only [hp, Option.isSome_some, Bool.true_and, Option.bind] at h
          cases hg : a.get? i with
          | none => simp [hg] at h
          | some v' =>
            simp only [hg] at h
            obtain ⟨e, he⟩ := ih v' h
            exact ⟨e, by simp [walk, getData, hp, hg, he]⟩
      | obj m =>
        simp only [indexSafe] at h
        cases hg : m.get? k with
        | none => simp [hg] at h
        | some v' =>
          simp only [hg] at h
          obtain ⟨e, he⟩ := ih v' h
          exact ⟨e, by simp [walk, getData, hg, he]⟩
      | null => simp [indexSafe] at h
      | bool b => simp [indexSafe] at h
      | num n => simp [indexSafe] at h
      | str s => simp [indexSafe] at h

theorem descend_append (v : Json) (a b : List Str) :
    descend v (a ++ b) = (descend v a).bind (fun v' => descend v' b) := by
  induction a generalizing v with
  | nil => simp [descend]
  | cons k ks ih =>
    simp only [List.cons_append, descend]
    cases step v k with
    | none => rfl
    | some v' => simpa using ih v'

/-! ### the value a scope (block) stands for -/

/-- a block scope denotes a value: its `base_value`, or what its `base_path` designates in the root -/
def blockValue (root : Json) (b : Block) : Option Json :=
  match b.baseValue with
  | some v => some v
  | none => descend root b.basePath

def names (ns : List Str) : List PathSeg := ns.map PathSeg.named

theorem mergeJsonPath_names (st ns) : mergeJsonPath st (names ns) = st ++ ns := by
  simp [mergeJsonPath, names, List.filterMap_map]
  induction ns <;> simp_all

theorem mergeJsonPath_ups (st : List Str) (k : Nat) (ns : List Str) :
    mergeJsonPath st (List.replicate k PathSeg.up ++ names ns) = st ++ ns := by
  induction k with
  | zero => simpa using mergeJsonPath_names st ns
  | succ k ih =>
    simp only [List.replicate_succ, List.cons_append]
    simpa [mergeJsonPath] using ih

/-- `{{a.b}}` (no `../`, no `@root`, head not a block parameter) in a scope held as a *path* into the
    root: the result is what the names designate from the scope's value. -/
theorem navigate_current_path_scope (root : Json) (b : Block) (rest : List Block) (n : Str) (ns : List Str)
    (rc : RC) (out : Out)
    (hbp : getInBlockParams (b :: rest) n = none) (hbv : b.baseValue = none)
    (hsafe : indexSafe root (b.basePath ++ n :: ns) = true) :
    navigate root (names (n :: ns)) (b :: rest) rc out =
      match (blockValue root b).bind (fun v => descend v (n :: ns)) with
      | some v => .ok (.context v (b.basePath ++ n :: ns)) rc out
      | none => .ok .missing rc out := by
  have hm : mergeJsonPath b.basePath (names (n :: ns)) = b.basePath ++ n :: ns := mergeJsonPath_names _ _
  simp only [names, List.map_cons] at hm
  simp only [navigate, parseJsonVisitor, names, List.map_cons, visitorScan, hbp, List.head?_cons,
    Option.bind, hbv, hm]
  simp only [Nat.lt_irrefl, ↓reduceIte, gt_iff_lt, Bool.false_eq_true]
  rw [walk_refines_descend root _ hsafe, descend_append]
  simp only [blockValue, hbv]
  cases descend root b.basePath with
  | none => rfl
  | some v0 =>
    simp only [Option.bind]
    cases descend v0 (n :: ns) <;> rfl

/-- the same in a scope held as a *value* (each/with over a literal, subexpression result, partial
    context): the other representation of a scope. -/
theorem navigate_current_value_scope (root : Json) (b : Block) (rest : List Block) (n : Str) (ns : List Str)
    (rc : RC) (out : Out) (v0 : Json)
    (hbp : getInBlockParams (b :: rest) n = none) (hbv : b.baseValue = some v0)
    (hsafe : indexSafe v0 (n :: ns) = true) :
    navigate root (names (n :: ns)) (b :: rest) rc out =
      match (blockValue root b).bind (fun v => descend v (n :: ns)) with
      | some v => .ok (.derived v) rc out
      | none => .ok .missing rc out := by
  have hm : mergeJsonPath [] (names (n :: ns)) = n :: ns := by simpa using mergeJsonPath_names [] (n :: ns)
  simp only [names, List.map_cons] at hm
  simp only [navigate, parseJsonVisitor, names, List.map_cons, visitorScan, hbp, List.head?_cons,
    Option.bind, hbv, hm]
  simp only [Nat.lt_irrefl, ↓reduceIte, gt_iff_lt, Bool.false_eq_true]
  rw [walk_refines_descend v0 _ hsafe]
  simp only [blockValue, hbv]
  cases descend v0 (n :: ns) <;> rfl

/-- the peek loop counts the leading `../` and looks the first name up among the block parameters -/
theorem visitorScan_ups (blocks : List Block) (k d : Nat) (n : Str) (ns : List Str) :
    visitorScan blocks (List.replicate k PathSeg.up ++ names (n :: ns)) d = (d + k, getInBlockParams blocks n, false) := by
  induction k generalizing d with
  | zero => simp [visitorScan, names]
  | succ k ih =>
    simp only [List.replicate_succ, List.cons_append, visitorScan]
    rw [ih (d + 1)]
    simp; omega

/-- `{{../../a.b}}` – `k ≥ 1` leading `../`, `k` not beyond the outermost scope, head not a block
    parameter – in a scope held as a *path*: the names are resolved from the value of the scope `k`
    levels out, whatever the inner scopes are. -/
theorem navigate_parent_path_scope (root : Json) (blocks : List Block) (k : Nat) (b : Block) (n : Str) (ns : List Str)
    (rc : RC) (out : Out) (hk : 0 < k) (hb : blocks[k]? = some b)
    (hbp : getInBlockParams blocks n = none) (hbv : b.baseValue = none)
    (hsafe : indexSafe root (b.basePath ++ n :: ns) = true) :
    navigate root (List.replicate k PathSeg.up ++ names (n :: ns)) blocks rc out =
      match (blockValue root b).bind (fun v => descend v (n :: ns)) with
      | some v => .ok (.context v (b.basePath ++ n :: ns)) rc out
      | none => .ok .missing rc out := by
  have hm := mergeJsonPath_ups b.basePath k (n :: ns)
  have hs := visitorScan_ups blocks k 0 n ns
  simp only [Nat.zero_add] at hs
  simp only [navigate, parseJsonVisitor, hs, hbp, hk, gt_iff_lt, ↓reduceIte, hb, Option.bind, hbv, hm]
  rw [walk_refines_descend root _ hsafe, descend_append]
  simp only [blockValue, hbv]
  cases descend root b.basePath with
  | none => rfl
  | some v0 =>
    simp only [Option.bind]
    cases descend v0 (n :: ns) <;> rfl

/-- the same when the scope `k` levels out is held as a *value* -/
theorem navigate_parent_value_scope (root : Json) (blocks : List Block) (k : Nat) (b : Block) (n : Str) (ns : List Str)
    (rc : RC) (out : Out) (v0 : Json) (hk : 0 < k) (hb : blocks[k]? = some b)
    (hbp : getInBlockParams blocks n = none) (hbv : b.baseValue = some v0)
    (hsafe : indexSafe v0 (n :: ns) = true) :
    navigate root (List.replicate k PathSeg.up ++ names (n :: ns)) blocks rc out =
      match (blockValue root b).bind (fun v => descend v (n :: ns)) with
      | some v => .ok (.derived v) rc out
      | none => .ok .missing rc out := by
  have hm := mergeJsonPath_ups [] k (n :: ns)
  simp only [List.nil_append] at hm
  have hs := visitorScan_ups blocks k 0 n ns
  simp only [Nat.zero_add] at hs
  simp only [navigate, parseJsonVisitor, hs, hbp, hk, gt_iff_lt, ↓reduceIte, hb, Option.bind, hbv, hm]
  rw [walk_refines_descend v0 _ hsafe]
  simp only [blockValue, hbv]
  cases descend v0 (n :: ns) <;> rfl

/-- nested scopes binding the SAME block-parameter name: the innermost binding is the one a path sees, whatever the outer
    scopes bind (the scan of `get_in_block_params` stops at the first hit, innermost scope first) -/
theorem innermost_block_param_shadows (b : Block) (rest : List Block) (n : Str) (h : Holder)
    (hb : assocGet b.blockParams n = some h) :
    getInBlockParams (b :: rest) n = some (h, b.basePath) := by
  simp [getInBlockParams, hb]

/-- … and a scope that does not bind the name lets the enclosing scopes' binding through -/
theorem outer_block_param_visible (b : Block) (rest : List Block) (n : Str)
    (hb : assocGet b.blockParams n = none) :
    getInBlockParams (b :: rest) n = getInBlockParams rest n := by
  simp [getInBlockParams, hb]

/-- a first name that is a block parameter holding a *value* (`as |x|` over a literal, a subexpression
    result, an `each` element of a value-held collection) is resolved from that value – regardless of
    any `../` written in front of it (the reading fixed in DESIGN §5 C01) -/
theorem navigate_block_param_value (root : Json) (blocks : List Block) (k : Nat) (n : Str) (ns : List Str)
    (rc : RC) (out : Out) (v0 : Json) (base : List Str)
    (hbp : getInBlockParams blocks n = some (.value v0, base)) (hsafe : indexSafe v0 ns = true) :
    navigate root (List.replicate k PathSeg.up ++ names (n :: ns)) blocks rc out =
      match descend v0 ns with
      | some v => .ok (.derived v) rc out
      | none => .ok .missing rc out := by
  have hs := visitorScan_ups blocks k 0 n ns
  simp only [Nat.zero_add] at hs
  have hlen : k + 1 ≤ (List.replicate k PathSeg.up ++ names (n :: ns)).length := by simp [names]
  have hdrop : (List.replicate k PathSeg.up ++ names (n :: ns)).drop (k + 1) = names ns := by
    simp [names, List.drop_append]
  have hm : mergeJsonPath [] (names ns) = ns := by simpa using mergeJsonPath_names [] ns
  simp only [navigate, parseJsonVisitor, hs, hbp, sliceFrom?, hlen, ↓reduceIte, Option.map, hdrop, hm]
  rw [walk_refines_descend v0 _ hsafe]
  cases descend v0 ns <;> rfl

/-- … and a block parameter held as a *path* (an `each` element / `with` value that lives in the root
    data) is resolved from the root along the recorded path -/
theorem navigate_block_param_path (root : Json) (blocks : List Block) (k : Nat) (n : Str) (ns : List Str)
    (rc : RC) (out : Out) (ps base : List Str)
    (hbp : getInBlockParams blocks n = some (.path ps, base)) (hsafe : indexSafe root (base ++ ps ++ ns) = true) :
    navigate root (List.replicate k PathSeg.up ++ names (n :: ns)) blocks rc out =
      match descend root (base ++ ps ++ ns) with
      | some v => .ok (.context v (base ++ ps ++ ns)) rc out
      | none => .ok .missing rc out := by
  have hs := visitorScan_ups blocks k 0 n ns
  simp only [Nat.zero_add] at hs
  have hlen : k + 1 ≤ (List.replicate k PathSeg.up ++ names (n :: ns)).length := by simp [names]
  have hdrop : (List.replicate k PathSeg.up ++ names (n :: ns)).drop (k + 1) = names ns := by
    simp [names, List.drop_append]
  have hm : mergeJsonPath (base ++ ps) (names ns) = base ++ ps ++ ns := mergeJsonPath_names _ ns
  simp only [navigate, parseJsonVisitor, hs, hbp, sliceFrom?, hlen, ↓reduceIte, Option.map, hdrop, hm]
  rw [walk_refines_descend root _ hsafe]
  cases descend root (base ++ ps ++ ns) <;> rfl

/-- `@root.a.b` starts at the data passed to render, whatever the scope stack is -/
theorem navigate_root (root : Json) (blocks : List Block) (ns : List Str) (rc : RC) (out : Out)
    (hsafe : indexSafe root ns = true) :
    navigate root (.root :: names ns) blocks rc out =
      match descend root ns with
      | some v => .ok (.context v ns) rc out
      | none => .ok .missing rc out := by
  have hm : mergeJsonPath [] (.root :: names ns) = ns := by
    have := mergeJsonPath_names [] ns
    simpa [mergeJsonPath] using this
  simp only [navigate, parseJsonVisitor, visitorScan, hm]
  simp only [Nat.lt_irrefl, ↓reduceIte, gt_iff_lt]
  rw [walk_refines_descend root _ hsafe]
  cases descend root ns <;> rfl

/-- `@x` / `@../x` read the iteration variables of the block `level` scopes out -/
theorem local_refines (root : Json) (level : Nat) (name raw : Str) (rc : RC) (out : Out) :
    evaluate2 root (.localVar level name raw) rc out =
      match (rc.blocks[level]?).bind (fun b => b.locals.get name) with
      | some v => .ok (.derived v) rc out
      | none => .ok .missing rc out := by
  simp only [evaluate2, RM.bind_def, RM.bnd_apply, RM.get_apply]
  cases (rc.blocks[level]?).bind (fun b => b.locals.get name) <;> rfl

/-! ### textual forms (`JsonRender`) -/

theorem render_str (s : Str) : (Json.str s).render = s := by simp [Json.render]
theorem render_bool (b : Bool) : (Json.bool b).render = if b then str "true" else str "false" := by simp [Json.render]
theorem render_null : Json.null.render = [] := by simp [Json.render]
theorem render_num (n : Num) : (Json.num n).render = n.toText := by simp [Json.render]
theorem render_obj (m : JObj) : (Json.obj m).render = str "[object]" := by simp [Json.render]

theorem renderItems_eq : (xs : JList) →
    JList.renderItems xs = joinWith (str ", ") (xs.toList.map Json.render)
  | .nil => by simp [JList.renderItems, JList.toList, joinWith]
  | .cons h .nil => by simp [JList.renderItems, JList.toList, joinWith]
  | .cons h (.cons h2 t2) => by
    have ih := renderItems_eq (.cons h2 t2)
    rw [JList.renderItems]
    · simp only [JList.toList, List.map_cons, joinWith] at ih ⊢
      rw [ih]
    · intro hh; cases hh

/-- an array is written as `[a, b]` : its elements' texts joined by ", " -/
theorem render_arr (xs : JList) :
    (Json.arr xs).render = '[' :: (joinWith (str ", ") (xs.toList.map Json.render) ++ [']']) := by
  simp [Json.render, renderItems_eq]

/-! ### from the regenerated grammar: separators and the `this` / `./` prefixes are silent rules, so
    they contribute no pair and every spelling yields the same segment list -/

theorem path_sep_silent : (Grammar.rules .r_path_sep).ty = .silent := rfl
theorem path_current_silent : (Grammar.rules .r_path_current).ty = .silent := rfl
theorem path_key_silent : (Grammar.rules .r_path_key).ty = .silent := rfl
theorem path_item_silent : (Grammar.rules .r_path_item).ty = .silent := rfl
theorem reference_compound : (Grammar.rules .r_reference).ty = .compound := rfl
theorem path_inline_compound : (Grammar.rules .r_path_inline).ty = .compound := rfl

end Hbs.C01
