import HbsModel.Registry
import HbsModel.Lemmas.RM
/-
  C10  Strict mode only adds errors: it never changes successful output.
-/
namespace Hbs.C10
open Hbs RM

/-- strict mode: `{{path}}` for a path that designates nothing fails with MissingVariable naming
    that path (as written) -/
theorem strict_missing_is_error (reg : Registry) (root : Json) (fuel : Nat) (ht : HelperT) (p : Path)
    (rc : RC) (out : Out)
    (hname : ht.name = .path p) (hno : ht.isNameOnly = true)
    (hl : assocGet rc.localHelpers p.raw = none) (hr : assocGet reg.helpers p.raw = none)
    (hmc : rc.modifiedCtx = none) (hs : reg.strict = true)
    (hev : evaluate2 root p rc out = .ok .missing rc out) :
    renderExpression reg root (fuel + 3) ht rc out = .err (strictError (some p.raw)) out := by
  simp [renderExpression, hno, hname, expandAsName, expandParam, RM.bnd_apply, hl, hr, hmc, hev,
    PJ.isMissing, SJ.isMissing, hs]

/-- non-strict: the same expression writes nothing (when no helperMissing hook is registered) -/
theorem nonstrict_missing_writes_nothing (reg : Registry) (root : Json) (fuel : Nat) (ht : HelperT) (p : Path)
    (rc : RC) (out : Out)
    (hname : ht.name = .path p) (hno : ht.isNameOnly = true)
    (hl : assocGet rc.localHelpers p.raw = none) (hr : assocGet reg.helpers p.raw = none)
    (hmc : rc.modifiedCtx = none) (hs : reg.strict = false)
    (hhook : assocGet reg.helpers HELPER_MISSING = none)
    (hev : evaluate2 root p rc out = .ok .missing rc out) :
    renderExpression reg root (fuel + 3) ht rc out = .ok () rc out := by
  simp [renderExpression, hno, hname, expandAsName, expandParam, RM.bnd_apply, hl, hr, hmc, hev,
    PJ.isMissing, SJ.isMissing, hs, hhook]

/-- a present value (null, false, 0, "" included) is rendered identically in both modes: the strict
    flag is not consulted -/
theorem present_value_mode_independent (reg : Registry) (root : Json) (fuel : Nat) (ht : HelperT) (p : Path)
    (rc : RC) (out : Out) (v : SJ) (b : Bool)
    (hname : ht.name = .path p) (hno : ht.isNameOnly = true)
    (hl : assocGet rc.localHelpers p.raw = none) (hr : assocGet reg.helpers p.raw = none)
    (hmc : rc.modifiedCtx = none)
    (hev : evaluate2 root p rc out = .ok v rc out) (hv : v.isMissing = false) :
    renderExpression { reg with strict := b } root (fuel + 3) ht rc out
      = renderExpression reg root (fuel + 3) ht rc out := by
  simp [renderExpression, hno, hname, expandAsName, expandParam, RM.bnd_apply, hl, hr, hmc, hev,
    PJ.isMissing, hv, doEscape]

/-- each / with on a missing (or non-iterable / falsy) value without an else branch: strict error
    naming the argument's path; with an else branch the else body is rendered in both modes -/
theorem with_strict_error (reg : Registry) (root : Json) (fuel : Nat) (h : HelperI) (p : PJ) (ps : List PJ)
    (rc : RC) (out : Out)
    (hp : h.params = p :: ps) (hf : p.json.truthy false = false) (hi : h.inverse = none)
    (hs : reg.strict = true) :
    callHelper reg root (fuel + 1) .withH h rc out = .err (strictError p.relPath) out := by
  simp [callHelper, HelperKind.hasInner, hp, hf, hi, hs]

theorem with_nonstrict_nothing (reg : Registry) (root : Json) (fuel : Nat) (h : HelperI) (p : PJ) (ps : List PJ)
    (rc : RC) (out : Out)
    (hp : h.params = p :: ps) (hf : p.json.truthy false = false) (hi : h.inverse = none)
    (hs : reg.strict = false) :
    callHelper reg root (fuel + 1) .withH h rc out = .ok () rc out := by
  simp [callHelper, HelperKind.hasInner, hp, hf, hi, hs]

theorem each_strict_error (reg : Registry) (root : Json) (fuel : Nat) (h : HelperI) (p : PJ) (ps : List PJ)
    (t : Tmpl) (rc : RC) (out : Out)
    (hp : h.params = p :: ps) (ht : h.template = some t) (hi : h.inverse = none)
    (hv : p.json = .null) (hs : reg.strict = true) :
    callHelper reg root (fuel + 1) .each h rc out = .err (strictError p.relPath) out := by
  simp [callHelper, HelperKind.hasInner, hp, ht, hi, hv, hs]

/-- lookup of an absent key: strict error; non-strict null -/
theorem lookup_strict (reg : Registry) (h : HelperI) (c i : PJ) (rest : List PJ) (m : JObj) (k : Str)
    (hp : h.params = c :: i :: rest) (hc : c.json = .obj m) (hi : i.json = .str k) (hk : m.get? k = none) :
    callInner reg .lookup h = if reg.strict then .error (.missingVariable none) else .ok (.derived .null) := by
  simp [callInner, hp, hc, hi, Json.asStr?, hk]

/-- the default `call` of value helpers: strict error for a missing result, otherwise the same
    write in both modes -/
theorem default_call_strict_missing (reg : Registry) (root : Json) (fuel : Nat) (d : HelperKind) (h : HelperI)
    (rc : RC) (out : Out) (hin : d.hasInner = true) (hres : callInner reg d h = .ok .missing)
    (hs : reg.strict = true) :
    callHelper reg root (fuel + 1) d h rc out = .err (strictError none) out := by
  simp [callHelper, hin, hres, hs, SJ.isMissing]

end Hbs.C10
