import HbsModel.Registry
import HbsModel.Lemmas.RM
import HbsModel.Lemmas.Induct2
/-
  C10  Strict mode only adds errors: it never changes successful output.
-/
namespace Hbs.C10
open Hbs RM

/-- strict mode: `{{path}}` for a path that designates nothing fails with MissingVariable naming
    that path (as written) -/
theorem strict_missing_is_error (reg : Registry) (root : Json) (fuel : Nat) (ht : HelperT) (p : Path)
    (rc : RC) (out : Out)
    (hname : ht.name = .path p) (hno : ht.isNameOnly = true)
    (hl : assocGet rc.localHelpers p.raw = none) (hr : assocGet reg.helpers p.raw = none)
    (hmc : rc.modifiedCtx = none) (hs : reg.strict = true)
    (hev : evaluate2 root p rc out = .ok .missing rc out) :
    renderExpression reg root (fuel + 3) ht rc out = .err (strictError (some p.raw)) out := by
  simp [renderExpression, hno, hname, expandAsName, expandParam, RM.bnd_apply, hl, hr, hmc, hev,
    PJ.isMissing, SJ.isMissing, hs]

/-- … and so do `{{{path}}}` and `{{&path}}`: the unescaped spellings fail in the same way (the error leaves through the
    escape toggle unchanged) -/
theorem strict_missing_is_error_html (reg : Registry) (root : Json) (fuel : Nat) (ht : HelperT) (p : Path)
    (rc : RC) (out : Out)
    (hname : ht.name = .path p) (hno : ht.isNameOnly = true)
    (hl : assocGet rc.localHelpers p.raw = none) (hr : assocGet reg.helpers p.raw = none)
    (hmc : rc.modifiedCtx = none) (hs : reg.strict = true)
    (hev : ∀ rc', rc'.blocks = rc.blocks → evaluate2 root p rc' out = .ok .missing rc' out) :
    renderElem reg root (fuel + 4) (.html ht) rc out = .err (strictError (some p.raw)) out := by
  have h := strict_missing_is_error reg root fuel ht p { rc with disableEscape := true } out hname hno hl hr hmc hs (hev _ rfl)
  simp only [renderElem, RM.escOffReset, RM.bracket_apply, h]

/-- non-strict: the same expression writes nothing (when no helperMissing hook is registered) -/
theorem nonstrict_missing_writes_nothing (reg : Registry) (root : Json) (fuel : Nat) (ht : HelperT) (p : Path)
    (rc : RC) (out : Out)
    (hname : ht.name = .path p) (hno : ht.isNameOnly = true)
    (hl : assocGet rc.localHelpers p.raw = none) (hr : assocGet reg.helpers p.raw = none)
    (hmc : rc.modifiedCtx = none) (hs : reg.strict = false)
    (hhook : assocGet reg.helpers HELPER_MISSING = none)
    (hev : evaluate2 root p rc out = .ok .missing rc out) :
    renderExpression reg root (fuel + 3) ht rc out = .ok () rc out := by
  simp [renderExpression, hno, hname, expandAsName, expandParam, RM.bnd_apply, hl, hr, hmc, hev,
    PJ.isMissing, SJ.isMissing, hs, hhook]

/-- a present value (null, false, 0, "" included) is rendered identically in both modes: the strict
    flag is not consulted -/
theorem present_value_mode_independent (reg : Registry) (root : Json) (fuel : Nat) (ht : HelperT) (p : Path)
    (rc : RC) (out : Out) (v : SJ) (b : Bool)
    (hname : ht.name = .path p) (hno : ht.isNameOnly = true)
    (hl : assocGet rc.localHelpers p.raw = none) (hr : assocGet reg.helpers p.raw = none)
    (hmc : rc.modifiedCtx = none)
    (hev : evaluate2 root p rc out = .ok v rc out) (hv : v.isMissing = false) :
    renderExpression { reg with strict := b } root (fuel + 3) ht rc out
      = renderExpression reg root (fuel + 3) ht rc out := by
  simp [renderExpression, hno, hname, expandAsName, expandParam, RM.bnd_apply, hl, hr, hmc, hev,
    PJ.isMissing, hv, doEscape]

/-- each / with on a missing (or non-iterable / falsy) value without an else branch: strict error
    naming the argument's path; with an else branch the else body is rendered in both modes -/
theorem with_strict_error (reg : Registry) (root : Json) (fuel : Nat) (h : HelperI) (p : PJ) (ps : List PJ)
    (rc : RC) (out : Out)
    (hp : h.params = p :: ps) (hf : p.json.truthy false = false) (hi : h.inverse = none)
    (hs : reg.strict = true) :
    callHelper reg root (fuel + 1) .withH h rc out = .err (strictError p.relPath) out := by
  simp [callHelper, HelperKind.hasInner, hp, hf, hi, hs]

theorem with_nonstrict_nothing (reg : Registry) (root : Json) (fuel : Nat) (h : HelperI) (p : PJ) (ps : List PJ)
    (rc : RC) (out : Out)
    (hp : h.params = p :: ps) (hf : p.json.truthy false = false) (hi : h.inverse = none)
    (hs : reg.strict = false) :
    callHelper reg root (fuel + 1) .withH h rc out = .ok () rc out := by
  simp [callHelper, HelperKind.hasInner, hp, hf, hi, hs]

theorem each_strict_error (reg : Registry) (root : Json) (fuel : Nat) (h : HelperI) (p : PJ) (ps : List PJ)
    (t : Tmpl) (rc : RC) (out : Out)
    (hp : h.params = p :: ps) (ht : h.template = some t) (hi : h.inverse = none)
    (hv : p.json = .null) (hs : reg.strict = true) :
    callHelper reg root (fuel + 1) .each h rc out = .err (strictError p.relPath) out := by
  simp [callHelper, HelperKind.hasInner, hp, ht, hi, hv, hs]

/-- lookup of an absent key: strict error; non-strict null -/
theorem lookup_strict (reg : Registry) (h : HelperI) (c i : PJ) (rest : List PJ) (m : JObj) (k : Str)
    (hp : h.params = c :: i :: rest) (hc : c.json = .obj m) (hi : i.json = .str k) (hk : m.get? k = none) :
    callInner reg .lookup h = if reg.strict then .error (.missingVariable none) else .ok (.derived .null) := by
  simp [callInner, hp, hc, hi, Json.asStr?, hk]

/-- the default `call` of value helpers: strict error for a missing result, otherwise the same
    write in both modes -/
theorem default_call_strict_missing (reg : Registry) (root : Json) (fuel : Nat) (d : HelperKind) (h : HelperI)
    (rc : RC) (out : Out) (hin : d.hasInner = true) (hres : callInner reg d h = .ok .missing)
    (hs : reg.strict = true) :
    callHelper reg root (fuel + 1) d h rc out = .err (strictError none) out := by
  simp [callHelper, hin, hres, hs, SJ.isMissing]

end Hbs.C10

/-! ### strict mode only ADDS errors – for the whole renderer (relational induction principle of
    Lemmas/Induct2): the strict run of ANY template is either identical to the non-strict run – same
    value, same final state, same output, same error – or it ends with an error of a strict kind. -/
namespace Hbs.C10
open Hbs RM

/-- `x` is the strict instance of a computation and `y` the non-strict one -/
def OnlyAdds {α : Type} (x y : RM α) : Prop :=
  ∀ rc o, x rc o = y rc o ∨ ∃ e o', x rc o = .err e o' ∧ StrictKind e.reason

theorem onlyAdds_bnd {α β : Type} (x x' : RM α) (f f' : α → RM β) (hx : OnlyAdds x x')
    (hf : ∀ a, OnlyAdds (f a) (f' a)) : OnlyAdds (RM.bnd x f) (RM.bnd x' f') := by
  intro rc o
  rcases hx rc o with heq | ⟨e, o', he, hk⟩
  · rw [RM.bnd_apply, RM.bnd_apply, ← heq]
    cases hr : x rc o with
    | ok a rc1 o1 => exact hf a rc1 o1
    | err e o1 => exact Or.inl rfl
    | panic s => exact Or.inl rfl
    | fuel => exact Or.inl rfl
  · right; exact ⟨e, o', by rw [RM.bnd_apply, he], hk⟩

theorem onlyAdds_mapErr {α : Type} (x x' : RM α) (g : RenderError → RenderError)
    (hg : ∀ e, (g e).reason = e.reason) (hx : OnlyAdds x x') : OnlyAdds (RM.mapErr x g) (RM.mapErr x' g) := by
  intro rc o
  rcases hx rc o with heq | ⟨e, o', he, hk⟩
  · left; unfold RM.mapErr; rw [heq]
  · right; exact ⟨g e, o', by unfold RM.mapErr; rw [he], by rw [hg]; exact hk⟩

theorem onlyAdds_captured {α : Type} (x x' : RM α) (hx : OnlyAdds x x') : OnlyAdds (RM.captured x) (RM.captured x') := by
  intro rc o
  rcases hx rc {} with heq | ⟨e, o', he, hk⟩
  · left; unfold RM.captured; rw [heq]
  · right; exact ⟨e, o, by unfold RM.captured; rw [he], hk⟩

theorem onlyAdds_bracket {α : Type} (enter : RC → RC) (x x' : RM α) (leave : RC → RC → RC) (hx : OnlyAdds x x') :
    OnlyAdds (RM.bracket enter x leave) (RM.bracket enter x' leave) := by
  intro rc o
  rcases hx (enter rc) o with heq | ⟨e, o', he, hk⟩
  · left; unfold RM.bracket; rw [heq]
  · right; exact ⟨e, o', by unfold RM.bracket; rw [he], hk⟩

def onlyAddsRel : RMRel where
  R := fun x y => OnlyAdds x y
  refl := fun _ _ _ => Or.inl rfl
  bnd := onlyAdds_bnd
  mapErr := onlyAdds_mapErr
  captured := onlyAdds_captured
  bracket := onlyAdds_bracket
  throwL := fun e _ hk _ o => Or.inr ⟨e, o, rfl, hk⟩

/-- **Strict mode only adds errors.**  For ANY template, data, registry, state, writer and fuel: the
    strict render is the non-strict render, or it fails with MissingVariable / ParamNotFoundForName. -/
theorem strict_only_adds_errors (reg : Registry) (root : Json) (fuel : Nat) (t : Tmpl) (rc : RC) (o : Out) :
    renderTemplate (reg.withStrict true) root fuel t rc o = renderTemplate (reg.withStrict false) root fuel t rc o ∨
    ∃ e o', renderTemplate (reg.withStrict true) root fuel t rc o = .err e o' ∧ StrictKind e.reason :=
  (onlyAddsRel.all reg root fuel).renderTemplate t rc o

/-- whenever a strict render succeeds, the non-strict render succeeds with the identical output -/
theorem strict_success_is_nonstrict_output (reg : Registry) (root : Json) (fuel : Nat) (t : Tmpl) (rc rc' : RC) (o o' : Out)
    (h : renderTemplate (reg.withStrict true) root fuel t rc o = .ok () rc' o') :
    renderTemplate (reg.withStrict false) root fuel t rc o = .ok () rc' o' := by
  rcases strict_only_adds_errors reg root fuel t rc o with heq | ⟨e, o2, he, _⟩
  · rw [← heq]; exact h
  · rw [h] at he; cases he

/-- the non-strict render failing means the strict one fails too (never the other way round) -/
theorem nonstrict_error_is_strict_error (reg : Registry) (root : Json) (fuel : Nat) (t : Tmpl) (rc : RC) (o o' : Out) (e : RenderError)
    (h : renderTemplate (reg.withStrict false) root fuel t rc o = .err e o') :
    ∃ e2 o2, renderTemplate (reg.withStrict true) root fuel t rc o = .err e2 o2 := by
  rcases strict_only_adds_errors reg root fuel t rc o with heq | ⟨e2, o2, he, _⟩
  · exact ⟨e, o', by rw [heq]; exact h⟩
  · exact ⟨e2, o2, he⟩

/-- every registry is one of the two instances: `withStrict` only sets the flag -/
theorem withStrict_self (reg : Registry) : reg.withStrict reg.strict = reg := rfl

end Hbs.C10

/-! ### … and at the level of the public entry points: lookup, dev-mode reloading and compilation do
    not look at the strict flag. -/
namespace Hbs.C10
open Hbs RM

theorem getOrLoad_withStrict (r : Registry) (b : Bool) (fs : FS) (name : Str) :
    (r.withStrict b).getOrLoad fs name = r.getOrLoad fs name := by
  simp only [Registry.getOrLoad, Registry.getOrLoadOptional, withStrict_dev, withStrict_sources,
    withStrict_preventIndent, withStrict_templates]

theorem gatherDev_withStrict (r : Registry) (b : Bool) (fs : FS) (pre : Option (Str × Tmpl))
    (l : List (Str × Str)) (acc : List (Str × Tmpl)) :
    (r.withStrict b).gatherDev fs pre l acc = r.gatherDev fs pre l acc := by
  induction l generalizing acc with
  | nil => rfl
  | cons x rest ih =>
    obtain ⟨name, p⟩ := x
    simp only [Registry.gatherDev, getOrLoad_withStrict]
    split
    · exact ih _
    · split
      · exact ih _
      · rfl

theorem runRM_onlyAdds (x y : RM Unit) (h : OnlyAdds x y) (rc : RC) (o : Out) :
    runRM x rc o = runRM y rc o ∨ ∃ e w, runRM x rc o = .err e w ∧ StrictKind e.reason := by
  unfold runRM
  rcases h rc o with heq | ⟨e, o', he, hk⟩
  · left; rw [heq]
  · right; exact ⟨e, o'.text, by rw [he], hk⟩

theorem renderResolved_onlyAdds (r : Registry) (fs : FS) (name : Option Str) (t : Tmpl) (data : Json) (out : Out) :
    (r.withStrict true).renderResolved fs name t data out = (r.withStrict false).renderResolved fs name t data out ∨
    ∃ e w, (r.withStrict true).renderResolved fs name t data out = .err e w ∧ StrictKind e.reason := by
  unfold Registry.renderResolved
  simp only [withStrict_dev, withStrict_sources, gatherDev_withStrict]
  cases hd : r.dev with
  | false =>
    simp only [Bool.not_false, ↓reduceIte]
    exact runRM_onlyAdds _ _ ((onlyAddsRel.all r data renderFuel).renderTemplate t) _ _
  | true =>
    simp only [Bool.not_true, Bool.false_eq_true, ↓reduceIte]
    cases hg : r.gatherDev fs (name.map (fun n => (n, t))) r.sources [] with
    | error e => left; cases e <;> rfl
    | ok dmt =>
      simp only []
      cases name with
      | none =>
        simp only []
        exact runRM_onlyAdds _ _ ((onlyAddsRel.all r data renderFuel).renderTemplate t) _ _
      | some n =>
        simp only []
        cases ha : assocGet dmt n with
        | none => left; rfl
        | some t' =>
          simp only []
          exact runRM_onlyAdds _ _ ((onlyAddsRel.all r data renderFuel).renderTemplate t') _ _

/-- **Strict mode only adds errors, as seen through `render` / `render_to_write`**: for any registry,
    file system, registered name, data and writer the strict result is the non-strict result (same text
    or same error after the same text) or an error of a strict kind. -/
theorem render_strict_only_adds (r : Registry) (fs : FS) (name : Str) (data : Json) (out : Out) :
    (r.withStrict true).renderToOutput fs name data out = (r.withStrict false).renderToOutput fs name data out ∨
    ∃ e w, (r.withStrict true).renderToOutput fs name data out = .err e w ∧ StrictKind e.reason := by
  unfold Registry.renderToOutput
  simp only [getOrLoad_withStrict]
  cases hl : r.getOrLoad fs name with
  | ok t => exact renderResolved_onlyAdds r fs (some name) t data out
  | err e => left; rfl
  | panic s => left; rfl
  | fuel => left; rfl

/-- the same for `render_template` (source given at the call) -/
theorem render_template_strict_only_adds (r : Registry) (fs : FS) (src : Str) (data : Json) (fa : Option Nat) :
    (r.withStrict true).renderTemplateToWrite fs src data fa = (r.withStrict false).renderTemplateToWrite fs src data fa ∨
    ∃ e w, (r.withStrict true).renderTemplateToWrite fs src data fa = .err e w ∧ StrictKind e.reason := by
  unfold Registry.renderTemplateToWrite Registry.renderTemplateWithContextToWrite
  have hc : ∀ b, (r.withStrict b).compileForRenderTemplate src = r.compileForRenderTemplate src := by
    intro b; simp only [Registry.compileForRenderTemplate, withStrict_preventIndent]
  simp only [hc]
  cases hl : r.compileForRenderTemplate src with
  | ok t => exact renderResolved_onlyAdds r fs none t data _
  | err e => left; rfl
  | panic s => left; rfl
  | fuel => left; rfl

end Hbs.C10
