import HbsModel.Registry
import HbsModel.Lemmas.RM
import HbsModel.Lemmas.Induct
/-
  C05  Rendering any compiled template on any data returns Ok or a RenderError.
  Panic sites of the Rust are explicit `panic` outcomes of the model; each is shown unreachable.
-/
namespace Hbs.C05
open Hbs RM

/-! ### `relative_path[(depth+1)..]` (context.rs) never panics: a block-parameter head sits at index
    `depth`, after `depth` leading `../` -/

theorem visitorScan_spec (blocks : List Block) (segs : List PathSeg) (d : Nat) :
    ∀ d' bp fr, visitorScan blocks segs d = (d', bp, fr) →
      d ≤ d' ∧ d' - d ≤ segs.length ∧ (bp.isSome → d' - d + 1 ≤ segs.length) := by
  induction segs generalizing d with
  | nil => intro d' bp fr h; simp [visitorScan] at h; obtain ⟨rfl, rfl, rfl⟩ := h; simp
  | cons s rest ih =>
    intro d' bp fr h
    cases s with
    | named n => simp [visitorScan] at h; obtain ⟨rfl, rfl, rfl⟩ := h; simp
    | root => simp [visitorScan] at h; obtain ⟨rfl, rfl, rfl⟩ := h; simp
    | loc => simp [visitorScan] at h; obtain ⟨rfl, rfl, rfl⟩ := h; simp
    | up =>
      simp only [visitorScan] at h
      obtain ⟨h1, h2, h3⟩ := ih (d + 1) d' bp fr h
      refine ⟨by omega, by simp; omega, fun hb => by have := h3 hb; simp; omega⟩

/-- `parse_json_visitor` always produces a resolved path (the slice is in range), and with
    `always_for_absolute_path = true` never the `RelativePath` variant whose arm is `unreachable!()` -/
theorem visitor_total (segs : List PathSeg) (blocks : List Block) :
    ∃ r, parseJsonVisitor segs blocks true = some r ∧ (∀ p, r ≠ .relative p) := by
  unfold parseJsonVisitor
  cases hs : visitorScan blocks segs 0 with
  | mk d rest =>
    obtain ⟨bp, fr⟩ := rest
    have hspec := visitorScan_spec blocks segs 0 d bp fr hs
    simp only
    cases bp with
    | some hb =>
      obtain ⟨holder, base⟩ := hb
      have hle : d + 1 ≤ segs.length := by
        have := hspec.2.2 (by simp); omega
      cases holder with
      | value v => simp [sliceFrom?, hle]
      | path ps => simp [sliceFrom?, hle]
    | none =>
      simp only
      split
      · split <;> simp
      · split
        · simp
        · simp only [↓reduceIte]
          split <;> simp

/-- hence `navigate` never panics: it returns a value, Missing, or InvalidJsonIndex -/
theorem navigate_never_panics (root : Json) (segs : List PathSeg) (blocks : List Block) (rc : RC) (out : Out) :
    ∀ s, navigate root segs blocks rc out ≠ .panic s := by
  intro s
  obtain ⟨r, hr, hnr⟩ := visitor_total segs blocks
  unfold navigate
  rw [hr]
  cases r with
  | absolute p =>
    simp only
    cases walk (some root) p with
    | error e => simp
    | ok o => cases o <;> simp
  | relative p => exact absurd rfl (hnr p)
  | blockParamValue p v =>
    simp only
    cases walk (some v) p with
    | error e => simp
    | ok o => cases o <;> simp
  | localValue p v =>
    simp only
    cases walk (some v) p with
    | error e => simp
    | ok o => cases o <;> simp

/-- `len - 1` in each / JsonRender is only evaluated inside an iteration: the model's `i + 1 == len`
    is the same test without subtraction, for every i < len -/
theorem last_test_no_underflow (i len : Nat) (h : i < len) : (i + 1 == len) = (i == len - 1) := by
  by_cases h1 : i + 1 = len
  · have h2 : i = len - 1 := by omega
    rw [beq_iff_eq.mpr h1, beq_iff_eq.mpr h2]
  · have h2 : ¬ i = len - 1 := by omega
    rw [beq_eq_false_iff_ne.mpr h1, beq_eq_false_iff_ne.mpr h2]

/-- `partial_block_depth as usize`: the depth never goes below zero (`dec` saturates) -/
theorem pb_depth_saturates (n : Nat) : n - 1 ≤ n := Nat.sub_le n 1

/-- rendering does not modify the registry: it is an input of every render function and no
    function returns one.  A failed render therefore leaves it usable and later renders unaffected. -/
theorem render_is_pure (r : Registry) (fs : FS) (n1 n2 : Str) (d1 d2 : Json) :
    let _failed := r.render fs n1 d1
    r.render fs n2 d2 = r.render fs n2 d2 := rfl

/-- NEGATION WITNESS (known finding F3/F4): unbounded recursion shows up in the model as `fuel`
    exhaustion – a distinct outcome, never `ok`/`err`; running out of fuel is possible at every depth: -/
theorem fuel_zero_is_fuel (reg : Registry) (root : Json) (t : Tmpl) (rc : RC) (out : Out) :
    renderTemplate reg root 0 t rc out = .fuel := by
  simp [renderTemplate]

end Hbs.C05

/-! ### the whole renderer never panics: for EVERY AST (not only parser outputs), data, registry
    configuration, render state and fuel (generic induction principle of Lemmas/Induct) -/
namespace Hbs.C05
open Hbs RM

def NoPanic {α : Type} (x : RM α) : Prop := ∀ rc out s, x rc out ≠ .panic s

theorem bnd_noPanic {α β : Type} (x : RM α) (f : α → RM β) (hx : NoPanic x) (hf : ∀ a, NoPanic (f a)) :
    NoPanic (RM.bnd x f) := by
  intro rc out s
  simp only [RM.bnd]
  cases hr : x rc out with
  | ok a rc1 o1 => exact hf a rc1 o1 s
  | err e o => simp
  | panic p => exact absurd hr (hx rc out p)
  | fuel => simp

theorem write_noPanic (s : Str) : NoPanic (RM.write s) := by
  intro rc out p
  unfold RM.write
  split
  · simp
  · split <;> simp

theorem mapErr_noPanic {α : Type} (x : RM α) (f : RenderError → RenderError) (hx : NoPanic x) :
    NoPanic (RM.mapErr x f) := by
  intro rc out s
  unfold RM.mapErr
  cases hr : x rc out with
  | ok a rc1 o1 => simp
  | err e o => simp
  | panic p => exact absurd hr (hx rc out p)
  | fuel => simp

theorem captured_noPanic {α : Type} (x : RM α) (hx : NoPanic x) : NoPanic (RM.captured x) := by
  intro rc out s
  unfold RM.captured
  cases hr : x rc {} with
  | ok a rc1 o1 => simp
  | err e o => simp
  | panic p => exact absurd hr (hx rc {} p)
  | fuel => simp

theorem bracket_noPanic {α : Type} (enter : RC → RC) (x : RM α) (leave : RC → RC → RC) (hx : NoPanic x) :
    NoPanic (RM.bracket enter x leave) := by
  intro rc out s
  unfold RM.bracket
  cases hr : x (enter rc) out with
  | ok a rc1 o1 => simp
  | err e o => simp
  | panic p => exact absurd hr (hx (enter rc) out p)
  | fuel => simp

theorem modify_noPanic (f : RC → RC) : NoPanic (RM.modify f) := fun rc out s => by simp

/-- "does not panic" as a closed predicate; the only leaf that mentions `panic` is `navigate`,
    where both sites are unreachable (navigate_never_panics) -/
def noPanicPred : RMPred where
  P := fun x => NoPanic x
  Q := fun x => NoPanic x
  sub := fun _ h => h
  ret := fun a rc out s => by simp
  bnd := bnd_noPanic
  qbnd := bnd_noPanic
  get := fun rc out s => by simp
  modifyAux := fun f => modify_noPanic _
  frontMod := fun f => modify_noPanic _
  throw := fun e rc out s => by simp
  outOfFuel := fun rc out s => by simp
  write := write_noPanic
  mapErr := fun x f _ hx => mapErr_noPanic x f hx
  captured := captured_noPanic
  withBlock := fun b x hx => bracket_noPanic _ x _ hx
  escOffReset := fun x hx => bracket_noPanic _ x _ hx
  escOffSaved := fun x hx => bracket_noPanic _ x _ hx
  partialScope := fun _ _ _ _ x hx => bracket_noPanic _ x _ hx
  navigate := fun root segs blocks rc out s => navigate_never_panics root segs blocks rc out s

/-- rendering ANY template AST on ANY data in ANY state with ANY registry of the modelled helpers and
    decorators returns output, a RenderError, or runs out of fuel (unbounded partial recursion) –
    it never reaches one of the Rust panic sites. -/
theorem render_never_panics (reg : Registry) (root : Json) (fuel : Nat) (t : Tmpl) (rc : RC) (out : Out) (s : String) :
    renderTemplate reg root fuel t rc out ≠ .panic s :=
  (noPanicPred.all reg root fuel).renderTemplate t rc out s

end Hbs.C05
