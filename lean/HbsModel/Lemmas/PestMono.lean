import HbsModel.Pest
/-
  Generic facts about the PEG interpreter: more fuel never changes a result that is not `fuel`.
-/
namespace Hbs.Pest
variable {R : Type}

theorem eval_succ (G : R → RuleDef R) (ws : Option R) (f : Nat) (atom : Atom) (e : PExpr R) (st : St)
    (h : eval G ws f atom e st ≠ .fuel) : eval G ws (f + 1) atom e st = eval G ws f atom e st := by
  fun_induction eval G ws f atom e st <;> first | grind [eval] | (cases ws <;> grind [eval])

/-- more fuel never changes a definite result -/
theorem eval_mono (G : R → RuleDef R) (ws : Option R) (f d : Nat) (atom : Atom) (e : PExpr R) (st : St)
    (h : eval G ws f atom e st ≠ .fuel) : eval G ws (f + d) atom e st = eval G ws f atom e st := by
  induction d with
  | zero => rfl
  | succ d ih =>
    have : eval G ws (f + d) atom e st ≠ .fuel := by rw [ih]; exact h
    rw [← Nat.add_assoc, eval_succ G ws (f + d) atom e st this, ih]

theorem eval_mono_le (G : R → RuleDef R) (ws : Option R) (f f' : Nat) (atom : Atom) (e : PExpr R) (st : St) (r : PRes R)
    (h : eval G ws f atom e st = r) (hr : r ≠ .fuel) (hle : f ≤ f') : eval G ws f' atom e st = r := by
  obtain ⟨d, rfl⟩ := Nat.exists_eq_add_of_le hle
  rw [eval_mono G ws f d atom e st (by rw [h]; exact hr), h]

/-! ### a big-step proof system for the interpreter: `Ev G ws F atom e st r` = "with fuel `F` the
    interpreter answers `r`, and `r` is a definite answer".  Each rule is one unfolding of `eval`. -/

def Ev (G : R → RuleDef R) (ws : Option R) (F : Nat) (atom : Atom) (e : PExpr R) (st : St) (r : PRes R) : Prop :=
  eval G ws F atom e st = r ∧ r ≠ .fuel

namespace Ev
variable {G : R → RuleDef R} {ws : Option R}

theorem weaken {F F' : Nat} {atom : Atom} {e : PExpr R} {st : St} {r : PRes R}
    (h : Ev G ws F atom e st r) (hle : F ≤ F') : Ev G ws F' atom e st r :=
  ⟨eval_mono_le G ws F F' atom e st r h.1 h.2 hle, h.2⟩

theorem str_fail {F : Nat} {atom : Atom} {s : Str} {st : St} (h : matchStr s st = none) :
    Ev G ws (F + 1) atom (.str s) st .fail := by
  refine ⟨?_, by simp⟩; simp [eval, h]

theorem str_ok {F : Nat} {atom : Atom} {s : Str} {st st' : St} (h : matchStr s st = some st') :
    Ev G ws (F + 1) atom (.str s) st (.ok st' []) := by
  refine ⟨?_, by simp⟩; simp [eval, h]

theorem any_ok {F : Nat} {atom : Atom} {p : Nat} {c : Char} {t : Str} :
    Ev G ws (F + 1) atom (.builtin .any) ⟨p, c :: t⟩ (.ok ⟨p + 1, t⟩ []) := by
  refine ⟨?_, by simp⟩; simp [eval, matchChar, builtinChar]

theorem any_fail {F : Nat} {atom : Atom} {p : Nat} :
    Ev G ws (F + 1) atom (.builtin .any) ⟨p, []⟩ .fail := by
  refine ⟨?_, by simp⟩; simp [eval, matchChar]

theorem eoi_ok {F : Nat} {p : Nat} :
    Ev G ws (F + 1) .nonAtomic (.builtin .eoi) ⟨p, []⟩ (.ok ⟨p, []⟩ [⟨none, p, p⟩]) := by
  refine ⟨?_, by simp⟩; simp [eval]

theorem seq_fail1 {F : Nat} {atom : Atom} {a b : PExpr R} {st : St}
    (h : Ev G ws F atom a st .fail) : Ev G ws (F + 1) atom (.seq a b) st .fail := by
  refine ⟨?_, by simp⟩; simp [eval, h.1]

theorem seq_fail2 {F : Nat} {atom : Atom} {a b : PExpr R} {st st1 st2 : St} {t1 t2 : List (Tok R)}
    (h1 : Ev G ws F atom a st (.ok st1 t1)) (h2 : Ev G ws F atom .skip st1 (.ok st2 t2))
    (h3 : Ev G ws F atom b st2 .fail) : Ev G ws (F + 1) atom (.seq a b) st .fail := by
  refine ⟨?_, by simp⟩; simp [eval, h1.1, h2.1, h3.1]

theorem seq_ok {F : Nat} {atom : Atom} {a b : PExpr R} {st st1 st2 st3 : St} {t1 t2 t3 : List (Tok R)}
    (h1 : Ev G ws F atom a st (.ok st1 t1)) (h2 : Ev G ws F atom .skip st1 (.ok st2 t2))
    (h3 : Ev G ws F atom b st2 (.ok st3 t3)) : Ev G ws (F + 1) atom (.seq a b) st (.ok st3 (t1 ++ t2 ++ t3)) := by
  refine ⟨?_, by simp⟩; simp [eval, h1.1, h2.1, h3.1]

theorem choice_left {F : Nat} {atom : Atom} {a b : PExpr R} {st st1 : St} {t1 : List (Tok R)}
    (h : Ev G ws F atom a st (.ok st1 t1)) : Ev G ws (F + 1) atom (.choice a b) st (.ok st1 t1) := by
  refine ⟨?_, by simp⟩; simp [eval, h.1]

theorem choice_right {F : Nat} {atom : Atom} {a b : PExpr R} {st : St} {r : PRes R}
    (h1 : Ev G ws F atom a st .fail) (h2 : Ev G ws F atom b st r) : Ev G ws (F + 1) atom (.choice a b) st r := by
  refine ⟨?_, h2.2⟩; simp [eval, h1.1, h2.1]

theorem opt_ok {F : Nat} {atom : Atom} {a : PExpr R} {st st1 : St} {t1 : List (Tok R)}
    (h : Ev G ws F atom a st (.ok st1 t1)) : Ev G ws (F + 1) atom (.opt a) st (.ok st1 t1) := by
  refine ⟨?_, by simp⟩; simp [eval, h.1]

theorem opt_none {F : Nat} {atom : Atom} {a : PExpr R} {st : St}
    (h : Ev G ws F atom a st .fail) : Ev G ws (F + 1) atom (.opt a) st (.ok st []) := by
  refine ⟨?_, by simp⟩; simp [eval, h.1]

theorem negPred_ok {F : Nat} {atom : Atom} {a : PExpr R} {st : St}
    (h : Ev G ws F atom a st .fail) : Ev G ws (F + 1) atom (.negPred a) st (.ok st []) := by
  refine ⟨?_, by simp⟩; simp [eval, h.1]

theorem negPred_fail {F : Nat} {atom : Atom} {a : PExpr R} {st st1 : St} {t1 : List (Tok R)}
    (h : Ev G ws F atom a st (.ok st1 t1)) : Ev G ws (F + 1) atom (.negPred a) st .fail := by
  refine ⟨?_, by simp⟩; simp [eval, h.1]

theorem posPred_fail {F : Nat} {atom : Atom} {a : PExpr R} {st : St}
    (h : Ev G ws F atom a st .fail) : Ev G ws (F + 1) atom (.posPred a) st .fail := by
  refine ⟨?_, by simp⟩; simp [eval, h.1]

theorem skip_off {F : Nat} {atom : Atom} {st : St} (h : atom ≠ .nonAtomic) :
    Ev G ws (F + 1) atom .skip st (.ok st []) := by
  refine ⟨?_, by simp⟩
  cases ws <;> cases atom <;> simp_all [eval]

/-- implicit whitespace: nothing to skip when the WHITESPACE rule fails here -/
theorem skip_none {F : Nat} {w : R} {st : St}
    (h : Ev G (some w) F .atomic (G w).body st .fail) : Ev G (some w) (F + 1) .nonAtomic .skip st (.ok st []) := by
  refine ⟨?_, by simp⟩; simp [eval, h.1]

theorem rule_fail {F : Nat} {atom : Atom} {r : R} {st : St}
    (h : Ev G ws F (innerAtom (G r).ty atom) (G r).body st .fail) : Ev G ws (F + 1) atom (.rule r) st .fail := by
  refine ⟨?_, by simp⟩
  simp [eval, h.1]

theorem rule_ok {F : Nat} {atom : Atom} {r : R} {st st' : St} {toks : List (Tok R)}
    (h : Ev G ws F (innerAtom (G r).ty atom) (G r).body st (.ok st' toks)) :
    Ev G ws (F + 1) atom (.rule r) st
      (.ok st' (if (G r).ty != .silent && atom != .atomic then ⟨some r, st.pos, st'.pos⟩ :: toks else toks)) := by
  refine ⟨?_, by simp⟩
  simp only [eval, h.1]
  split <;> rfl

theorem rep_none {F : Nat} {atom : Atom} {a : PExpr R} {st : St}
    (h : Ev G ws F atom a st .fail) : Ev G ws (F + 1) atom (.rep a) st (.ok st []) := by
  refine ⟨?_, by simp⟩; simp [eval, h.1]

theorem rep_some {F : Nat} {atom : Atom} {a : PExpr R} {st st1 st2 : St} {t1 t2 : List (Tok R)}
    (h1 : Ev G ws F atom a st (.ok st1 t1)) (h2 : Ev G ws F atom (.starTail a) st1 (.ok st2 t2)) :
    Ev G ws (F + 1) atom (.rep a) st (.ok st2 (t1 ++ t2)) := by
  refine ⟨?_, by simp⟩; simp [eval, h1.1, h2.1]

theorem repOnce_fail {F : Nat} {atom : Atom} {a : PExpr R} {st : St}
    (h : Ev G ws F atom a st .fail) : Ev G ws (F + 1) atom (.repOnce a) st .fail := by
  refine ⟨?_, by simp⟩; simp [eval, h.1]

theorem repOnce_some {F : Nat} {atom : Atom} {a : PExpr R} {st st1 st2 : St} {t1 t2 : List (Tok R)}
    (h1 : Ev G ws F atom a st (.ok st1 t1)) (h2 : Ev G ws F atom (.starTail a) st1 (.ok st2 t2)) :
    Ev G ws (F + 1) atom (.repOnce a) st (.ok st2 (t1 ++ t2)) := by
  refine ⟨?_, by simp⟩; simp [eval, h1.1, h2.1]

theorem starTail_stop {F : Nat} {atom : Atom} {a : PExpr R} {st st1 : St} {t1 : List (Tok R)}
    (h1 : Ev G ws F atom .skip st (.ok st1 t1)) (h2 : Ev G ws F atom a st1 .fail) :
    Ev G ws (F + 1) atom (.starTail a) st (.ok st []) := by
  refine ⟨?_, by simp⟩; simp [eval, h1.1, h2.1]

theorem starTail_step {F : Nat} {atom : Atom} {a : PExpr R} {st st1 st2 st3 : St} {t1 t2 t3 : List (Tok R)}
    (h1 : Ev G ws F atom .skip st (.ok st1 t1)) (h2 : Ev G ws F atom a st1 (.ok st2 t2))
    (hp : st2.pos ≠ st.pos) (h3 : Ev G ws F atom (.starTail a) st2 (.ok st3 t3)) :
    Ev G ws (F + 1) atom (.starTail a) st (.ok st3 (t1 ++ t2 ++ t3)) := by
  refine ⟨?_, by simp⟩
  have : (st2.pos == st.pos) = false := by simpa using hp
  simp [eval, h1.1, h2.1, h3.1, this]

/-- implicit whitespace: one WHITESPACE match, then the rest of the run -/
theorem skip_step {F : Nat} {w : R} {st st1 st2 : St} {t1 : List (Tok R)}
    (h1 : Ev G (some w) F .atomic (G w).body st (.ok st1 t1)) (hp : st1.pos ≠ st.pos)
    (h2 : Ev G (some w) F .nonAtomic .skip st1 (.ok st2 [])) :
    Ev G (some w) (F + 1) .nonAtomic .skip st (.ok st2 []) := by
  refine ⟨?_, by simp⟩
  have : (st1.pos == st.pos) = false := by simpa using hp
  simp [eval, h1.1, this, h2.1]

/-- where implicit whitespace is off, `e+` is `(e)*` that made progress -/
theorem repOnce_of_starTail {F : Nat} {atom : Atom} {a : PExpr R} {st st' : St} {toks : List (Tok R)}
    (hat : atom ≠ .nonAtomic) (h : Ev G ws (F + 1) atom (.starTail a) st (.ok st' toks)) (hp : st'.pos ≠ st.pos) :
    Ev G ws (F + 1) atom (.repOnce a) st (.ok st' toks) := by
  refine ⟨?_, by simp⟩
  have h1 := h.1
  have hskip : ∀ f, eval G ws (f + 1) atom .skip st = .ok st [] := by
    intro f; cases ws <;> cases atom <;> simp_all [eval]
  cases F with
  | zero => simp [eval] at h1
  | succ f =>
    rw [eval] at h1
    rw [eval]
    rw [hskip f] at h1
    simp only [] at h1
    cases ha : eval G ws (f + 1) atom a st with
    | ok st2 t2 =>
      rw [ha] at h1
      simp only [] at h1
      by_cases hpp : (st2.pos == st.pos) = true
      · simp only [hpp, ↓reduceIte] at h1
        simp at h1
        obtain ⟨rfl, rfl⟩ := h1
        simp at hpp
        exact absurd hpp hp
      · simp only [hpp] at h1
        cases hs : eval G ws (f + 1) atom (.starTail a) st2 with
        | ok st3 t3 =>
          rw [hs] at h1
          simp at h1
          obtain ⟨rfl, rfl⟩ := h1
          simp [hs]
        | fail => rw [hs] at h1; simp at h1
        | fuel => rw [hs] at h1; simp at h1
    | fail =>
      rw [ha] at h1
      simp at h1
      obtain ⟨rfl, rfl⟩ := h1
      exact absurd rfl hp
    | fuel => rw [ha] at h1; simp at h1

end Ev

end Hbs.Pest
