import HbsModel.Lemmas.IfBlock
import HbsModel.Lemmas.GrammarNF
import HbsModel.Lemmas.RawBlock
import HbsModel.Lemmas.NameTag
/-
  `{{#if v}}` X `{{/if}}` for EVERY body text X (non-empty, not beginning with whitespace, without `{{`, not ending in `{` or `\`):
  one element of `template` – the pairs helper_block_start …, template, raw_text, helper_block_end … – wherever it stands and
  whatever follows.  The opening and closing tags are decided on the regenerated grammar, the body by the text lemmas.
-/
namespace Hbs.PlainText
open Hbs Hbs.Pest Hbs.Grammar

def ifOpenSrc : Str := ['{', '{', '#', 'i', 'f', ' ', 'v', '}', '}']
def ifCloseSrc : Str := ['{', '{', '/', 'i', 'f', '}', '}']
def ifXSrc (X : Str) : Str := ifOpenSrc ++ (X ++ ifCloseSrc)

def ifOpenToks : List (Tok Rule) :=
  [⟨some .r_helper_block_start, 0, 9⟩, ⟨some .r_identifier, 3, 5⟩, ⟨some .r_helper_parameter, 6, 7⟩, ⟨some .r_reference, 6, 7⟩,
   ⟨some .r_path_inline, 6, 7⟩, ⟨some .r_path_id, 6, 7⟩]

def ifXToks (n : Nat) : List (Tok Rule) :=
  ifOpenToks ++ [⟨some .r_template, 9, 9 + n⟩, ⟨some .r_raw_text, 9, 9 + n⟩, ⟨some .r_helper_block_end, 9 + n, 16 + n⟩, ⟨some .r_identifier, 12 + n, 14 + n⟩]

theorem if_open_decided : evalK rules ws false 120 .nonAtomic (.rule .r_helper_block_start) 0 ifOpenSrc = some (.ok 9 [] ifOpenToks) :=
  KRes.isOkWith_eq (by decide)

theorem if_close_decided : evalK rules ws false 80 .nonAtomic (.rule .r_helper_block_end) 0 ifCloseSrc
    = some (.ok 7 [] [⟨some .r_helper_block_end, 0, 7⟩, ⟨some .r_identifier, 3, 5⟩]) :=
  KRes.isOkWith_eq (by decide)

/-- decided: on `{{#` text, expression and html_expression fail; on `{{/` every element of `template` and both else tags fail -/
theorem before_block_decided : evalK rules ws false 80 .nonAtomic
    (.choice (.choice (.rule .r_raw_text) (.rule .r_expression)) (.rule .r_html_expression)) 0 ['{', '{', '#'] = some .fail :=
  KRes.isFail_eq (by decide)
theorem alt_at_close_decided : evalK rules ws false 120 .nonAtomic templateAlt 0 ['{', '{', '/'] = some .fail := KRes.isFail_eq (by decide)
theorem chain_at_close_decided : evalK rules ws false 80 .nonAtomic (.rule .r_invert_chain_tag) 0 ['{', '{', '/'] = some .fail := KRes.isFail_eq (by decide)
theorem invert_at_close_decided : evalK rules ws false 80 .nonAtomic (.rule .r_invert_tag) 0 ['{', '{', '/'] = some .fail := KRes.isFail_eq (by decide)

theorem helper_block_nf : unfoldS rules keepSilent 8 (rules .r_helper_block).body =
    .seq (.seq (.seq (.seq (.rule .r_helper_block_start) (.rule .r_template)) (.rep (.seq (.rule .r_invert_chain_tag) (.rule .r_template))))
      (.opt (.seq (.rule .r_invert_tag) (.rule .r_template)))) (.rule .r_helper_block_end) := rfl

/-- what the body of the block may be -/
structure BlockBody (X : Str) : Prop where
  text : TextBeforeTag X
  first : ∃ c t, X = c :: t ∧ isPestWs c = false
  noBs : ∀ c ∈ X, c ≠ '\\'

theorem rawElem_step_nb (p : Nat) (c : Char) (rest : Str) (hc : c ≠ '\\') (hm : matchStr ['{', '{'] ⟨p, c :: rest⟩ = none) :
    E 10 .compound rawElem ⟨p, c :: rest⟩ (.ok ⟨p + 1, rest⟩ []) := by
  have := Ev.choice_right (b := .seq (.negPred (.str ['{', '{'])) (.builtin .any))
    ((escape_fails_not_bs .compound p c rest hc).weaken (F' := 9) (by omega))
    (Ev.seq_ok (F := 8) (Ev.negPred_ok (Ev.str_fail (F := 6) hm)) (Ev.skip_off (by simp)) Ev.any_ok)
  simpa [rawElem] using this

/-- the loop of `raw_text` over a body without backslashes, with fuel that does not depend on what follows the tag -/
theorem textLoop_nb (X r : Str) (hX : X = [] ∨ TextBeforeTag X) (hnb : ∀ c ∈ X, c ≠ '\\') (p : Nat) :
    E (X.length + 17) .compound (.starTail rawElem) ⟨p, X ++ '{' :: '{' :: r⟩ (.ok ⟨p + X.length, '{' :: '{' :: r⟩ []) := by
  induction X generalizing p with
  | nil => exact Ev.starTail_stop (F := 16) (Ev.skip_off (by simp)) ((rawElem_at_tag p r).weaken (by omega))
  | cons c t ih =>
    have hst : TextBeforeTag (c :: t) := by
      rcases hX with h | h
      · cases h
      · exact h
    have ht : t = [] ∨ TextBeforeTag t := by
      by_cases h : t = []
      · exact Or.inl h
      · exact Or.inr (hst.tail h)
    have hm := matchOpen_append_none (c :: t) ('{' :: '{' :: r) p hst (by simp)
    have h := Ev.starTail_step (F := t.length + 17) (st := ⟨p, c :: t ++ '{' :: '{' :: r⟩) (Ev.skip_off (by simp))
      ((rawElem_step_nb p c _ (hnb c (by simp)) (by simpa using hm)).weaken (by omega)) (by simp)
      (ih ht (fun x hx => hnb x (by simp [hx])) (p + 1))
    have e2 : p + (c :: t).length = p + 1 + t.length := by rw [List.length_cons]; omega
    rw [List.cons_append, e2, show (c :: t).length + 17 = t.length + 17 + 1 by simp]
    simpa using h

theorem raw_text_before_tag_nb (X r : Str) (hne : X ≠ []) (hX : TextBeforeTag X) (hnb : ∀ c ∈ X, c ≠ '\\') (p : Nat) :
    E (X.length + 20) .nonAtomic (.rule .r_raw_text) ⟨p, X ++ '{' :: '{' :: r⟩
      (.ok ⟨p + X.length, '{' :: '{' :: r⟩ [⟨some .r_raw_text, p, p + X.length⟩]) := by
  have hloop := textLoop_nb X r (Or.inr hX) hnb p
  have hpos : p + X.length ≠ p := by
    have : X.length ≠ 0 := fun h0 => hne (List.eq_nil_of_length_eq_zero h0)
    omega
  have hrep := Ev.repOnce_of_starTail (F := X.length + 16) (atom := .compound) (by simp) hloop (by simpa using hpos)
  have hr := Ev.rule_ok (G := rules) (ws := ws) (atom := .nonAtomic) (r := Rule.r_raw_text) (F := X.length + 17)
    (st := ⟨p, X ++ '{' :: '{' :: r⟩) (st' := ⟨p + X.length, '{' :: '{' :: r⟩) (toks := [])
    (by simpa [raw_text_def, innerAtom] using hrep)
  have : (rules .r_raw_text).ty = .compound := rfl
  simp only [this] at hr
  exact hr.weaken (by omega)

theorem BlockBody.ne {X : Str} (h : BlockBody X) : X ≠ [] := by
  obtain ⟨c, t, rfl, _⟩ := h.first; simp

theorem fail_of_decidedK (e : PExpr Rule) (he : noSoi e = true) (F : Nat) (k : Str) (h : evalK rules ws false F .nonAtomic e 0 k = some .fail)
    (q : Nat) (x : Str) : E F .nonAtomic e ⟨q, k ++ x⟩ .fail := by
  have := evalK_at rules ws rules_noSoi false x (by simp) F .nonAtomic e he k .fail h q
  exact ⟨by simpa using this, by simp⟩

/-- **the block is one element of `template`** – for every body text -/
theorem ifX_tagAt (X : Str) (hX : BlockBody X) : TagAt (ifXSrc X) (X.length + 200) (ifXToks X.length) := by
  intro p tail
  obtain ⟨c0, t0, hX0, hc0⟩ := hX.first
  have hsrc : ifXSrc X ++ tail = ifOpenSrc ++ (X ++ '{' :: '{' :: ('/' :: 'i' :: 'f' :: '}' :: '}' :: tail)) := by
    simp [ifXSrc, ifCloseSrc]
  -- the opening tag
  have hstart : E 120 .nonAtomic (.rule .r_helper_block_start) ⟨p, ifOpenSrc ++ (X ++ '{' :: '{' :: ('/' :: 'i' :: 'f' :: '}' :: '}' :: tail))⟩
      (.ok ⟨p + 9, X ++ '{' :: '{' :: ('/' :: 'i' :: 'f' :: '}' :: '}' :: tail)⟩ (ifOpenToks.map (shiftTok p))) := by
    have := evalK_at rules ws rules_noSoi false (X ++ '{' :: '{' :: ('/' :: 'i' :: 'f' :: '}' :: '}' :: tail)) (by simp) 120 .nonAtomic _ rfl ifOpenSrc _ if_open_decided p
    refine ⟨?_, by simp⟩
    rw [this]; simp [shiftRes, embedK, Nat.add_comm]
  -- the body: one raw_text, then nothing more in front of `{{/`
  have hskipX : E 6 .nonAtomic .skip ⟨p + 9, X ++ '{' :: '{' :: ('/' :: 'i' :: 'f' :: '}' :: '}' :: tail)⟩
      (.ok ⟨p + 9, X ++ '{' :: '{' :: ('/' :: 'i' :: 'f' :: '}' :: '}' :: tail)⟩ []) := by
    rw [hX0]; exact skip_at c0 _ hc0 (p + 9)
  have hraw := raw_text_before_tag_nb X ('/' :: 'i' :: 'f' :: '}' :: '}' :: tail) hX.ne hX.text hX.noBs (p + 9)
  have haltX : E (X.length + 50) .nonAtomic templateAlt ⟨p + 9, X ++ '{' :: '{' :: ('/' :: 'i' :: 'f' :: '}' :: '}' :: tail)⟩
      (.ok ⟨p + 9 + X.length, '{' :: '{' :: ('/' :: 'i' :: 'f' :: '}' :: '}' :: tail)⟩ [⟨some .r_raw_text, p + 9, p + 9 + X.length⟩]) := by
    rw [templateAlt_eq, altsBefore_eq]
    unfold alts4
    have h0 := hraw.weaken (F' := X.length + 40) (by omega)
    have := Ev.choice_left (b := .rule .r_partial_block) (Ev.choice_left (b := .rule .r_partial_expression)
      (Ev.choice_left (b := .rule .r_decorator_block) (Ev.choice_left (b := .rule .r_decorator_expression)
        (Ev.choice_left (b := .rule .r_hbs_comment_compact) (Ev.choice_left (b := .rule .r_hbs_comment)
          (Ev.choice_left (b := .rule .r_raw_block) (Ev.choice_left (b := .rule .r_helper_block) (Ev.choice_left (b := .rule .r_html_expression)
            (Ev.choice_left (b := .rule .r_expression) h0)))))))))
    exact this.weaken (by omega)
  have hskipC : ∀ q, E 6 .nonAtomic .skip ⟨q, '{' :: '{' :: ('/' :: 'i' :: 'f' :: '}' :: '}' :: tail)⟩
      (.ok ⟨q, '{' :: '{' :: ('/' :: 'i' :: 'f' :: '}' :: '}' :: tail)⟩ []) := fun q => skip_at '{' _ (by decide) q
  have haltC : E 120 .nonAtomic templateAlt ⟨p + 9 + X.length, '{' :: '{' :: ('/' :: 'i' :: 'f' :: '}' :: '}' :: tail)⟩ .fail :=
    fail_of_decidedK templateAlt rfl 120 ['{', '{', '/'] alt_at_close_decided _ _
  have htail := Ev.starTail_stop (F := X.length + 130) (a := templateAlt) ((hskipC (p + 9 + X.length)).weaken (by omega)) (haltC.weaken (by omega))
  have hrep := Ev.rep_some (F := X.length + 131) (haltX.weaken (by omega)) (htail.weaken (by omega))
  have htmpl := Ev.rule_ok (G := rules) (ws := ws) (atom := .nonAtomic) (r := Rule.r_template) (F := X.length + 132)
    (st := ⟨p + 9, X ++ '{' :: '{' :: ('/' :: 'i' :: 'f' :: '}' :: '}' :: tail)⟩)
    (st' := ⟨p + 9 + X.length, '{' :: '{' :: ('/' :: 'i' :: 'f' :: '}' :: '}' :: tail)⟩) (by rw [template_def]; exact hrep)
  have hty : (rules .r_template).ty = .normal := rfl
  simp only [hty] at htmpl
  -- no else tag, then the closing tag
  have hchain : E (X.length + 140) .nonAtomic (.rep (.seq (.rule .r_invert_chain_tag) (.rule .r_template)))
      ⟨p + 9 + X.length, '{' :: '{' :: ('/' :: 'i' :: 'f' :: '}' :: '}' :: tail)⟩ (.ok ⟨p + 9 + X.length, '{' :: '{' :: ('/' :: 'i' :: 'f' :: '}' :: '}' :: tail)⟩ []) :=
    (Ev.rep_none (F := 82) (Ev.seq_fail1 (F := 81) ((fail_of_decidedK _ rfl 80 ['{', '{', '/'] chain_at_close_decided _ _).weaken (by omega)))).weaken (by omega)
  have hinv : E (X.length + 140) .nonAtomic (.opt (.seq (.rule .r_invert_tag) (.rule .r_template)))
      ⟨p + 9 + X.length, '{' :: '{' :: ('/' :: 'i' :: 'f' :: '}' :: '}' :: tail)⟩ (.ok ⟨p + 9 + X.length, '{' :: '{' :: ('/' :: 'i' :: 'f' :: '}' :: '}' :: tail)⟩ []) :=
    (Ev.opt_none (F := 82) (Ev.seq_fail1 (F := 81) ((fail_of_decidedK _ rfl 80 ['{', '{', '/'] invert_at_close_decided _ _).weaken (by omega)))).weaken (by omega)
  have hend : E 80 .nonAtomic (.rule .r_helper_block_end) ⟨p + 9 + X.length, '{' :: '{' :: ('/' :: 'i' :: 'f' :: '}' :: '}' :: tail)⟩
      (.ok ⟨p + 9 + X.length + 7, tail⟩ [⟨some .r_helper_block_end, p + 9 + X.length, p + 9 + X.length + 7⟩, ⟨some .r_identifier, p + 9 + X.length + 3, p + 9 + X.length + 5⟩]) := by
    have := evalK_at rules ws rules_noSoi false tail (by simp) 80 .nonAtomic _ rfl ifCloseSrc _ if_close_decided (p + 9 + X.length)
    refine ⟨?_, by simp⟩
    rw [show ('{' :: '{' :: ('/' :: 'i' :: 'f' :: '}' :: '}' :: tail)) = ifCloseSrc ++ tail from rfl, this]
    simp [shiftRes, embedK, shiftTok, Nat.add_comm]
  have hbody := Ev.seq_ok (F := X.length + 150)
    (Ev.seq_ok (F := X.length + 149)
      (Ev.seq_ok (F := X.length + 148)
        (Ev.seq_ok (F := X.length + 147) (hstart.weaken (by omega)) (hskipX.weaken (by omega)) (htmpl.weaken (by omega)))
        ((hskipC _).weaken (by omega)) (hchain.weaken (by omega)))
      ((hskipC _).weaken (by omega)) (hinv.weaken (by omega)))
    ((hskipC _).weaken (by omega)) (hend.weaken (by omega))
  have hblock := Ev.rule_ok (G := rules) (ws := ws) (atom := .nonAtomic) (r := Rule.r_helper_block) (F := X.length + 150 + 1 + 8)
    (st := ⟨p, ifXSrc X ++ tail⟩) (st' := ⟨p + 9 + X.length + 7, tail⟩)
    (by rw [hsrc]; exact E.of_nf (atom := .nonAtomic) .r_helper_block helper_block_nf hbody)
  have hty2 : (rules .r_helper_block).ty = .silent := rfl
  simp only [hty2] at hblock
  have hbefore : E 80 .nonAtomic (.choice (.choice (.rule .r_raw_text) (.rule .r_expression)) (.rule .r_html_expression)) ⟨p, ifXSrc X ++ tail⟩ .fail := by
    have := fail_of_decidedK _ rfl 80 ['{', '{', '#'] before_block_decided p (['i', 'f', ' ', 'v', '}', '}'] ++ (X ++ ifCloseSrc) ++ tail)
    simpa [ifXSrc, ifOpenSrc] using this
  rw [templateAlt_eq, altsBefore_eq]
  unfold alts4
  have h4 := Ev.choice_right (F := X.length + 170) (hbefore.weaken (by omega)) ((by simpa using hblock : E _ _ _ _ _).weaken (by omega))
  have := Ev.choice_left (b := .rule .r_partial_block) (Ev.choice_left (b := .rule .r_partial_expression)
    (Ev.choice_left (b := .rule .r_decorator_block) (Ev.choice_left (b := .rule .r_decorator_expression)
      (Ev.choice_left (b := .rule .r_hbs_comment_compact) (Ev.choice_left (b := .rule .r_hbs_comment)
        (Ev.choice_left (b := .rule .r_raw_block) h4))))))
  have hlenT : (ifXSrc X).length = X.length + 16 := by simp [ifXSrc, ifOpenSrc, ifCloseSrc] <;> omega
  have := this.weaken (F' := X.length + 200) (by omega)
  simpa [ifXToks, ifOpenToks, shiftTok, hlenT, Nat.add_comm, Nat.add_left_comm, Nat.add_assoc] using this

end Hbs.PlainText
