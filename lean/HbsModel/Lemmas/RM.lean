import HbsModel.Render
/-
  Simp set for the render monad.
-/
namespace Hbs
open RM

@[simp] theorem RM.bind_def {α β : Type} (x : RM α) (f : α → RM β) : (x >>= f) = RM.bnd x f := rfl
@[simp] theorem RM.pure_def {α : Type} (a : α) : (Pure.pure a : RM α) = RM.ret a := rfl

@[simp] theorem RM.bnd_ret {α β : Type} (a : α) (f : α → RM β) : RM.bnd (RM.ret a) f = f a := by
  funext rc out; simp [RM.bnd, RM.ret]

@[simp] theorem RM.ret_apply {α : Type} (a : α) (rc : RC) (out : Out) : RM.ret a rc out = .ok a rc out := rfl

@[simp] theorem RM.get_apply (rc : RC) (out : Out) : RM.get rc out = .ok rc rc out := rfl
@[simp] theorem RM.modify_apply (f : RC → RC) (rc : RC) (out : Out) : RM.modify f rc out = .ok () (f rc) out := rfl
@[simp] theorem RM.modifyAux_apply (f : RC → RC) (rc : RC) (out : Out) :
    RM.modifyAux f rc out = .ok ()
      { (f rc) with blocks := rc.blocks, disableEscape := rc.disableEscape, indentString := rc.indentString, pbStack := rc.pbStack, pbBinding := rc.pbBinding }
      out := rfl
theorem RM.bracket_apply {α : Type} (enter : RC → RC) (x : RM α) (leave : RC → RC → RC) (rc : RC) (out : Out) :
    RM.bracket enter x leave rc out = match x (enter rc) out with
      | .ok a rc1 out1 => .ok a (leave rc rc1) out1
      | r => r := rfl
@[simp] theorem RM.throw_apply {α : Type} (e : RenderError) (rc : RC) (out : Out) :
    (RM.throw e : RM α) rc out = .err e out := rfl
@[simp] theorem RM.throwR_apply {α : Type} (r : RReason) (rc : RC) (out : Out) :
    (RM.throwR r : RM α) rc out = .err (.of r) out := rfl
@[simp] theorem RM.panic_apply {α : Type} (s : String) (rc : RC) (out : Out) :
    (RM.panic s : RM α) rc out = .panic s := rfl
@[simp] theorem RM.outOfFuel_apply {α : Type} (rc : RC) (out : Out) :
    (RM.outOfFuel : RM α) rc out = .fuel := rfl

theorem RM.bnd_apply {α β : Type} (x : RM α) (f : α → RM β) (rc : RC) (out : Out) :
    RM.bnd x f rc out = match x rc out with
      | .ok a rc' out' => f a rc' out'
      | .err e o => .err e o
      | .panic s => .panic s
      | .fuel => .fuel := rfl

@[simp] theorem RM.bnd_ok {α β : Type} (x : RM α) (f : α → RM β) (rc rc' : RC) (out out' : Out) (a : α)
    (h : x rc out = .ok a rc' out') : RM.bnd x f rc out = f a rc' out' := by
  simp [RM.bnd, h]

theorem RM.bnd_err {α β : Type} (x : RM α) (f : α → RM β) (rc : RC) (out o : Out) (e : RenderError)
    (h : x rc out = .err e o) : RM.bnd x f rc out = .err e o := by
  simp [RM.bnd, h]

/-- the text written so far -/
def Out.written (o : Out) : Str := o.text

@[simp] theorem write_empty (rc : RC) (out : Out) : RM.write [] rc out = .ok () rc out := by
  simp [RM.write]

theorem write_ok (s : Str) (rc : RC) (out : Out) (hs : s ≠ []) (hf : out.failAt ≠ some out.count) :
    RM.write s rc out = .ok () rc { out with segs := s :: out.segs, count := out.count + 1 } := by
  have : s.isEmpty = false := by cases s <;> simp_all
  simp [RM.write, this, hf]

theorem write_fail (s : Str) (rc : RC) (out : Out) (hs : s ≠ []) (hf : out.failAt = some out.count) :
    RM.write s rc out = .err (.of .ioError) out := by
  have : s.isEmpty = false := by cases s <;> simp_all
  simp [RM.write, this, hf]

end Hbs
