import HbsModel.Lemmas.CallNameTag
/-
  compile2 on  L ++ "{{name 1}}" ++ W ++ R'  for every identifier: text, the helper call with the literal argument, text – with
  the position table.
-/
namespace Hbs.PlainText
open Hbs Hbs.Pest Hbs.Grammar

theorem parse_text_callN_text (nm L W R' : Str) (hnm : IdentName nm) (hL : L = [] ∨ TextBeforeTag L) (hA : TextAfterTag W R') :
    let a := L.length
    let b := a + (nm.length + 6)
    let d := b + W.length
    let n := d + R'.length
    Pest.parse rules ws .r_handlebars (L ++ callNSrc nm ++ (W ++ R'))
      = .ok ⟨n, []⟩ (⟨some .r_template, 0, if R' = [] then b else n⟩ ::
          (rawTok 0 a ++ [⟨some .r_expression, a, b⟩, ⟨some .r_identifier, a + 2, a + 2 + nm.length⟩, ⟨some .r_helper_parameter, a + 3 + nm.length, a + 4 + nm.length⟩,
              ⟨some .r_literal, a + 3 + nm.length, a + 4 + nm.length⟩, ⟨some .r_number_literal, a + 3 + nm.length, a + 4 + nm.length⟩] ++ rawTok d n ++ [⟨none, n, n⟩])) := by
  intro a b d n
  have h := handlebars_text_tag_text L (nm ++ [' ', '1', '}', '}']) W R' (nm.length + 160) _ hL (callN_tagAt nm hnm) hA
  have hn : (L ++ callNSrc nm ++ (W ++ R')).length = n := by simp [n, d, b, a, callNSrc]; omega
  simp only [] at h
  have h' := h.weaken (F' := defaultFuel (L ++ callNSrc nm ++ (W ++ R')).length) (by
    unfold defaultFuel
    have : (L ++ '{' :: '{' :: (nm ++ [' ', '1', '}', '}']) ++ (W ++ R')).length = n := hn
    rw [this, hn]
    have : nm.length + 6 ≤ n := by simp only [n, d, b]; omega
    omega)
  unfold Pest.parse
  refine Eq.trans h'.1 ?_
  have e1 : (L ++ '{' :: '{' :: (nm ++ [' ', '1', '}', '}']) ++ (W ++ R')).length = n := hn
  have e2 : ('{' :: '{' :: (nm ++ [' ', '1', '}', '}'])).length = nm.length + 6 := by simp
  simp only [e1, e2, callNToks, List.map, shiftTok, Nat.zero_add]
  rw [show nm.length + 6 + L.length = b by omega, show 2 + L.length = a + 2 by omega, show 2 + nm.length + L.length = a + 2 + nm.length by omega,
    show 3 + nm.length + L.length = a + 3 + nm.length by omega, show 4 + nm.length + L.length = a + 4 + nm.length by omega,
    show L.length + (nm.length + 6) = b by omega, show b + W.length + R'.length = n by omega, show b + W.length = d by omega]

/-- the call `{{h 1}}` as compiled: the helper name and the literal 1 -/
def callNHT (nm : Str) : HelperT :=
  HelperG.new { name := .name nm, params := [.lit (.num (.pos 1))], hash := [], blockParam := none, omitPreWs := false, omitProWs := false }
    false false false

theorem step_callN (nm src : Str) (opts : TemplateOptions) (f a : Nat) (T0 : Tmpl) (ep : Option Nat) (r0 : CTok) (rest : List CTok)
    (hep : ep.getD 0 = a) (hid : tokStr src ⟨some .r_identifier, a + 2, a + 2 + nm.length, []⟩ = nm)
    (hlit : tokStr src ⟨some .r_literal, a + 3 + nm.length, a + 4 + nm.length, []⟩ = ['1']) (hr0 : a + (nm.length + 6) ≤ r0.e) :
    compileStep src opts (f + 5) { tmplStack := [T0], endPos := ep } ⟨some .r_expression, a, a + (nm.length + 6), []⟩
        (⟨some .r_identifier, a + 2, a + 2 + nm.length, []⟩ :: ⟨some .r_helper_parameter, a + 3 + nm.length, a + 4 + nm.length, []⟩ :: ⟨some .r_literal, a + 3 + nm.length, a + 4 + nm.length, []⟩ ::
         ⟨some .r_number_literal, a + 3 + nm.length, a + 4 + nm.length, []⟩ :: r0 :: rest)
      = .ok ({ tmplStack := [T0.pushElement (.expr (callNHT nm)) (lineCol src a).1 (lineCol src a).2], endPos := some (a + (nm.length + 6)) }, r0 :: rest) := by
  have h1 : ¬ (r0.e < a + (nm.length + 6)) := by omega
  have h2 : a + 4 + nm.length < r0.e := by omega
  have h3 : a + 4 + nm.length < a + (nm.length + 6) := by omega
  have hj : Json.parse ['1'] = some (.num (.pos 1)) := by rfl
  simp [compileStep, hep, isBlockStart, isExprLike, parseExpression, parseName, parseParam, parseExprLoop, hid, hlit, hj, h1, h2, h3,
    frontMut, callNHT, str, HelperG.new, dropInside]

/-- **compile2 on  L ++ {{h 1}} ++ W ++ R'** with the position table: the tag's entry is the line and column of its `{{` -/
theorem compile_text_callN_text_pos (nm L W R' : Str) (opts : TemplateOptions) (hnm : IdentName nm)
    (hL : L = [] ∨ TextBeforeTag L) (hA : TextAfterTag W R') :
    ∃ extra, compile2 (L ++ callNSrc nm ++ (W ++ R')) opts = .ok (.mk opts.name
      ((leftT L L).elements ++ [.expr (callNHT nm)] ++ (if W ++ R' = [] then [] else [.raw (W ++ R')]))
      ((leftT L L).mapping ++ [lineCol (L ++ callNSrc nm ++ (W ++ R')) L.length] ++ extra)) := by
  have hparse := parse_text_callN_text nm L W R' hnm hL hA
  simp only [] at hparse
  have hn : (L ++ callNSrc nm ++ (W ++ R')).length = L.length + (nm.length + 6) + W.length + R'.length := by
    simp [callNSrc]; omega
  have hs0 : slice? (L ++ callNSrc nm ++ (W ++ R')) 0 L.length = some L := by
    rw [List.append_assoc]; exact slice_prefix L _
  have hsR : slice? (L ++ callNSrc nm ++ (W ++ R')) (L.length + (nm.length + 6)) (L ++ callNSrc nm ++ (W ++ R')).length = some (W ++ R') :=
    slice_suffix (L ++ callNSrc nm) (W ++ R') _ (by simp [callNSrc])
  have hid : tokStr (L ++ callNSrc nm ++ (W ++ R')) ⟨some .r_identifier, L.length + 2, L.length + 2 + nm.length, []⟩ = nm := by
    have : L ++ callNSrc nm ++ (W ++ R') = (L ++ ['{', '{']) ++ nm ++ ([' ', '1', '}', '}'] ++ (W ++ R')) := by simp [callNSrc]
    rw [this]
    exact tokStr_mid (L ++ ['{', '{']) nm _ ⟨some .r_identifier, L.length + 2, L.length + 2 + nm.length, []⟩ (by simp) (by simp)
  have hlit : tokStr (L ++ callNSrc nm ++ (W ++ R')) ⟨some .r_literal, L.length + 3 + nm.length, L.length + 4 + nm.length, []⟩ = ['1'] := by
    have : L ++ callNSrc nm ++ (W ++ R') = (L ++ ['{', '{'] ++ nm ++ [' ']) ++ ['1'] ++ (['}', '}'] ++ (W ++ R')) := by simp [callNSrc]
    rw [this]
    exact tokStr_mid (L ++ ['{', '{'] ++ nm ++ [' ']) ['1'] _ ⟨some .r_literal, L.length + 3 + nm.length, L.length + 4 + nm.length, []⟩ (by simp; omega) (by simp; omega)
  generalize hsrc : L ++ callNSrc nm ++ (W ++ R') = src at *
  obtain ⟨m, htail⟩ := loop_tail_pos src W R' opts (3 * (rawTok 0 L.length).length + 3 * (rawTok (L.length + (nm.length + 6) + W.length) src.length).length + 40)
    (L.length + (nm.length + 6)) ((leftT L L).pushElement (.expr (callNHT nm)) (lineCol src L.length).1 (lineCol src L.length).2) false hn hsR
  refine ⟨m, ?_⟩
  unfold compile2 compile2Inner
  rw [hparse]
  simp only []
  rw [attachEscapes_noEsc _ (by
    intro t ht
    simp only [List.mem_cons, List.mem_append, List.not_mem_nil, or_false] at ht
    rcases ht with rfl | ((h | rfl | rfl | rfl | rfl | rfl) | h) | rfl
    · show ((some Rule.r_template : Option Rule) == some Rule.r_escape) = false; decide
    · exact rawTok_rule _ _ t h
    · show ((some Rule.r_expression : Option Rule) == some Rule.r_escape) = false; decide
    · show ((some Rule.r_identifier : Option Rule) == some Rule.r_escape) = false; decide
    · show ((some Rule.r_helper_parameter : Option Rule) == some Rule.r_escape) = false; decide
    · show ((some Rule.r_literal : Option Rule) == some Rule.r_escape) = false; decide
    · show ((some Rule.r_number_literal : Option Rule) == some Rule.r_escape) = false; decide
    · exact rawTok_rule _ _ t h
    · show ((none : Option Rule) == some Rule.r_escape) = false; decide)]
  rw [← hn]
  simp only [List.map_cons, List.map_append, List.length_cons, List.length_append, List.length_map, List.map_nil, List.length_nil,
    List.append_assoc, List.cons_append, List.nil_append]
  rw [show 4 * ((rawTok 0 L.length).length + ((rawTok (L.length + (nm.length + 6) + W.length) src.length).length + (0 + 1) + 1 + 1 + 1 + 1 + 1) + 1) + 16
      = ((3 * (rawTok 0 L.length).length + 3 * (rawTok (L.length + (nm.length + 6) + W.length) src.length).length + 35
          + ((rawTok (L.length + (nm.length + 6) + W.length) src.length).length + 2)) + 5 + 1) + (1 + (rawTok 0 L.length).length) by omega]
  rw [loop_head src L opts _ _ _ hs0]
  obtain ⟨r0, rest, hrest, hr0⟩ := tail_head (L.length + (nm.length + 6)) W.length src.length (by omega)
  have hep : (if L = [] then none else some L.length : Option Nat).getD 0 = L.length := by
    by_cases hLe : L = [] <;> simp [hLe]
  have hstep := step_callN nm src opts
    (3 * (rawTok 0 L.length).length + 3 * (rawTok (L.length + (nm.length + 6) + W.length) src.length).length + 35
      + ((rawTok (L.length + (nm.length + 6) + W.length) src.length).length + 2))
    L.length (leftT L L) _ r0 rest hep hid hlit hr0
  rw [hrest] at htail ⊢
  simp only [plainCTok]
  rw [loop_step src opts _ (st1 L) _ _ _ _ (by unfold st1; exact hstep)]
  rw [show 3 * (rawTok 0 L.length).length + 3 * (rawTok (L.length + (nm.length + 6) + W.length) src.length).length + 35
        + ((rawTok (L.length + (nm.length + 6) + W.length) src.length).length + 2) + 5
      = 3 * (rawTok 0 L.length).length + 3 * (rawTok (L.length + (nm.length + 6) + W.length) src.length).length + 40
        + ((rawTok (L.length + (nm.length + 6) + W.length) src.length).length + 2) by omega]
  rw [htail]
  simp [Tmpl.pushElement, Tmpl.elements, Tmpl.mapping]

end Hbs.PlainText
