import HbsModel.Pest
import HbsModel.Lemmas.PestMono
/-
  Totality of the PEG interpreter on a well-formed grammar, with an explicit fuel bound.

  `nullable` over-approximates "can succeed without consuming"; `need` is the least rank bound under which every rule
  that can be entered at the position where an expression starts has a smaller rank (no left recursion), the implicit
  whitespace skip counting as rank 0.  For a grammar whose tables `nul`, `rank` pass the two checks below – decided by the
  kernel on the regenerated grammar – evaluation with fuel `n * (K * (S + 1) + 1) + k * (S + 1) + size e` never answers
  `.fuel` on an input of `n` characters: parsing terminates on every string, and the recursion depth is linear in it.
-/
namespace Hbs.Pest
variable {R : Type}

def PExpr.size : PExpr R → Nat
  | .seq a b => a.size + b.size + 1
  | .choice a b => a.size + b.size + 1
  | .opt a => a.size + 1
  | .rep a => a.size + 2
  | .repOnce a => a.size + 2
  | .posPred a => a.size + 1
  | .negPred a => a.size + 1
  | .starTail a => a.size + 1
  | _ => 1

theorem PExpr.size_pos (e : PExpr R) : 1 ≤ e.size := by
  cases e <;> simp [PExpr.size]

def nullable (nul : R → Bool) : PExpr R → Bool
  | .str s => s.isEmpty
  | .insens s => s.isEmpty
  | .range _ _ => false
  | .rule r => nul r
  | .builtin .eoi => true
  | .builtin .soi => true
  | .builtin _ => false
  | .seq a b => nullable nul a && nullable nul b
  | .choice a b => nullable nul a || nullable nul b
  | .opt _ => true
  | .rep _ => true
  | .repOnce a => nullable nul a
  | .posPred _ => true
  | .negPred _ => true
  | .skip => true
  | .starTail _ => true

def need (nul : R → Bool) (rank : R → Nat) : PExpr R → Nat
  | .rule r => rank r + 1
  | .seq a b => max (need nul rank a) (if nullable nul a then max 1 (need nul rank b) else 0)
  | .choice a b => max (need nul rank a) (need nul rank b)
  | .opt a => need nul rank a
  | .rep a => max 1 (need nul rank a)
  | .repOnce a => max 1 (need nul rank a)
  | .posPred a => need nul rank a
  | .negPred a => need nul rank a
  | .starTail a => max 1 (need nul rank a)
  | .skip => 1
  | _ => 0

theorem matchStr_adv (s : Str) (st st' : St) (h : matchStr s st = some st') :
    st'.pos = st.pos + s.length ∧ st.rest.length = s.length + st'.rest.length := by
  induction s generalizing st with
  | nil => simp [matchStr] at h; subst h; simp
  | cons c cs ih =>
    cases hr : st.rest with
    | nil => simp [matchStr, hr] at h
    | cons d ds =>
      simp only [matchStr, hr] at h
      split at h
      · have := ih _ h; simp at this; simp; omega
      · cases h

theorem matchInsens_adv (s : Str) (st st' : St) (h : matchInsens s st = some st') :
    st'.pos = st.pos + s.length ∧ st.rest.length = s.length + st'.rest.length := by
  induction s generalizing st with
  | nil => simp [matchInsens] at h; subst h; simp
  | cons c cs ih =>
    cases hr : st.rest with
    | nil => simp [matchInsens, hr] at h
    | cons d ds =>
      simp only [matchInsens, hr] at h
      split at h
      · have := ih _ h; simp at this; simp; omega
      · cases h

theorem matchChar_adv (p : Char → Bool) (st st' : St) (h : matchChar p st = some st') :
    st'.pos = st.pos + 1 ∧ st.rest.length = 1 + st'.rest.length := by
  cases hr : st.rest with
  | nil => simp [matchChar, hr] at h
  | cons d ds =>
    simp only [matchChar, hr] at h
    split at h
    · cases h; simp; omega
    · cases h

/-- the interpreter only moves forward, by exactly the characters it takes off the input; an expression the analysis does
    not call nullable takes at least one -/
theorem eval_adv (G : R → RuleDef R) (ws : Option R) (nul : R → Bool)
    (hnul : ∀ r, nul r = false → nullable nul (G r).body = false)
    (F : Nat) (atom : Atom) (e : PExpr R) (st : St) (st' : St) (t : List (Tok R))
    (h : eval G ws F atom e st = .ok st' t) :
    st'.pos + st'.rest.length = st.pos + st.rest.length ∧ st.pos ≤ st'.pos ∧
      (nullable nul e = false → st.pos < st'.pos) := by
  fun_induction eval G ws F atom e st generalizing st' t
  all_goals try (simp_all [nullable] <;> grind [matchChar_adv])
  · have := matchStr_adv _ _ _ ‹matchStr _ _ = some _›
    cases h
    rename_i s _ _
    cases s <;> simp_all [nullable] <;> omega
  · have := matchInsens_adv _ _ _ ‹matchInsens _ _ = some _›
    cases h
    rename_i s _ _
    cases s <;> simp_all [nullable] <;> omega
  · rename_i hw st1 toks hx hne ih2 ih1
    subst hw
    rw [hx] at h
    simp only [if_neg hne] at h
    have a := ih2 _ _ hx
    have b := ih1 _ _ h
    simp [nullable]; omega

theorem need_le_K (nul : R → Bool) (rank : R → Nat) (K : Nat) (hK : ∀ r, rank r < K) (hK1 : 1 ≤ K) :
    ∀ e : PExpr R, need nul rank e ≤ K := by
  intro e
  induction e with
  | rule r => have := hK r; simp [need]; omega
  | seq a b iha ihb => simp only [need]; split <;> omega
  | choice a b iha ihb => simp only [need]; omega
  | opt a ih => simpa [need] using ih
  | rep a ih => simp only [need]; omega
  | repOnce a ih => simp only [need]; omega
  | posPred a ih => simpa [need] using ih
  | negPred a ih => simpa [need] using ih
  | starTail a ih => simp only [need]; omega
  | skip => simpa [need] using hK1
  | str s => simp [need]
  | insens s => simp [need]
  | range lo hi => simp [need]
  | builtin b => simp [need]

/-- TOTALITY with an explicit bound.  `A` pays for one consumed character, `P` for one step down the rank order. -/
theorem eval_total (G : R → RuleDef R) (ws : Option R) (nul : R → Bool) (rank : R → Nat) (K P A : Nat)
    (hnul : ∀ r, nul r = false → nullable nul (G r).body = false)
    (hrank : ∀ r, need nul rank (G r).body ≤ rank r)
    (hK : ∀ r, rank r < K) (hK1 : 1 ≤ K)
    (hP : ∀ r, (G r).body.size < P)
    (hws : ∀ w, ws = some w → need nul rank (G w).body = 0)
    (hA : K * P + 1 ≤ A) :
    ∀ (F n k : Nat) (atom : Atom) (e : PExpr R) (st : St),
      st.rest.length ≤ n → need nul rank e ≤ k → k ≤ K → n * A + k * P + e.size ≤ F →
      eval G ws F atom e st ≠ .fuel := by
  intro F
  induction F with
  | zero =>
    intro n k atom e st _ _ _ hb
    have := e.size_pos
    omega
  | succ F ih =>
    intro n k atom e st hn hk hkK hb
    have hkP : k * P ≤ K * P := Nat.mul_le_mul_right P hkK
    -- descend at the same position
    have D1 : ∀ (atom' : Atom) (e' : PExpr R) (st' : St), st'.rest.length ≤ n → need nul rank e' ≤ k →
        e'.size < e.size → eval G ws F atom' e' st' ≠ .fuel := by
      intro atom' e' st' h1 h2 h3
      exact ih n k atom' e' st' h1 h2 hkK (by omega)
    -- anything of no greater size on a shorter input
    have D2 : ∀ (atom' : Atom) (e' : PExpr R) (st' : St), st'.rest.length < st.rest.length →
        e'.size ≤ e.size → eval G ws F atom' e' st' ≠ .fuel := by
      intro atom' e' st' h1 h3
      obtain ⟨m, rfl⟩ : ∃ m, n = m + 1 := ⟨n - 1, by omega⟩
      have hm : (m + 1) * A = m * A + A := Nat.succ_mul m A
      exact ih m K atom' e' st' (by omega) (need_le_K nul rank K hK hK1 e') (Nat.le_refl K) (by omega)
    have ADV := fun at' e' s1 s2 t (h : eval G ws F at' e' s1 = .ok s2 t) => eval_adv G ws nul hnul F at' e' s1 s2 t h
    cases e with
    | str s => simp only [eval]; split <;> simp
    | insens s => simp only [eval]; split <;> simp
    | range lo hi => simp only [eval]; split <;> simp
    | builtin b =>
      cases b <;> simp only [eval] <;> (repeat' split) <;> simp
    | rule r =>
      simp only [eval]
      have hr : rank r + 1 ≤ k := by simpa [need] using hk
      have h1 : (rank r + 1) * P ≤ k * P := Nat.mul_le_mul_right P hr
      have h2 : (rank r + 1) * P = rank r * P + P := Nat.succ_mul _ P
      have hb' : n * A + k * P + 1 ≤ F + 1 := by simpa [PExpr.size] using hb
      have := ih n (rank r) (innerAtom (G r).ty atom) (G r).body st hn (hrank r) (by omega)
        (by have := hP r; omega)
      cases h : eval G ws F (innerAtom (G r).ty atom) (G r).body st with
      | ok st1 t1 => dsimp only; split <;> simp
      | fail => simp
      | fuel => exact absurd h this
    | seq a b =>
      simp only [eval]
      have hka : need nul rank a ≤ k := by simp only [need] at hk; omega
      have ha := D1 atom a st hn hka (by simp only [PExpr.size]; omega)
      cases h1 : eval G ws F atom a st with
      | fail => simp
      | fuel => exact absurd h1 ha
      | ok st1 t1 =>
        dsimp only
        have adv1 := ADV _ _ _ _ _ h1
        have hs : eval G ws F atom .skip st1 ≠ .fuel := by
          cases hna : nullable nul a with
          | true =>
            have : 1 ≤ k := by simp only [need, hna, if_true] at hk; omega
            exact D1 _ _ _ (by omega) (by simpa [need] using this) (by have := a.size_pos; simp only [PExpr.size]; omega)
          | false =>
            exact D2 _ _ _ (by have := adv1.2.2 hna; omega) (by simp only [PExpr.size]; omega)
        cases h2 : eval G ws F atom .skip st1 with
        | fail => simp
        | fuel => exact absurd h2 hs
        | ok st2 t2 =>
          dsimp only
          have adv2 := ADV _ _ _ _ _ h2
          have hb2 : eval G ws F atom b st2 ≠ .fuel := by
            cases hna : nullable nul a with
            | true =>
              have : need nul rank b ≤ k := by simp only [need, hna, if_true] at hk; omega
              exact D1 _ _ _ (by omega) this (by simp only [PExpr.size]; omega)
            | false =>
              exact D2 _ _ _ (by have := adv1.2.2 hna; omega) (by simp only [PExpr.size]; omega)
          cases h3 : eval G ws F atom b st2 with
          | fail => simp
          | fuel => exact absurd h3 hb2
          | ok st3 t3 => simp
    | choice a b =>
      simp only [eval]
      have hka : need nul rank a ≤ k := by simp only [need] at hk; omega
      have hkb : need nul rank b ≤ k := by simp only [need] at hk; omega
      have ha := D1 atom a st hn hka (by simp only [PExpr.size]; omega)
      have hb2 := D1 atom b st hn hkb (by simp only [PExpr.size]; omega)
      cases h1 : eval G ws F atom a st with
      | fail => exact hb2
      | fuel => exact absurd h1 ha
      | ok st1 t1 => simp
    | opt a =>
      simp only [eval]
      have ha := D1 atom a st hn (by simpa [need] using hk) (by simp only [PExpr.size]; omega)
      cases h1 : eval G ws F atom a st with
      | fail => simp
      | fuel => exact absurd h1 ha
      | ok st1 t1 => simp
    | posPred a =>
      simp only [eval]
      have ha := D1 atom a st hn (by simpa [need] using hk) (by simp only [PExpr.size]; omega)
      cases h1 : eval G ws F atom a st with
      | fail => simp
      | fuel => exact absurd h1 ha
      | ok st1 t1 => simp
    | negPred a =>
      simp only [eval]
      have ha := D1 atom a st hn (by simpa [need] using hk) (by simp only [PExpr.size]; omega)
      cases h1 : eval G ws F atom a st with
      | fail => simp
      | fuel => exact absurd h1 ha
      | ok st1 t1 => simp
    | rep a =>
      simp only [eval]
      have hk1 : 1 ≤ k ∧ need nul rank a ≤ k := by simp only [need] at hk; omega
      have ha := D1 atom a st hn hk1.2 (by simp only [PExpr.size]; omega)
      cases h1 : eval G ws F atom a st with
      | fail => simp
      | fuel => exact absurd h1 ha
      | ok st1 t1 =>
        dsimp only
        have adv1 := ADV _ _ _ _ _ h1
        have hs := D1 atom (.starTail a) st1 (by omega) (by simp only [need]; omega) (by simp only [PExpr.size]; omega)
        cases h2 : eval G ws F atom (.starTail a) st1 with
        | fail => simp
        | fuel => exact absurd h2 hs
        | ok st2 t2 => simp
    | repOnce a =>
      simp only [eval]
      have hk1 : 1 ≤ k ∧ need nul rank a ≤ k := by simp only [need] at hk; omega
      have ha := D1 atom a st hn hk1.2 (by simp only [PExpr.size]; omega)
      cases h1 : eval G ws F atom a st with
      | fail => simp
      | fuel => exact absurd h1 ha
      | ok st1 t1 =>
        dsimp only
        have adv1 := ADV _ _ _ _ _ h1
        have hs := D1 atom (.starTail a) st1 (by omega) (by simp only [need]; omega) (by simp only [PExpr.size]; omega)
        cases h2 : eval G ws F atom (.starTail a) st1 with
        | fail => simp
        | fuel => exact absurd h2 hs
        | ok st2 t2 => simp
    | starTail a =>
      simp only [eval]
      have hk1 : 1 ≤ k ∧ need nul rank a ≤ k := by simp only [need] at hk; omega
      have hs := D1 atom .skip st hn (by simpa [need] using hk1.1) (by have := a.size_pos; simp only [PExpr.size]; omega)
      cases h1 : eval G ws F atom .skip st with
      | fail => simp
      | fuel => exact absurd h1 hs
      | ok st1 t1 =>
        dsimp only
        have adv1 := ADV _ _ _ _ _ h1
        have ha := D1 atom a st1 (by omega) hk1.2 (by simp only [PExpr.size]; omega)
        cases h2 : eval G ws F atom a st1 with
        | fail => simp
        | fuel => exact absurd h2 ha
        | ok st2 t2 =>
          dsimp only
          have adv2 := ADV _ _ _ _ _ h2
          split
          · simp
          · rename_i hne
            have hne' : st2.pos ≠ st.pos := by simpa using hne
            have h3' := D2 atom (.starTail a) st2 (by omega) (Nat.le_refl _)
            cases h3 : eval G ws F atom (.starTail a) st2 with
            | fail => simp
            | fuel => exact absurd h3 h3'
            | ok st3 t3 => simp
    | skip =>
      simp only [eval]
      split
      · cases hw : ws with
        | none => simp
        | some w =>
          dsimp only
          have hk1 : 1 ≤ k := by simpa [need] using hk
          have hP1 : P ≤ k * P := Nat.le_mul_of_pos_left P hk1
          have hb' : n * A + k * P + 1 ≤ F + 1 := by simpa [PExpr.size] using hb
          have hbody := ih n 0 .atomic (G w).body st hn (by rw [hws w hw]; exact Nat.le_refl 0) (Nat.zero_le K)
            (by have := hP w; omega)
          subst hw
          cases h1 : eval G (some w) F .atomic (G w).body st with
          | fail => simp
          | fuel => exact absurd h1 hbody
          | ok st1 t1 =>
            dsimp only
            have adv1 := ADV _ _ _ _ _ h1
            split
            · simp
            · rename_i hne
              have hne' : st1.pos ≠ st.pos := by simpa using hne
              exact D2 atom .skip st1 (by omega) (Nat.le_refl _)
      · simp


/-- every repetition in an expression is over a body the analysis does not call nullable -/
def repsConsume (nul : R → Bool) : PExpr R → Bool
  | .seq a b => repsConsume nul a && repsConsume nul b
  | .choice a b => repsConsume nul a && repsConsume nul b
  | .opt a => repsConsume nul a
  | .rep a => !nullable nul a && repsConsume nul a
  | .repOnce a => !nullable nul a && repsConsume nul a
  | .posPred a => repsConsume nul a
  | .negPred a => repsConsume nul a
  | .starTail a => !nullable nul a && repsConsume nul a
  | _ => true

/-- the interpreter's guard against a repetition that makes no progress (where pest itself would not return) is dead
    code for a repetition whose body is not nullable: a round of `(skip body)` always ends at a later position -/
theorem starTail_round_advances (G : R → RuleDef R) (ws : Option R) (nul : R → Bool)
    (hnul : ∀ r, nul r = false → nullable nul (G r).body = false)
    (F : Nat) (atom : Atom) (a : PExpr R) (st st1 st2 : St) (t1 t2 : List (Tok R))
    (ha : nullable nul a = false)
    (h1 : eval G ws F atom .skip st = .ok st1 t1) (h2 : eval G ws F atom a st1 = .ok st2 t2) :
    (st2.pos == st.pos) = false := by
  have a1 := eval_adv G ws nul hnul F atom .skip st st1 t1 h1
  have a2 := eval_adv G ws nul hnul F atom a st1 st2 t2 h2
  have := a2.2.2 ha
  simp only [beq_eq_false_iff_ne, ne_eq]
  omega

end Hbs.Pest
