import HbsModel.Lemmas.PartialNameTag
/-
  compile2 on  L ++ "{{> name}}" ++ A  for every partial name: text, the partial tag with the standalone-line rule and its
  indentation, text.
-/
namespace Hbs.PlainText
open Hbs Hbs.Pest Hbs.Grammar

/-- the partial call as compiled: its indentation is the blanks in front of it on its line -/
def pnameD (nm : Str) (indent : Option Str) (ibw : Bool) : DecoT :=
  { DecoG.new { name := .name nm, params := [], hash := [], blockParam := none, omitPreWs := false, omitProWs := false } ibw with indent := indent }

theorem step_pname (nm src L : Str) (opts : TemplateOptions) (f a : Nat) (T0 T0' : Tmpl) (ep : Option Nat) (trim : Bool) (r0 : CTok) (rest : List CTok)
    (hpi : opts.preventIndent = false) (hep : ep.getD 0 = a)
    (hname : tokStr src ⟨some .r_partial_identifier, a + 4, a + 4 + nm.length, []⟩ = nm)
    (hps : processStandalone [T0] src a (a + (nm.length + 6)) true opts.isPartial = .ok (trim, [T0']))
    (hbefore : slice? src 0 a = some L) (hr0 : a + (nm.length + 6) ≤ r0.e) :
    compileStep src opts (f + 3) { tmplStack := [T0], endPos := ep } ⟨some .r_partial_expression, a, a + (nm.length + 6), []⟩
        (⟨some .r_partial_identifier, a + 4, a + 4 + nm.length, []⟩ :: r0 :: rest)
      = .ok ({ tmplStack := [T0'.pushElement (.partialExpr (pnameD nm (findTrailingBlank L) trim)) (lineCol src a).1 (lineCol src a).2],
               trimLine := trim, endPos := some (a + (nm.length + 6)) }, r0 :: rest) := by
  have h1 : ¬ (r0.e < a + (nm.length + 6)) := by omega
  simp [compileStep, hep, isBlockStart, isExprLike, parseExpression, parseName, parseExprLoop, hname, h1, hpi, hps, hbefore,
    frontMut, pnameD, DecoG.new, str]

end Hbs.PlainText

namespace Hbs.PlainText
open Hbs Hbs.Pest Hbs.Grammar

/-- **compile2 on  L ++ {{> name}} ++ W ++ R'** for every partial name (prevent_indent off): the text in front (its blanks trimmed when the tag stands
    alone on its line), the partial call carrying the blanks in front of it as its indentation, the text behind (without its
    first line break when the tag stands alone on its line) -/
theorem compile_text_pname_text (nm L W R' : Str) (opts : TemplateOptions) (hnm : PartialName nm) (hpi : opts.preventIndent = false)
    (hL : L = [] ∨ TextBeforeTag L) (hA : TextAfterTag W R') :
    ∃ m, compile2 (L ++ pnameSrc nm ++ (W ++ R')) opts = .ok (.mk opts.name
      ((leftT L (if standalone L (W ++ R') opts.isPartial then trimEndBlank L else L)).elements
        ++ [.partialExpr (pnameD nm (findTrailingBlank L) (standalone L (W ++ R') opts.isPartial))]
        ++ (if W ++ R' = [] then [] else
          [.raw (if standalone L (W ++ R') opts.isPartial then stripFirstNewline (trimStartBlank (W ++ R')) else W ++ R')])) m) := by
  have h := handlebars_text_tag_text L ('>' :: ' ' :: nm ++ ['}', '}']) W R' (nm.length + 100) _ hL (pname_tagAt nm hnm) hA
  simp only [] at h
  have hn : (L ++ pnameSrc nm ++ (W ++ R')).length = L.length + (nm.length + 6) + W.length + R'.length := by simp [pnameSrc]; omega
  have hparse : Pest.parse rules ws .r_handlebars (L ++ pnameSrc nm ++ (W ++ R'))
      = .ok ⟨(L ++ pnameSrc nm ++ (W ++ R')).length, []⟩ (⟨some .r_template, 0, if R' = [] then L.length + (nm.length + 6) else (L ++ pnameSrc nm ++ (W ++ R')).length⟩ ::
          (rawTok 0 L.length ++ [⟨some .r_partial_expression, L.length, L.length + (nm.length + 6)⟩, ⟨some .r_partial_identifier, L.length + 4, L.length + 4 + nm.length⟩]
            ++ rawTok (L.length + (nm.length + 6) + W.length) (L.length + (nm.length + 6) + W.length + R'.length)
            ++ [⟨none, (L ++ pnameSrc nm ++ (W ++ R')).length, (L ++ pnameSrc nm ++ (W ++ R')).length⟩])) := by
    have h' := h.weaken (F' := defaultFuel (L ++ pnameSrc nm ++ (W ++ R')).length) (by
      unfold defaultFuel
      have : (L ++ '{' :: '{' :: ('>' :: ' ' :: nm ++ ['}', '}']) ++ (W ++ R')).length = (L ++ pnameSrc nm ++ (W ++ R')).length := rfl
      rw [this]; omega)
    unfold Pest.parse
    refine Eq.trans h'.1 ?_
    have e2 : ('{' :: '{' :: ('>' :: ' ' :: nm ++ ['}', '}'])).length = nm.length + 6 := by simp
    have e3 : (L ++ '{' :: '{' :: ('>' :: ' ' :: nm ++ ['}', '}']) ++ (W ++ R')).length = (L ++ pnameSrc nm ++ (W ++ R')).length := rfl
    simp only [e2, e3, pnameToks, List.map, shiftTok, Nat.zero_add]
    rw [show nm.length + 6 + L.length = L.length + (nm.length + 6) by omega, show 4 + L.length = L.length + 4 by omega,
      show 4 + nm.length + L.length = L.length + 4 + nm.length by omega]
  have hs0 : slice? (L ++ pnameSrc nm ++ (W ++ R')) 0 L.length = some L := by
    rw [List.append_assoc]; exact slice_prefix L _
  have hsR : slice? (L ++ pnameSrc nm ++ (W ++ R')) (L.length + (nm.length + 6)) (L ++ pnameSrc nm ++ (W ++ R')).length = some (W ++ R') :=
    slice_suffix (L ++ pnameSrc nm) (W ++ R') _ (by simp [pnameSrc])
  have hname : tokStr (L ++ pnameSrc nm ++ (W ++ R')) ⟨some .r_partial_identifier, L.length + 4, L.length + 4 + nm.length, []⟩ = nm := by
    have : L ++ pnameSrc nm ++ (W ++ R') = (L ++ ['{', '{', '>', ' ']) ++ nm ++ (['}', '}'] ++ (W ++ R')) := by simp [pnameSrc]
    rw [this]
    exact tokStr_mid (L ++ ['{', '{', '>', ' ']) nm _ ⟨some .r_partial_identifier, L.length + 4, L.length + 4 + nm.length, []⟩ (by simp) (by simp)
  generalize hsrc : L ++ pnameSrc nm ++ (W ++ R') = src at *
  obtain ⟨r0, rest, hrest, hr0⟩ := tail_head (L.length + (nm.length + 6)) W.length src.length (by omega)
  obtain ⟨m, htail⟩ := loop_tail src W R' opts (3 * (rawTok 0 L.length).length + 3 * (rawTok (L.length + (nm.length + 6) + W.length) src.length).length + 28)
    (L.length + (nm.length + 6))
    ((leftT L (if standalone L (W ++ R') opts.isPartial then trimEndBlank L else L)).pushElement
      (.partialExpr (pnameD nm (findTrailingBlank L) (standalone L (W ++ R') opts.isPartial))) (lineCol src L.length).1 (lineCol src L.length).2)
    (standalone L (W ++ R') opts.isPartial) hn hsR
  refine ⟨m, ?_⟩
  unfold compile2 compile2Inner
  rw [hparse]
  simp only []
  rw [attachEscapes_noEsc _ (by
    intro t ht
    simp only [List.mem_cons, List.mem_append, List.not_mem_nil, or_false] at ht
    rcases ht with rfl | ((h | rfl | rfl) | h) | rfl
    · show ((some Rule.r_template : Option Rule) == some Rule.r_escape) = false; decide
    · exact rawTok_rule _ _ t h
    · show ((some Rule.r_partial_expression : Option Rule) == some Rule.r_escape) = false; decide
    · show ((some Rule.r_partial_identifier : Option Rule) == some Rule.r_escape) = false; decide
    · exact rawTok_rule _ _ t h
    · show ((none : Option Rule) == some Rule.r_escape) = false; decide)]
  rw [← hn]
  simp only [List.map_cons, List.map_append, List.length_cons, List.length_append, List.length_map, List.map_nil, List.length_nil,
    List.append_assoc, List.cons_append, List.nil_append]
  rw [show 4 * ((rawTok 0 L.length).length + ((rawTok (L.length + (nm.length + 6) + W.length) src.length).length + (0 + 1) + 1 + 1) + 1) + 16
      = ((3 * (rawTok 0 L.length).length + 3 * (rawTok (L.length + (nm.length + 6) + W.length) src.length).length + 25 + 3)
          + ((rawTok (L.length + (nm.length + 6) + W.length) src.length).length + 2) + 1) + (1 + (rawTok 0 L.length).length) by omega]
  rw [loop_head src L opts _ _ _ hs0]
  have hps := processStandalone_spec src L (W ++ R') (L.length + (nm.length + 6)) opts.isPartial hs0 hsR
  have hep : (if L = [] then none else some L.length : Option Nat).getD 0 = L.length := by
    by_cases hLe : L = [] <;> simp [hLe]
  have hstep := step_pname nm src L opts
    (3 * (rawTok 0 L.length).length + 3 * (rawTok (L.length + (nm.length + 6) + W.length) src.length).length + 25
      + ((rawTok (L.length + (nm.length + 6) + W.length) src.length).length + 2))
    L.length (leftT L L) _ _ _ r0 rest hpi hep hname hps hs0 hr0
  have hloop := loop_step src opts
    (3 * (rawTok 0 L.length).length + 3 * (rawTok (L.length + (nm.length + 6) + W.length) src.length).length + 25
      + ((rawTok (L.length + (nm.length + 6) + W.length) src.length).length + 2) + 3) (st1 L) _
    ⟨some .r_partial_expression, L.length, L.length + (nm.length + 6), []⟩ _ _ (by unfold st1; exact hstep)
  rw [hrest] at htail ⊢
  simp only [plainCTok]
  rw [show 3 * (rawTok 0 L.length).length + 3 * (rawTok (L.length + (nm.length + 6) + W.length) src.length).length + 25 + 3
        + ((rawTok (L.length + (nm.length + 6) + W.length) src.length).length + 2) + 1
      = 3 * (rawTok 0 L.length).length + 3 * (rawTok (L.length + (nm.length + 6) + W.length) src.length).length + 25
        + ((rawTok (L.length + (nm.length + 6) + W.length) src.length).length + 2) + 3 + 1 by omega]
  rw [hloop]
  rw [show 3 * (rawTok 0 L.length).length + 3 * (rawTok (L.length + (nm.length + 6) + W.length) src.length).length + 25
        + ((rawTok (L.length + (nm.length + 6) + W.length) src.length).length + 2) + 3
      = 3 * (rawTok 0 L.length).length + 3 * (rawTok (L.length + (nm.length + 6) + W.length) src.length).length + 28
        + ((rawTok (L.length + (nm.length + 6) + W.length) src.length).length + 2) by omega]
  rw [htail]
  simp [Tmpl.pushElement, Tmpl.elements]

end Hbs.PlainText
