import HbsModel.Lemmas.PestMono
/-
  Silent rules are transparent: a reference to a silent rule behaves as the rule's body (it produces no pair and inherits the
  atomicity).  `unfoldS` replaces references to silent rules outside a `keep` set by their bodies; evaluating the unfolded
  expression is evaluating the original one.  Structural facts about the grammar are stated on the unfolded bodies, so that
  factoring a sub-expression out into a new silent rule (or inlining one) does not invalidate them.
-/
namespace Hbs.Pest
variable {R : Type}

def unfoldS (G : R → RuleDef R) (keep : R → Bool) : Nat → PExpr R → PExpr R
  | 0, e => e
  | n + 1, .rule r => if (G r).ty == .silent && !keep r then unfoldS G keep n (G r).body else .rule r
  | n + 1, .seq a b => .seq (unfoldS G keep n a) (unfoldS G keep n b)
  | n + 1, .choice a b => .choice (unfoldS G keep n a) (unfoldS G keep n b)
  | n + 1, .opt a => .opt (unfoldS G keep n a)
  | n + 1, .rep a => .rep (unfoldS G keep n a)
  | n + 1, .repOnce a => .repOnce (unfoldS G keep n a)
  | n + 1, .posPred a => .posPred (unfoldS G keep n a)
  | n + 1, .negPred a => .negPred (unfoldS G keep n a)
  | n + 1, .starTail a => .starTail (unfoldS G keep n a)
  | _ + 1, e => e

/-- a reference to a silent rule is its body, one unit of fuel later -/
theorem eval_silent_rule (G : R → RuleDef R) (ws : Option R) (F : Nat) (atom : Atom) (r : R) (st : St) (hs : (G r).ty = .silent) :
    eval G ws (F + 1) atom (.rule r) st = eval G ws F atom (G r).body st := by
  rw [eval]
  simp only [hs, innerAtom]
  cases eval G ws F atom (G r).body st <;> simp

/-- evaluating the unfolded expression is evaluating the original one (with the fuel the unfolded references need) -/
theorem eval_unfoldS (G : R → RuleDef R) (ws : Option R) (keep : R → Bool) :
    ∀ (k n F : Nat) (atom : Atom) (e : PExpr R) (st : St), n + F ≤ k →
      eval G ws F atom (unfoldS G keep n e) st ≠ .fuel →
      eval G ws (F + n) atom e st = eval G ws F atom (unfoldS G keep n e) st := by
  intro k
  induction k with
  | zero =>
    intro n F atom e st hk h
    have hn : n = 0 := by omega
    have hF : F = 0 := by omega
    subst hn; subst hF
    simp [unfoldS]
  | succ k ih =>
    intro n F atom e st hk h
    cases n with
    | zero => simp [unfoldS]
    | succ m =>
      cases F with
      | zero => simp [eval] at h
      | succ f =>
        -- sub-expressions: one level of unfolding less, one unit of fuel less
        have sub : ∀ (at' : Atom) (a : PExpr R) (s : St), eval G ws f at' (unfoldS G keep m a) s ≠ .fuel →
            eval G ws (f + 1 + m) at' a s = eval G ws f at' (unfoldS G keep m a) s := by
          intro at' a s ha
          have h1 := ih m f at' a s (by omega) ha
          have h2 : eval G ws (f + m) at' a s ≠ .fuel := by rw [h1]; exact ha
          have := eval_succ G ws (f + m) at' a s h2
          rw [show f + 1 + m = f + m + 1 by omega, this, h1]
        -- the same expression again with less fuel (the loops)
        have same : ∀ (at' : Atom) (a : PExpr R) (s : St), eval G ws f at' (unfoldS G keep (m + 1) a) s ≠ .fuel →
            eval G ws (f + 1 + m) at' a s = eval G ws f at' (unfoldS G keep (m + 1) a) s := by
          intro at' a s ha
          have h1 := ih (m + 1) f at' a s (by omega) ha
          rw [show f + 1 + m = f + (m + 1) by omega, h1]
        have skipEq : ∀ (at' : Atom) (s : St), eval G ws f at' .skip s ≠ .fuel → eval G ws (f + 1 + m) at' .skip s = eval G ws f at' .skip s := by
          intro at' s hs
          have := eval_mono G ws f (1 + m) at' .skip s hs
          rw [show f + 1 + m = f + (1 + m) by omega, this]
        cases e with
        | rule r =>
          by_cases hc : ((G r).ty == .silent && !keep r) = true
          · have hs : (G r).ty = .silent := by
              simp only [Bool.and_eq_true, beq_iff_eq] at hc; exact hc.1
            simp only [unfoldS, hc, ↓reduceIte] at h ⊢
            have h1 := ih m (f + 1) atom (G r).body st (by omega) h
            rw [show f + 1 + (m + 1) = (f + 1 + m) + 1 by omega, eval_silent_rule G ws _ atom r st hs, h1]
          · simp only [unfoldS, hc] at h ⊢
            exact eval_mono G ws (f + 1) (m + 1) atom (.rule r) st h
        | seq a b =>
          simp only [unfoldS] at h ⊢
          rw [show f + 1 + (m + 1) = (f + 1 + m) + 1 by omega]
          rw [eval] at h
          rw [eval, eval]
          cases ha : eval G ws f atom (unfoldS G keep m a) st with
          | fuel => rw [ha] at h; simp at h
          | fail => rw [sub atom a st (by rw [ha]; simp), ha]
          | ok st1 t1 =>
            rw [ha] at h
            rw [sub atom a st (by rw [ha]; simp), ha]
            simp only [] at h ⊢
            cases hsk : eval G ws f atom .skip st1 with
            | fuel => rw [hsk] at h; simp at h
            | fail => rw [skipEq atom st1 (by rw [hsk]; simp), hsk]
            | ok st2 t2 =>
              rw [hsk] at h
              rw [skipEq atom st1 (by rw [hsk]; simp), hsk]
              simp only [] at h ⊢
              cases hb : eval G ws f atom (unfoldS G keep m b) st2 with
              | fuel => rw [hb] at h; simp at h
              | fail => rw [sub atom b st2 (by rw [hb]; simp), hb]
              | ok st3 t3 => rw [sub atom b st2 (by rw [hb]; simp), hb]
        | choice a b =>
          simp only [unfoldS] at h ⊢
          rw [show f + 1 + (m + 1) = (f + 1 + m) + 1 by omega]
          rw [eval] at h
          rw [eval, eval]
          cases ha : eval G ws f atom (unfoldS G keep m a) st with
          | fuel => rw [ha] at h; simp at h
          | ok st1 t1 => rw [sub atom a st (by rw [ha]; simp), ha]
          | fail =>
            rw [ha] at h
            rw [sub atom a st (by rw [ha]; simp), ha]
            simp only [] at h ⊢
            exact sub atom b st h
        | opt a =>
          simp only [unfoldS] at h ⊢
          rw [show f + 1 + (m + 1) = (f + 1 + m) + 1 by omega]
          rw [eval] at h
          rw [eval, eval]
          cases ha : eval G ws f atom (unfoldS G keep m a) st with
          | fuel => rw [ha] at h; simp at h
          | ok st1 t1 => rw [sub atom a st (by rw [ha]; simp), ha]
          | fail => rw [sub atom a st (by rw [ha]; simp), ha]
        | posPred a =>
          simp only [unfoldS] at h ⊢
          rw [show f + 1 + (m + 1) = (f + 1 + m) + 1 by omega]
          rw [eval] at h
          rw [eval, eval]
          cases ha : eval G ws f atom (unfoldS G keep m a) st with
          | fuel => rw [ha] at h; simp at h
          | ok st1 t1 => rw [sub atom a st (by rw [ha]; simp), ha]
          | fail => rw [sub atom a st (by rw [ha]; simp), ha]
        | negPred a =>
          simp only [unfoldS] at h ⊢
          rw [show f + 1 + (m + 1) = (f + 1 + m) + 1 by omega]
          rw [eval] at h
          rw [eval, eval]
          cases ha : eval G ws f atom (unfoldS G keep m a) st with
          | fuel => rw [ha] at h; simp at h
          | ok st1 t1 => rw [sub atom a st (by rw [ha]; simp), ha]
          | fail => rw [sub atom a st (by rw [ha]; simp), ha]
        | rep a =>
          simp only [unfoldS] at h ⊢
          rw [show f + 1 + (m + 1) = (f + 1 + m) + 1 by omega]
          rw [eval] at h
          rw [eval, eval]
          cases ha : eval G ws f atom (unfoldS G keep m a) st with
          | fuel => rw [ha] at h; simp at h
          | fail => rw [sub atom a st (by rw [ha]; simp), ha]
          | ok st1 t1 =>
            rw [ha] at h
            rw [sub atom a st (by rw [ha]; simp), ha]
            simp only [] at h ⊢
            have hst : eval G ws f atom (unfoldS G keep (m + 1) (.starTail a)) st1 ≠ .fuel := by
              simp only [unfoldS]
              intro hc; rw [hc] at h; simp at h
            have := same atom (.starTail a) st1 hst
            simp only [unfoldS] at this
            rw [this]
        | repOnce a =>
          simp only [unfoldS] at h ⊢
          rw [show f + 1 + (m + 1) = (f + 1 + m) + 1 by omega]
          rw [eval] at h
          rw [eval, eval]
          cases ha : eval G ws f atom (unfoldS G keep m a) st with
          | fuel => rw [ha] at h; simp at h
          | fail => rw [sub atom a st (by rw [ha]; simp), ha]
          | ok st1 t1 =>
            rw [ha] at h
            rw [sub atom a st (by rw [ha]; simp), ha]
            simp only [] at h ⊢
            have hst : eval G ws f atom (unfoldS G keep (m + 1) (.starTail a)) st1 ≠ .fuel := by
              simp only [unfoldS]
              intro hc; rw [hc] at h; simp at h
            have := same atom (.starTail a) st1 hst
            simp only [unfoldS] at this
            rw [this]
        | starTail a =>
          simp only [unfoldS] at h ⊢
          rw [show f + 1 + (m + 1) = (f + 1 + m) + 1 by omega]
          rw [eval] at h
          rw [eval, eval]
          cases hsk : eval G ws f atom .skip st with
          | fuel => rw [hsk] at h; simp at h
          | fail => rw [skipEq atom st (by rw [hsk]; simp), hsk]
          | ok st1 t1 =>
            rw [hsk] at h
            rw [skipEq atom st (by rw [hsk]; simp), hsk]
            simp only [] at h ⊢
            cases ha : eval G ws f atom (unfoldS G keep m a) st1 with
            | fuel => rw [ha] at h; simp at h
            | fail => rw [sub atom a st1 (by rw [ha]; simp), ha]
            | ok st2 t2 =>
              rw [ha] at h
              rw [sub atom a st1 (by rw [ha]; simp), ha]
              simp only [] at h ⊢
              by_cases hp : (st2.pos == st.pos) = true
              · simp only [hp, ↓reduceIte]
              · simp only [hp] at h ⊢
                have hst : eval G ws f atom (unfoldS G keep (m + 1) (.starTail a)) st2 ≠ .fuel := by
                  simp only [unfoldS]
                  intro hc; rw [hc] at h; simp at h
                have := same atom (.starTail a) st2 hst
                simp only [unfoldS] at this
                rw [this]
        | str s => simp only [unfoldS] at h ⊢; exact eval_mono G ws (f + 1) (m + 1) atom _ st h
        | insens s => simp only [unfoldS] at h ⊢; exact eval_mono G ws (f + 1) (m + 1) atom _ st h
        | range lo hi => simp only [unfoldS] at h ⊢; exact eval_mono G ws (f + 1) (m + 1) atom _ st h
        | builtin b => simp only [unfoldS] at h ⊢; exact eval_mono G ws (f + 1) (m + 1) atom _ st h
        | skip => simp only [unfoldS] at h ⊢; exact eval_mono G ws (f + 1) (m + 1) atom _ st h

/-- the form used by the derivations: a definite answer for the unfolded body is the answer for the body -/
theorem Ev.of_unfoldS {G : R → RuleDef R} {ws : Option R} (keep : R → Bool) (n : Nat) {F : Nat} {atom : Atom} {e : PExpr R} {st : St} {r : PRes R}
    (h : Ev G ws F atom (unfoldS G keep n e) st r) : Ev G ws (F + n) atom e st r :=
  ⟨by rw [eval_unfoldS G ws keep (n + F) n F atom e st (Nat.le_refl _) (by rw [h.1]; exact h.2), h.1], h.2⟩

end Hbs.Pest
