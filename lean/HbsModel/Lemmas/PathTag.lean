import HbsModel.Lemmas.HtmlNameTag
/-
  `{{n0.n1/n2…}}` – a path of ANY number of identifier segments separated by `.` or `/` – is one element of `template`:
  the pairs expression, reference, path_inline and one path_id per segment.  The loop `(path_sep ~ path_item)*` by induction
  over the segments.
-/
namespace Hbs.PlainText
open Hbs Hbs.Pest Hbs.Grammar

/-- the text of the segments after the first: separator, name, separator, name … -/
def restText : List (Char × Str) → Str
  | [] => []
  | (c, s) :: r => c :: s ++ restText r

/-- the path_id pairs of the segments after the first; `p` is where the rest begins -/
def restToks (p : Nat) : List (Char × Str) → List (Tok Rule)
  | [] => []
  | (_, s) :: r => ⟨some .r_path_id, p + 1, p + 1 + s.length⟩ :: restToks (p + 1 + s.length) r

/-- a dotted path: an identifier, then separators `.` / `/` each followed by a non-empty run of symbol characters -/
structure PathName (n0 : Str) (rest : List (Char × Str)) : Prop where
  first : IdentName n0
  seps : ∀ q ∈ rest, q.1 = '.' ∨ q.1 = '/'
  names : ∀ q ∈ rest, q.2 ≠ [] ∧ ∀ c ∈ q.2, symChar c = true

theorem PathName.tail {n0 : Str} {q : Char × Str} {r : List (Char × Str)} (h : PathName n0 (q :: r)) : PathName n0 r :=
  ⟨h.first, fun x hx => h.seps x (by simp [hx]), fun x hx => h.names x (by simp [hx])⟩

theorem restText_length_cons (c : Char) (s : Str) (r : List (Char × Str)) :
    (restText ((c, s) :: r)).length = 1 + s.length + (restText r).length := by
  simp [restText]; omega

/-- what follows a segment is a separator or the closing brace: not a symbol character -/
theorem restText_head (rest : List (Char × Str)) (tl : Str) (hs : ∀ q ∈ rest, q.1 = '.' ∨ q.1 = '/') :
    ∃ d x, restText rest ++ '}' :: tl = d :: x ∧ symChar d = false ∧ d ≠ '~' ∧ isPestWs d = false := by
  cases rest with
  | nil => exact ⟨'}', tl, rfl, by decide, by decide, by decide⟩
  | cons q r =>
    obtain ⟨c, s⟩ := q
    refine ⟨c, s ++ restText r ++ '}' :: tl, by simp [restText], ?_⟩
    rcases hs (c, s) (by simp) with h | h <;> (simp only at h; subst h; exact ⟨by decide, by decide, by decide⟩)

theorem sep_ok (atom : Atom) (c : Char) (x : Str) (q : Nat) (hc : c = '.' ∨ c = '/') :
    E 3 atom (.rule .r_path_sep) ⟨q, c :: x⟩ (.ok ⟨q + 1, x⟩ []) := by
  have hr := Ev.rule_ok (G := rules) (ws := ws) (atom := atom) (r := Rule.r_path_sep) (F := 2)
    (st := ⟨q, c :: x⟩) (st' := ⟨q + 1, x⟩) (toks := []) (by
      show E 2 _ (.choice (.str [Char.ofNat 47]) (.str [Char.ofNat 46])) _ _
      rcases hc with rfl | rfl
      · exact Ev.choice_right (Ev.str_fail (by simp [matchStr])) (Ev.str_ok (by simp [matchStr]))
      · exact Ev.choice_left (Ev.str_ok (by simp [matchStr])))
  have hty : (rules .r_path_sep).ty = .silent := rfl
  simpa [hty] using hr

theorem path_item_ok (s x : Str) (d : Char) (hne : s ≠ []) (hs : ∀ c ∈ s, symChar c = true) (hd : symChar d = false) (q : Nat) :
    E (s.length + 18) .compound (.rule .r_path_item) ⟨q, s ++ d :: x⟩ (.ok ⟨q + s.length, d :: x⟩ [⟨some .r_path_id, q, q + s.length⟩]) := by
  have hid := path_id_ok s x d hne hs hd q
  have hr := Ev.rule_ok (G := rules) (ws := ws) (atom := .compound) (r := Rule.r_path_item) (F := s.length + 16)
    (st := ⟨q, s ++ d :: x⟩) (st' := ⟨q + s.length, d :: x⟩)
    (by
      show E _ .compound (.choice (.rule .r_path_id) (.rule .r_path_key)) _ _
      exact Ev.choice_left hid)
  have hty : (rules .r_path_item).ty = .silent := rfl
  simp only [hty] at hr
  exact (by simpa using hr : E _ _ _ _ _).weaken (by omega)

/-- the loop `(path_sep ~ path_item)*` over the remaining segments -/
theorem sepLoop (n0 : Str) (rest : List (Char × Str)) (tl : Str) (h : PathName n0 rest) (q : Nat) :
    E ((restText rest).length + 30) .compound (.starTail (.seq (.rule .r_path_sep) (.rule .r_path_item))) ⟨q, restText rest ++ '}' :: tl⟩
      (.ok ⟨q + (restText rest).length, '}' :: tl⟩ (restToks q rest)) := by
  induction rest generalizing q with
  | nil =>
    have hstop := Ev.starTail_stop (G := rules) (ws := ws) (F := 11) (atom := .compound) (a := .seq (.rule .r_path_sep) (.rule .r_path_item))
      (st := ⟨q, '}' :: tl⟩) (Ev.skip_off (by simp))
      (Ev.seq_fail1 (F := 10) ((sep_fail_char .compound '}' tl q (by decide) (by decide)).weaken (by omega)))
    simpa [restText, restToks] using hstop.weaken (F' := 30) (by omega)
  | cons p r ih =>
    obtain ⟨c, s⟩ := p
    obtain ⟨d, x, hx, hd, _, _⟩ := restText_head r tl (fun y hy => h.seps y (by simp [hy]))
    have hnm := h.names (c, s) (by simp)
    have hsl : 1 ≤ s.length := by
      cases hs : s with
      | nil => exact absurd hs hnm.1
      | cons _ _ => simp
    have hsep := sep_ok .compound c (s ++ (restText r ++ '}' :: tl)) q (h.seps (c, s) (by simp))
    have hitem := path_item_ok s x d hnm.1 hnm.2 hd (q + 1)
    rw [← hx] at hitem
    have hseq := Ev.seq_ok (F := s.length + (restText r).length + 28) (hsep.weaken (by omega)) (Ev.skip_off (by simp)) (hitem.weaken (by omega))
    have hih := ih h.tail (q + 1 + s.length)
    have hstep := Ev.starTail_step (F := s.length + (restText r).length + 29) (st := ⟨q, c :: s ++ (restText r ++ '}' :: tl)⟩)
      (Ev.skip_off (by simp)) hseq (by simp; omega) (hih.weaken (by omega))
    have e1 : restText ((c, s) :: r) ++ '}' :: tl = c :: s ++ (restText r ++ '}' :: tl) := by simp [restText]
    have e2 : q + (restText ((c, s) :: r)).length = q + 1 + s.length + (restText r).length := by rw [restText_length_cons]; omega
    have e3 : (restText ((c, s) :: r)).length + 30 = s.length + (restText r).length + 29 + 1 + 1 := by rw [restText_length_cons]; omega
    rw [e1, e2]
    refine (by simpa [restToks] using hstep : E _ _ _ _ _).weaken (by rw [e3]; omega)

/-- a literal without `d` against  name ++ d … : it matches iff it is a prefix of the name -/
theorem matchStr_nameG (s nm r : Str) (d : Char) (p : Nat) (hs : ∀ c ∈ s, c ≠ d) :
    matchStr s ⟨p, nm ++ d :: r⟩ = if s.isPrefixOf nm then some ⟨p + s.length, nm.drop s.length ++ d :: r⟩ else none := by
  induction s generalizing nm p with
  | nil => simp [matchStr]
  | cons a s ih =>
    cases nm with
    | nil =>
      have : (a == d) = false := beq_eq_false_iff_ne.mpr (hs a (by simp))
      simp [matchStr, this]
    | cons b nm =>
      by_cases hab : a = b
      · subst hab
        have := ih nm (p + 1) (fun c hc => hs c (by simp [hc]))
        simp only [List.cons_append, matchStr, beq_self_eq_true, ↓reduceIte, this, List.isPrefixOf, Bool.true_and, List.length_cons, List.drop_succ_cons]
        split <;> simp <;> omega
      · have : (a == b) = false := beq_eq_false_iff_ne.mpr hab
        simp [matchStr, this, List.isPrefixOf]

theorem path_current_failG (c0 : Char) (t r : Str) (d : Char) (q : Nat) (hs : ∀ c ∈ c0 :: t, symChar c = true)
    (hd : ∀ c ∈ ['t', 'h', 'i', 's'], c ≠ d) (hthis : c0 :: t ≠ ['t', 'h', 'i', 's']) :
    E 10 .compound (.rule .r_path_current) ⟨q, c0 :: t ++ d :: r⟩ .fail := by
  apply Ev.rule_fail
  show E 9 .compound (.choice (.seq (.str ['t', 'h', 'i', 's']) (.rule .r_path_sep)) (.str ['.', '/'])) _ _
  have h2 : matchStr ['.', '/'] ⟨q, c0 :: t ++ d :: r⟩ = none :=
    matchStr_head_ne _ _ _ _ _ (symChar_ne (hs c0 (by simp)) (by decide))
  have hm := matchStr_nameG ['t', 'h', 'i', 's'] (c0 :: t) r d q hd
  cases hp : ['t', 'h', 'i', 's'].isPrefixOf (c0 :: t) with
  | false =>
    simp only [hp, Bool.false_eq_true, ↓reduceIte] at hm
    exact Ev.choice_right (Ev.seq_fail1 (Ev.str_fail hm)) ((Ev.str_fail (F := 0) h2).weaken (by omega))
  | true =>
    simp only [hp, ↓reduceIte] at hm
    -- the name is longer than `this`: a symbol character follows it
    have hpre : (c0 :: t) = ['t', 'h', 'i', 's'] ++ (c0 :: t).drop 4 := by
      have := List.isPrefixOf_iff_prefix.mp hp
      obtain ⟨u, hu⟩ := this
      rw [← hu]; simp
    have hne : (c0 :: t).drop 4 ≠ [] := by
      intro h0; rw [h0] at hpre; exact hthis (by simpa using hpre)
    obtain ⟨e, u, heu⟩ := List.exists_cons_of_ne_nil hne
    have he : symChar e = true := hs e (List.mem_of_mem_drop (by rw [heu]; simp))
    have hsep : E 3 .compound (.rule .r_path_sep) ⟨q + 4, (c0 :: t).drop 4 ++ d :: r⟩ .fail := by
      rw [heu]; exact sep_fail_char .compound e _ (q + 4) (symChar_ne he (by decide)) (symChar_ne he (by decide))
    exact Ev.choice_right (Ev.seq_fail2 (F := 7) (Ev.str_ok hm) (Ev.skip_off (by simp)) (hsep.weaken (by omega)))
      ((Ev.str_fail (F := 0) h2).weaken (by omega))

def pathLen (n0 : Str) (rest : List (Char × Str)) : Nat := n0.length + (restText rest).length

/-- `reference` over a dotted path in front of `}` -/
theorem reference_path_ok (n0 : Str) (rest : List (Char × Str)) (tl : Str) (h : PathName n0 rest) (hthis : n0 ≠ ['t', 'h', 'i', 's']) (q : Nat) :
    E (pathLen n0 rest + 60) .nonAtomic (.rule .r_reference) ⟨q, n0 ++ (restText rest ++ '}' :: tl)⟩
      (.ok ⟨q + pathLen n0 rest, '}' :: tl⟩ (⟨some .r_reference, q, q + pathLen n0 rest⟩ :: ⟨some .r_path_inline, q, q + pathLen n0 rest⟩ ::
        ⟨some .r_path_id, q, q + n0.length⟩ :: restToks (q + n0.length) rest)) := by
  obtain ⟨c0, t, hn0⟩ := List.exists_cons_of_ne_nil h.first.ne
  subst hn0
  have hc0 : symChar c0 = true := h.first.sym c0 (by simp)
  have hn : (c0 :: t).length = t.length + 1 := List.length_cons
  obtain ⟨d, x, hx, hd, _, _⟩ := restText_head rest tl h.seps
  have hdthis : ∀ c ∈ ['t', 'h', 'i', 's'], c ≠ d := by
    intro c hc
    have : symChar c = true := by
      simp only [List.mem_cons, List.not_mem_nil, or_false] at hc
      rcases hc with rfl | rfl | rfl | rfl <;> decide
    exact symChar_ne this hd
  let st : St := ⟨q, c0 :: t ++ (restText rest ++ '}' :: tl)⟩
  have hst : st = ⟨q, c0 :: t ++ d :: x⟩ := by simp only [st]; rw [hx]
  have hoff : ∀ (F : Nat) (s : St), E (F + 1) .compound .skip s (.ok s []) := fun F s => Ev.skip_off (by simp)
  have e1 : E 12 .compound (.opt (.rule .r_path_current)) st (.ok st []) := by
    rw [hst]; exact Ev.opt_none ((path_current_failG c0 t x d q h.first.sym hdthis hthis).weaken (by omega))
  have e2 : E 12 .compound (.opt (.seq (.rule .r_path_root) (.rule .r_path_sep))) st (.ok st []) := by
    refine Ev.opt_none (F := 11) (Ev.seq_fail1 (F := 10) (Ev.rule_fail (F := 9) ?_))
    show E 9 _ (.str ['@', 'r', 'o', 'o', 't']) _ _
    exact Ev.str_fail (matchStr_head_ne _ _ _ _ _ (symChar_ne hc0 (by decide)))
  have e3 : E 12 .compound (.opt (.rule .r_path_local)) st (.ok st []) := by
    refine Ev.opt_none (F := 11) (Ev.rule_fail (F := 10) ?_)
    show E 10 _ (.str ['@']) _ _
    exact Ev.str_fail (matchStr_head_ne _ _ _ _ _ (symChar_ne hc0 (by decide)))
  have e4 : E 12 .compound (.rep (.seq (.rule .r_path_up) (.rule .r_path_sep))) st (.ok st []) := by
    refine Ev.rep_none (F := 11) (Ev.seq_fail1 (F := 10) (Ev.rule_fail (F := 9) ?_))
    show E 9 _ (.str ['.', '.']) _ _
    exact Ev.str_fail (matchStr_head_ne _ _ _ _ _ (symChar_ne hc0 (by decide)))
  have e5 : E ((c0 :: t).length + 18) .compound (.rule .r_path_item) st
      (.ok ⟨q + (c0 :: t).length, restText rest ++ '}' :: tl⟩ [⟨some .r_path_id, q, q + (c0 :: t).length⟩]) := by
    rw [hst, hx]; exact path_item_ok (c0 :: t) x d (by simp) h.first.sym hd q
  have e6 : E ((restText rest).length + 32) .compound (.rep (.seq (.rule .r_path_sep) (.rule .r_path_item)))
      ⟨q + (c0 :: t).length, restText rest ++ '}' :: tl⟩
      (.ok ⟨q + (c0 :: t).length + (restText rest).length, '}' :: tl⟩ (restToks (q + (c0 :: t).length) rest)) := by
    cases hr : rest with
    | nil =>
      simpa [restText, restToks] using (Ev.rep_none (G := rules) (ws := ws) (F := 11) (atom := .compound)
        (a := .seq (.rule .r_path_sep) (.rule .r_path_item)) (st := ⟨q + (c0 :: t).length, '}' :: tl⟩)
        (Ev.seq_fail1 (F := 10) ((sep_fail_char .compound '}' tl _ (by decide) (by decide)).weaken (by omega)))).weaken (F' := 32) (by omega)
    | cons p r =>
      obtain ⟨c, s⟩ := p
      have h' : PathName (c0 :: t) ((c, s) :: r) := hr ▸ h
      obtain ⟨d2, x2, hx2, hd2, _, _⟩ := restText_head r tl (fun y hy => h'.seps y (by simp [hy]))
      have hnm := h'.names (c, s) (by simp)
      have hsl : 1 ≤ s.length := by
        cases hs : s with
        | nil => exact absurd hs hnm.1
        | cons _ _ => simp
      have hsep := sep_ok .compound c (s ++ (restText r ++ '}' :: tl)) (q + (c0 :: t).length) (h'.seps (c, s) (by simp))
      have hitem := path_item_ok s x2 d2 hnm.1 hnm.2 hd2 (q + (c0 :: t).length + 1)
      rw [← hx2] at hitem
      have hseq := Ev.seq_ok (F := s.length + (restText r).length + 30) (hsep.weaken (by omega)) (Ev.skip_off (by simp)) (hitem.weaken (by omega))
      have hl := sepLoop (c0 :: t) r tl h'.tail (q + (c0 :: t).length + 1 + s.length)
      have hrep := Ev.rep_some (F := s.length + (restText r).length + 31) hseq (hl.weaken (by omega))
      have e1' : restText ((c, s) :: r) ++ '}' :: tl = c :: s ++ (restText r ++ '}' :: tl) := by simp [restText]
      have e2' : q + (c0 :: t).length + (1 + s.length + (restText r).length) = q + (c0 :: t).length + 1 + s.length + (restText r).length := by omega
      rw [e1', restText_length_cons, e2']
      refine (by simpa [restToks] using hrep : E _ _ _ _ _).weaken (by omega)
  have hbody := Ev.seq_ok (F := pathLen (c0 :: t) rest + 50)
    (Ev.seq_ok (F := pathLen (c0 :: t) rest + 49)
      (Ev.seq_ok (F := pathLen (c0 :: t) rest + 48)
        (Ev.seq_ok (F := pathLen (c0 :: t) rest + 47)
          (Ev.seq_ok (F := pathLen (c0 :: t) rest + 46) (e1.weaken (by omega)) (hoff _ _) (e2.weaken (by omega)))
          (hoff _ _) (e3.weaken (by omega)))
        (hoff _ _) (e4.weaken (by omega)))
      (hoff _ _) (e5.weaken (by unfold pathLen; omega)))
    (hoff _ _) (e6.weaken (by unfold pathLen; omega))
  have hpi := Ev.rule_ok (G := rules) (ws := ws) (atom := .compound) (r := Rule.r_path_inline) (F := pathLen (c0 :: t) rest + 51)
    (st := st) (st' := ⟨q + (c0 :: t).length + (restText rest).length, '}' :: tl⟩) (by rw [path_inline_def]; exact hbody)
  have hty1 : (rules .r_path_inline).ty = .compound := rfl
  simp only [hty1] at hpi
  have hrf := Ev.rule_ok (G := rules) (ws := ws) (atom := .nonAtomic) (r := Rule.r_reference) (F := pathLen (c0 :: t) rest + 52)
    (st := st) (st' := ⟨q + (c0 :: t).length + (restText rest).length, '}' :: tl⟩) (by rw [reference_def]; exact hpi)
  have hty2 : (rules .r_reference).ty = .compound := rfl
  simp only [hty2] at hrf
  have e9 : q + (c0 :: t).length + (restText rest).length = q + pathLen (c0 :: t) rest := by unfold pathLen; omega
  rw [e9] at hrf
  exact (by simpa [st] using hrf : E _ _ _ _ _).weaken (by omega)

/-! ### after the first segment of a longer path no helper parameter begins: the helper-call alternative fails -/

theorem hash_dot_decided : evalK rules ws false 60 .nonAtomic (.rule .r_hash) 0 ['.'] = some .fail := KRes.isFail_eq (by decide)
theorem hash_slash_decided : evalK rules ws false 60 .nonAtomic (.rule .r_hash) 0 ['/'] = some .fail := KRes.isFail_eq (by decide)
theorem literal_dot_decided : evalK rules ws false 60 .nonAtomic (.rule .r_literal) 0 ['.'] = some .fail := KRes.isFail_eq (by decide)
theorem literal_slash_decided : evalK rules ws false 60 .nonAtomic (.rule .r_literal) 0 ['/'] = some .fail := KRes.isFail_eq (by decide)
theorem subexpr_dot_decided : evalK rules ws false 60 .nonAtomic (.rule .r_subexpression) 0 ['.'] = some .fail := KRes.isFail_eq (by decide)
theorem subexpr_slash_decided : evalK rules ws false 60 .nonAtomic (.rule .r_subexpression) 0 ['/'] = some .fail := KRes.isFail_eq (by decide)

theorem fail_of_decided (e : PExpr Rule) (he : noSoi e = true) (d : Char) (h : evalK rules ws false 60 .nonAtomic e 0 [d] = some .fail)
    (q : Nat) (x : Str) : E 60 .nonAtomic e ⟨q, d :: x⟩ .fail := by
  have := evalK_at rules ws rules_noSoi false x (by simp) 60 .nonAtomic e he [d] .fail h q
  exact ⟨by simpa using this, by simp⟩

/-- `reference` does not begin with a separator that is followed by a symbol character -/
theorem reference_fail_sep (d c1 : Char) (x : Str) (q : Nat) (hd : d = '.' ∨ d = '/') (hc1 : symChar c1 = true) :
    E 40 .nonAtomic (.rule .r_reference) ⟨q, d :: c1 :: x⟩ .fail := by
  have hdsym : symChar d = false := by rcases hd with rfl | rfl <;> decide
  let st : St := ⟨q, d :: c1 :: x⟩
  have hoff : ∀ (F : Nat) (s : St), E (F + 1) .compound .skip s (.ok s []) := fun F s => Ev.skip_off (by simp)
  have e1 : E 12 .compound (.opt (.rule .r_path_current)) st (.ok st []) := by
    refine Ev.opt_none (F := 11) (Ev.rule_fail (F := 10) ?_)
    show E 10 .compound (.choice (.seq (.str ['t', 'h', 'i', 's']) (.rule .r_path_sep)) (.str ['.', '/'])) _ _
    have h1 : matchStr ['t', 'h', 'i', 's'] st = none := by rcases hd with rfl | rfl <;> simp [st, matchStr]
    have h2 : matchStr ['.', '/'] st = none := by
      have hc : ('/' == c1) = false := beq_eq_false_iff_ne.mpr (fun e => (symChar_ne hc1 (by decide : symChar '/' = false)) e.symm)
      rcases hd with rfl | rfl <;> simp [st, matchStr, hc]
    exact Ev.choice_right (Ev.seq_fail1 (Ev.str_fail h1)) ((Ev.str_fail (F := 0) h2).weaken (by omega))
  have e2 : E 12 .compound (.opt (.seq (.rule .r_path_root) (.rule .r_path_sep))) st (.ok st []) := by
    refine Ev.opt_none (F := 11) (Ev.seq_fail1 (F := 10) (Ev.rule_fail (F := 9) ?_))
    show E 9 _ (.str ['@', 'r', 'o', 'o', 't']) _ _
    exact Ev.str_fail (by rcases hd with rfl | rfl <;> simp [st, matchStr])
  have e3 : E 12 .compound (.opt (.rule .r_path_local)) st (.ok st []) := by
    refine Ev.opt_none (F := 11) (Ev.rule_fail (F := 10) ?_)
    show E 10 _ (.str ['@']) _ _
    exact Ev.str_fail (by rcases hd with rfl | rfl <;> simp [st, matchStr])
  have e4 : E 12 .compound (.rep (.seq (.rule .r_path_up) (.rule .r_path_sep))) st (.ok st []) := by
    refine Ev.rep_none (F := 11) (Ev.seq_fail1 (F := 10) (Ev.rule_fail (F := 9) ?_))
    show E 9 _ (.str ['.', '.']) _ _
    have hc : ('.' == c1) = false := beq_eq_false_iff_ne.mpr (fun e => (symChar_ne hc1 (by decide : symChar '.' = false)) e.symm)
    exact Ev.str_fail (by rcases hd with rfl | rfl <;> simp [st, matchStr, hc])
  have e5 : E 16 .compound (.rule .r_path_item) st .fail := by
    apply Ev.rule_fail
    show E 15 .compound (.choice (.rule .r_path_id) (.rule .r_path_key)) _ _
    have hid : E 14 .compound (.rule .r_path_id) st .fail := by
      apply Ev.rule_fail
      rw [path_id_def]
      have hsc := symbol_char_class .atomic q d (c1 :: x)
      simp only [hdsym] at hsc
      exact Ev.repOnce_fail (hsc.weaken (by omega))
    have hkey : E 14 .compound (.rule .r_path_key) st .fail := by
      apply Ev.rule_fail
      show E 13 _ (.seq (.seq (.str ['[']) _) (.str [']'])) _ _
      exact Ev.seq_fail1 (Ev.seq_fail1 (Ev.str_fail (by rcases hd with rfl | rfl <;> simp [st, matchStr])))
    exact Ev.choice_right hid hkey
  have hbody := Ev.seq_fail1 (F := 25) (b := .rep (.seq (.rule .r_path_sep) (.rule .r_path_item)))
    (Ev.seq_fail2 (F := 24)
      (Ev.seq_ok (F := 23)
        (Ev.seq_ok (F := 22)
          (Ev.seq_ok (F := 21) (e1.weaken (by omega)) (hoff _ _) (e2.weaken (by omega)))
          (hoff _ _) (e3.weaken (by omega)))
        (hoff _ _) (e4.weaken (by omega)))
      (hoff _ _) (e5.weaken (by omega)))
  have hpi : E 27 .compound (.rule .r_path_inline) st .fail := Ev.rule_fail (by rw [path_inline_def]; exact hbody)
  exact (Ev.rule_fail (G := rules) (ws := ws) (F := 27) (atom := .nonAtomic) (r := Rule.r_reference) (by rw [reference_def]; exact hpi)).weaken (by omega)

theorem helper_parameter_def : rules .r_helper_parameter = ⟨.normal,
    .seq (.negPred (.seq (.rule .r_keywords) (.negPred (.rule .r_symbol_char))))
      (.choice (.choice (.rule .r_literal) (.rule .r_reference)) (.rule .r_subexpression))⟩ := rfl

theorem params_fail_sep (d c1 : Char) (x : Str) (q : Nat) (hd : d = '.' ∨ d = '/') (hc1 : symChar c1 = true) :
    E 80 .nonAtomic (.repOnce (.choice (.rule .r_hash) (.rule .r_helper_parameter))) ⟨q, d :: c1 :: x⟩ .fail := by
  have hhash : E 60 .nonAtomic (.rule .r_hash) ⟨q, d :: c1 :: x⟩ .fail := by
    rcases hd with rfl | rfl
    · exact fail_of_decided _ rfl '.' hash_dot_decided q _
    · exact fail_of_decided _ rfl '/' hash_slash_decided q _
  have hlit : E 60 .nonAtomic (.rule .r_literal) ⟨q, d :: c1 :: x⟩ .fail := by
    rcases hd with rfl | rfl
    · exact fail_of_decided _ rfl '.' literal_dot_decided q _
    · exact fail_of_decided _ rfl '/' literal_slash_decided q _
  have hsub : E 60 .nonAtomic (.rule .r_subexpression) ⟨q, d :: c1 :: x⟩ .fail := by
    rcases hd with rfl | rfl
    · exact fail_of_decided _ rfl '.' subexpr_dot_decided q _
    · exact fail_of_decided _ rfl '/' subexpr_slash_decided q _
  have href := reference_fail_sep d c1 x q hd hc1
  have hkw : E 10 .nonAtomic (.negPred (.seq (.rule .r_keywords) (.negPred (.rule .r_symbol_char)))) ⟨q, d :: c1 :: x⟩ (.ok ⟨q, d :: c1 :: x⟩ []) := by
    refine Ev.negPred_ok (F := 9) (Ev.seq_fail1 (F := 8) (Ev.rule_fail (F := 7) ?_))
    show E 7 _ (.choice (.str ['a', 's']) (.str ['e', 'l', 's', 'e'])) _ _
    exact Ev.choice_right (Ev.str_fail (by rcases hd with rfl | rfl <;> simp [matchStr])) (Ev.str_fail (by rcases hd with rfl | rfl <;> simp [matchStr]))
  have hws : isPestWs d = false := by rcases hd with rfl | rfl <;> decide
  have hhp : E 70 .nonAtomic (.rule .r_helper_parameter) ⟨q, d :: c1 :: x⟩ .fail := by
    apply Ev.rule_fail
    rw [helper_parameter_def]
    exact Ev.seq_fail2 (F := 68) (hkw.weaken (by omega)) ((skip_at d (c1 :: x) hws q).weaken (by omega))
      (Ev.choice_right (F := 67) (Ev.choice_right (F := 66) (hlit.weaken (by omega)) (href.weaken (by omega))) (hsub.weaken (by omega)))
  exact Ev.repOnce_fail (F := 79) (Ev.choice_right (F := 78) (hhash.weaken (by omega)) (hhp.weaken (by omega)))

/-! ### the tag -/

def pathText (n0 : Str) (rest : List (Char × Str)) : Str := n0 ++ restText rest
def pathSrc (n0 : Str) (rest : List (Char × Str)) : Str := '{' :: '{' :: (pathText n0 rest ++ ['}', '}'])

theorem pathText_length (n0 : Str) (rest : List (Char × Str)) : (pathText n0 rest).length = pathLen n0 rest := by
  simp [pathText, pathLen]

/-- the pairs of `{{n0.n1…}}` at offset 0 -/
def pathTagToks (n0 : Str) (rest : List (Char × Str)) : List (Tok Rule) :=
  ⟨some .r_expression, 0, pathLen n0 rest + 4⟩ :: ⟨some .r_reference, 2, 2 + pathLen n0 rest⟩ :: ⟨some .r_path_inline, 2, 2 + pathLen n0 rest⟩ ::
    ⟨some .r_path_id, 2, 2 + n0.length⟩ :: restToks (2 + n0.length) rest

theorem restToks_shift (p k : Nat) : ∀ (rest : List (Char × Str)), (restToks k rest).map (shiftTok p) = restToks (p + k) rest := by
  intro rest
  induction rest generalizing k with
  | nil => rfl
  | cons q r ih =>
    obtain ⟨c, s⟩ := q
    simp only [restToks, List.map_cons, shiftTok, ih]
    congr 1
    · congr 1 <;> omega
    · congr 1; omega

/-- the alternative `(identifier ~ params+) | name` over a dotted path in front of `}` -/
theorem path_choice_ok (n0 : Str) (rest : List (Char × Str)) (tl : Str) (h : PathName n0 rest) (hthis : n0 ≠ ['t', 'h', 'i', 's']) (q : Nat) :
    E (pathLen n0 rest + 90) .nonAtomic
      (.choice (.seq (.rule .r_identifier) (.repOnce (.choice (.rule .r_hash) (.rule .r_helper_parameter)))) (.rule .r_name))
      ⟨q, n0 ++ (restText rest ++ '}' :: tl)⟩
      (.ok ⟨q + pathLen n0 rest, '}' :: tl⟩ (⟨some .r_reference, q, q + pathLen n0 rest⟩ :: ⟨some .r_path_inline, q, q + pathLen n0 rest⟩ ::
        ⟨some .r_path_id, q, q + n0.length⟩ :: restToks (q + n0.length) rest)) := by
  obtain ⟨c0, t, hn0⟩ := List.exists_cons_of_ne_nil h.first.ne
  have hc0 : symChar c0 = true := h.first.sym c0 (by rw [hn0]; simp)
  obtain ⟨d, x, hx, hd, _, hdws⟩ := restText_head rest tl h.seps
  have hlen : n0.length ≤ pathLen n0 rest := by unfold pathLen; omega
  -- the helper-call alternative: the identifier is the first segment; no parameter follows
  have hid := identifier_ok n0 x d h.first.ne h.first.sym hd q
  rw [← hx] at hid
  have hparams : E 80 .nonAtomic (.repOnce (.choice (.rule .r_hash) (.rule .r_helper_parameter))) ⟨q + n0.length, restText rest ++ '}' :: tl⟩ .fail := by
    cases hr : rest with
    | nil => simpa [restText] using (params_fail (q + n0.length) tl).weaken (F' := 80) (by omega)
    | cons p r =>
      obtain ⟨c, s⟩ := p
      have h' : PathName n0 ((c, s) :: r) := hr ▸ h
      have hnm := h'.names (c, s) (by simp)
      obtain ⟨c1, s', hs'⟩ := List.exists_cons_of_ne_nil hnm.1
      have hs'' : s = c1 :: s' := hs'
      have : restText ((c, s) :: r) ++ '}' :: tl = c :: c1 :: (s' ++ (restText r ++ '}' :: tl)) := by simp [restText, hs'']
      rw [this]
      exact params_fail_sep c c1 _ _ (h'.seps (c, s) (by simp)) (hnm.2 c1 (by rw [hs']; simp))
  have hskip : E 6 .nonAtomic .skip ⟨q + n0.length, restText rest ++ '}' :: tl⟩ (.ok ⟨q + n0.length, restText rest ++ '}' :: tl⟩ []) := by
    rw [hx]; exact skip_at d x hdws _
  have halt1 := Ev.seq_fail2 (F := pathLen n0 rest + 88) (hid.weaken (by omega)) (hskip.weaken (by omega)) (hparams.weaken (by omega))
  -- the name alternative
  have hrest : n0 ++ (restText rest ++ '}' :: tl) = c0 :: (t ++ (restText rest ++ '}' :: tl)) := by simp [hn0]
  have hsub : E 10 .nonAtomic (.rule .r_subexpression) ⟨q, c0 :: (t ++ (restText rest ++ '}' :: tl))⟩ .fail := by
    apply Ev.rule_fail
    show E 9 _ (.seq (.seq (.str ['(']) _) (.str [')'])) _ _
    exact Ev.seq_fail1 (Ev.seq_fail1 (Ev.str_fail (matchStr_head_ne _ _ _ _ _ (symChar_ne hc0 (by decide)))))
  have href := reference_path_ok n0 rest tl h hthis q
  have hname := Ev.rule_ok (G := rules) (ws := ws) (atom := .nonAtomic) (r := Rule.r_name) (F := pathLen n0 rest + 61)
    (st := ⟨q, n0 ++ (restText rest ++ '}' :: tl)⟩) (st' := ⟨q + pathLen n0 rest, '}' :: tl⟩)
    (by rw [name_def]; exact Ev.choice_right (by rw [hrest]; exact hsub.weaken (by omega)) (href.weaken (by omega)))
  have hty : (rules .r_name).ty = .silent := rfl
  simp only [hty] at hname
  exact Ev.choice_right halt1 ((by simpa using hname : E _ _ _ _ _).weaken (by omega))

/-- **`{{n0.n1/n2…}}` is one element of `template`** – for every dotted path of identifiers -/
theorem path_tagAt (n0 : Str) (rest : List (Char × Str)) (h : PathName n0 rest) (hthis : n0 ≠ ['t', 'h', 'i', 's']) :
    TagAt (pathSrc n0 rest) (pathLen n0 rest + 130) (pathTagToks n0 rest) := by
  intro p tail
  obtain ⟨c0, t, hn0⟩ := List.exists_cons_of_ne_nil h.first.ne
  have hc0 : symChar c0 = true := h.first.sym c0 (by rw [hn0]; simp)
  have hws := symChar_not_ws hc0
  obtain ⟨d, x0, hx0, hd, _, _⟩ := restText_head rest ('}' :: tail) h.seps
  let x : Str := t ++ (restText rest ++ '}' :: '}' :: tail)
  have hsrc : pathSrc n0 rest ++ tail = '{' :: '{' :: c0 :: x := by simp [pathSrc, pathText, hn0, x]
  have hrest : n0 ++ (restText rest ++ '}' :: '}' :: tail) = c0 :: x := by simp [hn0, x]
  have helse : matchStr ['e', 'l', 's', 'e'] ⟨p + 2, c0 :: x⟩ = none := by
    have hde : ∀ c ∈ ['e', 'l', 's', 'e'], c ≠ d := by
      intro c hc
      have : symChar c = true := by
        simp only [List.mem_cons, List.not_mem_nil, or_false] at hc
        rcases hc with rfl | rfl | rfl | rfl <;> decide
      exact symChar_ne this hd
    have := matchStr_nameG ['e', 'l', 's', 'e'] n0 x0 d (p + 2) hde
    rw [← hx0, hrest] at this
    rw [this, h.first.notElse]; rfl
  have hpre := invert_prefix_fail c0 x p hc0 helse
  have hneg := invert_tags_fail c0 x p hpre
  have hA := Ev.seq_ok (F := pathLen n0 rest + 100) (hneg.weaken (by omega))
    ((skip_at '{' ('{' :: c0 :: x) (by decide) p).weaken (by omega))
    (Ev.str_ok (F := pathLen n0 rest + 99) (s := ['{', '{']) (st' := ⟨p + 2, c0 :: x⟩) (by simp [matchStr]))
  have hB := Ev.seq_ok (F := pathLen n0 rest + 101) hA ((skip_at c0 x hws (p + 2)).weaken (by omega))
    ((lead_tilde_none c0 x (p + 2) (symChar_ne hc0 (by decide))).weaken (by omega))
  have hch := path_choice_ok n0 rest ('}' :: tail) h hthis (p + 2)
  rw [hrest] at hch
  have hC := Ev.seq_ok (F := pathLen n0 rest + 102) (atom := .nonAtomic) hB ((skip_at c0 x hws (p + 2)).weaken (by omega)) (hch.weaken (by omega))
  have hD := Ev.seq_ok (F := pathLen n0 rest + 103) hC ((skip_at '}' ('}' :: tail) (by decide) (p + 2 + pathLen n0 rest)).weaken (by omega))
    ((trail_tilde_none '}' ('}' :: tail) (p + 2 + pathLen n0 rest) (by decide)).weaken (by omega))
  have hEnd := Ev.seq_ok (F := pathLen n0 rest + 104) hD ((skip_at '}' ('}' :: tail) (by decide) (p + 2 + pathLen n0 rest)).weaken (by omega))
    (Ev.str_ok (F := pathLen n0 rest + 103) (s := ['}', '}']) (st' := ⟨p + 2 + pathLen n0 rest + 2, tail⟩) (by simp [matchStr]))
  have hr := Ev.rule_ok (G := rules) (ws := ws) (atom := .nonAtomic) (r := Rule.r_expression) (F := pathLen n0 rest + 104 + 1 + 8)
    (st := ⟨p, '{' :: '{' :: c0 :: x⟩) (st' := ⟨p + 2 + pathLen n0 rest + 2, tail⟩) (E.of_nf (atom := .nonAtomic) .r_expression expression_nf hEnd)
  have hty2 : (rules .r_expression).ty = .normal := rfl
  simp only [hty2] at hr
  have e1 : p + 2 + pathLen n0 rest + 2 = p + (pathLen n0 rest + 4) := by omega
  rw [e1] at hr
  have hraw : E 40 .nonAtomic (.rule .r_raw_text) ⟨p, '{' :: '{' :: c0 :: x⟩ .fail := raw_text_open_fail p (c0 :: x)
  rw [templateAlt_eq, altsBefore_eq, hsrc]
  unfold alts4
  have h2 := Ev.choice_right (F := pathLen n0 rest + 120) (hraw.weaken (by omega)) (hr.weaken (by omega))
  have := Ev.choice_left (b := .rule .r_partial_block) (Ev.choice_left (b := .rule .r_partial_expression)
    (Ev.choice_left (b := .rule .r_decorator_block) (Ev.choice_left (b := .rule .r_decorator_expression)
      (Ev.choice_left (b := .rule .r_hbs_comment_compact) (Ev.choice_left (b := .rule .r_hbs_comment)
        (Ev.choice_left (b := .rule .r_raw_block) (Ev.choice_left (b := .rule .r_helper_block) (Ev.choice_left (b := .rule .r_html_expression) h2))))))))
  have hlenT : (pathSrc n0 rest).length = pathLen n0 rest + 4 := by simp [pathSrc, pathText_length]
  have := this.weaken (F' := pathLen n0 rest + 130) (by omega)
  simp only [pathTagToks, List.map_cons, shiftTok, restToks_shift, hlenT]
  simpa [Nat.add_comm, Nat.add_left_comm, Nat.add_assoc] using this

end Hbs.PlainText
