import HbsModel.Num
/-
  The comparison of numbers is the order of their exact values: for any common scale 2^K below both
  exponents, `Dy.cmp a b` is the integer comparison of  ±m·2^(e-K).  Hence a total preorder.
-/
namespace Hbs

/-- magnitude at scale 2^K -/
def Dy.mag (K : Int) (a : Dy) : Nat := a.m * 2 ^ (a.e - K).toNat
/-- the exact value, as an integer multiple of 2^K -/
def Dy.scaled (K : Int) (a : Dy) : Int := if a.neg then -(a.mag K : Int) else (a.mag K : Int)

theorem ordering_of_int (o : Ordering) (x y : Int)
    (h1 : x < y → o = .lt) (h2 : x = y → o = .eq) (h3 : y < x → o = .gt) : o = compare x y := by
  rcases Int.lt_trichotomy x y with h | h | h
  · rw [h1 h]; exact (Int.compare_eq_lt.mpr h).symm
  · rw [h2 h]; exact (Int.compare_eq_eq.mpr h).symm
  · rw [h3 h]; exact (Int.compare_eq_gt.mpr h).symm

theorem nat_compare_mul (x y c : Nat) (hc : 0 < c) : compare (x * c) (y * c) = compare x y := by
  rcases Nat.lt_trichotomy x y with h | h | h
  · rw [Nat.compare_eq_lt.mpr h, Nat.compare_eq_lt.mpr ((Nat.mul_lt_mul_right hc).mpr h)]
  · subst h; simp
  · rw [Nat.compare_eq_gt.mpr h, Nat.compare_eq_gt.mpr ((Nat.mul_lt_mul_right hc).mpr h)]

theorem Dy.magCmp_scaled (a b : Dy) (K : Int) (ha : K ≤ a.e) (hb : K ≤ b.e) :
    Dy.magCmp a b = compare (a.mag K) (b.mag K) := by
  unfold Dy.magCmp Dy.mag
  have hk1 : min a.e b.e ≤ a.e := Int.min_le_left _ _
  have hk2 : min a.e b.e ≤ b.e := Int.min_le_right _ _
  have hK : K ≤ min a.e b.e := Int.le_min.mpr ⟨ha, hb⟩
  generalize min a.e b.e = k at *
  have e1 : (a.e - K).toNat = (a.e - k).toNat + (k - K).toNat := by omega
  have e2 : (b.e - K).toNat = (b.e - k).toNat + (k - K).toNat := by omega
  simp only []
  rw [e1, e2, Nat.pow_add, Nat.pow_add, ← Nat.mul_assoc, ← Nat.mul_assoc]
  exact (nat_compare_mul _ _ _ (Nat.pow_pos (by decide))).symm

theorem Dy.mag_pos (K : Int) (a : Dy) (h : a.m ≠ 0) : 0 < a.mag K := by
  unfold Dy.mag
  exact Nat.mul_pos (Nat.pos_of_ne_zero h) (Nat.pow_pos (by decide))

theorem Dy.mag_zero (K : Int) (a : Dy) (h : a.m = 0) : a.mag K = 0 := by
  unfold Dy.mag; rw [h]; simp

/-- **the comparison is the order of the exact values** -/
theorem Dy.cmp_scaled (a b : Dy) (K : Int) (ha : K ≤ a.e) (hb : K ≤ b.e) :
    Dy.cmp a b = compare (a.scaled K) (b.scaled K) := by
  have hmag := Dy.magCmp_scaled a b K ha hb
  have hmag' := Dy.magCmp_scaled b a K hb ha
  unfold Dy.cmp Dy.scaled
  by_cases ham : a.m = 0
  · have hA := Dy.mag_zero K a ham
    by_cases hbm : b.m = 0
    · have hB := Dy.mag_zero K b hbm
      simp [ham, hbm, hA, hB]
    · have hB := Dy.mag_pos K b hbm
      have hbm' : (b.m == 0) = false := by simpa using hbm
      simp only [ham, hbm', hA, beq_self_eq_true, Bool.true_and, Bool.false_eq_true, ↓reduceIte, Int.natCast_zero, Int.neg_zero, ite_self]
      apply ordering_of_int
      · intro h; cases hn : b.neg <;> simp [hn] at h ⊢ <;> omega
      · intro h; cases hn : b.neg <;> simp [hn] at h <;> omega
      · intro h; cases hn : b.neg <;> simp [hn] at h ⊢ <;> omega
  · have hA := Dy.mag_pos K a ham
    have ham' : (a.m == 0) = false := by simpa using ham
    by_cases hbm : b.m = 0
    · have hB := Dy.mag_zero K b hbm
      simp only [ham', hbm, hB, beq_self_eq_true, Bool.false_and, Bool.false_eq_true, ↓reduceIte, Int.natCast_zero, Int.neg_zero, ite_self]
      apply ordering_of_int
      · intro h; cases hn : a.neg <;> simp [hn] at h ⊢ <;> omega
      · intro h; cases hn : a.neg <;> simp [hn] at h <;> omega
      · intro h; cases hn : a.neg <;> simp [hn] at h ⊢ <;> omega
    · have hB := Dy.mag_pos K b hbm
      have hbm' : (b.m == 0) = false := by simpa using hbm
      simp only [ham', hbm', Bool.false_and, Bool.false_eq_true, ↓reduceIte]
      cases hna : a.neg <;> cases hnb : b.neg <;> simp only [Bool.false_eq_true, ↓reduceIte]
      · rw [hmag]
        apply ordering_of_int
        · intro h; exact Nat.compare_eq_lt.mpr (by omega)
        · intro h; exact Nat.compare_eq_eq.mpr (by omega)
        · intro h; exact Nat.compare_eq_gt.mpr (by omega)
      · apply ordering_of_int <;> intro h <;> first | rfl | omega
      · apply ordering_of_int <;> intro h <;> first | rfl | omega
      · rw [hmag']
        apply ordering_of_int
        · intro h; exact Nat.compare_eq_lt.mpr (by omega)
        · intro h; exact Nat.compare_eq_eq.mpr (by omega)
        · intro h; exact Nat.compare_eq_gt.mpr (by omega)

end Hbs
