import HbsModel.Lemmas.TagInText
/-
  `{{!` c `}}` for EVERY comment body c (no `}}` inside, not ending in `}`, not beginning – after
  whitespace – with `--`): one element of `template`, the pair hbs_comment_compact, wherever it stands
  and whatever follows.
-/
namespace Hbs.PlainText
open Hbs Hbs.Pest Hbs.Grammar

def noClose : Str → Prop
  | '}' :: '}' :: _ => False
  | _ :: t => noClose t
  | [] => True

theorem noClose_tail (c : Char) (t : Str) (h : noClose (c :: t)) : noClose t := by
  unfold noClose at h
  split at h
  · exact h.elim
  · rename_i heq; cases heq; exact h
  · cases ‹_ :: _ = []›

theorem noClose_head (d : Char) (t : Str) (h : noClose ('}' :: d :: t)) : d ≠ '}' := by
  intro e; subst e; exact h

/-- what a comment body may be: no `}}` inside and no `}` at its end -/
structure CommentText (s : Str) : Prop where
  noClose : noClose s
  noBrace : s.getLast? ≠ some '}'

theorem CommentText.nil : CommentText [] := ⟨trivial, by simp⟩

theorem CommentText.tail {c : Char} {t : Str} (h : CommentText (c :: t)) : CommentText t := by
  cases t with
  | nil => exact CommentText.nil
  | cons d t' =>
    refine ⟨noClose_tail c _ h.noClose, ?_⟩
    have := h.noBrace; rwa [List.getLast?_cons_of_ne_nil (by simp)] at this

theorem CommentText.suffix (a b : Str) (h : CommentText (a ++ b)) : CommentText b := by
  induction a with
  | nil => exact h
  | cons c a ih => exact ih (CommentText.tail (by simpa using h))

theorem matchClose_append_none (x cont : Str) (p : Nat) (hx : CommentText x) (hne : x ≠ []) :
    matchStr ['}', '}'] ⟨p, x ++ cont⟩ = none := by
  cases x with
  | nil => exact absurd rfl hne
  | cons c t =>
    by_cases hc : c = '}'
    · subst hc
      cases t with
      | nil => exact absurd rfl hx.noBrace
      | cons d t' =>
        have hd : d ≠ '}' := noClose_head d t' hx.noClose
        have hdb : ('}' == d) = false := beq_eq_false_iff_ne.mpr (fun e => hd e.symm)
        simp [matchStr, hdb]
    · have hcb : ('}' == c) = false := beq_eq_false_iff_ne.mpr (fun e => hc e.symm)
      simp [matchStr, hcb]

/-- one element of the body of a compact comment -/
def cmtElem : PExpr Rule := .seq (.negPred (.str ['}', '}'])) (.builtin .any)

theorem compact_def : rules .r_hbs_comment_compact
    = ⟨.normal, .seq (.seq (.str ['{', '{', '!']) (.rep cmtElem)) (.str ['}', '}'])⟩ := rfl

theorem cmtElem_step (p : Nat) (x : Char) (rest : Str) (hx : isPestWs x = false)
    (hm : matchStr ['}', '}'] ⟨p, x :: rest⟩ = none) :
    E 8 .nonAtomic cmtElem ⟨p, x :: rest⟩ (.ok ⟨p + 1, rest⟩ []) := by
  have := Ev.seq_ok (F := 7) (b := .builtin .any) (Ev.negPred_ok (F := 6) (Ev.str_fail (F := 5) hm))
    (Ev.skip_none (F := 6) ((ws_char_fail x rest p hx).weaken (by omega))) (Ev.any_ok (F := 6))
  exact this

theorem cmtElem_stop (p : Nat) (tail : Str) : E 8 .nonAtomic cmtElem ⟨p, '}' :: '}' :: tail⟩ .fail := by
  have hm : matchStr ['}', '}'] ⟨p, '}' :: '}' :: tail⟩ = some ⟨p + 2, tail⟩ := by simp [matchStr]
  exact Ev.seq_fail1 (F := 7) (Ev.negPred_fail (F := 6) (Ev.str_ok (F := 5) hm))

/-- the remaining iterations of the body: up to the whitespace in front of the closing `}}` -/
theorem cmtLoop (n : Nat) : ∀ (c tail : Str) (p : Nat), c.length ≤ n → CommentText c →
    ∃ k, k ≤ c.length ∧ (∀ ch ∈ c.drop k, isPestWs ch = true) ∧
      E (c.length + 20) .nonAtomic (.starTail cmtElem) ⟨p, c ++ '}' :: '}' :: tail⟩
        (.ok ⟨p + k, c.drop k ++ '}' :: '}' :: tail⟩ []) := by
  induction n with
  | zero =>
    intro c tail p hlen _
    have : c = [] := List.eq_nil_of_length_eq_zero (by omega)
    subst this
    refine ⟨0, by simp, by simp, ?_⟩
    have hs := skip_run [] ('}' :: '}' :: tail) (by simp) (Or.inr ⟨'}', _, rfl, by decide⟩) p
    exact (Ev.starTail_stop (F := 10) (hs.weaken (by simp)) ((cmtElem_stop p tail).weaken (by omega))).weaken (by simp)
  | succ n ih =>
    intro c tail p hlen hc
    have hsplit := split_ws c
    rcases dropWhile_ws_head c with hd | ⟨x, c2, hd, hx⟩
    · -- only whitespace left
      have hall : ∀ ch ∈ c, isPestWs ch = true := by
        intro ch h; rw [hsplit, hd, List.append_nil] at h; exact takeWhile_ws c ch h
      refine ⟨0, by simp, by simpa using hall, ?_⟩
      have hs := skip_run c ('}' :: '}' :: tail) hall (Or.inr ⟨'}', _, rfl, by decide⟩) p
      exact (Ev.starTail_stop (F := c.length + 10) (hs.weaken (by omega)) ((cmtElem_stop _ tail).weaken (by omega))).weaken (by omega)
    · let w := c.takeWhile isPestWs
      have hcw : c = w ++ x :: c2 := by rw [← hd]; exact hsplit
      have hsuf : CommentText (x :: c2) := CommentText.suffix w _ (by rw [← hcw]; exact hc)
      have hc2 : CommentText c2 := hsuf.tail
      have hclen : c.length = w.length + (c2.length + 1) := by
        have := congrArg List.length hcw
        simpa using this
      have hlen2 : c2.length ≤ n := by omega
      obtain ⟨k2, hk2, hws2, hloop⟩ := ih c2 tail (p + w.length + 1) hlen2 hc2
      have hm := matchClose_append_none (x :: c2) ('}' :: '}' :: tail) (p + w.length) hsuf (by simp)
      have hs := skip_run w (x :: c2 ++ '}' :: '}' :: tail) (takeWhile_ws c) (Or.inr ⟨x, _, rfl, hx⟩) p
      have hstep := Ev.starTail_step (F := c.length + 19) (hs.weaken (by omega))
        ((cmtElem_step _ x _ hx (by simpa using hm)).weaken (by omega)) (by simp <;> omega)
        (hloop.weaken (by omega))
      refine ⟨w.length + 1 + k2, ?_, ?_, ?_⟩
      · omega
      · have : c.drop (w.length + 1 + k2) = c2.drop k2 := by
          rw [hcw, show w.length + 1 + k2 = w.length + (1 + k2) by omega, List.drop_append]
          simp [Nat.add_comm 1 k2]
        rw [this]; exact hws2
      · have e1 : c.drop (w.length + 1 + k2) = c2.drop k2 := by
          rw [hcw, show w.length + 1 + k2 = w.length + (1 + k2) by omega, List.drop_append]
          simp [Nat.add_comm 1 k2]
        have e2 : c ++ '}' :: '}' :: tail = w ++ (x :: c2 ++ '}' :: '}' :: tail) := by rw [hcw]; simp
        rw [e1, e2, show p + (w.length + 1 + k2) = p + w.length + 1 + k2 by omega]
        simpa using hstep

/-- the whole body, from a position that is not whitespace -/
theorem cmtRep (c tail : Str) (p : Nat) (hc : CommentText c)
    (hstart : c = [] ∨ ∃ x r, c = x :: r ∧ isPestWs x = false) :
    ∃ k, k ≤ c.length ∧ (∀ ch ∈ c.drop k, isPestWs ch = true) ∧
      E (c.length + 30) .nonAtomic (.rep cmtElem) ⟨p, c ++ '}' :: '}' :: tail⟩
        (.ok ⟨p + k, c.drop k ++ '}' :: '}' :: tail⟩ []) := by
  rcases hstart with rfl | ⟨x, c2, rfl, hx⟩
  · exact ⟨0, by simp, by simp, (Ev.rep_none (F := 8) (cmtElem_stop p tail)).weaken (by simp)⟩
  · obtain ⟨k2, hk2, hws2, hloop⟩ := cmtLoop c2.length c2 tail (p + 1) (Nat.le_refl _) hc.tail
    have hm := matchClose_append_none (x :: c2) ('}' :: '}' :: tail) p hc (by simp)
    have := Ev.rep_some (F := c2.length + 20) ((cmtElem_step p x _ hx (by simpa using hm)).weaken (by omega)) hloop
    refine ⟨1 + k2, by simp; omega, ?_, ?_⟩
    · simpa [Nat.add_comm 1 k2] using hws2
    · have e : (x :: c2).drop (1 + k2) = c2.drop k2 := by simp [Nat.add_comm 1 k2]
      rw [e, show p + (1 + k2) = p + 1 + k2 by omega]
      exact (by simpa using this : E _ _ _ _ _).weaken (by simp <;> omega)

/-- a comment body does not begin, after whitespace, with `--` (that is the long form) -/
def noDash (c : Str) : Prop := ∀ t, c.dropWhile isPestWs ≠ '-' :: '-' :: t

theorem matchDash_none (c1 tail : Str) (p : Nat) (h : ∀ t, c1 ≠ '-' :: '-' :: t) :
    matchStr ['-', '-'] ⟨p, c1 ++ '}' :: '}' :: tail⟩ = none := by
  match c1, h with
  | [], _ => simp [matchStr]
  | [a], _ => by_cases ha : a = '-' <;> simp [matchStr, ha]
  | a :: b :: t, h =>
    by_cases ha : a = '-'
    · subst ha
      have hb : b ≠ '-' := fun e => h t (by rw [e])
      have : ('-' == b) = false := beq_eq_false_iff_ne.mpr (fun e => hb e.symm)
      simp [matchStr, this]
    · have : ('-' == a) = false := beq_eq_false_iff_ne.mpr (fun e => ha e.symm)
      simp [matchStr, this]

def cmtSrc (c : Str) : Str := '{' :: '{' :: '!' :: (c ++ ['}', '}'])

theorem rules_noSoi : ∀ r, noSoi (rules r).body = true := by
  intro r; cases r <;> rfl

/-- the alternatives of `template` in front of the two comment forms -/
def altsBefore : PExpr Rule :=
  .choice (.choice (.choice (.choice (.rule .r_raw_text) (.rule .r_expression)) (.rule .r_html_expression))
    (.rule .r_helper_block)) (.rule .r_raw_block)

theorem templateAlt_eq : templateAlt =
    .choice (.choice (.choice (.choice (.choice (.choice altsBefore (.rule .r_hbs_comment)) (.rule .r_hbs_comment_compact))
      (.rule .r_decorator_expression)) (.rule .r_decorator_block)) (.rule .r_partial_expression)) (.rule .r_partial_block) := rfl

/-- decided on the regenerated grammar: on `{{!` – whatever follows – text, expression, html expression,
    helper block and raw block all fail -/
def KRes.isFail : Option (KRes Rule) → Bool
  | some .fail => true
  | _ => false

theorem KRes.isFail_eq {r : Option (KRes Rule)} (h : KRes.isFail r = true) : r = some .fail := by
  match r, h with
  | some .fail, _ => rfl

theorem alts_before_decided : evalK rules ws false 80 .nonAtomic altsBefore 0 ['{', '{', '!'] = some .fail :=
  KRes.isFail_eq (by decide)

theorem alts_before_fail (p : Nat) (tail : Str) :
    E 80 .nonAtomic altsBefore ⟨p, '{' :: '{' :: '!' :: tail⟩ .fail := by
  have := evalK_at rules ws rules_noSoi false tail (by simp) 80 .nonAtomic altsBefore rfl ['{', '{', '!'] .fail
    alts_before_decided p
  exact ⟨by simpa using this, by simp⟩

theorem comment_def : ∃ X, rules .r_hbs_comment
    = ⟨.normal, .seq (.seq (.seq (.seq (.str ['{', '{', '!']) (.str ['-', '-'])) X) (.str ['-', '-'])) (.str ['}', '}'])⟩ := ⟨_, rfl⟩

/-- **`{{!c}}` is one element of `template`** (pair hbs_comment_compact), for every comment body `c` -/
theorem comment_tagAt (c : Str) (hc : CommentText c) (hd : noDash c) :
    TagAt (cmtSrc c) (c.length + 120) [⟨some .r_hbs_comment_compact, 0, c.length + 5⟩] := by
  intro p tail
  let w := c.takeWhile isPestWs
  let c1 := c.dropWhile isPestWs
  have hcw : c = w ++ c1 := split_ws c
  have hclen : c.length = w.length + c1.length := by simpa using congrArg List.length hcw
  have hc1 : CommentText c1 := CommentText.suffix w c1 (by rw [← hcw]; exact hc)
  have hstart := dropWhile_ws_head c
  -- the source from the comment body on
  have hsrc : cmtSrc c ++ tail = '{' :: '{' :: '!' :: (w ++ (c1 ++ '}' :: '}' :: tail)) := by
    show '{' :: '{' :: '!' :: (c ++ ['}', '}']) ++ tail = _
    rw [hcw]; simp
  have hopen : matchStr ['{', '{', '!'] ⟨p, '{' :: '{' :: '!' :: (w ++ (c1 ++ '}' :: '}' :: tail))⟩
      = some ⟨p + 3, w ++ (c1 ++ '}' :: '}' :: tail)⟩ := by simp [matchStr]
  have hskip1 := skip_run w (c1 ++ '}' :: '}' :: tail) (takeWhile_ws c)
    (by
      rcases hstart with h0 | ⟨x, r, hx, hxw⟩
      · right; exact ⟨'}', '}' :: tail, by show c1 ++ _ = _; rw [show c1 = [] from h0]; rfl, by decide⟩
      · right; exact ⟨x, r ++ '}' :: '}' :: tail, by show c1 ++ _ = _; rw [show c1 = x :: r from hx]; rfl, hxw⟩) (p + 3)
  -- hbs_comment fails
  have hlong : E (c.length + 20) .nonAtomic (.rule .r_hbs_comment) ⟨p, cmtSrc c ++ tail⟩ .fail := by
    obtain ⟨X, hX⟩ := comment_def
    apply Ev.rule_fail (F := c.length + 19)
    rw [hX, hsrc]
    have hdash := matchDash_none c1 tail (p + 3 + w.length) hd
    exact Ev.seq_fail1 (F := c.length + 18) (Ev.seq_fail1 (F := c.length + 17) (Ev.seq_fail1 (F := c.length + 16)
      (Ev.seq_fail2 (F := c.length + 15) (Ev.str_ok (F := c.length + 14) hopen) (hskip1.weaken (by omega))
        (Ev.str_fail (F := c.length + 14) hdash))))
  -- hbs_comment_compact succeeds
  obtain ⟨k, hk, hws, hrep⟩ := cmtRep c1 tail (p + 3 + w.length) hc1 hstart
  have hskip2 := skip_run (c1.drop k) ('}' :: '}' :: tail) hws (Or.inr ⟨'}', _, rfl, by decide⟩) (p + 3 + w.length + k)
  have hclose : matchStr ['}', '}'] ⟨p + 3 + w.length + k + (c1.drop k).length, '}' :: '}' :: tail⟩
      = some ⟨p + 3 + w.length + k + (c1.drop k).length + 2, tail⟩ := by simp [matchStr]
  have hend : p + 3 + w.length + k + (c1.drop k).length + 2 = p + (cmtSrc c).length := by
    simp [cmtSrc]; omega
  have hcompact : E (c.length + 50) .nonAtomic (.rule .r_hbs_comment_compact) ⟨p, cmtSrc c ++ tail⟩
      (.ok ⟨p + (cmtSrc c).length, tail⟩ [⟨some .r_hbs_comment_compact, p, p + (cmtSrc c).length⟩]) := by
    have hbody := Ev.seq_ok (F := c.length + 40)
      (Ev.seq_ok (F := c.length + 39) (Ev.str_ok (F := c.length + 38) hopen) (hskip1.weaken (by omega)) (hrep.weaken (by omega)))
      (hskip2.weaken (by simp; omega)) (Ev.str_ok (F := c.length + 39) hclose)
    have hr := Ev.rule_ok (G := rules) (ws := ws) (atom := .nonAtomic) (r := Rule.r_hbs_comment_compact) (F := c.length + 41)
      (st := ⟨p, cmtSrc c ++ tail⟩) (st' := ⟨p + (cmtSrc c).length, tail⟩) (toks := [])
      (by rw [compact_def, hsrc, ← hend]; simpa [innerAtom] using hbody)
    have hty : (rules .r_hbs_comment_compact).ty = .normal := rfl
    simp only [hty] at hr
    exact hr.weaken (by omega)
  have hbefore : E 80 .nonAtomic altsBefore ⟨p, cmtSrc c ++ tail⟩ .fail := alts_before_fail p _
  rw [templateAlt_eq]
  have h6 := Ev.choice_right (F := c.length + 100) (Ev.choice_right (F := c.length + 99) (hbefore.weaken (by omega)) (hlong.weaken (by omega)))
    (hcompact.weaken (by omega))
  have := Ev.choice_left (b := .rule .r_partial_block) (Ev.choice_left (b := .rule .r_partial_expression)
    (Ev.choice_left (b := .rule .r_decorator_block) (Ev.choice_left (b := .rule .r_decorator_expression) h6)))
  have hlenT : (cmtSrc c).length = c.length + 5 := by simp [cmtSrc]
  have := this.weaken (F' := c.length + 120) (by omega)
  simpa [shiftTok, hlenT, Nat.add_comm] using this

end Hbs.PlainText
