import HbsModel.Lemmas.CompileValue
/-
  compile2 on  L ++ "{{h 1}}" ++ W ++ R' : text, a helper call with one literal argument, text – with the position table.
-/
namespace Hbs.PlainText
open Hbs Hbs.Pest Hbs.Grammar

def callSrc : Str := ['{', '{', 'h', ' ', '1', '}', '}']
def callToks : List (Tok Rule) :=
  [⟨some .r_expression, 0, 7⟩, ⟨some .r_identifier, 2, 3⟩, ⟨some .r_helper_parameter, 4, 5⟩, ⟨some .r_literal, 4, 5⟩,
   ⟨some .r_number_literal, 4, 5⟩]

theorem call_decided : evalK rules ws false 200 .nonAtomic templateAlt 0 callSrc = some (.ok 7 [] callToks) :=
  KRes.isOkWith_eq (by decide)

theorem call_tagAt : TagAt callSrc 200 callToks := by
  intro p tail
  have := evalK_at rules ws rules_noSoi false tail (by simp) 200 .nonAtomic templateAlt rfl callSrc _ call_decided p
  refine ⟨?_, by simp [shiftRes, embedK]⟩
  rw [this]
  simp [shiftRes, embedK, callSrc, Nat.add_comm]

theorem parse_text_call_text (L W R' : Str) (hL : L = [] ∨ TextBeforeTag L) (hA : TextAfterTag W R') :
    let a := L.length
    let b := a + 7
    let d := b + W.length
    let n := d + R'.length
    Pest.parse rules ws .r_handlebars (L ++ callSrc ++ (W ++ R'))
      = .ok ⟨n, []⟩ (⟨some .r_template, 0, if R' = [] then b else n⟩ ::
          (rawTok 0 a ++ [⟨some .r_expression, a, b⟩, ⟨some .r_identifier, a + 2, a + 3⟩, ⟨some .r_helper_parameter, a + 4, a + 5⟩,
              ⟨some .r_literal, a + 4, a + 5⟩, ⟨some .r_number_literal, a + 4, a + 5⟩] ++ rawTok d n ++ [⟨none, n, n⟩])) := by
  intro a b d n
  have h := handlebars_text_tag_text L ['h', ' ', '1', '}', '}'] W R' 200 _ hL call_tagAt hA
  have hn : (L ++ callSrc ++ (W ++ R')).length = n := by simp [n, d, b, a, callSrc]; omega
  simp only [] at h
  have h' := h.weaken (F' := defaultFuel (L ++ callSrc ++ (W ++ R')).length) (by
    unfold defaultFuel
    have : (L ++ '{' :: '{' :: ['h', ' ', '1', '}', '}'] ++ (W ++ R')).length = n := hn
    rw [this, hn]; omega)
  unfold Pest.parse
  refine Eq.trans h'.1 ?_
  have e1 : (L ++ '{' :: '{' :: ['h', ' ', '1', '}', '}'] ++ (W ++ R')).length = n := hn
  simp only [e1, callToks, List.map, shiftTok, Nat.zero_add, List.length_cons, List.length_nil]
  simp only [Nat.add_comm _ L.length]
  rfl

/-- the call `{{h 1}}` as compiled: the helper name and the literal 1 -/
def callHT : HelperT :=
  HelperG.new { name := .name ['h'], params := [.lit (.num (.pos 1))], hash := [], blockParam := none, omitPreWs := false, omitProWs := false }
    false false false

theorem step_call (src : Str) (opts : TemplateOptions) (f a : Nat) (T0 : Tmpl) (ep : Option Nat) (r0 : CTok) (rest : List CTok)
    (hep : ep.getD 0 = a) (hid : tokStr src ⟨some .r_identifier, a + 2, a + 3, []⟩ = ['h'])
    (hlit : tokStr src ⟨some .r_literal, a + 4, a + 5, []⟩ = ['1']) (hr0 : a + 7 ≤ r0.e) :
    compileStep src opts (f + 5) { tmplStack := [T0], endPos := ep } ⟨some .r_expression, a, a + 7, []⟩
        (⟨some .r_identifier, a + 2, a + 3, []⟩ :: ⟨some .r_helper_parameter, a + 4, a + 5, []⟩ :: ⟨some .r_literal, a + 4, a + 5, []⟩ ::
         ⟨some .r_number_literal, a + 4, a + 5, []⟩ :: r0 :: rest)
      = .ok ({ tmplStack := [T0.pushElement (.expr callHT) (lineCol src a).1 (lineCol src a).2], endPos := some (a + 7) }, r0 :: rest) := by
  have h1 : ¬ (r0.e < a + 7) := by omega
  have h2 : a + 5 < r0.e := by omega
  have hj : Json.parse ['1'] = some (.num (.pos 1)) := by rfl
  simp [compileStep, hep, isBlockStart, isExprLike, parseExpression, parseName, parseParam, parseExprLoop, hid, hlit, hj, h1, h2,
    frontMut, callHT, str, HelperG.new, dropInside]

/-- **compile2 on  L ++ {{h 1}} ++ W ++ R'** with the position table: the tag's entry is the line and column of its `{{` -/
theorem compile_text_call_text_pos (L W R' : Str) (opts : TemplateOptions)
    (hL : L = [] ∨ TextBeforeTag L) (hA : TextAfterTag W R') :
    ∃ extra, compile2 (L ++ callSrc ++ (W ++ R')) opts = .ok (.mk opts.name
      ((leftT L L).elements ++ [.expr callHT] ++ (if W ++ R' = [] then [] else [.raw (W ++ R')]))
      ((leftT L L).mapping ++ [lineCol (L ++ callSrc ++ (W ++ R')) L.length] ++ extra)) := by
  have hparse := parse_text_call_text L W R' hL hA
  simp only [] at hparse
  have hn : (L ++ callSrc ++ (W ++ R')).length = L.length + 7 + W.length + R'.length := by
    simp [callSrc]; omega
  have hs0 : slice? (L ++ callSrc ++ (W ++ R')) 0 L.length = some L := by
    rw [List.append_assoc]; exact slice_prefix L _
  have hsR : slice? (L ++ callSrc ++ (W ++ R')) (L.length + 7) (L ++ callSrc ++ (W ++ R')).length = some (W ++ R') :=
    slice_suffix (L ++ callSrc) (W ++ R') _ (by simp [callSrc])
  have hid : tokStr (L ++ callSrc ++ (W ++ R')) ⟨some .r_identifier, L.length + 2, L.length + 3, []⟩ = ['h'] := by
    have : L ++ callSrc ++ (W ++ R') = (L ++ ['{', '{']) ++ ['h'] ++ ([' ', '1', '}', '}'] ++ (W ++ R')) := by simp [callSrc]
    rw [this]
    exact tokStr_mid (L ++ ['{', '{']) ['h'] _ _ (by simp) (by simp)
  have hlit : tokStr (L ++ callSrc ++ (W ++ R')) ⟨some .r_literal, L.length + 4, L.length + 5, []⟩ = ['1'] := by
    have : L ++ callSrc ++ (W ++ R') = (L ++ ['{', '{', 'h', ' ']) ++ ['1'] ++ (['}', '}'] ++ (W ++ R')) := by simp [callSrc]
    rw [this]
    exact tokStr_mid (L ++ ['{', '{', 'h', ' ']) ['1'] _ _ (by simp) (by simp)
  generalize hsrc : L ++ callSrc ++ (W ++ R') = src at *
  obtain ⟨m, htail⟩ := loop_tail_pos src W R' opts (3 * (rawTok 0 L.length).length + 3 * (rawTok (L.length + 7 + W.length) src.length).length + 40)
    (L.length + 7) ((leftT L L).pushElement (.expr callHT) (lineCol src L.length).1 (lineCol src L.length).2) false hn hsR
  refine ⟨m, ?_⟩
  unfold compile2 compile2Inner
  rw [hparse]
  simp only []
  rw [attachEscapes_noEsc _ (by
    intro t ht
    simp only [List.mem_cons, List.mem_append, List.not_mem_nil, or_false] at ht
    rcases ht with rfl | ((h | rfl | rfl | rfl | rfl | rfl) | h) | rfl
    · show ((some Rule.r_template : Option Rule) == some Rule.r_escape) = false; decide
    · exact rawTok_rule _ _ t h
    · show ((some Rule.r_expression : Option Rule) == some Rule.r_escape) = false; decide
    · show ((some Rule.r_identifier : Option Rule) == some Rule.r_escape) = false; decide
    · show ((some Rule.r_helper_parameter : Option Rule) == some Rule.r_escape) = false; decide
    · show ((some Rule.r_literal : Option Rule) == some Rule.r_escape) = false; decide
    · show ((some Rule.r_number_literal : Option Rule) == some Rule.r_escape) = false; decide
    · exact rawTok_rule _ _ t h
    · show ((none : Option Rule) == some Rule.r_escape) = false; decide)]
  rw [← hn]
  simp only [List.map_cons, List.map_append, List.length_cons, List.length_append, List.length_map, List.map_nil, List.length_nil,
    List.append_assoc, List.cons_append, List.nil_append]
  rw [show 4 * ((rawTok 0 L.length).length + ((rawTok (L.length + 7 + W.length) src.length).length + (0 + 1) + 1 + 1 + 1 + 1 + 1) + 1) + 16
      = ((3 * (rawTok 0 L.length).length + 3 * (rawTok (L.length + 7 + W.length) src.length).length + 35
          + ((rawTok (L.length + 7 + W.length) src.length).length + 2)) + 5 + 1) + (1 + (rawTok 0 L.length).length) by omega]
  rw [loop_head src L opts _ _ _ hs0]
  obtain ⟨r0, rest, hrest, hr0⟩ := tail_head (L.length + 7) W.length src.length (by omega)
  have hep : (if L = [] then none else some L.length : Option Nat).getD 0 = L.length := by
    by_cases hLe : L = [] <;> simp [hLe]
  have hstep := step_call src opts
    (3 * (rawTok 0 L.length).length + 3 * (rawTok (L.length + 7 + W.length) src.length).length + 35
      + ((rawTok (L.length + 7 + W.length) src.length).length + 2))
    L.length (leftT L L) _ r0 rest hep hid hlit hr0
  rw [hrest] at htail ⊢
  simp only [plainCTok]
  rw [loop_step src opts _ (st1 L) _ _ _ _ (by unfold st1; exact hstep)]
  rw [show 3 * (rawTok 0 L.length).length + 3 * (rawTok (L.length + 7 + W.length) src.length).length + 35
        + ((rawTok (L.length + 7 + W.length) src.length).length + 2) + 5
      = 3 * (rawTok 0 L.length).length + 3 * (rawTok (L.length + 7 + W.length) src.length).length + 40
        + ((rawTok (L.length + 7 + W.length) src.length).length + 2) by omega]
  rw [htail]
  simp [Tmpl.pushElement, Tmpl.elements, Tmpl.mapping]

end Hbs.PlainText
