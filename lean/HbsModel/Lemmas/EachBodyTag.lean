import HbsModel.Lemmas.IfBodyTag
import HbsModel.Lemmas.EachBlock
import HbsModel.Lemmas.GrammarNF
import HbsModel.Lemmas.RawBlock
import HbsModel.Lemmas.NameTag
/-
  `{{#each v}}` X `{{/each}}` for EVERY body text X (non-empty, not beginning with whitespace, without `{{`, not ending in `{` or `\`):
  one element of `template` – the pairs helper_block_start …, template, raw_text, helper_block_end … – wherever it stands and
  whatever follows.  The opening and closing tags are decided on the regenerated grammar, the body by the text lemmas.
-/
namespace Hbs.PlainText
open Hbs Hbs.Pest Hbs.Grammar

def eaOpenSrc : Str := ['{', '{', '#', 'e', 'a', 'c', 'h', ' ', 'v', '}', '}']
def eaCloseSrc : Str := ['{', '{', '/', 'e', 'a', 'c', 'h', '}', '}']
def eaXSrc (X : Str) : Str := eaOpenSrc ++ (X ++ eaCloseSrc)

def eaOpenToks : List (Tok Rule) :=
  [⟨some .r_helper_block_start, 0, 11⟩, ⟨some .r_identifier, 3, 7⟩, ⟨some .r_helper_parameter, 8, 9⟩, ⟨some .r_reference, 8, 9⟩,
   ⟨some .r_path_inline, 8, 9⟩, ⟨some .r_path_id, 8, 9⟩]

def eaXToks (n : Nat) : List (Tok Rule) :=
  eaOpenToks ++ [⟨some .r_template, 11, 11 + n⟩, ⟨some .r_raw_text, 11, 11 + n⟩, ⟨some .r_helper_block_end, 11 + n, 20 + n⟩, ⟨some .r_identifier, 14 + n, 18 + n⟩]

theorem ea_open_decided : evalK rules ws false 120 .nonAtomic (.rule .r_helper_block_start) 0 eaOpenSrc = some (.ok 11 [] eaOpenToks) :=
  KRes.isOkWith_eq (by decide)

theorem ea_close_decided : evalK rules ws false 80 .nonAtomic (.rule .r_helper_block_end) 0 eaCloseSrc
    = some (.ok 9 [] [⟨some .r_helper_block_end, 0, 9⟩, ⟨some .r_identifier, 3, 7⟩]) :=
  KRes.isOkWith_eq (by decide)

/-- **the block is one element of `template`** – for every body text -/
theorem eaX_tagAt (X : Str) (hX : BlockBody X) : TagAt (eaXSrc X) (X.length + 200) (eaXToks X.length) := by
  intro p tail
  obtain ⟨c0, t0, hX0, hc0⟩ := hX.first
  have hsrc : eaXSrc X ++ tail = eaOpenSrc ++ (X ++ '{' :: '{' :: ('/' :: 'e' :: 'a' :: 'c' :: 'h' :: '}' :: '}' :: tail)) := by
    simp [eaXSrc, eaCloseSrc]
  -- the opening tag
  have hstart : E 120 .nonAtomic (.rule .r_helper_block_start) ⟨p, eaOpenSrc ++ (X ++ '{' :: '{' :: ('/' :: 'e' :: 'a' :: 'c' :: 'h' :: '}' :: '}' :: tail))⟩
      (.ok ⟨p + 11, X ++ '{' :: '{' :: ('/' :: 'e' :: 'a' :: 'c' :: 'h' :: '}' :: '}' :: tail)⟩ (eaOpenToks.map (shiftTok p))) := by
    have := evalK_at rules ws rules_noSoi false (X ++ '{' :: '{' :: ('/' :: 'e' :: 'a' :: 'c' :: 'h' :: '}' :: '}' :: tail)) (by simp) 120 .nonAtomic _ rfl eaOpenSrc _ ea_open_decided p
    refine ⟨?_, by simp⟩
    rw [this]; simp [shiftRes, embedK, Nat.add_comm]
  -- the body: one raw_text, then nothing more in front of `{{/`
  have hskipX : E 6 .nonAtomic .skip ⟨p + 11, X ++ '{' :: '{' :: ('/' :: 'e' :: 'a' :: 'c' :: 'h' :: '}' :: '}' :: tail)⟩
      (.ok ⟨p + 11, X ++ '{' :: '{' :: ('/' :: 'e' :: 'a' :: 'c' :: 'h' :: '}' :: '}' :: tail)⟩ []) := by
    rw [hX0]; exact skip_at c0 _ hc0 (p + 11)
  have hraw := raw_text_before_tag_nb X ('/' :: 'e' :: 'a' :: 'c' :: 'h' :: '}' :: '}' :: tail) hX.ne hX.text hX.noBs (p + 11)
  have haltX : E (X.length + 50) .nonAtomic templateAlt ⟨p + 11, X ++ '{' :: '{' :: ('/' :: 'e' :: 'a' :: 'c' :: 'h' :: '}' :: '}' :: tail)⟩
      (.ok ⟨p + 11 + X.length, '{' :: '{' :: ('/' :: 'e' :: 'a' :: 'c' :: 'h' :: '}' :: '}' :: tail)⟩ [⟨some .r_raw_text, p + 11, p + 11 + X.length⟩]) := by
    rw [templateAlt_eq, altsBefore_eq]
    unfold alts4
    have h0 := hraw.weaken (F' := X.length + 40) (by omega)
    have := Ev.choice_left (b := .rule .r_partial_block) (Ev.choice_left (b := .rule .r_partial_expression)
      (Ev.choice_left (b := .rule .r_decorator_block) (Ev.choice_left (b := .rule .r_decorator_expression)
        (Ev.choice_left (b := .rule .r_hbs_comment_compact) (Ev.choice_left (b := .rule .r_hbs_comment)
          (Ev.choice_left (b := .rule .r_raw_block) (Ev.choice_left (b := .rule .r_helper_block) (Ev.choice_left (b := .rule .r_html_expression)
            (Ev.choice_left (b := .rule .r_expression) h0)))))))))
    exact this.weaken (by omega)
  have hskipC : ∀ q, E 6 .nonAtomic .skip ⟨q, '{' :: '{' :: ('/' :: 'e' :: 'a' :: 'c' :: 'h' :: '}' :: '}' :: tail)⟩
      (.ok ⟨q, '{' :: '{' :: ('/' :: 'e' :: 'a' :: 'c' :: 'h' :: '}' :: '}' :: tail)⟩ []) := fun q => skip_at '{' _ (by decide) q
  have haltC : E 120 .nonAtomic templateAlt ⟨p + 11 + X.length, '{' :: '{' :: ('/' :: 'e' :: 'a' :: 'c' :: 'h' :: '}' :: '}' :: tail)⟩ .fail :=
    fail_of_decidedK templateAlt rfl 120 ['{', '{', '/'] alt_at_close_decided _ _
  have htail := Ev.starTail_stop (F := X.length + 130) (a := templateAlt) ((hskipC (p + 11 + X.length)).weaken (by omega)) (haltC.weaken (by omega))
  have hrep := Ev.rep_some (F := X.length + 131) (haltX.weaken (by omega)) (htail.weaken (by omega))
  have htmpl := Ev.rule_ok (G := rules) (ws := ws) (atom := .nonAtomic) (r := Rule.r_template) (F := X.length + 132)
    (st := ⟨p + 11, X ++ '{' :: '{' :: ('/' :: 'e' :: 'a' :: 'c' :: 'h' :: '}' :: '}' :: tail)⟩)
    (st' := ⟨p + 11 + X.length, '{' :: '{' :: ('/' :: 'e' :: 'a' :: 'c' :: 'h' :: '}' :: '}' :: tail)⟩) (by rw [template_def]; exact hrep)
  have hty : (rules .r_template).ty = .normal := rfl
  simp only [hty] at htmpl
  -- no else tag, then the closing tag
  have hchain : E (X.length + 140) .nonAtomic (.rep (.seq (.rule .r_invert_chain_tag) (.rule .r_template)))
      ⟨p + 11 + X.length, '{' :: '{' :: ('/' :: 'e' :: 'a' :: 'c' :: 'h' :: '}' :: '}' :: tail)⟩ (.ok ⟨p + 11 + X.length, '{' :: '{' :: ('/' :: 'e' :: 'a' :: 'c' :: 'h' :: '}' :: '}' :: tail)⟩ []) :=
    (Ev.rep_none (F := 82) (Ev.seq_fail1 (F := 81) ((fail_of_decidedK _ rfl 80 ['{', '{', '/'] chain_at_close_decided _ _).weaken (by omega)))).weaken (by omega)
  have hinv : E (X.length + 140) .nonAtomic (.opt (.seq (.rule .r_invert_tag) (.rule .r_template)))
      ⟨p + 11 + X.length, '{' :: '{' :: ('/' :: 'e' :: 'a' :: 'c' :: 'h' :: '}' :: '}' :: tail)⟩ (.ok ⟨p + 11 + X.length, '{' :: '{' :: ('/' :: 'e' :: 'a' :: 'c' :: 'h' :: '}' :: '}' :: tail)⟩ []) :=
    (Ev.opt_none (F := 82) (Ev.seq_fail1 (F := 81) ((fail_of_decidedK _ rfl 80 ['{', '{', '/'] invert_at_close_decided _ _).weaken (by omega)))).weaken (by omega)
  have hend : E 80 .nonAtomic (.rule .r_helper_block_end) ⟨p + 11 + X.length, '{' :: '{' :: ('/' :: 'e' :: 'a' :: 'c' :: 'h' :: '}' :: '}' :: tail)⟩
      (.ok ⟨p + 11 + X.length + 9, tail⟩ [⟨some .r_helper_block_end, p + 11 + X.length, p + 11 + X.length + 9⟩, ⟨some .r_identifier, p + 11 + X.length + 3, p + 11 + X.length + 7⟩]) := by
    have := evalK_at rules ws rules_noSoi false tail (by simp) 80 .nonAtomic _ rfl eaCloseSrc _ ea_close_decided (p + 11 + X.length)
    refine ⟨?_, by simp⟩
    rw [show ('{' :: '{' :: ('/' :: 'e' :: 'a' :: 'c' :: 'h' :: '}' :: '}' :: tail)) = eaCloseSrc ++ tail from rfl, this]
    simp [shiftRes, embedK, shiftTok, Nat.add_comm]
  have hbody := Ev.seq_ok (F := X.length + 150)
    (Ev.seq_ok (F := X.length + 149)
      (Ev.seq_ok (F := X.length + 148)
        (Ev.seq_ok (F := X.length + 147) (hstart.weaken (by omega)) (hskipX.weaken (by omega)) (htmpl.weaken (by omega)))
        ((hskipC _).weaken (by omega)) (hchain.weaken (by omega)))
      ((hskipC _).weaken (by omega)) (hinv.weaken (by omega)))
    ((hskipC _).weaken (by omega)) (hend.weaken (by omega))
  have hblock := Ev.rule_ok (G := rules) (ws := ws) (atom := .nonAtomic) (r := Rule.r_helper_block) (F := X.length + 150 + 1 + 8)
    (st := ⟨p, eaXSrc X ++ tail⟩) (st' := ⟨p + 11 + X.length + 9, tail⟩)
    (by rw [hsrc]; exact E.of_nf (atom := .nonAtomic) .r_helper_block helper_block_nf hbody)
  have hty2 : (rules .r_helper_block).ty = .silent := rfl
  simp only [hty2] at hblock
  have hbefore : E 80 .nonAtomic (.choice (.choice (.rule .r_raw_text) (.rule .r_expression)) (.rule .r_html_expression)) ⟨p, eaXSrc X ++ tail⟩ .fail := by
    have := fail_of_decidedK _ rfl 80 ['{', '{', '#'] before_block_decided p (['e', 'a', 'c', 'h', ' ', 'v', '}', '}'] ++ (X ++ eaCloseSrc) ++ tail)
    simpa [eaXSrc, eaOpenSrc] using this
  rw [templateAlt_eq, altsBefore_eq]
  unfold alts4
  have h4 := Ev.choice_right (F := X.length + 170) (hbefore.weaken (by omega)) ((by simpa using hblock : E _ _ _ _ _).weaken (by omega))
  have := Ev.choice_left (b := .rule .r_partial_block) (Ev.choice_left (b := .rule .r_partial_expression)
    (Ev.choice_left (b := .rule .r_decorator_block) (Ev.choice_left (b := .rule .r_decorator_expression)
      (Ev.choice_left (b := .rule .r_hbs_comment_compact) (Ev.choice_left (b := .rule .r_hbs_comment)
        (Ev.choice_left (b := .rule .r_raw_block) h4))))))
  have hlenT : (eaXSrc X).length = X.length + 20 := by simp [eaXSrc, eaOpenSrc, eaCloseSrc] <;> omega
  have := this.weaken (F' := X.length + 200) (by omega)
  simpa [eaXToks, eaOpenToks, shiftTok, hlenT, Nat.add_comm, Nat.add_left_comm, Nat.add_assoc] using this

end Hbs.PlainText
