import HbsModel.Lemmas.PathTag
import HbsModel.Lemmas.CompileName
/-
  compile2 on  L ++ "{{n0.n1/n2…}}" ++ R : text, the value expression of the path with one named segment per identifier, text.
-/
namespace Hbs.PlainText
open Hbs Hbs.Pest Hbs.Grammar

/-- the segments of the compiled path -/
def pathSegs (n0 : Str) (rest : List (Char × Str)) : List PathSeg := .named n0 :: rest.map (fun q => .named q.2)

/-- the source holds the segments' names where the pairs say: `p` is where the rest of the path begins -/
def SegsIn (src : Str) : Nat → List (Char × Str) → Prop
  | _, [] => True
  | p, (_, s) :: r => tokStr src ⟨some .r_path_id, p + 1, p + 1 + s.length, []⟩ = s ∧ SegsIn src (p + 1 + s.length) r

theorem segsIn_of_append (pre post : Str) : ∀ (rest : List (Char × Str)) (pre : Str),
    SegsIn (pre ++ (restText rest ++ post)) pre.length rest := by
  intro rest
  induction rest with
  | nil => intro pre; trivial
  | cons q r ih =>
    intro pre
    obtain ⟨c, s⟩ := q
    refine ⟨?_, ?_⟩
    · have : pre ++ (restText ((c, s) :: r) ++ post) = (pre ++ [c]) ++ s ++ (restText r ++ post) := by simp [restText]
      rw [this]
      exact tokStr_mid (pre ++ [c]) s _ _ (by simp) (by simp)
    · have h := ih (pre ++ c :: s)
      have e : pre ++ (restText ((c, s) :: r) ++ post) = (pre ++ c :: s) ++ (restText r ++ post) := by simp [restText]
      have e2 : (pre ++ c :: s).length = pre.length + 1 + s.length := by simp; omega
      rw [e, ← e2]; exact h

/-- `parse_json_path_from_iter` over the path_id pairs of the remaining segments: one named segment each, up to the first pair
    that lies behind the path -/
theorem parsePathSegs_rest (src : Str) (limit : Nat) (r0 : CTok) (tl : List CTok) (hr0 : limit < r0.e) :
    ∀ (rest : List (Char × Str)) (p : Nat) (acc : List PathSeg), SegsIn src p rest →
      (∀ q ∈ rest, (q.2 == str "this") = false) → p + (restText rest).length ≤ limit →
      parsePathSegs src limit ((restToks p rest).map plainCTok ++ r0 :: tl) acc = (acc.reverse ++ rest.map (fun q => .named q.2), r0 :: tl) := by
  intro rest
  induction rest with
  | nil =>
    intro p acc _ _ _
    have : ¬ (r0.e ≤ limit) := by omega
    simp [restToks, parsePathSegs, hr0]
  | cons q r ih =>
    intro p acc hin hthis hle
    obtain ⟨c, s⟩ := q
    obtain ⟨hs, hin'⟩ := hin
    have hle' : p + 1 + s.length + (restText r).length ≤ limit := by rw [restText_length_cons] at hle; omega
    have h1 : ¬ (limit < p + 1 + s.length) := by omega
    have ht := hthis (c, s) (by simp)
    simp only [] at ht
    have := ih (p + 1 + s.length) (.named s :: acc) hin' (fun y hy => hthis y (by simp [hy])) hle'
    simp only [restToks, List.map_cons, List.cons_append, plainCTok]
    rw [parsePathSegs]
    have h1' : ¬ (p + 1 + s.length > limit) := by omega
    have hs' : tokStr src { rule := some Rule.r_path_id, s := p + 1, e := p + 1 + s.length } = s := hs
    simp [h1', hs', ht, this]

/-- the value expression of the path as compiled -/
def pathHT (n0 : Str) (rest : List (Char × Str)) : HelperT :=
  HelperG.new { name := .path (Path.new (pathText n0 rest) (pathSegs n0 rest)), params := [], hash := [], blockParam := none, omitPreWs := false, omitProWs := false }
    false false false

/-- one loop iteration over a name-only tag whose name is a `reference`: whatever `parse_json_path_from_iter` makes of the pairs
    inside it becomes the path -/
theorem step_refpath (src : Str) (opts : TemplateOptions) (f a len lim : Nat) (T0 : Tmpl) (ep : Option Nat) (itTail : List CTok)
    (raw : Str) (segs : List PathSeg) (r0 : CTok) (rest : List CTok)
    (hep : ep.getD 0 = a) (hraw : tokStr src ⟨some .r_reference, a + 2, lim, []⟩ = raw)
    (hsegs : parsePathSegs src lim itTail [] = (segs, r0 :: rest)) (hlim : lim < a + len) (hr0 : a + len ≤ r0.e) :
    compileStep src opts (f + 3) { tmplStack := [T0], endPos := ep } ⟨some .r_expression, a, a + len, []⟩
        (⟨some .r_reference, a + 2, lim, []⟩ :: itTail)
      = .ok ({ tmplStack := [T0.pushElement (.expr (HelperG.new { name := .path (Path.new raw segs), params := [], hash := [], blockParam := none, omitPreWs := false, omitProWs := false } false false false))
                (lineCol src a).1 (lineCol src a).2], endPos := some (a + len) }, r0 :: rest) := by
  have h1 : ¬ (r0.e < a + len) := by omega
  have h2 : ¬ (r0.e ≤ a + len) ∨ r0.e = a + len := by omega
  simp [compileStep, hep, isBlockStart, isExprLike, parseExpression, parseName, parseExprLoop, hraw, hsegs, h1, frontMut]

theorem restToks_length (p : Nat) : ∀ rest : List (Char × Str), (restToks p rest).length = rest.length := by
  intro rest
  induction rest generalizing p with
  | nil => rfl
  | cons q r ih => obtain ⟨c, s⟩ := q; simp [restToks, ih]

theorem restToks_rule (p : Nat) : ∀ (rest : List (Char × Str)), ∀ t ∈ restToks p rest, t.rule = some Rule.r_path_id := by
  intro rest
  induction rest generalizing p with
  | nil => intro t ht; simp [restToks] at ht
  | cons q r ih =>
    obtain ⟨c, s⟩ := q
    intro t ht
    simp only [restToks, List.mem_cons] at ht
    rcases ht with rfl | ht
    · rfl
    · exact ih _ t ht

theorem pathSrc_length (n0 : Str) (rest : List (Char × Str)) : (pathSrc n0 rest).length = pathLen n0 rest + 4 := by
  simp [pathSrc, pathText_length]

/-- the tag's pairs at offset `a` -/
theorem pathTagToks_shift (n0 : Str) (rest : List (Char × Str)) (a : Nat) :
    (pathTagToks n0 rest).map (shiftTok a) =
      ⟨some .r_expression, a, a + (pathLen n0 rest + 4)⟩ :: ⟨some .r_reference, a + 2, a + 2 + pathLen n0 rest⟩ ::
        ⟨some .r_path_inline, a + 2, a + 2 + pathLen n0 rest⟩ :: ⟨some .r_path_id, a + 2, a + 2 + n0.length⟩ :: restToks (a + 2 + n0.length) rest := by
  simp only [pathTagToks, List.map_cons, shiftTok, restToks_shift]
  congr 1
  · congr 1 <;> omega
  congr 1
  · congr 1 <;> omega
  congr 1
  · congr 1 <;> omega
  congr 1
  · congr 1 <;> omega
  · congr 1; omega

/-- the pair stream of  L ++ {{n0.n1…}} ++ W ++ R' -/
theorem parse_text_path_text (n0 : Str) (rest : List (Char × Str)) (L W R' : Str) (h : PathName n0 rest) (hthis : n0 ≠ ['t', 'h', 'i', 's'])
    (hL : L = [] ∨ TextBeforeTag L) (hA : TextAfterTag W R') :
    let a := L.length
    let b := a + (pathLen n0 rest + 4)
    let d := b + W.length
    let n := d + R'.length
    Pest.parse rules ws .r_handlebars (L ++ pathSrc n0 rest ++ (W ++ R'))
      = .ok ⟨n, []⟩ (⟨some .r_template, 0, if R' = [] then b else n⟩ ::
          (rawTok 0 a ++ (pathTagToks n0 rest).map (shiftTok a) ++ rawTok d n ++ [⟨none, n, n⟩])) := by
  intro a b d n
  have hh := handlebars_text_tag_text L (pathText n0 rest ++ ['}', '}']) W R' (pathLen n0 rest + 130) _ hL (path_tagAt n0 rest h hthis) hA
  have hlen := pathSrc_length n0 rest
  have hn : (L ++ pathSrc n0 rest ++ (W ++ R')).length = n := by simp [n, d, b, a, hlen]; omega
  simp only [] at hh
  have e1 : (L ++ '{' :: '{' :: (pathText n0 rest ++ ['}', '}']) ++ (W ++ R')).length = n := hn
  have e2 : ('{' :: '{' :: (pathText n0 rest ++ ['}', '}'])).length = pathLen n0 rest + 4 := hlen
  have h' := hh.weaken (F' := defaultFuel (L ++ pathSrc n0 rest ++ (W ++ R')).length) (by
    unfold defaultFuel
    rw [e1, hn]
    have : pathLen n0 rest + 4 ≤ n := by simp only [n, d, b]; omega
    omega)
  unfold Pest.parse
  refine Eq.trans h'.1 ?_
  simp only [e1, e2]
  rfl

/-- every segment of the path is a name of its own: none is `this` -/
def NoThis (n0 : Str) (rest : List (Char × Str)) : Prop := (n0 == str "this") = false ∧ ∀ q ∈ rest, (q.2 == str "this") = false

/-- **compile2 on  L ++ {{n0.n1/n2…}} ++ W ++ R'** : the text in front, the expression of the path with one named segment per
    identifier (its text kept as written), the text behind – nothing trimmed; the position table points at the tag's `{{` -/
theorem compile_text_path_text_pos (n0 : Str) (rest : List (Char × Str)) (L W R' : Str) (opts : TemplateOptions) (h : PathName n0 rest)
    (hno : NoThis n0 rest) (hL : L = [] ∨ TextBeforeTag L) (hA : TextAfterTag W R') :
    ∃ extra, compile2 (L ++ pathSrc n0 rest ++ (W ++ R')) opts = .ok (.mk opts.name
      ((leftT L L).elements ++ [.expr (pathHT n0 rest)] ++ (if W ++ R' = [] then [] else [.raw (W ++ R')]))
      ((leftT L L).mapping ++ [lineCol (L ++ pathSrc n0 rest ++ (W ++ R')) L.length] ++ extra)) := by
  have hthis : n0 ≠ ['t', 'h', 'i', 's'] := by
    intro e; have := hno.1; rw [e] at this; exact absurd this (by decide)
  have hparse := parse_text_path_text n0 rest L W R' h hthis hL hA
  simp only [] at hparse
  have hlen := pathSrc_length n0 rest
  have hn : (L ++ pathSrc n0 rest ++ (W ++ R')).length = L.length + (pathLen n0 rest + 4) + W.length + R'.length := by
    simp [hlen]; omega
  have hs0 : slice? (L ++ pathSrc n0 rest ++ (W ++ R')) 0 L.length = some L := by
    rw [List.append_assoc]; exact slice_prefix L _
  have hsR : slice? (L ++ pathSrc n0 rest ++ (W ++ R')) (L.length + (pathLen n0 rest + 4)) (L ++ pathSrc n0 rest ++ (W ++ R')).length = some (W ++ R') :=
    slice_suffix (L ++ pathSrc n0 rest) (W ++ R') _ (by simp [hlen])
  -- the texts of the pairs
  have hraw : tokStr (L ++ pathSrc n0 rest ++ (W ++ R')) ⟨some .r_reference, L.length + 2, L.length + 2 + pathLen n0 rest, []⟩ = pathText n0 rest := by
    have : L ++ pathSrc n0 rest ++ (W ++ R') = (L ++ ['{', '{']) ++ pathText n0 rest ++ (['}', '}'] ++ (W ++ R')) := by simp [pathSrc]
    rw [this]
    exact tokStr_mid (L ++ ['{', '{']) (pathText n0 rest) _ _ (by simp) (by simp [pathText_length])
  have hv0 : tokStr (L ++ pathSrc n0 rest ++ (W ++ R')) ⟨some .r_path_id, L.length + 2, L.length + 2 + n0.length, []⟩ = n0 := by
    have : L ++ pathSrc n0 rest ++ (W ++ R') = (L ++ ['{', '{']) ++ n0 ++ (restText rest ++ (['}', '}'] ++ (W ++ R'))) := by simp [pathSrc, pathText]
    rw [this]
    exact tokStr_mid (L ++ ['{', '{']) n0 _ _ (by simp) (by simp)
  have hin : SegsIn (L ++ pathSrc n0 rest ++ (W ++ R')) (L.length + 2 + n0.length) rest := by
    have := segsIn_of_append [] (['}', '}'] ++ (W ++ R')) rest (L ++ ['{', '{'] ++ n0)
    have e : L ++ pathSrc n0 rest ++ (W ++ R') = (L ++ ['{', '{'] ++ n0) ++ (restText rest ++ (['}', '}'] ++ (W ++ R'))) := by simp [pathSrc, pathText]
    have e2 : (L ++ ['{', '{'] ++ n0).length = L.length + 2 + n0.length := by simp; omega
    rw [e, ← e2]; exact this
  generalize hsrc : L ++ pathSrc n0 rest ++ (W ++ R') = src at *
  let X := 3 * (rawTok 0 L.length).length + 3 * (rawTok (L.length + (pathLen n0 rest + 4) + W.length) src.length).length + 36 + 4 * rest.length
  obtain ⟨m, htail⟩ := loop_tail_pos src W R' opts X
    (L.length + (pathLen n0 rest + 4)) ((leftT L L).pushElement (.expr (pathHT n0 rest)) (lineCol src L.length).1 (lineCol src L.length).2) false hn hsR
  refine ⟨m, ?_⟩
  unfold compile2 compile2Inner
  rw [hparse, pathTagToks_shift]
  simp only []
  rw [attachEscapes_noEsc _ (by
    intro t ht
    simp only [List.mem_cons, List.mem_append, List.not_mem_nil, or_false] at ht
    rcases ht with rfl | ((hh | rfl | rfl | rfl | rfl | hh) | hh) | rfl
    · show ((some Rule.r_template : Option Rule) == some Rule.r_escape) = false; decide
    · exact rawTok_rule _ _ t hh
    · show ((some Rule.r_expression : Option Rule) == some Rule.r_escape) = false; decide
    · show ((some Rule.r_reference : Option Rule) == some Rule.r_escape) = false; decide
    · show ((some Rule.r_path_inline : Option Rule) == some Rule.r_escape) = false; decide
    · show ((some Rule.r_path_id : Option Rule) == some Rule.r_escape) = false; decide
    · rw [restToks_rule _ rest t hh]; decide
    · exact rawTok_rule _ _ t hh
    · show ((none : Option Rule) == some Rule.r_escape) = false; decide)]
  rw [← hn]
  simp only [List.map_cons, List.map_append, List.length_cons, List.length_append, List.length_map, List.map_nil, List.length_nil,
    List.append_assoc, List.cons_append, List.nil_append, restToks_length]
  rw [show 4 * ((rawTok 0 L.length).length + (rest.length + ((rawTok (L.length + (pathLen n0 rest + 4) + W.length) src.length).length + (0 + 1)) + 1 + 1 + 1 + 1) + 1) + 16
      = (X + ((rawTok (L.length + (pathLen n0 rest + 4) + W.length) src.length).length + 2) + 1) + (1 + (rawTok 0 L.length).length) by simp only [X]; omega]
  rw [loop_head src L opts _ _ _ hs0]
  obtain ⟨r0, rest', hrest, hr0⟩ := tail_head (L.length + (pathLen n0 rest + 4)) W.length src.length (by omega)
  have hep : (if L = [] then none else some L.length : Option Nat).getD 0 = L.length := by
    by_cases hLe : L = [] <;> simp [hLe]
  rw [hrest] at htail ⊢
  -- the pairs inside the reference: path_inline, the first path_id, the path_ids of the other segments
  have hsegs : parsePathSegs src (L.length + 2 + pathLen n0 rest)
      (plainCTok ⟨some .r_path_inline, L.length + 2, L.length + 2 + pathLen n0 rest⟩ :: plainCTok ⟨some .r_path_id, L.length + 2, L.length + 2 + n0.length⟩ ::
        ((restToks (L.length + 2 + n0.length) rest).map plainCTok ++ r0 :: rest')) [] = (pathSegs n0 rest, r0 :: rest') := by
    have hlim : L.length + 2 + n0.length + (restText rest).length ≤ L.length + 2 + pathLen n0 rest := by unfold pathLen; omega
    have hr0' : L.length + 2 + pathLen n0 rest < r0.e := by omega
    have hrec := parsePathSegs_rest src (L.length + 2 + pathLen n0 rest) r0 rest' hr0' rest (L.length + 2 + n0.length) [.named n0] hin hno.2 hlim
    have g1 : ¬ (L.length + 2 + pathLen n0 rest > L.length + 2 + pathLen n0 rest) := by omega
    have g2 : ¬ (L.length + 2 + n0.length > L.length + 2 + pathLen n0 rest) := by unfold pathLen; omega
    have hv0' : tokStr src { rule := some Rule.r_path_id, s := L.length + 2, e := L.length + 2 + n0.length } = n0 := hv0
    rw [parsePathSegs]
    simp only [plainCTok, g1, ↓reduceIte]
    rw [parsePathSegs]
    simp [g2, hv0', hno.1, hrec, pathSegs]
  have hstep := step_refpath src opts (X - 3 + ((rawTok (L.length + (pathLen n0 rest + 4) + W.length) src.length).length + 2))
    L.length (pathLen n0 rest + 4) (L.length + 2 + pathLen n0 rest) (leftT L L) _ _ (pathText n0 rest) (pathSegs n0 rest) r0 rest' hep hraw hsegs (by omega) hr0
  have hloop := loop_step src opts (X - 3 + ((rawTok (L.length + (pathLen n0 rest + 4) + W.length) src.length).length + 2) + 3) (st1 L) _
    ⟨some .r_expression, L.length, L.length + (pathLen n0 rest + 4), []⟩ _ _ (by unfold st1; exact hstep)
  simp only [plainCTok] at hloop ⊢
  rw [show X + ((rawTok (L.length + (pathLen n0 rest + 4) + W.length) src.length).length + 2) + 1
      = X - 3 + ((rawTok (L.length + (pathLen n0 rest + 4) + W.length) src.length).length + 2) + 3 + 1 by simp only [X]; omega]
  rw [hloop]
  rw [show X - 3 + ((rawTok (L.length + (pathLen n0 rest + 4) + W.length) src.length).length + 2) + 3
      = X + ((rawTok (L.length + (pathLen n0 rest + 4) + W.length) src.length).length + 2) by simp only [X]; omega]
  rw [show (HelperG.new { name := Param.path (Path.new (pathText n0 rest) (pathSegs n0 rest)), params := [], hash := [], blockParam := none, omitPreWs := false, omitProWs := false } false false false) = pathHT n0 rest from rfl]
  rw [htail]
  simp [Tmpl.pushElement, Tmpl.elements, Tmpl.mapping]

end Hbs.PlainText
