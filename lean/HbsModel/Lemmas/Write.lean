import HbsModel.Lemmas.RM
/-
  Lemmas about `indent_aware_write` and `do_escape`.
-/
namespace Hbs
open RM

theorem indentAwareWrite_empty (rc : RC) (out : Out) : indentAwareWrite [] rc out = .ok () rc out := by
  simp [indentAwareWrite]

/-- without an active indent string a non-empty chunk is exactly one write call of that chunk -/
theorem indentAwareWrite_plain (v : Str) (rc : RC) (out : Out) (hv : v ≠ [])
    (hi : rc.indentString = none) (hf : out.failAt ≠ some out.count) :
    indentAwareWrite v rc out =
      .ok () { rc with contentProduced := true, trailingNewline := endsWithNewline v,
                       indentBeforeWrite := endsWithNewline v }
        { out with segs := v :: out.segs, count := out.count + 1 } := by
  have he : v.isEmpty = false := by cases v <;> simp_all
  simp [indentAwareWrite, he, hi, RM.bnd_apply, write_ok v _ out hv hf]

theorem doEscape_on (reg : Registry) (rc : RC) (s : Str) (h : rc.disableEscape = false) :
    doEscape reg rc s = reg.escape s := by simp [doEscape, h]

theorem doEscape_off (reg : Registry) (rc : RC) (s : Str) (h : rc.disableEscape = true) :
    doEscape reg rc s = s := by simp [doEscape, h]

end Hbs
