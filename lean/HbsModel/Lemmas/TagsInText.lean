import HbsModel.Lemmas.TagInText
/-
  ANY NUMBER of tags between texts:  S0 T1 S1 T2 … Tk Sk, each Ti any tag `template` accepts (TagAt).
  The pair stream of `handlebars`.
-/
namespace Hbs.PlainText
open Hbs Hbs.Pest Hbs.Grammar

/-- a tag as source text (what follows its `{{`) with the pairs it parses to at offset 0 -/
structure PTag where
  T' : Str
  toks : List (Tok Rule)

def PTag.src (t : PTag) : Str := '{' :: '{' :: t.T'
def PTag.len (t : PTag) : Nat := t.T'.length + 2

theorem PTag.src_length (t : PTag) : t.src.length = t.len := by simp [PTag.src, PTag.len]

/-- the source after (and including) the text `s`:  s T₁ s₁ T₂ … Tₖ sₖ -/
def tailSrc : Str → List (PTag × Str) → Str
  | s, [] => s
  | s, (t, s') :: more => s ++ t.src ++ tailSrc s' more

/-- every text but the last may stand in front of a tag; the last contains no `{{` -/
def TextsOk : Str → List (PTag × Str) → Prop
  | s, [] => noOpen s
  | s, (_, s') :: more => (s = [] ∨ TextBeforeTag s) ∧ TextsOk s' more

def wsLen (s : Str) : Nat := (s.takeWhile isPestWs).length

/-- the pairs after a tag that ends at offset `p`: the text `s` (without the whitespace pest skips), then
    the next tag and so on -/
def tailToks : Nat → Str → List (PTag × Str) → List (Tok Rule)
  | p, s, [] => rawTok (p + wsLen s) (p + s.length)
  | p, s, (t, s') :: more =>
      rawTok (p + wsLen s) (p + s.length) ++ t.toks.map (shiftTok (p + s.length))
        ++ tailToks (p + s.length + t.len) s' more

/-- where `template` ends: in front of trailing whitespace that belongs to no element -/
def tailEnd : Nat → Str → List (PTag × Str) → Nat
  | p, s, [] => if s.dropWhile isPestWs = [] then p else p + s.length
  | p, s, (t, s') :: more => tailEnd (p + s.length + t.len) s' more

theorem TextBeforeTag.suffix (a b : Str) (h : TextBeforeTag (a ++ b)) (hb : b ≠ []) : TextBeforeTag b := by
  induction a with
  | nil => exact h
  | cons c a ih =>
    have : TextBeforeTag (a ++ b) := TextBeforeTag.tail (by simpa using h) (by simp [hb])
    exact ih this

/-- a text is the whitespace pest skips after a tag, then the rest -/
theorem ws_split_exists (s : Str) :
    ∃ W R', s = W ++ R' ∧ (∀ c ∈ W, isPestWs c = true) ∧ (R' = [] ∨ ∃ x r, R' = x :: r ∧ isPestWs x = false)
      ∧ wsLen s = W.length ∧ s.dropWhile isPestWs = R' :=
  ⟨s.takeWhile isPestWs, s.dropWhile isPestWs, split_ws s, takeWhile_ws s, dropWhile_ws_head s, rfl, rfl⟩

/-- the elements after a tag, for any number of further tags -/
theorem starTail_after_tag (FT : Nat) :
    ∀ (more : List (PTag × Str)), (∀ q ∈ more, TagAt q.1.src FT q.1.toks) → ∀ (s : Str) (p : Nat), TextsOk s more →
      ∃ stEnd, E (2 * (tailSrc s more).length + FT + 100) .nonAtomic (.starTail templateAlt)
            ⟨p, tailSrc s more⟩ (.ok stEnd (tailToks p s more))
        ∧ E ((tailSrc s more).length + 6) .nonAtomic .skip stEnd
            (.ok ⟨p + (tailSrc s more).length, []⟩ [])
        ∧ stEnd.pos = tailEnd p s more := by
  intro more
  induction more with
  | nil =>
    intro _ s p hok
    obtain ⟨W, R', hsplit, hW, hR', hwl, hdw⟩ := ws_split_exists s
    have hA : TextAfterTag W R' := ⟨hW, hR', by rw [← hdw]; exact noOpen_dropWhile _ s hok⟩
    obtain ⟨stEnd, h1, h2, h3⟩ := tail_after_tag W R' hA p
    have hlen : s.length = W.length + R'.length := by rw [hsplit]; simp
    refine ⟨stEnd, ?_, ?_, ?_⟩
    · simp only [tailSrc, tailToks, hwl]
      rw [hsplit]
      have e : p + (W ++ R').length = p + W.length + R'.length := by simp; omega
      rw [e]
      exact h1.weaken (by simp <;> omega)
    · simp only [tailSrc]
      rw [hsplit]
      have e : p + (W ++ R').length = p + W.length + R'.length := by simp; omega
      rw [e]
      exact h2.weaken (by simp <;> omega)
    · simp only [tailEnd, hdw]
      rw [h3, hlen]
      by_cases h0 : R' = [] <;> simp [h0] <;> omega
  | cons q more ih =>
    intro hTs s p hok
    obtain ⟨t, s'⟩ := q
    obtain ⟨hs, hrest⟩ := hok
    have hT : TagAt ('{' :: '{' :: t.T') FT t.toks := hTs (t, s') (by simp)
    generalize ht' : t.T' = T' at *
    generalize htk : t.toks = tagToks at *
    have htl : t.len = T'.length + 2 := by simp [PTag.len, ht']
    obtain ⟨stEnd, h1, h2, h3⟩ := ih (fun q hq => hTs q (by simp [hq])) s' (p + s.length + (T'.length + 2)) hrest
    obtain ⟨W, R', hsplit, hW, hR', hwl, hdw⟩ := ws_split_exists s
    have hlen : s.length = W.length + R'.length := by rw [hsplit]; simp
    generalize hnext : tailSrc s' more = next at *
    have hsrc : tailSrc s ((t, s') :: more) = W ++ (R' ++ '{' :: '{' :: (T' ++ next)) := by
      show s ++ t.src ++ tailSrc s' more = _
      rw [hnext, hsplit]; simp [List.append_assoc, PTag.src, ht']
    have hL2 : (W ++ (R' ++ '{' :: '{' :: (T' ++ next))).length = s.length + (T'.length + 2) + next.length := by
      rw [hlen]; simp; omega
    have hL3 : (R' ++ '{' :: '{' :: (T' ++ next)).length = R'.length + (T'.length + 2) + next.length := by
      simp; omega
    have htag := hT (p + s.length) next
    have hTl : ('{' :: '{' :: T').length = T'.length + 2 := by simp
    rw [hTl] at htag
    have htag' : E FT .nonAtomic templateAlt ⟨p + s.length, '{' :: '{' :: (T' ++ next)⟩
        (.ok ⟨p + s.length + (T'.length + 2), next⟩ (tagToks.map (shiftTok (p + s.length)))) := by
      simpa using htag
    rw [hsrc, hL2]
    refine ⟨stEnd, ?_, ?_, ?_⟩
    · simp only [tailToks, hwl, htk, htl]
      by_cases hR : R' = []
      · subst hR
        have hsW : s.length = W.length := by simpa using hlen
        have hskip := skip_run W ('{' :: '{' :: (T' ++ next)) hW (Or.inr ⟨'{', '{' :: (T' ++ next), rfl, by decide⟩) p
        rw [← hsW] at hskip
        have hstep := Ev.starTail_step (F := 2 * (s.length + (T'.length + 2) + next.length) + FT + 99) (hskip.weaken (by omega))
          (htag'.weaken (by omega)) (by simp <;> omega) (h1.weaken (by omega))
        have e : rawTok (p + W.length) (p + s.length) = [] := by simp [rawTok]; omega
        rw [e]
        simpa using hstep
      · have hRt : TextBeforeTag R' := by
          rcases hs with h0 | ht
          · rw [h0] at hsplit
            have : R' = [] := by
              have := congrArg List.length hsplit; simp at this; exact List.eq_nil_of_length_eq_zero (by omega)
            exact absurd this hR
          · exact TextBeforeTag.suffix W R' (by rw [← hsplit]; exact ht) hR
        have hskip := skip_run W (R' ++ '{' :: '{' :: (T' ++ next)) hW
          (by
            rcases hR' with h0 | ⟨x, r, hx, hxw⟩
            · exact absurd h0 hR
            · right; exact ⟨x, r ++ '{' :: '{' :: (T' ++ next), by rw [hx]; rfl, hxw⟩) p
        have hraw := raw_text_before_tag R' (T' ++ next) hR hRt (p + W.length)
        have halt := alt_of_raw_text _ _ _ _ hraw
        have hRlen : R'.length ≠ 0 := fun h0 => hR (List.eq_nil_of_length_eq_zero h0)
        have hpos : p + W.length + R'.length = p + s.length := by omega
        rw [hpos] at halt
        have hfuel : (R' ++ '{' :: '{' :: (T' ++ next)).length + 20 + 10 ≤ 2 * (s.length + (T'.length + 2) + next.length) + FT + 99 := by
          simp only [List.length_append, List.length_cons]; omega
        have hstep2 := Ev.starTail_step (F := 2 * (s.length + (T'.length + 2) + next.length) + FT + 97)
          ((skip_at_brace (p + s.length) ('{' :: (T' ++ next))).weaken (by omega))
          (htag'.weaken (by omega)) (by simp <;> omega) (h1.weaken (by omega))
        have hstep1 := Ev.starTail_step (F := 2 * (s.length + (T'.length + 2) + next.length) + FT + 99) (hskip.weaken (by omega))
          (halt.weaken hfuel) (by simp only []; omega) (hstep2.weaken (by omega))
        have e : rawTok (p + W.length) (p + s.length) = [⟨some .r_raw_text, p + W.length, p + s.length⟩] := by
          simp [rawTok]; omega
        rw [e]
        simpa [List.append_assoc] using hstep1
    · have : p + s.length + (T'.length + 2) + next.length = p + (s.length + (T'.length + 2) + next.length) := by omega
      rw [this] at h2
      exact h2.weaken (by omega)
    · simp only [tailEnd, htl]; exact h3

end Hbs.PlainText

namespace Hbs.PlainText
open Hbs Hbs.Pest Hbs.Grammar

/-- the pairs of the whole source  S0 T S1 T … Sk  below `template` -/
def topToks : Str → List (PTag × Str) → List (Tok Rule)
  | s0, [] => rawTok 0 s0.length
  | s0, (t, s1) :: more => rawTok 0 s0.length ++ t.toks.map (shiftTok s0.length) ++ tailToks (s0.length + t.len) s1 more

/-- where `template` ends -/
def topEnd : Str → List (PTag × Str) → Nat
  | s0, [] => s0.length
  | s0, (t, s1) :: more => tailEnd (s0.length + t.len) s1 more

/-- **the pair stream of  S0 T S1 T … T Sk**, for any number of occurrences of a tag T that `template` accepts -/
theorem handlebars_texts_tags (FT : Nat) (s0 : Str) (more : List (PTag × Str))
    (hTs : ∀ q ∈ more, TagAt q.1.src FT q.1.toks) (hok : TextsOk s0 more) :
    let src := tailSrc s0 more
    E (2 * src.length + FT + 300) .nonAtomic (.rule .r_handlebars) ⟨0, src⟩
      (.ok ⟨src.length, []⟩ (⟨some .r_template, 0, topEnd s0 more⟩ ::
        (topToks s0 more ++ [⟨none, src.length, src.length⟩]))) := by
  intro src
  -- the repetition of `template` and the skip to the end of the input behind it
  have hrep : ∃ stEnd, E (2 * src.length + FT + 200) .nonAtomic (.rep templateAlt) ⟨0, src⟩ (.ok stEnd (topToks s0 more))
      ∧ E (src.length + 6) .nonAtomic .skip stEnd (.ok ⟨src.length, []⟩ []) ∧ stEnd.pos = topEnd s0 more := by
    cases more with
    | nil =>
      simp only [src, tailSrc, topToks, topEnd]
      by_cases h0 : s0 = []
      · subst h0
        exact ⟨⟨0, []⟩, by simpa [rawTok] using (Ev.rep_none (F := 60) (alt_fails_eoi .nonAtomic 0)).weaken (by omega),
          (skip_eoi .nonAtomic 0).weaken (by omega), rfl⟩
      · have hraw := raw_text_to_eoi s0 h0 hok 0
        have halt := alt_of_raw_text _ _ _ _ hraw
        have hlen : s0.length ≠ 0 := fun h => h0 (List.eq_nil_of_length_eq_zero h)
        have hrep := Ev.rep_some (F := 2 * s0.length + FT + 199) (halt.weaken (by omega))
          (Ev.starTail_stop (F := 2 * s0.length + FT + 198) ((skip_eoi .nonAtomic (0 + s0.length)).weaken (by omega))
            ((alt_fails_eoi .nonAtomic (0 + s0.length)).weaken (by omega)))
        refine ⟨⟨0 + s0.length, []⟩, ?_, ?_, by simp⟩
        · have e : rawTok 0 s0.length = [⟨some .r_raw_text, 0, s0.length⟩] := by simp [rawTok]; omega
          rw [e]; simpa using hrep
        · simpa using (skip_eoi .nonAtomic s0.length).weaken (F' := s0.length + 6) (by omega)
    | cons q more =>
      obtain ⟨t, s1⟩ := q
      obtain ⟨hs0, hrest⟩ := hok
      have hT : TagAt ('{' :: '{' :: t.T') FT t.toks := hTs (t, s1) (by simp)
      generalize ht' : t.T' = T' at *
      generalize htk : t.toks = tagToks at *
      have htl : t.len = T'.length + 2 := by simp [PTag.len, ht']
      obtain ⟨stEnd, h1, h2, h3⟩ := starTail_after_tag FT more (fun q hq => hTs q (by simp [hq])) s1 (s0.length + (T'.length + 2)) hrest
      generalize hnext : tailSrc s1 more = next at *
      have hsrc : src = s0 ++ '{' :: '{' :: (T' ++ next) := by
        show s0 ++ t.src ++ tailSrc s1 more = _
        rw [hnext]; simp [PTag.src, ht']
      have hsl : src.length = s0.length + (T'.length + 2) + next.length := by rw [hsrc]; simp; omega
      have htag := hT s0.length next
      have htag' : E FT .nonAtomic templateAlt ⟨s0.length, '{' :: '{' :: (T' ++ next)⟩
          (.ok ⟨s0.length + (T'.length + 2), next⟩ (tagToks.map (shiftTok s0.length))) := by
        simpa using htag
      refine ⟨stEnd, ?_, ?_, ?_⟩
      · simp only [topToks, htk, htl]
        rw [hsrc] at *
        by_cases h0 : s0 = []
        · subst h0
          have := Ev.rep_some (F := 2 * ([] ++ '{' :: '{' :: (T' ++ next)).length + FT + 199) (htag'.weaken (by omega))
            (h1.weaken (by simp at hsl ⊢; omega))
          simpa [rawTok] using this
        · have hs0t : TextBeforeTag s0 := hs0.resolve_left h0
          have hraw := raw_text_before_tag s0 (T' ++ next) h0 hs0t 0
          have halt := alt_of_raw_text _ _ _ _ hraw
          have hlen : s0.length ≠ 0 := fun h => h0 (List.eq_nil_of_length_eq_zero h)
          have hstep := Ev.starTail_step (F := 2 * (s0 ++ '{' :: '{' :: (T' ++ next)).length + FT + 190)
            ((skip_at_brace (0 + s0.length) ('{' :: (T' ++ next))).weaken (by omega))
            (by simpa using htag'.weaken (F' := 2 * (s0 ++ '{' :: '{' :: (T' ++ next)).length + FT + 190) (by omega))
            (by simp <;> omega) (by simpa using h1.weaken (F' := 2 * (s0 ++ '{' :: '{' :: (T' ++ next)).length + FT + 190) (by omega))
          have := Ev.rep_some (F := 2 * (s0 ++ '{' :: '{' :: (T' ++ next)).length + FT + 199) (halt.weaken (by omega)) (hstep.weaken (by omega))
          have e : rawTok 0 s0.length = [⟨some .r_raw_text, 0, s0.length⟩] := by simp [rawTok]; omega
          rw [e]
          simpa [List.append_assoc] using this
      · have : s0.length + (T'.length + 2) + next.length = src.length := by omega
        rw [this] at h2
        exact h2.weaken (by omega)
      · simp only [topEnd, htl]; exact h3
  obtain ⟨stEnd, hrep, hskip, hpos⟩ := hrep
  have htmpl := Ev.rule_ok (G := rules) (ws := ws) (atom := .nonAtomic) (r := Rule.r_template) (F := 2 * src.length + FT + 200)
    (st := ⟨0, src⟩) (st' := stEnd) (by simpa [template_def, innerAtom] using hrep)
  have hty : (rules .r_template).ty = .normal := rfl
  simp only [hty] at htmpl
  rw [hpos] at htmpl
  have hseq := Ev.seq_ok (F := 2 * src.length + FT + 201) (b := .builtin .eoi) (htmpl.weaken (by omega))
    (hskip.weaken (by omega)) (Ev.eoi_ok (F := 2 * src.length + FT + 200) (p := src.length))
  have hh := Ev.rule_ok (G := rules) (ws := ws) (atom := .nonAtomic) (r := Rule.r_handlebars) (F := 2 * src.length + FT + 202)
    (st := ⟨0, src⟩) (st' := ⟨src.length, []⟩) (by simpa [handlebars_def, innerAtom] using hseq)
  have hty2 : (rules .r_handlebars).ty = .silent := rfl
  simp only [hty2] at hh
  simpa [List.append_assoc] using hh.weaken (F' := 2 * src.length + FT + 300) (by omega)

end Hbs.PlainText
