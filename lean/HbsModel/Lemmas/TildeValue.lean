import HbsModel.Lemmas.CompileValue
/-
  compile2 on  L ++ "{{~v~}}" ++ W ++ R' : the text in front loses its trailing whitespace, the text behind its leading
  whitespace (both in the sense of `char::is_whitespace`), the expression is the one `{{v}}` compiles to.
-/
namespace Hbs.PlainText
open Hbs Hbs.Pest Hbs.Grammar

def tvSrc : Str := ['{', '{', '~', 'v', '~', '}', '}']
def tvToks : List (Tok Rule) :=
  [⟨some .r_expression, 0, 7⟩, ⟨some .r_leading_tilde_to_omit_whitespace, 2, 3⟩, ⟨some .r_reference, 3, 4⟩,
   ⟨some .r_path_inline, 3, 4⟩, ⟨some .r_path_id, 3, 4⟩, ⟨some .r_trailing_tilde_to_omit_whitespace, 4, 5⟩]

/-- decided on the regenerated grammar: `{{~v~}}` – whatever follows – is the element `expression` with the pairs
    leading tilde, reference, path_inline, path_id, trailing tilde -/
theorem tv_decided : evalK rules ws false 200 .nonAtomic templateAlt 0 tvSrc = some (.ok 7 [] tvToks) :=
  KRes.isOkWith_eq (by decide)

theorem tv_tagAt : TagAt tvSrc 200 tvToks := by
  intro p tail
  have := evalK_at rules ws rules_noSoi false tail (by simp) 200 .nonAtomic templateAlt rfl tvSrc _ tv_decided p
  refine ⟨?_, by simp [shiftRes, embedK]⟩
  rw [this]
  simp [shiftRes, embedK, tvSrc, Nat.add_comm]

/-- the pair stream of  L ++ {{~v~}} ++ W ++ R' -/
theorem parse_text_tv_text (L W R' : Str) (hL : L = [] ∨ TextBeforeTag L) (hA : TextAfterTag W R') :
    let a := L.length
    let b := a + 7
    let d := b + W.length
    let n := d + R'.length
    Pest.parse rules ws .r_handlebars (L ++ tvSrc ++ (W ++ R'))
      = .ok ⟨n, []⟩ (⟨some .r_template, 0, if R' = [] then b else n⟩ ::
          (rawTok 0 a ++ [⟨some .r_expression, a, b⟩, ⟨some .r_leading_tilde_to_omit_whitespace, a + 2, a + 3⟩,
              ⟨some .r_reference, a + 3, a + 4⟩, ⟨some .r_path_inline, a + 3, a + 4⟩, ⟨some .r_path_id, a + 3, a + 4⟩,
              ⟨some .r_trailing_tilde_to_omit_whitespace, a + 4, a + 5⟩] ++ rawTok d n ++ [⟨none, n, n⟩])) := by
  intro a b d n
  have h := handlebars_text_tag_text L ['~', 'v', '~', '}', '}'] W R' 200 _ hL tv_tagAt hA
  have hn : (L ++ tvSrc ++ (W ++ R')).length = n := by simp [n, d, b, a, tvSrc]; omega
  simp only [] at h
  have h' := h.weaken (F' := defaultFuel (L ++ tvSrc ++ (W ++ R')).length) (by
    unfold defaultFuel
    have : (L ++ '{' :: '{' :: ['~', 'v', '~', '}', '}'] ++ (W ++ R')).length = n := hn
    rw [this, hn]; omega)
  unfold Pest.parse
  refine Eq.trans h'.1 ?_
  have e1 : (L ++ '{' :: '{' :: ['~', 'v', '~', '}', '}'] ++ (W ++ R')).length = n := hn
  simp only [e1, tvToks, List.map, shiftTok, Nat.zero_add, List.length_cons, List.length_nil]
  rw [show 7 + L.length = L.length + 7 by omega, show 2 + L.length = L.length + 2 by omega, show 3 + L.length = L.length + 3 by omega,
    show 4 + L.length = L.length + 4 by omega, show 5 + L.length = L.length + 5 by omega]

/-- `remove_previous_whitespace` on the text in front -/
theorem removePrev_leftT (L : Str) : removePreviousWhitespace [leftT L L] = .ok [leftT L (trimEnd L)] := by
  by_cases hL : L = []
  · subst hL; simp [removePreviousWhitespace, frontMut, leftT, mapLastRaw, Tmpl.empty, Tmpl.elements]
  · simp [removePreviousWhitespace, frontMut, leftT, hL, mapLastRaw, Tmpl.elements, Tmpl.setElements, Tmpl.name, Tmpl.mapping]

theorem step_tv (src : Str) (opts : TemplateOptions) (f a : Nat) (T0 T0' : Tmpl) (ep : Option Nat) (r0 : CTok) (rest : List CTok)
    (hep : ep.getD 0 = a) (hv : tokStr src ⟨some .r_path_id, a + 3, a + 4, []⟩ = ['v']) (hr0 : a + 7 ≤ r0.e)
    (hrm : removePreviousWhitespace [T0] = .ok [T0']) :
    compileStep src opts (f + 4) { tmplStack := [T0], endPos := ep } ⟨some .r_expression, a, a + 7, []⟩
        (⟨some .r_leading_tilde_to_omit_whitespace, a + 2, a + 3, []⟩ :: ⟨some .r_reference, a + 3, a + 4, []⟩ ::
         ⟨some .r_path_inline, a + 3, a + 4, []⟩ :: ⟨some .r_path_id, a + 3, a + 4, []⟩ ::
         ⟨some .r_trailing_tilde_to_omit_whitespace, a + 4, a + 5, []⟩ :: r0 :: rest)
      = .ok ({ tmplStack := [T0'.pushElement (.expr valHT) (lineCol src a).1 (lineCol src a).2], omitProWs := true,
               endPos := some (a + 7) }, r0 :: rest) := by
  have hv' : tokStr src ⟨some .r_reference, a + 3, a + 4, []⟩ = ['v'] := hv
  have h1 : ¬ (r0.e < a + 7) := by omega
  have h2 : a + 4 < r0.e := by omega
  simp [compileStep, hep, isBlockStart, isExprLike, parseExpression, parseName, parsePathSegs, parseExprLoop, hv, hv', h1, h2,
    frontMut, valHT, str, hrm, HelperG.new]

/-! ### the text behind a tag that ended in `~}}` -/

theorem step_raw_after_pro (src R : Str) (opts : TemplateOptions) (fuel : Nat) (it : List CTok) (b d n : Nat) (T1 : Tmpl)
    (hs : slice? src b n = some R) (hlen : n - d ≤ R.length) :
    compileStep src opts fuel { tmplStack := [T1], omitProWs := true, endPos := some b } ⟨some .r_raw_text, d, n, []⟩ it
      = .ok ({ tmplStack := [T1.pushElement (.raw (trimStart R)) (lineCol src d).1 (lineCol src d).2], omitProWs := true,
               endPos := some n }, it) := by
  have hst : (if d = b then d else b) = b := by
    by_cases h : d = b <;> simp [h]
  have hl : ¬ R.length < n - d := by omega
  simp [compileStep, hst, hs, rawString, removeEscapes, frontMut, hl]

/-- whitespace between a `~}}` tag and the end of the template is dropped as a whole -/
theorem step_eoi_trailing_pro (src : Str) (opts : TemplateOptions) (fuel : Nat) (b n : Nat) (T1 : Tmpl) (hne : n ≠ b) :
    compileStep src opts fuel { tmplStack := [T1], omitProWs := true, endPos := some b } ⟨none, n, n, []⟩ []
      = .ok ({ tmplStack := [T1], omitProWs := true, endPos := some n }, []) := by
  simp [compileStep, hne, isBlockStart, isExprLike]

theorem step_eoi_at_end_pro (src : Str) (opts : TemplateOptions) (fuel : Nat) (n : Nat) (stk : List Tmpl) :
    compileStep src opts fuel { tmplStack := stk, omitProWs := true, endPos := some n } ⟨none, n, n, []⟩ []
      = .ok ({ tmplStack := stk, omitProWs := true, endPos := some n }, []) := by
  simp [compileStep, isBlockStart, isExprLike]

theorem finish_at_end_pro (src : Str) (opts : TemplateOptions) (t : Tmpl) :
    compileFinish src opts { tmplStack := [t], omitProWs := true, endPos := some src.length } = .ok (t.setName opts.name) := by
  simp [compileFinish]

theorem loop_tail_pro (src W R' : Str) (opts : TemplateOptions) (f b : Nat) (T1 : Tmpl)
    (hn : src.length = b + W.length + R'.length)
    (hR : slice? src b src.length = some (W ++ R')) :
    ∃ m, compileLoop src opts (f + ((rawTok (b + W.length) src.length).length + 2))
        { tmplStack := [T1], omitProWs := true, endPos := some b }
        ((rawTok (b + W.length) src.length).map plainCTok ++ [plainCTok ⟨none, src.length, src.length⟩])
      = .ok (.mk opts.name (T1.elements ++ (if R' = [] then [] else [.raw (trimStart (W ++ R'))])) m) := by
  by_cases hR' : R' = []
  · subst hR'
    have hdn : b + W.length = src.length := by simp [hn]
    have hrt : rawTok (b + W.length) src.length = [] := by simp [rawTok, hdn]
    rw [hrt]
    simp only [List.length_nil, List.map_nil, List.nil_append, Nat.zero_add, List.append_nil] at *
    by_cases hW : W = []
    · subst hW
      have hbn : src.length = b := by simp [hn]
      have h1 := loop_step src opts (f + 1) { tmplStack := [T1], omitProWs := true, endPos := some src.length } _
        ⟨none, src.length, src.length, []⟩ [] [] (step_eoi_at_end_pro src opts (f + 1) src.length [T1])
      refine ⟨T1.mapping, ?_⟩
      rw [show (some b : Option Nat) = some src.length by rw [hbn], show f + 2 = f + 1 + 1 by omega]
      simp only [plainCTok]
      rw [h1]
      simp [compileLoop, finish_at_end_pro src opts T1, Tmpl.setName]
    · have hne : src.length ≠ b := by
        have : W.length ≠ 0 := fun h0 => hW (List.eq_nil_of_length_eq_zero h0)
        omega
      have h1 := loop_step src opts (f + 1) _ _ ⟨none, src.length, src.length, []⟩ [] []
        (step_eoi_trailing_pro src opts (f + 1) b src.length T1 hne)
      refine ⟨T1.mapping, ?_⟩
      rw [show f + 2 = f + 1 + 1 by omega]
      simp only [plainCTok]
      rw [h1]
      simp [compileLoop, finish_at_end_pro src opts T1, Tmpl.setName]
  · have hlenR : R'.length ≠ 0 := fun h0 => hR' (List.eq_nil_of_length_eq_zero h0)
    have hrt : rawTok (b + W.length) src.length = [⟨some .r_raw_text, b + W.length, src.length⟩] := by simp [rawTok]; omega
    rw [hrt]
    have h1 := loop_step src opts (f + 2) _ _ ⟨some .r_raw_text, b + W.length, src.length, []⟩ [⟨none, src.length, src.length, []⟩] _
      (step_raw_after_pro src (W ++ R') opts (f + 2) _ b (b + W.length) src.length T1 hR (by simp; omega))
    have h2 := fun stk => loop_step src opts (f + 1) { tmplStack := stk, omitProWs := true, endPos := some src.length } _
      ⟨none, src.length, src.length, []⟩ [] [] (step_eoi_at_end_pro src opts (f + 1) src.length stk)
    refine ⟨T1.mapping ++ [lineCol src (b + W.length)], ?_⟩
    simp only [List.length_singleton, List.map, List.cons_append, List.nil_append, plainCTok]
    rw [show f + (1 + 2) = f + 2 + 1 by omega, h1, show f + 2 = f + 1 + 1 by omega, h2]
    simp [compileLoop, finish_at_end_pro src opts _, Tmpl.setName, Tmpl.pushElement, Tmpl.elements, Tmpl.mapping, hR']

/-- **compile2 on  L ++ {{~v~}} ++ W ++ R'** : the text in front without its trailing whitespace, the expression `{{v}}` compiles
    to, the text behind without its leading whitespace (nothing at all when only whitespace follows) -/
theorem compile_text_tv_text (L W R' : Str) (opts : TemplateOptions)
    (hL : L = [] ∨ TextBeforeTag L) (hA : TextAfterTag W R') :
    ∃ m, compile2 (L ++ tvSrc ++ (W ++ R')) opts = .ok (.mk opts.name
      ((leftT L (trimEnd L)).elements ++ [.expr valHT] ++ (if R' = [] then [] else [.raw (trimStart (W ++ R'))])) m) := by
  have hparse := parse_text_tv_text L W R' hL hA
  simp only [] at hparse
  have hn : (L ++ tvSrc ++ (W ++ R')).length = L.length + 7 + W.length + R'.length := by
    simp [tvSrc]; omega
  have hs0 : slice? (L ++ tvSrc ++ (W ++ R')) 0 L.length = some L := by
    rw [List.append_assoc]; exact slice_prefix L _
  have hsR : slice? (L ++ tvSrc ++ (W ++ R')) (L.length + 7) (L ++ tvSrc ++ (W ++ R')).length = some (W ++ R') :=
    slice_suffix (L ++ tvSrc) (W ++ R') _ (by simp [tvSrc])
  have hv : tokStr (L ++ tvSrc ++ (W ++ R')) ⟨some .r_path_id, L.length + 3, L.length + 4, []⟩ = ['v'] := by
    have : L ++ tvSrc ++ (W ++ R') = (L ++ ['{', '{', '~']) ++ ['v'] ++ (['~', '}', '}'] ++ (W ++ R')) := by simp [tvSrc]
    rw [this]
    exact tokStr_mid (L ++ ['{', '{', '~']) ['v'] _ _ (by simp) (by simp)
  generalize hsrc : L ++ tvSrc ++ (W ++ R') = src at *
  obtain ⟨m, htail⟩ := loop_tail_pro src W R' opts (3 * (rawTok 0 L.length).length + 3 * (rawTok (L.length + 7 + W.length) src.length).length + 44)
    (L.length + 7) ((leftT L (trimEnd L)).pushElement (.expr valHT) (lineCol src L.length).1 (lineCol src L.length).2) hn hsR
  refine ⟨m, ?_⟩
  unfold compile2 compile2Inner
  rw [hparse]
  simp only []
  rw [attachEscapes_noEsc _ (by
    intro t ht
    simp only [List.mem_cons, List.mem_append, List.not_mem_nil, or_false] at ht
    rcases ht with rfl | ((h | rfl | rfl | rfl | rfl | rfl | rfl) | h) | rfl
    · show ((some Rule.r_template : Option Rule) == some Rule.r_escape) = false; decide
    · exact rawTok_rule _ _ t h
    · show ((some Rule.r_expression : Option Rule) == some Rule.r_escape) = false; decide
    · show ((some Rule.r_leading_tilde_to_omit_whitespace : Option Rule) == some Rule.r_escape) = false; decide
    · show ((some Rule.r_reference : Option Rule) == some Rule.r_escape) = false; decide
    · show ((some Rule.r_path_inline : Option Rule) == some Rule.r_escape) = false; decide
    · show ((some Rule.r_path_id : Option Rule) == some Rule.r_escape) = false; decide
    · show ((some Rule.r_trailing_tilde_to_omit_whitespace : Option Rule) == some Rule.r_escape) = false; decide
    · exact rawTok_rule _ _ t h
    · show ((none : Option Rule) == some Rule.r_escape) = false; decide)]
  rw [← hn]
  simp only [List.map_cons, List.map_append, List.length_cons, List.length_append, List.length_map, List.map_nil, List.length_nil,
    List.append_assoc, List.cons_append, List.nil_append]
  rw [show 4 * ((rawTok 0 L.length).length + ((rawTok (L.length + 7 + W.length) src.length).length + (0 + 1) + 1 + 1 + 1 + 1 + 1 + 1) + 1) + 16
      = ((3 * (rawTok 0 L.length).length + 3 * (rawTok (L.length + 7 + W.length) src.length).length + 40
          + ((rawTok (L.length + 7 + W.length) src.length).length + 2)) + 4 + 1) + (1 + (rawTok 0 L.length).length) by omega]
  rw [loop_head src L opts _ _ _ hs0]
  obtain ⟨r0, rest, hrest, hr0⟩ := tail_head (L.length + 7) W.length src.length (by omega)
  have hep : (if L = [] then none else some L.length : Option Nat).getD 0 = L.length := by
    by_cases hLe : L = [] <;> simp [hLe]
  have hstep := step_tv src opts
    (3 * (rawTok 0 L.length).length + 3 * (rawTok (L.length + 7 + W.length) src.length).length + 40
      + ((rawTok (L.length + 7 + W.length) src.length).length + 2))
    L.length (leftT L L) (leftT L (trimEnd L)) _ r0 rest hep hv hr0 (removePrev_leftT L)
  have hloop := loop_step src opts
    (3 * (rawTok 0 L.length).length + 3 * (rawTok (L.length + 7 + W.length) src.length).length + 40
      + ((rawTok (L.length + 7 + W.length) src.length).length + 2) + 4) (st1 L) _
    ⟨some .r_expression, L.length, L.length + 7, []⟩ _ _ (by unfold st1; exact hstep)
  rw [hrest] at htail ⊢
  simp only [plainCTok]
  rw [hloop]
  rw [show 3 * (rawTok 0 L.length).length + 3 * (rawTok (L.length + 7 + W.length) src.length).length + 40
        + ((rawTok (L.length + 7 + W.length) src.length).length + 2) + 4
      = 3 * (rawTok 0 L.length).length + 3 * (rawTok (L.length + 7 + W.length) src.length).length + 44
        + ((rawTok (L.length + 7 + W.length) src.length).length + 2) by omega]
  rw [htail]
  simp [Tmpl.pushElement, Tmpl.elements]

/-! ### `{{~v}}` : only the text in front is trimmed -/

def tlSrc : Str := ['{', '{', '~', 'v', '}', '}']
def tlToks : List (Tok Rule) :=
  [⟨some .r_expression, 0, 6⟩, ⟨some .r_leading_tilde_to_omit_whitespace, 2, 3⟩, ⟨some .r_reference, 3, 4⟩,
   ⟨some .r_path_inline, 3, 4⟩, ⟨some .r_path_id, 3, 4⟩]

theorem tl_decided : evalK rules ws false 200 .nonAtomic templateAlt 0 tlSrc = some (.ok 6 [] tlToks) :=
  KRes.isOkWith_eq (by decide)

theorem tl_tagAt : TagAt tlSrc 200 tlToks := by
  intro p tail
  have := evalK_at rules ws rules_noSoi false tail (by simp) 200 .nonAtomic templateAlt rfl tlSrc _ tl_decided p
  refine ⟨?_, by simp [shiftRes, embedK]⟩
  rw [this]
  simp [shiftRes, embedK, tlSrc, Nat.add_comm]

theorem parse_text_tl_text (L W R' : Str) (hL : L = [] ∨ TextBeforeTag L) (hA : TextAfterTag W R') :
    let a := L.length
    let b := a + 6
    let d := b + W.length
    let n := d + R'.length
    Pest.parse rules ws .r_handlebars (L ++ tlSrc ++ (W ++ R'))
      = .ok ⟨n, []⟩ (⟨some .r_template, 0, if R' = [] then b else n⟩ ::
          (rawTok 0 a ++ [⟨some .r_expression, a, b⟩, ⟨some .r_leading_tilde_to_omit_whitespace, a + 2, a + 3⟩,
              ⟨some .r_reference, a + 3, a + 4⟩, ⟨some .r_path_inline, a + 3, a + 4⟩, ⟨some .r_path_id, a + 3, a + 4⟩]
            ++ rawTok d n ++ [⟨none, n, n⟩])) := by
  intro a b d n
  have h := handlebars_text_tag_text L ['~', 'v', '}', '}'] W R' 200 _ hL tl_tagAt hA
  have hn : (L ++ tlSrc ++ (W ++ R')).length = n := by simp [n, d, b, a, tlSrc]; omega
  simp only [] at h
  have h' := h.weaken (F' := defaultFuel (L ++ tlSrc ++ (W ++ R')).length) (by
    unfold defaultFuel
    have : (L ++ '{' :: '{' :: ['~', 'v', '}', '}'] ++ (W ++ R')).length = n := hn
    rw [this, hn]; omega)
  unfold Pest.parse
  refine Eq.trans h'.1 ?_
  have e1 : (L ++ '{' :: '{' :: ['~', 'v', '}', '}'] ++ (W ++ R')).length = n := hn
  simp only [e1, tlToks, List.map, shiftTok, Nat.zero_add, List.length_cons, List.length_nil]
  rw [show 6 + L.length = L.length + 6 by omega, show 2 + L.length = L.length + 2 by omega, show 3 + L.length = L.length + 3 by omega,
    show 4 + L.length = L.length + 4 by omega]

theorem step_tl (src : Str) (opts : TemplateOptions) (f a : Nat) (T0 T0' : Tmpl) (ep : Option Nat) (r0 : CTok) (rest : List CTok)
    (hep : ep.getD 0 = a) (hv : tokStr src ⟨some .r_path_id, a + 3, a + 4, []⟩ = ['v']) (hr0 : a + 6 ≤ r0.e)
    (hrm : removePreviousWhitespace [T0] = .ok [T0']) :
    compileStep src opts (f + 4) { tmplStack := [T0], endPos := ep } ⟨some .r_expression, a, a + 6, []⟩
        (⟨some .r_leading_tilde_to_omit_whitespace, a + 2, a + 3, []⟩ :: ⟨some .r_reference, a + 3, a + 4, []⟩ ::
         ⟨some .r_path_inline, a + 3, a + 4, []⟩ :: ⟨some .r_path_id, a + 3, a + 4, []⟩ :: r0 :: rest)
      = .ok ({ tmplStack := [T0'.pushElement (.expr valHT) (lineCol src a).1 (lineCol src a).2], endPos := some (a + 6) }, r0 :: rest) := by
  have hv' : tokStr src ⟨some .r_reference, a + 3, a + 4, []⟩ = ['v'] := hv
  have h1 : ¬ (r0.e < a + 6) := by omega
  have h2 : a + 4 < r0.e := by omega
  simp [compileStep, hep, isBlockStart, isExprLike, parseExpression, parseName, parsePathSegs, parseExprLoop, hv, hv', h1, h2,
    frontMut, valHT, str, hrm, HelperG.new]

/-- **compile2 on  L ++ {{~v}} ++ W ++ R'** : the text in front without its trailing whitespace, the expression, the text behind
    as written -/
theorem compile_text_tl_text (L W R' : Str) (opts : TemplateOptions)
    (hL : L = [] ∨ TextBeforeTag L) (hA : TextAfterTag W R') :
    ∃ m, compile2 (L ++ tlSrc ++ (W ++ R')) opts = .ok (.mk opts.name
      ((leftT L (trimEnd L)).elements ++ [.expr valHT] ++ (if W ++ R' = [] then [] else [.raw (W ++ R')])) m) := by
  have hparse := parse_text_tl_text L W R' hL hA
  simp only [] at hparse
  have hn : (L ++ tlSrc ++ (W ++ R')).length = L.length + 6 + W.length + R'.length := by
    simp [tlSrc]; omega
  have hs0 : slice? (L ++ tlSrc ++ (W ++ R')) 0 L.length = some L := by
    rw [List.append_assoc]; exact slice_prefix L _
  have hsR : slice? (L ++ tlSrc ++ (W ++ R')) (L.length + 6) (L ++ tlSrc ++ (W ++ R')).length = some (W ++ R') :=
    slice_suffix (L ++ tlSrc) (W ++ R') _ (by simp [tlSrc])
  have hv : tokStr (L ++ tlSrc ++ (W ++ R')) ⟨some .r_path_id, L.length + 3, L.length + 4, []⟩ = ['v'] := by
    have : L ++ tlSrc ++ (W ++ R') = (L ++ ['{', '{', '~']) ++ ['v'] ++ (['}', '}'] ++ (W ++ R')) := by simp [tlSrc]
    rw [this]
    exact tokStr_mid (L ++ ['{', '{', '~']) ['v'] _ _ (by simp) (by simp)
  generalize hsrc : L ++ tlSrc ++ (W ++ R') = src at *
  obtain ⟨m, htail⟩ := loop_tail src W R' opts (3 * (rawTok 0 L.length).length + 3 * (rawTok (L.length + 6 + W.length) src.length).length + 40)
    (L.length + 6) ((leftT L (trimEnd L)).pushElement (.expr valHT) (lineCol src L.length).1 (lineCol src L.length).2) false hn hsR
  refine ⟨m, ?_⟩
  unfold compile2 compile2Inner
  rw [hparse]
  simp only []
  rw [attachEscapes_noEsc _ (by
    intro t ht
    simp only [List.mem_cons, List.mem_append, List.not_mem_nil, or_false] at ht
    rcases ht with rfl | ((h | rfl | rfl | rfl | rfl | rfl) | h) | rfl
    · show ((some Rule.r_template : Option Rule) == some Rule.r_escape) = false; decide
    · exact rawTok_rule _ _ t h
    · show ((some Rule.r_expression : Option Rule) == some Rule.r_escape) = false; decide
    · show ((some Rule.r_leading_tilde_to_omit_whitespace : Option Rule) == some Rule.r_escape) = false; decide
    · show ((some Rule.r_reference : Option Rule) == some Rule.r_escape) = false; decide
    · show ((some Rule.r_path_inline : Option Rule) == some Rule.r_escape) = false; decide
    · show ((some Rule.r_path_id : Option Rule) == some Rule.r_escape) = false; decide
    · exact rawTok_rule _ _ t h
    · show ((none : Option Rule) == some Rule.r_escape) = false; decide)]
  rw [← hn]
  simp only [List.map_cons, List.map_append, List.length_cons, List.length_append, List.length_map, List.map_nil, List.length_nil,
    List.append_assoc, List.cons_append, List.nil_append]
  rw [show 4 * ((rawTok 0 L.length).length + ((rawTok (L.length + 6 + W.length) src.length).length + (0 + 1) + 1 + 1 + 1 + 1 + 1) + 1) + 16
      = ((3 * (rawTok 0 L.length).length + 3 * (rawTok (L.length + 6 + W.length) src.length).length + 36
          + ((rawTok (L.length + 6 + W.length) src.length).length + 2)) + 4 + 1) + (1 + (rawTok 0 L.length).length) by omega]
  rw [loop_head src L opts _ _ _ hs0]
  obtain ⟨r0, rest, hrest, hr0⟩ := tail_head (L.length + 6) W.length src.length (by omega)
  have hep : (if L = [] then none else some L.length : Option Nat).getD 0 = L.length := by
    by_cases hLe : L = [] <;> simp [hLe]
  have hstep := step_tl src opts
    (3 * (rawTok 0 L.length).length + 3 * (rawTok (L.length + 6 + W.length) src.length).length + 36
      + ((rawTok (L.length + 6 + W.length) src.length).length + 2))
    L.length (leftT L L) (leftT L (trimEnd L)) _ r0 rest hep hv hr0 (removePrev_leftT L)
  have hloop := loop_step src opts
    (3 * (rawTok 0 L.length).length + 3 * (rawTok (L.length + 6 + W.length) src.length).length + 36
      + ((rawTok (L.length + 6 + W.length) src.length).length + 2) + 4) (st1 L) _
    ⟨some .r_expression, L.length, L.length + 6, []⟩ _ _ (by unfold st1; exact hstep)
  rw [hrest] at htail ⊢
  simp only [plainCTok]
  rw [hloop]
  rw [show 3 * (rawTok 0 L.length).length + 3 * (rawTok (L.length + 6 + W.length) src.length).length + 36
        + ((rawTok (L.length + 6 + W.length) src.length).length + 2) + 4
      = 3 * (rawTok 0 L.length).length + 3 * (rawTok (L.length + 6 + W.length) src.length).length + 40
        + ((rawTok (L.length + 6 + W.length) src.length).length + 2) by omega]
  rw [htail]
  simp [Tmpl.pushElement, Tmpl.elements]

/-! ### `{{v~}}` : only the text behind is trimmed -/

def trSrc : Str := ['{', '{', 'v', '~', '}', '}']
def trToks : List (Tok Rule) :=
  [⟨some .r_expression, 0, 6⟩, ⟨some .r_reference, 2, 3⟩, ⟨some .r_path_inline, 2, 3⟩, ⟨some .r_path_id, 2, 3⟩,
   ⟨some .r_trailing_tilde_to_omit_whitespace, 3, 4⟩]

theorem tr_decided : evalK rules ws false 200 .nonAtomic templateAlt 0 trSrc = some (.ok 6 [] trToks) :=
  KRes.isOkWith_eq (by decide)

theorem tr_tagAt : TagAt trSrc 200 trToks := by
  intro p tail
  have := evalK_at rules ws rules_noSoi false tail (by simp) 200 .nonAtomic templateAlt rfl trSrc _ tr_decided p
  refine ⟨?_, by simp [shiftRes, embedK]⟩
  rw [this]
  simp [shiftRes, embedK, trSrc, Nat.add_comm]

theorem parse_text_tr_text (L W R' : Str) (hL : L = [] ∨ TextBeforeTag L) (hA : TextAfterTag W R') :
    let a := L.length
    let b := a + 6
    let d := b + W.length
    let n := d + R'.length
    Pest.parse rules ws .r_handlebars (L ++ trSrc ++ (W ++ R'))
      = .ok ⟨n, []⟩ (⟨some .r_template, 0, if R' = [] then b else n⟩ ::
          (rawTok 0 a ++ [⟨some .r_expression, a, b⟩, ⟨some .r_reference, a + 2, a + 3⟩, ⟨some .r_path_inline, a + 2, a + 3⟩,
              ⟨some .r_path_id, a + 2, a + 3⟩, ⟨some .r_trailing_tilde_to_omit_whitespace, a + 3, a + 4⟩]
            ++ rawTok d n ++ [⟨none, n, n⟩])) := by
  intro a b d n
  have h := handlebars_text_tag_text L ['v', '~', '}', '}'] W R' 200 _ hL tr_tagAt hA
  have hn : (L ++ trSrc ++ (W ++ R')).length = n := by simp [n, d, b, a, trSrc]; omega
  simp only [] at h
  have h' := h.weaken (F' := defaultFuel (L ++ trSrc ++ (W ++ R')).length) (by
    unfold defaultFuel
    have : (L ++ '{' :: '{' :: ['v', '~', '}', '}'] ++ (W ++ R')).length = n := hn
    rw [this, hn]; omega)
  unfold Pest.parse
  refine Eq.trans h'.1 ?_
  have e1 : (L ++ '{' :: '{' :: ['v', '~', '}', '}'] ++ (W ++ R')).length = n := hn
  simp only [e1, trToks, List.map, shiftTok, Nat.zero_add, List.length_cons, List.length_nil]
  rw [show 6 + L.length = L.length + 6 by omega, show 2 + L.length = L.length + 2 by omega, show 3 + L.length = L.length + 3 by omega,
    show 4 + L.length = L.length + 4 by omega]

theorem step_tr (src : Str) (opts : TemplateOptions) (f a : Nat) (T0 : Tmpl) (ep : Option Nat) (r0 : CTok) (rest : List CTok)
    (hep : ep.getD 0 = a) (hv : tokStr src ⟨some .r_path_id, a + 2, a + 3, []⟩ = ['v']) (hr0 : a + 6 ≤ r0.e) :
    compileStep src opts (f + 4) { tmplStack := [T0], endPos := ep } ⟨some .r_expression, a, a + 6, []⟩
        (⟨some .r_reference, a + 2, a + 3, []⟩ :: ⟨some .r_path_inline, a + 2, a + 3, []⟩ :: ⟨some .r_path_id, a + 2, a + 3, []⟩ ::
         ⟨some .r_trailing_tilde_to_omit_whitespace, a + 3, a + 4, []⟩ :: r0 :: rest)
      = .ok ({ tmplStack := [T0.pushElement (.expr valHT) (lineCol src a).1 (lineCol src a).2], omitProWs := true,
               endPos := some (a + 6) }, r0 :: rest) := by
  have hv' : tokStr src ⟨some .r_reference, a + 2, a + 3, []⟩ = ['v'] := hv
  have h1 : ¬ (r0.e < a + 6) := by omega
  have h2 : a + 3 < r0.e := by omega
  simp [compileStep, hep, isBlockStart, isExprLike, parseExpression, parseName, parsePathSegs, parseExprLoop, hv, hv', h1, h2,
    frontMut, valHT, str, HelperG.new]

/-- **compile2 on  L ++ {{v~}} ++ W ++ R'** : the text in front as written, the expression, the text behind without its leading
    whitespace -/
theorem compile_text_tr_text (L W R' : Str) (opts : TemplateOptions)
    (hL : L = [] ∨ TextBeforeTag L) (hA : TextAfterTag W R') :
    ∃ m, compile2 (L ++ trSrc ++ (W ++ R')) opts = .ok (.mk opts.name
      ((leftT L L).elements ++ [.expr valHT] ++ (if R' = [] then [] else [.raw (trimStart (W ++ R'))])) m) := by
  have hparse := parse_text_tr_text L W R' hL hA
  simp only [] at hparse
  have hn : (L ++ trSrc ++ (W ++ R')).length = L.length + 6 + W.length + R'.length := by
    simp [trSrc]; omega
  have hs0 : slice? (L ++ trSrc ++ (W ++ R')) 0 L.length = some L := by
    rw [List.append_assoc]; exact slice_prefix L _
  have hsR : slice? (L ++ trSrc ++ (W ++ R')) (L.length + 6) (L ++ trSrc ++ (W ++ R')).length = some (W ++ R') :=
    slice_suffix (L ++ trSrc) (W ++ R') _ (by simp [trSrc])
  have hv : tokStr (L ++ trSrc ++ (W ++ R')) ⟨some .r_path_id, L.length + 2, L.length + 3, []⟩ = ['v'] := by
    have : L ++ trSrc ++ (W ++ R') = (L ++ ['{', '{']) ++ ['v'] ++ (['~', '}', '}'] ++ (W ++ R')) := by simp [trSrc]
    rw [this]
    exact tokStr_mid (L ++ ['{', '{']) ['v'] _ _ (by simp) (by simp)
  generalize hsrc : L ++ trSrc ++ (W ++ R') = src at *
  obtain ⟨m, htail⟩ := loop_tail_pro src W R' opts (3 * (rawTok 0 L.length).length + 3 * (rawTok (L.length + 6 + W.length) src.length).length + 40)
    (L.length + 6) ((leftT L L).pushElement (.expr valHT) (lineCol src L.length).1 (lineCol src L.length).2) hn hsR
  refine ⟨m, ?_⟩
  unfold compile2 compile2Inner
  rw [hparse]
  simp only []
  rw [attachEscapes_noEsc _ (by
    intro t ht
    simp only [List.mem_cons, List.mem_append, List.not_mem_nil, or_false] at ht
    rcases ht with rfl | ((h | rfl | rfl | rfl | rfl | rfl) | h) | rfl
    · show ((some Rule.r_template : Option Rule) == some Rule.r_escape) = false; decide
    · exact rawTok_rule _ _ t h
    · show ((some Rule.r_expression : Option Rule) == some Rule.r_escape) = false; decide
    · show ((some Rule.r_reference : Option Rule) == some Rule.r_escape) = false; decide
    · show ((some Rule.r_path_inline : Option Rule) == some Rule.r_escape) = false; decide
    · show ((some Rule.r_path_id : Option Rule) == some Rule.r_escape) = false; decide
    · show ((some Rule.r_trailing_tilde_to_omit_whitespace : Option Rule) == some Rule.r_escape) = false; decide
    · exact rawTok_rule _ _ t h
    · show ((none : Option Rule) == some Rule.r_escape) = false; decide)]
  rw [← hn]
  simp only [List.map_cons, List.map_append, List.length_cons, List.length_append, List.length_map, List.map_nil, List.length_nil,
    List.append_assoc, List.cons_append, List.nil_append]
  rw [show 4 * ((rawTok 0 L.length).length + ((rawTok (L.length + 6 + W.length) src.length).length + (0 + 1) + 1 + 1 + 1 + 1 + 1) + 1) + 16
      = ((3 * (rawTok 0 L.length).length + 3 * (rawTok (L.length + 6 + W.length) src.length).length + 36
          + ((rawTok (L.length + 6 + W.length) src.length).length + 2)) + 4 + 1) + (1 + (rawTok 0 L.length).length) by omega]
  rw [loop_head src L opts _ _ _ hs0]
  obtain ⟨r0, rest, hrest, hr0⟩ := tail_head (L.length + 6) W.length src.length (by omega)
  have hep : (if L = [] then none else some L.length : Option Nat).getD 0 = L.length := by
    by_cases hLe : L = [] <;> simp [hLe]
  have hstep := step_tr src opts
    (3 * (rawTok 0 L.length).length + 3 * (rawTok (L.length + 6 + W.length) src.length).length + 36
      + ((rawTok (L.length + 6 + W.length) src.length).length + 2))
    L.length (leftT L L) _ r0 rest hep hv hr0
  have hloop := loop_step src opts
    (3 * (rawTok 0 L.length).length + 3 * (rawTok (L.length + 6 + W.length) src.length).length + 36
      + ((rawTok (L.length + 6 + W.length) src.length).length + 2) + 4) (st1 L) _
    ⟨some .r_expression, L.length, L.length + 6, []⟩ _ _ (by unfold st1; exact hstep)
  rw [hrest] at htail ⊢
  simp only [plainCTok]
  rw [hloop]
  rw [show 3 * (rawTok 0 L.length).length + 3 * (rawTok (L.length + 6 + W.length) src.length).length + 36
        + ((rawTok (L.length + 6 + W.length) src.length).length + 2) + 4
      = 3 * (rawTok 0 L.length).length + 3 * (rawTok (L.length + 6 + W.length) src.length).length + 40
        + ((rawTok (L.length + 6 + W.length) src.length).length + 2) by omega]
  rw [htail]
  simp [Tmpl.pushElement, Tmpl.elements]

end Hbs.PlainText
