import HbsModel.Lemmas.CallTag
import HbsModel.Lemmas.PathTag
/-
  `{{name 1}}` – a helper call with one literal argument – for EVERY identifier: one element of `template`, the pairs expression,
  identifier, helper_parameter, literal, number_literal.
-/
namespace Hbs.PlainText
open Hbs Hbs.Pest Hbs.Grammar

def KRes.isOkWithR (pos : Nat) (rest : Str) (toks : List (Option Rule × Nat × Nat)) : Option (KRes Rule) → Bool
  | some (.ok p r t) => p == pos && r == rest && t.map (fun x => (x.rule, x.s, x.e)) == toks
  | _ => false

theorem KRes.isOkWithR_eq {pos : Nat} {rest : Str} {toks : List (Tok Rule)} {r : Option (KRes Rule)}
    (h : KRes.isOkWithR pos rest (toks.map (fun x => (x.rule, x.s, x.e))) r = true) : r = some (.ok pos rest toks) := by
  match r, h with
  | some (.ok p rs t), h =>
    simp only [KRes.isOkWithR, Bool.and_eq_true, beq_iff_eq] at h
    obtain ⟨⟨rfl, rfl⟩, ht⟩ := h
    have hinj : ∀ (a b : List (Tok Rule)), a.map (fun x => (x.rule, x.s, x.e)) = b.map (fun x => (x.rule, x.s, x.e)) → a = b := by
      intro a
      induction a with
      | nil => intro b hb; cases b <;> simp_all
      | cons x a ih =>
        intro b hb
        cases b with
        | nil => simp at hb
        | cons y b =>
          simp only [List.map_cons, List.cons.injEq, Prod.mk.injEq] at hb
          obtain ⟨⟨h1, h2, h3⟩, hb'⟩ := hb
          have : x = y := by cases x; cases y; simp_all
          rw [this, ih b hb']
    rw [hinj _ _ ht]

/-- decided: behind a helper name and a blank, `1}}` – whatever follows – is one parameter, the literal 1 -/
theorem one_param_decided : evalK rules ws false 100 .nonAtomic (.repOnce (.choice (.rule .r_hash) (.rule .r_helper_parameter))) 0 ['1', '}', '}']
    = some (.ok 1 ['}', '}'] [⟨some .r_helper_parameter, 0, 1⟩, ⟨some .r_literal, 0, 1⟩, ⟨some .r_number_literal, 0, 1⟩]) :=
  KRes.isOkWithR_eq (by decide)

def callNSrc (nm : Str) : Str := '{' :: '{' :: (nm ++ [' ', '1', '}', '}'])

def callNToks (n : Nat) : List (Tok Rule) :=
  [⟨some .r_expression, 0, n + 6⟩, ⟨some .r_identifier, 2, 2 + n⟩, ⟨some .r_helper_parameter, 3 + n, 4 + n⟩, ⟨some .r_literal, 3 + n, 4 + n⟩,
   ⟨some .r_number_literal, 3 + n, 4 + n⟩]

/-- **`{{name 1}}` is one element of `template`** – for every identifier -/
theorem callN_tagAt (nm : Str) (h : IdentName nm) : TagAt (callNSrc nm) (nm.length + 160) (callNToks nm.length) := by
  intro p tail
  obtain ⟨c0, t, hnm⟩ := List.exists_cons_of_ne_nil h.ne
  have hc0 : symChar c0 = true := h.sym c0 (by rw [hnm]; simp)
  have hws := symChar_not_ws hc0
  let x : Str := t ++ ' ' :: '1' :: '}' :: '}' :: tail
  have hsrc : callNSrc nm ++ tail = '{' :: '{' :: c0 :: x := by simp [callNSrc, hnm, x]
  have hrest : nm ++ ' ' :: '1' :: '}' :: '}' :: tail = c0 :: x := by simp [hnm, x]
  have helse : matchStr ['e', 'l', 's', 'e'] ⟨p + 2, c0 :: x⟩ = none := by
    have := matchStr_nameG ['e', 'l', 's', 'e'] nm ('1' :: '}' :: '}' :: tail) ' ' (p + 2) (by decide)
    rw [hrest] at this
    rw [this, h.notElse]; rfl
  have hneg := invert_tags_fail c0 x p (invert_prefix_fail c0 x p hc0 helse)
  have hA := Ev.seq_ok (F := nm.length + 120) (hneg.weaken (by omega))
    ((skip_at '{' ('{' :: c0 :: x) (by decide) p).weaken (by omega))
    (Ev.str_ok (F := nm.length + 119) (s := ['{', '{']) (st' := ⟨p + 2, c0 :: x⟩) (by simp [matchStr]))
  have hB := Ev.seq_ok (F := nm.length + 121) hA ((skip_at c0 x hws (p + 2)).weaken (by omega))
    ((lead_tilde_none c0 x (p + 2) (symChar_ne hc0 (by decide))).weaken (by omega))
  -- the helper-call alternative
  have hid := identifier_ok nm ('1' :: '}' :: '}' :: tail) ' ' h.ne h.sym (by decide) (p + 2)
  have hskip : E 8 .nonAtomic .skip ⟨p + 2 + nm.length, ' ' :: '1' :: '}' :: '}' :: tail⟩ (.ok ⟨p + 2 + nm.length + 1, '1' :: '}' :: '}' :: tail⟩ []) := by
    have := skip_run [' '] ('1' :: '}' :: '}' :: tail) (by simp [isPestWs]) (Or.inr ⟨'1', _, rfl, by decide⟩) (p + 2 + nm.length)
    simpa using this.weaken (F' := 8) (by simp)
  have hpar : E 100 .nonAtomic (.repOnce (.choice (.rule .r_hash) (.rule .r_helper_parameter))) ⟨p + 2 + nm.length + 1, '1' :: '}' :: '}' :: tail⟩
      (.ok ⟨p + 2 + nm.length + 1 + 1, '}' :: '}' :: tail⟩ [⟨some .r_helper_parameter, p + 2 + nm.length + 1, p + 2 + nm.length + 1 + 1⟩,
        ⟨some .r_literal, p + 2 + nm.length + 1, p + 2 + nm.length + 1 + 1⟩, ⟨some .r_number_literal, p + 2 + nm.length + 1, p + 2 + nm.length + 1 + 1⟩]) := by
    have := evalK_at rules ws rules_noSoi false tail (by simp) 100 .nonAtomic _ rfl ['1', '}', '}'] _ one_param_decided (p + 2 + nm.length + 1)
    refine ⟨?_, by simp⟩
    rw [show ('1' :: '}' :: '}' :: tail) = ['1', '}', '}'] ++ tail from rfl, this]
    simp [shiftRes, embedK, shiftTok, Nat.add_comm]
  have hcall := Ev.seq_ok (F := nm.length + 110) (hid.weaken (by omega)) (hskip.weaken (by omega)) (hpar.weaken (by omega))
  have hch := Ev.choice_left (b := .rule .r_name) hcall
  rw [hrest] at hch
  have hC := Ev.seq_ok (F := nm.length + 122) (atom := .nonAtomic) hB ((skip_at c0 x hws (p + 2)).weaken (by omega)) (hch.weaken (by omega))
  have hD := Ev.seq_ok (F := nm.length + 123) hC ((skip_at '}' ('}' :: tail) (by decide) (p + 2 + nm.length + 1 + 1)).weaken (by omega))
    ((trail_tilde_none '}' ('}' :: tail) (p + 2 + nm.length + 1 + 1) (by decide)).weaken (by omega))
  have hEnd := Ev.seq_ok (F := nm.length + 124) hD ((skip_at '}' ('}' :: tail) (by decide) (p + 2 + nm.length + 1 + 1)).weaken (by omega))
    (Ev.str_ok (F := nm.length + 123) (s := ['}', '}']) (st' := ⟨p + 2 + nm.length + 1 + 1 + 2, tail⟩) (by simp [matchStr]))
  have hr := Ev.rule_ok (G := rules) (ws := ws) (atom := .nonAtomic) (r := Rule.r_expression) (F := nm.length + 124 + 1 + 8)
    (st := ⟨p, '{' :: '{' :: c0 :: x⟩) (st' := ⟨p + 2 + nm.length + 1 + 1 + 2, tail⟩) (E.of_nf (atom := .nonAtomic) .r_expression expression_nf hEnd)
  have hty2 : (rules .r_expression).ty = .normal := rfl
  simp only [hty2] at hr
  have e1 : p + 2 + nm.length + 1 + 1 + 2 = p + (nm.length + 6) := by omega
  rw [e1] at hr
  have hraw : E 40 .nonAtomic (.rule .r_raw_text) ⟨p, '{' :: '{' :: c0 :: x⟩ .fail := raw_text_open_fail p (c0 :: x)
  rw [templateAlt_eq, altsBefore_eq, hsrc]
  unfold alts4
  have h2 := Ev.choice_right (F := nm.length + 140) (hraw.weaken (by omega)) (hr.weaken (by omega))
  have := Ev.choice_left (b := .rule .r_partial_block) (Ev.choice_left (b := .rule .r_partial_expression)
    (Ev.choice_left (b := .rule .r_decorator_block) (Ev.choice_left (b := .rule .r_decorator_expression)
      (Ev.choice_left (b := .rule .r_hbs_comment_compact) (Ev.choice_left (b := .rule .r_hbs_comment)
        (Ev.choice_left (b := .rule .r_raw_block) (Ev.choice_left (b := .rule .r_helper_block) (Ev.choice_left (b := .rule .r_html_expression) h2))))))))
  have hlenT : (callNSrc nm).length = nm.length + 6 := by simp [callNSrc]
  have := this.weaken (F' := nm.length + 160) (by omega)
  simpa [callNToks, shiftTok, hlenT, Nat.add_comm, Nat.add_left_comm, Nat.add_assoc] using this

end Hbs.PlainText
